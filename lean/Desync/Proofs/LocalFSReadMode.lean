/-
  Bit-level facts for the reading side of `LocalFS`: what `lstat`'s `st_mode` (type bits | twelve low bits) becomes
  in `os.FileMode`, in the archive's mode field and in `tar()`'s node-type tests, and the range of the device numbers
  `Next` splits out of `st_rdev`.
-/
import Desync.Model.LocalFSRead
import Desync.Proofs.ModeProofs

namespace Desync.LFS
open Desync Desync.Mode

/-- the five file types a catar archive of a tree on disk holds, plus the two `tar()` skips -/
def ArchType (T : UInt32) : Prop := T = S_IFDIR ∨ T = S_IFREG ∨ T = S_IFLNK ∨ T = S_IFCHR ∨ T = S_IFBLK

def SpecialType (T : UInt32) : Prop := T = S_IFIFO ∨ T = S_IFSOCK

/-! ### small bit-level toolkit (32-bit analogues of the private helpers of `ModeProofs`) -/

private theorem bv32_eq_and_mask (x : BitVec 32) (n : Nat) (hn : n ≤ 32) (h : x.toNat < 2 ^ n) :
    x = x &&& BitVec.ofNat 32 (2 ^ n - 1) := by
  apply BitVec.eq_of_toNat_eq
  have h32 : 2 ^ n - 1 < 2 ^ 32 :=
    Nat.lt_of_lt_of_le (Nat.sub_lt (Nat.two_pow_pos n) Nat.one_pos) (Nat.pow_le_pow_right (by decide) hn)
  rw [BitVec.toNat_and, BitVec.toNat_ofNat, Nat.mod_eq_of_lt h32,
    Nat.and_two_pow_sub_one_of_lt_two_pow h]

/-- a single-bit mask either misses or hits -/
private theorem and_bit_cases32 (m k : UInt32) (i : Nat) (hk : k.toBitVec = BitVec.twoPow 32 i) :
    m &&& k = 0 ∨ m &&& k = k := by
  simp only [← UInt32.toBitVec_inj, UInt32.toBitVec_and, hk, BitVec.and_twoPow]
  by_cases h : m.toBitVec.getLsbD i <;> simp [h]

/-- the twelve low bits are twelve bits -/
private theorem perm_mask (P : Nat) : UInt32.ofNat (P % 4096) = UInt32.ofNat (P % 4096) &&& 0xfff := by
  have hlt : P % 4096 < 4096 := Nat.mod_lt _ (by decide)
  have h := bv32_eq_and_mask (UInt32.ofNat (P % 4096)).toBitVec 12 (by decide) (by
    show (UInt32.ofNat (P % 4096)).toNat < _
    rw [UInt32.toNat_ofNat']
    exact Nat.lt_of_le_of_lt (Nat.mod_le _ _) hlt)
  rw [← UInt32.toBitVec_inj, UInt32.toBitVec_and]
  exact h

/-- the seven types as literals -/
private theorem seven_types (T : UInt32) (hT : ArchType T ∨ SpecialType T) :
    T = 0x4000 ∨ T = 0x8000 ∨ T = 0xa000 ∨ T = 0x2000 ∨ T = 0x6000 ∨ T = 0x1000 ∨ T = 0xc000 := by
  simp only [ArchType, SpecialType, S_IFDIR, S_IFREG, S_IFLNK, S_IFCHR, S_IFBLK, S_IFIFO, S_IFSOCK] at hT
  rcases hT with (h | h | h | h | h) | (h | h) <;> simp [h]

set_option linter.deprecated false in
/-- `rdev % 256` in the model elaborates to `UInt64 % Nat` (`UInt64.modn`) -/
private theorem u64_modn_256_toNat (x : UInt64) : (x % (256 : Nat)).toNat = x.toNat % 256 := by
  show (UInt64.modn x 256).toBitVec.toNat = x.toBitVec.toNat % 256
  unfold UInt64.modn
  simp
  omega

/-! ### `st_mode` -/

theorem mode_type (T : UInt32) (hT : ArchType T ∨ SpecialType T) (P : Nat) :
    (T ||| UInt32.ofNat (P % 4096)) &&& S_IFMT = T := by
  rw [perm_mask P]
  generalize UInt32.ofNat (P % 4096) = p
  rcases seven_types T hT with h | h | h | h | h | h | h <;> subst h <;>
  simp only [S_IFMT, ← UInt32.toBitVec_inj, UInt32.toBitVec_and, UInt32.toBitVec_or, UInt32.toBitVec_ofNat,
    BitVec.and_or_distrib_right, BitVec.and_assoc, BitVec.reduceAnd, BitVec.and_zero, BitVec.or_zero]

/-- nothing above the sixteen bits of a Linux `st_mode` -/
theorem mode_hi (T : UInt32) (hT : ArchType T ∨ SpecialType T) (P : Nat) :
    (T ||| UInt32.ofNat (P % 4096)) &&& 0xffff0000 = 0 := by
  rw [perm_mask P]
  generalize UInt32.ofNat (P % 4096) = p
  rcases seven_types T hT with h | h | h | h | h | h | h <;> subst h <;>
  simp only [← UInt32.toBitVec_inj, UInt32.toBitVec_and, UInt32.toBitVec_or, UInt32.toBitVec_ofNat,
    BitVec.and_or_distrib_right, BitVec.and_assoc, BitVec.reduceAnd, BitVec.and_zero, BitVec.or_zero]

/-- `st_mode` → `os.FileMode` → archive mode field: unchanged -/
theorem mode_read_back (T : UInt32) (hT : ArchType T ∨ SpecialType T) (P : Nat) :
    filemodeToStat (statToFilemode (T ||| UInt32.ofNat (P % 4096))) = T ||| UInt32.ofNat (P % 4096) := by
  apply Mode.stat_roundtrip _ (mode_hi T hT P)
  rw [mode_type T hT P]
  simp only [ArchType, SpecialType] at hT
  rcases hT with (h | h | h | h | h) | (h | h) <;> subst h <;> decide

/-- the low twelve bits of the archive's mode field are the object's -/
theorem mode_low12 (T : UInt32) (hT : ArchType T ∨ SpecialType T) (P : Nat) :
    (T ||| UInt32.ofNat (P % 4096)).toUInt64.toNat % 4096 = P % 4096 := by
  have hlt : P % 4096 < 4096 := Nat.mod_lt _ (by decide)
  rw [UInt32.toNat_toUInt64, UInt32.toNat_or, UInt32.toNat_ofNat',
    Nat.mod_eq_of_lt (Nat.lt_trans hlt (by decide : 4096 < 2 ^ 32)),
    show (4096 : Nat) = 2 ^ 12 from rfl, Nat.or_mod_two_pow, Nat.mod_mod]
  have h0 : T.toNat % 2 ^ 12 = 0 := by
    rcases seven_types T hT with h | h | h | h | h | h | h <;> subst h <;> decide
  rw [h0, Nat.zero_or]

theorem mode_toUInt32 (m : UInt32) : m.toUInt64.toUInt32 = m := by simp

set_option maxRecDepth 4000 in
/-- which branch of `tar()` a node takes depends on the type nibble of `st_mode` only -/
theorem kind_of_stat (m : UInt32) (T : UInt32) (ht : m &&& S_IFMT = T) :
    (T = S_IFDIR → kindOfFilemode (statToFilemode m) = .dir) ∧
    (T = S_IFREG → kindOfFilemode (statToFilemode m) = .reg) ∧
    (T = S_IFLNK → kindOfFilemode (statToFilemode m) = .symlink) ∧
    (T = S_IFCHR ∨ T = S_IFBLK → kindOfFilemode (statToFilemode m) = .device) ∧
    (T = S_IFIFO ∨ T = S_IFSOCK → kindOfFilemode (statToFilemode m) = .other) := by
  have hu := and_bit_cases32 m 0x800 11 (by decide)
  have hg := and_bit_cases32 m 0x400 10 (by decide)
  have hv := and_bit_cases32 m 0x200 9 (by decide)
  simp only [S_IFMT, S_IFBLK, S_IFCHR, S_IFDIR, S_IFIFO, S_IFLNK, S_IFSOCK, S_IFREG] at ht ⊢
  refine ⟨?_, ?_, ?_, ?_, ?_⟩ <;> intro hT
  case' refine_4 => rcases hT with hT | hT
  case' refine_5 => rcases hT with hT | hT
  all_goals
    rw [hT] at ht
    rcases hu with hu | hu <;> rcases hg with hg | hg <;> rcases hv with hv | hv <;>
    · simp [statToFilemode, S_IFMT, S_IFBLK, S_IFCHR, S_IFDIR, S_IFIFO, S_IFLNK, S_IFSOCK,
        S_ISUID, S_ISGID, S_ISVTX, ModeDir, ModeSymlink, ModeDevice, ModeNamedPipe, ModeSocket, ModeSetuid,
        ModeSetgid, ModeCharDevice, ModeSticky, ht, hu, hg, hv]
      simp only [kindOfFilemode, ModeDir, ModeSymlink, ModeDevice, ModeNamedPipe, ModeSocket,
        ModeCharDevice, ModeIrregular, ModeType,
        ← UInt32.toBitVec_inj, UInt32.toBitVec_and, UInt32.toBitVec_or, UInt32.toBitVec_ofNat, ne_eq,
        BitVec.and_or_distrib_right, BitVec.and_assoc, BitVec.or_assoc, BitVec.reduceAnd, BitVec.reduceOr,
        BitVec.reduceEq, BitVec.and_zero, BitVec.zero_or, BitVec.or_zero, if_true, if_false, not_true,
        not_false_eq_true]

/-- which branch of `tar()` a node takes -/
theorem kind_of_mode (T : UInt32) (P : Nat) :
    (T = S_IFDIR → kindOfFilemode (statToFilemode (T ||| UInt32.ofNat (P % 4096))) = .dir) ∧
    (T = S_IFREG → kindOfFilemode (statToFilemode (T ||| UInt32.ofNat (P % 4096))) = .reg) ∧
    (T = S_IFLNK → kindOfFilemode (statToFilemode (T ||| UInt32.ofNat (P % 4096))) = .symlink) ∧
    (T = S_IFCHR ∨ T = S_IFBLK → kindOfFilemode (statToFilemode (T ||| UInt32.ofNat (P % 4096))) = .device) ∧
    (T = S_IFIFO ∨ T = S_IFSOCK → kindOfFilemode (statToFilemode (T ||| UInt32.ofNat (P % 4096))) = .other) := by
  have h := fun hT => kind_of_stat (T ||| UInt32.ofNat (P % 4096)) T (mode_type T hT P)
  refine ⟨fun e => (h (by simp [ArchType, e])).1 e, fun e => (h (by simp [ArchType, e])).2.1 e,
    fun e => (h (by simp [ArchType, e])).2.2.1 e, fun e => (h ?_).2.2.2.1 e, fun e => (h ?_).2.2.2.2 e⟩
  · rcases e with e | e <;> simp [ArchType, e]
  · rcases e with e | e <;> simp [SpecialType, e]

theorem lnk_mode : S_IFLNK ||| (0o777 : UInt32) = S_IFLNK ||| UInt32.ofNat (0o777 % 4096) := by decide

/-- `(Rdev >> 8) & 0xfff` and `(Rdev % 256) | ((Rdev & 0xfff00000) >> 12)` fit 12 and 20 bits -/
theorem rdev_ranges (r : UInt64) : rdevMajor r < 4096 ∧ rdevMinor r < 1048576 := by
  constructor
  · rw [UInt64.lt_iff_toNat_lt, rdevMajor, UInt64.toNat_and]
    exact Nat.lt_of_le_of_lt Nat.and_le_right (by decide)
  · rw [UInt64.lt_iff_toNat_lt, rdevMinor, UInt64.toNat_or]
    show _ < 2 ^ 20
    apply Nat.or_lt_two_pow
    · have h : (r % (256 : Nat)).toNat = r.toNat % 256 := u64_modn_256_toNat r
      rw [h]
      exact Nat.lt_trans (Nat.mod_lt _ (by decide)) (by decide)
    · rw [UInt64.toNat_shiftRight, UInt64.toNat_and, Nat.shiftRight_eq_div_pow]
      have h : r.toNat &&& (0xfff00000 : UInt64).toNat ≤ 0xfff00000 := Nat.and_le_right
      show _ < 1048576
      have : (12 : UInt64).toNat % 64 = 12 := by decide
      rw [this]
      omega

theorem rdev_zero : rdevMajor 0 = 0 ∧ rdevMinor 0 = 0 := by decide

/-- numbers in range survive `UInt64.ofNat ∘ toNat` -/
theorem u64_ofNat_toNat (x : UInt64) : UInt64.ofNat x.toNat = x := by simp

/-- the type bits `CreateDevice` hands to `mknod` for a record the reader produced -/
theorem mknodType_read (T : UInt32) (hT : ArchType T ∨ SpecialType T) (P : Nat) (m : Meta)
    (hm : m.mode = (T ||| UInt32.ofNat (P % 4096)).toUInt64) : mknodType m = T.toNat := by
  rw [mknodType, hm, mode_toUInt32, mode_read_back T hT P, mode_type T hT P]

/-- ... and read back from the node -/
theorem ofNat_toNat_u32 (T : UInt32) : UInt32.ofNat T.toNat = T := by simp

end Desync.LFS
