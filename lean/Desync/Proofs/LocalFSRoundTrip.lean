/-
  **File-system round trip**: `UnTar` of the archive of a well-formed tree onto a destination that does
  not exist yet returns nil and leaves, at and beneath the destination, exactly the tree — every
  directory, file, symbolic link and device node at its path with its contents / target / device numbers,
  the owner, mode and extended attributes the options ask for and the archived modification time set explicitly, also on the
  directories that got children after they were created (that is what `finish` is for).

  * `LocalFSRoundTripBridge` : `untarFS` = apply the nodes of `untar`, then `finish`
  * `LocalFSRoundTripCalls`  : the system calls and the four methods *succeed* on a fresh destination
  * `LocalFSRoundTripTree`   : `Tree.lay` / `Tree.expect` / `Tree.times`, list-level facts
  * `LocalFSRoundTripApply`  : induction over the tree
  * this file                : `finish`, the theorem, an example
-/
import Desync.Proofs.LocalFSRoundTripApply

namespace Desync.LFS
open Desync

/-! ### `finish` -/

theorem finishFrom_ok : ∀ (ds : List (List Name × Nat)) (fs : FS), TimesGood fs ds →
    ∃ fs', finishFrom fs ds = (fs', true) ∧
      ∀ q, fs'.get q = withTime (ds.reverse.lookup q) (fs.get q)
  | [], fs, _ => ⟨fs, rfl, fun q => by simp [withTime]⟩
  | d :: ds, fs, h => by
    obtain ⟨dp, dt⟩ := d
    obtain ⟨hN, hS, hne, hA⟩ := h (dp, dt) (by simp)
    simp only at hN hS hne hA
    obtain ⟨a, m, hg⟩ := hA dp [] (by simp) hne
    have hG : Good fs dp := ⟨hN, hS, hne, fun Q R e hQ _ => by simpa using hA Q R e hQ⟩
    have hch := chtimes_some dt hG hg (by intro t a' lm e; cases e)
    have hget : ∀ q, (fs.set dp ((Obj.dir a m).withMtime (some dt))).get q =
        if q = dp then some (.dir a (some dt)) else fs.get q := fun q => by
      rw [get_set]; rfl
    obtain ⟨fs', h1, h2⟩ := finishFrom_ok ds (fs.set dp ((Obj.dir a m).withMtime (some dt)))
      (by
        intro e he
        obtain ⟨eN, eS, ene, eA⟩ := h e (by simp [he])
        refine ⟨eN, eS, ene, ?_⟩
        intro Q R e' hQ
        rw [hget Q]
        split
        · exact ⟨a, some dt, rfl⟩
        · exact eA Q R e' hQ)
    refine ⟨fs', by simp only [finishFrom, hch]; exact h1, ?_⟩
    intro q
    rw [h2 q, hget q]
    simp only [List.reverse_cons, List.lookup_append]
    by_cases hq : q = dp
    · subst hq
      cases (ds.reverse).lookup q with
      | none => simp [withTime, hg, Obj.withMtime]
      | some τ => simp [withTime, hg, Obj.withMtime]
    · have hb : (q == dp) = false := by simpa using hq
      cases (ds.reverse).lookup q with
      | none => simp [withTime, List.lookup_cons, hb, hq]
      | some τ => simp [withTime, hq]

/-! ### the theorem -/

theorem properDirs_root {fs : FS} {root : List Name} (h : RootOK fs root) : ProperDirs fs root := by
  intro Q R e hQ hR
  simpa using above_of_frame h (Frame.refl _ _) e hQ hR

/-- the mtime the destination directory ends with: the archived one when there is one; otherwise
    whatever `createDir` left (`M₁`), unless children were created in it after that -/
def rootMtime (r : FileRec) (cs : List Tree) (M₁ : Option Nat) : Option Nat :=
  if r.mtime = 0 then (if cs.isEmpty then M₁ else none) else some r.mtime.toNat

/-- everything after the root node: the children are written into the destination directory (object
    `.dir A M₁`, nothing beneath it), then `finish` runs -/
theorem untar_children (o : Opts) (root : List Name) (r : FileRec) (cs : List Tree) (s1 : LState)
    (A : Attr) (M₁ : Option Nat) (hrv : ∀ c ∈ root, validName c = true) (hshort : Short root)
    (hne : root ≠ []) (hcs : Tree.WFList r.path [r.path] cs) (hnames : (Tree.dir r cs).Names)
    (hfit : ∀ f ∈ Tree.recordsList cs, XattrsFit o f)
    (hroot1 : s1.fs.get root = some (.dir A M₁)) (hAD : AllDirs s1.fs root)
    (hnd1 : ∀ q, root <+: q → q ≠ root → s1.fs.get q = none)
    (ht1 : s1.dirTimes = if r.mtime = 0 then [] else [(root, r.mtime.toNat)]) :
    ∃ fs', finishAll (applyAll o root s1 (Tree.nodesList [dot] cs)) = (fs', true) ∧
      ∀ p, root <+: p →
        fs'.get p = (((root, Obj.dir A (rootMtime r cs M₁)) :: Tree.expectList o root cs).lookup p) := by
  simp only [Tree.Names] at hnames
  obtain ⟨hnd, hnms⟩ := hnames
  have htg1 : TimesGood s1.fs s1.dirTimes := by
    rw [ht1]
    intro e he
    split at he
    · simp at he
    · simp only [List.mem_singleton] at he
      subst he
      exact ⟨normal_of_valid hrv, hshort, hne, hAD⟩
  obtain ⟨s2, h2, g2, t2, htg2⟩ := apply_list o root hrv hshort cs [dot] [] root r.path
    [r.path] s1 rep_dot (by simp) (by intro c hc; cases hc) hcs hnms hfit hnd hAD
    (by
      intro t _ q hq
      exact hnd1 q ((List.prefix_append _ _).trans hq) (region_ne_par hq))
    (by
      intro t _ e he hp
      rw [ht1] at he
      split at he
      · simp at he
      · simp only [List.mem_singleton] at he
        subst he
        exact not_prefix_snoc_self _ _ hp)
    htg1
  rw [h2]
  obtain ⟨fs', hf1, hf2⟩ := finishFrom_ok s2.dirTimes.reverse s2.fs
    (fun e he => htg2 e (List.mem_reverse.1 he))
  refine ⟨fs', by simp only [finishAll, finish, hf1], ?_⟩
  intro p hp
  rw [hf2 p, List.reverse_reverse, t2, ht1, g2 p, List.lookup_append]
  by_cases hq : p = root
  · subst hq
    rw [Tree.layList_lookup_none (no_region_self cs p), Tree.timesList_lookup_none (no_region_self cs p),
      hroot1]
    unfold rootMtime
    by_cases h0 : r.mtime = 0
    · cases cs with
      | nil => simp [h0, withTime]
      | cons g gs => simp [h0, withTime, touchObj]
    · cases cs with
      | nil => simp [h0, withTime, Obj.withMtime]
      | cons g gs => simp [h0, withTime, touchObj, Obj.withMtime]
  · have hbq : (p == root) = false := by simpa using hq
    have h1 : (if r.mtime = 0 then [] else [(root, r.mtime.toNat)]).lookup p = none := by
      split
      · rfl
      · simp [List.lookup_cons, hbq]
    rw [h1, hnd1 p hp hq]
    simp only [hq, false_and, if_false, Option.none_or, Option.or_none, List.lookup_cons, hbq]
    exact (Tree.layList_fin o cs root p hnd hnms).symm

/-- **MAIN THEOREM (file-system round trip)**.  `r` is the root record (a directory; its name plays no
    role), `cs` its children.  Hypotheses:
    * `hroot`, `hshort`: the destination is a non-empty path of valid components that fit `NAME_MAX`, and
      all its proper prefixes — its parent in particular — are real directories;
    * `hfresh`: nothing exists at or beneath the destination;
    * `hrk hrx hsize hcs`: the hypotheses of `untar_tar_tree` (the tree is what a file-system reader
      produces);
    * `hnames`: names in the tree fit `NAME_MAX`, siblings have distinct names (recursively);
    * `hfit`: when owner and extended attributes are restored (`noSameOwner = false`), no symbolic link or
      device record carries a `user.*` extended attribute (the kernel refuses those: EPERM, and `UnTar`
      fails — `createSymlink_user_xattr_fails`).
    (That the extended-attribute keys of one record are pairwise distinct is part of `XattrsOK`, hence of
    `hrx` and `hcs`.)
    Conclusion: `UnTar` returns nil, and at every path at or beneath the destination the file system
    holds exactly what the tree says — for a directory its attributes (`attrOfRec`: archived owner, archived
    permission + set-id + sticky bits, archived xattrs, as far as the options restore them) and the archived
    mtime (`mtimeOf`:
    `some mtime`, or `none` when the archived mtime is 0, in which case `LocalFS` never sets one),
    whether or not it got children after it was created; for a regular file and a device node likewise;
    for a symbolic link its target, its attributes (`linkAttrOfRec`: archived owner and xattrs) and its
    own archived mtime (`mtimeOf` again: `CreateSymlink` sets it with the no-follow call `lchtimes`). -/
theorem untar_creates_tree (o : Opts) (root : List Name) (fs : FS) (r : FileRec) (cs : List Tree)
    (b : Bytes)
    (hroot : RootOK fs root) (hshort : Short root)
    (hfresh : ∀ p, root <+: p → fs.get p = none)
    (hrk : r.kind = .dir) (hrx : XattrsOK r.xattrs) (hsize : 16 + (cs.length + 1) * 24 < 2 ^ 64)
    (hcs : Tree.WFList r.path [r.path] cs)
    (hnames : (Tree.dir r cs).Names)
    (hfit : ∀ f ∈ (Tree.dir r cs).records, XattrsFit o f)
    (hb : tarStream (Tree.dir r cs).records = some b) :
    (untarFS o root fs b).2 = true ∧
    ∀ p, root <+: p →
      ((untarFS o root fs b).1).get p =
        (((root, Obj.dir (attrOfRec o r) (mtimeOf r)) :: Tree.expectList o root cs).lookup p) := by
  obtain ⟨b', hb', hun⟩ := untar_tar_tree r cs hrk hrx hsize hcs
  rw [hb] at hb'
  cases hb'
  rw [← Tree.nodesList_eq_flatMap] at hun
  rw [untarFS_of_untar o root fs b _ hun]
  -- the root node
  have hdst : dstOf root [dot] = root := by
    rw [dstOf_eq, rep_pathOf rep_dot, List.append_nil]
  have hG : Good fs root :=
    ⟨normal_of_valid hroot.comps_valid, hshort, hroot.ne, properDirs_root hroot⟩
  have hn := hfresh root (List.prefix_refl _)
  obtain ⟨s1, h1, hc, ht1⟩ := createDir_fresh o root { fs := fs } [dot] (metaOf r)
    (by rw [hdst]; exact hG) (by rw [hdst]; exact hn) hrx.2
  rw [hdst] at hc ht1
  simp only [List.nil_append] at ht1
  have hc' : Creates fs s1.fs root (.dir (attrM o (metaOf r)) (mtimeM (metaOf r))) := hc
  have hAD : AllDirs s1.fs root := by
    intro Q R e hQ
    rw [hc' Q]
    by_cases hq : Q = root
    · rw [if_pos hq]; exact ⟨_, _, rfl⟩
    · rw [if_neg hq]
      have hR : R ≠ [] := by
        rintro rfl
        exact hq (by simpa using e.symm)
      have := above_of_frame hroot (Frame.refl _ _) e hQ hR
      split
      · exact isDir_touchObj this
      · exact this
  have hnd1 : ∀ q, root <+: q → q ≠ root → s1.fs.get q = none := by
    intro q hq hne
    have hne' : q ≠ root.dropLast := by
      rintro rfl
      exact prefix_dropLast_false hroot.ne hq
    rw [hc' q, if_neg hne, if_neg hne']
    exact hfresh q hq
  obtain ⟨fs', hf, hg⟩ := untar_children o root r cs s1 _ _ hroot.comps_valid hshort hroot.ne hcs
    hnames (fun f hf => hfit f (by simp [Tree.records, hf])) hc'.get_self hAD hnd1 ht1
  rw [applyAll_cons_ok o root (by simpa [applyNode, metaOf] using h1), hf]
  refine ⟨rfl, ?_⟩
  intro p hp
  rw [hg p hp]
  have : rootMtime r cs (mtimeM (metaOf r)) = mtimeOf r := by
    unfold rootMtime mtimeOf
    by_cases h0 : r.mtime = 0
    · simp [h0, mtimeM, metaOf]
    · simp [h0]
  rw [this, attrOfRec_eq]

/-- the attributes `setPerms` leaves on the destination directory when it existed before with attributes
    `a₀`: under `noSameOwner` it keeps its owner and its extended attributes, otherwise it gets the archived
    owner, and the archived extended attributes are set one by one (`xaSet`) on top of its own; under
    `noSamePermissions` it keeps its mode (a directory's set-id bits survive `chown`), otherwise it gets the
    archived one -/
def attrOnto (o : Opts) (f : FileRec) (a₀ : Attr) : Attr :=
  { owner := if o.noSameOwner then a₀.owner else some (f.uid.toNat, f.gid.toNat)
    mode := if o.noSamePermissions then a₀.mode else some (f.mode.toNat % 4096)
    xattrs := if o.noSameOwner then a₀.xattrs
      else f.xattrs.foldl (fun m kv => xaSet m kv.1 kv.2) a₀.xattrs }

theorem permsAttr_dir (o : Opts) (f : FileRec) (a₀ : Attr) :
    permsAttr o (metaOf f) true a₀ = attrOnto o f a₀ := by
  unfold permsAttr attrOnto
  cases o.noSameOwner <;> cases o.noSamePermissions <;> rfl

/-- **the same onto an existing, empty, real directory**: no `mkdir`; the destination keeps its old
    owner / mode / extended attributes where the options skip the call and gets the archived ones otherwise
    (`attrOnto`); its mtime is the archived one, or — when
    the archive records none (0) — the old one `m₀` if the tree has no children and "now" otherwise.
    Everything beneath the destination is exactly the tree, as in `untar_creates_tree`. -/
theorem untar_into_empty_dir (o : Opts) (root : List Name) (fs : FS) (r : FileRec) (cs : List Tree)
    (b : Bytes) (a₀ : Attr) (m₀ : Option Nat)
    (hroot : RootOK fs root) (hshort : Short root)
    (hdir : fs.get root = some (.dir a₀ m₀))
    (hempty : ∀ p, root <+: p → p ≠ root → fs.get p = none)
    (hrk : r.kind = .dir) (hrx : XattrsOK r.xattrs) (hsize : 16 + (cs.length + 1) * 24 < 2 ^ 64)
    (hcs : Tree.WFList r.path [r.path] cs)
    (hnames : (Tree.dir r cs).Names)
    (hfit : ∀ f ∈ (Tree.dir r cs).records, XattrsFit o f)
    (hb : tarStream (Tree.dir r cs).records = some b) :
    (untarFS o root fs b).2 = true ∧
    ∀ p, root <+: p →
      ((untarFS o root fs b).1).get p =
        (((root, Obj.dir (attrOnto o r a₀) (rootMtime r cs m₀)) :: Tree.expectList o root cs).lookup p) := by
  obtain ⟨b', hb', hun⟩ := untar_tar_tree r cs hrk hrx hsize hcs
  rw [hb] at hb'
  cases hb'
  rw [← Tree.nodesList_eq_flatMap] at hun
  rw [untarFS_of_untar o root fs b _ hun]
  have hdst : dstOf root [dot] = root := by
    rw [dstOf_eq, rep_pathOf rep_dot, List.append_nil]
  have hG : Good fs root :=
    ⟨normal_of_valid hroot.comps_valid, hshort, hroot.ne, properDirs_root hroot⟩
  obtain ⟨s1, h1, hoth, hself, ht1⟩ := createDir_existing o root { fs := fs } [dot] (metaOf r)
    (a₀ := a₀) (m₀ := m₀) (by rw [hdst]; exact hG) (by rw [hdst]; exact hdir)
  rw [hdst] at hoth hself ht1
  simp only [List.nil_append] at ht1
  have hoth' : ∀ p, p ≠ root → s1.fs.get p = fs.get p := hoth
  have hAD : AllDirs s1.fs root := by
    intro Q R e hQ
    by_cases hq : Q = root
    · rw [hq, hself]; exact ⟨_, _, rfl⟩
    · rw [hoth' Q hq]
      have hR : R ≠ [] := by
        rintro rfl
        exact hq (by simpa using e.symm)
      exact above_of_frame hroot (Frame.refl _ _) e hQ hR
  have hnd1 : ∀ q, root <+: q → q ≠ root → s1.fs.get q = none := by
    intro q hq hne
    rw [hoth' q hne]
    exact hempty q hq hne
  obtain ⟨fs', hf, hg⟩ := untar_children o root r cs s1 _ _ hroot.comps_valid hshort hroot.ne hcs
    hnames (fun f hf => hfit f (by simp [Tree.records, hf])) hself hAD hnd1 ht1
  rw [applyAll_cons_ok o root (by simpa [applyNode, metaOf] using h1), hf]
  refine ⟨rfl, ?_⟩
  intro p hp
  rw [hg p hp]
  have : rootMtime r cs (if (metaOf r).mtime = 0 then m₀ else some (metaOf r).mtime.toNat)
      = rootMtime r cs m₀ := by
    unfold rootMtime
    by_cases h0 : r.mtime = 0
    · simp [h0, metaOf]
    · simp [h0]
  rw [this, permsAttr_dir]

/-! ### the statement is not vacuous -/

namespace RoundTripExample

def nSrv : Bytes := [115, 114, 118]                           -- "srv"
def nDest : Bytes := [100, 101, 115, 116]                     -- "dest"
def nSub : Bytes := [115, 117, 98]                            -- "sub"
def nF : Bytes := [102]                                       -- "f"
def nL : Bytes := [108]                                       -- "l"
def nTop : Bytes := [116, 111, 112]                           -- "top"
def pSub : Bytes := nSub                                      -- path "sub"
def tgt : Bytes := [47, 101, 116, 99]                         -- "/etc"

def xaA : Bytes × Bytes := ([117, 115, 101, 114, 46, 97], [1])     -- user.a = 01
def xaB : Bytes × Bytes := ([117, 115, 101, 114, 46, 98], [2])     -- user.b = 02

def aSrv : Attr := { owner := some (3, 3), mode := some 0o755, xattrs := [] }
/-- the attributes of the existing /srv/dest of `fs1`: set-group-ID directory with an xattr of its own -/
def aOld : Attr := { owner := some (5, 5), mode := some 0o2700, xattrs := [xaB] }

/-- /srv exists, /srv/dest does not -/
def fs0 : FS := [([nSrv], .dir aSrv (some 4))]
/-- /srv/dest exists and is empty -/
def fs1 : FS := [([nSrv], .dir aSrv (some 4)), ([nSrv, nDest], .dir aOld (some 6))]

def root : List Name := [nSrv, nDest]
def opts : Opts := ⟨false, false⟩

def rec0 : FileRec :=
  { base := [], path := [dot], parent := [], kind := .dir, mode := 0o40755, uid := 0, gid := 0, mtime := 11,
    size := 0, data := [], target := [], major := 0, minor := 0, xattrs := [] }

/-- the root record: a directory, mtime 11, one extended attribute -/
def rRoot : FileRec := { rec0 with xattrs := [xaA] }
/-- "sub": a set-group-ID directory (02775) of 1000:100, mtime 7, holding a file and a symbolic link -/
def rSub : FileRec :=
  { rec0 with base := nSub, path := pSub, parent := [dot], mode := 0o42775, uid := 1000, gid := 100, mtime := 7 }
/-- "sub/f": a set-user-ID regular file (04755) "abc" of 1000:100, mtime 5, one extended attribute -/
def rF : FileRec :=
  { rec0 with base := nF, path := pSub ++ [slash] ++ nF, parent := pSub, kind := .reg, mode := 0o104755,
              uid := 1000, gid := 100, mtime := 5, size := 3, data := [97, 98, 99], xattrs := [xaA] }
/-- "sub/l" -> "/etc", mtime 9 -/
def rL : FileRec :=
  { rec0 with base := nL, path := pSub ++ [slash] ++ nL, parent := pSub, kind := .symlink, mode := 0o120777,
              mtime := 9, target := tgt }
/-- "top": an empty directory with no recorded mtime -/
def rTop : FileRec := { rec0 with base := nTop, path := nTop, parent := [dot], mtime := 0 }

def kids : List Tree := [.dir rSub [.leaf rF, .leaf rL], .dir rTop []]

def archive : Bytes := (Tree.dir rRoot kids).body

theorem rootOK_of (fs : FS) (h1 : fs.get [nSrv] = some (.dir aSrv (some 4)))
    (h2 : ∀ t a m, fs.get root ≠ some (.symlink t a m)) : RootOK fs root where
  ne := by decide
  comps_valid := by decide
  above := by
    intro k h0 hk
    have : k = 1 := by simp [root] at hk; omega
    subst this
    exact ⟨_, _, h1⟩
  not_link := h2

theorem rootOK_0 : RootOK fs0 root := by
  refine rootOK_of fs0 (by decide) ?_
  intro t a lm h
  have : fs0.get root = none := by decide
  rw [this] at h
  cases h

theorem rootOK_1 : RootOK fs1 root := by
  refine rootOK_of fs1 (by decide) ?_
  intro t a lm h
  have : fs1.get root = some (.dir aOld (some 6)) := by decide
  rw [this] at h
  cases h

theorem short_root : Short root := by unfold Short; decide

theorem beq_false_of_longer {p : RPath} (h : root <+: p) : (p == [nSrv]) = false := by
  have := h.length_le
  cases hp : p == [nSrv] with
  | false => rfl
  | true =>
    have := eq_of_beq hp
    subst this
    simp [root] at *

theorem fresh_0 : ∀ p, root <+: p → fs0.get p = none := by
  intro p hp
  simp [fs0, FS.get, List.lookup_cons, beq_false_of_longer hp]

theorem empty_1 : ∀ p, root <+: p → p ≠ root → fs1.get p = none := by
  intro p hp hne
  have : (p == root) = false := by simpa using hne
  have h2 : (p == [nSrv, nDest]) = false := this
  simp [fs1, FS.get, List.lookup_cons, beq_false_of_longer hp, h2]

theorem root_xattrs_ok : XattrsOK rRoot.xattrs := by
  simp [XattrsOK, rRoot, rec0, xaA]

theorem kids_wf : Tree.WFList rRoot.path [rRoot.path] kids := by
  simp [kids, Tree.WFList, Tree.WF, LeafWF, XattrsOK, rRoot, rSub, rF, rL, rTop, rec0, xaA]
  decide

theorem kids_names : (Tree.dir rRoot kids).Names := by
  simp only [kids, Tree.Names, Tree.NamesList]
  decide

/-- the only symbolic link of the tree carries no extended attribute -/
theorem kids_fit (o : Opts) : ∀ f ∈ (Tree.dir rRoot kids).records, XattrsFit o f := by
  intro f hf
  simp only [kids, Tree.records, Tree.recordsList, List.append_nil, List.cons_append, List.nil_append,
    List.mem_cons, List.not_mem_nil, or_false] at hf
  intro _ hk kv hkv
  rcases hf with rfl | rfl | rfl | rfl | rfl <;>
    first | (rcases hk with hk | hk <;> cases hk; done) | cases hkv

theorem archive_ok : tarStream (Tree.dir rRoot kids).records = some archive :=
  tarStream_tree rRoot kids rfl kids_wf

/-- what the theorem says about this tree unpacked onto `/srv/dest` (which does not exist yet) -/
theorem facts_0 :
    (untarFS opts root fs0 archive).2 = true ∧
    ∀ p, root <+: p → ((untarFS opts root fs0 archive).1).get p =
      (((root, Obj.dir (attrOfRec opts rRoot) (mtimeOf rRoot)) :: Tree.expectList opts root kids).lookup p) :=
  untar_creates_tree opts root fs0 rRoot kids archive rootOK_0 short_root fresh_0 rfl
    root_xattrs_ok (by decide) kids_wf kids_names (kids_fit opts) archive_ok

/-- owner 0:0, mode 0755 -/
def aDir (xs : List (Bytes × Bytes)) : Attr := { owner := some (0, 0), mode := some 0o755, xattrs := xs }
/-- "sub": 1000:100, the set-group-ID bit is there -/
def aSub : Attr := { owner := some (1000, 100), mode := some 0o2775, xattrs := [] }
/-- "sub/f": 1000:100, the set-user-ID bit is there (`chown` came before `chmod`), and the xattr -/
def aF : Attr := { owner := some (1000, 100), mode := some 0o4755, xattrs := [xaA] }
/-- "sub/l": owner only -/
def aL : Attr := { owner := some (0, 0), mode := none, xattrs := [] }

/-- the expected content, evaluated -/
theorem expected_0 :
    (root, Obj.dir (attrOfRec opts rRoot) (mtimeOf rRoot)) :: Tree.expectList opts root kids =
      [(root, .dir (aDir [xaA]) (some 11)),
       (root ++ [nSub], .dir aSub (some 7)),
       (root ++ [nSub, nF], .file [97, 98, 99] aF (some 5)),
       (root ++ [nSub, nL], .symlink tgt aL (some 9)),
       (root ++ [nTop], .dir (aDir []) none)] := by
  simp only [Tree.expectList, Tree.layList, Tree.lay, kids]
  decide

/-- hence: both directories that got children after they were created end with their archived mtime set
    explicitly, the file (set-user-ID bit and xattr included) and the link (with its own archived
    mtime) are there, and nothing else is beneath the destination -/
example :
    (untarFS opts root fs0 archive).2 = true ∧
    (untarFS opts root fs0 archive).1.get root = some (.dir (aDir [xaA]) (some 11)) ∧
    (untarFS opts root fs0 archive).1.get (root ++ [nSub]) = some (.dir aSub (some 7)) ∧
    (untarFS opts root fs0 archive).1.get (root ++ [nSub, nF]) = some (.file [97, 98, 99] aF (some 5)) ∧
    (untarFS opts root fs0 archive).1.get (root ++ [nSub, nL]) = some (.symlink tgt aL (some 9)) ∧
    (untarFS opts root fs0 archive).1.get (root ++ [nTop]) = some (.dir (aDir []) none) ∧
    (untarFS opts root fs0 archive).1.get (root ++ [nSub, nTop]) = none := by
  obtain ⟨h1, h2⟩ := facts_0
  rw [expected_0] at h2
  refine ⟨h1, ?_, ?_, ?_, ?_, ?_, ?_⟩ <;>
    (first | rw [h2 _ (List.prefix_append _ _)] | rw [h2 _ (List.prefix_refl _)]) <;> decide

/-- cross-check by evaluation of the model itself (the theorem is not used) -/
example :
    (untarFS opts root fs0 archive).2 = true ∧
    (untarFS opts root fs0 archive).1.get root = some (.dir (aDir [xaA]) (some 11)) ∧
    (untarFS opts root fs0 archive).1.get (root ++ [nSub]) = some (.dir aSub (some 7)) ∧
    (untarFS opts root fs0 archive).1.get (root ++ [nSub, nF]) = some (.file [97, 98, 99] aF (some 5)) ∧
    (untarFS opts root fs0 archive).1.get (root ++ [nSub, nL]) = some (.symlink tgt aL (some 9)) := by
  decide +kernel

/-- onto the existing empty directory `/srv/dest` (5:5, mode 02700, user.b, mtime 6): same content; the
    destination gets the archived owner, mode and mtime, and the archived xattr next to its own -/
example :
    (untarFS opts root fs1 archive).2 = true ∧
    (untarFS opts root fs1 archive).1.get root = some (.dir (aDir [xaB, xaA]) (some 11)) ∧
    (untarFS opts root fs1 archive).1.get (root ++ [nSub]) = some (.dir aSub (some 7)) := by
  obtain ⟨h1, h2⟩ := untar_into_empty_dir opts root fs1 rRoot kids archive aOld (some 6) rootOK_1
    short_root (by decide) empty_1 rfl root_xattrs_ok (by decide) kids_wf kids_names (kids_fit opts)
    archive_ok
  refine ⟨h1, ?_, ?_⟩
  · rw [h2 _ (List.prefix_refl _)]; decide
  · rw [h2 _ (List.prefix_append _ _)]
    simp only [Tree.expectList, Tree.layList, Tree.lay, kids]
    decide

/-- the same with `noSameOwner`: the destination keeps its owner and its xattrs and gets the archived mode;
    with `noSamePermissions`: it keeps its mode, set-group-ID bit included, across the `chown` -/
example :
    (untarFS ⟨true, false⟩ root fs1 archive).1.get root =
      some (.dir { owner := some (5, 5), mode := some 0o755, xattrs := [xaB] } (some 11)) ∧
    (untarFS ⟨false, true⟩ root fs1 archive).1.get root =
      some (.dir { owner := some (0, 0), mode := some 0o2700, xattrs := [xaB, xaA] } (some 11)) := by
  constructor
  · rw [(untar_into_empty_dir ⟨true, false⟩ root fs1 rRoot kids archive aOld (some 6) rootOK_1
      short_root (by decide) empty_1 rfl root_xattrs_ok (by decide) kids_wf kids_names (kids_fit _)
      archive_ok).2 _ (List.prefix_refl _)]
    decide
  · rw [(untar_into_empty_dir ⟨false, true⟩ root fs1 rRoot kids archive aOld (some 6) rootOK_1
      short_root (by decide) empty_1 rfl root_xattrs_ok (by decide) kids_wf kids_names (kids_fit _)
      archive_ok).2 _ (List.prefix_refl _)]
    decide

end RoundTripExample

end Desync.LFS
