/-
  Proofs about the chunker model (`Desync.Model.Chunker`).
-/
import Desync.Model.Chunker
import Desync.Proofs.BuzhashProofs

namespace Desync

/-! ### windows -/

/-- the `winSize` bytes of `buf` ending at `k` -/
def winAt (buf : Bytes) (k : Nat) : Bytes := (buf.drop (k - winSize)).take winSize

theorem winSize_eq : winSize = 48 := by decide

theorem boundaryAt_eq (d : UInt32) (buf : Bytes) (k : Nat) :
    boundaryAt d buf k = Gen.isBoundary (hashWin (winAt buf k)) d := rfl

theorem take_window_succ (l : Bytes) (n : Nat) (hn : 0 < n) (hl : n < l.length) :
    ∃ out rest, l.take n = out :: rest ∧ (l.drop 1).take n = rest ++ [l[n]] := by
  match l, n, hn, hl with
  | out :: l', n' + 1, _, hl =>
    have hl' : n' < l'.length := by simpa using hl
    refine ⟨out, l'.take n', rfl, ?_⟩
    show l'.take (n' + 1) = l'.take n' ++ [l'[n']]
    exact List.take_succ_eq_append_getElem hl'

theorem winAt_succ (buf : Bytes) (pos : Nat) (h1 : winSize ≤ pos) (h2 : pos < buf.length) :
    ∃ out rest, winAt buf pos = out :: rest ∧ winAt buf (pos + 1) = rest ++ [buf[pos]] ∧
      (out :: rest).length = winSize := by
  have hw := winSize_eq
  have hl : winSize < (buf.drop (pos - winSize)).length := by simp; omega
  obtain ⟨out, rest, e1, e2⟩ := take_window_succ (buf.drop (pos - winSize)) winSize (by omega) hl
  refine ⟨out, rest, e1, ?_, ?_⟩
  · have h3 : pos + 1 - winSize = pos - winSize + 1 := by omega
    have h4 : (buf.drop (pos - winSize))[winSize] = buf[pos] := by
      rw [List.getElem_drop]; congr 1; omega
    rw [← h4, ← e2, List.drop_drop, winAt, h3]
  · rw [← e1]; simp; omega

theorem roll_winAt (buf : Bytes) (pos : Nat) (h1 : winSize ≤ pos) (h2 : pos < buf.length) :
    RollSt.roll ⟨hashWin (winAt buf pos), winAt buf pos⟩ buf[pos] =
      ⟨hashWin (winAt buf (pos + 1)), winAt buf (pos + 1)⟩ := by
  obtain ⟨out, rest, e1, e2, e3⟩ := winAt_succ buf pos h1 h2
  rw [e1, e2]
  simp only [RollSt.roll]
  rw [roll_eq_hashWin _ _ _ e3]

/-! ### (2) rolling loop = spec -/

theorem rollLoop_eq_firstBoundary (d : UInt32) (buf : Bytes) (m : Nat) (hm : m ≤ buf.length) :
    ∀ fuel pos, winSize ≤ pos → pos < m → m ≤ fuel + pos + 1 →
      rollLoop d m ⟨hashWin (winAt buf pos), winAt buf pos⟩ pos (buf.drop pos) =
        firstBoundary d buf m fuel (pos + 1) := by
  intro fuel
  induction fuel with
  | zero =>
    intro pos hw hp hf
    have hlt : pos < buf.length := by omega
    rw [List.drop_eq_getElem_cons hlt]
    have : pos + 1 ≥ m := by omega
    simp only [rollLoop, firstBoundary, this, if_true]
    omega
  | succ fuel ih =>
    intro pos hw hp hf
    have hlt : pos < buf.length := by omega
    rw [List.drop_eq_getElem_cons hlt]
    simp only [rollLoop, firstBoundary, roll_winAt buf pos hw hlt]
    by_cases h1 : pos + 1 ≥ m
    · rw [if_pos h1, if_pos h1]; omega
    · rw [if_neg h1, if_neg h1]
      by_cases hb : boundaryAt d buf (pos + 1) = true
      · have hb' : Gen.isBoundary (hashWin (winAt buf (pos + 1))) d = true := hb
        rw [if_pos hb, if_pos hb']
      · have hb' : ¬ Gen.isBoundary (hashWin (winAt buf (pos + 1))) d = true := hb
        rw [if_neg hb, if_neg hb']
        exact ih (pos + 1) (by omega) (by omega) (by omega)

theorem cutRoll_eq_cutSpec (p : ChunkParams) (buf : Bytes) (hmin : winSize ≤ p.min) :
    cutRoll p buf = cutSpec p buf := by
  unfold cutRoll cutSpec
  simp only [Gen.bufTooShort, decide_eq_true_eq]
  by_cases h1 : buf.length ≤ p.min
  · rw [if_pos h1, if_pos h1]
  · rw [if_neg h1, if_neg h1]
    generalize hm : (if buf.length < p.max then buf.length else p.max) = m
    have hmle : m ≤ buf.length := by rw [← hm]; split <;> omega
    by_cases h2 : p.min ≥ m
    · rw [if_pos h2, if_pos h2]
    · rw [if_neg h2, if_neg h2]
      exact rollLoop_eq_firstBoundary p.d buf m hmle m p.min hmin (by omega) (by omega)

/-! ### (3) bounds of one cut -/

theorem rollLoop_bounds (d : UInt32) (m : Nat) :
    ∀ (rest : Bytes) (s : RollSt) (pos : Nat), pos < m → m ≤ pos + rest.length →
      pos < rollLoop d m s pos rest ∧ rollLoop d m s pos rest ≤ m := by
  intro rest
  induction rest with
  | nil => intro s pos h1 h2; simp at h2; omega
  | cons b bs ih =>
    intro s pos h1 h2
    simp only [rollLoop]
    split
    · omega
    · split
      · omega
      · have := ih (s.roll b) (pos + 1) (by omega) (by simp at h2; omega)
        omega

/-- the three cases of `cutRoll` -/
theorem cutRoll_cases (p : ChunkParams) (buf : Bytes) :
    (buf.length ≤ p.min ∧ cutRoll p buf = buf.length) ∨
    (p.min < buf.length ∧ min buf.length p.max ≤ p.min ∧
      cutRoll p buf = min buf.length p.max) ∨
    (p.min < buf.length ∧ p.min < min buf.length p.max ∧
      cutRoll p buf = rollLoop p.d (min buf.length p.max)
        ⟨hashWin (winAt buf p.min), winAt buf p.min⟩ p.min (buf.drop p.min)) := by
  have hmeq : (if buf.length < p.max then buf.length else p.max) = min buf.length p.max := by
    split <;> omega
  unfold cutRoll
  simp only [Gen.bufTooShort, decide_eq_true_eq, hmeq]
  by_cases h1 : buf.length ≤ p.min
  · left; simp [h1]
  · right
    simp only [h1, if_false]
    by_cases h2 : p.min ≥ min buf.length p.max
    · left; rw [if_pos h2]; exact ⟨by omega, h2, rfl⟩
    · right; rw [if_neg h2]; exact ⟨by omega, by omega, rfl⟩

/-- FIX: needs `0 < p.max` (with `max = 0` and `min < buf.length` the cut is `m = 0`). -/
theorem cutRoll_pos (p : ChunkParams) (buf : Bytes) (hmax : 0 < p.max) (h : buf ≠ []) :
    0 < cutRoll p buf := by
  have hl : 0 < buf.length := List.length_pos_iff.mpr h
  rcases cutRoll_cases p buf with ⟨_, e⟩ | ⟨h1, h2, e⟩ | ⟨h1, h2, e⟩
  · omega
  · omega
  · have := rollLoop_bounds p.d (min buf.length p.max) (buf.drop p.min)
      ⟨hashWin (winAt buf p.min), winAt buf p.min⟩ p.min h2
      (by simp; omega)
    omega

theorem cutRoll_le_length (p : ChunkParams) (buf : Bytes) : cutRoll p buf ≤ buf.length := by
  rcases cutRoll_cases p buf with ⟨_, e⟩ | ⟨h1, h2, e⟩ | ⟨h1, h2, e⟩
  · omega
  · omega
  · have := rollLoop_bounds p.d (min buf.length p.max) (buf.drop p.min)
      ⟨hashWin (winAt buf p.min), winAt buf p.min⟩ p.min h2
      (by simp; omega)
    omega

theorem cutRoll_le_max (p : ChunkParams) (buf : Bytes) (hmm : p.min ≤ p.max) :
    cutRoll p buf ≤ p.max := by
  rcases cutRoll_cases p buf with ⟨_, e⟩ | ⟨h1, h2, e⟩ | ⟨h1, h2, e⟩
  · omega
  · omega
  · have := rollLoop_bounds p.d (min buf.length p.max) (buf.drop p.min)
      ⟨hashWin (winAt buf p.min), winAt buf p.min⟩ p.min h2
      (by simp; omega)
    omega

theorem cutRoll_ge_min (p : ChunkParams) (buf : Bytes) (hmm : p.min ≤ p.max)
    (hlt : cutRoll p buf < buf.length) : p.min ≤ cutRoll p buf := by
  rcases cutRoll_cases p buf with ⟨_, e⟩ | ⟨h1, h2, e⟩ | ⟨h1, h2, e⟩
  · omega
  · omega
  · have := rollLoop_bounds p.d (min buf.length p.max) (buf.drop p.min)
      ⟨hashWin (winAt buf p.min), winAt buf p.min⟩ p.min h2
      (by simp; omega)
    omega

/-! ### (4) first admissible boundary -/

theorem firstBoundary_spec (d : UInt32) (buf : Bytes) (m : Nat) :
    ∀ fuel lo, lo ≤ m → m ≤ fuel + lo →
      lo ≤ firstBoundary d buf m fuel lo ∧ firstBoundary d buf m fuel lo ≤ m ∧
      (firstBoundary d buf m fuel lo = m ∨
        boundaryAt d buf (firstBoundary d buf m fuel lo) = true) ∧
      ∀ j, lo ≤ j → j < firstBoundary d buf m fuel lo → boundaryAt d buf j = false := by
  intro fuel
  induction fuel with
  | zero =>
    intro lo h1 h2
    have : lo ≥ m := by omega
    simp only [firstBoundary]
    rw [if_pos this]
    exact ⟨h1, Nat.le_refl _, Or.inl rfl, fun j _ _ => by omega⟩
  | succ fuel ih =>
    intro lo h1 h2
    simp only [firstBoundary]
    by_cases h3 : lo ≥ m
    · rw [if_pos h3]
      exact ⟨h1, Nat.le_refl _, Or.inl rfl, fun j _ _ => by omega⟩
    · rw [if_neg h3]
      by_cases h4 : boundaryAt d buf lo = true
      · rw [if_pos h4]
        exact ⟨Nat.le_refl _, h1, Or.inr h4, fun j _ _ => by omega⟩
      · rw [if_neg h4]
        obtain ⟨i1, i2, i3, i4⟩ := ih (lo + 1) (by omega) (by omega)
        refine ⟨by omega, i2, i3, fun j hj1 hj2 => ?_⟩
        by_cases hj : j = lo
        · subst hj; simpa using h4
        · exact i4 j (by omega) hj2

theorem cutSpec_first_boundary (p : ChunkParams) (buf : Bytes) (hlen : p.min < buf.length)
    (hmm : p.min < p.max) :
    let m := if buf.length < p.max then buf.length else p.max
    let k := cutSpec p buf
    p.min < k ∧ k ≤ m ∧ (k = m ∨ boundaryAt p.d buf k = true) ∧
    ∀ j, p.min < j → j < k → boundaryAt p.d buf j = false := by
  intro m k
  have hk : k = firstBoundary p.d buf m m (p.min + 1) := by
    show cutSpec p buf = _
    unfold cutSpec
    have h1 : ¬ buf.length ≤ p.min := by omega
    have h2 : ¬ p.min ≥ m := by show ¬ p.min ≥ (if _ then _ else _); split <;> omega
    simp only [Gen.bufTooShort, h1, decide_false, Bool.false_eq_true, if_false]
    simp only [m] at h2
    simp only [h2, if_false, m]
  have hm : p.min + 1 ≤ m := by show _ ≤ (if _ then _ else _); split <;> omega
  obtain ⟨i1, i2, i3, i4⟩ := firstBoundary_spec p.d buf m m (p.min + 1) hm (by omega)
  rw [hk]
  exact ⟨by omega, i2, i3, fun j hj1 hj2 => i4 j (by omega) hj2⟩


/-! ### (5) whole input -/

theorem chunkLens_nil (p : ChunkParams) : chunkLens p [] = [] := by
  unfold chunkLens; simp

/-- unfolding on nonempty input (needs `0 < max` to exclude the fallback branch) -/
theorem chunkLens_cons (p : ChunkParams) (data : Bytes) (hmax : 0 < p.max) (h : data ≠ []) :
    chunkLens p data = cutRoll p data :: chunkLens p (data.drop (cutRoll p data)) := by
  have h1 : ¬ data.length = 0 := by simpa using h
  have h2 : ¬ (cutRoll p data = 0 ∨ cutRoll p data > data.length) := by
    have := cutRoll_pos p data hmax h
    have := cutRoll_le_length p data
    omega
  rw [chunkLens]
  simp only [h1, h2, dif_neg, not_false_eq_true]

theorem chunkLens_sum (p : ChunkParams) (data : Bytes) : (chunkLens p data).sum = data.length := by
  fun_induction chunkLens p data with
  | case1 x h => simp [h]
  | case2 x h k hk => simp
  | case3 x h k hk ih => simp [ih]; omega

theorem chunkLens_pos (p : ChunkParams) (data : Bytes) : ∀ k ∈ chunkLens p data, 0 < k := by
  fun_induction chunkLens p data with
  | case1 x h => simp
  | case2 x h k hk => simp; omega
  | case3 x h k hk ih =>
    intro j hj
    rcases List.mem_cons.mp hj with rfl | hj
    · omega
    · exact ih j hj

/-- FIX: needs `0 < p.max` (with `min = max = 0` the only chunk is the whole input). -/
theorem chunkLens_le_max (p : ChunkParams) (data : Bytes) (hmm : p.min ≤ p.max)
    (hmax : 0 < p.max) : ∀ k ∈ chunkLens p data, k ≤ p.max := by
  fun_induction chunkLens p data with
  | case1 x h => simp
  | case2 x h k hk =>
    exfalso
    have := cutRoll_pos p x hmax (by intro e; simp [e] at h)
    have := cutRoll_le_length p x
    omega
  | case3 x h k hk ih =>
    intro j hj
    rcases List.mem_cons.mp hj with rfl | hj
    · exact cutRoll_le_max p x hmm
    · exact ih j hj

theorem chunkLens_ge_min (p : ChunkParams) (data : Bytes) (hmm : p.min ≤ p.max) :
    ∀ k ∈ (chunkLens p data).dropLast, p.min ≤ k := by
  fun_induction chunkLens p data with
  | case1 x h => simp
  | case2 x h k hk => simp
  | case3 x h k hk ih =>
    intro j hj
    cases hr : chunkLens p (List.drop k x) with
    | nil => simp [hr] at hj
    | cons a as =>
      rw [hr, List.dropLast_cons_cons] at hj
      rcases List.mem_cons.mp hj with rfl | hj
      · apply cutRoll_ge_min p x hmm
        have hne : List.drop k x ≠ [] := by
          intro e; rw [e, chunkLens_nil] at hr; cases hr
        have : 0 < (List.drop k x).length := List.length_pos_iff.mpr hne
        simp at this; omega
      · rw [hr] at ih; exact ih j hj

theorem chunkLens_restart (p : ChunkParams) (data : Bytes) (k : Nat) (ks : List Nat)
    (h : chunkLens p data = k :: ks) : chunkLens p (data.drop k) = ks := by
  rw [chunkLens] at h
  split at h
  · cases h
  · simp only [] at h
    split at h
    · rename_i h1 h2
      injection h with e1 e2
      subst e1 e2
      simp [chunkLens_nil]
    · injection h with e1 e2
      subst e1
      exact e2

theorem chunkAllFrom_length (s : Nat) (ks : List Nat) : (chunkAllFrom s ks).length = ks.length := by
  induction ks generalizing s with
  | nil => rfl
  | cons k ks ih => simp [chunkAllFrom, ih]

/-- consecutive (start,size) pairs (index formulation; `List.IsChain` is not in core) -/
theorem chunkAllFrom_tiles (s : Nat) (ks : List Nat) :
    ∀ i (h : i + 1 < (chunkAllFrom s ks).length),
      ((chunkAllFrom s ks)[i]).1 + ((chunkAllFrom s ks)[i]).2 = ((chunkAllFrom s ks)[i + 1]).1 := by
  induction ks generalizing s with
  | nil => intro i h; simp [chunkAllFrom] at h
  | cons k ks ih =>
    intro i h
    cases ks with
    | nil => simp [chunkAllFrom] at h
    | cons k' ks' =>
      cases i with
      | zero => simp [chunkAllFrom]
      | succ i =>
        have h' : i + 1 < (chunkAllFrom (s + k) (k' :: ks')).length := by
          simpa [chunkAllFrom] using h
        have := ih (s + k) i h'
        simpa [chunkAllFrom] using this

/-! ### (6) prefix determinacy -/

theorem rollLoop_append (d : UInt32) (m : Nat) (y : Bytes) :
    ∀ (r : Bytes) (s : RollSt) (pos : Nat), pos < m → m ≤ pos + r.length →
      rollLoop d m s pos (r ++ y) = rollLoop d m s pos r := by
  intro r
  induction r with
  | nil => intro s pos h1 h2; simp at h2; omega
  | cons b bs ih =>
    intro s pos h1 h2
    simp only [List.cons_append, rollLoop]
    split
    · rfl
    · split
      · rfl
      · exact ih (s.roll b) (pos + 1) (by omega) (by simp at h2; omega)

theorem winAt_append (x y : Bytes) (k : Nat) (hk : k ≤ x.length) (hw : winSize ≤ x.length) :
    winAt (x ++ y) k = winAt x k := by
  unfold winAt
  rw [List.drop_append_of_le_length (by omega), List.take_append_of_le_length (by simp; omega)]

/-- FIX: needs `winSize ≤ x.length` (implied by `winSize ≤ p.min`); otherwise, with
    `min < winSize` and `x` shorter than the window, the initial window differs. -/
theorem cutRoll_prefix (p : ChunkParams) (x y : Bytes) (hmm : p.min ≤ p.max)
    (hx : p.max ≤ x.length) (hw : winSize ≤ x.length) :
    cutRoll p (x ++ y) = cutRoll p x := by
  have hlen : (x ++ y).length = x.length + y.length := List.length_append
  rcases cutRoll_cases p x with ⟨a1, e⟩ | ⟨a1, a2, e⟩ | ⟨a1, a2, e⟩
  · -- x.length = min = max
    rcases cutRoll_cases p (x ++ y) with ⟨b1, e'⟩ | ⟨b1, b2, e'⟩ | ⟨b1, b2, e'⟩
    · omega
    · omega
    · omega
  · rcases cutRoll_cases p (x ++ y) with ⟨b1, e'⟩ | ⟨b1, b2, e'⟩ | ⟨b1, b2, e'⟩
    · omega
    · omega
    · omega
  · rcases cutRoll_cases p (x ++ y) with ⟨b1, e'⟩ | ⟨b1, b2, e'⟩ | ⟨b1, b2, e'⟩
    · omega
    · omega
    · have hm : min (x ++ y).length p.max = min x.length p.max := by omega
      rw [e, e', hm, winAt_append x y p.min (by omega) hw,
        List.drop_append_of_le_length (by omega)]
      exact rollLoop_append p.d _ y _ _ _ a2 (by simp; omega)

theorem cutRoll_prefix_of_min (p : ChunkParams) (x y : Bytes) (hmm : p.min ≤ p.max)
    (hx : p.max ≤ x.length) (hmin : winSize ≤ p.min) :
    cutRoll p (x ++ y) = cutRoll p x :=
  cutRoll_prefix p x y hmm hx (by omega)

/-! ### (7) the buffered chunker -/

/-- the data still to be chunked -/
def Buffered.rem (c : Buffered) : Bytes := c.buf ++ c.r.data

/-- once EOF was seen the reader is exhausted -/
def Buffered.inv (c : Buffered) : Prop := c.hitEOF = true → c.r.data = []

theorem Reader.read_spec (r : Reader) (room : Nat) (hroom : 0 < room) :
    (r.read room).1 ++ (r.read room).2.2.data = r.data ∧
    ((r.read room).2.1 = true → (r.read room).2.2.data = []) ∧
    ((r.read room).2.1 = false →
      (r.read room).2.2.frags.length + (r.read room).2.2.data.length <
        r.frags.length + r.data.length) := by
  obtain ⟨data, frags⟩ := r
  unfold Reader.read
  by_cases h : data.length = 0
  · have : data = [] := List.eq_nil_of_length_eq_zero h
    simp [this]
  · simp only [h, if_false]
    cases frags with
    | nil =>
      simp only [List.take_append_drop, List.length_drop, List.length_nil]
      refine ⟨trivial, by simp, fun _ => by omega⟩
    | cons f fs =>
      simp only [List.take_append_drop, List.length_drop, List.length_cons]
      refine ⟨trivial, by simp, fun _ => by omega⟩

theorem Buffered.fill_of_eof (p : ChunkParams) (c : Buffered) (fuel : Nat) (h : c.hitEOF = true) :
    c.fill p fuel = c := by
  cases fuel with
  | zero => rfl
  | succ n => simp [Buffered.fill, h]

theorem Buffered.fill_spec (p : ChunkParams) :
    ∀ (fuel : Nat) (c : Buffered), c.inv → c.r.frags.length + c.r.data.length + 2 ≤ fuel →
      (c.fill p fuel).rem = c.rem ∧ (c.fill p fuel).start = c.start ∧ (c.fill p fuel).inv ∧
      ((c.fill p fuel).r.data = [] ∨ Gen.bufSize p.max ≤ (c.fill p fuel).buf.length) := by
  intro fuel
  induction fuel with
  | zero => intro c _ h; omega
  | succ fuel ih =>
    intro c hinv hf
    unfold Buffered.fill
    by_cases h1 : c.hitEOF = true
    · rw [if_pos h1]; exact ⟨rfl, rfl, hinv, Or.inl (hinv h1)⟩
    · rw [if_neg h1]
      by_cases h2 : c.buf.length ≥ Gen.bufSize p.max
      · rw [if_pos h2]; exact ⟨rfl, rfl, hinv, Or.inr h2⟩
      · rw [if_neg h2]
        obtain ⟨r1, r2, r3⟩ := c.r.read_spec (Gen.bufSize p.max - c.buf.length) (by omega)
        generalize c.r.read (Gen.bufSize p.max - c.buf.length) = rd at r1 r2 r3
        obtain ⟨b, eof, r'⟩ := rd
        simp only at r1 r2 r3 ⊢
        have hrem : (Buffered.mk r' (c.buf ++ b) c.start eof).rem = c.rem := by
          simp only [Buffered.rem, List.append_assoc, r1]
        cases eof with
        | true =>
          rw [Buffered.fill_of_eof _ _ _ rfl]
          exact ⟨hrem, rfl, fun _ => r2 rfl, Or.inl (r2 rfl)⟩
        | false =>
          have := ih (Buffered.mk r' (c.buf ++ b) c.start false) (by intro h; cases h)
            (by have := r3 rfl; simp only; omega)
          rw [hrem] at this
          exact this

theorem Buffered.next_spec (p : ChunkParams) (c : Buffered) (hmm : p.min ≤ p.max)
    (hw : winSize ≤ p.max) (hinv : c.inv) :
    (c.next p).1.1 = c.start ∧ (c.next p).1.2.length = cutRoll p c.rem ∧
    (c.next p).2.rem = c.rem.drop (cutRoll p c.rem) ∧
    (c.next p).2.start = c.start + cutRoll p c.rem ∧ (c.next p).2.inv := by
  unfold Buffered.next
  generalize hc1 : (if c.buf.length < p.max then
    c.fill p (c.r.frags.length + c.r.data.length + 2) else c) = c1
  have hP : c1.rem = c.rem ∧ c1.start = c.start ∧ c1.inv ∧
      (c1.r.data = [] ∨ p.max ≤ c1.buf.length) := by
    rw [← hc1]
    split
    · obtain ⟨f1, f2, f3, f4⟩ := Buffered.fill_spec p _ c hinv (Nat.le_refl _)
      refine ⟨f1, f2, f3, ?_⟩
      rcases f4 with f4 | f4
      · exact Or.inl f4
      · right; simp only [Gen.bufSize] at f4; omega
    · exact ⟨rfl, rfl, hinv, Or.inr (by omega)⟩
  obtain ⟨p1, p2, p3, p4⟩ := hP
  have hk : cutRoll p c1.buf = cutRoll p c.rem := by
    rw [← p1, Buffered.rem]
    rcases p4 with p4 | p4
    · rw [p4, List.append_nil]
    · exact (cutRoll_prefix p c1.buf c1.r.data hmm p4 (by omega)).symm
  have hle : cutRoll p c1.buf ≤ c1.buf.length := cutRoll_le_length p c1.buf
  simp only [hk] at hle ⊢
  refine ⟨p2, ?_, ?_, by rw [p2], p3⟩
  · rw [List.length_take]; omega
  · rw [← p1] at hle ⊢
    simp only [Buffered.rem] at hle ⊢
    rw [List.drop_append_of_le_length hle]

theorem Buffered.all_spec (p : ChunkParams) (hmm : p.min ≤ p.max) (hmax : 0 < p.max)
    (hw : winSize ≤ p.max) :
    ∀ (fuel : Nat) (c : Buffered), c.inv → c.rem.length + 1 ≤ fuel →
      Buffered.all p fuel c = chunkAllFrom c.start (chunkLens p c.rem) := by
  intro fuel
  induction fuel with
  | zero => intro c _ h; omega
  | succ fuel ih =>
    intro c hinv hf
    obtain ⟨n1, n2, n3, n4, n5⟩ := Buffered.next_spec p c hmm hw hinv
    unfold Buffered.all
    generalize c.next p = nx at n1 n2 n3 n4 n5
    obtain ⟨⟨s, b⟩, c'⟩ := nx
    simp only at n1 n2 n3 n4 n5 ⊢
    by_cases hrem : c.rem = []
    · have : b.length = 0 := by
        rw [n2, hrem]
        have := cutRoll_le_length p []
        simpa using this
      rw [if_pos this, hrem, chunkLens_nil]; rfl
    · have hpos := cutRoll_pos p c.rem hmax hrem
      have hle := cutRoll_le_length p c.rem
      rw [if_neg (by omega), chunkLens_cons p c.rem hmax hrem, chunkAllFrom, n1, n2]
      congr 1
      have := ih c' n5 (by rw [n3, List.length_drop]; omega)
      rw [this, n3, n4]

/-- `Advance(n)` drops exactly `n` bytes of what was still to be chunked and moves the position by `n` -/
theorem Buffered.advance_spec (c : Buffered) (n : Nat) (hinv : c.inv) :
    (c.advance n).rem = c.rem.drop n ∧ (c.advance n).start = c.start + n ∧ (c.advance n).inv := by
  unfold Buffered.advance
  by_cases h : n ≤ c.buf.length
  · rw [if_pos h]
    refine ⟨?_, rfl, hinv⟩
    simp only [Buffered.rem]
    rw [List.drop_append_of_le_length h]
  · rw [if_neg h]
    refine ⟨?_, rfl, ?_⟩
    · simp only [Buffered.rem, List.nil_append]
      rw [List.drop_append]
      have : List.drop n c.buf = [] := List.drop_eq_nil_of_le (by omega)
      rw [this, List.nil_append]
    · intro he
      have := hinv he
      simp only [this, List.drop_nil]

/-- after `Advance(n)` the chunker behaves as if the stream started `n` bytes further on: the
    chunks that follow are the single-stream chunks of the remaining data, at shifted positions
    (what the parallel chunker's null-chunk fast-forward relies on) -/
theorem Buffered.all_after_advance (p : ChunkParams) (hmm : p.min ≤ p.max) (hmax : 0 < p.max)
    (hw : winSize ≤ p.max) (c : Buffered) (n : Nat) (hinv : c.inv) :
    Buffered.all p ((c.rem.drop n).length + 1) (c.advance n) =
      chunkAllFrom (c.start + n) (chunkLens p (c.rem.drop n)) := by
  obtain ⟨h1, h2, h3⟩ := Buffered.advance_spec c n hinv
  have := Buffered.all_spec p hmm hmax hw ((c.rem.drop n).length + 1) (c.advance n) h3 (by rw [h1]; omega)
  rw [this, h1, h2]

/-- FIX: needs `winSize ≤ p.max` (implied by `ChunkParams.valid`): otherwise the refilled buffer
    (≥ `max` bytes only) may be shorter than the hash window. -/
theorem buffered_eq_chunkAll (p : ChunkParams) (data : Bytes) (frags : List Nat)
    (hmm : p.min ≤ p.max) (hmax : 0 < p.max) (hw : winSize ≤ p.max) :
    Buffered.all p (data.length + 1) ⟨⟨data, frags⟩, [], 0, false⟩ = chunkAll p data := by
  have := Buffered.all_spec p hmm hmax hw (data.length + 1) ⟨⟨data, frags⟩, [], 0, false⟩
    (by intro h; cases h) (by simp [Buffered.rem])
  rw [this]
  simp [Buffered.rem, chunkAll]

end Desync
