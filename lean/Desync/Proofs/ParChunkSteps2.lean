/-
  The invariant of the parallel chunker machine is preserved by every event (part 2: `syncWith` —
  pop, decide, scan — and the null-chunk fast-forward).
-/
import Desync.Proofs.ParChunkSteps

namespace Desync.Par

variable {e : Env} {zero : Nat → Prop}

theorem tryRecv_some_some {w : Worker} {x : Chunk} (h : tryRecv w = some (some x)) : w.bucket = x :: w.bucket.tail := by
  simp only [tryRecv] at h
  split at h
  · rename_i c l hb
    cases h; rw [hb]; rfl
  · split at h <;> cases h

theorem tryRecv_some_none {w : Worker} (h : tryRecv w = some none) : w.bucket = [] := by
  simp only [tryRecv] at h
  split at h
  · cases h
  · rename_i hb; exact hb

theorem tryRecv_none {w : Worker} (h : tryRecv w = none) : w.bucket = [] := by
  simp only [tryRecv] at h
  split at h
  · cases h
  · rename_i hb; exact hb

theorem popShape_chunk {wj : Worker} {x : Chunk} (h : tryRecv wj = some (some x)) :
    PopShape wj { wj with bucket := wj.bucket.tail, sync := x } :=
  ⟨rfl, rfl, rfl, rfl, rfl, rfl, Or.inl ⟨x, tryRecv_some_some h, rfl⟩⟩

theorem popShape_closed {wj : Worker} (h : tryRecv wj = some none) :
    PopShape wj { wj with sync := Chunk.zero } :=
  ⟨rfl, rfl, rfl, rfl, rfl, rfl, Or.inr ⟨tryRecv_some_none h, tryRecv_some_none h, rfl⟩⟩

theorem WLocal.front_le_size {n i : Nat} {w : Worker} (hl : WLocal e zero n i w) : front w ≤ e.size :=
  Nat.le_trans hl.front_le (Nat.le_trans hl.endOf_le_pos hl.pos_le)

theorem Inv.pop (hE : EnvOK e zero) {s s' : St} {i : Nat} (hI : Inv e zero s)
    (h : step e s (.pop i) = some s') : Inv e zero s' := by
  simp only [step] at h
  split at h
  · rename_i w hw
    have hl := hI.loc i w hw
    split at h
    · rename_i c prev j hpc hnext
      have hlive : finPC w.pc = false := by rw [hpc]; rfl
      have hend : endOf w = w.pos := by simp only [endOf, hpc]
      have hpcl := hl.pc_ok
      simp only [PcLocal, hpc] at hpcl
      have hij : i < j := by have := hl.nx_gt; rw [nxW_some hnext] at this; exact this
      split at h
      · rename_i wj hj
        have hpr := hI.pair i w j wj hw hnext hj
        simp only [PcPair, hpc] at hpr
        have hnd : w.pc ≠ .done := by rw [hpc]; intro h; cases h
        have hsy := hI.sync j wj hj ⟨i, w, hij, hw, hnd⟩
        have hskip : Inv e zero (setW s i fun w => { w with pc := .skipCheck }) :=
          Inv.pc_step hE hI hw _ hlive rfl rfl hend rfl trivial (fun _ _ _ _ => trivial)
        split at h
        · rename_i hcond
          simp only [Gen.parLoopCond, decide_eq_true_eq] at hcond
          split at h
          · rename_i x hrecv
            cases h
            refine Inv.pop_step hE hI (Upd2.setW _ _ hij hw hj) rfl rfl hnext hlive rfl rfl rfl
              (front_update_pc _ hend rfl) (hl.update_pc _ hlive rfl hend rfl ?_) (popShape_chunk hrecv) ?_
            · simp only [PcLocal]; exact hpcl
            · intro q hq
              cases hq
              refine ⟨hcond, ?_⟩
              rcases hsy with h0 | h1
              · exact Or.inl h0
              · right; rw [h1, front_cons (tryRecv_some_some hrecv)]
          · rename_i hrecv
            cases h
            exact Inv.pop_step hE hI (Upd2.setW _ _ hij hw hj) rfl rfl hnext hlive rfl rfl rfl
              (front_update_pc _ hend rfl) (hl.update_pc _ hlive rfl hend rfl trivial) (popShape_closed hrecv) trivial
          · cases h; exact hskip
        · rename_i hcond
          simp only [Gen.parLoopCond, decide_eq_true_eq] at hcond
          cases h
          refine Inv.pc_step hE hI hw _ hlive rfl rfl hend rfl ?_ ?_
          · simp only [PcLocal]; exact hpcl
          · intro j' wj' hn' hj'
            rw [hnext] at hn'; cases hn'
            rw [hj] at hj'; cases hj'
            exact ⟨hpr, by omega⟩
      · cases h
    · cases h
  · cases h

theorem Inv.decide (hE : EnvOK e zero) {s s' : St} {i : Nat} (hI : Inv e zero s)
    (h : step e s (.decide i) = some s') : Inv e zero s' := by
  simp only [step] at h
  split at h
  · rename_i w hw
    have hl := hI.loc i w hw
    split at h
    · rename_i c prev j hpc hnext
      have hlive : finPC w.pc = false := by rw [hpc]; rfl
      have hend : endOf w = w.pos := by simp only [endOf, hpc]
      have hpcl := hl.pc_ok
      simp only [PcLocal, hpc] at hpcl
      have hij : i < j := by have := hl.nx_gt; rw [nxW_some hnext] at this; exact this
      split at h
      · rename_i wj hj
        have hpr := hI.pair i w j wj hw hnext hj
        simp only [PcPair, hpc] at hpr
        have hnd : w.pc ≠ .done := by rw [hpc]; intro h; cases h
        have hsy := hI.sync j wj hj ⟨i, w, hij, hw, hnd⟩
        have hskip : Inv e zero (setW s i fun w => { w with pc := .skipCheck }) :=
          Inv.pc_step hE hI hw _ hlive rfl rfl hend rfl trivial (fun _ _ _ _ => trivial)
        split at h
        · rename_i hcond
          simp only [Gen.parMatchCond, Bool.and_eq_true, decide_eq_true_eq] at hcond
          cases h
          refine Inv.self_step_live hE hI (Upd1.setW _ hw) rfl rfl rfl rfl (front_update_pc _ hend rfl) hlive ?_
            (fun _ _ _ _ => trivial) ?_
          · refine hl.update rfl rfl rfl (by rw [hpc]; rfl) (by rw [hpc]; simp) hl.pos_le ?_ ?_ trivial
            · have := hl.run
              rw [hend] at this
              rw [front_update_pc _ hend rfl]; exact this
            · intro h; rw [show ({ w with pc := PC.stopping } : Worker).eof = w.eof from rfl, hl.eof_false hlive] at h; cases h
          · intro _ _
            refine ⟨wj, by rw [nxW_some hnext]; exact hj, ?_⟩
            show front wj = w.pos
            have hcpos := hE.cut_pos c.start hpcl.1.2
            rcases hsy with h0 | h1
            · rw [h0] at hcond
              have : c.size = 0 := hcond.2
              have := hpcl.1.1
              omega
            · rw [← h1, ← hpcl.2.1]
              simp only [Chunk.fin]; omega
        · split at h
          · rename_i p
            split at h
            · rename_i hnull
              simp only [Gen.parNullCond, Bool.and_eq_true] at hnull
              cases h
              refine Inv.pc_step hE hI hw _ hlive rfl rfl hend rfl ?_ ?_
              · simp only [PcLocal]; exact hpcl
              · intro j' wj' hn' hj'
                rw [hnext] at hn'; cases hn'
                rw [hj] at hj'; cases hj'
                obtain ⟨hps, hpz⟩ := hpr.1 p rfl
                have hnp := hE.null_zero p hnull.2
                have hns := hE.null_zero wj.sync hnull.1
                have hmax := hE.max_pos
                have hpf : p.fin = wj.sync.start := by
                  rcases hpz with h0 | h1
                  · rw [h0] at hnp; have : (0 : Nat) = e.max := hnp.1; omega
                  · exact h1
                refine ⟨hnull.1, ?_, ?_⟩
                · simp only [Gen.parNInit]
                  simp only [Chunk.fin] at hpf
                  have := hpr.2
                  omega
                · intro x hx1 hx2
                  by_cases hx : x < p.fin
                  · exact hnp.2 x (by omega) hx
                  · exact hns.2 x (by omega) hx2
            · cases h; exact hskip
          · cases h; exact hskip
      · cases h
    · cases h
  · cases h

end Desync.Par
