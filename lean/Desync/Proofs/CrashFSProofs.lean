/-
  Crash atomicity of `LocalStore.StoreChunk` (model `Desync.Model.CrashFS`): whatever the
  interleaving of any number of writers, whatever the write sizes and wherever the process dies,
  a partially written file is never visible under a chunk name.
-/
import Desync.Model.CrashFS

namespace Desync.CrashFS

/-! ## Basic lemmas on directories -/

theorem mem_rm {d : List (Name × Content)} {n : Name} {e : Name × Content} :
    e ∈ d.filter (·.1 ≠ n) ↔ e ∈ d ∧ e.1 ≠ n := by
  simp [List.mem_filter]

theorem mem_setDir {d : List (Name × Content)} {n : Name} {c : Content} {e : Name × Content} :
    e ∈ setDir d n c ↔ e = (n, c) ∨ (e ∈ d ∧ e.1 ≠ n) := by
  simp [setDir, List.mem_filter]

theorem keys_rm {d : List (Name × Content)} (n : Name) (h : (d.map (·.1)).Nodup) :
    ((d.filter (·.1 ≠ n)).map (·.1)).Nodup :=
  List.Nodup.sublist (List.Sublist.map _ List.filter_sublist) h

theorem keys_setDir {d : List (Name × Content)} (n : Name) (c : Content)
    (h : (d.map (·.1)).Nodup) : ((setDir d n c).map (·.1)).Nodup := by
  unfold setDir
  rw [List.map_cons, List.nodup_cons]
  refine ⟨?_, keys_rm n h⟩
  intro hm
  obtain ⟨e, he, hn⟩ := List.mem_map.1 hm
  exact (mem_rm.1 he).2 hn

/-! ## One uniform description of a step -/

/-- set the program counter of a writer (the only field that ever changes) -/
def setPc (p : PC) (w : Writer) : Writer := { w with pc := p }

@[simp] theorem setPc_final (p w) : (setPc p w).final = w.final := rfl
@[simp] theorem setPc_tmp (p w) : (setPc p w).tmp = w.tmp := rfl
@[simp] theorem setPc_payload (p w) : (setPc p w).payload = w.payload := rfl
@[simp] theorem setPc_pc (p w) : (setPc p w).pc = p := rfl

/-- what writer `w` (at index `i`, before the step) does: new pc and new directory -/
inductive Act (dir : List (Name × Content)) (w : Writer) : PC → List (Name × Content) → Prop
  | mkdir : w.pc = .mk → Act dir w .create dir
  | create : w.pc = .create → Act dir w (.writing 0) (setDir dir w.tmp [])
  | write (d k : Nat) : w.pc = .writing d → 1 ≤ k → d + k ≤ w.payload.length →
      Act dir w (.writing (d + k)) (setDir dir w.tmp (w.payload.take (d + k)))
  | writeErr (d : Nat) : w.pc = .writing d → Act dir w .failed (dir.filter (·.1 ≠ w.tmp))
  | close : w.pc = .writing w.payload.length → Act dir w .closed dir
  | rename : w.pc = .closed →
      Act dir w .finished (setDir (dir.filter (·.1 ≠ w.tmp)) w.final w.payload)

/-- every step is: one writer `i` performs one `Act`; only its `pc` and the directory change -/
theorem step_act {s s' : St} {e : Ev} (h : step s e = some s') :
    ∃ i w p dir', s.writers[i]? = some w ∧ Act s.dir w p dir' ∧
      s' = { dir := dir', writers := s.writers.modify i (setPc p) } := by
  cases e with
  | mkdir i =>
    simp only [step] at h
    split at h
    · rename_i w hw
      split at h
      · rename_i hp
        exact ⟨i, w, _, _, hw, .mkdir hp, (Option.some.inj h).symm⟩
      · cases h
    · cases h
  | create i =>
    simp only [step] at h
    split at h
    · rename_i w hw
      split at h
      · rename_i hp
        exact ⟨i, w, _, _, hw, .create hp, (Option.some.inj h).symm⟩
      · cases h
    · cases h
  | write i k =>
    simp only [step] at h
    split at h
    · rename_i w hw
      split at h
      · rename_i d hp
        split at h
        · rename_i hk
          exact ⟨i, w, _, _, hw, .write d k hp hk.1 hk.2, (Option.some.inj h).symm⟩
        · cases h
      · cases h
    · cases h
  | writeErr i =>
    simp only [step] at h
    split at h
    · rename_i w hw
      split at h
      · rename_i d hp
        exact ⟨i, w, _, _, hw, .writeErr d hp, (Option.some.inj h).symm⟩
      · cases h
    · cases h
  | close i =>
    simp only [step] at h
    split at h
    · rename_i w hw
      split at h
      · rename_i d hp
        split at h
        · rename_i hd
          subst hd
          exact ⟨i, w, _, _, hw, .close hp, (Option.some.inj h).symm⟩
        · cases h
      · cases h
    · cases h
  | rename i =>
    simp only [step] at h
    split at h
    · rename_i w hw
      split at h
      · rename_i hp
        exact ⟨i, w, _, _, hw, .rename hp, (Option.some.inj h).symm⟩
      · cases h
    · cases h

/-- reading writer `j` after writer `i` got a new pc -/
theorem get_modify {ws : List Writer} {i j : Nat} {p : PC} {w' : Writer}
    (h : (ws.modify i (setPc p))[j]? = some w') :
    (i = j ∧ ∃ w, ws[j]? = some w ∧ w' = setPc p w) ∨ (i ≠ j ∧ ws[j]? = some w') := by
  rw [List.getElem?_modify] at h
  cases hj : ws[j]? with
  | none => rw [hj] at h; cases h
  | some w =>
    rw [hj] at h
    by_cases hij : i = j
    · left
      refine ⟨hij, w, rfl, ?_⟩
      simpa [hij] using h.symm
    · right
      refine ⟨hij, ?_⟩
      simpa [hij] using h

theorem get_modify_self {ws : List Writer} {i : Nat} {p : PC} {w : Writer}
    (h : ws[i]? = some w) : (ws.modify i (setPc p))[i]? = some (setPc p w) := by
  rw [List.getElem?_modify, h]; simp

theorem get_modify_ne {ws : List Writer} {i j : Nat} {p : PC} (hij : i ≠ j) :
    (ws.modify i (setPc p))[j]? = ws[j]? := by
  rw [List.getElem?_modify]
  cases ws[j]? <;> simp [hij]

/-! ## `final`, `tmp`, `payload` of writer `i` never change -/

/-- the immutable part of a writer -/
def static (w : Writer) : Name × Name × Content := (w.final, w.tmp, w.payload)

theorem map_static_modify (ws : List Writer) (i : Nat) (p : PC) :
    (ws.modify i (setPc p)).map static = ws.map static := by
  apply List.ext_getElem?
  intro j
  rw [List.getElem?_map, List.getElem?_map, List.getElem?_modify]
  cases ws[j]? with
  | none => rfl
  | some w => by_cases hij : i = j <;> simp [hij, static]

theorem step_static {s s' : St} {e : Ev} (h : step s e = some s') :
    s'.writers.map static = s.writers.map static := by
  obtain ⟨i, w, p, dir', _, _, rfl⟩ := step_act h
  exact map_static_modify _ _ _

/-- along any run the list of writers keeps its immutable part -/
theorem writers_static {s0 s : St} (h : Reachable s0 s) :
    s.writers.map static = s0.writers.map static := by
  induction h with
  | refl => rfl
  | step e _ hst ih => rw [step_static hst, ih]

theorem writers_length {s0 s : St} (h : Reachable s0 s) :
    s.writers.length = s0.writers.length := by
  simpa using congrArg List.length (writers_static h)

/-- **writers only change in `pc`**: writer `i` of a reachable state is writer `i` of the initial
    state with the same `final`, `tmp` and `payload` -/
theorem writer_const {s0 s : St} (h : Reachable s0 s) {i : Nat} {w : Writer}
    (hw : s.writers[i]? = some w) :
    ∃ w0, s0.writers[i]? = some w0 ∧ w.final = w0.final ∧ w.tmp = w0.tmp ∧
      w.payload = w0.payload := by
  have h1 := congrArg (·[i]?) (writers_static h)
  simp only [List.getElem?_map, hw, Option.map_some] at h1
  cases h0 : s0.writers[i]? with
  | none => rw [h0] at h1; cases h1
  | some w0 =>
    rw [h0] at h1
    simp only [Option.map_some, Option.some.injEq, static, Prod.mk.injEq] at h1
    exact ⟨w0, rfl, h1.1, h1.2.1, h1.2.2⟩

/-- conversely every initial writer is still there, with the same immutable part -/
theorem writer_const' {s0 s : St} (h : Reachable s0 s) {i : Nat} {w0 : Writer}
    (hw : s0.writers[i]? = some w0) :
    ∃ w, s.writers[i]? = some w ∧ w.final = w0.final ∧ w.tmp = w0.tmp ∧
      w.payload = w0.payload := by
  have h1 := congrArg (·[i]?) (writers_static h)
  simp only [List.getElem?_map, hw, Option.map_some] at h1
  cases h0 : s.writers[i]? with
  | none => rw [h0] at h1; cases h1
  | some w =>
    rw [h0] at h1
    simp only [Option.map_some, Option.some.injEq, static, Prod.mk.injEq] at h1
    exact ⟨w, rfl, h1.1, h1.2.1, h1.2.2⟩

/-! ## Hypotheses on the initial state -/

/-- hypotheses on the initial state: `isChunk n` says `n` is a chunk file name; temp names are
    never chunk names (proved elsewhere for the real naming scheme); temp names are private
    (pairwise distinct, and not present initially); every chunk-named file present initially is
    complete and valid: `Valid n c` -/
structure Setup (isChunk : Name → Bool) (Valid : Name → Content → Prop) (s0 : St) : Prop where
  tmp_not_chunk : ∀ w ∈ s0.writers, isChunk w.tmp = false
  final_chunk : ∀ w ∈ s0.writers, isChunk w.final = true
  tmp_distinct : (s0.writers.map (·.tmp)).Nodup
  tmp_fresh : ∀ w ∈ s0.writers, ∀ e ∈ s0.dir, e.1 ≠ w.tmp
  payload_valid : ∀ w ∈ s0.writers, Valid w.final w.payload
  init_valid : ∀ e ∈ s0.dir, isChunk e.1 = true → Valid e.1 e.2
  init_pc : ∀ w ∈ s0.writers, w.pc = .mk
  dir_keys : (s0.dir.map (·.1)).Nodup

/-- the hypotheses on writers, transported to a reachable state -/
structure WFacts (isChunk : Name → Bool) (Valid : Name → Content → Prop) (s0 s : St) : Prop where
  tmp_not_chunk : ∀ (i : Nat) (w : Writer), s.writers[i]? = some w → isChunk w.tmp = false
  final_chunk : ∀ (i : Nat) (w : Writer), s.writers[i]? = some w → isChunk w.final = true
  payload_valid : ∀ (i : Nat) (w : Writer), s.writers[i]? = some w → Valid w.final w.payload
  tmp_inj : ∀ (i j : Nat) (w w' : Writer), s.writers[i]? = some w → s.writers[j]? = some w' →
    w.tmp = w'.tmp → i = j
  tmp_fresh : ∀ (i : Nat) (w : Writer), s.writers[i]? = some w → ∀ e ∈ s0.dir, e.1 ≠ w.tmp

theorem wfacts {isChunk Valid s0} (hs : Setup isChunk Valid s0) {s : St} (h : Reachable s0 s) :
    WFacts isChunk Valid s0 s where
  tmp_not_chunk i w hw := by
    obtain ⟨w0, h0, _, ht, _⟩ := writer_const h hw
    rw [ht]; exact hs.tmp_not_chunk _ (List.mem_of_getElem? h0)
  final_chunk i w hw := by
    obtain ⟨w0, h0, hf, _, _⟩ := writer_const h hw
    rw [hf]; exact hs.final_chunk _ (List.mem_of_getElem? h0)
  payload_valid i w hw := by
    obtain ⟨w0, h0, hf, _, hp⟩ := writer_const h hw
    rw [hf, hp]; exact hs.payload_valid _ (List.mem_of_getElem? h0)
  tmp_inj i j w w' hw hw' ht := by
    obtain ⟨w0, h0, _, ht0, _⟩ := writer_const h hw
    obtain ⟨w0', h0', _, ht0', _⟩ := writer_const h hw'
    have hi : i < (s0.writers.map (·.tmp)).length := by
      have := (List.getElem?_eq_some_iff.1 h0).1
      simpa using this
    refine (List.getElem?_inj hi hs.tmp_distinct).1 ?_
    rw [List.getElem?_map, List.getElem?_map, h0, h0']
    simp only [Option.map_some]
    rw [← ht0, ← ht0', ht]
  tmp_fresh i w hw := by
    obtain ⟨w0, h0, _, ht, _⟩ := writer_const h hw
    rw [ht]; exact hs.tmp_fresh _ (List.mem_of_getElem? h0)

/-- a temp name is never a final name -/
theorem WFacts.tmp_ne_final {isChunk Valid s0 s} (hf : WFacts isChunk Valid s0 s) {i j : Nat} {w w' : Writer}
    (hw : s.writers[i]? = some w) (hw' : s.writers[j]? = some w') : w.tmp ≠ w'.final := by
  intro h
  have h1 := hf.tmp_not_chunk i w hw
  have h2 := hf.final_chunk j w' hw'
  rw [h, h2] at h1
  cases h1

/-! ## Invariant 1: where every directory entry comes from -/

/-- entry `e` belongs to writer `w`: it is its installed chunk (writer finished), or its temp file
    with exactly the bytes written so far -/
def Owns (w : Writer) (e : Name × Content) : Prop :=
  (e.1 = w.final ∧ e.2 = w.payload ∧ w.pc = .finished) ∨
  (e.1 = w.tmp ∧ ∃ d, w.pc = .writing d ∧ e.2 = w.payload.take d) ∨
  (e.1 = w.tmp ∧ w.pc = .closed ∧ e.2 = w.payload)

/-- entry `e` is an initial entry or belongs to some writer -/
def Origin (s0 s : St) (e : Name × Content) : Prop :=
  e ∈ s0.dir ∨ ∃ (j : Nat) (w : Writer), s.writers[j]? = some w ∧ Owns w e

/-- an old entry keeps an origin when writer `i` moves, provided that writer `i` still owns it
    afterwards if it did before -/
theorem origin_keep {s0 s : St} {i : Nat} {w : Writer} {p : PC} {dir' : List (Name × Content)}
    {e : Name × Content} (hw : s.writers[i]? = some w) (ho : Origin s0 s e)
    (hk : Owns w e → Owns (setPc p w) e) :
    Origin s0 { dir := dir', writers := s.writers.modify i (setPc p) } e := by
  rcases ho with h0 | ⟨j, w', hj, hown⟩
  · exact Or.inl h0
  · right
    by_cases hij : i = j
    · subst hij
      rw [hw] at hj
      cases hj
      exact ⟨i, setPc p w, get_modify_self hw, hk hown⟩
    · exact ⟨j, w', by rw [get_modify_ne hij]; exact hj, hown⟩

theorem origin_new {s0 s : St} {i : Nat} {w : Writer} {p : PC} {dir' : List (Name × Content)}
    {e : Name × Content} (hw : s.writers[i]? = some w) (hown : Owns (setPc p w) e) :
    Origin s0 { dir := dir', writers := s.writers.modify i (setPc p) } e :=
  Or.inr ⟨i, setPc p w, get_modify_self hw, hown⟩

theorem origin_step {s0 s s' : St} {e : Ev} (hst : step s e = some s')
    (ih : ∀ x ∈ s.dir, Origin s0 s x) : ∀ x ∈ s'.dir, Origin s0 s' x := by
  obtain ⟨i, w, p, dir', hw, hact, rfl⟩ := step_act hst
  intro x hx
  simp only at hx
  cases hact with
  | mkdir hp =>
    exact origin_keep hw (ih x hx) (by simp [Owns, hp])
  | create hp =>
    rcases mem_setDir.1 hx with rfl | ⟨hx, hne⟩
    · exact origin_new hw (by simp [Owns])
    · exact origin_keep hw (ih x hx) (by simp [Owns, hp])
  | write d k hp hk hle =>
    rcases mem_setDir.1 hx with rfl | ⟨hx, hne⟩
    · exact origin_new hw (by simp [Owns])
    · exact origin_keep hw (ih x hx) (by simp [Owns, hp, hne])
  | writeErr d hp =>
    obtain ⟨hx, hne⟩ := mem_rm.1 hx
    exact origin_keep hw (ih x hx) (by simp [Owns, hp, hne])
  | close hp =>
    refine origin_keep hw (ih x hx) ?_
    intro ho
    rcases ho with ⟨_, _, hf⟩ | ⟨ht, d, hd, hc⟩ | ⟨_, hc, _⟩
    · rw [hp] at hf; cases hf
    · rw [hp] at hd
      cases hd
      rw [List.take_length] at hc
      exact .inr (.inr ⟨ht, rfl, hc⟩)
    · rw [hp] at hc; cases hc
  | rename hp =>
    rcases mem_setDir.1 hx with rfl | ⟨hx, hne⟩
    · exact origin_new hw (by simp [Owns])
    · obtain ⟨hx, hne'⟩ := mem_rm.1 hx
      exact origin_keep hw (ih x hx) (by simp [Owns, hp, hne'])

/-- **origin invariant**: in every reachable state every entry is an initial entry, the installed
    complete payload of a finished writer, or the temp file of a writer that is writing/closed,
    holding exactly the prefix written so far (no hypothesis needed) -/
theorem origin {s0 s : St} (h : Reachable s0 s) : ∀ x ∈ s.dir, Origin s0 s x := by
  induction h with
  | refl => exact fun x hx => Or.inl hx
  | step e _ hst ih => exact origin_step hst ih

/-! ## Invariant 2: directory keys -/

theorem keys_step {s s' : St} {e : Ev} (hst : step s e = some s')
    (ih : (s.dir.map (·.1)).Nodup) : (s'.dir.map (·.1)).Nodup := by
  obtain ⟨i, w, p, dir', hw, hact, rfl⟩ := step_act hst
  cases hact with
  | mkdir hp => exact ih
  | create hp => exact keys_setDir _ _ ih
  | write d k hp hk hle => exact keys_setDir _ _ ih
  | writeErr d hp => exact keys_rm _ ih
  | close hp => exact ih
  | rename hp => exact keys_setDir _ _ (keys_rm _ ih)

/-! ## Invariant 3: the temp file of each writer -/

/-- the temp file of `w` exists exactly while `w` is writing/closed, and then holds exactly the
    bytes written so far -/
def TmpOk (dir : List (Name × Content)) (w : Writer) : Prop :=
  match w.pc with
  | .writing d => d ≤ w.payload.length ∧ (w.tmp, w.payload.take d) ∈ dir
  | .closed => (w.tmp, w.payload) ∈ dir
  | _ => ∀ c, (w.tmp, c) ∉ dir

/-- a step of writer `w` touches only the names `w.tmp` and `w.final` -/
theorem act_other {dir dir' : List (Name × Content)} {w : Writer} {p : PC} (h : Act dir w p dir')
    {n : Name} (h1 : n ≠ w.tmp) (h2 : n ≠ w.final) (c : Content) :
    (n, c) ∈ dir' ↔ (n, c) ∈ dir := by
  cases h <;> simp [mem_setDir, h1, h2]

/-- a name other than `w.tmp` that is present stays present (maybe with new content) -/
theorem act_present {dir dir' : List (Name × Content)} {w : Writer} {p : PC}
    (h : Act dir w p dir') {n : Name} (h1 : n ≠ w.tmp) (hc : ∃ c, (n, c) ∈ dir) :
    ∃ c, (n, c) ∈ dir' := by
  obtain ⟨c, hc⟩ := hc
  cases h with
  | mkdir hp => exact ⟨c, hc⟩
  | create hp => exact ⟨c, mem_setDir.2 (.inr ⟨hc, h1⟩)⟩
  | write d k hp hk hle => exact ⟨c, mem_setDir.2 (.inr ⟨hc, h1⟩)⟩
  | writeErr d hp => exact ⟨c, mem_rm.2 ⟨hc, h1⟩⟩
  | close hp => exact ⟨c, hc⟩
  | rename hp =>
    by_cases h2 : n = w.final
    · exact ⟨w.payload, mem_setDir.2 (.inl (by rw [h2]))⟩
    · exact ⟨c, mem_setDir.2 (.inr ⟨mem_rm.2 ⟨hc, h1⟩, h2⟩)⟩

theorem tmpOk_congr {dir dir' : List (Name × Content)} {w : Writer}
    (h : ∀ c, (w.tmp, c) ∈ dir' ↔ (w.tmp, c) ∈ dir) (hk : TmpOk dir w) : TmpOk dir' w := by
  unfold TmpOk at *
  split <;> simp_all

theorem tmpOk_step {isChunk Valid s0 s s'} {e : Ev} (hf : WFacts isChunk Valid s0 s)
    (hst : step s e = some s') (ih : ∀ (j : Nat) (w : Writer), s.writers[j]? = some w → TmpOk s.dir w) :
    ∀ (j : Nat) (w : Writer), s'.writers[j]? = some w → TmpOk s'.dir w := by
  obtain ⟨i, w, p, dir', hw, hact, rfl⟩ := step_act hst
  intro j w' hj
  simp only at hj ⊢
  rcases get_modify hj with ⟨rfl, w1, hw1, rfl⟩ | ⟨hij, hj⟩
  · rw [hw] at hw1
    cases hw1
    have hk := ih i w hw
    have hne : w.tmp ≠ w.final := hf.tmp_ne_final hw hw
    cases hact with
    | mkdir hp => simpa [TmpOk, hp] using hk
    | create hp => simp [TmpOk, mem_setDir]
    | write d k hp hk hle => simp [TmpOk, mem_setDir, hle]
    | writeErr d hp => simp [TmpOk]
    | close hp => simpa [TmpOk, hp] using hk
    | rename hp => simp [TmpOk, mem_setDir, hne]
  · have h1 : w'.tmp ≠ w.tmp := fun h => hij (hf.tmp_inj i j w w' hw hj h.symm)
    have h2 : w'.tmp ≠ w.final := hf.tmp_ne_final hj hw
    exact tmpOk_congr (act_other hact h1 h2) (ih j w' hj)

theorem tmpOk {isChunk Valid s0} (hs : Setup isChunk Valid s0) {s : St} (h : Reachable s0 s) :
    ∀ (j : Nat) (w : Writer), s.writers[j]? = some w → TmpOk s.dir w := by
  induction h with
  | refl =>
    intro j w hw
    have hm := List.mem_of_getElem? hw
    have hp := hs.init_pc w hm
    simp only [TmpOk, hp]
    intro c hc
    exact hs.tmp_fresh w hm _ hc rfl
  | step e hr hst ih => exact tmpOk_step (wfacts hs hr) hst ih

/-! ## Invariant 4: a finished writer's name is present -/

theorem installed_step {isChunk Valid s0 s s'} {e : Ev} (hf : WFacts isChunk Valid s0 s)
    (hst : step s e = some s')
    (ih : ∀ (j : Nat) (w : Writer), s.writers[j]? = some w → w.pc = .finished → ∃ c, (w.final, c) ∈ s.dir) :
    ∀ (j : Nat) (w : Writer), s'.writers[j]? = some w → w.pc = .finished → ∃ c, (w.final, c) ∈ s'.dir := by
  obtain ⟨i, w, p, dir', hw, hact, rfl⟩ := step_act hst
  intro j w' hj hfin
  simp only at hj ⊢
  rcases get_modify hj with ⟨rfl, w1, hw1, rfl⟩ | ⟨hij, hj⟩
  · rw [hw] at hw1
    cases hw1
    simp only [setPc_pc] at hfin
    subst hfin
    cases hact with
    | rename hp => exact ⟨w.payload, mem_setDir.2 (.inl rfl)⟩
  · exact act_present hact (fun h => hf.tmp_ne_final hw hj h.symm) (ih j w' hj hfin)

theorem installed {isChunk Valid s0} (hs : Setup isChunk Valid s0) {s : St} (h : Reachable s0 s) :
    ∀ (j : Nat) (w : Writer), s.writers[j]? = some w → w.pc = .finished → ∃ c, (w.final, c) ∈ s.dir := by
  induction h with
  | refl =>
    intro j w hw hfin
    rw [hs.init_pc w (List.mem_of_getElem? hw)] at hfin
    cases hfin
  | step e hr hst ih => exact installed_step (wfacts hs hr) hst ih

/-! ## Main theorems -/

/-- **crash atomicity**: in every reachable state — i.e. whatever the interleaving of any number
    of writers (also of the same chunk), whatever the write sizes, and wherever the process dies —
    every file visible under a chunk name is a complete valid chunk: a partially written file is
    never visible under a chunk name -/
theorem crash_atomic (isChunk : Name → Bool) (Valid : Name → Content → Prop) (s0 : St)
    (hs : Setup isChunk Valid s0) (s : St) (h : Reachable s0 s) :
    ∀ e ∈ s.dir, isChunk e.1 = true → Valid e.1 e.2 := by
  intro e he hc
  have hf := wfacts hs h
  rcases origin h e he with h0 | ⟨j, w, hw, hfin | htmp | htmp⟩
  · exact hs.init_valid e h0 hc
  · rw [hfin.1, hfin.2.1]; exact hf.payload_valid j w hw
  · rw [htmp.1, hf.tmp_not_chunk j w hw] at hc; cases hc
  · rw [htmp.1, hf.tmp_not_chunk j w hw] at hc; cases hc

/-- for each ID the store holds either what it held before or a complete valid chunk: a
    chunk-named entry is either an initial entry or exactly the payload of a *finished* writer of
    that name (the last one that renamed) -/
theorem chunk_entry_origin (isChunk : Name → Bool) (Valid : Name → Content → Prop) (s0 : St)
    (hs : Setup isChunk Valid s0) (s : St) (h : Reachable s0 s) :
    ∀ e ∈ s.dir, isChunk e.1 = true →
      e ∈ s0.dir ∨ ∃ w ∈ s.writers, w.final = e.1 ∧ e.2 = w.payload ∧ w.pc = .finished := by
  intro e he hc
  have hf := wfacts hs h
  rcases origin h e he with h0 | ⟨j, w, hw, hfin | htmp | htmp⟩
  · exact .inl h0
  · exact .inr ⟨w, List.mem_of_getElem? hw, hfin.1.symm, hfin.2.1, hfin.2.2⟩
  · rw [htmp.1, hf.tmp_not_chunk j w hw] at hc; cases hc
  · rw [htmp.1, hf.tmp_not_chunk j w hw] at hc; cases hc

/-- a writer that finished has installed its chunk, unless a later rename of the same name
    replaced it by another complete valid one: in both cases a complete valid chunk is visible
    under its name -/
theorem finished_installed (isChunk : Name → Bool) (Valid : Name → Content → Prop) (s0 : St)
    (hs : Setup isChunk Valid s0) (s : St) (h : Reachable s0 s) (i : Nat) (w : Writer)
    (hw : s.writers[i]? = some w) (hf : w.pc = .finished) :
    ∃ c, (w.final, c) ∈ s.dir ∧ Valid w.final c := by
  obtain ⟨c, hc⟩ := installed hs h i w hw hf
  exact ⟨c, hc, crash_atomic isChunk Valid s0 hs s h _ hc ((wfacts hs h).final_chunk i w hw)⟩

/-- partial data lives only under temp names: every entry that is not an initial entry is either
    the complete payload of a finished writer under its final name, or the temp file of a writer
    in state `writing d` holding exactly the `d ≤ length` bytes written so far, or the temp file of
    a `closed` writer holding the complete payload -/
theorem partial_only_under_tmp (isChunk : Name → Bool) (Valid : Name → Content → Prop) (s0 : St)
    (hs : Setup isChunk Valid s0) (s : St) (h : Reachable s0 s) :
    ∀ e ∈ s.dir, e ∉ s0.dir →
      (∃ w ∈ s.writers, e.1 = w.final ∧ e.2 = w.payload ∧ w.pc = .finished) ∨
      (∃ w ∈ s.writers, e.1 = w.tmp ∧
        ((∃ d, w.pc = .writing d ∧ d ≤ w.payload.length ∧ e.2 = w.payload.take d) ∨
         (w.pc = .closed ∧ e.2 = w.payload))) := by
  intro e he hn
  rcases origin h e he with h0 | ⟨j, w, hw, hfin | ⟨ht, d, hd, hc⟩ | ⟨ht, hp, hc⟩⟩
  · exact absurd h0 hn
  · exact .inl ⟨w, List.mem_of_getElem? hw, hfin⟩
  · have hk := tmpOk hs h j w hw
    simp only [TmpOk, hd] at hk
    exact .inr ⟨w, List.mem_of_getElem? hw, ht, .inl ⟨d, hd, hk.1, hc⟩⟩
  · exact .inr ⟨w, List.mem_of_getElem? hw, ht, .inr ⟨hp, hc⟩⟩

/-- the directory never has two entries with the same name -/
theorem dir_keys_nodup (isChunk : Name → Bool) (Valid : Name → Content → Prop) (s0 : St)
    (hs : Setup isChunk Valid s0) (s : St) (h : Reachable s0 s) : (s.dir.map (·.1)).Nodup := by
  induction h with
  | refl => exact hs.dir_keys
  | step e _ hst ih => exact keys_step hst ih

/-- leftovers: after a crash, the only garbage are temp files (to be removed by prune): every
    entry whose name is not a chunk name and that was not there initially is some writer's temp
    file -/
theorem leftovers_are_tmp (isChunk : Name → Bool) (Valid : Name → Content → Prop) (s0 : St)
    (hs : Setup isChunk Valid s0) (s : St) (h : Reachable s0 s) :
    ∀ e ∈ s.dir, isChunk e.1 = false → e ∈ s0.dir ∨ ∃ w ∈ s.writers, e.1 = w.tmp := by
  intro e he hc
  have hf := wfacts hs h
  rcases origin h e he with h0 | ⟨j, w, hw, hfin | htmp | htmp⟩
  · exact .inl h0
  · rw [hfin.1, hf.final_chunk j w hw] at hc; cases hc
  · exact .inr ⟨w, List.mem_of_getElem? hw, htmp.1⟩
  · exact .inr ⟨w, List.mem_of_getElem? hw, htmp.1⟩

/-- the temp file of a writer exists exactly while it is `writing`/`closed`, and then holds exactly
    the bytes written so far.  In particular at `rename` time (`closed`) the temp file holds the
    complete payload — so the model's `rename` (final name := payload) is "final name := content
    of the temp file" — and a writer that finished or failed (or has not created its temp file
    yet) leaves no temp file behind -/
theorem tmp_file_exact (isChunk : Name → Bool) (Valid : Name → Content → Prop) (s0 : St)
    (hs : Setup isChunk Valid s0) (s : St) (h : Reachable s0 s) (i : Nat) (w : Writer)
    (hw : s.writers[i]? = some w) :
    (∀ d, w.pc = .writing d → d ≤ w.payload.length ∧ (w.tmp, w.payload.take d) ∈ s.dir) ∧
    (w.pc = .closed → (w.tmp, w.payload) ∈ s.dir) ∧
    ((w.pc = .mk ∨ w.pc = .create ∨ w.pc = .finished ∨ w.pc = .failed) →
      ∀ c, (w.tmp, c) ∉ s.dir) := by
  have hk := tmpOk hs h i w hw
  refine ⟨fun d hd => ?_, fun hc => ?_, fun hp => ?_⟩
  · simpa only [TmpOk, hd] using hk
  · simpa only [TmpOk, hc] using hk
  · rcases hp with hp | hp | hp | hp <;> simpa only [TmpOk, hp] using hk

/-- once every writer has returned (finished or failed) and no crash happened, nothing is left
    over: every entry is an initial entry or a chunk-named (hence valid) file -/
theorem quiescent_clean (isChunk : Name → Bool) (Valid : Name → Content → Prop) (s0 : St)
    (hs : Setup isChunk Valid s0) (s : St) (h : Reachable s0 s)
    (hq : ∀ w ∈ s.writers, w.pc = .finished ∨ w.pc = .failed) :
    ∀ e ∈ s.dir, e ∈ s0.dir ∨ isChunk e.1 = true := by
  intro e he
  rcases origin h e he with h0 | ⟨j, w, hw, hfin | ⟨_, d, hd, _⟩ | ⟨_, hp, _⟩⟩
  · exact .inl h0
  · right; rw [hfin.1]; exact (wfacts hs h).final_chunk j w hw
  · rcases hq w (List.mem_of_getElem? hw) with hp | hp <;> rw [hd] at hp <;> cases hp
  · rcases hq w (List.mem_of_getElem? hw) with hp' | hp' <;> rw [hp] at hp' <;> cases hp'

/-! ## Progress -/

/-- the writer an event belongs to -/
def Ev.writer : Ev → Nat
  | .mkdir i | .create i | .write i _ | .writeErr i | .close i | .rename i => i

/-- is the event the injected write failure -/
def Ev.isErr : Ev → Bool
  | .writeErr _ => true
  | _ => false

/-- no deadlock / progress: every writer not finished/failed has an enabled event (needs no
    hypothesis: `writeErr` is always enabled while writing; see `progress_no_error`) -/
theorem progress (isChunk : Name → Bool) (Valid : Name → Content → Prop) (s0 : St)
    (_hs : Setup isChunk Valid s0) (s : St) (_h : Reachable s0 s) (i : Nat) (w : Writer)
    (hw : s.writers[i]? = some w) (hp : w.pc ≠ .finished ∧ w.pc ≠ .failed) :
    ∃ e s', step s e = some s' := by
  cases hpc : w.pc with
  | mk => exact ⟨.mkdir i, _, by simp [step, hw, hpc]; rfl⟩
  | create => exact ⟨.create i, _, by simp [step, hw, hpc]; rfl⟩
  | writing d => exact ⟨.writeErr i, _, by simp [step, hw, hpc]; rfl⟩
  | closed => exact ⟨.rename i, _, by simp [step, hw, hpc]; rfl⟩
  | finished => exact absurd hpc hp.1
  | failed => exact absurd hpc hp.2

/-- progress without failure injection: every writer not finished/failed has an enabled event of
    its own that is not `writeErr` (while writing: a 1-byte write if bytes remain, else `close`;
    uses the invariant `done ≤ payload.length`) -/
theorem progress_no_error (isChunk : Name → Bool) (Valid : Name → Content → Prop) (s0 : St)
    (hs : Setup isChunk Valid s0) (s : St) (h : Reachable s0 s) (i : Nat) (w : Writer)
    (hw : s.writers[i]? = some w) (hp : w.pc ≠ .finished ∧ w.pc ≠ .failed) :
    ∃ e s', step s e = some s' ∧ e.writer = i ∧ e.isErr = false := by
  cases hpc : w.pc with
  | mk => exact ⟨.mkdir i, _, by simp [step, hw, hpc]; rfl, rfl, rfl⟩
  | create => exact ⟨.create i, _, by simp [step, hw, hpc]; rfl, rfl, rfl⟩
  | writing d =>
    have hk := tmpOk hs h i w hw
    simp only [TmpOk, hpc] at hk
    by_cases hd : d = w.payload.length
    · exact ⟨.close i, _, by simp [step, hw, hpc, hd]; rfl, rfl, rfl⟩
    · have hlt : d + 1 ≤ w.payload.length := by omega
      exact ⟨.write i 1, _, by simp [step, hw, hpc, hlt]; rfl, rfl, rfl⟩
  | closed => exact ⟨.rename i, _, by simp [step, hw, hpc]; rfl, rfl, rfl⟩
  | finished => exact absurd hpc hp.1
  | failed => exact absurd hpc hp.2

end Desync.CrashFS
