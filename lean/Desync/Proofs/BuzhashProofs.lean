/-
  Algebra of the buzhash: rotation lemmas and rolling = direct window hash.
-/
import Desync.Hash.Buzhash

namespace Desync

theorem bv_rotl_xor (x y : BitVec 32) (k : Nat) :
    (x ^^^ y).rotateLeft k = x.rotateLeft k ^^^ y.rotateLeft k := by
  ext i hi
  simp only [BitVec.getElem_rotateLeft, BitVec.getElem_xor]
  split <;> simp

theorem bv_rotl_rotl (x : BitVec 32) (a b : Nat) :
    (x.rotateLeft a).rotateLeft b = x.rotateLeft (a + b) := by
  ext i hi
  simp only [BitVec.getElem_rotateLeft]
  split <;> split <;> split <;> (try omega) <;> (congr 1; omega)

theorem rotl32_xor (x y : UInt32) (k : Nat) :
    rotl32 (x ^^^ y) k = rotl32 x k ^^^ rotl32 y k := by
  simp only [rotl32]
  apply UInt32.toBitVec_inj.mp
  simp [bv_rotl_xor]

theorem rotl32_rotl32 (x : UInt32) (a b : Nat) :
    rotl32 (rotl32 x a) b = rotl32 x (a + b) := by
  simp only [rotl32, bv_rotl_rotl]

theorem rotl32_zero (k : Nat) : rotl32 0 k = 0 := by
  simp only [rotl32]
  apply UInt32.toBitVec_inj.mp
  ext i hi
  simp [BitVec.getElem_rotateLeft]

theorem rotl32_zero' (x : UInt32) : rotl32 x 0 = x := by
  simp only [rotl32]
  apply UInt32.toBitVec_inj.mp
  ext i hi
  simp [BitVec.getElem_rotateLeft]

theorem hashWin_snoc (w : Bytes) (b : UInt8) :
    hashWin (w ++ [b]) = rotl32 (hashWin w) 1 ^^^ buzT b := by
  induction w with
  | nil =>
    simp only [List.nil_append, hashWin, rotl32_zero, List.length_nil, UInt32.xor_zero, UInt32.zero_xor]
    exact rotl32_zero' _
  | cons x xs ih =>
    simp only [List.cons_append, hashWin, ih, rotl32_xor, rotl32_rotl32, List.length_append,
      List.length_singleton, UInt32.xor_assoc]

/-- (1) rolling = direct window hash -/
theorem roll_eq_hashWin (out : UInt8) (rest : Bytes) (b : UInt8)
    (h : (out :: rest).length = winSize) :
    rollStep (hashWin (out :: rest)) out b = hashWin (rest ++ [b]) := by
  have hl : rest.length + 1 = winSize := by simpa using h
  rw [hashWin_snoc]
  simp only [rollStep, hashWin, rotl32_xor, rotl32_rotl32, hl]
  generalize rotl32 (buzT out) winSize = A
  generalize rotl32 (hashWin rest) 1 = B
  generalize buzT b = C
  apply UInt32.toBitVec_inj.mp
  simp only [UInt32.toBitVec_xor]
  ext i hi
  simp only [BitVec.getElem_xor]
  cases A.toBitVec[i] <;> cases B.toBitVec[i] <;> cases C.toBitVec[i] <;> rfl

end Desync
