/-
  (2) Every element the tar encoder emits carries a size field equal to its encoded length.
-/
import Desync.Model.Archive

namespace Desync

/-- the header's size field -/
def Elem.sizeField : Elem → UInt64
  | .entry sz .. => sz
  | .user sz _ => sz
  | .group sz _ => sz
  | .xattr sz _ => sz
  | .selinux sz _ => sz
  | .filename sz _ => sz
  | .symlink sz _ => sz
  | .device sz .. => sz
  | .payload sz => sz
  | .fcaps sz _ => sz
  | .aclUser sz .. => sz
  | .aclGroup sz .. => sz
  | .aclGroupObj sz _ => sz
  | .aclDefault sz .. => sz
  | .goodbye sz _ => sz
  | .index sz .. => sz
  | .table sz _ => sz

/-- bytes occupied by an element in the stream, including a payload that follows the header -/
def Elem.encLen (e : Elem) (payloadLen : Nat) : Nat := (encElem e).length + payloadLen

theorem encU64s_length (vs : List UInt64) : (encU64s vs).length = 8 * vs.length := by
  induction vs with
  | nil => rfl
  | cons v vs ih =>
    simp only [encU64s, List.flatMap_cons, List.length_append, le64_length, List.length_cons] at ih ⊢
    omega

theorem encGoodbyeItems_length (items : List GoodbyeItem) :
    (encGoodbyeItems items).length = 24 * items.length := by
  induction items with
  | nil => rfl
  | cons v vs ih =>
    simp only [encGoodbyeItems, List.flatMap_cons, List.length_append, le64_length,
      List.length_cons] at ih ⊢
    omega

theorem entryElem_size (f : FileRec) :
    (encElem (entryElem f)).length = 64 ∧ (entryElem f).sizeField = 64 := by
  refine ⟨?_, rfl⟩
  simp [entryElem, encElem, encU64s_length]

set_option linter.unusedVariables false in
theorem filename_size (n : Bytes) (h : 16 + n.length + 1 < 2^64) :
    (encElem (.filename (UInt64.ofNat (16 + n.length + 1)) n)).length = 16 + n.length + 1 := by
  simp [encElem, encU64s_length]; omega

set_option linter.unusedVariables false in
theorem symlink_size (t : Bytes) (h : 16 + t.length + 1 < 2^64) :
    (encElem (.symlink (UInt64.ofNat (16 + t.length + 1)) t)).length = 16 + t.length + 1 := by
  simp [encElem, encU64s_length]; omega

theorem device_size (ma mi : UInt64) : (encElem (.device 32 ma mi)).length = 32 := by
  simp [encElem, encU64s_length]

theorem payload_size (sz : UInt64) : (encElem (.payload sz)).length = 16 := by
  simp [encElem, encU64s_length]

theorem goodbye_size (items : List GoodbyeItem) :
    (encElem (.goodbye (UInt64.ofNat (16 + items.length * 24)) items)).length
      = 16 + items.length * 24 := by
  simp only [encElem, List.length_append, encU64s_length, encGoodbyeItems_length, List.length_cons,
    List.length_nil]
  omega

theorem xattr_size (k v : Bytes) :
    (encElem (.xattr (u64len k + 1 + u64len v + 1 + 16) (k ++ [0] ++ v))).length
      = k.length + 1 + v.length + 1 + 16 := by
  simp only [encElem, List.length_append, encU64s_length, List.length_cons, List.length_nil]
  omega

/-! ### the size field, as a number, is the encoded length (this is where the bounds are needed) -/

theorem ofNat_toNat_of_lt {n : Nat} (h : n < 2 ^ 64) : (UInt64.ofNat n).toNat = n := by
  rw [UInt64.toNat_ofNat']
  exact Nat.mod_eq_of_lt h

theorem filename_sizeField (n : Bytes) (h : 16 + n.length + 1 < 2^64) :
    (Elem.filename (UInt64.ofNat (16 + n.length + 1)) n).sizeField.toNat
      = (encElem (.filename (UInt64.ofNat (16 + n.length + 1)) n)).length := by
  rw [filename_size n h]
  exact ofNat_toNat_of_lt h

theorem symlink_sizeField (t : Bytes) (h : 16 + t.length + 1 < 2^64) :
    (Elem.symlink (UInt64.ofNat (16 + t.length + 1)) t).sizeField.toNat
      = (encElem (.symlink (UInt64.ofNat (16 + t.length + 1)) t)).length := by
  rw [symlink_size t h]
  exact ofNat_toNat_of_lt h

theorem goodbye_sizeField (items : List GoodbyeItem) (h : 16 + items.length * 24 < 2^64) :
    (Elem.goodbye (UInt64.ofNat (16 + items.length * 24)) items).sizeField.toNat
      = (encElem (.goodbye (UInt64.ofNat (16 + items.length * 24)) items)).length := by
  rw [goodbye_size items]
  exact ofNat_toNat_of_lt h

theorem xattr_sz_toNat (k v : Bytes) (h : k.length + v.length + 18 < 2^64) :
    (u64len k + 1 + u64len v + 1 + 16).toNat = k.length + 1 + v.length + 1 + 16 := by
  have hk : (u64len k).toNat = k.length := ofNat_toNat_of_lt (by omega)
  have hv : (u64len v).toNat = v.length := ofNat_toNat_of_lt (by omega)
  have e1 : (u64len k + 1).toNat = k.length + 1 := by
    rw [UInt64.toNat_add, hk]; simp; omega
  have e2 : (u64len k + 1 + u64len v).toNat = k.length + 1 + v.length := by
    rw [UInt64.toNat_add, e1, hv]; omega
  have e3 : (u64len k + 1 + u64len v + 1).toNat = k.length + 1 + v.length + 1 := by
    rw [UInt64.toNat_add, e2]; simp; omega
  rw [UInt64.toNat_add, e3]; simp; omega

theorem xattr_sizeField (k v : Bytes) (h : k.length + v.length + 18 < 2^64) :
    (Elem.xattr (u64len k + 1 + u64len v + 1 + 16) (k ++ [0] ++ v)).sizeField.toNat
      = (encElem (.xattr (u64len k + 1 + u64len v + 1 + 16) (k ++ [0] ++ v))).length := by
  rw [xattr_size]
  exact xattr_sz_toNat k v h

/-- a regular file's payload element announces header + data -/
theorem payload_sizeField (data : Bytes) (h : 16 + data.length < 2^64) :
    (Elem.payload (16 + u64len data)).sizeField.toNat
      = (Elem.payload (16 + u64len data)).encLen data.length := by
  have hd : (u64len data).toNat = data.length := ofNat_toNat_of_lt (by omega)
  simp only [Elem.sizeField, Elem.encLen, payload_size]
  rw [UInt64.toNat_add, hd]; simp; omega

end Desync
