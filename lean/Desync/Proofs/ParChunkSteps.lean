/-
  The invariant of the parallel chunker machine is preserved by every event (part 1: the events of a
  worker that do not touch another worker's bucket, and the main routine).
-/
import Desync.Proofs.ParChunkFrame2

namespace Desync.Par

variable {e : Env} {zero : Nat → Prop}

theorem WLocal.update {n i : Nat} {w w' : Worker} (hl : WLocal e zero n i w)
    (hn : w'.next = w.next) (hst : w'.stopped = w.stopped) (hcl : w'.closed = w.closed)
    (hspc : stoppedPC w'.pc = stoppedPC w.pc) (hdone : w'.pc = .done ↔ w.pc = .done)
    (hpos : w'.pos ≤ e.size) (hrun : Run e (front w') w'.bucket (endOf w'))
    (heof : w'.eof = true → w'.pos = e.size ∧ finPC w'.pc = true) (hpc : PcLocal e zero w') :
    WLocal e zero n i w' :=
  ⟨hpos, hrun, by rw [hst, hspc]; exact hl.stopped_iff, by rw [hcl, hdone]; exact hl.closed_iff,
    by rw [nxW_congr rfl hn]; exact hl.nx_gt, by rw [nxW_congr rfl hn]; exact hl.nx_le,
    by rw [hn]; exact hl.next_lt, heof, hpc⟩

theorem WLocal.eof_false {n i : Nat} {w : Worker} (hl : WLocal e zero n i w) (hlive : finPC w.pc = false) :
    w.eof = false := by
  cases h : w.eof
  · rfl
  · have := (hl.eof_ok h).2; rw [hlive] at this; cases this

/-- a step that only changes the program counter, between two values at which the bucket ends at `pos` -/
theorem WLocal.update_pc {n i : Nat} {w : Worker} (hl : WLocal e zero n i w) (pc' : PC)
    (hlive : finPC w.pc = false) (hspc : stoppedPC pc' = false) (hend : endOf w = w.pos)
    (hend' : endOf { w with pc := pc' } = w.pos) (hpc : PcLocal e zero { w with pc := pc' }) :
    WLocal e zero n i { w with pc := pc' } := by
  have hsp : stoppedPC w.pc = false := by
    cases h : w.pc <;> simp only [h, finPC, stoppedPC] at hlive ⊢ <;> cases hlive
  refine hl.update rfl rfl rfl (by rw [hsp]; exact hspc) ?_ hl.pos_le ?_ ?_ hpc
  · constructor
    · intro h; rw [show ({ w with pc := pc' } : Worker).pc = pc' from rfl] at h; rw [h] at hspc; cases hspc
    · intro h; rw [h] at hlive; cases hlive
  · have := hl.run
    rw [hend] at this
    show Run e (front { w with pc := pc' }) w.bucket (endOf { w with pc := pc' })
    rw [hend']
    have hfr : front { w with pc := pc' } = front w := by
      show (match w.bucket with | c :: _ => c.start | [] => endOf { w with pc := pc' }) =
        (match w.bucket with | c :: _ => c.start | [] => endOf w)
      rw [hend', hend]
    rw [hfr]; exact this
  · intro h; rw [show ({ w with pc := pc' } : Worker).eof = w.eof from rfl, hl.eof_false hlive] at h; cases h

theorem front_update_pc {w : Worker} (pc' : PC) (hend : endOf w = w.pos) (hend' : endOf { w with pc := pc' } = w.pos) :
    front { w with pc := pc' } = front w := by
  show (match w.bucket with | c :: _ => c.start | [] => endOf { w with pc := pc' }) =
    (match w.bucket with | c :: _ => c.start | [] => endOf w)
  rw [hend', hend]

/-- a live worker changes only its program counter (no `next` worker involved in the new state) -/
theorem Inv.pc_step (hE : EnvOK e zero) {s : St} {i : Nat} {w : Worker} (hI : Inv e zero s)
    (hw : s.workers[i]? = some w) (pc' : PC)
    (hlive : finPC w.pc = false) (hlive' : finPC pc' = false) (hspc : stoppedPC pc' = false) (hend : endOf w = w.pos)
    (hend' : endOf { w with pc := pc' } = w.pos) (hpc : PcLocal e zero { w with pc := pc' })
    (hpair' : ∀ j wj, w.next = some j → s.workers[j]? = some wj → PcPair e zero pc' wj.sync) :
    Inv e zero (setW s i fun w => { w with pc := pc' }) := by
  have hl := hI.loc i w hw
  refine Inv.self_step_live hE hI (Upd1.setW _ hw) rfl rfl rfl rfl (front_update_pc pc' hend hend') hlive
    (hl.update_pc pc' hlive hspc hend hend' hpc) hpair' ?_
  intro h; rw [show ({ w with pc := pc' } : Worker).pc = pc' from rfl, hlive'] at h; cases h

theorem Inv.produce (hE : EnvOK e zero) {s s' : St} {i : Nat} (hI : Inv e zero s)
    (h : step e s (.produce i) = some s') : Inv e zero s' := by
  simp only [step] at h
  split at h
  · rename_i w hw
    have hl := hI.loc i w hw
    split at h
    · rename_i hpc
      have hlive : finPC w.pc = false := by rw [hpc]; rfl
      have heof := hl.eof_false hlive
      split at h
      · rename_i hge
        cases h
        refine Inv.self_step_live hE hI (Upd1.setW _ hw) rfl rfl rfl rfl ?_ hlive ?_ ?_ ?_
        · simp only [front, endOf, hpc]
        · refine hl.update rfl rfl rfl (by rw [hpc]; rfl) (by rw [hpc]; simp) hl.pos_le ?_ ?_ trivial
          · have := hl.run; simpa only [front, endOf, hpc] using this
          · intro _; exact ⟨by have := hl.pos_le; show w.pos = e.size; omega, rfl⟩
        · intro j wj _ _; trivial
        · intro _ h2; cases h2
      · rename_i hlt
        cases h
        have hlt : w.pos < e.size := by omega
        have hfr : front { w with pos := w.pos + e.cut w.pos, bucket := w.bucket ++ [⟨w.pos, e.cut w.pos⟩], pc := PC.pushed ⟨w.pos, e.cut w.pos⟩ } = front w := by
          cases hb : w.bucket <;> simp only [front, endOf, hpc, hb, List.nil_append, List.cons_append]
        refine Inv.self_step_live hE hI (Upd1.setW _ hw) rfl rfl rfl rfl hfr hlive ?_ ?_ ?_
        · refine hl.update rfl rfl rfl (by rw [hpc]; rfl) (by rw [hpc]; simp) ?_ ?_ ?_ ?_
          · exact hE.cut_le _ hlt
          · have := hl.run
            have hend : endOf w = w.pos := by simp only [endOf, hpc]
            rw [hend] at this
            have h2 := Run.snoc ⟨w.pos, e.cut w.pos⟩ this rfl rfl hlt
            rw [hfr]; exact h2
          · intro h; rw [heof] at h; cases h
          · exact ⟨⟨rfl, hlt⟩, rfl⟩
        · intro j wj _ _; trivial
        · intro h1; cases h1
    · cases h
  · cases h

theorem Inv.look (hE : EnvOK e zero) {s s' : St} {i : Nat} (hI : Inv e zero s)
    (h : step e s (.look i) = some s') : Inv e zero s' := by
  simp only [step] at h
  split at h
  · rename_i w hw
    have hl := hI.loc i w hw
    split at h
    · rename_i c hpc
      have hlive : finPC w.pc = false := by rw [hpc]; rfl
      have hend : endOf w = w.pos := by simp only [endOf, hpc]
      have hpcl := hl.pc_ok
      simp only [PcLocal, hpc] at hpcl
      split at h
      · rename_i j hnext
        cases h
        refine Inv.pc_step hE hI hw _ hlive rfl rfl hend rfl ?_ ?_
        · simp only [PcLocal]; exact ⟨hpcl.1, hpcl.2, j, hnext⟩
        · intro j wj _ _ q hq; cases hq
      · cases h
        refine Inv.pc_step hE hI hw _ hlive rfl rfl hend rfl trivial ?_
        intro j wj _ _; trivial
    · cases h
  · cases h

theorem Inv.skip (hE : EnvOK e zero) {s s' : St} {i : Nat} (hI : Inv e zero s)
    (h : step e s (.skip i) = some s') : Inv e zero s' := by
  simp only [step] at h
  split at h
  · rename_i w hw
    have hl := hI.loc i w hw
    split at h
    · rename_i hpc
      have hlive : finPC w.pc = false := by rw [hpc]; rfl
      have hend : endOf w = w.pos := by simp only [endOf, hpc]
      have htop : Inv e zero (setW s i fun w => { w with pc := .top }) :=
        Inv.pc_step hE hI hw _ hlive rfl rfl hend rfl trivial (fun j wj _ _ => trivial)
      split at h
      · rename_i j hnext
        split at h
        · rename_i wj hj
          split at h
          · rename_i hc
            cases h
            simp only [Gen.parSkipCond, Bool.true_and, Bool.not_not, Bool.and_eq_true, decide_eq_true_eq,
              List.length_eq_zero_iff] at hc
            exact Inv.skip_step hE hI (Upd1.setW _ hw) rfl rfl hpc hnext hj ⟨hc.1, hc.2⟩ rfl
          · cases h; exact htop
        · cases h
      · cases h; exact htop
    · cases h
  · cases h

theorem Inv.stop (hE : EnvOK e zero) {s s' : St} {i : Nat} (hI : Inv e zero s)
    (h : step e s (.stop i) = some s') : Inv e zero s' := by
  simp only [step] at h
  split at h
  · rename_i w hw
    have hl := hI.loc i w hw
    split at h
    · rename_i hpc
      cases h
      refine Inv.self_step hE hI (Upd1.setW _ hw) rfl rfl rfl rfl ?_ ?_ ?_ ?_ ?_ ?_ ?_
      · simp only [front, endOf, hpc]
      · rw [hpc]; intro h; cases h
      · intro h; exact ⟨rfl, h.2⟩
      · intro h; exact ⟨rfl, h.2⟩
      · refine ⟨hl.pos_le, ?_, rfl, ?_, hl.nx_gt, hl.nx_le, hl.next_lt, ?_, trivial⟩
        · have := hl.run; simpa only [front, endOf, hpc] using this
        · have := hl.closed_iff
          rw [hpc] at this
          show w.closed = true ↔ PC.closing = PC.done
          constructor
          · intro h; exact absurd (this.mp h) (by intro h; cases h)
          · intro h; cases h
        · intro h; exact ⟨(hl.eof_ok h).1, rfl⟩
      · intro j wj _ _; trivial
      · intro _ h2
        exact Or.inl ⟨by rw [hpc]; rfl, h2, by simp only [endOf, hpc]⟩
    · cases h
  · cases h

theorem Inv.close (hE : EnvOK e zero) {s s' : St} {i : Nat} (hI : Inv e zero s)
    (h : step e s (.close i) = some s') : Inv e zero s' := by
  simp only [step] at h
  split at h
  · rename_i w hw
    have hl := hI.loc i w hw
    split at h
    · rename_i hpc
      cases h
      refine Inv.self_step hE hI (Upd1.setW _ hw) rfl rfl rfl rfl ?_ ?_ ?_ ?_ ?_ ?_ ?_
      · simp only [front, endOf, hpc]
      · rw [hpc]; intro h; cases h
      · intro h; exact ⟨h.1, h.2⟩
      · intro h; exact ⟨rfl, h.2⟩
      · refine ⟨hl.pos_le, ?_, ?_, ?_, hl.nx_gt, hl.nx_le, hl.next_lt, ?_, trivial⟩
        · have := hl.run; simpa only [front, endOf, hpc] using this
        · have := hl.stopped_iff; rw [hpc] at this; exact this
        · show true = true ↔ PC.done = PC.done
          exact ⟨fun _ => rfl, fun _ => rfl⟩
        · intro h; exact ⟨(hl.eof_ok h).1, rfl⟩
      · intro j wj _ _; trivial
      · intro _ h2
        exact Or.inl ⟨by rw [hpc]; rfl, h2, by simp only [endOf, hpc]⟩
    · cases h
  · cases h

theorem Inv.mainPop (hE : EnvOK e zero) {s s' : St} (hI : Inv e zero s)
    (h : step e s .mainPop = some s') : Inv e zero s' := by
  simp only [step] at h
  split at h
  · rename_i m hm
    split at h
    · rename_i w hw
      split at h
      · rename_i c rest hb
        cases h
        exact Inv.mainPop_step hE hI hm hw hb
      · cases h
    · cases h
  · cases h

theorem Inv.mainNext (hE : EnvOK e zero) {s s' : St} (hI : Inv e zero s)
    (h : step e s .mainNext = some s') : Inv e zero s' := by
  simp only [step] at h
  split at h
  · rename_i m hm
    split at h
    · rename_i w hw
      split at h
      · rename_i hc
        obtain ⟨h1, h2⟩ := Inv.mainNext_step hE hI hm hw hc.1 hc.2
        simp only [Gen.parStopCond, Gen.parFinalErrCond, decide_eq_true_eq] at h
        split at h
        · rename_i hge
          cases h
          have hfin := h2 hge
          have : indexLength s.index = e.size := by have := hI.index_le hE; omega
          simpa only [this, ne_eq, not_true_eq_false, decide_false, Bool.not_false] using hfin
        · rename_i hlt
          have hlt' : indexLength s.index < e.size := by omega
          split at h
          · cases h; exact (h1 hlt').2
          · rename_i hn; exact absurd (h1 hlt').1 hn
      · cases h
    · cases h
  · cases h

end Desync.Par
