import Desync.Model.WriteDedup
import Desync.Proofs.WriteDedupSteps

set_option linter.unusedSimpArgs false

namespace Desync.WDedup

open Desync.Dedup (mem_of_lookup not_mem_of_lookup lt_of_getElem?)

/-! Proofs over the invariant `Inv roles s` of `Proofs/WriteDedupInv.lean`, preserved by every step
    (`Proofs/WriteDedupSteps.lean`: `inv_init`, `inv_step`, `inv_reachable`).  `roles` is the list of
    callers; caller `t` is `roles[t]`. -/

theorem wlead_wreq {c : C} {r : Nat} (h : c.wlead = some r) : c.wreq = some r := by
  cases c <;> simp_all [C.wlead, C.wreq]

theorem wlead_cases {c : C} {r : Nat} (h : c.wlead = some r) :
    (∃ d, c = .wupstream r d) ∨ (∃ d e, c = .wgot r d e) ∨ (∃ d e, c = .wpublished r d e) := by
  cases c <;> simp_all [C.wlead]

/-- a reader that found a write of its chunk ID in flight returns exactly the chunk that write's
    leader handed to the store, together with the error the store returned for it -/
theorem overlapping_read_sees_written_chunk (roles : List Role) (s : St) (h : Reachable (St.init roles) s)
    (t d e r : Nat) (ht : s.callers[t]? = some (.rreturned d e r)) :
    ∃ (id tl : Nat), roles[t]? = some (.reader id) ∧ tl ≠ t ∧ roles[tl]? = some (.writer id d) ∧
      (r, d, e) ∈ s.upHist ∧
      ∃ q, s.reqs[r]? = some q ∧ q.id = id ∧ q.done = true ∧ q.val = d ∧ q.err = e := by
  have hi := inv_reachable h
  obtain ⟨q, hq, hd, hv, he⟩ := hi.rretdone t r d e ht
  obtain ⟨q', hq', hrole⟩ := hi.rownid t _ r ht rfl
  have : q' = q := by simpa [hq] using hq'.symm
  subst this
  have hh := hi.donehist r q' hq hd
  obtain ⟨tl, q'', hq'', hw⟩ := hi.histrole r _ _ hh
  have : q'' = q' := by simpa [hq] using hq''.symm
  subst this
  rw [hv] at hw
  rw [hv, he] at hh
  refine ⟨q''.id, tl, hrole, ?_, hw, hh, q'', hq, rfl, hd, hv, he⟩
  rintro rfl
  simp [hrole] at hw

/-- the write a reader waits on is in flight at the moment of the look: its leader (another caller, a writer
    of the same ID) is between its `loadOrStore` and its `delete` -/
theorem read_joins_only_in_flight_write (roles : List Role) (s : St) (h : Reachable (St.init roles) s)
    (t r : Nat) (s' : St) (hs : step s (.rpeek t) = some s') (hf : s'.callers[t]? = some (.rwait r)) :
    ∃ (tl id : Nat), tl ≠ t ∧ roles[t]? = some (.reader id) ∧ (∃ d, roles[tl]? = some (.writer id d)) ∧
      ((∃ d, s.callers[tl]? = some (C.wupstream r d)) ∨ (∃ d e, s.callers[tl]? = some (C.wgot r d e)) ∨
       (∃ d e, s.callers[tl]? = some (C.wpublished r d e))) := by
  have hi := inv_reachable h
  obtain ⟨id, hc, ⟨r', hr, rfl⟩ | ⟨hn, rfl⟩⟩ := step_rpeek_inv hs
  · have hlt := lt_of_getElem? hc
    simp [setC, hlt] at hf
    subst hf
    have hm := mem_of_lookup hr
    obtain ⟨tl, c, hcl, hlead⟩ := hi.qlive id r' hm
    obtain ⟨q, hq, hqid⟩ := hi.qreq id r' hm
    obtain ⟨q', d0, hq', hrole⟩ := hi.wownid tl c r' hcl (wlead_wreq hlead)
    have : q' = q := by simpa [hq] using hq'.symm
    subst this
    rw [hqid] at hrole
    refine ⟨tl, id, ?_, hi.rstartid t id hc, ⟨d0, hrole⟩, ?_⟩
    · rintro rfl
      have : c = .rstart id := by simpa [hc] using hcl.symm
      subst this
      simp [C.wlead] at hlead
    · rcases wlead_cases hlead with ⟨d, rfl⟩ | ⟨d, e, rfl⟩ | ⟨d, e, rfl⟩
      · exact .inl ⟨d, hcl⟩
      · exact .inr (.inl ⟨d, e, hcl⟩)
      · exact .inr (.inr ⟨d, e, hcl⟩)
  · have hlt := lt_of_getElem? hc
    simp [setC, hlt] at hf

/-- a reader passes on to `DedupQueue.GetChunk` only when no write of its ID is in flight: no caller is
    the live leader of a write request for that ID -/
theorem read_passes_only_without_write (roles : List Role) (s : St) (h : Reachable (St.init roles) s)
    (t id : Nat) (s' : St) (hs : step s (.rpeek t) = some s') (hf : s'.callers[t]? = some (.rpass id)) :
    roles[t]? = some (.reader id) ∧ ∀ (tl : Nat) (c : C) (r : Nat) (q : Req), s.callers[tl]? = some c →
      c.wlead = some r → s.reqs[r]? = some q → q.id ≠ id := by
  have hi := inv_reachable h
  obtain ⟨id', hc, ⟨r', hr, rfl⟩ | ⟨hn, rfl⟩⟩ := step_rpeek_inv hs
  · have hlt := lt_of_getElem? hc
    simp [setC, hlt] at hf
  · have hlt := lt_of_getElem? hc
    simp [setC, hlt] at hf
    subst hf
    refine ⟨hi.rstartid t id' hc, ?_⟩
    intro tl c r q hcl hlead hq heq
    obtain ⟨q', hq', hm⟩ := hi.liveq tl c r hcl hlead
    have : q' = q := by simpa [hq] using hq'.symm
    subst this
    rw [heq] at hm
    exact not_mem_of_lookup hn r hm

/-- at most one upstream `StoreChunk` per chunk ID is in flight at any time -/
theorem write_single_flight (roles : List Role) (s : St) (h : Reachable (St.init roles) s)
    (t1 t2 r1 r2 d1 d2 : Nat)
    (h1 : s.callers[t1]? = some (.wupstream r1 d1)) (h2 : s.callers[t2]? = some (.wupstream r2 d2))
    (hid : (s.reqs.getD r1 ⟨0, false, 0, 0⟩).id = (s.reqs.getD r2 ⟨0, false, 0, 0⟩).id) : t1 = t2 := by
  have hi := inv_reachable h
  obtain ⟨q1, hq1, hm1⟩ := hi.liveq t1 _ r1 h1 rfl
  obtain ⟨q2, hq2, hm2⟩ := hi.liveq t2 _ r2 h2 rfl
  simp only [List.getD, hq1, hq2, Option.getD_some] at hid
  rw [hid] at hm1
  have := hi.qkeys _ _ _ hm1 hm2
  subst this
  exact hi.liveuniq t1 t2 _ _ r1 h1 h2 rfl rfl

/-- every writer returns the error of an upstream `StoreChunk` of a chunk with its own ID: its own
    call if it led, the leader's if it followed -/
theorem write_result_is_upstream (roles : List Role) (s : St) (h : Reachable (St.init roles) s)
    (t e r : Nat) (ht : s.callers[t]? = some (.wreturned e r)) :
    ∃ (id d d' : Nat), roles[t]? = some (.writer id d) ∧ (r, d', e) ∈ s.upHist ∧
      ∃ q, s.reqs[r]? = some q ∧ q.id = id ∧ q.done = true ∧ q.err = e := by
  have hi := inv_reachable h
  obtain ⟨q, hq, hd, he⟩ := hi.wretdone t r e ht
  obtain ⟨q', d, hq', hrole⟩ := hi.wownid t _ r ht rfl
  have : q' = q := by simpa [hq] using hq'.symm
  subst this
  have hh := hi.donehist r q' hq hd
  rw [he] at hh
  exact ⟨q'.id, d, q'.val, hrole, hh, q', hq, rfl, hd, he⟩

/-! enabledness -/

theorem wcall_enabled {s : St} {t id d : Nat} (hc : s.callers[t]? = some (.wstart id d)) :
    ∃ s', step s (.wcall t) = some s' := by
  simp only [step, hc]
  split <;> exact ⟨_, rfl⟩

theorem wupRet_enabled {s : St} {t r d : Nat} (hc : s.callers[t]? = some (.wupstream r d)) (e : Nat) :
    ∃ s', step s (.wupRet t e) = some s' := by
  simp only [step, hc]; exact ⟨_, rfl⟩

theorem wmarkDone_enabled {s : St} {t r d e : Nat} (hc : s.callers[t]? = some (.wgot r d e)) :
    ∃ s', step s (.wmarkDone t) = some s' := by
  simp only [step, hc]; exact ⟨_, rfl⟩

theorem wdelete_enabled {s : St} {t r d e : Nat} (hc : s.callers[t]? = some (.wpublished r d e)) :
    ∃ s', step s (.wdelete t) = some s' := by
  simp only [step, hc]; exact ⟨_, rfl⟩

theorem wwake_enabled {s : St} {t r : Nat} {q : Req} (hc : s.callers[t]? = some (.wfollower r))
    (hq : s.reqs[r]? = some q) (hd : q.done = true) :
    step s (.wwake t) = some (setC s t (.wreturned q.err r)) := by
  simp [step, hc, hq, hd]

theorem rpeek_enabled {s : St} {t id : Nat} (hc : s.callers[t]? = some (.rstart id)) :
    ∃ s', step s (.rpeek t) = some s' := by
  simp only [step, hc]
  split <;> exact ⟨_, rfl⟩

theorem rwake_enabled {s : St} {t r : Nat} {q : Req} (hc : s.callers[t]? = some (.rwait r))
    (hq : s.reqs[r]? = some q) (hd : q.done = true) :
    step s (.rwake t) = some (setC s t (.rreturned q.val q.err r)) := by
  simp [step, hc, hq, hd]

/-- a request that is not done has a leader (not the waiting caller) that can take a step -/
theorem waiter_has_leader {roles s} (hi : Inv roles s) {t r : Nat} {c : C} {q : Req}
    (ht : s.callers[t]? = some c) (hc : c = .wfollower r ∨ c = .rwait r)
    (hq : s.reqs[r]? = some q) (hd : q.done = false) :
    ∃ tl, tl ≠ t ∧
      ((∃ d, s.callers[tl]? = some (.wupstream r d) ∧ ∀ e, ∃ s', step s (.wupRet tl e) = some s') ∨
       (∃ d e, s.callers[tl]? = some (.wgot r d e) ∧ ∃ s', step s (.wmarkDone tl) = some s')) := by
  obtain ⟨tl, ⟨d, hu⟩ | ⟨d, e, hg⟩⟩ := hi.notdone r q hq hd
  · refine ⟨tl, ?_, .inl ⟨d, hu, wupRet_enabled hu⟩⟩
    rintro rfl
    rcases hc with rfl | rfl <;> simp [ht] at hu
  · refine ⟨tl, ?_, .inr ⟨d, e, hg, wmarkDone_enabled hg⟩⟩
    rintro rfl
    rcases hc with rfl | rfl <;> simp [ht] at hg

/-- no deadlock, no lost wake-up: every caller that is not final can take a step itself, or waits on a
    request whose leader (another caller) can take a step -/
theorem no_deadlock (roles : List Role) (s : St) (h : Reachable (St.init roles) s) (t : Nat) (c : C)
    (ht : s.callers[t]? = some c) (hnf : c.final = false) :
    (∃ e s', e.caller = t ∧ step s e = some s') ∨
    (∃ r tl, (c = .wfollower r ∨ c = .rwait r) ∧ tl ≠ t ∧
      ((∃ d, s.callers[tl]? = some (.wupstream r d) ∧ ∀ e, ∃ s', step s (.wupRet tl e) = some s') ∨
       (∃ d e, s.callers[tl]? = some (.wgot r d e) ∧ ∃ s', step s (.wmarkDone tl) = some s'))) := by
  have hi := inv_reachable h
  cases c with
  | wstart id d => obtain ⟨s', hs⟩ := wcall_enabled ht; exact .inl ⟨.wcall t, s', rfl, hs⟩
  | wupstream r d => obtain ⟨s', hs⟩ := wupRet_enabled ht 0; exact .inl ⟨.wupRet t 0, s', rfl, hs⟩
  | wgot r d e => obtain ⟨s', hs⟩ := wmarkDone_enabled ht; exact .inl ⟨.wmarkDone t, s', rfl, hs⟩
  | wpublished r d e => obtain ⟨s', hs⟩ := wdelete_enabled ht; exact .inl ⟨.wdelete t, s', rfl, hs⟩
  | wreturned e r => simp [C.final] at hnf
  | rreturned d e r => simp [C.final] at hnf
  | rpass id => simp [C.final] at hnf
  | rstart id => obtain ⟨s', hs⟩ := rpeek_enabled ht; exact .inl ⟨.rpeek t, s', rfl, hs⟩
  | wfollower r =>
    obtain ⟨q, _, hq, _⟩ := hi.wownid t _ r ht rfl
    cases hd : q.done with
    | true => exact .inl ⟨.wwake t, _, rfl, wwake_enabled ht hq hd⟩
    | false =>
      obtain ⟨tl, hne, hl⟩ := waiter_has_leader hi ht (.inl rfl) hq hd
      exact .inr ⟨r, tl, .inl rfl, hne, hl⟩
  | rwait r =>
    obtain ⟨q, hq, _⟩ := hi.rownid t _ r ht rfl
    cases hd : q.done with
    | true => exact .inl ⟨.rwake t, _, rfl, rwake_enabled ht hq hd⟩
    | false =>
      obtain ⟨tl, hne, hl⟩ := waiter_has_leader hi ht (.inr rfl) hq hd
      exact .inr ⟨r, tl, .inr rfl, hne, hl⟩

/-! termination: a measure that strictly decreases with every step -/

def C.rank : C → Nat
  | .wstart _ _ => 4
  | .wupstream _ _ => 3
  | .wgot _ _ _ => 2
  | .wpublished _ _ _ => 1
  | .wfollower _ => 1
  | .wreturned _ _ => 0
  | .rstart _ => 2
  | .rwait _ => 1
  | .rreturned _ _ _ => 0
  | .rpass _ => 0

/-- the number of steps still to be taken, at most -/
def measure (s : St) : Nat := (s.callers.map C.rank).sum

theorem sum_rank_set {l : List C} {t : Nat} {c c' : C} (h : l[t]? = some c) :
    ((l.set t c').map C.rank).sum + c.rank = (l.map C.rank).sum + c'.rank := by
  induction l generalizing t with
  | nil => simp at h
  | cons a l ih =>
    cases t with
    | zero =>
      simp at h; subst h
      simp; omega
    | succ t =>
      simp at h
      have := ih h
      simp only [List.set_cons_succ, List.map_cons, List.sum_cons]; omega

theorem rank_start_le (ro : Role) : ro.start.rank ≤ 4 := by cases ro <;> simp [Role.start, C.rank]

theorem measure_init (roles : List Role) : measure (St.init roles) ≤ 4 * roles.length := by
  unfold measure St.init
  induction roles with
  | nil => simp
  | cons a l ih =>
    have := rank_start_le a
    simp at ih ⊢
    omega

/-- every step strictly decreases the measure -/
theorem step_measure {s s' : St} {e : Ev} (h : step s e = some s') : measure s' + 1 ≤ measure s := by
  cases e with
  | wcall t =>
    obtain ⟨id, d, hc, ⟨r, hr, rfl⟩ | ⟨hn, rfl⟩⟩ := step_wcall_inv h
    · have := sum_rank_set (c' := .wfollower r) hc
      simp [measure, setC, C.rank] at this ⊢; omega
    · have := sum_rank_set (c' := .wupstream s.reqs.length d) hc
      simp [measure, setC, C.rank] at this ⊢; omega
  | wupRet t e =>
    obtain ⟨r, d, hc, rfl⟩ := step_wupRet_inv h
    have := sum_rank_set (c' := .wgot r d e) hc
    simp [measure, setC, C.rank] at this ⊢; omega
  | wmarkDone t =>
    obtain ⟨r, d, e, hc, rfl⟩ := step_wmarkDone_inv h
    have := sum_rank_set (c' := .wpublished r d e) hc
    simp [measure, setC, C.rank] at this ⊢; omega
  | wdelete t =>
    obtain ⟨r, d, e, hc, rfl⟩ := step_wdelete_inv h
    have := sum_rank_set (c' := .wreturned e r) hc
    simp [measure, setC, C.rank] at this ⊢; omega
  | wwake t =>
    obtain ⟨r, q, hc, hq, hd, rfl⟩ := step_wwake_inv h
    have := sum_rank_set (c' := .wreturned q.err r) hc
    simp [measure, setC, C.rank] at this ⊢; omega
  | rpeek t =>
    obtain ⟨id, hc, ⟨r, hr, rfl⟩ | ⟨hn, rfl⟩⟩ := step_rpeek_inv h
    · have := sum_rank_set (c' := .rwait r) hc
      simp [measure, setC, C.rank] at this ⊢; omega
    · have := sum_rank_set (c' := .rpass id) hc
      simp [measure, setC, C.rank] at this ⊢; omega
  | rwake t =>
    obtain ⟨r, q, hc, hq, hd, rfl⟩ := step_rwake_inv h
    have := sum_rank_set (c' := .rreturned q.val q.err r) hc
    simp [measure, setC, C.rank] at this ⊢; omega

theorem steps_measure (s : St) (es : List Ev) : effSteps s es + measure (run s es) ≤ measure s := by
  induction es generalizing s with
  | nil => simp [effSteps, run]
  | cons e es ih =>
    simp only [effSteps, run]
    cases hs : step s e with
    | none => simpa using ih s
    | some s' =>
      have h1 := step_measure hs
      have h2 := ih s'
      simp only [Option.getD_some]
      omega

/-- every run performs at most four enabled steps per caller -/
theorem steps_bounded_init (roles : List Role) (es : List Ev) :
    effSteps (St.init roles) es ≤ 4 * roles.length := by
  have := steps_measure (St.init roles) es
  have := measure_init roles
  omega

/-- a reachable state in which no event is enabled has every caller final -/
theorem stuck_only_when_all_final (roles : List Role) (s : St) (h : Reachable (St.init roles) s)
    (hst : ∀ e, step s e = none) (t : Nat) (c : C) (ht : s.callers[t]? = some c) : c.final = true := by
  cases hf : c.final with
  | true => rfl
  | false =>
    exfalso
    rcases no_deadlock roles s h t c ht hf with
      ⟨e, s', _, hs⟩ | ⟨r, tl, _, _, ⟨d, _, hs⟩ | ⟨d, e, _, s', hs⟩⟩
    · simp [hst] at hs
    · obtain ⟨s', hs⟩ := hs 0; simp [hst] at hs
    · simp [hst] at hs

/-- non-vacuity: a run in which a reader overlaps a write and returns its chunk -/
example : (run (St.init [.writer 7 42, .reader 7]) [.wcall 0, .rpeek 1, .wupRet 0 0, .wmarkDone 0, .rwake 1, .wdelete 0]).callers
    = [.wreturned 0 0, .rreturned 42 0 0] := by decide

end Desync.WDedup
