/-
  Proofs about the S3 and SFTP chunk stores (`Model/RemoteStores.lean`): the upload loop of `S3Store.StoreChunk` is
  truthful (nil iff an attempt within the budget succeeded), `S3Store.GetChunk` maps outcomes as stated, `HasChunk`
  masks failures as "absent" (which cannot turn into a false success under `ChunkStorage.StoreChunk`),
  `SFTPStoreBase.StoreObject` replaces the final name as a whole or not at all, and the connection pool is balanced.
-/
import Desync.Model.RemoteStores
import Desync.Proofs.SftpStoreProofs

namespace Desync.Remote

/-! ### `S3Store.StoreChunk` -/

theorem s3PutLoop_spec (retry : Nat) (out : Nat → PutOutcome) (a : Nat) :
    a < (s3PutLoop retry out a).2 ∧ (s3PutLoop retry out a).2 ≤ max retry (a + 1) ∧
    ((s3PutLoop retry out a).1 = true ↔ out (s3PutLoop retry out a).2 = .ok) ∧
    (∀ k, a < k → k < (s3PutLoop retry out a).2 → out k = .fail) ∧
    ((s3PutLoop retry out a).1 = false → (s3PutLoop retry out a).2 = max retry (a + 1)) := by
  fun_induction s3PutLoop retry out a with
  | case1 a h =>
    refine ⟨by simp, by simp; omega, by simp [h], ?_, by simp⟩
    intro k h1 h2; simp at h2; omega
  | case2 a h hlt ih =>
    obtain ⟨i1, i2, i3, i4, i5⟩ := ih
    refine ⟨by omega, by omega, i3, ?_, ?_⟩
    · intro k h1 h2
      by_cases hk : k = a + 1
      · subst hk; exact h
      · exact i4 k (by omega) h2
    · intro hf; rw [i5 hf]; omega
  | case3 a h hlt =>
    refine ⟨by simp, by simp; omega, by simp [h], ?_, ?_⟩
    · intro k h1 h2; simp at h2; omega
    · intro _; simp; omega

theorem PutOutcome.not_ok {o : PutOutcome} (h : o ≠ .ok) : o = .fail := by
  cases o
  · exact absurd rfl h
  · rfl

/-- the loop alone: it reports success iff one of the attempts `1 … max retry 1` succeeded, the number of attempts is
    the first successful one, or the whole budget `max retry 1` -/
theorem s3PutLoop_truthful (retry : Nat) (out : Nat → PutOutcome) :
    ((s3PutLoop retry out 0).1 = true ↔ ∃ k, 1 ≤ k ∧ k ≤ max retry 1 ∧ out k = .ok) ∧
    1 ≤ (s3PutLoop retry out 0).2 ∧ (s3PutLoop retry out 0).2 ≤ max retry 1 ∧
    (∀ k, 1 ≤ k → k < (s3PutLoop retry out 0).2 → out k = .fail) ∧
    ((s3PutLoop retry out 0).1 = true → out (s3PutLoop retry out 0).2 = .ok) ∧
    ((s3PutLoop retry out 0).1 = false → (s3PutLoop retry out 0).2 = max retry 1) := by
  obtain ⟨h1, h2, h3, h4, h5⟩ := s3PutLoop_spec retry out 0
  simp only [Nat.zero_add] at h2 h5
  refine ⟨⟨fun h => ⟨_, h1, h2, h3.mp h⟩, ?_⟩, h1, h2, fun k hk => h4 k hk, h3.mp, h5⟩
  rintro ⟨k, hk1, hk2, hk⟩
  cases hr : (s3PutLoop retry out 0).1 with
  | true => rfl
  | false =>
    exfalso
    have hn := h5 hr
    have hlast : out (s3PutLoop retry out 0).2 = .fail :=
      PutOutcome.not_ok (fun h => by rw [h3.mpr h] at hr; cases hr)
    by_cases hlt : k < (s3PutLoop retry out 0).2
    · rw [h4 k hk1 hlt] at hk; cases hk
    · have : k = (s3PutLoop retry out 0).2 := by omega
      rw [this, hlast] at hk; cases hk

/-- **`S3Store.StoreChunk` is truthful.** -/
theorem s3_store_truthful (retry : Nat) (data : Option Bytes) (toSt : Bytes → Option Bytes)
    (out : Nat → PutOutcome) (obj : Option Bytes) (r : S3StoreOut)
    (h : s3StoreChunk retry data toSt out obj = r) :
    (r.res = .ok ↔ ∃ d b, data = some d ∧ toSt d = some b ∧ ∃ k, 1 ≤ k ∧ k ≤ max retry 1 ∧ out k = .ok) ∧
    r.attempts ≤ max retry 1 ∧
    (∀ k, 1 ≤ k → k < r.attempts → out k = .fail) ∧
    (r.res = .ok → ∃ d b, data = some d ∧ toSt d = some b ∧ r.obj = some b ∧ out r.attempts = .ok) ∧
    (r.res = .error → r.obj = obj) ∧
    (r.res = .error → ∀ d b, data = some d → toSt d = some b → r.attempts = max retry 1) := by
  obtain ⟨l1, l2, l3, l4, l5, l6⟩ := s3PutLoop_truthful retry out
  subst h
  unfold s3StoreChunk
  cases data with
  | none => simp
  | some d =>
    cases hb : toSt d with
    | none =>
      simp [hb]
      intro d1 b1 h1 h2; subst h1; rw [hb] at h2; cases h2
    | some b =>
      simp only [hb]
      cases hl : s3PutLoop retry out 0 with
      | mk ok n =>
        rw [hl] at l1 l2 l3 l4 l5 l6
        cases ok with
        | true =>
          simp only [true_iff] at l1
          refine ⟨⟨fun _ => ⟨d, b, rfl, hb, l1⟩, fun _ => rfl⟩, l3, l4, fun _ => ⟨d, b, rfl, hb, rfl, l5 rfl⟩, ?_, ?_⟩
          · intro hc; cases hc
          · intro hc; cases hc
        | false =>
          refine ⟨⟨(by intro hc; cases hc), ?_⟩, l3, l4, (by intro hc; cases hc), fun _ => rfl, ?_⟩
          · rintro ⟨d', b', _, _, hk⟩
            have := l1.mpr hk
            cases this
          · intro _ d' b' _ _; exact l6 rfl

/-! ### `S3Store.GetChunk` -/

theorem s3GetLoop_spec (retry : Nat) (out : Nat → GetOutcome) (a : Nat) :
    a < (s3GetLoop retry out a).2 ∧ (s3GetLoop retry out a).2 ≤ max (retry + 1) (a + 1) ∧
    (s3GetLoop retry out a).1 = out (s3GetLoop retry out a).2 ∧
    (∀ k, a < k → k < (s3GetLoop retry out a).2 → (out k).failed = true) ∧
    ((s3GetLoop retry out a).1.failed = true → (s3GetLoop retry out a).2 = max (retry + 1) (a + 1)) := by
  fun_induction s3GetLoop retry out a with
  | case1 a h ih =>
    obtain ⟨i1, i2, i3, i4, i5⟩ := ih
    refine ⟨by omega, by omega, i3, ?_, ?_⟩
    · intro k h1 h2
      by_cases hk : k = a + 1
      · subst hk; exact h.1
      · exact i4 k (by omega) h2
    · intro hf; rw [i5 hf]; omega
  | case2 a h =>
    refine ⟨by simp, by simp; omega, rfl, ?_, ?_⟩
    · intro k h1 h2; simp at h2; omega
    · intro hf
      simp only at hf ⊢
      have : ¬ a + 1 ≤ retry := fun hle => h ⟨hf, hle⟩
      omega

/-- **`S3Store.GetChunk` is truthful**: with `(res, n)` its result and number of passes —
    at most `retry + 1` passes, all but the last failed; a chunk only from a body that passed the constructor;
    `ChunkMissing` exactly when the LAST pass was answered NoSuchKey (after the whole budget: a missing chunk costs
    `retry + 1` requests); NoSuchBucket and every other failure is an error. -/
theorem s3_get_truthful (H : Bytes → Bytes) (dec : Bytes → Option Bytes) (retry : Nat) (id : Bytes)
    (convs : List Conv) (skipVerify : Bool) (out : Nat → GetOutcome) (res : GetRes) (n : Nat)
    (h : s3GetChunk H dec retry id convs skipVerify out = (res, n)) :
    1 ≤ n ∧ n ≤ retry + 1 ∧ (∀ k, 1 ≤ k → k < n → (out k).failed = true) ∧
    (∀ c, res = .ok c → ∃ b, out n = .body b ∧ newChunkFromStorage H dec id b convs skipVerify = .ok c) ∧
    (res = .invalid → ∃ b, out n = .body b ∧ newChunkFromStorage H dec id b convs skipVerify = .invalid) ∧
    (res = .missing ↔ out n = .noSuchKey) ∧
    (res = .missing → n = retry + 1) ∧
    (out n = .noSuchBucket → res = .error) ∧
    ((out n).failed = true → out n ≠ .noSuchKey → res = .error) ∧
    ((out n).failed = true → n = retry + 1) := by
  obtain ⟨g1, g2, g3, g4, g5⟩ := s3GetLoop_spec retry out 0
  unfold s3GetChunk at h
  have hmax : max (retry + 1) (0 + 1) = retry + 1 := by omega
  rw [hmax] at g2 g5
  cases hl : s3GetLoop retry out 0 with
  | mk o m =>
    rw [hl] at h g1 g2 g3 g4 g5
    simp only at g1 g2 g3 g4 g5
    cases o with
    | body b =>
      simp only [Prod.mk.injEq] at h
      obtain ⟨h1, h2⟩ := h
      subst h2
      have hc : construct H dec id b convs skipVerify = res := h1
      unfold construct at hc
      refine ⟨g1, g2, fun k hk => g4 k hk, ?_, ?_, ?_, ?_, ?_, ?_, ?_⟩
      · intro c hr
        refine ⟨b, g3.symm, ?_⟩
        subst hr
        cases hn : newChunkFromStorage H dec id b convs skipVerify with
        | ok c' => rw [hn] at hc; cases hc; rfl
        | invalid => rw [hn] at hc; cases hc
      · intro hr
        refine ⟨b, g3.symm, ?_⟩
        subst hr
        cases hn : newChunkFromStorage H dec id b convs skipVerify with
        | ok c' => rw [hn] at hc; cases hc
        | invalid => rfl
      · rw [← g3]
        constructor
        · intro hr; subst hr
          cases hn : newChunkFromStorage H dec id b convs skipVerify <;> rw [hn] at hc <;> cases hc
        · intro hx; cases hx
      · intro hr; subst hr
        cases hn : newChunkFromStorage H dec id b convs skipVerify <;> rw [hn] at hc <;> cases hc
      · rw [← g3]; intro hx; cases hx
      · rw [← g3]; intro hx; cases hx
      · rw [← g3]; intro hx; cases hx
    | noSuchKey =>
      simp only [Prod.mk.injEq] at h
      obtain ⟨h1, h2⟩ := h
      subst h1; subst h2
      refine ⟨g1, g2, fun k hk => g4 k hk, (by intro c hc; cases hc), (by intro hc; cases hc),
        ⟨fun _ => g3.symm, fun _ => rfl⟩, fun _ => g5 rfl, ?_, ?_, fun _ => g5 rfl⟩
      · rw [← g3]; intro hx; cases hx
      · rw [← g3]; intro _ hx; exact absurd rfl hx
    | openErr | noSuchBucket | otherResponse | readErr =>
      simp only [Prod.mk.injEq] at h
      obtain ⟨h1, h2⟩ := h
      subst h1; subst h2
      refine ⟨g1, g2, fun k hk => g4 k hk, (by intro c hc; cases hc), (by intro hc; cases hc),
        ⟨(by intro hc; cases hc), ?_⟩, (by intro hc; cases hc), fun _ => rfl, fun _ _ => rfl, fun _ => g5 rfl⟩
      rw [← g3]; intro hx; cases hx

/-! ### `HasChunk` -/

/-- **partial** (what the code does, not what one would want): a failing `StatObject` / `Stat` — permission denied,
    service down, connection lost — is reported as `(false, nil)`, i.e. as "the chunk is absent"; `HasChunk` of these
    two stores never returns an error, and `true` only when the request succeeded -/
theorem has_masks_failures (o : StatOutcome) :
    s3HasChunk .failure = ⟨false, false⟩ ∧ sftpHasChunk .failure = ⟨false, false⟩ ∧
    (s3HasChunk o).err = false ∧ (sftpHasChunk o).err = false ∧
    ((s3HasChunk o).has = true ↔ o = .found) ∧ ((sftpHasChunk o).has = true ↔ o = .found) := by
  cases o <;> simp [s3HasChunk, sftpHasChunk]

/-- under `ChunkStorage.StoreChunk` the masked failure is harmless for writes: "absent" only makes the upload happen,
    and the upload's own result decides.  With a truthful positive (`found` only for an object that exists) a nil
    result means the object exists afterwards, and when `HasChunk` did not say `true` it holds exactly
    `toStorage(data)`, put there by an attempt within the budget. -/
theorem has_false_is_safe_for_bulk_writes (retry : Nat) (data : Option Bytes) (toSt : Bytes → Option Bytes)
    (st : StatOutcome) (out : Nat → PutOutcome) (obj : Option Bytes)
    (hworld : st = .found → obj.isSome = true)
    (hok : (bulkStore retry data toSt st out obj).res = .ok) :
    (bulkStore retry data toSt st out obj).obj.isSome = true ∧
    (st ≠ .found → ∃ d b k, data = some d ∧ toSt d = some b ∧ (bulkStore retry data toSt st out obj).obj = some b ∧
      1 ≤ k ∧ k ≤ max retry 1 ∧ out k = .ok) := by
  cases st with
  | found =>
    simp [bulkStore, s3HasChunk] at hok ⊢
    exact hworld rfl
  | notFound | failure =>
    simp only [bulkStore, s3HasChunk] at hok ⊢
    obtain ⟨t1, _, _, t4, _, _⟩ := s3_store_truthful retry data toSt out obj _ rfl
    obtain ⟨d, b, hd, hb, ho, _⟩ := t4 hok
    obtain ⟨_, _, _, _, k, hk⟩ := t1.mp hok
    refine ⟨by simp [ho], fun _ => ⟨d, b, k, hd, hb, ho, hk⟩⟩

/-! ### `SFTPStoreBase.StoreObject` -/

theorem lookupF_eraseF (n m : Bytes) (fs : List (Bytes × Bytes)) :
    lookupF n (eraseF m fs) = if m = n then none else lookupF n fs := by
  induction fs with
  | nil => simp [eraseF, lookupF]
  | cons p r ih =>
    obtain ⟨k, v⟩ := p
    unfold eraseF at ih ⊢
    by_cases hk : k = m
    · subst hk
      simp only [List.filter, ne_eq, not_true_eq_false, decide_false]
      rw [ih]
      by_cases hn : k = n
      · simp [hn]
      · simp [hn, lookupF]
    · simp only [List.filter, ne_eq, hk, not_false_eq_true, decide_true, lookupF]
      rw [ih]
      by_cases hn : k = n
      · subst hn
        have : ¬ m = k := fun h => hk h.symm
        simp [this]
      · simp [hn]

theorem lookupF_setF (n m v : Bytes) (fs : List (Bytes × Bytes)) :
    lookupF n (setF m v fs) = if m = n then some v else lookupF n fs := by
  unfold setF
  simp only [lookupF]
  by_cases h : m = n
  · simp [h]
  · simp [h, lookupF_eraseF]

theorem tmp_ne_name (name digits : Bytes) (hd : digits ≠ []) : name ++ digits ≠ name := by
  intro h
  have : (name ++ digits).length = name.length := by rw [h]
  simp at this
  exact hd this

theorem lookupF_setF_ne (n m v : Bytes) (fs : List (Bytes × Bytes)) (h : n ≠ m) :
    lookupF n (setF m v fs) = lookupF n fs := by
  have hm : ¬ m = n := fun e => h e.symm
  rw [lookupF_setF]; simp [hm]

theorem lookupF_eraseF_ne (n m : Bytes) (fs : List (Bytes × Bytes)) (h : n ≠ m) :
    lookupF n (eraseF m fs) = lookupF n fs := by
  have hm : ¬ m = n := fun e => h e.symm
  rw [lookupF_eraseF]; simp [hm]

theorem lookupF_setF_eq (m v : Bytes) (fs : List (Bytes × Bytes)) : lookupF m (setF m v fs) = some v := by
  rw [lookupF_setF]; simp

theorem lookupF_eraseF_eq (m : Bytes) (fs : List (Bytes × Bytes)) : lookupF m (eraseF m fs) = none := by
  rw [lookupF_eraseF]; simp

/-- everything after a successful `Create(tmp)`, for every failure point -/
theorem sftpAfterCreate_spec (name tmp b : Bytes) (e : SftpEnv) (d : RDir) (steps : List SftpStep)
    (hne : tmp ≠ name) :
    ((sftpAfterCreate name tmp b e d steps).res = .ok →
      (sftpAfterCreate name tmp b e d steps).dir.get name = some b ∧
      (sftpAfterCreate name tmp b e d steps).dir.get tmp = none) ∧
    ((sftpAfterCreate name tmp b e d steps).res = .error →
      (sftpAfterCreate name tmp b e d steps).dir.get name = d.get name) ∧
    (∀ n, n ≠ name → n ≠ tmp → (sftpAfterCreate name tmp b e d steps).dir.get n = d.get n) ∧
    (sftpAfterCreate name tmp b e d steps).dir.exists_ = d.exists_ ∧
    ((sftpAfterCreate name tmp b e d steps).res = .ok ↔ e.copyFail = none ∧ e.close = true ∧ e.rename = true) ∧
    (∀ c, (sftpAfterCreate name tmp b e d steps).dir.get tmp = some c → ∃ k, c = b.take k) := by
  have hne' : name ≠ tmp := fun h => hne h.symm
  unfold sftpAfterCreate
  simp only [RDir.get]
  cases hcf : e.copyFail with
  | some k =>
    simp only
    cases hrm : e.remove
    · simp only [Bool.false_eq_true, if_false]
      refine ⟨(by intro h; cases h), fun _ => ?_, fun n h1 h2 => ?_, (by simp), (by simp), ?_⟩
      · rw [lookupF_setF_ne _ _ _ _ hne', lookupF_setF_ne _ _ _ _ hne']
      · rw [lookupF_setF_ne _ _ _ _ h2, lookupF_setF_ne _ _ _ _ h2]
      · intro c hc; rw [lookupF_setF_eq] at hc; cases hc; exact ⟨k, rfl⟩
    · simp only [if_true]
      refine ⟨(by intro h; cases h), fun _ => ?_, fun n h1 h2 => ?_, (by simp), (by simp), ?_⟩
      · rw [lookupF_eraseF_ne _ _ _ hne', lookupF_setF_ne _ _ _ _ hne', lookupF_setF_ne _ _ _ _ hne']
      · rw [lookupF_eraseF_ne _ _ _ h2, lookupF_setF_ne _ _ _ _ h2, lookupF_setF_ne _ _ _ _ h2]
      · intro c hc; rw [lookupF_eraseF_eq] at hc; cases hc
  | none =>
    simp only
    cases hcl : e.close
    · simp only [Bool.not_false, if_true]
      refine ⟨(by intro h; cases h), fun _ => ?_, fun n h1 h2 => ?_, (by simp), (by simp), ?_⟩
      · rw [lookupF_setF_ne _ _ _ _ hne', lookupF_setF_ne _ _ _ _ hne']
      · rw [lookupF_setF_ne _ _ _ _ h2, lookupF_setF_ne _ _ _ _ h2]
      · intro c hc; rw [lookupF_setF_eq] at hc; cases hc; exact ⟨b.length, by simp⟩
    · cases hrn : e.rename
      · simp only [Bool.not_true, Bool.false_eq_true, if_false, Bool.not_false, if_true]
        refine ⟨(by intro h; cases h), fun _ => ?_, fun n h1 h2 => ?_, (by simp), (by simp), ?_⟩
        · rw [lookupF_setF_ne _ _ _ _ hne', lookupF_setF_ne _ _ _ _ hne']
        · rw [lookupF_setF_ne _ _ _ _ h2, lookupF_setF_ne _ _ _ _ h2]
        · intro c hc; rw [lookupF_setF_eq] at hc; cases hc; exact ⟨b.length, by simp⟩
      · simp only [Bool.not_true, Bool.false_eq_true, if_false]
        refine ⟨fun _ => ⟨?_, ?_⟩, (by intro h; cases h), fun n h1 h2 => ?_, (by simp), (by simp), ?_⟩
        · rw [lookupF_setF_eq]
        · rw [lookupF_setF_ne _ _ _ _ hne, lookupF_eraseF_eq]
        · rw [lookupF_setF_ne _ _ _ _ h1, lookupF_eraseF_ne _ _ _ h2, lookupF_setF_ne _ _ _ _ h2, lookupF_setF_ne _ _ _ _ h2]
        · intro c hc; rw [lookupF_setF_ne _ _ _ _ hne, lookupF_eraseF_eq] at hc; cases hc

/-- **`StoreObject` is atomic on the final name**: for every failure point (`e` ranges over all of them, `k` over all
    lengths of a partial copy) the final name holds the complete new object when nil is returned and its previous
    content (or still nothing) when an error is returned — never a prefix; no name other than the final and the temp
    name is touched; what a failed store can leave behind is the temp name, holding a prefix of the object -/
theorem sftp_store_atomic (name digits b : Bytes) (e : SftpEnv) (d : RDir) (hd : digits ≠ []) :
    ((sftpStoreObject name digits b e d).res = .ok →
      (sftpStoreObject name digits b e d).dir.get name = some b ∧
      (sftpStoreObject name digits b e d).dir.get (name ++ digits) = none) ∧
    ((sftpStoreObject name digits b e d).res = .error →
      (sftpStoreObject name digits b e d).dir.get name = d.get name) ∧
    (∀ n, n ≠ name → n ≠ name ++ digits → (sftpStoreObject name digits b e d).dir.get n = d.get n) ∧
    (∀ c, (sftpStoreObject name digits b e d).dir.get (name ++ digits) = some c →
      (∃ k, c = b.take k) ∨ d.get (name ++ digits) = some c) := by
  have hne := tmp_ne_name name digits hd
  unfold sftpStoreObject
  simp only
  by_cases h1 : (d.exists_ && e.create1) = true
  · rw [if_pos h1]
    obtain ⟨s1, s2, s3, _, _, s6⟩ := sftpAfterCreate_spec name (name ++ digits) b e d [.create] hne
    exact ⟨s1, s2, s3, fun c hc => Or.inl (s6 c hc)⟩
  · rw [if_neg h1]
    generalize hd' : (if (!d.exists_ && e.mkdir) = true then ({ d with exists_ := true } : RDir) else d) = d'
    have hg : ∀ n, d'.get n = d.get n := by
      intro n; rw [← hd']; split <;> rfl
    by_cases h2 : (d'.exists_ && e.create2) = true
    · rw [if_pos h2]
      obtain ⟨s1, s2, s3, _, _, s6⟩ := sftpAfterCreate_spec name (name ++ digits) b e d' [.create, .mkdir, .create] hne
      simp only [hg] at s1 s2 s3
      exact ⟨s1, s2, s3, fun c hc => Or.inl (s6 c hc)⟩
    · rw [if_neg h2]
      refine ⟨(by intro h; cases h), fun _ => hg name, fun n _ _ => hg n, fun c hc => Or.inr ?_⟩
      rw [← hg]; exact hc

/-- when does `StoreObject` return nil: a `Create` got through (the directory existed or `Mkdir` made it), and copy,
    close and rename all succeeded — any single failing step is reported -/
theorem sftp_store_ok_iff (name digits b : Bytes) (e : SftpEnv) (d : RDir) (hd : digits ≠ []) :
    (sftpStoreObject name digits b e d).res = .ok ↔
      ((d.exists_ = true ∧ (e.create1 = true ∨ e.create2 = true)) ∨ (d.exists_ = false ∧ e.mkdir = true ∧ e.create2 = true)) ∧
      e.copyFail = none ∧ e.close = true ∧ e.rename = true := by
  have hne := tmp_ne_name name digits hd
  refine (?_ : _ ↔ _)
  · unfold sftpStoreObject
    simp only
    by_cases h1 : (d.exists_ && e.create1) = true
    · rw [if_pos h1]
      rw [(sftpAfterCreate_spec name (name ++ digits) b e d [.create] hne).2.2.2.2.1]
      simp only [Bool.and_eq_true] at h1
      constructor
      · intro h; exact ⟨Or.inl ⟨h1.1, Or.inl h1.2⟩, h⟩
      · intro h; exact h.2
    · rw [if_neg h1]
      generalize hd' : (if (!d.exists_ && e.mkdir) = true then ({ d with exists_ := true } : RDir) else d) = d'
      have hex : d'.exists_ = (d.exists_ || e.mkdir) := by
        rw [← hd']
        split
        · rename_i hx
          simp only [Bool.and_eq_true] at hx
          simp [hx.2]
        · rename_i hx
          revert hx
          cases d.exists_ <;> cases e.mkdir <;> simp
      by_cases h2 : (d'.exists_ && e.create2) = true
      · rw [if_pos h2]
        rw [(sftpAfterCreate_spec name (name ++ digits) b e d' [.create, .mkdir, .create] hne).2.2.2.2.1]
        rw [hex] at h2
        constructor
        · intro h
          refine ⟨?_, h⟩
          revert h1 h2
          cases d.exists_ <;> cases e.mkdir <;> cases e.create1 <;> cases e.create2 <;> simp
        · intro h; exact h.2
      · rw [if_neg h2]
        rw [hex] at h2
        constructor
        · intro h; cases h
        · intro h
          exfalso
          obtain ⟨h, _⟩ := h
          revert h1 h2 h
          cases d.exists_ <;> cases e.mkdir <;> cases e.create1 <;> cases e.create2 <;> simp

/-- the name a failed `StoreObject` of a chunk leaves behind is one `SFTPStore.Prune` classifies as a temporary file
    (and removes), and is never the canonical name of a chunk of either format (`sftp_temp_names`, C16) -/
theorem sftp_leftover_is_pruned (unc : Bool) (id digits : Bytes) (h : id.length = 32) (hd : digits ≠ [])
    (hall : digits.all isDigit = true) :
    sftpClassify unc ((nameFromID unc id).2 ++ digits) = .removeTemp ∧
    ∀ (b : Bool) (id' : Bytes), id'.length = 32 → (nameFromID unc id).2 ++ digits ≠ (nameFromID b id').2 :=
  ⟨sftp_temp_classified unc id digits h hd hall,
   fun b id' h' => sftp_temp_never_chunk_name unc id digits h hd hall b id' h'⟩

/-! ### `SFTPStore.GetChunk` -/

theorem sftp_get_truthful (H : Bytes → Bytes) (dec : Bytes → Option Bytes) (id : Bytes) (convs : List Conv)
    (skipVerify : Bool) (o : SftpGetOutcome) :
    (∀ c, sftpGetChunk H dec id convs skipVerify o = .ok c →
      ∃ b, o = .body b ∧ newChunkFromStorage H dec id b convs skipVerify = .ok c) ∧
    (sftpGetChunk H dec id convs skipVerify o = .missing ↔ o = .openNotExist) ∧
    (o = .openErr ∨ o = .readErr → sftpGetChunk H dec id convs skipVerify o = .error) := by
  cases o with
  | body b =>
    simp only [sftpGetChunk, construct]
    cases hn : newChunkFromStorage H dec id b convs skipVerify with
    | ok c' =>
      refine ⟨fun c hc => ⟨b, rfl, ?_⟩, ⟨(by intro h; cases h), (by intro h; cases h)⟩, (by intro h; rcases h with h | h <;> cases h)⟩
      cases hc; exact hn
    | invalid =>
      exact ⟨(by intro c hc; cases hc), ⟨(by intro h; cases h), (by intro h; cases h)⟩, (by intro h; rcases h with h | h <;> cases h)⟩
  | openNotExist =>
    exact ⟨(by intro c hc; cases hc), ⟨fun _ => rfl, fun _ => rfl⟩, (by intro h; rcases h with h | h <;> cases h)⟩
  | openErr | readErr =>
    exact ⟨(by intro c hc; cases hc), ⟨(by intro h; cases h), (by intro h; cases h)⟩, fun _ => rfl⟩

/-! ### the connection pool -/

namespace PoolM

theorem step_inv (s s' : St) (e : Ev) (n : Nat) (hf : e ≠ .finish false) (h : step s e = some s')
    (hi : s.free + s.held = n) : s'.free + s'.held = n := by
  cases e with
  | take =>
    simp only [step] at h
    split at h
    · cases h
    · cases h; simp only; omega
  | finish pb =>
    cases pb with
    | false => exact absurd rfl hf
    | true =>
      simp only [step] at h
      split at h
      · cases h
      · cases h; simp only [if_true]; omega

theorem run_inv (es : List Ev) (s s' : St) (n : Nat) (hf : faithful es = true) (h : run s es = some s')
    (hi : s.free + s.held = n) : s'.free + s'.held = n := by
  induction es generalizing s with
  | nil => simp [run] at h; subst h; exact hi
  | cons e es ih =>
    simp only [faithful, List.all_cons, Bool.and_eq_true] at hf
    simp only [run] at h
    cases hs : step s e with
    | none => rw [hs] at h; cases h
    | some s1 =>
      rw [hs] at h
      have he : e ≠ .finish false := by
        intro hx; subst hx; simp at hf
      exact ih s1 hf.2 h (step_inv s s1 e n he hs hi)

/-- **the pool is balanced**: after any interleaving of any number of methods (each takes a connection and, on whatever
    path it returns, puts it back) connections in the channel + connections held = N; so when no method is running
    the pool holds all N again, and while one is running either a connection is free or a running method can
    finish — a request never waits for ever -/
theorem balanced (n : Nat) (es : List Ev) (s : St) (hf : faithful es = true) (h : run (init n) es = some s) :
    s.free + s.held = n ∧ (s.held = 0 → s.free = n) ∧
    (1 ≤ n → (step s .take).isSome = true ∨ (step s (.finish true)).isSome = true) := by
  have hi := run_inv es (init n) s n hf h (by simp [init])
  refine ⟨hi, fun h0 => by omega, fun hn => ?_⟩
  by_cases hfree : s.free = 0
  · right; simp only [step]
    have : ¬ s.held = 0 := by omega
    simp [this]
  · left; simp [step, hfree]

/-- … whereas ONE return path without the put-back (the kind of defect behind D14) makes a pool of one connection
    block every later request: after `take; finish false` no `take` is possible and nothing is running that could
    give a connection back -/
theorem leak_blocks :
    run (init 1) [.take, .finish false] = some ⟨0, 0⟩ ∧
    ∀ e, step ⟨0, 0⟩ e = none := by
  refine ⟨by decide, fun e => ?_⟩
  cases e <;> simp [step]

end PoolM

end Desync.Remote
