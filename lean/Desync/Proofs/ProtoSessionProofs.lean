/-
  Proofs about `Model/ProtoSession.lean`: the `Send*` functions never panic and build the
  messages of `Model/Protocol.lean`; the server on arbitrary input (no panic, allocation bounded by
  what was consumed, exactly when `Serve` returns nil, the output parses back); the client on
  arbitrary input (never a wrong chunk); a whole session (faithful).
-/
import Desync.Model.ProtoSession
import Desync.Proofs.ProtocolProofs
import Desync.Proofs.ArchiveProofs
import Desync.Properties.C03

namespace Desync.PS
open Desync

/-! ### the array view of an id -/

@[simp] theorem fit32_length (id : Bytes) : (fit32 id).length = 32 := by
  unfold fit32; simp; omega

theorem fit32_of_length {id : Bytes} (h : id.length = 32) : fit32 id = id := by
  unfold fit32; rw [List.take_of_length_le (by omega), h]; simp

@[simp] theorem fit32_fit32 (id : Bytes) : fit32 (fit32 id) = fit32 id :=
  fit32_of_length (fit32_length id)

/-! ### the `Send*` functions: no slice expression in them can fail -/

theorem mkRequest_eq (id : Bytes) (flags : UInt64) :
    mkRequest true id flags = .ok (requestMessage (fit32 id) flags) := by
  have h4 : (fit32 id).take 32 = fit32 id := List.take_of_length_le (by simp)
  simp [mkRequest, putU64, copyAt, requestMessage, h4]

theorem putU64_fill (n : Nat) (v : UInt64) :
    putU64 (List.replicate (n + 8) 0) 0 v = .ok (le64 v ++ List.replicate n 0) := by
  simp [putU64]

theorem copyAt_fill (a x : Bytes) (n k : Nat) (hk : k = a.length) :
    copyAt (a ++ List.replicate (x.length + n) 0) k x = .ok (a ++ x ++ List.replicate n 0) := by
  subst hk
  unfold copyAt
  have h0 : ¬ (a ++ List.replicate (x.length + n) (0 : UInt8)).length < a.length := by simp
  have h1 : (a ++ List.replicate (x.length + n) (0 : UInt8)).take a.length = a := List.take_left' rfl
  have h2 : x.take ((a ++ List.replicate (x.length + n) (0 : UInt8)).length - a.length) = x :=
    List.take_of_length_le (by simp)
  have h3 : (a ++ List.replicate (x.length + n) (0 : UInt8)).drop (a.length + x.length) = List.replicate n 0 := by
    rw [List.drop_append]; simp
  rw [if_neg h0, h1, h2, h3]

theorem mkChunk_eq (id : Bytes) (flags : UInt64) (data : Bytes) :
    mkChunk true id flags data = .ok (chunkMessage (fit32 id) flags data) := by
  have e1 : data.length + 40 = (data.length + 32) + 8 := by omega
  have e2 : data.length + 32 = (fit32 id).length + data.length := by simp; omega
  have s2 := copyAt_fill (le64 flags) (fit32 id) data.length 8 (by simp)
  have s3 := copyAt_fill (le64 flags ++ fit32 id) data 0 40 (by simp)
  simp only [Nat.add_zero, List.replicate_zero, List.append_nil] at s3
  simp only [mkChunk, Bool.not_true, Bool.false_eq_true, ↓reduceIte]
  rw [e1, putU64_fill, e2]
  simp only [Res.ok_bind, s2, s3]
  simp [chunkMessage]

theorem mkMissing_eq (id : Bytes) : mkMissing true id = .ok (missingMessage (fit32 id)) := rfl

/-! ### reading: what a successful `ReadMessage` says about the input -/

theorem readMessage_inv {s s' : St} {m : Message} (h : readMessage s = .ok (m, s')) :
    s.rest = writeMessage m ++ s'.rest ∧ 16 + m.body.length < 2^64 ∧
      s'.alloc = s.alloc + (8 + m.body.length) := by
  unfold readMessage at h
  cases h1 : readU64 s with
  | err e => simp [h1] at h
  | panic p => simp [h1] at h
  | ok p =>
    obtain ⟨len, s1⟩ := p
    simp only [h1, Res.ok_bind] at h
    split at h
    · cases h
    · rename_i hlen
      cases h2 : readN (len.toNat - 8) s1 with
      | err e => simp [h2] at h
      | panic p => simp [h2] at h
      | ok q =>
        obtain ⟨b, s2⟩ := q
        simp only [h2, Res.ok_bind] at h
        split at h
        · cases h
        · rename_i hb8
          simp only [Res.pure_eq, Res.ok.injEq, Prod.mk.injEq] at h
          obtain ⟨hm, hs⟩ := h
          subst hs; subst hm
          obtain ⟨r1, a1⟩ := readU64_ok h1
          obtain ⟨r2, l2, a2⟩ := readN_ok h2
          have hl16 : 16 ≤ len.toNat := by
            have : ¬ len.toNat < 16 := by simpa [UInt64.lt_iff_toNat_lt] using hlen
            omega
          have hlt := len.toNat_lt
          have hbl : (b.drop 8).length = len.toNat - 16 := by simp [l2]; omega
          have hlen' : UInt64.ofNat (16 + (b.drop 8).length) = len := by
            rw [hbl]
            have : 16 + (len.toNat - 16) = len.toNat := by omega
            rw [this]; simp
          have hb : le64 (u64OfLE b) ++ b.drop 8 = b := by
            have ht : u64OfLE b = u64OfLE (b.take 8) := by unfold u64OfLE; rw [List.take_take]; simp
            rw [ht, le64_u64OfLE (b.take 8) (by rw [List.length_take]; omega), List.take_append_drop]
          refine ⟨?_, ?_, ?_⟩
          · simp only [writeMessage, hlen', List.append_assoc]
            rw [r1, r2, ← List.append_assoc (le64 (u64OfLE b)), hb]
          · simp only; rw [hbl]; omega
          · simp only; rw [a2, a1, hbl]; omega

@[simp] theorem writeMessage_length (m : Message) : (writeMessage m).length = 16 + m.body.length := by
  simp [writeMessage]; omega

/-- the reader only moves forward, and what it has allocated for input-sized buffers never
    exceeds what it has consumed: `alloc + unread` does not grow -/
def Le (s s' : St) : Prop :=
  s'.alloc + s'.rest.length ≤ s.alloc + s.rest.length ∧ s.alloc ≤ s'.alloc ∧ ∃ pre, s.rest = pre ++ s'.rest

theorem Le.refl (s : St) : Le s s := ⟨Nat.le_refl _, Nat.le_refl _, [], rfl⟩

theorem Le.trans {a b c : St} (h1 : Le a b) (h2 : Le b c) : Le a c := by
  obtain ⟨x1, y1, p1, e1⟩ := h1
  obtain ⟨x2, y2, p2, e2⟩ := h2
  exact ⟨by omega, by omega, p1 ++ p2, by rw [e1, e2, List.append_assoc]⟩

theorem readMessage_le {s s' : St} {m : Message} (h : readMessage s = .ok (m, s')) : Le s s' := by
  obtain ⟨hr, _, ha⟩ := readMessage_inv h
  refine ⟨?_, by omega, writeMessage m, hr⟩
  rw [hr, ha]; simp; omega

theorem readMessage_shrinks {s s' : St} {m : Message} (h : readMessage s = .ok (m, s')) :
    s'.rest.length + 16 ≤ s.rest.length := by
  obtain ⟨hr, _, _⟩ := readMessage_inv h
  rw [hr]; simp; omega

theorem failSt_le (s : St) : Le s (failSt s) := by
  unfold failSt
  split
  · exact ⟨by simp, Nat.le_refl _, s.rest, by simp⟩
  · split
    · refine ⟨?_, Nat.le_refl _, s.rest.take 8, by simp⟩
      simp only [List.length_drop]; omega
    · refine ⟨?_, by simp, s.rest, by simp⟩
      simp only [List.length_nil]; omega

@[simp] theorem failSt_nil (a : Nat) : failSt ⟨[], a⟩ = ⟨[], a⟩ := by simp [failSt]

/-! ### the switch of `Serve`, computed -/

/-- outcomes that exist only in the model: Go run-time failures and the model's own artefacts -/
def End.artefact : End → Bool
  | .panic _ => true | .fuel => true | .badId => true | .notInit => true | _ => false

theorem slice_8_40 (body : Bytes) (h : 40 ≤ body.length) :
    slice body 8 40 = .ok ((body.take 40).drop 8) ∧ ((body.take 40).drop 8).length = 32 := by
  unfold slice
  have : ¬ (40 < 8 ∨ body.length < 40) := by omega
  rw [if_neg this]
  refine ⟨rfl, ?_⟩
  simp; omega

/-- the id a request carries -/
def reqId (body : Bytes) : Bytes := (body.take 40).drop 8

/-- the reply to a request the store answers, if it is one -/
def replyOf (E : Env) (id : Bytes) : Except End Message :=
  match E.store id with
  | .failure => .error .store
  | .missing => .ok (missingMessage id)
  | .chunk c =>
    match c.getData E.z.dec with
    | (none, _) => .error .data
    | (some b, c1) =>
      .ok (chunkMessage (fit32 (c1.getID E.H E.z.dec).1) Gen.CaProtocolChunkCompressed (E.z.comp b))

theorem serveRequest_eq (E : Env) (wr : Option Nat) (body : Bytes) (h : 40 ≤ body.length) :
    serveRequest E true wr body =
      match replyOf E (reqId body) with
      | .error e => .stop e
      | .ok r =>
        match wrWrite wr with
        | none => .stop .send
        | some w => .next [r] w := by
  obtain ⟨hs, hl⟩ := slice_8_40 body h
  have hn : ¬ body.length < 40 := by omega
  have hid : chunkIDFromSlice ((body.take 40).drop 8) = some ((body.take 40).drop 8) := by
    simp [chunkIDFromSlice, hl]
  unfold serveRequest
  rw [if_neg hn]
  simp only [requestId, hs, Res.ok_bind, Res.pure_eq, hid, replyOf, reqId]
  cases hst : E.store ((body.take 40).drop 8) with
  | failure => rfl
  | missing =>
    simp only [sendStep, mkMissing_eq, fit32_of_length hl]
    cases wrWrite wr <;> rfl
  | chunk c =>
    simp only
    cases hd : c.getData E.z.dec with
    | mk d c1 =>
      cases d with
      | none => rfl
      | some b =>
        simp only [sendStep, mkChunk_eq]
        cases wrWrite wr <;> rfl

theorem arm_cases (E : Env) (wr : Option Nat) (m : Message) :
    (m.typ = Gen.CaProtocolRequest ∧ m.body.length < 40 ∧ arm E true wr m = .stop .reqSmall) ∨
    (m.typ = Gen.CaProtocolRequest ∧ 40 ≤ m.body.length ∧
      ((∃ e, replyOf E (reqId m.body) = .error e ∧ (e = .store ∨ e = .data) ∧ arm E true wr m = .stop e) ∨
       (∃ r, replyOf E (reqId m.body) = .ok r ∧ wrWrite wr = none ∧ arm E true wr m = .stop .send) ∨
       (∃ r w, replyOf E (reqId m.body) = .ok r ∧ wrWrite wr = some w ∧ arm E true wr m = .next [r] w))) ∨
    (m.typ = Gen.CaProtocolAbort ∧ arm E true wr m = .stop .abort) ∨
    (m.typ = Gen.CaProtocolGoodbye ∧ arm E true wr m = .stop .nilGoodbye) ∨
    (m.typ ≠ Gen.CaProtocolRequest ∧ m.typ ≠ Gen.CaProtocolAbort ∧ m.typ ≠ Gen.CaProtocolGoodbye ∧
      arm E true wr m = .stop (.unknown m.typ)) := by
  unfold arm
  by_cases h1 : m.typ = Gen.CaProtocolRequest
  · rw [if_pos h1]
    by_cases h40 : m.body.length < 40
    · left; exact ⟨h1, h40, by simp [serveRequest, h40]⟩
    · right; left
      have h40' : 40 ≤ m.body.length := by omega
      refine ⟨h1, h40', ?_⟩
      rw [serveRequest_eq E wr m.body h40']
      cases hr : replyOf E (reqId m.body) with
      | error e =>
        left
        refine ⟨e, rfl, ?_, rfl⟩
        unfold replyOf at hr
        split at hr
        · injection hr with hr; exact Or.inl hr.symm
        · cases hr
        · split at hr
          · injection hr with hr; exact Or.inr hr.symm
          · cases hr
      | ok r =>
        right
        cases hw : wrWrite wr with
        | none => left; exact ⟨r, rfl, rfl, rfl⟩
        | some w => right; exact ⟨r, w, rfl, rfl, rfl⟩
  · rw [if_neg h1]
    by_cases h2 : m.typ = Gen.CaProtocolAbort
    · rw [if_pos h2]; right; right; left; exact ⟨h2, rfl⟩
    · rw [if_neg h2]
      by_cases h3 : m.typ = Gen.CaProtocolGoodbye
      · rw [if_pos h3]; right; right; right; left; exact ⟨h3, rfl⟩
      · rw [if_neg h3]; right; right; right; right; exact ⟨h1, h2, h3, rfl⟩

theorem arm_stop_real (E : Env) (wr : Option Nat) (m : Message) (e : End) (h : arm E true wr m = .stop e) :
    e.artefact = false := by
  rcases arm_cases E wr m with ⟨_, _, h'⟩ | ⟨_, _, h'⟩ | ⟨_, h'⟩ | ⟨_, h'⟩ | ⟨_, _, _, h'⟩
  · rw [h'] at h; injection h with h; subst h; rfl
  · rcases h' with ⟨e', _, he, h'⟩ | ⟨_, _, _, h'⟩ | ⟨_, _, _, _, h'⟩
    · rw [h'] at h; injection h with h; subst h
      rcases he with rfl | rfl <;> rfl
    · rw [h'] at h; injection h with h; subst h; rfl
    · rw [h'] at h; cases h
  · rw [h'] at h; injection h with h; subst h; rfl
  · rw [h'] at h; injection h with h; subst h; rfl
  · rw [h'] at h; injection h with h; subst h; rfl

/-! ### runs of the server loop -/

/-- `Run E cancel wr s ms sent s' e`: from reader `s` the loop consumes the messages `ms`, writes
    `sent`, and ends with verdict `e` leaving the reader at `s'` -/
inductive Run (E : Env) : Option Nat → Option Nat → St → List Message → List Message → St → End → Prop
  | cancelled (wr : Option Nat) (s : St) : Run E (some 0) wr s [] [] s .nilCancelled
  | readErr {cancel wr : Option Nat} {s : St} {e : Err} : cancel ≠ some 0 → readMessage s = .err e →
      Run E cancel wr s [] [] (failSt s) (.read e)
  | stop {cancel wr : Option Nat} {s s1 : St} {m : Message} {e : End} : cancel ≠ some 0 →
      readMessage s = .ok (m, s1) → arm E true wr m = .stop e → Run E cancel wr s [m] [] s1 e
  | next {cancel wr wr' : Option Nat} {s s1 s2 : St} {m : Message} {sent ms sent' : List Message} {e : End} :
      cancel ≠ some 0 → readMessage s = .ok (m, s1) → arm E true wr m = .next sent wr' →
      Run E (cancel.map (· - 1)) wr' s1 ms sent' s2 e → Run E cancel wr s (m :: ms) (sent ++ sent') s2 e

/-- with fuel beyond the length of the input the loop is a run (the fuel never decides) -/
theorem serveLoop_run (E : Env) : ∀ (fuel : Nat) (cancel wr : Option Nat) (s : St), s.rest.length < fuel →
    ∃ ms, Run E cancel wr s ms (serveLoop E true fuel cancel wr s).1
      (serveLoop E true fuel cancel wr s).2.1 (serveLoop E true fuel cancel wr s).2.2 := by
  intro fuel
  induction fuel with
  | zero => intro _ _ s h; omega
  | succ fuel ih =>
    intro cancel wr s hf
    by_cases hc : cancel = some 0
    · subst hc
      simp only [serveLoop, ↓reduceIte]
      exact ⟨[], Run.cancelled wr s⟩
    · cases hr : readMessage s with
      | err e =>
        simp only [serveLoop, hc, ↓reduceIte, hr]
        exact ⟨[], Run.readErr hc hr⟩
      | panic p => exact absurd hr (readMessage_nopanic s p)
      | ok q =>
        obtain ⟨m, s1⟩ := q
        cases ha : arm E true wr m with
        | stop e =>
          simp only [serveLoop, hc, ↓reduceIte, hr, ha]
          exact ⟨[m], Run.stop hc hr ha⟩
        | next sent wr' =>
          simp only [serveLoop, hc, ↓reduceIte, hr, ha]
          have hlt : s1.rest.length < fuel := by
            have := readMessage_shrinks hr; omega
          obtain ⟨ms, hrun⟩ := ih (cancel.map (· - 1)) wr' s1 hlt
          exact ⟨m :: ms, Run.next hc hr ha hrun⟩

theorem Run.real {E : Env} {cancel wr : Option Nat} {s s' : St} {ms sent : List Message} {e : End}
    (h : Run E cancel wr s ms sent s' e) : e.artefact = false := by
  induction h with
  | cancelled => rfl
  | readErr => rfl
  | stop _ _ ha => exact arm_stop_real _ _ _ _ ha
  | next _ _ _ _ ih => exact ih

theorem Run.le {E : Env} {cancel wr : Option Nat} {s s' : St} {ms sent : List Message} {e : End}
    (h : Run E cancel wr s ms sent s' e) : Le s s' := by
  induction h with
  | cancelled => exact Le.refl _
  | readErr => exact failSt_le _
  | stop _ hr _ => exact readMessage_le hr
  | next _ hr _ _ ih => exact (readMessage_le hr).trans ih

/-! ### the handshake -/

theorem recvHello_le (s : St) :
    (∀ f s', recvHello s = .ok f s' → Le s s') ∧ (∀ e s', recvHello s = .fail e s' → Le s s' ∧ e.artefact = false) := by
  unfold recvHello
  cases hr : readMessage s with
  | err e =>
    refine ⟨fun f s' h => (by cases h), fun e' s' h => ?_⟩
    injection h with h1 h2; subst h1; subst h2
    exact ⟨failSt_le s, rfl⟩
  | panic p => exact absurd hr (readMessage_nopanic s p)
  | ok q =>
    obtain ⟨m, s1⟩ := q
    have hle := readMessage_le hr
    simp only
    split
    · refine ⟨fun f s' h => (by cases h), fun e' s' h => ?_⟩
      injection h with h1 h2; subst h1; subst h2; exact ⟨hle, rfl⟩
    · split
      · refine ⟨fun f s' h => (by cases h), fun e' s' h => ?_⟩
        injection h with h1 h2; subst h1; subst h2; exact ⟨hle, rfl⟩
      · rename_i h8
        have : ¬ m.body.length < 8 := by omega
        rw [if_neg this]
        refine ⟨fun f s' h => ?_, fun e' s' h => by cases h⟩
        injection h with h1 h2; subst h2; exact hle

/-- **`Initialize` does not depend on the order of its two goroutines** -/
theorem initialize_orders_agree (flags : UInt64) (c : Conn) : initializeSR flags c = initializeRS flags c := by
  unfold initializeSR initializeRS Conn.sendHello Conn.recvHello
  cases hw : wrWrite c.wr <;> cases hr : PS.recvHello c.st <;> simp [hw, hr]

/-- `Initialize`, computed -/
theorem protoInit_eq (flags : UInt64) (c : Conn) :
    protoInit flags c =
      match wrWrite c.wr, PS.recvHello c.st with
      | none, .ok _ s => ({ c with st := s }, .error .hsSend)
      | none, .fail _ s => ({ c with st := s }, .error .hsSend)
      | some w, .ok f s => ({ sent := c.sent ++ [helloMsg flags], wr := w, st := s }, .ok f)
      | some w, .fail e s => ({ sent := c.sent ++ [helloMsg flags], wr := w, st := s }, .error e) := by
  unfold protoInit initializeSR Conn.sendHello Conn.recvHello initResult
  cases wrWrite c.wr <;> cases hr : PS.recvHello c.st <;> simp [hr]

theorem protoInit_le (flags : UInt64) (c : Conn) :
    Le c.st (protoInit flags c).1.st ∧ ∀ e, (protoInit flags c).2 = .error e → e.artefact = false := by
  rw [protoInit_eq]
  obtain ⟨h1, h2⟩ := recvHello_le c.st
  cases hw : wrWrite c.wr <;> cases hr : PS.recvHello c.st with
  | ok f s =>
    first
    | exact ⟨h1 f s hr, fun e he => by injection he with he; subst he; rfl⟩
    | exact ⟨h1 f s hr, fun e he => by cases he⟩
  | fail e s =>
    first
    | exact ⟨(h2 e s hr).1, fun e' he => by injection he with he; subst he; rfl⟩
    | exact ⟨(h2 e s hr).1, fun e' he => by injection he with he; subst he; exact (h2 e s hr).2⟩

/-! ### the server on arbitrary input -/

/-- **no input makes the server panic**, and no verdict is an artefact of the model: its loop
    always ends by itself, `ChunkIDFromSlice` cannot fail on `m.Body[8:40]`, and no `Send*` finds
    the protocol uninitialised -/
theorem serverRun_real (E : Env) (cancel wr : Option Nat) (input : Bytes) :
    (serverRun E cancel wr input).end_.artefact = false := by
  unfold serverRun
  have hi := protoInit_le Gen.CaProtocolReadableStore { wr := wr, st := ⟨input, 0⟩ }
  cases hp : protoInit Gen.CaProtocolReadableStore { wr := wr, st := ⟨input, 0⟩ } with
  | mk c r =>
    rw [hp] at hi
    cases r with
    | error e => exact hi.2 e rfl
    | ok flags =>
      simp only
      split
      · rfl
      · obtain ⟨ms, hrun⟩ := serveLoop_run E (c.st.rest.length + 1) cancel c.wr c.st (Nat.lt_succ_self _)
        exact hrun.real

/-- **allocation**: whatever the input, the bytes the server has allocated for input-sized buffers
    plus the input it has not read never exceed the input: it allocates at most what it consumed -/
theorem serverRun_le (E : Env) (cancel wr : Option Nat) (input : Bytes) :
    Le ⟨input, 0⟩ (serverRun E cancel wr input).st := by
  unfold serverRun
  have hi := protoInit_le Gen.CaProtocolReadableStore { wr := wr, st := ⟨input, 0⟩ }
  cases hp : protoInit Gen.CaProtocolReadableStore { wr := wr, st := ⟨input, 0⟩ } with
  | mk c r =>
    rw [hp] at hi
    cases r with
    | error e => exact hi.1
    | ok flags =>
      simp only
      split
      · exact hi.1
      · obtain ⟨ms, hrun⟩ := serveLoop_run E (c.st.rest.length + 1) cancel c.wr c.st (Nat.lt_succ_self _)
        exact hi.1.trans hrun.le

/-! ### what the loop has consumed and written -/

/-- `r` is the server's answer to the request message `m` -/
def IsReply (E : Env) (m r : Message) : Prop :=
  m.typ = Gen.CaProtocolRequest ∧ 40 ≤ m.body.length ∧ replyOf E (reqId m.body) = .ok r

@[simp] theorem wire_nil : wire [] = [] := rfl
@[simp] theorem wire_cons (m : Message) (ms : List Message) : wire (m :: ms) = writeMessage m ++ wire ms := by
  simp [wire]
@[simp] theorem wire_append (a b : List Message) : wire (a ++ b) = wire a ++ wire b := by
  simp [wire]

theorem arm_next {E : Env} {wr wr' : Option Nat} {m : Message} {sent : List Message}
    (h : arm E true wr m = .next sent wr') : ∃ r, sent = [r] ∧ IsReply E m r ∧ wrWrite wr = some wr' := by
  rcases arm_cases E wr m with ⟨_, _, h'⟩ | ⟨h1, h2, h'⟩ | ⟨_, h'⟩ | ⟨_, h'⟩ | ⟨_, _, _, h'⟩
  · rw [h'] at h; cases h
  · rcases h' with ⟨_, _, _, h'⟩ | ⟨_, _, _, h'⟩ | ⟨r, w, hr, hw, h'⟩
    · rw [h'] at h; cases h
    · rw [h'] at h; cases h
    · rw [h'] at h; injection h with e1 e2; subst e1; subst e2
      exact ⟨r, rfl, ⟨h1, h2, hr⟩, hw⟩
  · rw [h'] at h; cases h
  · rw [h'] at h; cases h
  · rw [h'] at h; cases h

theorem arm_nil {E : Env} {wr : Option Nat} {m : Message} (h : arm E true wr m = .stop .nilGoodbye) :
    m.typ = Gen.CaProtocolGoodbye := by
  rcases arm_cases E wr m with ⟨_, _, h'⟩ | ⟨h1, h2, h'⟩ | ⟨_, h'⟩ | ⟨h3, _⟩ | ⟨_, _, _, h'⟩
  · rw [h'] at h; cases h
  · rcases h' with ⟨_, _, he, h'⟩ | ⟨_, _, _, h'⟩ | ⟨_, _, _, _, h'⟩
    · rw [h'] at h; injection h with h; subst h; rcases he with he | he <;> cases he
    · rw [h'] at h; cases h
    · rw [h'] at h; cases h
  · rw [h'] at h; cases h
  · exact h3
  · rw [h'] at h; cases h

theorem arm_not_cancelled {E : Env} {wr : Option Nat} {m : Message} : arm E true wr m ≠ .stop .nilCancelled := by
  intro h
  rcases arm_cases E wr m with ⟨_, _, h'⟩ | ⟨h1, h2, h'⟩ | ⟨_, h'⟩ | ⟨_, h'⟩ | ⟨_, _, _, h'⟩
  · rw [h'] at h; cases h
  · rcases h' with ⟨_, _, he, h'⟩ | ⟨_, _, _, h'⟩ | ⟨_, _, _, _, h'⟩
    · rw [h'] at h; injection h with h; subst h; rcases he with he | he <;> cases he
    · rw [h'] at h; cases h
    · rw [h'] at h; cases h
  · rw [h'] at h; cases h
  · rw [h'] at h; cases h
  · rw [h'] at h; cases h

/-- unless reading failed, the input is the wire form of the consumed messages followed by what
    is left unread -/
theorem Run.consumed {E : Env} {cancel wr : Option Nat} {s s' : St} {ms sent : List Message} {e : End}
    (h : Run E cancel wr s ms sent s' e) (hne : ∀ er, e ≠ .read er) : s.rest = wire ms ++ s'.rest := by
  induction h with
  | cancelled => simp
  | readErr => exact absurd rfl (hne _)
  | stop _ hr _ => simp [(readMessage_inv hr).1]
  | next _ hr _ _ ih => rw [(readMessage_inv hr).1, ih hne]; simp

/-- every consumed message fits the 64-bit length field -/
theorem Run.sizes {E : Env} {cancel wr : Option Nat} {s s' : St} {ms sent : List Message} {e : End}
    (h : Run E cancel wr s ms sent s' e) : ∀ m ∈ ms, 16 + m.body.length < 2^64 := by
  induction h with
  | cancelled => simp
  | readErr => simp
  | stop _ hr _ => intro m hm; simp at hm; subst hm; exact (readMessage_inv hr).2.1
  | next _ hr _ _ ih =>
    intro x hx
    rcases List.mem_cons.mp hx with rfl | hx
    · exact (readMessage_inv hr).2.1
    · exact ih x hx

/-- `rs` are the answers to the first `rs.length` of the messages `ms`, in order -/
def Replies (E : Env) : List Message → List Message → Prop
  | _, [] => True
  | [], _ :: _ => False
  | m :: ms, r :: rs => IsReply E m r ∧ Replies E ms rs

/-- every message written by the loop is the answer to the request at the same position of the
    consumed input: one reply per answered request, in order -/
theorem Run.replies {E : Env} {cancel wr : Option Nat} {s s' : St} {ms sent : List Message} {e : End}
    (h : Run E cancel wr s ms sent s' e) : Replies E ms sent := by
  induction h with
  | cancelled => trivial
  | readErr => trivial
  | stop => trivial
  | next _ _ ha _ ih =>
    obtain ⟨r, rfl, hr, _⟩ := arm_next ha
    exact ⟨hr, ih⟩

theorem Replies.length_le {E : Env} : ∀ {ms rs : List Message}, Replies E ms rs → rs.length ≤ ms.length
  | _, [], _ => Nat.zero_le _
  | [], _ :: _, h => h.elim
  | _ :: _, _ :: _, h => Nat.succ_le_succ (Replies.length_le h.2)

/-- a request the server answers (and goes on) -/
def Answered (E : Env) (m : Message) : Prop := ∃ r, IsReply E m r

/-- **when the loop returns nil after a goodbye**: everything before the goodbye message was a
    request that was answered; the context was not found done and the writer took every reply -/
theorem Run.nilGoodbye {E : Env} {cancel wr : Option Nat} {s s' : St} {ms sent : List Message} {e : End}
    (h : Run E cancel wr s ms sent s' e) (he : e = .nilGoodbye) :
    ∃ reqs gb, ms = reqs ++ [gb] ∧ gb.typ = Gen.CaProtocolGoodbye ∧ (∀ r ∈ reqs, Answered E r) ∧
      sent.length = reqs.length ∧ (∀ n, cancel = some n → reqs.length < n) ∧ (∀ n, wr = some n → reqs.length ≤ n) := by
  induction h with
  | cancelled => cases he
  | readErr => cases he
  | @stop cancel wr s s1 m e hc _ ha =>
    subst he
    refine ⟨[], m, rfl, arm_nil ha, by simp, rfl, fun n hn => ?_, fun n _ => Nat.zero_le _⟩
    subst hn
    cases n with
    | zero => exact absurd rfl hc
    | succ n => simp
  | @next cancel wr wr' s s1 s2 m sent ms sent' e hc _ ha _ ih =>
    obtain ⟨reqs, gb, rfl, hgb, hall, hlen, hcn, hwr⟩ := ih he
    obtain ⟨r, rfl, hr, hw⟩ := arm_next ha
    refine ⟨m :: reqs, gb, rfl, hgb, ?_, by simp [hlen], fun n hn => ?_, fun n hn => ?_⟩
    · intro x hx
      rcases List.mem_cons.mp hx with rfl | hx
      · exact ⟨r, hr⟩
      · exact hall x hx
    · subst hn
      cases n with
      | zero => exact absurd rfl hc
      | succ n => have := hcn n rfl; simp; omega
    · subst hn
      cases n with
      | zero => simp [wrWrite] at hw
      | succ n =>
        simp only [wrWrite, Option.some.injEq] at hw
        have := hwr n hw.symm; simp; omega

/-- **when the loop returns nil for a done context**: the `n` messages before it were answered requests -/
theorem Run.nilCancelled {E : Env} {cancel wr : Option Nat} {s s' : St} {ms sent : List Message} {e : End}
    (h : Run E cancel wr s ms sent s' e) (he : e = .nilCancelled) :
    cancel = some ms.length ∧ (∀ r ∈ ms, Answered E r) ∧ sent.length = ms.length := by
  induction h with
  | cancelled => exact ⟨rfl, by simp, rfl⟩
  | readErr => cases he
  | stop _ _ ha => subst he; exact absurd ha arm_not_cancelled
  | @next cancel wr wr' s s1 s2 m sent ms sent' e hc _ ha _ ih =>
    obtain ⟨hcn, hall, hlen⟩ := ih he
    obtain ⟨r, rfl, hr, hw⟩ := arm_next ha
    refine ⟨?_, ?_, by simp [hlen]⟩
    · cases cancel with
      | none => simp at hcn
      | some n =>
        cases n with
        | zero => exact absurd rfl hc
        | succ n => simp at hcn; simp [hcn]
    · intro x hx
      rcases List.mem_cons.mp hx with rfl | hx
      · exact ⟨r, hr⟩
      · exact hall x hx

/-! ### reading a stream of messages back -/

/-- all the messages of a stream, up to the first that does not read -/
def readAll : Nat → St → List Message
  | 0, _ => []
  | n+1, s =>
    match readMessage s with
    | .ok (m, s') => m :: readAll n s'
    | _ => []

theorem readMessage_nil (a : Nat) : readMessage ⟨[], a⟩ = .err .eof := by
  simp [readMessage, readU64]

theorem readAll_wire (ms : List Message) (hsz : ∀ m ∈ ms, 16 + m.body.length < 2^64) :
    ∀ (n a : Nat), ms.length ≤ n → readAll n ⟨wire ms, a⟩ = ms := by
  induction ms with
  | nil =>
    intro n a _
    cases n with
    | zero => rfl
    | succ n => simp [readAll, readMessage_nil]
  | cons m ms ih =>
    intro n a hn
    cases n with
    | zero => simp at hn
    | succ n =>
      have h1 := readMessage_writeMessage m (wire ms) a (hsz m List.mem_cons_self)
      simp only [readAll, wire_cons, h1]
      rw [ih (fun x hx => hsz x (List.mem_cons_of_mem _ hx)) n _ (by simpa using hn)]

theorem reqId_length {body : Bytes} (h : 40 ≤ body.length) : (reqId body).length = 32 :=
  (slice_8_40 body h).2

/-- `b` is the data of a chunk object the store hands out -/
def Served (E : Env) (b : Bytes) : Prop := ∃ id c, E.store id = .chunk c ∧ (c.getData E.z.dec).1 = some b

theorem replyOf_size {E : Env} {id : Bytes} {r : Message} (h : replyOf E id = .ok r) (hid : id.length = 32)
    (hsz : ∀ b, Served E b → (E.z.comp b).length + 56 < 2^64) : 16 + r.body.length < 2^64 := by
  unfold replyOf at h
  split at h
  · cases h
  · injection h with h; subst h; simp [missingMessage, hid]
  · rename_i c hst
    split at h
    · cases h
    · rename_i b c1 hd
      injection h with h; subst h
      have := hsz b ⟨id, c, hst, by rw [hd]⟩
      simp [chunkMessage]; omega

/-! ### the whole `Serve`, computed -/

theorem serverRun_eq (E : Env) (cancel wr : Option Nat) (input : Bytes) :
    serverRun E cancel wr input =
      match wrWrite wr, recvHello ⟨input, 0⟩ with
      | none, .ok _ s => ⟨[], s, .hsSend⟩
      | none, .fail _ s => ⟨[], s, .hsSend⟩
      | some _, .fail e s => ⟨[helloMsg Gen.CaProtocolReadableStore], s, e⟩
      | some w, .ok f s =>
        if f &&& Gen.CaProtocolPullChunks = 0 then ⟨[helloMsg Gen.CaProtocolReadableStore], s, .noPull⟩
        else
          let r := serveLoop E true (s.rest.length + 1) cancel w s
          ⟨helloMsg Gen.CaProtocolReadableStore :: r.1, r.2.1, r.2.2⟩ := by
  unfold serverRun
  rw [protoInit_eq]
  cases wrWrite wr <;> cases recvHello ⟨input, 0⟩ <;> simp

theorem recvHello_ok {s s' : St} {f : UInt64} (h : recvHello s = .ok f s') :
    s.rest = writeMessage (helloMsg f) ++ s'.rest := by
  unfold recvHello at h
  cases hr : readMessage s with
  | err e => simp [hr] at h
  | panic p => simp [hr] at h
  | ok q =>
    obtain ⟨m, s1⟩ := q
    simp only [hr] at h
    split at h
    · cases h
    · rename_i ht
      split at h
      · cases h
      · rename_i hl
        split at h
        · cases h
        · injection h with hf hs
          subst hs
          have ht' : m.typ = Gen.CaProtocolHello := by simpa using ht
          have hl' : m.body.length = 8 := by simpa using hl
          have : m = helloMsg f := by
            obtain ⟨t, b⟩ := m
            simp only at ht' hl' hf
            subst ht'
            simp only [helloMsg, ← hf, le64_u64OfLE b hl']
          rw [← this]
          exact (readMessage_inv hr).1

theorem recvHello_wire (f : UInt64) (r : Bytes) (a : Nat) :
    recvHello ⟨writeMessage (helloMsg f) ++ r, a⟩ = .ok f ⟨r, a + 16⟩ := by
  unfold recvHello
  rw [readMessage_writeMessage (helloMsg f) r a (by simp [helloMsg])]
  simp [helloMsg, u64OfLE_le64]

/-- the loop of a run of `Serve` that got past the handshake -/
theorem serverRun_loop (E : Env) (cancel wr : Option Nat) (input : Bytes) :
    (∃ e, (serverRun E cancel wr input).end_ = e ∧ (e = .hsSend ∨ e = .noPull ∨ e = .hsType ∨ e = .hsLen ∨ ∃ er, e = .hsRead er) ∧
      (serverRun E cancel wr input).sent.length ≤ 1) ∨
    ∃ w f s1 ms, wrWrite wr = some w ∧ input = writeMessage (helloMsg f) ++ s1.rest ∧ f &&& Gen.CaProtocolPullChunks ≠ 0 ∧
      ∃ sent, (serverRun E cancel wr input).sent = helloMsg Gen.CaProtocolReadableStore :: sent ∧
        Run E cancel w s1 ms sent (serverRun E cancel wr input).st (serverRun E cancel wr input).end_ := by
  rw [serverRun_eq]
  cases hw : wrWrite wr with
  | none =>
    left
    cases hr : recvHello ⟨input, 0⟩ <;> exact ⟨_, rfl, Or.inl rfl, by simp⟩
  | some w =>
    cases hr : recvHello ⟨input, 0⟩ with
    | fail e s =>
      left
      refine ⟨e, rfl, ?_, by simp⟩
      unfold recvHello at hr
      cases hm : readMessage ⟨input, 0⟩ with
      | err er => simp [hm] at hr; right; right; right; right; exact ⟨er, hr.1.symm⟩
      | panic p => exact absurd hm (readMessage_nopanic _ p)
      | ok q =>
        simp only [hm] at hr
        split at hr
        · injection hr with h1 _; right; right; left; exact h1.symm
        · split at hr
          · injection hr with h1 _; right; right; right; left; exact h1.symm
          · split at hr
            · rename_i h8 h8'; omega
            · cases hr
    | ok f s1 =>
      simp only
      by_cases hp : f &&& Gen.CaProtocolPullChunks = 0
      · left; rw [if_pos hp]; exact ⟨_, rfl, Or.inr (Or.inl rfl), by simp⟩
      · right
        rw [if_neg hp]
        obtain ⟨ms, hrun⟩ := serveLoop_run E (s1.rest.length + 1) cancel w s1 (Nat.lt_succ_self _)
        exact ⟨w, f, s1, ms, rfl, recvHello_ok hr, hp, _, rfl, hrun⟩

/-- **`Serve` returns nil after a goodbye only on these inputs**: a hello message asking for
    chunks, requests that were all answered, a goodbye message (then anything) — with a context
    that was not done at the top of any of those passes and a writer that took every reply -/
theorem serverRun_nilGoodbye (E : Env) (cancel wr : Option Nat) (input : Bytes)
    (h : (serverRun E cancel wr input).end_ = .nilGoodbye) :
    ∃ f reqs gb, input = wire (helloMsg f :: reqs ++ [gb]) ++ (serverRun E cancel wr input).st.rest ∧
      f &&& Gen.CaProtocolPullChunks ≠ 0 ∧ gb.typ = Gen.CaProtocolGoodbye ∧ (∀ r ∈ reqs, Answered E r) ∧
      (serverRun E cancel wr input).sent.length = 1 + reqs.length ∧
      (∀ n, cancel = some n → reqs.length < n) ∧ (∀ n, wr = some n → reqs.length < n) ∧
      (∀ m ∈ reqs ++ [gb], 16 + m.body.length < 2^64) := by
  have hl := serverRun_loop E cancel wr input
  generalize serverRun E cancel wr input = o at *
  rcases hl with ⟨e, he, hk, _⟩ | ⟨w, f, s1, ms, hw, hin, hp, sent, hs, hrun⟩
  · rw [h] at he; subst he
    rcases hk with hk | hk | hk | hk | ⟨_, hk⟩ <;> cases hk
  · obtain ⟨reqs, gb, rfl, hgb, hall, hlen, hcn, hwr⟩ := hrun.nilGoodbye h
    have hc := hrun.consumed (by rw [h]; intro er he; cases he)
    have hszs := hrun.sizes
    refine ⟨f, reqs, gb, ?_, hp, hgb, hall, by rw [hs]; simp [hlen]; omega, hcn, fun n hn => ?_, hszs⟩
    · rw [hin, hc]; simp
    · subst hn
      cases n with
      | zero => simp [wrWrite] at hw
      | succ n =>
        simp only [wrWrite, Option.some.injEq] at hw
        have := hwr n hw.symm; omega

/-- **`Serve` returns nil for a done context only on these inputs**: a hello message asking for
    chunks followed by as many answered requests as it takes for the context to be found done -/
theorem serverRun_nilCancelled (E : Env) (cancel wr : Option Nat) (input : Bytes)
    (h : (serverRun E cancel wr input).end_ = .nilCancelled) :
    ∃ f reqs, input = wire (helloMsg f :: reqs) ++ (serverRun E cancel wr input).st.rest ∧
      f &&& Gen.CaProtocolPullChunks ≠ 0 ∧ cancel = some reqs.length ∧ (∀ r ∈ reqs, Answered E r) ∧
      (serverRun E cancel wr input).sent.length = 1 + reqs.length := by
  have hl := serverRun_loop E cancel wr input
  generalize serverRun E cancel wr input = o at *
  rcases hl with ⟨e, he, hk, _⟩ | ⟨w, f, s1, ms, hw, hin, hp, sent, hs, hrun⟩
  · rw [h] at he; subst he
    rcases hk with hk | hk | hk | hk | ⟨_, hk⟩ <;> cases hk
  · obtain ⟨hcn, hall, hlen⟩ := hrun.nilCancelled h
    have hc := hrun.consumed (by rw [h]; intro er he; cases he)
    refine ⟨f, ms, ?_, hp, hcn, hall, by rw [hs]; simp [hlen]; omega⟩
    rw [hin, hc]; simp

theorem Run.prefix {E : Env} {cancel wr : Option Nat} {s s' : St} {ms sent : List Message} {e : End}
    (h : Run E cancel wr s ms sent s' e) : ∃ tail, s.rest = wire ms ++ tail := by
  induction h with
  | cancelled wr s => exact ⟨s.rest, by simp⟩
  | @readErr _ _ s _ _ _ => exact ⟨s.rest, by simp⟩
  | @stop _ _ _ s1 _ _ _ hr _ => exact ⟨s1.rest, by simp [(readMessage_inv hr).1]⟩
  | next _ hr _ _ ih =>
    obtain ⟨t, ht⟩ := ih
    exact ⟨t, by rw [(readMessage_inv hr).1, ht]; simp⟩

/-- what the server writes: its hello, then one reply per request it found in the input, in
    order, each the answer of its store for the id in that request -/
theorem serverRun_sent (E : Env) (cancel wr : Option Nat) (input : Bytes) :
    (wr = some 0 ∧ (serverRun E cancel wr input).sent = []) ∨
    ∃ rs, (serverRun E cancel wr input).sent = helloMsg Gen.CaProtocolReadableStore :: rs ∧
      (rs = [] ∨ ∃ f ms tail, input = wire (helloMsg f :: ms) ++ tail ∧ Replies E ms rs) := by
  rcases serverRun_loop E cancel wr input with ⟨e, _, _, _⟩ | ⟨w, f, s1, ms, hw, hin, hp, sent, hs, hrun⟩
  · rw [serverRun_eq]
    cases hw : wrWrite wr with
    | none =>
      left
      have : wr = some 0 := by
        cases wr with
        | none => simp [wrWrite] at hw
        | some n => cases n with
          | zero => rfl
          | succ n => simp [wrWrite] at hw
      refine ⟨this, ?_⟩
      cases recvHello ⟨input, 0⟩ <;> rfl
    | some w =>
      right
      cases hr : recvHello ⟨input, 0⟩ with
      | fail e s => exact ⟨[], rfl, Or.inl rfl⟩
      | ok f s =>
        simp only
        split
        · exact ⟨[], rfl, Or.inl rfl⟩
        · obtain ⟨ms, hrun⟩ := serveLoop_run E (s.rest.length + 1) cancel w s (Nat.lt_succ_self _)
          obtain ⟨t, ht⟩ := hrun.prefix
          refine ⟨_, rfl, Or.inr ⟨f, ms, t, ?_, hrun.replies⟩⟩
          have := recvHello_ok hr
          simp only at this
          rw [this, ht]; simp
  · right
    obtain ⟨t, ht⟩ := hrun.prefix
    refine ⟨sent, hs, Or.inr ⟨f, ms, t, ?_, hrun.replies⟩⟩
    rw [hin, ht]; simp

theorem Replies.sizes {E : Env} (hsz : ∀ b, Served E b → (E.z.comp b).length + 56 < 2^64) :
    ∀ {ms rs : List Message}, Replies E ms rs → ∀ r ∈ rs, 16 + r.body.length < 2^64
  | _, [], _ => by simp
  | [], _ :: _, h => h.elim
  | m :: ms, r :: rs, h => by
    intro x hx
    rcases List.mem_cons.mp hx with rfl | hx
    · exact replyOf_size h.1.2.2 (reqId_length h.1.2.1) hsz
    · exact Replies.sizes hsz h.2 x hx

/-- **the server's output always parses back** into the messages it wrote: nothing it writes is
    malformed, whatever it was sent -/
theorem serverRun_parses_back (E : Env) (hsz : ∀ b, Served E b → (E.z.comp b).length + 56 < 2^64)
    (cancel wr : Option Nat) (input : Bytes) (a : Nat) :
    readAll (serverRun E cancel wr input).sent.length ⟨(serverRun E cancel wr input).written, a⟩
      = (serverRun E cancel wr input).sent := by
  unfold ServerOut.written
  apply readAll_wire _ _ _ _ (Nat.le_refl _)
  rcases serverRun_sent E cancel wr input with ⟨_, h⟩ | ⟨rs, h, hrs⟩
  · rw [h]; simp
  · rw [h]
    intro m hm
    rcases List.mem_cons.mp hm with rfl | hm
    · simp [helloMsg]
    · rcases hrs with rfl | ⟨_, ms, _, _, hrep⟩
      · simp at hm
      · exact hrep.sizes hsz m hm

/-! ### the byte-level loop is the message-level loop after framing -/

/-- the loop of `Serve` over messages that have been read already: what it writes, the messages it
    leaves unread, and its verdict — `none` when the messages ran out and the loop is still going -/
def serveMsgs (E : Env) : Option Nat → Option Nat → List Message → List Message × List Message × Option End
  | _, _, [] => ([], [], none)
  | cancel, wr, m :: ms =>
    if cancel = some 0 then ([], m :: ms, some .nilCancelled)
    else
      match arm E true wr m with
      | .stop e => ([], ms, some e)
      | .next sent wr' =>
        let r := serveMsgs E (cancel.map (· - 1)) wr' ms
        (sent ++ r.1, r.2.1, r.2.2)

/-- what reading these messages charges to the reader -/
def allocOf : List Message → Nat
  | [] => 0
  | m :: ms => (8 + m.body.length) + allocOf ms

theorem wrWrite_some {wr w : Option Nat} (h : wrWrite wr = some w) : w = wr.map (· - 1) := by
  cases wr with
  | none => simp [wrWrite] at h; subst h; rfl
  | some n =>
    cases n with
    | zero => simp [wrWrite] at h
    | succ n => simp [wrWrite] at h; simp [← h]

theorem serveLoop_wire (E : Env) : ∀ (ms : List Message), (∀ m ∈ ms, 16 + m.body.length < 2^64) →
    ∀ (tail : Bytes) (a fuel : Nat) (cancel wr : Option Nat), ms.length < fuel →
      (∀ sent rem e, serveMsgs E cancel wr ms = (sent, rem, some e) →
        (serveLoop E true fuel cancel wr ⟨wire ms ++ tail, a⟩).1 = sent ∧
        (serveLoop E true fuel cancel wr ⟨wire ms ++ tail, a⟩).2.2 = e ∧
        (serveLoop E true fuel cancel wr ⟨wire ms ++ tail, a⟩).2.1.rest = wire rem ++ tail) ∧
      (∀ sent rem, serveMsgs E cancel wr ms = (sent, rem, none) →
        serveLoop E true fuel cancel wr ⟨wire ms ++ tail, a⟩ =
          (sent ++ (serveLoop E true (fuel - ms.length) (cancel.map (· - ms.length)) (wr.map (· - sent.length))
              ⟨tail, a + allocOf ms⟩).1,
            (serveLoop E true (fuel - ms.length) (cancel.map (· - ms.length)) (wr.map (· - sent.length))
              ⟨tail, a + allocOf ms⟩).2.1,
            (serveLoop E true (fuel - ms.length) (cancel.map (· - ms.length)) (wr.map (· - sent.length))
              ⟨tail, a + allocOf ms⟩).2.2)) := by
  intro ms
  induction ms with
  | nil =>
    intro _ tail a fuel cancel wr _
    refine ⟨fun sent rem e h => by simp [serveMsgs] at h, fun sent rem h => ?_⟩
    simp only [serveMsgs, Prod.mk.injEq] at h
    obtain ⟨rfl, _, _⟩ := h
    have h1 : cancel.map (· - 0) = cancel := by cases cancel <;> simp
    have h2 : wr.map (· - 0) = wr := by cases wr <;> simp
    simp [allocOf]
  | cons m ms ih =>
    intro hsz tail a fuel cancel wr hf
    cases fuel with
    | zero => simp at hf
    | succ fuel =>
      have hf' : ms.length < fuel := by simpa using hf
      have hszm := hsz m List.mem_cons_self
      have hsz' : ∀ x ∈ ms, 16 + x.body.length < 2^64 := fun x hx => hsz x (List.mem_cons_of_mem _ hx)
      have hrd : readMessage ⟨wire (m :: ms) ++ tail, a⟩ = .ok (m, ⟨wire ms ++ tail, a + (8 + m.body.length)⟩) := by
        rw [wire_cons, List.append_assoc]
        exact readMessage_writeMessage m _ a hszm
      by_cases hc : cancel = some 0
      · subst hc
        simp only [serveMsgs, serveLoop, ↓reduceIte]
        refine ⟨fun sent rem e h => ?_, fun sent rem h => by simp at h⟩
        simp only [Prod.mk.injEq, Option.some.injEq] at h
        obtain ⟨rfl, rfl, rfl⟩ := h
        exact ⟨rfl, rfl, rfl⟩
      · cases ha : arm E true wr m with
        | stop e' =>
          simp only [serveMsgs, serveLoop, hc, ↓reduceIte, hrd, ha]
          refine ⟨fun sent rem e h => ?_, fun sent rem h => by simp at h⟩
          simp only [Prod.mk.injEq, Option.some.injEq] at h
          obtain ⟨rfl, rfl, rfl⟩ := h
          exact ⟨rfl, rfl, rfl⟩
        | next snt wr' =>
          obtain ⟨r, rfl, _, hw⟩ := arm_next ha
          have hwr' := wrWrite_some hw
          subst hwr'
          obtain ⟨ih1, ih2⟩ := ih hsz' tail (a + (8 + m.body.length)) fuel (cancel.map (· - 1)) (wr.map (· - 1)) hf'
          simp only [serveMsgs, serveLoop, hc, ↓reduceIte, hrd, ha]
          refine ⟨fun sent rem e h => ?_, fun sent rem h => ?_⟩
          · simp only [Prod.mk.injEq] at h
            obtain ⟨h1, h2, h3⟩ := h
            obtain ⟨i1, i2, i3⟩ := ih1 _ _ _ (Prod.ext rfl (Prod.ext h2 h3))
            exact ⟨by rw [i1, ← h1], i2, i3⟩
          · simp only [Prod.mk.injEq] at h
            obtain ⟨h1, h2, h3⟩ := h
            rw [ih2 _ _ (Prod.ext rfl (Prod.ext h2 h3))]
            have e1 : fuel + 1 - (m :: ms).length = fuel - ms.length := by simp
            have e2 : (cancel.map (· - 1)).map (· - ms.length) = cancel.map (· - (m :: ms).length) := by
              cases cancel <;> simp <;> omega
            have e3 : (wr.map (· - 1)).map (· - (serveMsgs E (cancel.map (· - 1)) (wr.map (· - 1)) ms).1.length)
                = wr.map (· - sent.length) := by
              rw [← h1]
              cases wr <;> simp <;> omega
            have e4 : a + (8 + m.body.length) + allocOf ms = a + allocOf (m :: ms) := by simp [allocOf]; omega
            rw [e1, e2, e3, e4, ← h1]
            simp

theorem wire_length_ge (ms : List Message) : 16 * ms.length ≤ (wire ms).length := by
  induction ms with
  | nil => simp
  | cons m ms ih => simp; omega

/-! ### inputs on which `Serve` does return nil -/

theorem arm_answered {E : Env} {wr w : Option Nat} {m r : Message} (h : IsReply E m r) (hw : wrWrite wr = some w) :
    arm E true wr m = .next [r] w := by
  obtain ⟨h1, h2, h3⟩ := h
  unfold arm
  rw [if_pos h1, serveRequest_eq E wr m.body h2, h3]
  simp only [hw]

theorem arm_goodbye (E : Env) (wr : Option Nat) {m : Message} (h : m.typ = Gen.CaProtocolGoodbye) :
    arm E true wr m = .stop .nilGoodbye := by
  unfold arm
  have h1 : m.typ ≠ Gen.CaProtocolRequest := by rw [h]; decide
  have h2 : m.typ ≠ Gen.CaProtocolAbort := by rw [h]; decide
  rw [if_neg h1, if_neg h2, if_pos h]

/-- the replies to a list of answered requests -/
theorem serveMsgs_answered (E : Env) (gb : Message) (hgb : gb.typ = Gen.CaProtocolGoodbye) (more : List Message) :
    ∀ (reqs : List Message), (∀ r ∈ reqs, Answered E r) → ∀ (cancel wr : Option Nat),
      (∀ n, cancel = some n → reqs.length < n) → (∀ n, wr = some n → reqs.length ≤ n) →
      ∃ sent, serveMsgs E cancel wr (reqs ++ gb :: more) = (sent, more, some .nilGoodbye) ∧ Replies E reqs sent ∧
        sent.length = reqs.length := by
  intro reqs
  induction reqs with
  | nil =>
    intro _ cancel wr hc _
    have : cancel ≠ some 0 := fun h => by have := hc 0 h; simp at this
    exact ⟨[], by simp [serveMsgs, this, arm_goodbye E wr hgb], trivial, rfl⟩
  | cons m reqs ih =>
    intro hall cancel wr hc hw
    have hc0 : cancel ≠ some 0 := fun h => by have := hc 0 h; simp at this
    obtain ⟨r, hr⟩ := hall m List.mem_cons_self
    have hww : wrWrite wr = some (wr.map (· - 1)) := by
      cases wr with
      | none => rfl
      | some n =>
        cases n with
        | zero => have := hw 0 rfl; simp at this
        | succ n => simp [wrWrite]
    obtain ⟨sent, hs, hrep, hlen⟩ := ih (fun x hx => hall x (List.mem_cons_of_mem _ hx)) (cancel.map (· - 1)) (wr.map (· - 1))
      (fun n hn => by
        cases cancel with
        | none => simp at hn
        | some k => simp at hn; have := hc k rfl; simp at this; omega)
      (fun n hn => by
        cases wr with
        | none => simp at hn
        | some k => simp at hn; have := hw k rfl; simp at this; omega)
    refine ⟨r :: sent, ?_, ⟨hr, hrep⟩, by simp [hlen]⟩
    simp only [List.cons_append, serveMsgs, hc0, ↓reduceIte, arm_answered hr hww, hs, List.nil_append]

/-- **on exactly these inputs `Serve` returns nil after a goodbye** (with `serverRun_nilGoodbye`) -/
theorem serverRun_nilGoodbye_of (E : Env) (cancel wr : Option Nat) (f : UInt64) (reqs : List Message) (gb : Message)
    (rest : Bytes) (hp : f &&& Gen.CaProtocolPullChunks ≠ 0) (hgb : gb.typ = Gen.CaProtocolGoodbye)
    (hsz : ∀ m ∈ reqs ++ [gb], 16 + m.body.length < 2^64) (hall : ∀ r ∈ reqs, Answered E r)
    (hc : ∀ n, cancel = some n → reqs.length < n) (hw : ∀ n, wr = some n → reqs.length < n) :
    (serverRun E cancel wr (wire (helloMsg f :: reqs ++ [gb]) ++ rest)).end_ = .nilGoodbye ∧
    (serverRun E cancel wr (wire (helloMsg f :: reqs ++ [gb]) ++ rest)).st.rest = rest ∧
    ∃ sent, (serverRun E cancel wr (wire (helloMsg f :: reqs ++ [gb]) ++ rest)).sent
        = helloMsg Gen.CaProtocolReadableStore :: sent ∧ Replies E reqs sent ∧ sent.length = reqs.length := by
  have hww : wrWrite wr = some (wr.map (· - 1)) := by
    cases wr with
    | none => rfl
    | some n =>
      cases n with
      | zero => have := hw 0 rfl; simp at this
      | succ n => simp [wrWrite]
  obtain ⟨sent, hs, hrep, hlen⟩ := serveMsgs_answered E gb hgb [] reqs hall cancel (wr.map (· - 1)) hc
    (fun n hn => by
      cases wr with
      | none => simp at hn
      | some k => simp at hn; have := hw k rfl; omega)
  rw [serverRun_eq]
  have hin : wire (helloMsg f :: reqs ++ [gb]) ++ rest = writeMessage (helloMsg f) ++ (wire (reqs ++ [gb]) ++ rest) := by
    simp
  rw [hin, recvHello_wire, hww]
  simp only [if_neg hp]
  have hfuel : (reqs ++ [gb]).length < (wire (reqs ++ [gb]) ++ rest).length + 1 := by
    have := wire_length_ge (reqs ++ [gb])
    simp only [List.length_append] at *
    omega
  obtain ⟨h1, h2, h3⟩ := (serveLoop_wire E (reqs ++ [gb]) hsz rest (0 + 16) _ cancel (wr.map (· - 1)) hfuel).1 sent [] _ hs
  exact ⟨h2, by simpa using h3, sent, by rw [h1], hrep, hlen⟩

/-! ### the client on arbitrary bytes from the server side -/

theorem clientReply_le (H : Bytes → Bytes) (dec : Bytes → Option Bytes) (id : Bytes) (s : St) :
    Le s (clientReply H dec id s).2 ∧ ∀ e, (clientReply H dec id s).1 = .fail e → e.artefact = false := by
  unfold clientReply
  cases hr : readMessage s with
  | err e => exact ⟨failSt_le s, fun e' h => by injection h with h; subst h; rfl⟩
  | panic p => exact absurd hr (readMessage_nopanic s p)
  | ok q =>
    obtain ⟨m, s1⟩ := q
    have hle := readMessage_le hr
    simp only
    split
    · exact ⟨hle, fun e h => by cases h⟩
    · split
      · split
        · exact ⟨hle, fun e h => by injection h with h; subst h; rfl⟩
        · rename_i h40
          have : ¬ m.body.length < 40 := h40
          simp only [sliceFrom, this, ↓reduceIte]
          split
          · exact ⟨hle, fun e h => by injection h with h; subst h; rfl⟩
          · exact ⟨hle, fun e h => by cases h⟩
      · exact ⟨hle, fun e h => by injection h with h; subst h; rfl⟩

/-- **whatever the server side sends**, a chunk the client accepts for `id` delivers only bytes
    that hash to `id` -/
theorem clientReply_sound (H : Bytes → Bytes) (dec : Bytes → Option Bytes) (id : Bytes) (s : St) (c : ChunkObj)
    (h : (clientReply H dec id s).1 = .ok c) (b : Bytes) (hb : C03.delivers dec c b) : H b = id := by
  unfold clientReply at h
  cases hr : readMessage s with
  | err e => simp [hr] at h
  | panic p => simp [hr] at h
  | ok q =>
    obtain ⟨m, s1⟩ := q
    simp only [hr] at h
    split at h
    · cases h
    · split at h
      · split at h
        · cases h
        · rename_i h40
          have : ¬ m.body.length < 40 := h40
          simp only [sliceFrom, this, ↓reduceIte] at h
          split at h
          · cases h
          · rename_i c' hc
            injection h with h; subst h
            exact C03.fromStorage_sound H dec id _ _ _ hc b hb
      · cases h

theorem requestChunk_eq (H : Bytes → Bytes) (dec : Bytes → Option Bytes) (id : Bytes) (sent0 : List Message) (s : St) :
    requestChunk H dec true id ⟨sent0, none, s⟩ =
      ((clientReply H dec id s).1,
        ⟨sent0 ++ [requestMessage (fit32 id) Gen.CaProtocolRequestHighPriority], none, (clientReply H dec id s).2⟩) := by
  simp [requestChunk, mkRequest_eq, wrWrite]

/-- the client's results on any connection: one per id; an accepted chunk hashes to its id; the
    reader only moves forward and no result is a panic -/
theorem requestAll_sound (H : Bytes → Bytes) (dec : Bytes → Option Bytes) (init : Bool) :
    ∀ (ids : List Bytes) (c0 : Conn),
      (requestAll H dec init ids c0).1.length = ids.length ∧
      Le c0.st (requestAll H dec init ids c0).2.st ∧
      ∀ (k : Nat) (r : CRes), (requestAll H dec init ids c0).1[k]? = some r →
        (∀ c, r = CRes.ok c → ∃ id, ids[k]? = some id ∧ ∀ b, C03.delivers dec c b → H b = id) ∧
        (∀ p, r ≠ CRes.fail (.panic p)) := by
  intro ids
  induction ids with
  | nil => intro c0; exact ⟨rfl, Le.refl _, fun k r h => by simp [requestAll] at h⟩
  | cons id ids ih =>
    intro c0
    have hone : Le c0.st (requestChunk H dec init id c0).2.st ∧
        (∀ c, (requestChunk H dec init id c0).1 = .ok c → ∀ b, C03.delivers dec c b → H b = id) ∧
        (∀ p, (requestChunk H dec init id c0).1 ≠ .fail (.panic p)) := by
      unfold requestChunk
      cases init with
      | false => exact ⟨Le.refl _, fun c h => by simp at h, fun p h => by simp at h⟩
      | true =>
        simp only [Bool.not_true, Bool.false_eq_true, ↓reduceIte, mkRequest_eq]
        cases wrWrite c0.wr with
        | none => exact ⟨Le.refl _, fun c h => by simp at h, fun p h => by simp at h⟩
        | some w =>
          simp only
          obtain ⟨h1, h2⟩ := clientReply_le H dec id c0.st
          refine ⟨h1, fun c h => clientReply_sound H dec id c0.st c h, fun p h => ?_⟩
          have := h2 _ h
          simp [End.artefact] at this
    obtain ⟨i1, i2, i3⟩ := ih (requestChunk H dec init id c0).2
    simp only [requestAll]
    refine ⟨by simp [i1], hone.1.trans i2, fun k r hk => ?_⟩
    cases k with
    | zero =>
      simp only [List.getElem?_cons_zero, Option.some.injEq] at hk
      subst hk
      exact ⟨fun c hc => ⟨id, rfl, hone.2.1 c hc⟩, hone.2.2⟩
    | succ k =>
      simp only [List.getElem?_cons_succ] at hk
      exact i3 k r hk

/-- **C03 over the casync protocol**: whatever bytes arrive from the server side — replies for other
    chunks, truncated or malformed messages, wrong types, anything — the client produces one result
    per requested id, and a result `.ok c` for the `k`-th id delivers only bytes hashing to it -/
theorem clientRun_sound (H : Bytes → Bytes) (dec : Bytes → Option Bytes) (ids : List Bytes) (fromServer : Bytes) :
    ((clientRun H dec ids fromServer).hs = none → (clientRun H dec ids fromServer).results.length = ids.length) ∧
    ∀ (k : Nat) (c : ChunkObj), (clientRun H dec ids fromServer).results[k]? = some (.ok c) →
      ∃ id, ids[k]? = some id ∧ ∀ b, C03.delivers dec c b → H b = id := by
  unfold clientRun
  cases protoInit Gen.CaProtocolPullChunks { st := ⟨fromServer, 0⟩ } with
  | mk c r =>
    cases r with
    | error e => exact ⟨fun h => by simp at h, fun k c h => by simp at h⟩
    | ok flags =>
      simp only
      split
      · exact ⟨fun h => by simp at h, fun k c h => by simp at h⟩
      · obtain ⟨h1, _, h3⟩ := requestAll_sound H dec true ids c
        exact ⟨fun _ => h1, fun k c' h => (h3 k _ h).1 c' rfl⟩

/-- the client never panics on what it is sent, and allocates at most what it has consumed -/
theorem clientRun_real (H : Bytes → Bytes) (dec : Bytes → Option Bytes) (ids : List Bytes) (fromServer : Bytes) :
    (∀ e, (clientRun H dec ids fromServer).hs = some e → e.artefact = false) ∧
    (∀ (k : Nat) (p : String), (clientRun H dec ids fromServer).results[k]? ≠ some (CRes.fail (.panic p))) ∧
    Le ⟨fromServer, 0⟩ (clientRun H dec ids fromServer).conn.st := by
  unfold clientRun
  have hi := protoInit_le Gen.CaProtocolPullChunks { st := ⟨fromServer, 0⟩ }
  cases hp : protoInit Gen.CaProtocolPullChunks { st := ⟨fromServer, 0⟩ } with
  | mk c r =>
    rw [hp] at hi
    cases r with
    | error e =>
      refine ⟨fun e' h => ?_, fun k p h => by simp at h, hi.1⟩
      simp only [Option.some.injEq] at h; subst h; exact hi.2 _ rfl
    | ok flags =>
      simp only
      split
      · refine ⟨fun e' h => ?_, fun k p h => by simp at h, hi.1⟩
        simp only [Option.some.injEq] at h; subst h; rfl
      · obtain ⟨_, h2, h3⟩ := requestAll_sound H dec true ids c
        exact ⟨fun e h => by simp at h, fun k p h => (h3 k _ h).2 p rfl, hi.1.trans h2⟩

/-! ### a whole session -/

/-- the request message for an id -/
def reqMsg (id : Bytes) : Message := requestMessage (fit32 id) Gen.CaProtocolRequestHighPriority

theorem reqMsg_isReply {E : Env} {id : Bytes} {r : Message} (hid : id.length = 32) (h : replyOf E id = .ok r) :
    IsReply E (reqMsg id) r := by
  have hb : (reqMsg id).body = le64 Gen.CaProtocolRequestHighPriority ++ id := by
    simp [reqMsg, requestMessage, fit32_of_length hid]
  have hl : (reqMsg id).body.length = 40 := by simp [hb, hid]
  refine ⟨rfl, by omega, ?_⟩
  have : reqId (reqMsg id).body = id := by
    unfold reqId
    rw [List.take_of_length_le (by omega), hb, List.drop_left' (by simp)]
  rw [this, h]

/-- what the server writes for requests for these ids followed by a goodbye, and how it ends -/
def answers (E : Env) : List Bytes → List Message × End
  | [] => ([], .nilGoodbye)
  | id :: ids =>
    match replyOf E id with
    | .error e => ([], e)
    | .ok r => (r :: (answers E ids).1, (answers E ids).2)

theorem serveMsgs_requests (E : Env) : ∀ (ids : List Bytes), (∀ id ∈ ids, id.length = 32) →
    ∃ rem, serveMsgs E none none (ids.map reqMsg ++ [goodbyeMsg]) = ((answers E ids).1, rem, some (answers E ids).2) := by
  intro ids
  induction ids with
  | nil => intro _; exact ⟨[], by simp [serveMsgs, answers, arm_goodbye E none (m := goodbyeMsg) rfl]⟩
  | cons id ids ih =>
    intro hid
    have hid0 := hid id List.mem_cons_self
    obtain ⟨rem, hrem⟩ := ih (fun x hx => hid x (List.mem_cons_of_mem _ hx))
    cases hr : replyOf E id with
    | error e =>
      refine ⟨ids.map reqMsg ++ [goodbyeMsg], ?_⟩
      have hb : (reqMsg id).body = le64 Gen.CaProtocolRequestHighPriority ++ id := by
        simp [reqMsg, requestMessage, fit32_of_length hid0]
      have hl : 40 ≤ (reqMsg id).body.length := by simp [hb, hid0]
      have hq : reqId (reqMsg id).body = id := by
        unfold reqId
        rw [List.take_of_length_le (by simp [hb, hid0]), hb, List.drop_left' (by simp)]
      have ha : arm E true none (reqMsg id) = .stop e := by
        unfold arm
        rw [if_pos (show (reqMsg id).typ = Gen.CaProtocolRequest from rfl), serveRequest_eq E none _ hl, hq, hr]
      simp [serveMsgs, answers, hr, ha]
    | ok r =>
      refine ⟨rem, ?_⟩
      have ha := arm_answered (wr := none) (reqMsg_isReply hid0 hr) rfl
      simp [serveMsgs, answers, hr, ha, hrem]

/-- the server's side of a session with a well-behaved client -/
theorem serverRun_session (E : Env) (ids : List Bytes) (hid : ∀ id ∈ ids, id.length = 32) :
    (serverRun E none none (wire (clientMsgs ids))).sent = helloMsg Gen.CaProtocolReadableStore :: (answers E ids).1 ∧
    (serverRun E none none (wire (clientMsgs ids))).end_ = (answers E ids).2 := by
  obtain ⟨rem, hrem⟩ := serveMsgs_requests E ids hid
  have hin : wire (clientMsgs ids) = writeMessage (helloMsg Gen.CaProtocolPullChunks) ++
      (wire (ids.map reqMsg ++ [goodbyeMsg]) ++ []) := by
    simp only [clientMsgs, wire_cons, wire_append, List.append_nil]
    rfl
  rw [serverRun_eq, hin, recvHello_wire]
  have hp : ¬ (Gen.CaProtocolPullChunks &&& Gen.CaProtocolPullChunks = 0) := by decide
  simp only [wrWrite, if_neg hp]
  have hsz : ∀ m ∈ ids.map reqMsg ++ [goodbyeMsg], 16 + m.body.length < 2^64 := by
    intro m hm
    rcases List.mem_append.mp hm with hm | hm
    · obtain ⟨id, _, rfl⟩ := List.mem_map.mp hm
      simp [reqMsg, requestMessage]
    · simp at hm; subst hm; simp [goodbyeMsg]
  have hfuel : (ids.map reqMsg ++ [goodbyeMsg]).length < (wire (ids.map reqMsg ++ [goodbyeMsg]) ++ []).length + 1 := by
    have := wire_length_ge (ids.map reqMsg ++ [goodbyeMsg])
    simp only [List.length_append] at *
    omega
  obtain ⟨h1, h2, _⟩ := (serveLoop_wire E _ hsz [] (0 + 16) _ none none hfuel).1 _ _ _ hrem
  exact ⟨by rw [h1], h2⟩

/-- what the client makes of the server's answer for `id`; `none`: the server ends the session
    instead of answering -/
def verdict (E : Env) (id : Bytes) : Option CRes :=
  match E.store id with
  | .failure => none
  | .missing => some .missing
  | .chunk c =>
    match (c.getData E.z.dec).1 with
    | none => none
    | some b =>
      some (if E.H b = id then
        .ok { data := b, storage := E.z.comp b, convs := [.compressor], id := E.H b, idCalculated := true }
      else .fail .invalid)

/-- the client's results for a list of ids on one session -/
def expected (E : Env) : List Bytes → List CRes
  | [] => []
  | id :: ids =>
    match verdict E id with
    | none => (id :: ids).map fun _ => .fail (.read .eof)
    | some v => v :: expected E ids

/-- hypotheses about zstd, for the data the store hands out (not for all byte strings: no
    compressor has outputs of bounded length for all of them): decompression inverts compression,
    a frame is never empty, and (Go) no slice is longer than 2^63 -/
structure ZstdOk (E : Env) : Prop where
  inv : ∀ b, Served E b → E.z.dec (E.z.comp b) = some b
  nonempty : ∀ b, Served E b → (E.z.comp b).length > 0
  size : ∀ b, Served E b → (E.z.comp b).length + 56 < 2^64

theorem replyOf_verdict (E : Env) (hz : ZstdOk E) (id : Bytes) (hid : id.length = 32) :
    (∀ e, replyOf E id = .error e → verdict E id = none) ∧
    (∀ r, replyOf E id = .ok r → ∃ v, verdict E id = some v ∧ ∀ rest a,
      clientReply E.H E.z.dec id ⟨writeMessage r ++ rest, a⟩ = (v, ⟨rest, a + (8 + r.body.length)⟩)) := by
  unfold replyOf verdict
  cases hs : E.store id with
  | failure => exact ⟨fun e _ => rfl, fun r h => by cases h⟩
  | missing =>
    refine ⟨fun e h => (by cases h), fun r h => ?_⟩
    injection h with h; subst h
    refine ⟨.missing, rfl, fun rest a => ?_⟩
    unfold clientReply
    rw [readMessage_writeMessage _ rest a (by simp [missingMessage, hid])]
    simp [missingMessage]
  | chunk c =>
    simp only
    cases hd : c.getData E.z.dec with
    | mk d c1 =>
      cases d with
      | none => exact ⟨fun e _ => rfl, fun r h => by cases h⟩
      | some b =>
        refine ⟨fun e h => (by cases h), fun r h => ?_⟩
        injection h with h; subst h
        refine ⟨_, rfl, fun rest a => ?_⟩
        have hsv : Served E b := ⟨id, c, hs, by rw [hd]⟩
        have hsz := hz.size b hsv
        unfold clientReply
        rw [readMessage_writeMessage _ rest a (by simp [chunkMessage]; omega)]
        have hne : Gen.CaProtocolChunk ≠ Gen.CaProtocolMissing := by decide
        have hl : ¬ (le64 Gen.CaProtocolChunkCompressed ++ fit32 (c1.getID E.H E.z.dec).1 ++ E.z.comp b).length < 40 := by
          simp; omega
        have hdrop : (le64 Gen.CaProtocolChunkCompressed ++ fit32 (c1.getID E.H E.z.dec).1 ++ E.z.comp b).drop 40 = E.z.comp b :=
          List.drop_left' (by simp)
        have hfs : fromStorage E.z.dec [Conv.compressor] (E.z.comp b) = some b := by
          simp [fromStorage, hz.inv b hsv]
        simp only [chunkMessage, hne, ↓reduceIte, hl, sliceFrom, hdrop, C03.fromStorage_eq, hz.nonempty b hsv, hfs]
        by_cases hH : E.H b = id <;> simp [hH]

theorem requestAll_eof (H : Bytes → Bytes) (dec : Bytes → Option Bytes) : ∀ (ids : List Bytes) (sent0 : List Message) (a : Nat),
    requestAll H dec true ids ⟨sent0, none, ⟨[], a⟩⟩ =
      (ids.map fun _ => CRes.fail (.read .eof), ⟨sent0 ++ ids.map reqMsg, none, ⟨[], a⟩⟩) := by
  intro ids
  induction ids with
  | nil => intro sent0 a; simp [requestAll]
  | cons id ids ih =>
    intro sent0 a
    have : clientReply H dec id ⟨[], a⟩ = (.fail (.read .eof), ⟨[], a⟩) := by
      simp [clientReply, readMessage_nil]
    simp only [requestAll, requestChunk_eq, this, ih, List.map_cons, List.append_assoc, List.singleton_append]
    rfl

theorem expected_none (E : Env) (id : Bytes) (ids : List Bytes) (h : verdict E id = none) :
    expected E (id :: ids) = (id :: ids).map fun _ => CRes.fail (.read .eof) := by
  simp [expected, h]

/-- the client's side of a session with the model server -/
theorem requestAll_answers (E : Env) (hz : ZstdOk E) : ∀ (ids : List Bytes), (∀ id ∈ ids, id.length = 32) →
    ∀ (sent0 : List Message) (a : Nat),
      (requestAll E.H E.z.dec true ids ⟨sent0, none, ⟨wire (answers E ids).1, a⟩⟩).1 = expected E ids ∧
      (requestAll E.H E.z.dec true ids ⟨sent0, none, ⟨wire (answers E ids).1, a⟩⟩).2.sent = sent0 ++ ids.map reqMsg := by
  intro ids
  induction ids with
  | nil => intro _ sent0 a; simp [requestAll, expected]
  | cons id ids ih =>
    intro hid sent0 a
    have hid0 := hid id List.mem_cons_self
    obtain ⟨hv1, hv2⟩ := replyOf_verdict E hz id hid0
    cases hr : replyOf E id with
    | error e =>
      have hv := hv1 e hr
      have ha : (answers E (id :: ids)).1 = [] := by simp [answers, hr]
      rw [ha, wire_nil, requestAll_eof, expected_none E id ids hv]
      exact ⟨rfl, rfl⟩
    | ok r =>
      obtain ⟨v, hv, hc⟩ := hv2 r hr
      have ha : (answers E (id :: ids)).1 = r :: (answers E ids).1 := by simp [answers, hr]
      obtain ⟨i1, i2⟩ := ih (fun x hx => hid x (List.mem_cons_of_mem _ hx))
        (sent0 ++ [requestMessage (fit32 id) Gen.CaProtocolRequestHighPriority]) (a + (8 + r.body.length))
      rw [ha, wire_cons]
      simp only [requestAll, requestChunk_eq, hc, i1, i2, expected, hv]
      simp [reqMsg]

/-- **a whole session, computed**: the server reads what the client writes and the client reads
    what the server writes; the handshake succeeds on both sides; the client's results are
    `expected`, it has written exactly `clientMsgs`, and the server ends as `answers` says -/
theorem session_eq (E : Env) (hz : ZstdOk E) (ids : List Bytes) (hid : ∀ id ∈ ids, id.length = 32) :
    (session E ids).client.hs = none ∧
    (session E ids).client.results = expected E ids ∧
    (session E ids).client.conn.sent = clientMsgs ids ∧
    (session E ids).server.sent = helloMsg Gen.CaProtocolReadableStore :: (answers E ids).1 ∧
    (session E ids).server.end_ = (answers E ids).2 := by
  obtain ⟨hs1, hs2⟩ := serverRun_session E ids hid
  unfold session
  simp only
  refine ⟨?_, ?_, ?_, hs1, hs2⟩ <;>
  · unfold ServerOut.written clientRun
    rw [hs1, protoInit_eq, wire_cons, recvHello_wire]
    have hp : ¬ (Gen.CaProtocolReadableStore &&& Gen.CaProtocolReadableStore = 0) := by decide
    obtain ⟨h1, h2⟩ := requestAll_answers E hz ids hid ([] ++ [helloMsg Gen.CaProtocolPullChunks]) (0 + 16)
    simp only [wrWrite, if_neg hp, h1, h2]
    try (simp [clientMsgs, reqMsg])

/-! ### the `k`-th result of a session -/

/-- the store cannot answer a request for `id`: `GetChunk` fails with something other than
    `ChunkMissing`, or it yields a chunk object whose data cannot be produced -/
def StoreFails (E : Env) (id : Bytes) : Prop := verdict E id = none

/-- every request before the `k`-th was answered (with a chunk or with "missing") -/
def ServedBefore (E : Env) (ids : List Bytes) (k : Nat) : Prop :=
  ∀ j idj, j < k → ids[j]? = some idj → ¬ StoreFails E idj

theorem storeFails_iff (E : Env) (id : Bytes) :
    StoreFails E id ↔ (match E.store id with
      | .failure => True
      | .missing => False
      | .chunk c => (c.getData E.z.dec).1 = none) := by
  unfold StoreFails verdict
  cases E.store id with
  | failure => simp
  | missing => simp
  | chunk c =>
    simp only
    cases (c.getData E.z.dec).1 <;> simp

theorem expected_get (E : Env) : ∀ (ids : List Bytes) (k : Nat) (id : Bytes), ids[k]? = some id →
    (ServedBefore E ids k → ∀ v, verdict E id = some v → (expected E ids)[k]? = some v) ∧
    ((¬ ServedBefore E ids k ∨ StoreFails E id) → (expected E ids)[k]? = some (.fail (.read .eof))) := by
  intro ids
  induction ids with
  | nil => intro k id h; simp at h
  | cons id0 ids ih =>
    intro k id hk
    cases hv0 : verdict E id0 with
    | none =>
      have hexp : (expected E (id0 :: ids))[k]? = some (.fail (.read .eof)) := by
        rw [expected_none E id0 ids hv0, List.getElem?_map, hk]; rfl
      refine ⟨fun hs v hv => ?_, fun _ => hexp⟩
      cases k with
      | zero =>
        simp only [List.getElem?_cons_zero, Option.some.injEq] at hk
        subst hk; rw [hv0] at hv; cases hv
      | succ k => exact absurd hv0 (hs 0 id0 (Nat.succ_pos _) rfl)
    | some v0 =>
      have hexp : expected E (id0 :: ids) = v0 :: expected E ids := by simp [expected, hv0]
      rw [hexp]
      cases k with
      | zero =>
        simp only [List.getElem?_cons_zero, Option.some.injEq] at hk
        subst hk
        refine ⟨fun _ v hv => by rw [hv0] at hv; simpa using hv, fun h => ?_⟩
        rcases h with h | h
        · exact absurd (fun j idj hj _ => absurd hj (Nat.not_lt_zero _)) h
        · unfold StoreFails at h; rw [hv0] at h; cases h
      | succ k =>
        simp only [List.getElem?_cons_succ] at hk ⊢
        obtain ⟨i1, i2⟩ := ih k id hk
        have hiff : ServedBefore E (id0 :: ids) (k + 1) ↔ ServedBefore E ids k := by
          constructor
          · intro h j idj hj hidj
            exact h (j + 1) idj (by omega) (by simpa using hidj)
          · intro h j idj hj hidj
            cases j with
            | zero =>
              simp only [List.getElem?_cons_zero, Option.some.injEq] at hidj
              subst hidj; unfold StoreFails; rw [hv0]; simp
            | succ j => exact h j idj (by omega) (by simpa using hidj)
        exact ⟨fun hs => i1 (hiff.mp hs), fun h => i2 (h.imp (fun h' hs => h' (hiff.mpr hs)) (fun x => x))⟩

theorem expected_length (E : Env) : ∀ (ids : List Bytes), (expected E ids).length = ids.length := by
  intro ids
  induction ids with
  | nil => rfl
  | cons id ids ih =>
    cases hv : verdict E id with
    | none => rw [expected_none E id ids hv]; simp
    | some v => simp [expected, hv, ih]

/-- **a session is faithful**: in a session over byte streams between the client and the server,
    for every list of requested ids and every store, the `k`-th client result is — as long as the
    store has answered every earlier request, where "missing" is an answer — `missing` when the
    store reports the chunk missing, a chunk delivering the store's bytes when those hash to the id,
    `ChunkInvalid` when they do not; and an error (never `missing`, never data) from the first store
    failure on.  `missing` is reported exactly when the store says so. -/
theorem session_faithful (E : Env) (hz : ZstdOk E) (ids : List Bytes) (hid : ∀ id ∈ ids, id.length = 32) :
    (session E ids).client.results.length = ids.length ∧
    ∀ (k : Nat) (id : Bytes), ids[k]? = some id →
      (ServedBefore E ids k →
        (E.store id = .missing → (session E ids).client.results[k]? = some .missing) ∧
        (∀ c b, E.store id = .chunk c → (c.getData E.z.dec).1 = some b → E.H b = id →
          ∃ c', (session E ids).client.results[k]? = some (.ok c') ∧ C03.delivers E.z.dec c' b) ∧
        (∀ c b, E.store id = .chunk c → (c.getData E.z.dec).1 = some b → E.H b ≠ id →
          (session E ids).client.results[k]? = some (.fail .invalid))) ∧
      ((¬ ServedBefore E ids k ∨ StoreFails E id) →
        (session E ids).client.results[k]? = some (.fail (.read .eof))) ∧
      ((session E ids).client.results[k]? = some .missing ↔ ServedBefore E ids k ∧ E.store id = .missing) := by
  obtain ⟨_, hres, _, _, _⟩ := session_eq E hz ids hid
  rw [hres]
  refine ⟨expected_length E ids, fun k id hk => ?_⟩
  obtain ⟨h1, h2⟩ := expected_get E ids k id hk
  have hmiss : ∀ (hs : ServedBefore E ids k), E.store id = .missing → (expected E ids)[k]? = some .missing :=
    fun hs hm => h1 hs _ (by simp [verdict, hm])
  refine ⟨fun hs => ⟨hmiss hs, fun c b hc hd hH => ?_, fun c b hc hd hH => ?_⟩, h2, ?_, fun ⟨hs, hm⟩ => hmiss hs hm⟩
  · refine ⟨{ data := b, storage := E.z.comp b, convs := [.compressor], id := E.H b, idCalculated := true },
      h1 hs _ (by simp only [verdict, hc, hd, hH, ↓reduceIte]), ?_⟩
    unfold C03.delivers ChunkObj.getData
    simp only
    split
    · rfl
    · have hsv : Served E b := ⟨id, c, hc, hd⟩
      have := hz.nonempty b hsv
      simp [this, fromStorage, hz.inv b hsv]
  · exact h1 hs _ (by simp only [verdict, hc, hd, hH, ↓reduceIte])
  · intro hm
    by_cases hs : ServedBefore E ids k
    · refine ⟨hs, ?_⟩
      cases hv : verdict E id with
      | none => rw [h2 (Or.inr hv)] at hm; cases hm
      | some v =>
        rw [h1 hs v hv] at hm
        simp only [Option.some.injEq] at hm
        subst hm
        unfold verdict at hv
        split at hv
        · cases hv
        · assumption
        · split at hv
          · cases hv
          · simp only [Option.some.injEq] at hv
            split at hv <;> cases hv
    · rw [h2 (Or.inl hs)] at hm; cases hm

/-- when the store answers every id the server returns nil after the client's goodbye -/
theorem answers_nil (E : Env) : ∀ (ids : List Bytes), (∀ id ∈ ids, ¬ StoreFails E id) → (answers E ids).2 = .nilGoodbye := by
  intro ids
  induction ids with
  | nil => intro _; rfl
  | cons id ids ih =>
    intro hall
    have h0 := hall id List.mem_cons_self
    have ih := ih (fun x hx => hall x (List.mem_cons_of_mem _ hx))
    cases hr : replyOf E id with
    | ok r => simp [answers, hr, ih]
    | error e =>
      exfalso
      apply h0
      unfold StoreFails verdict
      unfold replyOf at hr
      cases hs : E.store id with
      | failure => rfl
      | missing => rw [hs] at hr; cases hr
      | chunk c =>
        rw [hs] at hr
        simp only at hr ⊢
        cases hd : c.getData E.z.dec with
        | mk d c1 =>
          cases d with
          | none => rfl
          | some b => rw [hd] at hr; cases hr

/-! ### the label of a reply -/

/-- **the server labels a chunk reply with `chunk.ID()`, not with the requested id**: for a chunk
    object whose id is marked calculated (`NewChunkWithID` / `NewChunkFromStorage`, verified or
    with `skipVerify`) that is the id the object was constructed with; otherwise (`NewChunk`) the
    digest of its data -/
theorem replyOf_label (E : Env) (id : Bytes) (c c1 : ChunkObj) (b : Bytes) (hs : E.store id = .chunk c)
    (hd : c.getData E.z.dec = (some b, c1)) :
    replyOf E id = .ok (chunkMessage (fit32 (if c.idCalculated then c.id else E.H b))
      Gen.CaProtocolChunkCompressed (E.z.comp b)) := by
  have hl : (c1.getID E.H E.z.dec).1 = if c.idCalculated then c.id else E.H b := by
    unfold ChunkObj.getData at hd
    split at hd
    · rename_i hdat
      injection hd with h1 h2; injection h1 with h1; subst h1; subst h2
      unfold ChunkObj.getID
      split
      · rfl
      · simp [ChunkObj.getData, hdat]
    · split at hd
      · rename_i hdat hsto
        split at hd
        · rename_i d hdec
          injection hd with h1 h2; injection h1 with h1; subst h1; subst h2
          unfold ChunkObj.getID
          simp only
          split
          · rfl
          · by_cases hdl : d.length > 0
            · simp [ChunkObj.getData, hdl]
            · simp [ChunkObj.getData, hdl, hsto, hdec]
        · cases hd
      · cases hd
  simp only [replyOf, hs, hd, hl]

/-! ### causality -/

/-- **what the server has written in answer to the messages it has read does not depend on what
    follows them in the input**: for an input that starts with a hello asking for chunks and the
    messages `ms`, the output starts with the server's hello and the message-level answers to `ms`,
    whatever the `tail` is -/
theorem server_causal (E : Env) (cancel wr w : Option Nat) (hw : wrWrite wr = some w) (f : UInt64)
    (hp : f &&& Gen.CaProtocolPullChunks ≠ 0) (ms : List Message) (hsz : ∀ m ∈ ms, 16 + m.body.length < 2^64)
    (tail : Bytes) :
    ∃ more, (serverRun E cancel wr (wire (helloMsg f :: ms) ++ tail)).sent =
      helloMsg Gen.CaProtocolReadableStore :: (serveMsgs E cancel w ms).1 ++ more := by
  rw [serverRun_eq]
  have hin : wire (helloMsg f :: ms) ++ tail = writeMessage (helloMsg f) ++ (wire ms ++ tail) := by simp
  rw [hin, recvHello_wire, hw]
  simp only [if_neg hp]
  have hfuel : ms.length < (wire ms ++ tail).length + 1 := by
    have := wire_length_ge ms
    simp only [List.length_append]; omega
  obtain ⟨h1, h2⟩ := serveLoop_wire E ms hsz tail (0 + 16) _ cancel w hfuel
  cases hr : serveMsgs E cancel w ms with
  | mk sent x =>
    obtain ⟨rem, oe⟩ := x
    cases oe with
    | some e => exact ⟨[], by rw [(h1 sent rem e hr).1]; simp⟩
    | none =>
      refine ⟨(serveLoop E true ((wire ms ++ tail).length + 1 - ms.length) (cancel.map (· - ms.length))
        (w.map (· - sent.length)) ⟨tail, 0 + 16 + allocOf ms⟩).1, ?_⟩
      rw [h2 sent rem hr]; simp

/-! ### lock step -/

theorem lockstep_dead (E : Env) : ∀ ids : List Bytes, lockstep E ids false = ids.map fun _ => CRes.fail (.read .eof) := by
  intro ids
  induction ids with
  | nil => rfl
  | cons id ids ih => simp [lockstep, ih]

/-- **the session over whole streams and the session in lock step give the same results** -/
theorem session_lockstep (E : Env) (hz : ZstdOk E) (ids : List Bytes) (hid : ∀ id ∈ ids, id.length = 32) :
    (session E ids).client.results = lockstep E ids true := by
  rw [(session_eq E hz ids hid).2.1]
  induction ids with
  | nil => rfl
  | cons id ids ih =>
    have hid0 := hid id List.mem_cons_self
    have ih := ih (fun x hx => hid x (List.mem_cons_of_mem _ hx))
    obtain ⟨hv1, hv2⟩ := replyOf_verdict E hz id hid0
    have hb : (reqMsg id).body = le64 Gen.CaProtocolRequestHighPriority ++ id := by
      simp [reqMsg, requestMessage, fit32_of_length hid0]
    have hl : 40 ≤ (reqMsg id).body.length := by simp [hb, hid0]
    have hq : reqId (reqMsg id).body = id := by
      unfold reqId
      rw [List.take_of_length_le (by simp [hb, hid0]), hb, List.drop_left' (by simp)]
    simp only [lockstep, mkRequest_eq]
    cases hr : replyOf E id with
    | error e =>
      have ha : arm E true none (reqMsg id) = .stop e := by
        unfold arm
        rw [if_pos (show (reqMsg id).typ = Gen.CaProtocolRequest from rfl), serveRequest_eq E none _ hl, hq, hr]
      change expected E (id :: ids) = match arm E true none (reqMsg id) with
        | .stop _ => CRes.fail (.read .eof) :: lockstep E ids false
        | .next sent _ => (clientReply E.H E.z.dec id ⟨wire sent, 0⟩).1 :: lockstep E ids true
      rw [ha, expected_none E id ids (hv1 e hr), lockstep_dead]
      rfl
    | ok r =>
      obtain ⟨v, hv, hc⟩ := hv2 r hr
      have ha := arm_answered (wr := none) (reqMsg_isReply hid0 hr) rfl
      change expected E (id :: ids) = match arm E true none (reqMsg id) with
        | .stop _ => CRes.fail (.read .eof) :: lockstep E ids false
        | .next sent _ => (clientReply E.H E.z.dec id ⟨wire sent, 0⟩).1 :: lockstep E ids true
      rw [ha]
      have := hc [] 0
      simp only [List.append_nil] at this
      simp only [wire_cons, wire_nil, List.append_nil, this, expected, hv, ih]

/-- a chunk reply that carries no storage bytes is refused (`ChunkInvalid`), whatever the id: that
    is what becomes of an object that decodes to no data, because `Compress` of nothing is nothing -/
theorem empty_reply_refused (H : Bytes → Bytes) (dec : Bytes → Option Bytes) (id label rest : Bytes) (f : UInt64)
    (a : Nat) (hl : label.length = 32) :
    (clientReply H dec id ⟨writeMessage (chunkMessage label f []) ++ rest, a⟩).1 = .fail .invalid := by
  unfold clientReply
  rw [readMessage_writeMessage _ rest a (by simp [chunkMessage, hl])]
  have hne : Gen.CaProtocolChunk ≠ Gen.CaProtocolMissing := by decide
  have h40 : ¬ (le64 f ++ label ++ ([] : Bytes)).length < 40 := by simp [hl]
  have hd : (le64 f ++ label ++ ([] : Bytes)).drop 40 = [] := List.drop_of_length_le (by simp [hl])
  simp only [chunkMessage, hne, ↓reduceIte, h40, sliceFrom, hd,
    (C03.undecodable_is_refused H dec id [] [.compressor]).2 rfl]

end Desync.PS
