/-
  Proofs about Model/MountState.lean: with the order "data first, done bit second" the state file never claims a chunk
  the cache file does not hold, whatever the interleaving of loads, saves, kills and restarts (process death only).
-/
import Desync.Model.MountState

namespace Desync.MountState

theorem blank_not_true (n i : Nat) : (blank n)[i]? = some true → False := by
  unfold blank
  rw [List.getElem?_replicate]
  split <;> simp

theorem blank_length (n : Nat) : (blank n).length = n := by simp [blank]

theorem nil_not_true (i : Nat) : ([] : List Bool)[i]? = some true → False := by simp

theorem lt_of_getElem?_some {l : List Bool} {i : Nat} {b : Bool} (h : l[i]? = some b) : i < l.length := by
  apply Classical.byContradiction
  intro hc
  have : l[i]? = none := List.getElem?_eq_none (by omega)
  rw [this] at h
  cases h

theorem set_true_mono (l : List Bool) (i j : Nat) (h : l[j]? = some true) : (l.set i true)[j]? = some true := by
  by_cases hij : i = j
  · subst hij
    exact List.getElem?_set_self (lt_of_getElem?_some h)
  · rw [List.getElem?_set_ne hij]; exact h

theorem take_true (l : List Bool) (k i : Nat) (h : (l.take k)[i]? = some true) : l[i]? = some true := by
  rw [List.getElem?_take] at h
  split at h
  · exact h
  · cases h

/-- invariant -/
structure Inv (s : St) : Prop where
  popLen : s.pop.length = s.n
  disk : DiskOK s
  proc : ∀ p, s.proc = some p →
    (p.phase ≠ .running → p.done = blank s.n ∧ p.written = []) ∧
    (p.phase = .initC → s.state = some (blank s.n)) ∧
    (p.phase = .running → s.sizeOK = true ∧
      (∀ i : Nat, p.done[i]? = some true → s.pop[i]? = some true) ∧ (∀ i ∈ p.written, s.pop[i]? = some true))

theorem inv_init (n : Nat) (leftover : Option (List Bool)) : Inv (St.init n leftover) := by
  refine ⟨?_, ?_, ?_⟩
  · simp [St.init, blank]
  · intro h; simp [St.init] at h
  · intro p hp; simp [St.init] at hp

theorem inv_step (s s' : St) (e : Ev) (hne : e.isPowerLoss = false) (hi : Inv s)
    (h : step .writeThenMark s e = some s') : Inv s' ∧ s'.n = s.n := by
  obtain ⟨n, sizeOK, pop, state, proc⟩ := s
  obtain ⟨hlen, hdisk, hproc⟩ := hi
  simp only at hlen hproc
  simp only [DiskOK] at hdisk
  cases e with
  | start =>
    simp only [step] at h
    cases proc with
    | some p => simp at h
    | none =>
      simp only at h
      cases state with
      | none =>
        simp only at h
        cases h
        refine ⟨⟨hlen, ?_, ?_⟩, rfl⟩
        · intro _ st hst; cases hst
        · intro p hp; cases hp
          refine ⟨fun _ => ⟨rfl, rfl⟩, ?_, ?_⟩
          · intro hc; cases hc
          · intro hc; cases hc
      | some st =>
        simp only at h
        split at h
        · rename_i hc
          cases h
          simp only [Bool.and_eq_true, beq_iff_eq] at hc
          refine ⟨⟨hlen, hdisk, ?_⟩, rfl⟩
          intro p hp; cases hp
          refine ⟨fun hc' => absurd rfl hc', ?_, ?_⟩
          · intro hc'; cases hc'
          · intro _
            refine ⟨hc.1, ?_, ?_⟩
            · intro i hi; exact hdisk hc.1 st rfl hc.2 i hi
            · intro i hi; cases hi
        · cases h
          refine ⟨⟨hlen, hdisk, ?_⟩, rfl⟩
          intro p hp; cases hp
          refine ⟨fun _ => ⟨rfl, rfl⟩, ?_, ?_⟩
          · intro hc; cases hc
          · intro hc; cases hc
  | initCreate =>
    simp only [step] at h
    cases proc with
    | none => simp at h
    | some p =>
      simp only at h
      split at h
      · rename_i hph
        cases h
        have hp := hproc p rfl
        refine ⟨⟨hlen, ?_, ?_⟩, rfl⟩
        · intro _ st hst _ i hi
          cases hst
          exact (nil_not_true i hi).elim
        · intro p' hp'; cases hp'
          refine ⟨fun _ => hp.1 (by rw [hph]; intro hc; cases hc), ?_, ?_⟩
          · intro hc; cases hc
          · intro hc; cases hc
      · cases h
  | initWrite =>
    simp only [step] at h
    cases proc with
    | none => simp at h
    | some p =>
      simp only at h
      split at h
      · rename_i hph
        cases h
        have hp := hproc p rfl
        refine ⟨⟨hlen, ?_, ?_⟩, rfl⟩
        · intro _ st hst _ i hi
          cases hst
          exact (blank_not_true _ i hi).elim
        · intro p' hp'; cases hp'
          refine ⟨fun _ => hp.1 (by rw [hph]; intro hc; cases hc), fun _ => rfl, ?_⟩
          · intro hc; cases hc
      · cases h
  | initTruncate =>
    simp only [step] at h
    cases proc with
    | none => simp at h
    | some p =>
      simp only at h
      split at h
      · rename_i hph
        cases h
        have hp := hproc p rfl
        have hst := hp.2.1 hph
        have hdw := hp.1 (by rw [hph]; intro hc; cases hc)
        refine ⟨⟨?_, ?_, ?_⟩, rfl⟩
        · show (if sizeOK = true then pop else blank n).length = n
          split
          · exact hlen
          · exact blank_length n
        · intro _ st hst' _ i hi
          simp only at hst'
          rw [hst] at hst'
          cases hst'
          exact (blank_not_true _ i hi).elim
        · intro p' hp'; cases hp'
          refine ⟨fun hc => absurd rfl hc, ?_, ?_⟩
          · intro hc; cases hc
          · intro _
            refine ⟨rfl, ?_, ?_⟩
            · intro i hi
              simp only at hi
              rw [hdw.1] at hi
              exact (blank_not_true _ i hi).elim
            · intro i hi
              simp only at hi
              rw [hdw.2] at hi
              cases hi
      · cases h
  | writeChunk i full =>
    simp only [step] at h
    cases proc with
    | none => simp at h
    | some p =>
      simp only at h
      split at h
      · rename_i hph
        cases h
        have hp := hproc p rfl
        have hr := hp.2.2 hph.1
        cases full with
        | false =>
          refine ⟨⟨hlen, hdisk, ?_⟩, rfl⟩
          intro p' hp'; cases hp'
          refine ⟨fun hc => absurd hph.1 hc, ?_, ?_⟩
          · intro hc; simp only at hc; rw [hph.1] at hc; cases hc
          · intro _
            exact hr
        | true =>
          refine ⟨⟨?_, ?_, ?_⟩, rfl⟩
          · show (pop.set i true).length = n
            rw [List.length_set]; exact hlen
          · intro hs st hst hl j hj
            exact set_true_mono _ _ _ (hdisk hs st hst hl j hj)
          · intro p' hp'; cases hp'
            refine ⟨fun hc => absurd hph.1 hc, ?_, ?_⟩
            · intro hc; simp only at hc; rw [hph.1] at hc; cases hc
            · intro _
              refine ⟨hr.1, ?_, ?_⟩
              · intro j hj
                exact set_true_mono _ _ _ (hr.2.1 j hj)
              · intro j hj
                simp only [if_true, List.mem_cons] at hj
                show (pop.set i true)[j]? = some true
                cases hj with
                | inl hji =>
                  subst hji
                  exact List.getElem?_set_self (by rw [hlen]; exact hph.2)
                | inr hjw => exact set_true_mono _ _ _ (hr.2.2 j hjw)
      · cases h
  | mark i =>
    simp only [step] at h
    cases proc with
    | none => simp at h
    | some p =>
      simp only at h
      split at h
      · rename_i hph
        split at h
        · rename_i hiw
          cases h
          have hp := hproc p rfl
          have hr := hp.2.2 hph.1
          refine ⟨⟨hlen, hdisk, ?_⟩, rfl⟩
          intro p' hp'; cases hp'
          refine ⟨fun hc => absurd hph.1 hc, ?_, ?_⟩
          · intro hc; simp only at hc; rw [hph.1] at hc; cases hc
          · intro _
            refine ⟨hr.1, ?_, ?_⟩
            · intro j hj
              simp only at hj
              by_cases hij : i = j
              · subst hij; exact hr.2.2 i hiw
              · rw [List.getElem?_set_ne hij] at hj
                exact hr.2.1 j hj
            · intro j hj
              exact hr.2.2 j (List.mem_of_mem_erase hj)
        · cases h
      · cases h
  | saveCreate =>
    simp only [step] at h
    cases proc with
    | none => simp at h
    | some p =>
      simp only at h
      split at h
      · rename_i hph
        cases h
        have hp := hproc p rfl
        refine ⟨⟨hlen, ?_, ?_⟩, rfl⟩
        · intro _ st hst _ i hi
          cases hst
          exact (nil_not_true i hi).elim
        · intro p' hp'; cases hp'
          refine ⟨fun hc => absurd hph hc, ?_, ?_⟩
          · intro hc; simp only at hc; rw [hph] at hc; cases hc
          · intro _; exact hp.2.2 hph
      · cases h
  | saveWrite k =>
    simp only [step] at h
    cases proc with
    | none => simp at h
    | some p =>
      simp only at h
      split at h
      · rename_i hph
        cases h
        have hp := hproc p rfl
        have hr := hp.2.2 hph.1
        refine ⟨⟨hlen, ?_, ?_⟩, rfl⟩
        · intro _ st hst _ i hi
          cases hst
          exact hr.2.1 i (take_true _ _ _ hi)
        · intro p' hp'; cases hp'
          refine ⟨fun hc => absurd hph.1 hc, ?_, ?_⟩
          · intro hc; simp only at hc; rw [hph.1] at hc; cases hc
          · intro _; exact hr
      · cases h
  | kill =>
    simp only [step] at h
    cases proc with
    | none => simp at h
    | some p =>
      simp only at h
      cases h
      refine ⟨⟨hlen, hdisk, ?_⟩, rfl⟩
      intro p' hp'; cases hp'
  | extern resize dropState =>
    simp only [step] at h
    cases proc with
    | some p => simp at h
    | none =>
      simp only at h
      cases h
      refine ⟨⟨?_, ?_, ?_⟩, rfl⟩
      · show (if resize = true then blank n else pop).length = n
        split
        · exact blank_length n
        · exact hlen
      · cases resize with
        | true =>
          intro hc; simp at hc
        | false =>
          intro hs st hst hl i hi
          simp only [Bool.false_eq_true, if_false] at hs hst ⊢
          cases dropState with
          | true => simp at hst
          | false =>
            simp only [Bool.false_eq_true, if_false] at hst
            exact hdisk hs st hst hl i hi
      · intro p' hp'; cases hp'
  | powerLoss i => simp [Ev.isPowerLoss] at hne

theorem inv_run (s s' : St) (es : List Ev) (hne : ∀ e ∈ es, e.isPowerLoss = false) (hi : Inv s)
    (h : run .writeThenMark s es = some s') : Inv s' ∧ s'.n = s.n := by
  induction es generalizing s with
  | nil =>
    simp only [run] at h
    cases h
    exact ⟨hi, rfl⟩
  | cons e es ih =>
    simp only [run] at h
    cases hst : step .writeThenMark s e with
    | none => rw [hst] at h; cases h
    | some s1 =>
      rw [hst] at h
      simp only at h
      have h1 := inv_step s s1 e (hne e (List.mem_cons_self ..)) hi hst
      have h2 := ih s1 (fun e' he' => hne e' (List.mem_cons_of_mem _ he')) h1.1 h
      exact ⟨h2.1, h2.2.trans h1.2⟩

/-- the state on disk never claims a chunk the cache file does not hold: for every sequence of steps with kills anywhere -/
theorem disk_never_ahead (n : Nat) (leftover : Option (List Bool)) (es : List Ev)
    (hne : ∀ e ∈ es, e.isPowerLoss = false) (s : St)
    (h : run .writeThenMark (St.init n leftover) es = some s) : DiskOK s :=
  (inv_run _ _ es hne (inv_init n leftover) h).1.disk

/-- a session that is serving reads has a bitmap that claims only what the cache file holds -/
theorem running_done_populated (n : Nat) (leftover : Option (List Bool)) (es : List Ev)
    (hne : ∀ e ∈ es, e.isPowerLoss = false) (s : St) (p : Proc)
    (h : run .writeThenMark (St.init n leftover) es = some s) (hp : s.proc = some p) (hr : p.phase = .running) :
    s.sizeOK = true ∧ ∀ i : Nat, p.done[i]? = some true → s.pop[i]? = some true := by
  have hi := (inv_run _ _ es hne (inv_init n leftover) h).1
  have := (hi.proc p hp).2.2 hr
  exact ⟨this.1, this.2.1⟩

/-- the mutant order (done bit before the data): set bit, save state, die before the write -/
theorem mark_before_write_violates :
    ∃ s, run .markThenWrite (St.init 1 none) [.start, .initCreate, .initWrite, .initTruncate, .mark 0, .saveCreate, .saveWrite 1, .kill] = some s ∧
      s.sizeOK = true ∧ s.state = some [true] ∧ s.pop = [false] :=
  ⟨_, rfl, rfl, rfl, rfl⟩

/-- power loss is outside the theorem: nothing is synced -/
theorem power_loss_violates :
    ∃ s, run .writeThenMark (St.init 1 none) [.start, .initCreate, .initWrite, .initTruncate, .writeChunk 0 true, .mark 0, .saveCreate, .saveWrite 1, .kill, .powerLoss 0] = some s ∧
      s.sizeOK = true ∧ s.state = some [true] ∧ s.pop = [false] :=
  ⟨_, rfl, rfl, rfl, rfl⟩

/-- non-vacuity: a history with a kill in the middle of a state save and a restart that re-initialises -/
theorem example_history :
    ∃ s, run .writeThenMark (St.init 2 (some [true, true])) [.start, .initCreate, .initWrite, .initTruncate, .writeChunk 1 true, .mark 1, .saveCreate, .kill, .start, .initCreate, .initWrite, .initTruncate, .writeChunk 0 false, .kill, .start] = some s ∧
      s.state = some [false, false] ∧ s.pop = [false, true] :=
  ⟨_, rfl, rfl, rfl⟩

end Desync.MountState
