/-
  Safety and progress of the worker pool with `ChunkStorage.StoreChunk` jobs (`Desync.PoolCS`).
-/
import Desync.Model.PoolCS

namespace Desync.PoolCS

/-- chunk ID `x` is accounted for: it is in the store (seen or written), a worker is still
between `markProcessed` and the end of `StoreChunk` for it, or the group has failed -/
def Cov (s : St) (x : Nat) : Prop :=
  s.groupErr = true ∨ x ∈ s.had ∨ x ∈ s.stored ∨
    ∃ (w j : Nat) (ph : Phase), s.workers[w]? = some (W.busy j ph) ∧ s.ids.getD j 0 = x ∧ ph ≠ Phase.start

/-- the inductive invariant -/
structure Inv (ids : List Nat) (n : Nat) (s : St) : Prop where
  ids_eq : s.ids = ids
  wlen : s.workers.length = n
  next_le : s.next ≤ ids.length
  cover : ∀ j, j < s.next →
    j ∈ s.doneOK ∨ (∃ (w : Nat) (ph : Phase), s.workers[w]? = some (W.busy j ph)) ∨ s.groupErr = true
  done_cov : ∀ j, j ∈ s.doneOK → Cov s (s.ids.getD j 0)
  proc_cov : ∀ x, x ∈ s.processed → Cov s x
  closed : s.feederClosed = true → s.next = ids.length ∨ s.broke = true
  exited : ∀ w : Nat, s.workers[w]? = some W.exited → s.feederClosed = true ∨ s.groupErr = true
  res : ∀ r, s.result = some r → s.feederClosed = true ∧
    (∀ (w : Nat) (x : W), s.workers[w]? = some x → x = W.exited) ∧
      r = (if s.groupErr then Res.err else if s.broke then Res.interrupted else Res.ok)

theorem inv_init (ids : List Nat) (n : Nat) : Inv ids n (St.init ids n) := by
  constructor <;> simp [St.init, List.getElem?_replicate]

theorem all_exited_iff (ws : List W) :
    ws.all (· == W.exited) = true ↔ ∀ (w : Nat) (x : W), ws[w]? = some x → x = W.exited := by
  simp only [List.all_eq_true, beq_iff_eq]
  constructor
  · intro h w x hx
    exact h x (List.mem_iff_getElem?.2 ⟨w, hx⟩)
  · intro h x hx
    obtain ⟨w, hw⟩ := List.mem_iff_getElem?.1 hx
    exact h w x hw

theorem ids_step {s s' : St} (e : Ev) (h : step s e = some s') : s'.ids = s.ids := by
  cases e <;> simp only [step] at h <;> (repeat' split at h) <;> cases h <;> rfl

/-- no step un-accounts a chunk ID -/
theorem cov_step {s s' : St} (e : Ev) (h : step s e = some s') (x : Nat) (hc : Cov s x) :
    Cov s' x := by
  rcases hc with hc | hc | hc | ⟨w', j', ph', hw', hj', hph'⟩
  · left
    cases e <;> simp only [step] at h <;> (repeat' split at h) <;> cases h <;> first | exact hc | rfl
  · right; left
    cases e <;> simp only [step] at h <;> (repeat' split at h) <;> cases h <;>
      first | exact hc | exact List.mem_cons_of_mem _ hc
  · right; right; left
    cases e <;> simp only [step] at h <;> (repeat' split at h) <;> cases h <;>
      first | exact hc | exact List.mem_cons_of_mem _ hc
  · by_cases hk : s'.workers[w']? = some (W.busy j' ph')
    · exact .inr (.inr (.inr ⟨w', j', ph', hk, by rw [ids_step e h]; exact hj', hph'⟩))
    · cases e with
      | hasFalse w =>
        simp only [step] at h
        split at h <;> cases h
        rename_i j hw
        have hww : w = w' := by grind
        subst hww
        have hwl : w < s.workers.length := by grind
        refine .inr (.inr (.inr ⟨w, j, .storing, by simp [hwl], ?_, by simp⟩))
        grind
      | _ =>
        simp only [step] at h
        (repeat' split at h) <;> cases h <;> (simp only [Cov, idOf] at *; grind)

theorem inv_step {ids : List Nat} {n : Nat} {s s' : St} (e : Ev) (hi : Inv ids n s)
    (h : step s e = some s') : Inv ids n s' := by
  have hcov := cov_step e h
  have hids := ids_step e h
  obtain ⟨h1, h2, h3, h4, h5, h6, h7, h8, h9⟩ := hi
  cases e with
  | feedSend w =>
    simp only [step] at h
    split at h <;> cases h
    rename_i hc
    constructor <;> first | done | grind [all_exited_iff] | skip
    -- cover
    intro j hj
    by_cases hlt : j < s.next
    · rcases h4 j hlt with h | ⟨w', ph', hw'⟩ | h
      · exact .inl h
      · exact .inr (.inl ⟨w', ph', by grind⟩)
      · exact .inr (.inr h)
    · exact .inr (.inl ⟨w, .start, by grind⟩)
  | mark w =>
    simp only [step] at h
    split at h <;> try cases h
    rename_i j₀ hw
    split at h <;> cases h
    · rename_i hp
      constructor <;> first | done | grind [all_exited_iff] | skip
      · -- cover
        intro j hj
        by_cases hjj : j = j₀
        · exact .inl (by grind)
        · rcases h4 j hj with h | ⟨w', ph', hw'⟩ | h
          · exact .inl (by grind)
          · exact .inr (.inl ⟨w', ph', by grind⟩)
          · exact .inr (.inr h)
      · -- done_cov
        intro j hj
        simp only [List.mem_cons] at hj
        rcases hj with rfl | hj
        · exact hcov _ (h6 _ (by simpa [idOf] using hp))
        · exact hcov _ (h5 j hj)
    · rename_i hp
      constructor <;> first | done | grind [all_exited_iff] | skip
      · -- cover
        intro j hj
        by_cases hjj : j = j₀
        · exact .inr (.inl ⟨w, .marked, by grind⟩)
        · rcases h4 j hj with h | ⟨w', ph', hw'⟩ | h
          · exact .inl h
          · exact .inr (.inl ⟨w', ph', by grind⟩)
          · exact .inr (.inr h)
      · -- proc_cov
        intro x hx
        simp only [List.mem_cons] at hx
        rcases hx with rfl | hx
        · exact .inr (.inr (.inr ⟨w, j₀, .marked, by grind, rfl, by simp⟩))
        · exact hcov _ (h6 x hx)
  | hasTrue w =>
    simp only [step] at h
    split at h <;> cases h
    rename_i j₀ hw
    constructor <;> first | done | grind [all_exited_iff] | skip
    · -- cover
      intro j hj
      by_cases hjj : j = j₀
      · exact .inl (by grind)
      · rcases h4 j hj with h | ⟨w', ph', hw'⟩ | h
        · exact .inl (by grind)
        · exact .inr (.inl ⟨w', ph', by grind⟩)
        · exact .inr (.inr h)
    · -- done_cov
      intro j hj
      simp only [List.mem_cons] at hj
      rcases hj with rfl | hj
      · exact .inr (.inl (by simp [idOf]))
      · exact hcov _ (h5 j hj)
  | hasFalse w =>
    simp only [step] at h
    split at h <;> cases h
    rename_i j₀ hw
    constructor <;> first | done | grind [all_exited_iff] | skip
    -- cover
    intro j hj
    by_cases hjj : j = j₀
    · exact .inr (.inl ⟨w, .storing, by grind⟩)
    · rcases h4 j hj with h | ⟨w', ph', hw'⟩ | h
      · exact .inl h
      · exact .inr (.inl ⟨w', ph', by grind⟩)
      · exact .inr (.inr h)
  | storeOk w =>
    simp only [step] at h
    split at h <;> cases h
    rename_i j₀ hw
    constructor <;> first | done | grind [all_exited_iff] | skip
    · -- cover
      intro j hj
      by_cases hjj : j = j₀
      · exact .inl (by grind)
      · rcases h4 j hj with h | ⟨w', ph', hw'⟩ | h
        · exact .inl (by grind)
        · exact .inr (.inl ⟨w', ph', by grind⟩)
        · exact .inr (.inr h)
    · -- done_cov
      intro j hj
      simp only [List.mem_cons] at hj
      rcases hj with rfl | hj
      · exact .inr (.inr (.inl (by simp [idOf])))
      · exact hcov _ (h5 j hj)
  | workExit w =>
    simp only [step] at h
    split at h <;> cases h
    rename_i hc
    constructor <;> first | done | grind [all_exited_iff] | skip
    intro j hj
    rcases h4 j hj with h | ⟨w', ph', hw'⟩ | h
    · exact .inl h
    · exact .inr (.inl ⟨w', ph', by grind⟩)
    · exact .inr (.inr h)
  | _ =>
    simp only [step] at h
    split at h <;> cases h
    constructor <;> grind [all_exited_iff]

theorem inv_reachable {ids : List Nat} {n : Nat} {s : St}
    (h : Reachable (St.init ids n) s) : Inv ids n s := by
  induction h with
  | refl => exact inv_init ids n
  | step e _ hs ih => exact inv_step e ih hs

/-- any failing store call observed by a worker makes the result an error -/
theorem failure_is_reported (ids : List Nat) (n : Nat) (s : St)
    (h : Reachable (St.init ids n) s) (hr : s.result = some .ok) : s.groupErr = false := by
  have hi := inv_reachable h
  obtain ⟨_, _, hres⟩ := hi.res _ hr
  cases hg : s.groupErr
  · rfl
  · simp [hg] at hres

/-- the feeder cannot have stopped early when the result is `ok` -/
theorem success_implies_all_fed (ids : List Nat) (n : Nat) (s : St)
    (h : Reachable (St.init ids n) s) (hr : s.result = some .ok) : s.next = ids.length := by
  have hi := inv_reachable h
  have hg := failure_is_reported ids n s h hr
  obtain ⟨hcl, _, hres⟩ := hi.res _ hr
  rcases hi.closed hcl with h | h
  · exact h
  · simp [hg, h] at hres

/-- **bulk writes are complete when they report success**: for every schedule, worker count, fault
pattern and job list with duplicates: result ok ⇒ every job's chunk ID was seen in the store
(`HasChunk` true) or stored successfully -/
theorem success_implies_all_stored (ids : List Nat) (n : Nat) (s : St)
    (h : Reachable (St.init ids n) s) (hr : s.result = some .ok) :
    ∀ j, j < ids.length → idOf s j ∈ s.had ∨ idOf s j ∈ s.stored := by
  have hi := inv_reachable h
  have hg := failure_is_reported ids n s h hr
  have hnext := success_implies_all_fed ids n s h hr
  obtain ⟨_, hall, _⟩ := hi.res _ hr
  intro j hj
  have hdone : j ∈ s.doneOK := by
    rcases hi.cover j (by omega) with h | ⟨w, ph, hw⟩ | h
    · exact h
    · cases hall w _ hw
    · simp [hg] at h
  rcases hi.done_cov j hdone with h | h | h | ⟨w, j', ph, hw, _, _⟩
  · simp [hg] at h
  · exact .inl h
  · exact .inr h
  · cases hall w _ hw

theorem exists_not_exited (ws : List W) (h : ¬ ws.all (· == W.exited) = true) :
    ∃ (w : Nat) (x : W), ws[w]? = some x ∧ x ≠ W.exited := by
  simp only [List.all_eq_true, beq_iff_eq] at h
  have ⟨x, hx, hne⟩ : ∃ x, x ∈ ws ∧ x ≠ W.exited := by
    apply Classical.byContradiction
    intro hcon
    apply h
    intro x hx
    apply Classical.byContradiction
    intro hne
    exact hcon ⟨x, hx, hne⟩
  obtain ⟨w, hw⟩ := List.mem_iff_getElem?.1 hx
  exact ⟨w, x, hw, hne⟩

theorem enabled_of_isSome {s : St} (e : Ev) (hne : e ≠ Ev.parentCancel) (h : (step s e).isSome = true) :
    ∃ e s', e ≠ Ev.parentCancel ∧ step s e = some s' := by
  obtain ⟨s', hs'⟩ := Option.isSome_iff_exists.1 h
  exact ⟨e, s', hne, hs'⟩

/-- a busy worker can always take its next step -/
theorem busy_enabled {s : St} {w j : Nat} {ph : Phase} (hw : s.workers[w]? = some (W.busy j ph)) :
    ∃ e s', e ≠ Ev.parentCancel ∧ step s e = some s' := by
  cases ph with
  | start =>
    by_cases hp : s.processed.contains (idOf s j) = true
    · exact enabled_of_isSome (.mark w) (by simp) (by simp only [step, hw, if_pos hp]; rfl)
    · exact enabled_of_isSome (.mark w) (by simp) (by simp only [step, hw, if_neg hp]; rfl)
  | marked => exact enabled_of_isSome (.hasTrue w) (by simp) (by simp only [step, hw]; rfl)
  | storing => exact enabled_of_isSome (.storeOk w) (by simp) (by simp only [step, hw]; rfl)

/-- no deadlock: in every reachable state without a result some event other than a cancellation of
the parent context is enabled (for at least one worker) -/
theorem no_deadlock (ids : List Nat) (n : Nat) (s : St) (hn : 1 ≤ n)
    (h : Reachable (St.init ids n) s) (hr : s.result = none) :
    ∃ e s', e ≠ Ev.parentCancel ∧ step s e = some s' := by
  have hi := inv_reachable h
  cases hcl : s.feederClosed
  · by_cases hnext : s.next = s.ids.length
    · exact enabled_of_isSome .feedEnd (by simp) (by simp [step, hcl, hnext])
    · have hlt : s.next < s.ids.length := by have := hi.next_le; have := hi.ids_eq; grind
      by_cases hc : s.groupErr = true ∨ s.parentCancelled = true
      · exact enabled_of_isSome .feedBreak (by simp) (by simp [step, hcl, hlt, hc])
      · have h0 : 0 < s.workers.length := by have := hi.wlen; omega
        have hw0 : s.workers[0]? = some s.workers[0] := List.getElem?_eq_getElem h0
        cases hx : s.workers[0] with
        | idle =>
          rw [hx] at hw0
          exact enabled_of_isSome (.feedSend 0) (by simp) (by simp [step, hcl, hlt, hw0])
        | busy j ph =>
          rw [hx] at hw0
          exact busy_enabled hw0
        | exited =>
          rw [hx] at hw0
          rcases hi.exited 0 hw0 with h | h
          · simp [hcl] at h
          · exact absurd (.inl h) hc
  · by_cases hall : s.workers.all (· == W.exited) = true
    · exact enabled_of_isSome .wait (by simp) (by simp only [step]; rw [if_pos ⟨hcl, by simp [hr], hall⟩]; rfl)
    · obtain ⟨w, x, hw, hne⟩ := exists_not_exited _ hall
      cases x with
      | idle => exact enabled_of_isSome (.workExit w) (by simp) (by simp [step, hcl, hw])
      | busy j ph => exact busy_enabled hw
      | exited => exact absurd rfl hne

/-- the result is `Interrupted` only if the parent context was cancelled; without a cancellation and
without a failed store call the command succeeds -/
theorem broke_imp {ids : List Nat} {n : Nat} {s : St} (h : Reachable (St.init ids n) s) :
    s.broke = true → s.groupErr = true ∨ s.parentCancelled = true := by
  induction h with
  | refl => simp [St.init]
  | step e _ hs ih =>
    cases e <;> simp only [step] at hs <;> (repeat' split at hs) <;> cases hs <;> simp_all

theorem no_cancel_no_fault_success (ids : List Nat) (n : Nat) (s : St) (r : Res)
    (h : Reachable (St.init ids n) s) (hr : s.result = some r)
    (hc : s.parentCancelled = false) (he : s.groupErr = false) : r = .ok := by
  have hi := inv_reachable h
  obtain ⟨_, _, hres⟩ := hi.res _ hr
  cases hb : s.broke
  · simpa [he, hb] using hres
  · rcases broke_imp h hb with h | h
    · simp [he] at h
    · simp [hc] at h

end Desync.PoolCS
