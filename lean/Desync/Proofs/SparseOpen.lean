/-
  Sparse-file proofs (C09), part 2: restart (`SparseSt.open` = `NewSparseFile`), histories of
  reads and restarts, and the stale-state counterexample.
-/
import Desync.Proofs.SparseProofs

namespace Desync

/-! ### `open`, decomposed -/

/-- is the saved state accepted? (cache file has the index's length, bitmap has one flag per chunk) -/
def stateOK (chunks : List RChunk) (length : Nat) (file : Bytes) (state : Option (List Bool)) : Bool :=
  match state with
  | some st => decide (file.length = length) && decide (st.length = chunks.length)
  | none => false

/-- `Truncate(length)`: cut, or extend with zeros -/
def resize (file : Bytes) (length : Nat) : Bytes :=
  if file.length ≥ length then file.take length else file ++ List.replicate (length - file.length) 0

/-- the state after a reset: old file content resized, no chunk done -/
def resetSt (chunks : List RChunk) (nullID length : Nat) (file : Bytes) (calls : Nat) : SparseSt :=
  { chunks, nullID, length, done := List.replicate chunks.length false, file := resize file length, calls }

/-- the pre-load loop body -/
def preStep (fetch : Fetch) (st : List Bool) (s : SparseSt) (i : Nat) : SparseSt :=
  if st.getD i false then (s.loadChunk fetch i).2 else s

/-- pre-load from the state-init flags -/
def preload (fetch : Fetch) (s0 : SparseSt) (init : Option (List Bool)) : SparseSt :=
  match init with
  | none => s0
  | some st =>
    if st.length ≠ s0.chunks.length then s0
    else (List.range s0.chunks.length).foldl (preStep fetch st) s0

theorem open_eq (fetch : Fetch) (chunks : List RChunk) (nullID length : Nat) (file : Bytes)
    (state init : Option (List Bool)) (calls : Nat) :
    SparseSt.open fetch chunks nullID length file state init calls =
      if stateOK chunks length file state then
        { chunks, nullID, length, done := state.getD [], file, calls }
      else preload fetch (resetSt chunks nullID length file calls) init := by
  unfold SparseSt.open stateOK preload resetSt resize
  cases init <;> rfl

theorem resize_length (file : Bytes) (length : Nat) : (resize file length).length = length := by
  unfold resize
  split
  · simp only [List.length_take]; omega
  · simp only [List.length_append, List.length_replicate]; omega

theorem resize_getElem? (file : Bytes) {length p : Nat} (hp : p < length) :
    (resize file length)[p]? = if p < file.length then file[p]? else some 0 := by
  unfold resize
  split
  · rw [List.getElem?_take, if_pos hp, if_pos (by omega)]
  · by_cases h : p < file.length
    · rw [if_pos h, List.getElem?_append_left h]
    · rw [if_neg h, List.getElem?_append_right (by omega), List.getElem?_replicate,
        if_pos (by omega)]

/-! ### pre-load preserves the invariant -/

theorem preFold_inv {blob : Bytes} {fetch : Fetch} (st : List Bool) (l : List Nat) :
    ∀ {s : SparseSt}, SparseSetup blob s fetch → SparseInv blob s →
    SparseInv blob (l.foldl (preStep fetch st) s) ∧ SameIndex s (l.foldl (preStep fetch st) s) ∧
    DoneLe s.done (l.foldl (preStep fetch st) s).done := by
  induction l with
  | nil => intro s _ hi; exact ⟨hi, SameIndex.refl s, DoneLe.refl _⟩
  | cons i l ih =>
    intro s hs hi
    rw [List.foldl_cons]
    have h1 : SparseInv blob (preStep fetch st s i) ∧ SameIndex s (preStep fetch st s i) ∧
        DoneLe s.done (preStep fetch st s i).done := by
      unfold preStep
      split
      · obtain ⟨a1, a2, a3, _⟩ := loadChunk_inv hs hi i
        exact ⟨a1, a2, a3⟩
      · exact ⟨hi, SameIndex.refl s, DoneLe.refl _⟩
    obtain ⟨a1, a2, a3⟩ := h1
    obtain ⟨b1, b2, b3⟩ := ih (hs.of_same a2) a1
    exact ⟨b1, a2.trans b2, a3.trans b3⟩

/-- pre-loading (whatever the init flags, whatever fails) preserves invariant and index -/
theorem preload_inv {blob : Bytes} {fetch : Fetch} {s : SparseSt}
    (hs : SparseSetup blob s fetch) (hi : SparseInv blob s) (init : Option (List Bool)) :
    SparseInv blob (preload fetch s init) ∧ SameIndex s (preload fetch s init) ∧
    DoneLe s.done (preload fetch s init).done := by
  unfold preload
  cases init with
  | none => exact ⟨hi, SameIndex.refl s, DoneLe.refl _⟩
  | some st =>
    dsimp only
    split
    · exact ⟨hi, SameIndex.refl s, DoneLe.refl _⟩
    · exact preFold_inv st _ hs hi

/-! ### reset path: what the found cache file must satisfy -/

/-- the found file is zero wherever a null chunk lies (as far as the file reaches) -/
def NullZero (chunks : List RChunk) (nullID : Nat) (f : Bytes) : Prop :=
  ∀ c ∈ chunks, c.id = nullID → ∀ p, c.start ≤ p → p < c.start + c.size → p < f.length →
    f[p]? = some 0

theorem get_of_slice_zero {f : Bytes} {c : RChunk} (h : slice f c = List.replicate c.size 0)
    {p : Nat} (h1 : c.start ≤ p) (h2 : p < c.start + c.size) : f[p]? = some 0 := by
  have h3 := congrArg (·[p - c.start]?) h
  simp only [slice_getElem?, List.getElem?_replicate] at h3
  have e : c.start + (p - c.start) = p := by omega
  rw [if_pos (by omega), if_pos (by omega), e] at h3
  exact h3

/-- a reset (state absent or not accepted) yields a good state provided the found file is zero on
    the null chunks' ranges (necessary too: see `open_foreign_counterexample`) -/
theorem reset_inv {blob : Bytes} {s : SparseSt} {fetch : Fetch} (hs : SparseSetup blob s fetch)
    {file : Bytes} (hz : NullZero s.chunks s.nullID file) (calls : Nat) :
    SparseInv blob (resetSt s.chunks s.nullID s.length file calls) := by
  refine ⟨?_, ?_, ?_, ?_⟩
  · show (resize file s.length).length = blob.length
    rw [resize_length]; exact hs.len.1
  · show (List.replicate s.chunks.length false).length = s.chunks.length
    exact List.length_replicate
  · intro i c _ hd
    have hd' : (List.replicate s.chunks.length false)[i]? = some true := hd
    rw [List.getElem?_replicate] at hd'
    split at hd' <;> cases hd'
  · intro c hc hn
    show slice (resize file s.length) c = slice blob c
    obtain ⟨j, hj⟩ := List.getElem?_of_mem hc
    have hb := hs.chunk_bound hj
    have hzero := hs.null c hc hn
    apply slice_eq_of_get
    intro p h1 h2
    rw [get_of_slice_zero hzero h1 h2, resize_getElem? file (by rw [hs.len.1]; omega)]
    split
    · exact hz c hc hn p h1 h2 ‹_›
    · rfl

/-- **restart, reset path**: if the saved state is absent or not accepted, the new sparse file is
    good provided the found cache file is zero on the null chunks' ranges; any pre-load -/
theorem open_reset_inv {blob : Bytes} {s : SparseSt} {fetch : Fetch} (hs : SparseSetup blob s fetch)
    {file : Bytes} (hz : NullZero s.chunks s.nullID file) {state : Option (List Bool)}
    (hno : stateOK s.chunks s.length file state = false) (init : Option (List Bool)) (calls : Nat) :
    SparseInv blob (SparseSt.open fetch s.chunks s.nullID s.length file state init calls) ∧
    SameIndex s (SparseSt.open fetch s.chunks s.nullID s.length file state init calls) := by
  rw [open_eq, hno]
  have h0 : SameIndex s (resetSt s.chunks s.nullID s.length file calls) := ⟨rfl, rfl, rfl⟩
  obtain ⟨a1, a2, _⟩ := preload_inv (hs.of_same h0) (reset_inv hs hz calls) init
  exact ⟨a1, h0.trans a2⟩

/-- **fresh start**: no cache file (`k = 0`) or an all-zero one of any size, and no accepted state
    (in particular `state = none`): the new sparse file satisfies the invariant -/
theorem open_fresh_inv {blob : Bytes} {s : SparseSt} {fetch : Fetch} (hs : SparseSetup blob s fetch)
    (k : Nat) {state : Option (List Bool)}
    (hno : stateOK s.chunks s.length (List.replicate k 0) state = false)
    (init : Option (List Bool)) (calls : Nat) :
    SparseInv blob
      (SparseSt.open fetch s.chunks s.nullID s.length (List.replicate k 0) state init calls) ∧
    SameIndex s
      (SparseSt.open fetch s.chunks s.nullID s.length (List.replicate k 0) state init calls) := by
  apply open_reset_inv hs _ hno
  intro c _ _ p _ _ hp
  rw [List.length_replicate] at hp
  rw [List.getElem?_replicate, if_pos hp]

theorem open_fresh_inv_none {blob : Bytes} {s : SparseSt} {fetch : Fetch}
    (hs : SparseSetup blob s fetch) (k : Nat) (init : Option (List Bool)) (calls : Nat) :
    SparseInv blob
      (SparseSt.open fetch s.chunks s.nullID s.length (List.replicate k 0) none init calls) :=
  (open_fresh_inv hs k rfl init calls).1

/-! ### restart on the remains of an earlier session -/

/-- a file that was good, cut at `m` and zero-extended by `k`, is still zero on null ranges -/
theorem nullZero_of_previous {blob : Bytes} {s : SparseSt} {fetch : Fetch}
    (hs : SparseSetup blob s fetch) (hi : SparseInv blob s) (m k : Nat) :
    NullZero s.chunks s.nullID (s.file.take m ++ List.replicate k 0) := by
  intro c hc hn p h1 h2 hp
  have hz : slice s.file c = List.replicate c.size 0 := by
    rw [hi.2.2.2 c hc hn]; exact hs.null c hc hn
  have hpz := get_of_slice_zero hz h1 h2
  rw [List.length_append, List.length_replicate] at hp
  by_cases hlt : p < (s.file.take m).length
  · rw [List.getElem?_append_left hlt, List.getElem?_take]
    rw [List.length_take] at hlt
    rw [if_pos (by omega)]; exact hpz
  · rw [List.getElem?_append_right (by omega), List.getElem?_replicate, if_pos (by omega)]

/-- **restart**: the found cache file is the file of an earlier good state of the same index, cut
    anywhere and zero-extended by any amount; the saved state (if any) claims no more than that
    earlier state's flags (flags only grow, so any state saved before qualifies); and IF the state
    is accepted THEN the file was not cut below the index length (`hacc`; without it the theorem is
    false, see `open_stale_counterexample`).  Then the new sparse file is good, for any pre-load.
    `fetch` is the new session's store oracle. -/
theorem open_inv_from_previous {blob : Bytes} {sPrev : SparseSt} {fetch : Fetch}
    (hs : SparseSetup blob sPrev fetch) (hi : SparseInv blob sPrev) (m k : Nat)
    {state : Option (List Bool)} (hst : ∀ st, state = some st → DoneLe st sPrev.done)
    (hacc : stateOK sPrev.chunks sPrev.length (sPrev.file.take m ++ List.replicate k 0) state = true →
      sPrev.length ≤ m)
    (init : Option (List Bool)) (calls : Nat) :
    SparseInv blob (SparseSt.open fetch sPrev.chunks sPrev.nullID sPrev.length
      (sPrev.file.take m ++ List.replicate k 0) state init calls) ∧
    SameIndex sPrev (SparseSt.open fetch sPrev.chunks sPrev.nullID sPrev.length
      (sPrev.file.take m ++ List.replicate k 0) state init calls) := by
  cases hok : stateOK sPrev.chunks sPrev.length (sPrev.file.take m ++ List.replicate k 0) state with
  | false => exact open_reset_inv hs (nullZero_of_previous hs hi m k) hok init calls
  | true =>
    have hm := hacc hok
    rw [open_eq, hok, if_pos rfl]
    cases state with
    | none => simp [stateOK] at hok
    | some st =>
      simp only [stateOK, Bool.and_eq_true, decide_eq_true_eq, List.length_append,
        List.length_take, List.length_replicate] at hok
      have hfl : sPrev.file.length = sPrev.length := by rw [hi.1, hs.len.1]
      have hk : k = 0 := by omega
      have hfile : sPrev.file.take m ++ List.replicate k 0 = sPrev.file := by
        rw [hk, List.replicate_zero, List.append_nil, List.take_of_length_le (by omega)]
      rw [hfile]
      refine ⟨⟨hi.1, hok.2, ?_, hi.2.2.2⟩, ⟨rfl, rfl, rfl⟩⟩
      intro i c hc hd
      exact hi.2.2.1 i c hc (hst st rfl i hd)

/-- restart on the unmodified cache file of an earlier good state, with no state or any state saved
    before (flags ≤): good -/
theorem open_inv_same_file {blob : Bytes} {sPrev : SparseSt} {fetch : Fetch}
    (hs : SparseSetup blob sPrev fetch) (hi : SparseInv blob sPrev)
    {state : Option (List Bool)} (hst : ∀ st, state = some st → DoneLe st sPrev.done)
    (init : Option (List Bool)) (calls : Nat) :
    SparseInv blob (SparseSt.open fetch sPrev.chunks sPrev.nullID sPrev.length sPrev.file state
      init calls) ∧
    SameIndex sPrev (SparseSt.open fetch sPrev.chunks sPrev.nullID sPrev.length sPrev.file state
      init calls) := by
  have hfl : sPrev.file.length = sPrev.length := by rw [hi.1, hs.len.1]
  have h := open_inv_from_previous hs hi sPrev.length 0 hst (fun _ => Nat.le_refl _) init calls
  rw [List.replicate_zero, List.append_nil, List.take_of_length_le (by omega)] at h
  exact h

/-! ### arbitrary histories: reads (failing or not) and restarts -/

/-- one event in the life of a cache file: a read, or the end of the session followed by a restart
    on what is left of the file (cut at `m`, zero-extended by `k`) with a saved state that claims
    no more than the current flags, the file being intact if that state gets accepted -/
inductive SparseStep (fetch : Fetch) : SparseSt → SparseSt → Prop
  | read (s : SparseSt) (off n : Nat) : SparseStep fetch s (s.readAt fetch off n).2
  | restart (s : SparseSt) (m k : Nat) (state init : Option (List Bool)) (calls : Nat)
      (hst : ∀ st, state = some st → DoneLe st s.done)
      (hacc : stateOK s.chunks s.length (s.file.take m ++ List.replicate k 0) state = true →
        s.length ≤ m) :
      SparseStep fetch s (SparseSt.open fetch s.chunks s.nullID s.length
        (s.file.take m ++ List.replicate k 0) state init calls)

inductive SparseReach (fetch : Fetch) : SparseSt → SparseSt → Prop
  | refl (s : SparseSt) : SparseReach fetch s s
  | step {s t u : SparseSt} : SparseReach fetch s t → SparseStep fetch t u → SparseReach fetch s u

theorem step_inv {blob : Bytes} {fetch : Fetch} {s t : SparseSt} (hs : SparseSetup blob s fetch)
    (hi : SparseInv blob s) (h : SparseStep fetch s t) : SparseInv blob t ∧ SameIndex s t := by
  cases h with
  | read off n =>
    obtain ⟨a1, a2, _⟩ := readAt_inv hs hi off n
    exact ⟨a1, a2⟩
  | restart m k state init calls hst hacc =>
    exact open_inv_from_previous hs hi m k hst hacc init calls

theorem reach_inv {blob : Bytes} {fetch : Fetch} {s t : SparseSt} (hs : SparseSetup blob s fetch)
    (hi : SparseInv blob s) (h : SparseReach fetch s t) : SparseInv blob t ∧ SameIndex s t := by
  induction h with
  | refl => exact ⟨hi, SameIndex.refl s⟩
  | step _ hstep ih =>
    obtain ⟨a1, a2⟩ := step_inv (hs.of_same ih.2) ih.1 hstep
    exact ⟨a1, ih.2.trans a2⟩

/-- **histories**: after any history of reads (with arbitrary store failures) and restarts, a read
    returns the blob's bytes or an error -/
theorem history_read_blob_or_error {blob : Bytes} {fetch : Fetch} {s t : SparseSt}
    (hs : SparseSetup blob s fetch) (hi : SparseInv blob s) (h : SparseReach fetch s t)
    (off n : Nat) :
    match t.readAt fetch off n with
    | (.data b eof, _) => b = (blob.drop off).take n ∧ (eof = true ↔ b.length < n)
    | (.err, _) => ∃ k id, fetch k id = none := by
  obtain ⟨a1, a2⟩ := reach_inv hs hi h
  have h' := readAt_blob_or_error (hs.of_same a2) a1 off n
  rcases hr : t.readAt fetch off n with ⟨r, t'⟩
  rw [hr] at h'
  cases r with
  | data b eof => exact ⟨h'.1, h'.2.1⟩
  | err => exact h'.2.2.2

/-- histories from a fresh start (no cache file or an all-zero one, no saved state) -/
theorem fresh_history_read_blob_or_error {blob : Bytes} {fetch : Fetch} {s0 t : SparseSt}
    (hs : SparseSetup blob s0 fetch) (k : Nat) (init : Option (List Bool)) (calls : Nat)
    (h : SparseReach fetch
      (SparseSt.open fetch s0.chunks s0.nullID s0.length (List.replicate k 0) none init calls) t)
    (off n : Nat) :
    match t.readAt fetch off n with
    | (.data b eof, _) => b = (blob.drop off).take n ∧ (eof = true ↔ b.length < n)
    | (.err, _) => ∃ k id, fetch k id = none := by
  obtain ⟨a1, a2⟩ := open_fresh_inv hs k (state := none) rfl init calls
  exact history_read_blob_or_error (hs.of_same a2) a1 h off n

/-! ### counterexamples -/

/-- one chunk (ID 7, not null) holding the byte 1 -/
def cxChunks : List RChunk := [⟨7, 0, 1⟩]
def cxFetch : Fetch := fun _ _ => some [1]
/-- a fully loaded sparse file of the blob `[1]` -/
def cxPrev : SparseSt := { chunks := cxChunks, nullID := 0, length := 1, done := [true], file := [1] }

theorem cxPrev_setup : SparseSetup [1] cxPrev cxFetch := by
  refine ⟨⟨rfl, by decide, trivial⟩, ⟨rfl, rfl⟩, ?_, ?_⟩
  · intro c hc k b hf
    have hc' : c = ⟨7, 0, 1⟩ := by simpa [cxPrev, cxChunks] using hc
    subst hc'
    have : b = [1] := by simpa [cxFetch] using hf.symm
    subst this; rfl
  · intro c hc hn
    have hc' : c = ⟨7, 0, 1⟩ := by simpa [cxPrev, cxChunks] using hc
    subst hc'
    exact absurd hn (by decide)

theorem cxPrev_inv : SparseInv [1] cxPrev :=
  ⟨rfl, rfl, fun _ _ _ _ => rfl, fun _ _ _ => rfl⟩

/-- **finding**: `open_inv_from_previous` is false without `hacc`.  The cache file of a good state
    is cut (here to nothing: lost/deleted) and zero-extended back to the index length, and a state
    saved earlier (flags ≤ the good state's) is presented: sizes match, the state is accepted, the
    invariant fails, and a read returns a stale zero instead of the blob's byte. -/
theorem open_stale_counterexample :
    ∃ (blob : Bytes) (sPrev : SparseSt) (fetch : Fetch) (m k : Nat) (st : List Bool),
      SparseSetup blob sPrev fetch ∧ SparseInv blob sPrev ∧
      st.length = sPrev.chunks.length ∧ DoneLe st sPrev.done ∧
      ¬ SparseInv blob (SparseSt.open fetch sPrev.chunks sPrev.nullID sPrev.length
          (sPrev.file.take m ++ List.replicate k 0) (some st) none 0) ∧
      ((SparseSt.open fetch sPrev.chunks sPrev.nullID sPrev.length
          (sPrev.file.take m ++ List.replicate k 0) (some st) none 0).readAt fetch 0 1).1
        = .data [0] false ∧
      (blob.drop 0).take 1 = [1] := by
  refine ⟨[1], cxPrev, cxFetch, 0, 1, [true], cxPrev_setup, cxPrev_inv, rfl, DoneLe.refl _, ?_,
    by decide, rfl⟩
  intro h
  have h3 := h.2.2.1 0 ⟨7, 0, 1⟩ rfl rfl
  revert h3
  decide

/-- the same finding as a scenario made of model operations only.
    Session 1: fresh start, read byte 0 (loads the chunk), save the state.
    The cache file is then lost (deleted) but the state file survives.
    Session 2: cache file absent, state not accepted (size mismatch) ⇒ reset: zero file of the index
    length; the session ends without saving its state.
    Session 3: finds session 2's zero file and session 1's state: sizes match, state accepted,
    the read returns `[0]` although the blob is `[1]`. -/
theorem open_stale_scenario :
    let s1 := SparseSt.open cxFetch cxChunks 0 1 [] none none 0
    let r1 := s1.readAt cxFetch 0 1
    let saved := r1.2.saveState
    let s2 := SparseSt.open cxFetch cxChunks 0 1 [] (some saved) none 0
    let s3 := SparseSt.open cxFetch cxChunks 0 1 s2.file (some saved) none 0
    r1.1 = .data [1] false ∧ saved = [true] ∧ s2.file = [0] ∧ s2.done = [false] ∧
    (s3.readAt cxFetch 0 1).1 = .data [0] false := by
  decide

/-- **finding**: the reset path needs the found file to be zero on null chunks' ranges.  A cache file
    with foreign content (say, left by another index) and no saved state is reused as is; null
    chunks are never loaded, so the read returns the foreign byte 5 instead of 0. -/
theorem open_foreign_counterexample :
    ∃ (blob : Bytes) (s : SparseSt) (fetch : Fetch) (file : Bytes),
      SparseSetup blob s fetch ∧
      ((SparseSt.open fetch s.chunks s.nullID s.length file none none 0).readAt fetch 0 1).1
        = .data [5] false ∧
      (blob.drop 0).take 1 = [0] := by
  refine ⟨[0], { chunks := [⟨0, 0, 1⟩], nullID := 0, length := 1, done := [], file := [] },
    fun _ _ => some [0], [5], ⟨⟨rfl, by decide, trivial⟩, ⟨rfl, rfl⟩, ?_, ?_⟩, by decide, rfl⟩
  · intro c hc k b hf
    have hc' : c = ⟨0, 0, 1⟩ := by simpa using hc
    subst hc'
    have : b = [0] := by simpa using hf.symm
    subst this; rfl
  · intro c hc _
    have hc' : c = ⟨0, 0, 1⟩ := by simpa using hc
    subst hc'
    rfl

end Desync
