/-
  Proofs about the catar writer (`tar.go`) and its goodbye tables.  The theorems live in

  * `TarBST.lean`       (1) `sortGoodbye_perm`, `sortGoodbye_sorted`, `makeGoodbyeBST_isSome`,
                            `makeGoodbyeBST_perm`, `makeGoodbyeBST_inorder`
  * `TarSizes.lean`     (2) `Elem.sizeField`, `Elem.encLen`, `entryElem_size`, `filename_size`,
                            `symlink_size`, `device_size`, `goodbye_size`, `xattr_size`
                            (and `*_sizeField`: the size field as a number is the encoded length)
  * `TarDecode.lean`    (3) `decNext_{entry,filename,symlink,device,payload,goodbye,xattr}_enc`
  * `TarRoundTrip.lean` (4) `tarStream_one_file`, `untar_one_file_archive`, `untar_tar_one_file`
  * `TarPayloadSize.lean`   `tarOne_reg_payload_exact`, `tarOne_reg_short_fails`,
                            `tarOne_reg_size_field` (payload size field = bytes written, always)
-/
import Desync.Proofs.TarBST
import Desync.Proofs.TarSizes
import Desync.Proofs.TarDecode
import Desync.Proofs.TarRoundTrip
import Desync.Proofs.TarPayloadSize
