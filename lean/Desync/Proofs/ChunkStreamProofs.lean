/-
  `ChunkStream` (index.go): for every worker count and every interleaving the index it returns is
  the single-stream result, success means every chunk was stored, failures and cancellation are
  never reported as success, and the machine cannot get stuck.
-/
import Desync.Model.ChunkStream

namespace Desync.CStream

/-! ### the `results` map -/

/-- the keys of the map -/
def keys (m : List (Nat × Row)) : List Nat := m.map (·.1)

theorem mem_insert {m : List (Nat × Row)} {k : Nat} {r : Row} {p : Nat × Row} :
    p ∈ insert m k r ↔ p = (k, r) ∨ (p ∈ m ∧ p.1 ≠ k) := by
  simp [insert, List.mem_filter]

theorem nodup_insert {m : List (Nat × Row)} {k : Nat} {r : Row} (h : (keys m).Nodup) :
    (keys (insert m k r)).Nodup := by
  simp only [insert, keys, List.map_cons, List.nodup_cons]
  constructor
  · simp [List.mem_map, List.mem_filter]
  · exact (List.filter_sublist.map _).nodup h

/-- pigeonhole: a duplicate-free list of naturals below `k` that contains every natural below `k`
has length `k` -/
theorem length_of_cover : ∀ (k : Nat) (l : List Nat), l.Nodup → (∀ x, x ∈ l → x < k) →
    (∀ j, j < k → j ∈ l) → l.length = k := by
  intro k
  induction k with
  | zero =>
    intro l _ hlt _
    cases l with
    | nil => rfl
    | cons a t => exact absurd (hlt a (by simp)) (by omega)
  | succ k ih =>
    intro l hnd hlt hcov
    have hk : k ∈ l := hcov k (by omega)
    have h1 := ih (l.erase k) (hnd.erase k)
      (by
        intro x hx
        have := (hnd.mem_erase_iff).1 hx
        have := hlt x this.2
        omega)
      (by
        intro j hj
        exact (hnd.mem_erase_iff).2 ⟨by omega, hcov j (by omega)⟩)
    have h2 := List.length_erase_of_mem hk
    have h3 : 0 < l.length := List.length_pos_of_mem hk
    omega

theorem mem_keys {m : List (Nat × Row)} {k : Nat} : k ∈ keys m ↔ ∃ r, (k, r) ∈ m := by
  simp [keys]

/-- a map whose keys are exactly the naturals below `jobs.length`, each with the row of its job,
assembles to the single-stream rows -/
theorem assemble_exact (H : Bytes → Bytes) (jobs : List (Nat × Bytes)) (m : List (Nat × Row))
    (hnd : (keys m).Nodup) (hlt : ∀ k r, (k, r) ∈ m → k < jobs.length)
    (hval : ∀ k r, (k, r) ∈ m → ∃ job, jobs[k]? = some job ∧ r = rowOf H job)
    (hcov : ∀ j, j < jobs.length → ∃ r, (j, r) ∈ m) :
    assemble m = expected H jobs := by
  have hlen : m.length = jobs.length := by
    have := length_of_cover jobs.length (keys m) hnd
      (by intro x hx; obtain ⟨r, hr⟩ := mem_keys.1 hx; exact hlt x r hr)
      (by intro j hj; exact mem_keys.2 (hcov j hj))
    simpa [keys] using this
  apply List.ext_getElem
  · simp [assemble, expected, hlen]
  · intro i h1 h2
    have hi : i < jobs.length := by simpa [expected] using h2
    simp only [assemble, expected, List.getElem_map, List.getElem_range, lookup]
    cases hf : m.find? (·.1 == i) with
    | none =>
      obtain ⟨r, hr⟩ := hcov i hi
      have := List.find?_eq_none.1 hf (i, r) hr
      simp at this
    | some p =>
      have hp := List.find?_some hf
      have hm := List.mem_of_find?_eq_some hf
      obtain ⟨k, r⟩ := p
      simp only [beq_iff_eq] at hp
      subst hp
      obtain ⟨job, hj, hr⟩ := hval _ _ hm
      rw [List.getElem?_eq_getElem hi] at hj
      cases hj
      simp [hr]

/-! ### the invariant -/

structure Inv (H : Bytes → Bytes) (jobs : List (Nat × Bytes)) (n : Nat) (s : St) : Prop where
  jobs_eq : s.jobs = jobs
  wlen : s.workers.length = n
  next_le : s.next ≤ jobs.length
  nodup : (keys s.results).Nodup
  key_lt : ∀ k r, (k, r) ∈ s.results → k < s.next
  vals : ∀ k r, (k, r) ∈ s.results → ∃ job, jobs[k]? = some job ∧ r = rowOf H job
  rec_cover : ∀ j, j < s.next →
    (∃ r, (j, r) ∈ s.results) ∨ ∃ w : Nat, s.workers[w]? = some (W.got j)
  store_cover : ∀ j, j < s.next →
    j ∈ s.stored ∨ (∃ w : Nat, s.workers[w]? = some (W.got j) ∨ s.workers[w]? = some (W.storing j))
      ∨ s.groupErr = true
  busy_lt : ∀ (w j : Nat),
    s.workers[w]? = some (W.got j) ∨ s.workers[w]? = some (W.storing j) → j < s.next
  closed : s.feederClosed = true → s.next = jobs.length ∨ s.broke = true
  res : ∀ rows, s.result = some (.ok rows) →
    s.feederClosed = true ∧ (∀ (w : Nat) (x : W), s.workers[w]? = some x → x = W.exited) ∧
      rows = assemble s.results ∧ s.groupErr = false ∧ s.broke = false

theorem inv_init (H : Bytes → Bytes) (jobs : List (Nat × Bytes)) (n : Nat) :
    Inv H jobs n (St.init jobs n) := by
  constructor <;> simp [St.init, List.getElem?_replicate, keys]

theorem all_exited_iff (ws : List W) :
    ws.all (· == W.exited) = true ↔ ∀ (w : Nat) (x : W), ws[w]? = some x → x = W.exited := by
  simp only [List.all_eq_true, beq_iff_eq]
  constructor
  · intro h w x hx
    exact h x (List.mem_iff_getElem?.2 ⟨w, hx⟩)
  · intro h x hx
    obtain ⟨w, hw⟩ := List.mem_iff_getElem?.1 hx
    exact h w x hw

theorem set_keep {ws : List W} {w w' : Nat} {x y z : W} (hw : ws[w]? = some x)
    (hw' : ws[w']? = some y) (hne : y ≠ x) : (ws.set w z)[w']? = some y := by
  grind

theorem set_self {ws : List W} {w : Nat} {x z : W} (hw : ws[w]? = some x) :
    (ws.set w z)[w]? = some z := by
  grind

theorem inv_step {H : Bytes → Bytes} {jobs : List (Nat × Bytes)} {n : Nat} {s s' : St} (e : Ev)
    (hi : Inv H jobs n s) (h : step H s e = some s') : Inv H jobs n s' := by
  obtain ⟨h1, h2, h3, h4, h5, h6, h7, h8, h9, h10, h11⟩ := hi
  cases e with
  | feedSend w =>
    simp only [step] at h
    split at h <;> cases h
    rename_i hc
    obtain ⟨_, _, _, hw⟩ := hc
    constructor <;> first | done | grind | skip
    · intro j hj
      by_cases hlt : j < s.next
      · rcases h7 j hlt with h | ⟨w', hw'⟩
        · exact .inl h
        · exact .inr ⟨w', set_keep hw hw' (by simp)⟩
      · have : j = s.next := by simp only at hj; omega
        subst this
        exact .inr ⟨w, set_self hw⟩
    · intro j hj
      by_cases hlt : j < s.next
      · rcases h8 j hlt with h | ⟨w', hw' | hw'⟩ | h
        · exact .inl h
        · exact .inr (.inl ⟨w', .inl (set_keep hw hw' (by simp))⟩)
        · exact .inr (.inl ⟨w', .inr (set_keep hw hw' (by simp))⟩)
        · exact .inr (.inr h)
      · have : j = s.next := by simp only at hj; omega
        subst this
        exact .inr (.inl ⟨w, .inl (set_self hw)⟩)
  | record w =>
    simp only [step] at h
    split at h <;> try cases h
    split at h <;> cases h
    rename_i j₀ hw _ job hjob
    constructor <;> first | done | grind [mem_insert, nodup_insert] | skip
    · intro j hj
      by_cases hjj : j = j₀
      · subst hjj
        exact .inl ⟨_, mem_insert.2 (.inl rfl)⟩
      · rcases h7 j hj with ⟨r, hr⟩ | ⟨w', hw'⟩
        · exact .inl ⟨r, mem_insert.2 (.inr ⟨hr, hjj⟩)⟩
        · exact .inr ⟨w', set_keep hw hw' (by simp [hjj])⟩
    · intro j hj
      by_cases hjj : j = j₀
      · subst hjj
        exact .inr (.inl ⟨w, .inr (set_self hw)⟩)
      · rcases h8 j hj with h | ⟨w', hw' | hw'⟩ | h
        · exact .inl h
        · exact .inr (.inl ⟨w', .inl (set_keep hw hw' (by simp [hjj]))⟩)
        · exact .inr (.inl ⟨w', .inr (set_keep hw hw' (by simp))⟩)
        · exact .inr (.inr h)
  | storeOk w =>
    simp only [step] at h
    split at h <;> cases h
    rename_i j₀ hw
    constructor <;> first | done | grind | skip
    · intro j hj
      rcases h7 j hj with h | ⟨w', hw'⟩
      · exact .inl h
      · exact .inr ⟨w', set_keep hw hw' (by simp)⟩
    · intro j hj
      by_cases hjj : j = j₀
      · subst hjj
        exact .inl (by simp)
      · rcases h8 j hj with h | ⟨w', hw' | hw'⟩ | h
        · exact .inl (by simp [h])
        · exact .inr (.inl ⟨w', .inl (set_keep hw hw' (by simp))⟩)
        · exact .inr (.inl ⟨w', .inr (set_keep hw hw' (by simp [hjj]))⟩)
        · exact .inr (.inr h)
  | storeFail w =>
    simp only [step] at h
    split at h <;> cases h
    rename_i j₀ hw
    constructor <;> first | done | grind | skip
    · intro j hj
      rcases h7 j hj with h | ⟨w', hw'⟩
      · exact .inl h
      · exact .inr ⟨w', set_keep hw hw' (by simp)⟩
  | workExit w =>
    simp only [step] at h
    split at h <;> cases h
    rename_i hc
    obtain ⟨_, hw⟩ := hc
    constructor <;> first | done | grind | skip
    · intro j hj
      rcases h7 j hj with h | ⟨w', hw'⟩
      · exact .inl h
      · exact .inr ⟨w', set_keep hw hw' (by simp)⟩
    · intro j hj
      rcases h8 j hj with h | ⟨w', hw' | hw'⟩ | h
      · exact .inl h
      · exact .inr (.inl ⟨w', .inl (set_keep hw hw' (by simp))⟩)
      · exact .inr (.inl ⟨w', .inr (set_keep hw hw' (by simp))⟩)
      · exact .inr (.inr h)
  | _ =>
    simp only [step] at h
    split at h <;> cases h
    constructor <;> grind [all_exited_iff]

theorem inv_reachable {H : Bytes → Bytes} {jobs : List (Nat × Bytes)} {n : Nat} {s : St}
    (h : Reachable H (St.init jobs n) s) : Inv H jobs n s := by
  induction h with
  | refl => exact inv_init H jobs n
  | step e _ hs ih => exact inv_step e ih hs

/-! ### the theorems -/

/-- a failed store, a chunker error or an interruption that stopped the feeder early is never
    reported as success -/
theorem failure_not_ok (H : Bytes → Bytes) (jobs : List (Nat × Bytes)) (n : Nat) (s : St)
    (h : Reachable H (St.init jobs n) s) (rows : List Row) (hr : s.result = some (.ok rows)) :
    s.groupErr = false ∧ s.broke = false ∧ s.next = jobs.length := by
  have hi := inv_reachable h
  obtain ⟨hcl, _, _, hg, hb⟩ := hi.res rows hr
  refine ⟨hg, hb, ?_⟩
  rcases hi.closed hcl with h | h
  · exact h
  · simp [hb] at h

/-- **exact index under every schedule**: a successful `ChunkStream` returns the rows of the
    single-stream chunk sequence, in order — whatever the number of workers and the interleaving
    of channel operations, `recordResult` calls and store calls -/
theorem index_exact (H : Bytes → Bytes) (jobs : List (Nat × Bytes)) (n : Nat) (s : St)
    (h : Reachable H (St.init jobs n) s) (rows : List Row) (hr : s.result = some (.ok rows)) :
    rows = expected H jobs := by
  have hi := inv_reachable h
  obtain ⟨_, _, hnext⟩ := failure_not_ok H jobs n s h rows hr
  obtain ⟨_, hall, hrows, _, _⟩ := hi.res rows hr
  rw [hrows]
  apply assemble_exact H jobs s.results hi.nodup
  · intro k r hk
    have := hi.key_lt k r hk
    omega
  · exact hi.vals
  · intro j hj
    rcases hi.rec_cover j (by omega) with h | ⟨w, hw⟩
    · exact h
    · cases hall w _ hw

/-- success means every chunk's `StoreChunk` returned nil -/
theorem ok_all_stored (H : Bytes → Bytes) (jobs : List (Nat × Bytes)) (n : Nat) (s : St)
    (h : Reachable H (St.init jobs n) s) (rows : List Row) (hr : s.result = some (.ok rows)) :
    ∀ j, j < jobs.length → j ∈ s.stored := by
  have hi := inv_reachable h
  obtain ⟨hg, _, hnext⟩ := failure_not_ok H jobs n s h rows hr
  obtain ⟨_, hall, _⟩ := hi.res rows hr
  intro j hj
  rcases hi.store_cover j (by omega) with h | ⟨w, hw | hw⟩ | h
  · exact h
  · cases hall w _ hw
  · cases hall w _ hw
  · simp [hg] at h

theorem exists_not_exited (ws : List W) (h : ¬ ws.all (· == W.exited) = true) :
    ∃ (w : Nat) (x : W), ws[w]? = some x ∧ x ≠ W.exited := by
  apply Classical.byContradiction
  intro hcon
  apply h
  rw [all_exited_iff]
  intro w x hx
  apply Classical.byContradiction
  intro hne
  exact hcon ⟨w, x, hx, hne⟩

theorem enabled_of_isSome {H : Bytes → Bytes} {s : St} (e : Ev)
    (h : (step H s e).isSome = true) : ∃ e s', step H s e = some s' := by
  obtain ⟨s', hs'⟩ := Option.isSome_iff_exists.1 h
  exact ⟨e, s', hs'⟩

/-- no deadlock: as long as there is no result some event is enabled (n ≥ 1) -/
theorem no_deadlock (H : Bytes → Bytes) (jobs : List (Nat × Bytes)) (n : Nat) (hn : 1 ≤ n) (s : St)
    (h : Reachable H (St.init jobs n) s) (hr : s.result = none) : ∃ e s', step H s e = some s' := by
  have _ := hn  -- not needed: the feeder can always fail, a closed feeder lets every worker finish
  have hi := inv_reachable h
  cases hcl : s.feederClosed
  · exact enabled_of_isSome .feedErr (by simp [step, hcl, hr])
  · by_cases hall : s.workers.all (· == W.exited) = true
    · exact enabled_of_isSome .wait (by simp only [step]; rw [if_pos ⟨hcl, by simp [hr], hall⟩]; rfl)
    · obtain ⟨w, x, hw, hne⟩ := exists_not_exited _ hall
      cases x with
      | idle => exact enabled_of_isSome (.workExit w) (by simp [step, hcl, hw])
      | got j =>
        have hj : j < s.jobs.length := by
          have := hi.busy_lt w j (.inl hw); have := hi.next_le; have := hi.jobs_eq
          subst this; omega
        exact enabled_of_isSome (.record w) (by simp [step, hw, List.getElem?_eq_getElem hj])
      | storing j => exact enabled_of_isSome (.storeOk w) (by simp [step, hw])
      | exited => exact absurd rfl hne

end Desync.CStream
