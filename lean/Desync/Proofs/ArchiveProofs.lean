/-
  Archive decoder / UnTar / protocol proofs (umbrella module).

  * (A) no panics:                 `Desync.Proofs.ArchiveNoPanic`
      takePayload_nopanic, archLoop_nopanic, ArchDec.next_nopanic, untarNodes_nopanic,
      untar_nopanic, readMessage_nopanic
  * (B) allocation ≤ input consumed: `Desync.Proofs.ArchiveAlloc`
      readN_consumes, decNext_alloc_le_consumed, readMessage_alloc_le_consumed
  * (C) confinement of names:       `Desync.Proofs.ArchiveConfined`
      ValidPath, Confined, Node.name, archLoop_confined, untar_confined
  * (C') only the first node is nameless: `Desync.Proofs.ArchiveChildren`
      dirUp, next_child, next_first, next_first_root, next_counts, next_child_strict,
      next_none_of_rootNotDir, untar_tail_ne_dot
-/
import Desync.Model.Archive
import Desync.Model.Protocol
import Desync.Proofs.FormatProofs
import Desync.Proofs.ArchiveNoPanic
import Desync.Proofs.ArchiveAlloc
import Desync.Proofs.ArchiveConfined
import Desync.Proofs.ArchiveChildren
