/-
  The line of each `Create*` method read back by `parseLine`; what the sink's failures do to the return values.
-/
import Desync.Proofs.MtreeFSLine

namespace Desync.MtreeFS
open Desync

theorem keyed_kv (k v : Bytes) (ws : List Bytes) (kw : Kw) (hk : (61 : UInt8) ∉ k) (hkw : kwOf k = some kw) :
    keyed (kv k v :: ws) = (kw, v) :: keyed ws := by
  simp [keyed, splitEq_kv k v hk, hkw]

theorem keyed_nil : keyed [] = [] := rfl

/-- the hypotheses under which a node's line reads back -/
structure Readable (op : Op) : Prop where
  name_ne : (nodeOf op).name ≠ []
  name_sp : (32 : UInt8) ∉ (nodeOf op).name
  target_sp : ∀ n, op = .symlink n → (32 : UInt8) ∉ n.target
  nsec_lt : (nodeOf op).nsec < 1000000000

private theorem kType_clean : Clean kType := by decide
private theorem kMode_clean : Clean kMode := by decide
private theorem kUid_clean : Clean kUid := by decide
private theorem kGid_clean : Clean kGid := by decide
private theorem kSize_clean : Clean kSize := by decide
private theorem kTime_clean : Clean kTime := by decide
private theorem kTarget_clean : Clean kTarget := by decide
private theorem kSha512256_clean : Clean kSha512256 := by decide
private theorem kSha256_clean : Clean kSha256 := by decide
private theorem vDir_clean : Clean vDir := by decide
private theorem vFile_clean : Clean vFile := by decide
private theorem vLink_clean : Clean vLink := by decide
private theorem vChar_clean : Clean vChar := by decide
private theorem vBlock_clean : Clean vBlock := by decide

/-- the common part of the four proofs: a line made of an escaped name and clean `k=v` words reads as `entryOf` of them -/
theorem parseLine_words (name : Bytes) (hne : name ≠ []) (hsp : (32 : UInt8) ∉ name) (rest : List Bytes)
    (hrest : ∀ w ∈ rest, Clean w ∧ w ≠ []) :
    parseLine (joinSp (mtreeFilename name :: rest) ++ [10]) =
      match entryOf (mtreeFilename name) (keyed rest) with
      | some f => .entry f
      | none => .bad := by
  unfold parseLine
  rw [words_joinSp _ (by simp)]
  · simp only
    have := mtreeFilename_head name
    simp only [this, if_false]
    rfl
  · intro w hw
    simp only [List.mem_cons] at hw
    rcases hw with rfl | hw
    · exact ⟨mtreeFilename_clean name hsp, mtreeFilename_ne_nil name hne⟩
    · exact hrest w hw

theorem roundtrip_dir (H : Hashes) (n : MNode) (hr : Readable (.dir n)) :
    parseLine (joinSp (wordsDir n) ++ [10]) = .entry (fieldsOf H (.dir n)) := by
  have hne := hr.name_ne; have hsp := hr.name_sp; have hns := hr.nsec_lt
  simp only [nodeOf] at hne hsp hns
  unfold wordsDir
  rw [parseLine_words n.name hne hsp]
  · rw [keyed_kv kType _ _ .type (by decide) (by decide), keyed_kv kMode _ _ .mode (by decide) (by decide),
      keyed_kv kUid _ _ .uid (by decide) (by decide), keyed_kv kGid _ _ .gid (by decide) (by decide),
      keyed_kv kTime _ _ .time (by decide) (by decide), keyed_nil]
    have ht : parseType vDir = some .dir := by decide
    simp [entryOf, find, unescape_mtreeFilename, ht, parseMode_fmtMode, parseInt_fmtD, parseTime_fmtTime _ _ hns,
      optField, digestOf, fieldsOf, nodeOf, typeOf]
  · intro w hw
    simp only [List.mem_cons, List.not_mem_nil, or_false] at hw
    rcases hw with rfl | rfl | rfl | rfl | rfl
    · exact ⟨kv_clean _ _ kType_clean vDir_clean, kv_ne_nil _ _⟩
    · exact ⟨kv_clean _ _ kMode_clean (fmtMode_clean _), kv_ne_nil _ _⟩
    · exact ⟨kv_clean _ _ kUid_clean (fmtD_clean _), kv_ne_nil _ _⟩
    · exact ⟨kv_clean _ _ kGid_clean (fmtD_clean _), kv_ne_nil _ _⟩
    · exact ⟨kv_clean _ _ kTime_clean (fmtTime_clean _ _), kv_ne_nil _ _⟩

theorem roundtrip_device (H : Hashes) (n : MNode) (hr : Readable (.device n)) :
    parseLine (joinSp (wordsDevice n) ++ [10]) = .entry (fieldsOf H (.device n)) := by
  have hne := hr.name_ne; have hsp := hr.name_sp; have hns := hr.nsec_lt
  simp only [nodeOf] at hne hsp hns
  unfold wordsDevice
  rw [parseLine_words n.name hne hsp]
  · rw [keyed_kv kType _ _ .type (by decide) (by decide), keyed_kv kMode _ _ .mode (by decide) (by decide),
      keyed_kv kUid _ _ .uid (by decide) (by decide), keyed_kv kGid _ _ .gid (by decide) (by decide),
      keyed_kv kTime _ _ .time (by decide) (by decide), keyed_nil]
    have htc : parseType vChar = some .char := by decide
    have htb : parseType vBlock = some .block := by decide
    cases hc : isChar n.mode <;>
    simp [entryOf, find, unescape_mtreeFilename, htc, htb, parseMode_fmtMode, parseInt_fmtD, parseTime_fmtTime _ _ hns,
      optField, digestOf, fieldsOf, nodeOf, typeOf, hc]
  · intro w hw
    simp only [List.mem_cons, List.not_mem_nil, or_false] at hw
    rcases hw with rfl | rfl | rfl | rfl | rfl
    · refine ⟨kv_clean _ _ kType_clean ?_, kv_ne_nil _ _⟩
      split
      · exact vChar_clean
      · exact vBlock_clean
    · exact ⟨kv_clean _ _ kMode_clean (fmtMode_clean _), kv_ne_nil _ _⟩
    · exact ⟨kv_clean _ _ kUid_clean (fmtD_clean _), kv_ne_nil _ _⟩
    · exact ⟨kv_clean _ _ kGid_clean (fmtD_clean _), kv_ne_nil _ _⟩
    · exact ⟨kv_clean _ _ kTime_clean (fmtTime_clean _ _), kv_ne_nil _ _⟩

theorem roundtrip_symlink (H : Hashes) (n : MNode) (hr : Readable (.symlink n)) :
    parseLine (joinSp (wordsSymlink n) ++ [10]) = .entry (fieldsOf H (.symlink n)) := by
  have hne := hr.name_ne; have hsp := hr.name_sp; have hns := hr.nsec_lt
  have htg := hr.target_sp n rfl
  simp only [nodeOf] at hne hsp hns
  unfold wordsSymlink
  rw [parseLine_words n.name hne hsp]
  · rw [keyed_kv kType _ _ .type (by decide) (by decide), keyed_kv kMode _ _ .mode (by decide) (by decide),
      keyed_kv kTarget _ _ .target (by decide) (by decide),
      keyed_kv kUid _ _ .uid (by decide) (by decide), keyed_kv kGid _ _ .gid (by decide) (by decide),
      keyed_kv kTime _ _ .time (by decide) (by decide), keyed_nil]
    have ht : parseType vLink = some .link := by decide
    simp [entryOf, find, unescape_mtreeFilename, ht, parseMode_fmtMode, parseInt_fmtD, parseTime_fmtTime _ _ hns,
      optField, digestOf, fieldsOf, nodeOf, typeOf]
  · intro w hw
    simp only [List.mem_cons, List.not_mem_nil, or_false] at hw
    rcases hw with rfl | rfl | rfl | rfl | rfl | rfl
    · exact ⟨kv_clean _ _ kType_clean vLink_clean, kv_ne_nil _ _⟩
    · exact ⟨kv_clean _ _ kMode_clean (fmtMode_clean _), kv_ne_nil _ _⟩
    · exact ⟨kv_clean _ _ kTarget_clean (mtreeFilename_clean _ htg), kv_ne_nil _ _⟩
    · exact ⟨kv_clean _ _ kUid_clean (fmtD_clean _), kv_ne_nil _ _⟩
    · exact ⟨kv_clean _ _ kGid_clean (fmtD_clean _), kv_ne_nil _ _⟩
    · exact ⟨kv_clean _ _ kTime_clean (fmtTime_clean _ _), kv_ne_nil _ _⟩

theorem roundtrip_file (H : Hashes) (n : MNode) (alg : Alg) (d : Bytes) (dw : Bytes)
    (hdw : digestWord alg (H.sum alg d) = some dw) (hr : Readable (.file n alg (some d))) :
    parseLine (joinSp (wordsFile n dw) ++ [10]) = .entry (fieldsOf H (.file n alg (some d))) := by
  have hne := hr.name_ne; have hsp := hr.name_sp; have hns := hr.nsec_lt
  simp only [nodeOf] at hne hsp hns
  unfold wordsFile
  rw [parseLine_words n.name hne hsp]
  · rw [keyed_kv kType _ _ .type (by decide) (by decide), keyed_kv kMode _ _ .mode (by decide) (by decide),
      keyed_kv kUid _ _ .uid (by decide) (by decide), keyed_kv kGid _ _ .gid (by decide) (by decide),
      keyed_kv kSize _ _ .size (by decide) (by decide),
      keyed_kv kTime _ _ .time (by decide) (by decide)]
    have ht : parseType vFile = some .file := by decide
    cases alg with
    | other => simp [digestWord] at hdw
    | sha512_256 =>
      simp only [digestWord, Option.some.injEq] at hdw
      subst hdw
      rw [keyed_kv kSha512256 _ _ .sha512256 (by decide) (by decide), keyed_nil]
      simp [entryOf, find, unescape_mtreeFilename, ht, parseMode_fmtMode, parseInt_fmtD, parseTime_fmtTime _ _ hns,
        optField, digestOf, fieldsOf, nodeOf, typeOf, parseNat_fmtNat, parseHex_fmtHex]
    | sha256 =>
      simp only [digestWord, Option.some.injEq] at hdw
      subst hdw
      rw [keyed_kv kSha256 _ _ .sha256 (by decide) (by decide), keyed_nil]
      simp [entryOf, find, unescape_mtreeFilename, ht, parseMode_fmtMode, parseInt_fmtD, parseTime_fmtTime _ _ hns,
        optField, digestOf, fieldsOf, nodeOf, typeOf, parseNat_fmtNat, parseHex_fmtHex]
  · intro w hw
    simp only [List.mem_cons, List.not_mem_nil, or_false] at hw
    rcases hw with rfl | rfl | rfl | rfl | rfl | rfl | rfl
    · exact ⟨kv_clean _ _ kType_clean vFile_clean, kv_ne_nil _ _⟩
    · exact ⟨kv_clean _ _ kMode_clean (fmtMode_clean _), kv_ne_nil _ _⟩
    · exact ⟨kv_clean _ _ kUid_clean (fmtD_clean _), kv_ne_nil _ _⟩
    · exact ⟨kv_clean _ _ kGid_clean (fmtD_clean _), kv_ne_nil _ _⟩
    · exact ⟨kv_clean _ _ kSize_clean (fmtNat10_clean _), kv_ne_nil _ _⟩
    · exact ⟨kv_clean _ _ kTime_clean (fmtTime_clean _ _), kv_ne_nil _ _⟩
    · cases alg with
      | other => simp [digestWord] at hdw
      | sha512_256 =>
        simp only [digestWord, Option.some.injEq] at hdw
        subst hdw
        exact ⟨kv_clean _ _ kSha512256_clean (fmtHex_clean _), kv_ne_nil _ _⟩
      | sha256 =>
        simp only [digestWord, Option.some.injEq] at hdw
        subst hdw
        exact ⟨kv_clean _ _ kSha256_clean (fmtHex_clean _), kv_ne_nil _ _⟩

/-- every kind at once -/
theorem roundtrip (H : Hashes) (op : Op) (line : Bytes) (hl : lineOf H op = .ok line) (hr : Readable op) :
    parseLine (line ++ [10]) = .entry (fieldsOf H op) := by
  cases op with
  | dir n => simp only [lineOf, Except.ok.injEq] at hl; subst hl; exact roundtrip_dir H n hr
  | symlink n => simp only [lineOf, Except.ok.injEq] at hl; subst hl; exact roundtrip_symlink H n hr
  | device n => simp only [lineOf, Except.ok.injEq] at hl; subst hl; exact roundtrip_device H n hr
  | file n alg data =>
    cases data with
    | none => cases alg <;> simp [lineOf] at hl
    | some d =>
      cases hdw : digestWord alg (H.sum alg d) with
      | none => cases alg <;> simp [lineOf, hdw] at hl
      | some dw =>
        have : line = joinSp (wordsFile n dw) := by
          cases alg <;> simp [lineOf, hdw] at hl <;> exact hl.symm
        subst this
        exact roundtrip_file H n alg d dw hdw hr

/-! ### the sink -/

theorem create_ret (H : Hashes) (s : Sink) (op : Op) :
    (create H s op).2 = match lineOf H op with | .ok _ => .ok | .error r => r := by
  unfold create
  cases lineOf H op <;> rfl

/-- what the caller of the `Create*` methods is told does not depend on the writer -/
theorem createAll_ret_indep (H : Hashes) (ops : List Op) (s s' : Sink) :
    (createAll H s ops).2 = (createAll H s' ops).2 := by
  induction ops generalizing s s' with
  | nil => rfl
  | cons op ops ih =>
    unfold createAll
    unfold create
    cases lineOf H op with
    | ok l => simp only; exact ih _ _
    | error r => cases r <;> first | rfl | exact ih _ _

theorem lineOf_ne_writeErr (H : Hashes) (op : Op) : lineOf H op ≠ .error .writeErr := by
  cases op with
  | dir n => simp [lineOf]
  | symlink n => simp [lineOf]
  | device n => simp [lineOf]
  | file n alg data =>
    cases alg <;> cases data <;> simp [lineOf, digestWord]

theorem createAll_ne_writeErr (H : Hashes) (ops : List Op) (s : Sink) : (createAll H s ops).2 ≠ .writeErr := by
  induction ops generalizing s with
  | nil => simp [createAll]
  | cons op ops ih =>
    unfold createAll
    unfold create
    have hne := lineOf_ne_writeErr H op
    cases hl : lineOf H op with
    | ok l => simp only; exact ih _
    | error r =>
      cases r with
      | writeErr => exact absurd hl hne
      | ok => simp only; exact ih _
      | readErr => simp
      | unsupported => simp

end Desync.MtreeFS
