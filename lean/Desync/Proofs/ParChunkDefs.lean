/-
  Definitions shared by the proofs about the parallel chunker machine (`Desync/Model/ParChunk.lean`)
  and by the fuzz driver: the derived quantities the invariant talks about and an *executable*
  version `invB` of the invariant (evaluated by `par.fuzz` after every step of random schedules).
  Core Lean only (the driver links this file).
-/
import Desync.Model.ParChunk

namespace Desync.Par

/-- the index of the worker a worker synchronises with; `n` (= number of workers) for "none" -/
def nxW (n : Nat) (w : Worker) : Nat := w.next.getD n

/-- where the bucket of a worker ends: its position, except while null chunks are still to be pushed -/
def endOf (w : Worker) : Nat :=
  match w.pc with
  | .advance last _ => last.fin
  | _ => w.pos

/-- where the bucket of a worker starts (its end if it is empty) -/
def front (w : Worker) : Nat :=
  match w.bucket with
  | c :: _ => c.start
  | [] => endOf w

/-- the worker has decided to return -/
def finPC : PC → Bool
  | .stopping | .closing | .done => true
  | _ => false

def stoppedPC : PC → Bool
  | .closing | .done => true
  | _ => false

def deadEmpty (w : Worker) : Bool := w.stopped && w.bucket.isEmpty
def finEmpty (w : Worker) : Bool := finPC w.pc && w.bucket.isEmpty

/-- `l` is a chain of genuine chunks (`⟨p, cut p⟩`, `p < size`) from `b` to `en` -/
def runB (e : Env) : Nat → List Chunk → Nat → Bool
  | b, [], en => b == en
  | b, c :: l, en => c.start == b && c.size == e.cut b && decide (b < e.size) && runB e (b + e.cut b) l en

def genB (e : Env) (c : Chunk) : Bool := c.size == e.cut c.start && decide (c.start < e.size)

def zeroRangeB (zero : Nat → Bool) (a b : Nat) : Bool := (List.range (b - a)).all fun t => zero (a + t)

def prevOKB (p : Option Chunk) (c : Chunk) (wj : Worker) : Bool :=
  match p with
  | none => true
  | some p => decide (p.start < c.start) && (p == Chunk.zero || p.fin == wj.sync.start)

def withNextB (ws : List Worker) (w : Worker) (f : Worker → Bool) : Bool :=
  match w.next with
  | some j => match ws[j]? with
    | some wj => f wj
    | none => false
  | none => false

def pcOKB (e : Env) (zero : Nat → Bool) (ws : List Worker) (w : Worker) : Bool :=
  match w.pc with
  | .pushed c => genB e c && c.fin == w.pos
  | .popping c p => genB e c && c.fin == w.pos && withNextB ws w fun wj => prevOKB p c wj
  | .decide c p => genB e c && c.fin == w.pos && withNextB ws w fun wj => prevOKB p c wj && decide (c.start ≤ wj.sync.start)
  | .nullScan c n => genB e c && c.fin == w.pos && withNextB ws w fun wj =>
      e.isNull wj.sync && c.start + n == wj.sync.start && zeroRangeB zero c.start wj.sync.fin
  | .advance last k => decide (k > 0) && last.fin + k * e.max == w.pos && zeroRangeB zero last.fin w.pos && e.isNull last
  | _ => true

def workerOKB (e : Env) (zero : Nat → Bool) (ws : List Worker) (i : Nat) (w : Worker) : Bool :=
  let n := ws.length
  decide (w.pos ≤ e.size) && runB e (front w) w.bucket (endOf w)
    && (w.stopped == stoppedPC w.pc) && (w.closed == (w.pc == .done))
    && decide (i < nxW n w) && decide (nxW n w ≤ n)
    && (match w.next with | some j => decide (j < n) | none => true)
    && (!w.eof || (w.pos == e.size && finPC w.pc))
    && pcOKB e zero ws w

def allW (ws : List Worker) (f : Nat → Worker → Bool) : Bool :=
  (List.range ws.length).all fun i => match ws[i]? with | some w => f i w | none => false

/-- S(j): as long as a worker before j is still running, `sync` of j is the chunk just before j's bucket -/
def syncOKB (ws : List Worker) : Bool :=
  allW ws fun j wj =>
    !((List.range j).any fun i => match ws[i]? with | some w => w.pc != .done | none => false)
      || wj.sync == Chunk.zero || wj.sync.fin == front wj

def structOKB (ws : List Worker) : Bool :=
  let n := ws.length
  allW ws fun i w => (List.range n).all fun h =>
    !(decide (i < h) && decide (h < nxW n w)) ||
      match ws[h]? with | some wh => deadEmpty wh && decide (nxW n wh ≤ nxW n w) | none => false

def bypassedB (ws : List Worker) (k : Nat) : Bool :=
  (List.range k).any fun i => match ws[i]? with | some w => decide (nxW ws.length w > k) | none => false

def insyncOKB (ws : List Worker) (m : Nat) : Bool :=
  let n := ws.length
  allW ws fun k w =>
    !(decide (m ≤ k) && finPC w.pc && !w.eof && !bypassedB ws k) ||
      match ws[nxW n w]? with | some wj => front wj == endOf w | none => false

def carrierOKB (e : Env) (ws : List Worker) (m q : Nat) : Bool :=
  (List.range ws.length).any fun k =>
    decide (m ≤ k) && ((List.range k).all fun h => decide (h < m) || match ws[h]? with | some wh => finEmpty wh | none => false)
      && match ws[k]? with | some w => front w == q && (!finEmpty w || q == e.size) | none => false

def mainOKB (e : Env) (s : St) : Bool :=
  match s.main with
  | .reading m =>
    decide (m < s.workers.length)
      && ((List.range m).all fun i => match s.workers[i]? with | some w => w.pc == .done && w.bucket.isEmpty | none => false)
      && insyncOKB s.workers m && carrierOKB e s.workers m (indexLength s.index)
  | .finished ok => ok && indexLength s.index == e.size

def invB (e : Env) (zero : Nat → Bool) (s : St) : Bool :=
  (s.workers.length == e.offsets.length)
    && (allW s.workers fun i w => workerOKB e zero s.workers i w)
    && syncOKB s.workers && structOKB s.workers
    && runB e 0 s.index (indexLength s.index)
    && mainOKB e s

/-- which conjunct fails (for the fuzzer's report) -/
def invWhy (e : Env) (zero : Nat → Bool) (s : St) : String :=
  (if s.workers.length == e.offsets.length then "" else "len ")
    ++ (if (allW s.workers fun i w => workerOKB e zero s.workers i w) then "" else "worker ")
    ++ (if syncOKB s.workers then "" else "sync ")
    ++ (if structOKB s.workers then "" else "struct ")
    ++ (if runB e 0 s.index (indexLength s.index) then "" else "index ")
    ++ (if mainOKB e s then "" else "main ")

end Desync.Par
