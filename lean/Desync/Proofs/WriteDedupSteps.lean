import Desync.Proofs.WriteDedupInv

set_option linter.unusedSimpArgs false
set_option linter.unusedVariables false

namespace Desync.WDedup

open Desync.Dedup (mem_of_lookup not_mem_of_lookup lt_of_getElem?)

theorem inv_wcall_follow {roles s} {t id d r : Nat} (hi : Inv roles s)
    (hc : s.callers[t]? = some (.wstart id d)) (hq : (id, r) ∈ s.queue) :
    Inv roles (setC s t (.wfollower r)) := by
  have hlt := lt_of_getElem? hc
  have hx1 := hi.qreq id r hq
  have hx2 := hi.wstartid t id d hc
  constructor
  case len =>
    have hf := hi.len
    inv_auto
  case wstartid =>
    have hf := hi.wstartid
    inv_auto
  case rstartid =>
    have hf := hi.rstartid
    inv_auto
  case wownid =>
    have hf := hi.wownid
    inv_auto
  case rownid =>
    have hf := hi.rownid
    inv_auto
  case leaddata =>
    have hf := hi.leaddata
    inv_auto
  case qkeys =>
    have hf := hi.qkeys
    inv_auto
  case qreq =>
    have hf := hi.qreq
    inv_auto
  case qlive =>
    have hf := hi.qlive
    inv_auto
  case liveq =>
    have hf := hi.liveq
    inv_auto
  case liveuniq =>
    have hf := hi.liveuniq
    inv_auto
  case histlt =>
    have hf := hi.histlt
    inv_auto
  case histnoup =>
    have hf := hi.histnoup
    inv_auto
  case histuniq =>
    have hf := hi.histuniq
    inv_auto
  case histrole =>
    have hf := hi.histrole
    inv_auto
  case upnotdone =>
    have hf := hi.upnotdone
    inv_auto
  case gothist =>
    have hf := hi.gothist
    inv_auto
  case pubdone =>
    have hf := hi.pubdone
    inv_auto
  case donehist =>
    have hf := hi.donehist
    inv_auto
  case wretdone =>
    have hf := hi.wretdone
    inv_auto
  case rretdone =>
    have hf := hi.rretdone
    inv_auto
  case notdone =>
    have hf := hi.notdone
    inv_auto

theorem inv_wwake {roles s} {t r : Nat} {q : Req} (hi : Inv roles s)
    (hc : s.callers[t]? = some (.wfollower r)) (hq : s.reqs[r]? = some q) (hd : q.done = true) :
    Inv roles (setC s t (.wreturned q.err r)) := by
  have hlt := lt_of_getElem? hc
  have hx1 := hi.wownid t _ r hc rfl
  constructor
  case len =>
    have hf := hi.len
    inv_auto
  case wstartid =>
    have hf := hi.wstartid
    inv_auto
  case rstartid =>
    have hf := hi.rstartid
    inv_auto
  case wownid =>
    have hf := hi.wownid
    inv_auto
  case rownid =>
    have hf := hi.rownid
    inv_auto
  case leaddata =>
    have hf := hi.leaddata
    inv_auto
  case qkeys =>
    have hf := hi.qkeys
    inv_auto
  case qreq =>
    have hf := hi.qreq
    inv_auto
  case qlive =>
    have hf := hi.qlive
    inv_auto
  case liveq =>
    have hf := hi.liveq
    inv_auto
  case liveuniq =>
    have hf := hi.liveuniq
    inv_auto
  case histlt =>
    have hf := hi.histlt
    inv_auto
  case histnoup =>
    have hf := hi.histnoup
    inv_auto
  case histuniq =>
    have hf := hi.histuniq
    inv_auto
  case histrole =>
    have hf := hi.histrole
    inv_auto
  case upnotdone =>
    have hf := hi.upnotdone
    inv_auto
  case gothist =>
    have hf := hi.gothist
    inv_auto
  case pubdone =>
    have hf := hi.pubdone
    inv_auto
  case donehist =>
    have hf := hi.donehist
    inv_auto
  case wretdone =>
    have hf := hi.wretdone
    inv_auto
  case rretdone =>
    have hf := hi.rretdone
    inv_auto
  case notdone =>
    have hf := hi.notdone
    inv_auto

theorem inv_rpeek_wait {roles s} {t id r : Nat} (hi : Inv roles s)
    (hc : s.callers[t]? = some (.rstart id)) (hq : (id, r) ∈ s.queue) :
    Inv roles (setC s t (.rwait r)) := by
  have hlt := lt_of_getElem? hc
  have hx1 := hi.qreq id r hq
  have hx2 := hi.rstartid t id hc
  constructor
  case len =>
    have hf := hi.len
    inv_auto
  case wstartid =>
    have hf := hi.wstartid
    inv_auto
  case rstartid =>
    have hf := hi.rstartid
    inv_auto
  case wownid =>
    have hf := hi.wownid
    inv_auto
  case rownid =>
    have hf := hi.rownid
    inv_auto
  case leaddata =>
    have hf := hi.leaddata
    inv_auto
  case qkeys =>
    have hf := hi.qkeys
    inv_auto
  case qreq =>
    have hf := hi.qreq
    inv_auto
  case qlive =>
    have hf := hi.qlive
    inv_auto
  case liveq =>
    have hf := hi.liveq
    inv_auto
  case liveuniq =>
    have hf := hi.liveuniq
    inv_auto
  case histlt =>
    have hf := hi.histlt
    inv_auto
  case histnoup =>
    have hf := hi.histnoup
    inv_auto
  case histuniq =>
    have hf := hi.histuniq
    inv_auto
  case histrole =>
    have hf := hi.histrole
    inv_auto
  case upnotdone =>
    have hf := hi.upnotdone
    inv_auto
  case gothist =>
    have hf := hi.gothist
    inv_auto
  case pubdone =>
    have hf := hi.pubdone
    inv_auto
  case donehist =>
    have hf := hi.donehist
    inv_auto
  case wretdone =>
    have hf := hi.wretdone
    inv_auto
  case rretdone =>
    have hf := hi.rretdone
    inv_auto
  case notdone =>
    have hf := hi.notdone
    inv_auto

theorem inv_rpeek_pass {roles s} {t id : Nat} (hi : Inv roles s)
    (hc : s.callers[t]? = some (.rstart id)) :
    Inv roles (setC s t (.rpass id)) := by
  have hlt := lt_of_getElem? hc
  constructor
  case len =>
    have hf := hi.len
    inv_auto
  case wstartid =>
    have hf := hi.wstartid
    inv_auto
  case rstartid =>
    have hf := hi.rstartid
    inv_auto
  case wownid =>
    have hf := hi.wownid
    inv_auto
  case rownid =>
    have hf := hi.rownid
    inv_auto
  case leaddata =>
    have hf := hi.leaddata
    inv_auto
  case qkeys =>
    have hf := hi.qkeys
    inv_auto
  case qreq =>
    have hf := hi.qreq
    inv_auto
  case qlive =>
    have hf := hi.qlive
    inv_auto
  case liveq =>
    have hf := hi.liveq
    inv_auto
  case liveuniq =>
    have hf := hi.liveuniq
    inv_auto
  case histlt =>
    have hf := hi.histlt
    inv_auto
  case histnoup =>
    have hf := hi.histnoup
    inv_auto
  case histuniq =>
    have hf := hi.histuniq
    inv_auto
  case histrole =>
    have hf := hi.histrole
    inv_auto
  case upnotdone =>
    have hf := hi.upnotdone
    inv_auto
  case gothist =>
    have hf := hi.gothist
    inv_auto
  case pubdone =>
    have hf := hi.pubdone
    inv_auto
  case donehist =>
    have hf := hi.donehist
    inv_auto
  case wretdone =>
    have hf := hi.wretdone
    inv_auto
  case rretdone =>
    have hf := hi.rretdone
    inv_auto
  case notdone =>
    have hf := hi.notdone
    inv_auto

theorem inv_rwake {roles s} {t r : Nat} {q : Req} (hi : Inv roles s)
    (hc : s.callers[t]? = some (.rwait r)) (hq : s.reqs[r]? = some q) (hd : q.done = true) :
    Inv roles (setC s t (.rreturned q.val q.err r)) := by
  have hlt := lt_of_getElem? hc
  have hx1 := hi.rownid t _ r hc rfl
  constructor
  case len =>
    have hf := hi.len
    inv_auto
  case wstartid =>
    have hf := hi.wstartid
    inv_auto
  case rstartid =>
    have hf := hi.rstartid
    inv_auto
  case wownid =>
    have hf := hi.wownid
    inv_auto
  case rownid =>
    have hf := hi.rownid
    inv_auto
  case leaddata =>
    have hf := hi.leaddata
    inv_auto
  case qkeys =>
    have hf := hi.qkeys
    inv_auto
  case qreq =>
    have hf := hi.qreq
    inv_auto
  case qlive =>
    have hf := hi.qlive
    inv_auto
  case liveq =>
    have hf := hi.liveq
    inv_auto
  case liveuniq =>
    have hf := hi.liveuniq
    inv_auto
  case histlt =>
    have hf := hi.histlt
    inv_auto
  case histnoup =>
    have hf := hi.histnoup
    inv_auto
  case histuniq =>
    have hf := hi.histuniq
    inv_auto
  case histrole =>
    have hf := hi.histrole
    inv_auto
  case upnotdone =>
    have hf := hi.upnotdone
    inv_auto
  case gothist =>
    have hf := hi.gothist
    inv_auto
  case pubdone =>
    have hf := hi.pubdone
    inv_auto
  case donehist =>
    have hf := hi.donehist
    inv_auto
  case wretdone =>
    have hf := hi.wretdone
    inv_auto
  case rretdone =>
    have hf := hi.rretdone
    inv_auto
  case notdone =>
    have hf := hi.notdone
    inv_auto

theorem inv_wupRet {roles s} {t r d e : Nat} (hi : Inv roles s)
    (hc : s.callers[t]? = some (.wupstream r d)) :
    Inv roles { setC s t (.wgot r d e) with upHist := (r, d, e) :: s.upHist } := by
  have hlt := lt_of_getElem? hc
  have hx1 := hi.wownid t _ r hc rfl
  have hx2 := hi.leaddata t _ d hc rfl
  have hx3 := hi.upnotdone t r d hc
  obtain ⟨hu1, hu2, hu3⟩ := hi.lead_unique hc rfl
  constructor
  case len =>
    have hf := hi.len
    inv_auto
  case wstartid =>
    have hf := hi.wstartid
    inv_auto
  case rstartid =>
    have hf := hi.rstartid
    inv_auto
  case wownid =>
    have hf := hi.wownid
    inv_auto
  case rownid =>
    have hf := hi.rownid
    inv_auto
  case leaddata =>
    have hf := hi.leaddata
    inv_auto
  case qkeys =>
    have hf := hi.qkeys
    inv_auto
  case qreq =>
    have hf := hi.qreq
    inv_auto
  case qlive =>
    have hf := hi.qlive
    inv_simp
    intro id r' hm
    obtain ⟨t0, c0, hc0, hl0⟩ := hf id r' hm
    by_cases htt : t = t0
    · subst htt
      refine ⟨t, .wgot r d e, by simp [hlt], ?_⟩
      grind [C.wlead]
    · exact ⟨t0, c0, by simp [htt, hc0], hl0⟩
  case liveq =>
    have hf := hi.liveq
    inv_auto
  case liveuniq =>
    have hf := hi.liveuniq
    inv_auto
  case histlt =>
    have hf := hi.histlt
    have hn := hi.histnoup
    inv_auto
  case histnoup =>
    have hf := hi.histnoup
    inv_simp
    intro r' d' e' t' d'' hm
    by_cases htt : t = t'
    · simp [htt]
    · simp only [htt, if_false]
      rcases hm with ⟨rfl, rfl, rfl⟩ | hm
      · intro hc'
        exact htt (hu1 t' _ hc')
      · exact hf r' d' e' t' d'' hm
  case histuniq =>
    have hf := hi.histuniq
    have hn := hi.histnoup
    inv_auto
  case histrole =>
    have hf := hi.histrole
    inv_auto
  case upnotdone =>
    have hf := hi.upnotdone
    inv_auto
  case gothist =>
    have hf := hi.gothist
    inv_auto
  case pubdone =>
    have hf := hi.pubdone
    inv_auto
  case donehist =>
    have hf := hi.donehist
    inv_auto
  case wretdone =>
    have hf := hi.wretdone
    inv_auto
  case rretdone =>
    have hf := hi.rretdone
    inv_auto
  case notdone =>
    have hf := hi.notdone
    inv_auto

theorem inv_wmarkDone {roles s} {t r d e : Nat} (hi : Inv roles s)
    (hc : s.callers[t]? = some (.wgot r d e)) :
    Inv roles { setC s t (.wpublished r d e) with
                reqs := s.reqs.modify r fun q => { q with done := true, val := d, err := e } } := by
  have hlt := lt_of_getElem? hc
  obtain ⟨hg1, q0, hg2, hg3⟩ := hi.gothist t r d e hc
  obtain ⟨hu1, hu2, hu3⟩ := hi.lead_unique hc rfl
  constructor
  case len =>
    have hf := hi.len
    inv_auto
  case wstartid =>
    have hf := hi.wstartid
    inv_auto
  case rstartid =>
    have hf := hi.rstartid
    inv_auto
  case wownid =>
    have hf := hi.wownid
    inv_simp
    intro t' c' r' h' hr'
    have key : ∃ q d0, s.reqs[r']? = some q ∧ roles[t']? = some (.writer q.id d0) := by
      by_cases htt : t = t'
      · subst htt; simp [hlt] at h'; subst h'; simp [C.wreq] at hr'; subst hr'; exact hf t _ r hc rfl
      · simp only [htt, if_false] at h'; exact hf t' c' r' h' hr'
    obtain ⟨q, d0, h1, h2⟩ := key
    by_cases hr : r = r'
    · subst hr
      refine ⟨{ q with done := true, val := d, err := e }, d0, ?_, h2⟩
      simp [List.getElem?_modify, h1]
    · exact ⟨q, d0, by simp [List.getElem?_modify, hr, h1], h2⟩
  case rownid =>
    have hf := hi.rownid
    inv_auto
  case leaddata =>
    have hf := hi.leaddata
    inv_auto
  case qkeys =>
    have hf := hi.qkeys
    inv_auto
  case qreq =>
    have hf := hi.qreq
    inv_auto
  case qlive =>
    have hf := hi.qlive
    inv_auto
  case liveq =>
    have hf := hi.liveq
    inv_auto
  case liveuniq =>
    have hf := hi.liveuniq
    inv_auto
  case histlt =>
    have hf := hi.histlt
    inv_auto
  case histnoup =>
    have hf := hi.histnoup
    inv_auto
  case histuniq =>
    have hf := hi.histuniq
    inv_auto
  case histrole =>
    have hf := hi.histrole
    inv_auto
  case upnotdone =>
    have hf := hi.upnotdone
    inv_auto
  case gothist =>
    have hf := hi.gothist
    inv_auto
  case pubdone =>
    have hf := hi.pubdone
    inv_auto
  case donehist =>
    have hf := hi.donehist
    inv_auto
  case wretdone =>
    have hf := hi.wretdone
    inv_auto
  case rretdone =>
    have hf := hi.rretdone
    inv_auto
  case notdone =>
    have hf := hi.notdone
    inv_auto

theorem inv_wdelete {roles s} {t r d e : Nat} (hi : Inv roles s)
    (hc : s.callers[t]? = some (.wpublished r d e)) :
    Inv roles { setC s t (.wreturned e r) with
                queue := s.queue.filter (·.1 ≠ (s.reqs.getD r { id := 0 }).id) } := by
  have hlt := lt_of_getElem? hc
  obtain ⟨hp1, q0, hp2, hp3, hp4, hp5⟩ := hi.pubdone t r d e hc
  have hgd : (s.reqs.getD r { id := 0 }).id = q0.id := by simp [List.getD, hp2]
  rw [hgd]
  have hx1 := hi.wownid t _ r hc rfl
  constructor
  case len =>
    have hf := hi.len
    inv_auto
  case wstartid =>
    have hf := hi.wstartid
    inv_auto
  case rstartid =>
    have hf := hi.rstartid
    inv_auto
  case wownid =>
    have hf := hi.wownid
    inv_auto
  case rownid =>
    have hf := hi.rownid
    inv_auto
  case leaddata =>
    have hf := hi.leaddata
    inv_auto
  case qkeys =>
    have hf := hi.qkeys
    inv_auto
  case qreq =>
    have hf := hi.qreq
    inv_auto
  case qlive =>
    have hf := hi.qlive
    have hqr := hi.qreq
    inv_simp
    intro id' r' ⟨hm, hne⟩
    obtain ⟨t0, c0, h0, hl0⟩ := hf id' r' hm
    by_cases htt : t = t0
    · subst htt
      exfalso
      grind [C.wlead]
    · exact ⟨t0, c0, by simp [htt, h0], hl0⟩
  case liveq =>
    have hf := hi.liveq
    have hqk := hi.qkeys
    obtain ⟨hu1, hu2, hu3⟩ := hi.lead_unique hc rfl
    have hmine := hi.liveq t _ r hc rfl
    inv_simp
    intro t' c' r' h' hl'
    by_cases htt : t = t'
    · subst htt
      simp [hlt] at h'
      subst h'
      simp [C.wlead] at hl'
    · simp only [htt, if_false] at h'
      obtain ⟨q, hq1, hq2⟩ := hf t' c' r' h' hl'
      refine ⟨q, hq1, hq2, ?_⟩
      have : q.id ≠ q0.id := by
        intro heq
        have : r' = r := by grind
        subst this
        cases c' <;> grind [C.wlead]
      simpa using this
  case liveuniq =>
    have hf := hi.liveuniq
    inv_auto
  case histlt =>
    have hf := hi.histlt
    inv_auto
  case histnoup =>
    have hf := hi.histnoup
    inv_auto
  case histuniq =>
    have hf := hi.histuniq
    inv_auto
  case histrole =>
    have hf := hi.histrole
    inv_auto
  case upnotdone =>
    have hf := hi.upnotdone
    inv_auto
  case gothist =>
    have hf := hi.gothist
    inv_auto
  case pubdone =>
    have hf := hi.pubdone
    inv_auto
  case donehist =>
    have hf := hi.donehist
    inv_auto
  case wretdone =>
    have hf := hi.wretdone
    inv_auto
  case rretdone =>
    have hf := hi.rretdone
    inv_auto
  case notdone =>
    have hf := hi.notdone
    inv_auto

theorem inv_wcall_lead {roles s} {t id d : Nat} (hi : Inv roles s)
    (hc : s.callers[t]? = some (.wstart id d)) (hq : ∀ r, (id, r) ∉ s.queue) :
    Inv roles { setC s t (.wupstream s.reqs.length d) with
                queue := (id, s.reqs.length) :: s.queue, reqs := s.reqs ++ [{ id }] } := by
  have hlt := lt_of_getElem? hc
  have hx1 := hi.wstartid t id d hc
  constructor
  case len =>
    have hf := hi.len
    inv_auto
  case wstartid =>
    have hf := hi.wstartid
    inv_auto
  case rstartid =>
    have hf := hi.rstartid
    inv_auto
  case wownid =>
    have hf := hi.wownid
    inv_simp
    intro t' c' r' h' hr'
    by_cases htt : t = t'
    · subst htt
      simp [hlt] at h'
      subst h'
      simp [C.wreq] at hr'
      subst hr'
      exact ⟨_, d, append_new, hx1⟩
    · simp only [htt, if_false] at h'
      obtain ⟨q, d0, h1, h2⟩ := hf t' c' r' h' hr'
      exact ⟨q, d0, append_old h1, h2⟩
  case rownid =>
    have hf := hi.rownid
    inv_simp
    intro t' c' r' h' hr'
    by_cases htt : t = t'
    · subst htt
      simp [hlt] at h'
      subst h'
      simp [C.rreq] at hr'
    · simp only [htt, if_false] at h'
      obtain ⟨q, h1, h2⟩ := hf t' c' r' h' hr'
      exact ⟨q, append_old h1, h2⟩
  case leaddata =>
    have hf := hi.leaddata
    inv_auto
  case qkeys =>
    have hf := hi.qkeys
    inv_auto
  case qreq =>
    have hf := hi.qreq
    inv_simp
    intro id' r' h
    rcases h with ⟨rfl, rfl⟩ | hm
    · exact ⟨_, append_new, rfl⟩
    · obtain ⟨q, h1, h2⟩ := hf id' r' hm
      exact ⟨q, append_old h1, h2⟩
  case qlive =>
    have hf := hi.qlive
    inv_auto
  case liveq =>
    have hf := hi.liveq
    inv_simp
    intro t' c' r' h' hr'
    by_cases htt : t = t'
    · subst htt
      simp [hlt] at h'
      subst h'
      simp [C.wlead] at hr'
      subst hr'
      exact ⟨_, append_new, .inl ⟨rfl, rfl⟩⟩
    · simp only [htt, if_false] at h'
      obtain ⟨q, h1, h2⟩ := hf t' c' r' h' hr'
      exact ⟨q, append_old h1, .inr h2⟩
  case liveuniq =>
    have hf := hi.liveuniq
    have hlq := hi.liveq
    inv_auto
  case histlt =>
    have hf := hi.histlt
    inv_auto
  case histnoup =>
    have hf := hi.histnoup
    have hlq := hi.histlt
    inv_auto
  case histuniq =>
    have hf := hi.histuniq
    inv_auto
  case histrole =>
    have hf := hi.histrole
    inv_simp
    intro r' d' e' hm
    obtain ⟨tl, q, h1, h2⟩ := hf r' d' e' hm
    exact ⟨tl, q, append_old h1, h2⟩
  case upnotdone =>
    have hf := hi.upnotdone
    inv_simp
    intro t' r' d' h'
    by_cases htt : t = t'
    · subst htt
      simp [hlt] at h'
      obtain ⟨rfl, rfl⟩ := h'
      exact ⟨_, append_new, rfl⟩
    · simp only [htt, if_false] at h'
      obtain ⟨q, h1, h2⟩ := hf t' r' d' h'
      exact ⟨q, append_old h1, h2⟩
  case gothist =>
    have hf := hi.gothist
    inv_auto
  case pubdone =>
    have hf := hi.pubdone
    inv_auto
  case donehist =>
    have hf := hi.donehist
    inv_auto
  case wretdone =>
    have hf := hi.wretdone
    inv_auto
  case rretdone =>
    have hf := hi.rretdone
    inv_auto
  case notdone =>
    have hf := hi.notdone
    inv_simp
    intro r' q' h' hd'
    by_cases hr : r' < s.reqs.length
    · rw [List.getElem?_append_left hr] at h'
      obtain ⟨t0, h0⟩ := hf r' q' h' hd'
      have htt : t ≠ t0 := by
        rintro rfl
        rcases h0 with ⟨d0, h0⟩ | ⟨d0, e0, h0⟩ <;> simp [hc] at h0
      exact ⟨t0, by simpa [htt] using h0⟩
    · have : r' = s.reqs.length := by
        have := lt_of_getElem? h'
        simp at this
        omega
      subst this
      exact ⟨t, .inl ⟨d, by simp [hlt]⟩⟩

theorem inv_step {roles s s'} {e : Ev} (hi : Inv roles s) (h : step s e = some s') : Inv roles s' := by
  cases e with
  | wcall t =>
    obtain ⟨id, d, hc, ⟨r, hr, rfl⟩ | ⟨hn, rfl⟩⟩ := step_wcall_inv h
    · exact inv_wcall_follow hi hc (mem_of_lookup hr)
    · exact inv_wcall_lead hi hc (not_mem_of_lookup hn)
  | wupRet t e =>
    obtain ⟨r, d, hc, rfl⟩ := step_wupRet_inv h
    exact inv_wupRet hi hc
  | wmarkDone t =>
    obtain ⟨r, d, e, hc, rfl⟩ := step_wmarkDone_inv h
    exact inv_wmarkDone hi hc
  | wdelete t =>
    obtain ⟨r, d, e, hc, rfl⟩ := step_wdelete_inv h
    exact inv_wdelete hi hc
  | wwake t =>
    obtain ⟨r, q, hc, hq, hd, rfl⟩ := step_wwake_inv h
    exact inv_wwake hi hc hq hd
  | rpeek t =>
    obtain ⟨id, hc, ⟨r, hr, rfl⟩ | ⟨hn, rfl⟩⟩ := step_rpeek_inv h
    · exact inv_rpeek_wait hi hc (mem_of_lookup hr)
    · exact inv_rpeek_pass hi hc
  | rwake t =>
    obtain ⟨r, q, hc, hq, hd, rfl⟩ := step_rwake_inv h
    exact inv_rwake hi hc hq hd

theorem inv_reachable {roles s} (h : Reachable (St.init roles) s) : Inv roles s := by
  induction h with
  | refl => exact inv_init roles
  | step e _ hs ih => exact inv_step ih hs

end Desync.WDedup
