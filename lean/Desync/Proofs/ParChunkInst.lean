/-
  The abstract parallel-chunker theorems (`ParChunkProofs.lean`, proved for every environment with `EnvOK`)
  instantiated with the real chunker model: `Par.envOf p data n` (`Model/ParChunkEnv.lean`) satisfies `EnvOK`
  with `zero x` = "byte x of the file is zero", and the machine's single-stream sequence is `chunkAll p data`.
  DESIGN section 6, C02.
-/
import Desync.Proofs.ParChunkProofs
import Desync.Proofs.ChunkerProofs
import Desync.Model.ParChunkEnv

namespace Desync.Par

/-- byte x of the file is zero -/
def zeroAt (data : Bytes) (x : Nat) : Prop := data[x]? = some 0

/-! ## zero ranges -/

/-- a segment inside the file is a block of zeros iff every byte of it is zero -/
theorem seg_eq_replicate (data : Bytes) (a m : Nat) (_h : a + m ≤ data.length) :
    (data.drop a).take m = List.replicate m 0 ↔ ∀ x, a ≤ x → x < a + m → data[x]? = some 0 := by
  constructor
  · intro heq x h1 h2
    have hx : ((data.drop a).take m)[x - a]? = some 0 := by
      rw [heq, List.getElem?_replicate, if_pos (by omega)]
    rw [List.getElem?_take, if_pos (by omega), List.getElem?_drop] at hx
    have : a + (x - a) = x := by omega
    rw [this] at hx
    exact hx
  · intro hz
    apply List.ext_getElem?
    intro t
    rw [List.getElem?_take, List.getElem?_replicate]
    by_cases ht : t < m
    · rw [if_pos ht, if_pos ht, List.getElem?_drop]
      exact hz (a + t) (by omega) (by omega)
    · rw [if_neg ht, if_neg ht]

theorem all_zero_iff (l : Bytes) : l.all (· == 0) = true ↔ l = List.replicate l.length 0 := by
  rw [List.all_eq_true, List.eq_replicate_iff]
  constructor
  · intro h; exact ⟨rfl, fun b hb => by simpa using h b hb⟩
  · intro h b hb; simpa using h.2 b hb

theorem allZero_iff (data : Bytes) (a b : Nat) (hb : b ≤ data.length) :
    allZero data a b = true ↔ ∀ x, a ≤ x → x < b → data[x]? = some 0 := by
  unfold allZero
  rw [all_zero_iff]
  have hlen : ((data.drop a).take (b - a)).length = b - a := by
    rw [List.length_take, List.length_drop]; omega
  rw [hlen]
  by_cases hab : a ≤ b
  · rw [seg_eq_replicate data a (b - a) (by omega)]
    have : a + (b - a) = b := by omega
    rw [this]
  · have h0 : b - a = 0 := by omega
    rw [h0]
    simp only [List.take_zero, List.replicate_zero, true_iff]
    intro x h1 h2; omega

/-- a position followed by `m` zero bytes: the rest of the file from there on starts with `m` zeros -/
theorem drop_eq_replicate_append (data : Bytes) (pos m : Nat) (h : pos + m ≤ data.length)
    (hz : ∀ x, pos ≤ x → x < pos + m → data[x]? = some 0) :
    data.drop pos = List.replicate m 0 ++ data.drop (pos + m) := by
  have h1 : data.drop pos = (data.drop pos).take m ++ (data.drop pos).drop m := (List.take_append_drop m _).symm
  rw [List.drop_drop, (seg_eq_replicate data pos m h).mpr hz] at h1
  exact h1

/-! ## the chunker's cut on zeros -/

/-- what `isNull` of `envOf` says -/
theorem envOf_isNull_iff (p : ChunkParams) (data : Bytes) (n : Nat) (c : Chunk) :
    (envOf p data n).isNull c = true ↔
      c.size = p.max ∧ c.fin ≤ data.length ∧ allZero data c.start c.fin = true ∧ cutRoll p (data.drop c.start) = c.size := by
  simp only [envOf, Bool.and_eq_true, beq_iff_eq, decide_eq_true_eq, and_assoc]

/-- if some chunk of the file has the null chunk's ID then `max` zero bytes cut at `max` -/
theorem cutRoll_zeros_of_null (p : ChunkParams) (data : Bytes) (n : Nat) (hw : winSize ≤ p.min) (hmm : p.min ≤ p.max)
    (c0 : Chunk) (h0 : (envOf p data n).isNull c0 = true) : cutRoll p (List.replicate p.max 0) = p.max := by
  obtain ⟨h1, h2, h3, h4⟩ := (envOf_isNull_iff p data n c0).mp h0
  have hfin : c0.fin = c0.start + p.max := by simp only [Chunk.fin, h1]
  rw [hfin] at h2 h3
  have hz := (allZero_iff data c0.start (c0.start + p.max) h2).mp h3
  have hd := drop_eq_replicate_append data c0.start p.max h2 hz
  rw [hd, cutRoll_prefix_of_min p _ _ hmm (by simp) hw, h1] at h4
  exact h4

/-! ## the worker offsets -/

theorem offsetsOf_eq (size max n : Nat) (hn : 1 ≤ n) :
    ∃ n', 1 ≤ n' ∧ offsetsOf size max n = (List.range n').map fun i => size / n' * i := by
  refine ⟨if Gen.parNNCond (Gen.parNN size max) n then Gen.parNN size max else n, ?_, rfl⟩
  split
  · exact Nat.le_add_left 1 _
  · exact hn

/-! ## `EnvOK` -/

theorem envOf_ok (p : ChunkParams) (data : Bytes) (n : Nat) (hw : winSize ≤ p.min) (hmm : p.min ≤ p.max) (hn : 1 ≤ n) :
    EnvOK (envOf p data n) (zeroAt data) where
  max_pos := by
    have := winSize_eq
    show 0 < p.max
    omega
  cut_pos := by
    intro pos hpos
    have hmax : 0 < p.max := by have := winSize_eq; omega
    have hpos : pos < data.length := hpos
    show 0 < cutRoll p (data.drop pos)
    apply cutRoll_pos p _ hmax
    intro h
    have := congrArg List.length h
    simp only [List.length_drop, List.length_nil] at this
    omega
  cut_le := by
    intro pos hpos
    have hpos : pos < data.length := hpos
    show pos + cutRoll p (data.drop pos) ≤ data.length
    have := cutRoll_le_length p (data.drop pos)
    rw [List.length_drop] at this
    omega
  null_zero := by
    intro c hc
    obtain ⟨h1, h2, h3, _⟩ := (envOf_isNull_iff p data n c).mp hc
    exact ⟨h1, (allZero_iff data c.start c.fin h2).mp h3⟩
  zero_cut := by
    intro pos ⟨c0, h0⟩ hle hz
    have hle : pos + p.max ≤ data.length := hle
    have hz : ∀ x, pos ≤ x → x < pos + p.max → data[x]? = some 0 := hz
    have hrep := cutRoll_zeros_of_null p data n hw hmm c0 h0
    have hd := drop_eq_replicate_append data pos p.max hle hz
    have hcut : cutRoll p (data.drop pos) = p.max := by
      rw [hd, cutRoll_prefix_of_min p _ _ hmm (by simp) hw, hrep]
    refine ⟨hcut, ?_⟩
    rw [envOf_isNull_iff]
    refine ⟨rfl, hle, ?_, hcut⟩
    exact (allZero_iff data pos (pos + p.max) hle).mpr hz
  offsets_head := by
    show (offsetsOf data.length p.max n).head? = some 0
    obtain ⟨n', this, heq⟩ := offsetsOf_eq data.length p.max n hn
    rw [heq]
    obtain ⟨k, rfl⟩ : ∃ k, n' = k + 1 := ⟨n' - 1, by omega⟩
    rw [List.range_succ_eq_map]
    simp only [List.map_cons, List.head?_cons, Nat.mul_zero]
  offsets_le := by
    intro o ho
    have ho : o ∈ offsetsOf data.length p.max n := ho
    show o ≤ data.length
    obtain ⟨n', _, heq⟩ := offsetsOf_eq data.length p.max n hn
    rw [heq] at ho
    rw [List.mem_map] at ho
    obtain ⟨i, hi, rfl⟩ := ho
    rw [List.mem_range] at hi
    calc data.length / n' * i ≤ data.length / n' * n' := Nat.mul_le_mul_left _ (by omega)
      _ ≤ data.length := Nat.div_mul_le_self _ _
  offsets_sorted := by
    show (offsetsOf data.length p.max n).Pairwise (· ≤ ·)
    obtain ⟨n', _, heq⟩ := offsetsOf_eq data.length p.max n hn
    rw [heq, List.pairwise_map]
    exact List.Pairwise.imp (fun {a b} (h : a < b) => Nat.mul_le_mul_left _ (Nat.le_of_lt h)) List.pairwise_lt_range

/-! ## the single-stream sequence -/

theorem seqFrom_envOf (p : ChunkParams) (data : Bytes) (n : Nat) (hmax : 0 < p.max) :
    ∀ (fuel pos : Nat), data.length ≤ pos + fuel →
      (seqFrom (envOf p data n) fuel pos).map (fun c => (c.start, c.size)) = chunkAllFrom pos (chunkLens p (data.drop pos))
  | 0, pos, h => by
    have : data.drop pos = [] := List.drop_eq_nil_of_le (by omega)
    rw [this, chunkLens_nil]; rfl
  | fuel + 1, pos, h => by
    simp only [seqFrom]
    by_cases hp : pos ≥ (envOf p data n).size
    · rw [if_pos hp]
      have hp : pos ≥ data.length := hp
      have : data.drop pos = [] := List.drop_eq_nil_of_le hp
      rw [this, chunkLens_nil]; rfl
    · rw [if_neg hp]
      have hp' : pos < data.length := by
        have : ¬ pos ≥ data.length := hp
        omega
      have hne : data.drop pos ≠ [] := by
        intro h
        have := congrArg List.length h
        simp only [List.length_drop, List.length_nil] at this
        omega
      have hcp := cutRoll_pos p _ hmax hne
      rw [chunkLens_cons p _ hmax hne, chunkAllFrom, List.drop_drop]
      simp only [List.map_cons]
      show (pos, cutRoll p (data.drop pos)) :: _ = _
      congr 1
      exact seqFrom_envOf p data n hmax fuel (pos + cutRoll p (data.drop pos)) (by omega)

/-- the machine's single-stream sequence is the chunker model's `chunkAll` -/
theorem seqAll_envOf (p : ChunkParams) (data : Bytes) (n : Nat) (hw : winSize ≤ p.min) (hmm : p.min ≤ p.max) :
    (seqAll (envOf p data n)).map (fun c => (c.start, c.size)) = chunkAll p data := by
  have hmax : 0 < p.max := by have := winSize_eq; omega
  have := seqFrom_envOf p data n hmax (data.length + 1) 0 (by omega)
  rw [List.drop_zero] at this
  exact this

/-- MAIN: for every input, valid parameters, every requested worker count and every interleaving: when `IndexFromFile`'s main
    routine finishes it reports success and the index is the single-stream chunk sequence -/
theorem parallel_eq_chunkAll (p : ChunkParams) (data : Bytes) (n : Nat) (hw : winSize ≤ p.min) (hmm : p.min ≤ p.max) (hn : 1 ≤ n)
    (s : St) (hr : Reachable (envOf p data n) (init (envOf p data n)) s) (ok : Bool) (hf : s.main = .finished ok) :
    ok = true ∧ s.index.map (fun c => (c.start, c.size)) = chunkAll p data := by
  obtain ⟨h1, h2⟩ := parallel_eq_sequential _ _ (envOf_ok p data n hw hmm hn) s hr ok hf
  exact ⟨h1, by rw [h2]; exact seqAll_envOf p data n hw hmm⟩

/-- at every moment the index is a prefix of the single-stream chunk sequence -/
theorem index_prefix_chunkAll (p : ChunkParams) (data : Bytes) (n : Nat) (hw : winSize ≤ p.min) (hmm : p.min ≤ p.max) (hn : 1 ≤ n)
    (s : St) (hr : Reachable (envOf p data n) (init (envOf p data n)) s) :
    s.index.map (fun c => (c.start, c.size)) <+: chunkAll p data := by
  rw [← seqAll_envOf p data n hw hmm]
  exact (index_prefix _ _ (envOf_ok p data n hw hmm hn) s hr).map _

/-- every null chunk a worker is about to synthesise after `Advance` (pc = `advance last k`) covers `max` zero bytes and is the
    chunk the chunker would have produced there — so labelling it with the null chunk's ID is right -/
theorem synthesised_null_chunks_genuine (p : ChunkParams) (data : Bytes) (n : Nat) (hw : winSize ≤ p.min) (hmm : p.min ≤ p.max) (hn : 1 ≤ n)
    (s : St) (hr : Reachable (envOf p data n) (init (envOf p data n)) s) (i : Nat) (w : Worker) (last : Chunk) (k : Nat)
    (hwk : s.workers[i]? = some w) (hpc : w.pc = .advance last k) :
    ∀ j, j < k → (envOf p data n).isNull ⟨last.fin + j * p.max, p.max⟩ = true := by
  intro j hj
  have hE := envOf_ok p data n hw hmm hn
  have hl := (Inv.reachable hE hr).loc i w hwk
  have hpos : w.pos ≤ data.length := hl.pos_le
  have hpcl := hl.pc_ok
  simp only [PcLocal, hpc] at hpcl
  obtain ⟨_, hfin, hz, hnull⟩ := hpcl
  have hfin : last.fin + k * p.max = w.pos := hfin
  have hmul : (j + 1) * p.max ≤ k * p.max := Nat.mul_le_mul_right _ (by omega)
  rw [Nat.add_mul, Nat.one_mul] at hmul
  have := hE.zero_cut (last.fin + j * p.max) ⟨last, hnull⟩
    (by show last.fin + j * p.max + p.max ≤ data.length; omega)
    (by
      intro x h1 h2
      have h2 : x < last.fin + j * p.max + p.max := h2
      exact hz x (by omega) (by omega))
  exact this.2

/-! ## the start of a bucket never moves backwards

  Every step leaves the start (`front`) of every worker's bucket where it is or moves it forward, so a worker's bucket
  always lies between its start offset and the end of the file; with `cut ≥ min` for every chunk but the last of the file
  that bounds the number of chunks in it by the capacity `IndexFromFile` gives the channel. -/

section FrontMono

variable {e : Env} {zero : Nat → Prop}

/-- every worker of `ws'` is a worker of `ws` whose bucket start has not moved backwards -/
def FM (ws ws' : List Worker) : Prop :=
  ∀ (x : Nat) (w' : Worker), ws'[x]? = some w' → ∃ w, ws[x]? = some w ∧ front w ≤ front w'

theorem FM.refl (ws : List Worker) : FM ws ws := fun _ w' h => ⟨w', h, Nat.le_refl _⟩

theorem FM.trans {a b c : List Worker} (h1 : FM a b) (h2 : FM b c) : FM a c := by
  intro x w'' hx
  obtain ⟨w', hx', hle'⟩ := h2 x w'' hx
  obtain ⟨w, hx0, hle⟩ := h1 x w' hx'
  exact ⟨w, hx0, Nat.le_trans hle hle'⟩

theorem FM.upd {s : St} {i : Nat} {w : Worker} {f : Worker → Worker} (hw : s.workers[i]? = some w)
    (hf : front w ≤ front (f w)) : FM s.workers (setW s i f).workers := by
  intro x w' hx
  rw [getW_setW] at hx
  split at hx
  · rename_i hix
    subst hix
    rw [hw] at hx
    cases hx
    exact ⟨w, hw, hf⟩
  · exact ⟨w', hx, Nat.le_refl _⟩

theorem FM.upd_eq {s : St} {i : Nat} {w : Worker} {f : Worker → Worker} (hw : s.workers[i]? = some w)
    (hf : front (f w) = front w) : FM s.workers (setW s i f).workers :=
  FM.upd hw (by rw [hf]; exact Nat.le_refl _)

/-- worker `j` is updated first, then worker `i ≠ j` -/
theorem FM.upd2 {s : St} {i j : Nat} {w wj : Worker} {f g : Worker → Worker} (hij : i ≠ j)
    (hw : s.workers[i]? = some w) (hj : s.workers[j]? = some wj)
    (hf : front (f w) = front w) (hg : front wj ≤ front (g wj)) :
    FM s.workers (setW (setW s j g) i f).workers :=
  FM.trans (FM.upd hj hg) (FM.upd_eq (s := setW s j g) (by rw [getW_setW_ne _ _ _ _ hij]; exact hw) hf)

/-- taking the oldest chunk out of a bucket moves its start forward -/
theorem front_le_of_tail {w w' : Worker} (hrun : Run e (front w) w.bucket (endOf w)) (hb : w'.bucket = w.bucket.tail)
    (hend : endOf w' = endOf w) : front w ≤ front w' := by
  cases hbk : w.bucket with
  | nil =>
    rw [hbk] at hb
    rw [front_nil hbk, front_nil hb, hend]
    exact Nat.le_refl _
  | cons x rest =>
    rw [hbk] at hrun hb
    have ht := hrun.tail
    rw [front_cons hbk]
    have hx : x.start ≤ x.fin := by simp only [Chunk.fin]; omega
    cases hr : rest with
    | nil =>
      rw [hr] at ht hb
      simp only [Run] at ht
      rw [front_nil hb, hend, ← ht]
      exact hx
    | cons y r =>
      rw [hr] at ht hb
      rw [front_cons hb, ht.head_start]
      exact hx

/-- no step moves the start of a bucket backwards -/
theorem FM.of_step {s s' : St} (hI : Inv e zero s) (ev : Ev) (h : step e s ev = some s') : FM s.workers s'.workers := by
  cases ev with
  | produce i =>
    simp only [Desync.Par.step] at h
    split at h
    · rename_i w hw
      split at h
      · rename_i hpc
        split at h
        · cases h
          refine FM.upd_eq hw ?_; simp only [front, endOf, hpc]
        · cases h
          refine FM.upd_eq hw ?_
          cases hb : w.bucket <;> simp only [front, endOf, hpc, hb, List.nil_append, List.cons_append]
      · cases h
    · cases h
  | look i =>
    simp only [Desync.Par.step] at h
    split at h
    · rename_i w hw
      split at h
      · rename_i c hpc
        have hend : endOf w = w.pos := by simp only [endOf, hpc]
        split at h
        · cases h; refine FM.upd_eq hw ?_; exact front_update_pc _ hend rfl
        · cases h; refine FM.upd_eq hw ?_; exact front_update_pc _ hend rfl
      · cases h
    · cases h
  | pop i =>
    simp only [Desync.Par.step] at h
    split at h
    · rename_i w hw
      have hl := hI.loc i w hw
      split at h
      · rename_i c prev j hpc hnext
        have hend : endOf w = w.pos := by simp only [endOf, hpc]
        have hij : i ≠ j := by have := hl.nx_gt; rw [nxW_some hnext] at this; omega
        split at h
        · rename_i wj hj
          have hlj := hI.loc j wj hj
          split at h
          · split at h
            · cases h
              refine FM.upd2 hij hw hj ?_ ?_
              · exact (front_update_pc _ hend rfl)
              · exact front_le_of_tail hlj.run rfl rfl
            · cases h
              refine FM.upd2 hij hw hj ?_ ?_
              · exact (front_update_pc _ hend rfl)
              · exact (Nat.le_refl _)
            · cases h; refine FM.upd_eq hw ?_; exact front_update_pc _ hend rfl
          · cases h; refine FM.upd_eq hw ?_; exact front_update_pc _ hend rfl
        · cases h
      · cases h
    · cases h
  | decide i =>
    simp only [Desync.Par.step] at h
    split at h
    · rename_i w hw
      split at h
      · rename_i c prev j hpc hnext
        have hend : endOf w = w.pos := by simp only [endOf, hpc]
        split at h
        · split at h
          · cases h; refine FM.upd_eq hw ?_; exact front_update_pc _ hend rfl
          · split at h
            · split at h
              · cases h; refine FM.upd_eq hw ?_; exact front_update_pc _ hend rfl
              · cases h; refine FM.upd_eq hw ?_; exact front_update_pc _ hend rfl
            · cases h; refine FM.upd_eq hw ?_; exact front_update_pc _ hend rfl
        · cases h
      · cases h
    · cases h
  | scan i =>
    simp only [Desync.Par.step, Gen.parNumNull, Gen.parNStep] at h
    split at h
    · rename_i w hw
      have hl := hI.loc i w hw
      split at h
      · rename_i c n j hpc hnext
        have hend : endOf w = w.pos := by simp only [endOf, hpc]
        have hpcl := hl.pc_ok
        simp only [PcLocal, hpc] at hpcl
        have hij : i ≠ j := by have := hl.nx_gt; rw [nxW_some hnext] at this; omega
        have hfadv := front_advance (w := w) c (w.pos + n / e.max * e.max) (n / e.max) hend hpcl.2.1
        split at h
        · rename_i wj hj
          have hlj := hI.loc j wj hj
          split at h
          · split at h
            · cases h
              refine FM.upd2 hij hw hj ?_ ?_
              · exact (front_update_pc _ hend rfl)
              · exact front_le_of_tail hlj.run rfl rfl
            · cases h
              by_cases hk : n / e.max > 0
              · simp only [hk, ↓reduceIte]
                refine FM.upd2 hij hw hj ?_ ?_
                · exact hfadv
                · exact front_le_of_tail hlj.run rfl rfl
              · simp only [hk, ↓reduceIte]
                refine FM.upd2 hij hw hj ?_ ?_
                · exact (front_update_pc _ hend rfl)
                · exact front_le_of_tail hlj.run rfl rfl
          · cases h
            by_cases hk : n / e.max > 0
            · simp only [hk, ↓reduceIte]
              refine FM.upd2 hij hw hj ?_ ?_
              · exact hfadv
              · exact (Nat.le_refl _)
            · simp only [hk, ↓reduceIte]
              refine FM.upd2 hij hw hj ?_ ?_
              · exact (front_update_pc _ hend rfl)
              · exact (Nat.le_refl _)
          · cases h
            by_cases hk : n / e.max > 0
            · simp only [hk, ↓reduceIte]
              refine FM.upd_eq hw ?_; exact hfadv
            · simp only [hk, ↓reduceIte]
              refine FM.upd_eq hw ?_; exact front_update_pc _ hend rfl
        · cases h
      · cases h
    · cases h
  | pushNull i =>
    simp only [Desync.Par.step] at h
    split at h
    · rename_i w hw
      split at h
      · rename_i last k hpc
        have hend : endOf w = last.fin := by simp only [endOf, hpc]
        have hfr : ∀ (pc' : PC), front { w with bucket := w.bucket ++ [⟨last.fin, e.max⟩], pc := pc' } = front w := by
          intro pc'
          cases hb : w.bucket <;> simp only [front, hb, List.nil_append, List.cons_append]
          exact hend.symm
        split at h
        · cases h
        · split at h
          · cases h; refine FM.upd_eq hw ?_; exact hfr _
          · cases h; refine FM.upd_eq hw ?_; exact hfr _
      · cases h
    · cases h
  | skip i =>
    simp only [Desync.Par.step] at h
    split at h
    · rename_i w hw
      split at h
      · rename_i hpc
        split at h
        · split at h
          · split at h
            · cases h; refine FM.upd_eq hw ?_; simp only [front, endOf, hpc]
            · cases h; refine FM.upd_eq hw ?_; simp only [front, endOf, hpc]
          · cases h
        · cases h; refine FM.upd_eq hw ?_; simp only [front, endOf, hpc]
      · cases h
    · cases h
  | stop i =>
    simp only [Desync.Par.step] at h
    split at h
    · rename_i w hw
      split at h
      · rename_i hpc
        cases h; refine FM.upd_eq hw ?_; simp only [front, endOf, hpc]
      · cases h
    · cases h
  | close i =>
    simp only [Desync.Par.step] at h
    split at h
    · rename_i w hw
      split at h
      · rename_i hpc
        cases h; refine FM.upd_eq hw ?_; simp only [front, endOf, hpc]
      · cases h
    · cases h
  | mainPop =>
    simp only [Desync.Par.step] at h
    split at h
    · rename_i m hm
      split at h
      · rename_i w hw
        have hl := hI.loc m w hw
        split at h
        · rename_i c rest hb
          cases h
          show FM s.workers (setW s m fun w => { w with bucket := rest }).workers
          refine FM.upd hw ?_
          exact front_le_of_tail hl.run (by rw [hb]; rfl) rfl
        · cases h
      · cases h
    · cases h
  | mainNext =>
    simp only [Desync.Par.step] at h
    split at h
    · split at h
      · split at h
        · split at h
          · cases h; exact FM.refl _
          · split at h
            · cases h; exact FM.refl _
            · cases h; exact FM.refl _
        · cases h
      · cases h
    · cases h

/-- in every reachable state the bucket of worker i starts at or after the worker's start offset -/
theorem offset_le_front (hE : EnvOK e zero) {s : St} (hr : Reachable e (init e) s) :
    ∀ (i : Nat) (w : Worker) (o : Nat), s.workers[i]? = some w → e.offsets[i]? = some o → o ≤ front w := by
  induction hr with
  | refl =>
    intro i w o hw ho
    obtain ⟨o', ho', rfl⟩ := init_get hw
    rw [ho] at ho'; cases ho'
    exact Nat.le_refl _
  | step ev hr' hs ih =>
    intro i w' o hw' ho
    obtain ⟨w, hw, hle⟩ := FM.of_step (Inv.reachable hE hr') ev hs i w' hw'
    exact Nat.le_trans (ih i w o hw ho) hle

end FrontMono

/-! ## the buckets stay within the capacity of their channels -/

/-- a chain of genuine chunks: every chunk but the last has at least `min` bytes -/
theorem Run.length_mul_min (p : ChunkParams) (data : Bytes) (n : Nat) (hmm : p.min ≤ p.max) :
    ∀ {l : List Chunk} {b en : Nat}, Run (envOf p data n) b l en → l.length * p.min ≤ (en - b) + p.min
  | [], _, _, _ => by simp only [List.length_nil, Nat.zero_mul]; omega
  | [c], b, en, _ => by simp only [List.length_cons, List.length_nil, Nat.zero_add, Nat.one_mul]; omega
  | c :: d :: l, b, en, h => by
    have h4 : Run (envOf p data n) (b + (envOf p data n).cut b) (d :: l) en := by
      simp only [Run] at h ⊢; exact h.2.2.2
    have h4' := h4
    simp only [Run] at h4'
    obtain ⟨_, _, hlt, _⟩ := h4'
    have hlt : b + cutRoll p (data.drop b) < data.length := hlt
    have hge : p.min ≤ cutRoll p (data.drop b) :=
      cutRoll_ge_min p _ hmm (by rw [List.length_drop]; omega)
    have ih := Run.length_mul_min p data n hmm h4
    have hle := Run.le h4
    have hle : b + cutRoll p (data.drop b) ≤ en := hle
    have hih : (d :: l).length * p.min ≤ en - (b + cutRoll p (data.drop b)) + p.min := ih
    have hlen : (c :: d :: l).length * p.min = (d :: l).length * p.min + p.min := by
      simp only [List.length_cons, Nat.add_mul, Nat.one_mul]
    rw [hlen]
    omega

/-- a worker's bucket never holds more chunks than its channel's capacity `mChunks = (size-start)/min + 1` (sends never block) -/
theorem bucket_within_capacity (p : ChunkParams) (data : Bytes) (n : Nat) (hw : winSize ≤ p.min) (hmm : p.min ≤ p.max) (hn : 1 ≤ n)
    (s : St) (hr : Reachable (envOf p data n) (init (envOf p data n)) s) (i : Nat) (w : Worker) (o : Nat)
    (hwk : s.workers[i]? = some w) (ho : (offsetsOf data.length p.max n)[i]? = some o) :
    w.bucket.length ≤ Gen.parMChunks data.length o p.min := by
  have hE := envOf_ok p data n hw hmm hn
  have hl := (Inv.reachable hE hr).loc i w hwk
  have hfront := offset_le_front hE hr i w o hwk ho
  have hend : endOf w ≤ data.length := Nat.le_trans hl.endOf_le_pos hl.pos_le
  have hrun := Run.length_mul_min p data n hmm hl.run
  have hmin : 0 < p.min := by have := winSize_eq; omega
  simp only [Gen.parMChunks]
  have hle := hl.front_le
  have h1 : (w.bucket.length - 1) * p.min ≤ data.length - o := by
    rw [Nat.sub_mul, Nat.one_mul]; omega
  have h2 := (Nat.le_div_iff_mul_le hmin).mpr h1
  omega

end Desync.Par
