/-
  Termination of the parallel chunker machine: a measure that strictly decreases with every step
  from a state that satisfies the invariant.
-/
import Desync.Proofs.ParChunkSteps3

namespace Desync.Par

variable {e : Env} {zero : Nat → Prop}

def pcRank : PC → Nat
  | .done => 0
  | .closing => 1
  | .stopping => 2
  | .top => 3
  | .skipCheck => 4
  | .nullScan _ _ => 5
  | .decide _ _ => 6
  | .popping _ _ => 7
  | .pushed _ => 8
  | .advance _ k => 4 + 2 * k

/-- bytes still to chunk (weight 10), chunks in the bucket, and the position in the loop body -/
def wMeasure (e : Env) (w : Worker) : Nat := 10 * (e.size - w.pos) + w.bucket.length + pcRank w.pc

def mainRank (s : St) : Nat :=
  match s.main with
  | .reading m => 1 + (s.workers.length - m)
  | .finished _ => 0

def mu (e : Env) (s : St) : Nat := mainRank s + (s.workers.map (wMeasure e)).sum

theorem sum_modify (g : Worker → Nat) (f : Worker → Worker) :
    ∀ (ws : List Worker) (i : Nat) (w : Worker), ws[i]? = some w →
      ((ws.modify i f).map g).sum + g w = (ws.map g).sum + g (f w)
  | [], i, w, h => by simp at h
  | a :: ws, 0, w, h => by
    simp only [List.getElem?_cons_zero, Option.some.injEq] at h
    subst h
    simp only [List.modify_zero_cons, List.map_cons, List.sum_cons]; omega
  | a :: ws, i + 1, w, h => by
    simp only [List.getElem?_cons_succ] at h
    have := sum_modify g f ws i w h
    simp only [List.modify_succ_cons, List.map_cons, List.sum_cons]; omega

theorem mainRank_setW (s : St) (i : Nat) (f : Worker → Worker) : mainRank (setW s i f) = mainRank s := by
  simp only [mainRank, main_setW, len_setW]

theorem mu_setW {s : St} {i : Nat} {w : Worker} (f : Worker → Worker) (hw : s.workers[i]? = some w) :
    mu e (setW s i f) + wMeasure e w = mu e s + wMeasure e (f w) := by
  have := sum_modify (wMeasure e) f s.workers i w hw
  simp only [mu, mainRank_setW]
  show mainRank s + (((s.workers.modify i f).map (wMeasure e)).sum) + wMeasure e w = _
  omega

theorem mu_lt1 {s : St} {i : Nat} {w : Worker} {f : Worker → Worker} (hw : s.workers[i]? = some w)
    (h : wMeasure e (f w) < wMeasure e w) : mu e (setW s i f) < mu e s := by
  have := mu_setW (e := e) f hw
  omega

theorem mu_lt2 {s : St} {i j : Nat} {w wj : Worker} {f g : Worker → Worker} (hij : i < j)
    (hw : s.workers[i]? = some w) (hj : s.workers[j]? = some wj)
    (h : wMeasure e (f w) + wMeasure e (g wj) < wMeasure e w + wMeasure e wj) :
    mu e (setW (setW s j g) i f) < mu e s := by
  have h1 := mu_setW (e := e) g hj
  have hw' : (setW s j g).workers[i]? = some w := by rw [getW_setW_ne _ _ _ _ (by omega)]; exact hw
  have h2 := mu_setW (e := e) f hw'
  omega

theorem tryRecv_len {wj : Worker} {x : Chunk} (h : tryRecv wj = some (some x)) :
    wj.bucket.length = wj.bucket.tail.length + 1 := by
  have := tryRecv_some_some h
  rw [this]; rfl

theorem mu_produce (hE : EnvOK e zero) {s s' : St} {i : Nat}
    (h : step e s (.produce i) = some s') : mu e s' < mu e s := by
  simp only [step] at h
  split at h
  · rename_i w hw
    split at h
    · rename_i hpc
      split at h
      · cases h
        apply mu_lt1 hw
        simp only [wMeasure, pcRank, hpc]; omega
      · rename_i hlt
        cases h
        apply mu_lt1 hw
        have h1 := hE.cut_pos w.pos (by omega)
        have h2 := hE.cut_le w.pos (by omega)
        simp only [wMeasure, pcRank, hpc, List.length_append, List.length_singleton]; omega
    · cases h
  · cases h

theorem mu_look {s s' : St} {i : Nat} (h : step e s (.look i) = some s') : mu e s' < mu e s := by
  simp only [step] at h
  split at h
  · rename_i w hw
    split at h
    · rename_i c hpc
      split at h <;> cases h <;> apply mu_lt1 hw <;> simp only [wMeasure, pcRank, hpc] <;> omega
    · cases h
  · cases h

theorem mu_pop {s s' : St} {i : Nat} (hI : Inv e zero s) (h : step e s (.pop i) = some s') : mu e s' < mu e s := by
  simp only [step] at h
  split at h
  · rename_i w hw
    have hl := hI.loc i w hw
    split at h
    · rename_i c prev j hpc hnext
      have hij : i < j := by have := hl.nx_gt; rw [nxW_some hnext] at this; exact this
      split at h
      · rename_i wj hj
        split at h
        · split at h
          · rename_i x hrecv
            cases h
            apply mu_lt2 hij hw hj
            have := tryRecv_len hrecv
            simp only [wMeasure, pcRank, hpc]; omega
          · cases h
            apply mu_lt2 hij hw hj
            simp only [wMeasure, pcRank, hpc]; omega
          · cases h
            apply mu_lt1 hw
            simp only [wMeasure, pcRank, hpc]; omega
        · cases h
          apply mu_lt1 hw
          simp only [wMeasure, pcRank, hpc]; omega
      · cases h
    · cases h
  · cases h

theorem mu_decide {s s' : St} {i : Nat} (h : step e s (.decide i) = some s') : mu e s' < mu e s := by
  simp only [step] at h
  split at h
  · rename_i w hw
    split at h
    · rename_i c prev j hpc hnext
      split at h
      · rename_i wj hj
        split at h
        · cases h
          apply mu_lt1 hw
          simp only [wMeasure, pcRank, hpc]; omega
        · split at h
          · split at h <;> cases h <;> apply mu_lt1 hw <;> simp only [wMeasure, pcRank, hpc] <;> omega
          · cases h
            apply mu_lt1 hw
            simp only [wMeasure, pcRank, hpc]; omega
      · cases h
    · cases h
  · cases h

/-- the arithmetic of the fast-forward: the position moves by at least as many bytes as null chunks follow -/
theorem adv_arith {size pos k mx len : Nat} (hk : k > 0) (hm : 0 < mx) (hle : pos + k * mx ≤ size) :
    10 * (size - (pos + k * mx)) + len + (4 + 2 * k) < 10 * (size - pos) + len + 5 := by
  have : k ≤ k * mx := Nat.le_mul_of_pos_right k hm
  omega

theorem mu_scan (hE : EnvOK e zero) {s s' : St} {i : Nat} (hI : Inv e zero s)
    (h : step e s (.scan i) = some s') : mu e s' < mu e s := by
  have hI' := hI.step_preserved hE _ h
  simp only [step, Gen.parNumNull, Gen.parNStep] at h
  split at h
  · rename_i w hw
    have hl := hI.loc i w hw
    split at h
    · rename_i c n j hpc hnext
      have hij : i < j := by have := hl.nx_gt; rw [nxW_some hnext] at this; exact this
      have hmax := hE.max_pos
      split at h
      · rename_i wj hj
        split at h
        · rename_i x hrecv
          have hlen := tryRecv_len hrecv
          split at h
          · cases h
            apply mu_lt2 hij hw hj
            simp only [wMeasure, pcRank, hpc]; omega
          · cases h
            by_cases hk : n / e.max > 0
            · simp only [hk, ↓reduceIte] at hI' ⊢
              have hw' := getW_setW_self (setW s j fun wj => { wj with bucket := wj.bucket.tail, sync := x }) i
                (fun w => { w with pos := w.pos + n / e.max * e.max, pc := .advance c (n / e.max) }) w
                (by rw [getW_setW_ne _ _ _ _ (by omega)]; exact hw)
              have hple := (hI'.loc i _ hw').pos_le
              apply mu_lt2 hij hw hj
              have := adv_arith (len := w.bucket.length) hk hmax hple
              simp only [wMeasure, pcRank, hpc]; omega
            · simp only [hk, ↓reduceIte]
              apply mu_lt2 hij hw hj
              simp only [wMeasure, pcRank, hpc]; omega
        · cases h
          by_cases hk : n / e.max > 0
          · simp only [hk, ↓reduceIte] at hI' ⊢
            have hw' := getW_setW_self (setW s j fun wj => { wj with sync := Chunk.zero }) i
              (fun w => { w with pos := w.pos + n / e.max * e.max, pc := .advance c (n / e.max) }) w
              (by rw [getW_setW_ne _ _ _ _ (by omega)]; exact hw)
            have hple := (hI'.loc i _ hw').pos_le
            apply mu_lt2 hij hw hj
            have := adv_arith (len := w.bucket.length) hk hmax hple
            simp only [wMeasure, pcRank, hpc]; omega
          · simp only [hk, ↓reduceIte]
            apply mu_lt2 hij hw hj
            simp only [wMeasure, pcRank, hpc]; omega
        · cases h
          by_cases hk : n / e.max > 0
          · simp only [hk, ↓reduceIte] at hI' ⊢
            have hw' := getW_setW_self s i
              (fun w => { w with pos := w.pos + n / e.max * e.max, pc := .advance c (n / e.max) }) w hw
            have hple := (hI'.loc i _ hw').pos_le
            apply mu_lt1 hw
            have := adv_arith (len := w.bucket.length) hk hmax hple
            simp only [wMeasure, pcRank, hpc]; omega
          · simp only [hk, ↓reduceIte]
            apply mu_lt1 hw
            simp only [wMeasure, pcRank, hpc]; omega
      · cases h
    · cases h
  · cases h

theorem mu_pushNull {s s' : St} {i : Nat} (h : step e s (.pushNull i) = some s') : mu e s' < mu e s := by
  simp only [step] at h
  split at h
  · rename_i w hw
    split at h
    · rename_i last k hpc
      split at h
      · cases h
      · split at h <;> cases h <;> apply mu_lt1 hw <;>
          simp only [wMeasure, pcRank, hpc, List.length_append, List.length_singleton] <;> omega
    · cases h
  · cases h

theorem mu_skip {s s' : St} {i : Nat} (h : step e s (.skip i) = some s') : mu e s' < mu e s := by
  simp only [step] at h
  split at h
  · rename_i w hw
    split at h
    · rename_i hpc
      split at h
      · split at h
        · split at h <;> cases h <;> apply mu_lt1 hw <;> simp only [wMeasure, pcRank, hpc] <;> omega
        · cases h
      · cases h
        apply mu_lt1 hw
        simp only [wMeasure, pcRank, hpc]; omega
    · cases h
  · cases h

theorem mu_stop {s s' : St} {i : Nat} (h : step e s (.stop i) = some s') : mu e s' < mu e s := by
  simp only [step] at h
  split at h
  · rename_i w hw
    split at h
    · rename_i hpc
      cases h
      apply mu_lt1 hw
      simp only [wMeasure, pcRank, hpc]; omega
    · cases h
  · cases h

theorem mu_close {s s' : St} {i : Nat} (h : step e s (.close i) = some s') : mu e s' < mu e s := by
  simp only [step] at h
  split at h
  · rename_i w hw
    split at h
    · rename_i hpc
      cases h
      apply mu_lt1 hw
      simp only [wMeasure, pcRank, hpc]; omega
    · cases h
  · cases h

theorem mu_mainPop {s s' : St} (h : step e s .mainPop = some s') : mu e s' < mu e s := by
  simp only [step] at h
  split at h
  · split at h
    · rename_i w hw
      split at h
      · rename_i c rest hb
        cases h
        show mu e (setW s _ _) < mu e s
        apply mu_lt1 hw
        simp only [wMeasure, hb, List.length_cons]; omega
      · cases h
    · cases h
  · cases h

theorem mu_mainNext {s s' : St} (h : step e s .mainNext = some s') : mu e s' < mu e s := by
  simp only [step] at h
  split at h
  · rename_i m hm
    split at h
    · split at h
      · split at h
        · cases h
          simp only [mu, mainRank, hm]; omega
        · split at h
          · cases h
            simp only [mu, mainRank, hm]; omega
          · cases h
            simp only [mu, mainRank, hm]; omega
      · cases h
    · cases h
  · cases h

/-- every step from a state that satisfies the invariant decreases the measure -/
theorem mu_decreases (hE : EnvOK e zero) {s s' : St} (ev : Ev) (hI : Inv e zero s)
    (h : step e s ev = some s') : mu e s' < mu e s := by
  cases ev with
  | produce i => exact mu_produce hE h
  | look i => exact mu_look h
  | pop i => exact mu_pop hI h
  | decide i => exact mu_decide h
  | scan i => exact mu_scan hE hI h
  | pushNull i => exact mu_pushNull h
  | skip i => exact mu_skip h
  | stop i => exact mu_stop h
  | close i => exact mu_close h
  | mainPop => exact mu_mainPop h
  | mainNext => exact mu_mainNext h

end Desync.Par
