/-
  The heart of the file-system round trip: handing the nodes of a tree (`Tree.nodes`) to `LocalFS` in
  a directory that exists and holds nothing under the names of the tree creates exactly `Tree.lay false`
  there, records `Tree.times`, and leaves everything else alone (the directory's own mtime goes to
  "now").  Induction over the tree.
-/
import Desync.Proofs.LocalFSProofs
import Desync.Proofs.LocalFSRoundTripBridge
import Desync.Proofs.LocalFSRoundTripTree

namespace Desync.LFS
open Desync

/-! ### destinations inside an existing directory -/

theorem proper_prefix_of_snoc {par Q R : RPath} {b : Name} (e : par ++ [b] = Q ++ R) (hR : R ≠ []) :
    Q <+: par := by
  have hp : Q <+: par ++ [b] := ⟨R, e.symm⟩
  rcases List.prefix_concat_iff.1 hp with h | h
  · exfalso
    have := congrArg List.length e
    rw [h] at this
    simp at this
    exact hR this
  · exact h

theorem good_child {root cs : List Name} {par : RPath} {fs : FS} {b : Name} (hpar : par = root ++ cs)
    (hrv : ∀ c ∈ root, validName c = true) (hrs : Short root)
    (hcv : ∀ c ∈ cs, validName c = true) (hcs : Short cs)
    (hb : validName b = true) (hbs : b.length ≤ 255) (hd : AllDirs fs par) : Good fs (par ++ [b]) := by
  subst hpar
  refine ⟨normal_of_valid ?_, ?_, by simp, ?_⟩
  · intro c hc
    simp only [List.mem_append, List.mem_singleton] at hc
    rcases hc with (hc | hc) | rfl
    · exact hrv c hc
    · exact hcv c hc
    · exact hb
  · intro c hc
    simp only [List.mem_append, List.mem_singleton] at hc
    rcases hc with (hc | hc) | rfl
    · exact hrs c hc
    · exact hcs c hc
    · exact hbs
  · intro Q R e hQ hR
    simp only [List.nil_append]
    obtain ⟨R', hR'⟩ := proper_prefix_of_snoc e hR
    exact hd Q R' hR'.symm hQ

theorem allDirs_of_creates {fs fs' : FS} {par : RPath} {b : Name} {a : Attr} {m : Option Nat}
    (hd : AllDirs fs par) (hc : Creates fs fs' (par ++ [b]) (.dir a m)) : AllDirs fs' (par ++ [b]) := by
  intro Q R e hQ
  rw [hc Q]
  by_cases hq : Q = par ++ [b]
  · rw [if_pos hq]; exact ⟨a, m, rfl⟩
  · rw [if_neg hq]
    have hR : R ≠ [] := by
      rintro rfl
      exact hq (by simpa using e.symm)
    obtain ⟨R', hR'⟩ := proper_prefix_of_snoc e hR
    have := hd Q R' hR'.symm hQ
    split
    · exact isDir_touchObj this
    · exact this

theorem creates_post {fs fs' : FS} {par : RPath} {b : Name} {ob : Obj}
    (hc : Creates fs fs' (par ++ [b]) ob) (q : RPath) :
    fs'.get q = (([(par ++ [b], ob)] : List (RPath × Obj)).lookup q).or
      (if q = par then touchObj (fs.get q) else fs.get q) := by
  rw [hc q, List.dropLast_concat]
  by_cases hq : q = par ++ [b]
  · simp [hq]
  · have : (q == par ++ [b]) = false := by simpa using hq
    simp [hq, List.lookup_cons, this]

theorem ne_of_longer {p q : RPath} (h : p.length < q.length) : q ≠ p := by
  rintro rfl; omega

/-- a path inside a child region is not the directory itself -/
theorem region_ne_par {par q : RPath} {b : Name} (h : par ++ [b] <+: q) : q ≠ par := by
  rintro rfl
  exact not_prefix_snoc_self _ _ h

/-! ### the recorded directories stay usable -/

/-- every path recorded for `finish` resolves: normal short components, every prefix a real directory -/
def TimesGood (fs : FS) (ts : List (List Name × Nat)) : Prop :=
  ∀ e ∈ ts, Normal e.1 ∧ Short e.1 ∧ e.1 ≠ [] ∧ AllDirs fs e.1

theorem timesGood_nil (fs : FS) : TimesGood fs [] := fun _ he => by cases he

theorem allDirs_creates_fresh {fs fs' : FS} {dst q : RPath} {ob : Obj} (hn : fs.get dst = none)
    (hc : Creates fs fs' dst ob) (hq : AllDirs fs q) : AllDirs fs' q := by
  intro Q R e hQ
  have hd := hq Q R e hQ
  have hne : Q ≠ dst := by
    rintro rfl
    rw [hn] at hd
    exact not_isDir_none hd
  rw [hc Q, if_neg hne]
  split
  · exact isDir_touchObj hd
  · exact hd

theorem TimesGood.creates {fs fs' : FS} {dst : RPath} {ob : Obj} {ts : List (List Name × Nat)}
    (h : TimesGood fs ts) (hn : fs.get dst = none) (hc : Creates fs fs' dst ob) : TimesGood fs' ts :=
  fun e he => ⟨(h e he).1, (h e he).2.1, (h e he).2.2.1, allDirs_creates_fresh hn hc (h e he).2.2.2⟩

/-! ### leaves -/

theorem applyAll_single (o : Opts) (root : List Name) {s s' : LState} {n : Node}
    (h : applyNode o root s n = .ok s') : applyAll o root s [n] = .ok s' := by
  simp [applyAll, h]

/-- one leaf (regular file, symbolic link or device node) in an existing directory -/
theorem apply_leaf (o : Opts) (root : List Name) (hrv : ∀ c ∈ root, validName c = true)
    (hrs : Short root) (f : FileRec) (d : Bytes) (cs : List Name) (par : RPath) (p : Bytes)
    (s : LState) (hrep : Rep d cs) (hpar : par = root ++ cs) (hcs : Short cs) (hwf : LeafWF p f)
    (hfit : XattrsFit o f) (hlen : f.base.length ≤ 255) (hd : AllDirs s.fs par)
    (hfresh : s.fs.get (par ++ [f.base]) = none)
    (htimes : ∀ e ∈ s.dirTimes, ¬ par ++ [f.base] <+: e.1) :
    ∃ s', applyNode o root s (leafNodeAt d f) = .ok s' ∧
      Creates s.fs s'.fs (par ++ [f.base]) (objOf o f) ∧ s'.dirTimes = s.dirTimes := by
  obtain ⟨hkind, _, hname, _, _, _, _, hxnd⟩ := hwf
  have hG : Good s.fs (par ++ [f.base]) := good_child hpar hrv hrs hrep.1 hcs hname hlen hd
  have hdst : dstOf root (joinPath d f.base) = par ++ [f.base] := by
    rw [dstOf_eq, rep_pathOf (rep_join hrep hname), hpar, List.append_assoc]
  rcases hkind with hk | hk | hk
  · obtain ⟨s', h1, h2, h3⟩ := createFile_fresh o root s (joinPath d f.base) (metaOf f) f.data
      (hdst ▸ hG) (hdst ▸ hfresh) (hdst ▸ htimes) hxnd
    rw [hdst] at h2
    refine ⟨s', ?_, ?_, h3⟩
    · simpa [leafNodeAt, hk, applyNode, metaOf] using h1
    · simpa [objOf, hk, attrOfRec_eq, mtimeOf_eq] using h2
  · obtain ⟨s', h1, h2, h3⟩ := createSymlink_fresh o root s (joinPath d f.base) (metaOf f) f.target
      (hdst ▸ hG) (hdst ▸ hfresh) hxnd (fun hO => hfit hO (.inl hk))
    rw [hdst] at h2
    refine ⟨s', ?_, ?_, h3⟩
    · simpa [leafNodeAt, hk, applyNode, metaOf] using h1
    · simpa [objOf, hk, linkAttrOfRec_eq, mtimeOf_eq] using h2
  · obtain ⟨s', h1, h2, h3⟩ := createDevice_fresh o root s (joinPath d f.base) (metaOf f)
      f.major.toNat f.minor.toNat (hdst ▸ hG) (hdst ▸ hfresh) hxnd (fun hO => hfit hO (.inr hk))
    rw [hdst] at h2
    refine ⟨s', ?_, ?_, h3⟩
    · simpa [leafNodeAt, hk, applyNode, metaOf] using h1
    · simpa [objOf, hk, attrOfRec_eq, mtimeOf_eq] using h2

/-! ### trees -/

mutual
/-- a tree in the existing directory `par = root ++ cs` (the decoder calls it `d`) -/
theorem apply_tree (o : Opts) (root : List Name) (hrv : ∀ c ∈ root, validName c = true)
    (hrs : Short root) :
    (t : Tree) → ∀ (d : Bytes) (cs : List Name) (par : RPath) (p : Bytes) (anc : List Bytes)
      (s : LState), Rep d cs → par = root ++ cs → Short cs → t.WF p anc → t.Names →
      (∀ f ∈ t.records, XattrsFit o f) → t.hd.base.length ≤ 255 → AllDirs s.fs par →
      (∀ q, par ++ [t.hd.base] <+: q → s.fs.get q = none) →
      (∀ e ∈ s.dirTimes, ¬ par ++ [t.hd.base] <+: e.1) → TimesGood s.fs s.dirTimes →
      ∃ s', applyAll o root s (t.nodes d) = .ok s' ∧
        (∀ q, s'.fs.get q = ((t.lay false o (par ++ [t.hd.base])).lookup q).or
          (if q = par then touchObj (s.fs.get q) else s.fs.get q)) ∧
        s'.dirTimes = s.dirTimes ++ t.times (par ++ [t.hd.base]) ∧ TimesGood s'.fs s'.dirTimes
  | .leaf f, d, cs, par, p, anc, s, hrep, hpar, hcs, hwf, _, hfit, hlen, hd, hfresh, htimes, htg => by
    simp only [Tree.WF] at hwf
    simp only [Tree.hd] at hfresh htimes hlen ⊢
    have hn := hfresh _ (List.prefix_refl _)
    obtain ⟨s', h1, h2, h3⟩ := apply_leaf o root hrv hrs f d cs par p s hrep hpar hcs hwf
      (hfit f (by simp [Tree.records])) hlen hd hn htimes
    refine ⟨s', by simpa [Tree.nodes] using applyAll_single o root h1, ?_, ?_, ?_⟩
    · intro q
      simpa [Tree.lay] using creates_post h2 q
    · simp [Tree.times, h3]
    · rw [h3]; exact htg.creates hn h2
  | .dir f gcs, d, cs, par, p, anc, s, hrep, hpar, hcs, hwf, hnm, hfit, hlen, hd, hfresh, htimes, htg => by
    simp only [Tree.WF] at hwf
    simp only [Tree.Names] at hnm
    simp only [Tree.hd] at hfresh htimes hlen ⊢
    obtain ⟨_, _, _, hname, _, hxok, _, hgcs⟩ := hwf
    obtain ⟨hnd, hnms⟩ := hnm
    have hn := hfresh _ (List.prefix_refl _)
    have hG : Good s.fs (par ++ [f.base]) := good_child hpar hrv hrs hrep.1 hcs hname hlen hd
    have hrep' : Rep (joinPath d f.base) (cs ++ [f.base]) := rep_join hrep hname
    have hdst : dstOf root (joinPath d f.base) = par ++ [f.base] := by
      rw [dstOf_eq, rep_pathOf hrep', hpar, List.append_assoc]
    obtain ⟨s1, h1, hc, ht1⟩ := createDir_fresh o root s (joinPath d f.base) (metaOf f)
      (hdst ▸ hG) (hdst ▸ hfresh _ (List.prefix_refl _)) hxok.2
    rw [hdst] at hc ht1
    have hcs' : Short (cs ++ [f.base]) := by
      intro c hc
      simp only [List.mem_append, List.mem_singleton] at hc
      rcases hc with hc | rfl
      · exact hcs c hc
      · exact hlen
    have hAD := allDirs_of_creates hd hc
    have htg1 : TimesGood s1.fs s1.dirTimes := by
      rw [ht1]
      intro e he
      rcases List.mem_append.1 he with he | he
      · exact htg.creates hn hc e he
      · split at he
        · simp at he
        · simp only [List.mem_singleton] at he
          subst he
          exact ⟨hG.normal, hG.short, hG.ne, hAD⟩
    obtain ⟨s2, h2, g2, t2, htg2⟩ := apply_list o root hrv hrs gcs (joinPath d f.base) (cs ++ [f.base])
      (par ++ [f.base]) f.path (f.path :: anc) s1 hrep' (by rw [hpar, List.append_assoc]) hcs' hgcs
      hnms (fun g hg => hfit g (by simp [Tree.records, hg])) hnd hAD
      (by
        intro t _ q hq
        have hq' : par ++ [f.base] <+: q := (List.prefix_append _ _).trans hq
        rw [hc q, if_neg (region_ne_par hq), List.dropLast_concat, if_neg (region_ne_par hq')]
        exact hfresh q hq')
      (by
        intro t _ e he hp
        rw [ht1] at he
        rcases List.mem_append.1 he with he | he
        · exact htimes e he ((List.prefix_append _ _).trans hp)
        · split at he
          · simp at he
          · simp only [List.mem_singleton] at he
            subst he
            exact not_prefix_snoc_self _ _ hp)
      htg1
    refine ⟨s2, ?_, ?_, ?_, htg2⟩
    · simp only [Tree.nodes]
      rw [applyAll_cons_ok o root (by simpa [applyNode, metaOf] using h1)]
      exact h2
    · intro q
      rw [g2 q]
      by_cases hq : q = par ++ [f.base]
      · subst hq
        have hB : (Tree.layList false o (par ++ [f.base]) gcs).lookup (par ++ [f.base]) = none :=
          Tree.layList_lookup_none (no_region_self gcs _)
        rw [hB, hc.get_self]
        cases gcs with
        | nil => simp [Tree.lay, Tree.layList, mtimeOf_eq, attrOfRec_eq]
        | cons g gs => simp [Tree.lay, touchObj, attrOfRec_eq]
      · have hb : (q == par ++ [f.base]) = false := by simpa using hq
        rw [hc q, List.dropLast_concat]
        simp only [hq, false_and, if_false, Tree.lay, List.lookup_cons, hb]
    · rw [t2, ht1]
      simp only [Tree.times, List.append_assoc]
      rfl

/-- the children `ts` of the existing directory `par = root ++ cs` -/
theorem apply_list (o : Opts) (root : List Name) (hrv : ∀ c ∈ root, validName c = true)
    (hrs : Short root) :
    (ts : List Tree) → ∀ (d : Bytes) (cs : List Name) (par : RPath) (p : Bytes) (anc : List Bytes)
      (s : LState), Rep d cs → par = root ++ cs → Short cs → Tree.WFList p anc ts →
      Tree.NamesList ts → (∀ f ∈ Tree.recordsList ts, XattrsFit o f) →
      (ts.map fun c => c.hd.base).Nodup → AllDirs s.fs par →
      (∀ t ∈ ts, ∀ q, par ++ [t.hd.base] <+: q → s.fs.get q = none) →
      (∀ t ∈ ts, ∀ e ∈ s.dirTimes, ¬ par ++ [t.hd.base] <+: e.1) → TimesGood s.fs s.dirTimes →
      ∃ s', applyAll o root s (Tree.nodesList d ts) = .ok s' ∧
        (∀ q, s'.fs.get q = ((Tree.layList false o par ts).lookup q).or
          (if q = par ∧ ts ≠ [] then touchObj (s.fs.get q) else s.fs.get q)) ∧
        s'.dirTimes = s.dirTimes ++ Tree.timesList par ts ∧ TimesGood s'.fs s'.dirTimes
  | [], d, cs, par, p, anc, s, _, _, _, _, _, _, _, _, _, _, htg =>
    ⟨s, by simp [Tree.nodesList, applyAll], by simp [Tree.layList], by simp [Tree.timesList], htg⟩
  | t :: ts, d, cs, par, p, anc, s, hrep, hpar, hcs, hwf, hnm, hfit, hnd, hd, hfresh, htimes, htg => by
    simp only [Tree.WFList] at hwf
    simp only [Tree.NamesList] at hnm
    have hnd' : (ts.map fun c => c.hd.base).Nodup := by
      simp only [List.map_cons, List.nodup_cons] at hnd; exact hnd.2
    obtain ⟨s1, h1, g1, t1, htg1⟩ := apply_tree o root hrv hrs t d cs par p anc s hrep hpar hcs hwf.1
      hnm.2.1 (fun g hg => hfit g (by simp [Tree.recordsList, hg])) hnm.1 hd (hfresh t (by simp))
      (htimes t (by simp)) htg
    have hsep : ∀ t' ∈ ts, ∀ q, par ++ [t'.hd.base] <+: q → ¬ par ++ [t.hd.base] <+: q := by
      intro t' ht' q hq hq'
      exact other_regions hnd hq' t' ht' hq
    obtain ⟨s2, h2, g2, t2, htg2⟩ := apply_list o root hrv hrs ts d cs par p anc s1 hrep hpar hcs hwf.2
      hnm.2.2 (fun g hg => hfit g (by simp [Tree.recordsList, hg])) hnd'
      (by
        intro Q R e hQ
        have hnr : ¬ par ++ [t.hd.base] <+: Q := by
          intro hp
          have h1 := hp.length_le
          have h2 := congrArg List.length e
          simp at h1 h2
          omega
        rw [g1 Q, Tree.lay_lookup_none hnr, Option.none_or]
        have := hd Q R e hQ
        split
        · exact isDir_touchObj this
        · exact this)
      (by
        intro t' ht' q hq
        rw [g1 q, Tree.lay_lookup_none (hsep t' ht' q hq), Option.none_or, if_neg (region_ne_par hq)]
        exact hfresh t' (by simp [ht']) q hq)
      (by
        intro t' ht' e he
        rw [t1] at he
        rcases List.mem_append.1 he with he | he
        · exact htimes t' (by simp [ht']) e he
        · intro hp
          exact hsep t' ht' e.1 hp (Tree.times_keys t _ e he))
      htg1
    refine ⟨s2, ?_, ?_, ?_, htg2⟩
    · simp only [Tree.nodesList]
      rw [applyAll_append_ok o root h1]
      exact h2
    · intro q
      rw [g2 q, g1]
      simp only [Tree.layList, List.lookup_append]
      by_cases hq : q = par
      · subst hq
        have hA : (t.lay false o (q ++ [t.hd.base])).lookup q = none :=
          Tree.lay_lookup_none (not_prefix_snoc_self _ _)
        have hB : (Tree.layList false o q ts).lookup q = none :=
          Tree.layList_lookup_none (no_region_self ts q)
        simp only [hA, hB, Option.none_or, true_and, if_true, ne_eq, reduceCtorEq, not_false_eq_true]
        split
        · exact touchObj_idem _
        · rfl
      · simp only [hq, false_and, if_false]
        by_cases hr : par ++ [t.hd.base] <+: q
        · rw [Tree.layList_lookup_none (other_regions hnd hr)]
          simp
        · rw [Tree.lay_lookup_none hr]
          simp
    · rw [t2, t1]
      simp only [Tree.timesList, List.append_assoc]
end

end Desync.LFS
