/-
  Proofs about the model of `VerifyIndex` (Model/VerifyIndex.lean):
  the feeder's batches partition the chunk list, hence verification accepts iff every chunk
  validates (and the file has the indexed length), independently of the worker count; and two
  accepted files of the indexed length are equal unless the digest collides on a compared range.
-/
import Desync.Model.VerifyIndex

namespace Desync

/-! ### the feeder loop -/

/-- the number of chunks of a batch after the first one of it, read off the regenerated loop: the
    loop variable advances by `feedBatch c n + 1` (for the pinned source `c / (n * 10)`; its value is
    irrelevant for the partition property) -/
def feedBatch (c n : Nat) : Nat := Gen.vNext 0 c n - 1

/-- a division by something that is not a literal, hidden from `omega` (which otherwise abstracts
    it as an integer of unknown sign) -/
def natDiv (a b : Nat) : Nat := a / b
theorem natDiv_eq (a b : Nat) : a / b = natDiv a b := rfl

set_option linter.unusedSimpArgs false in
/-- **the one lemma that looks inside the regenerated definitions**: whatever the spelling of the
    feeder loop, it starts at 0, runs while `i < c`, sends `[i, min (i+b+1) c)` and goes on with
    `i+b+1`.  The script does not depend on the spelling: unfold, case analysis on every `if`,
    linear arithmetic. -/
theorem gen_feeder_arith (i c n : Nat) :
    Gen.vInit c n = 0 ∧ (Gen.vCond i c n = true ↔ i < c) ∧
    (i < c → Gen.vLo i c n = i ∧ Gen.vHi i c n = min (i + feedBatch c n + 1) c ∧
      Gen.vNext i c n = i + feedBatch c n + 1) := by
  refine ⟨?_, ?_, fun h => ⟨?_, ?_, ?_⟩⟩ <;>
  (try simp only [feedBatch, Gen.vInit, Gen.vCond, Gen.vLo, Gen.vHi, Gen.vNext, decide_eq_true_eq,
    Bool.and_eq_true, Bool.or_eq_true, Bool.not_eq_true', decide_eq_false_iff_not, Bool.and_true,
    Bool.true_and]) <;>
  (repeat' split) <;>
  first | omega | (simp only [natDiv_eq] at *; omega)

/-- one iteration of the feeder loop: the slice sent is `[i, min (i+batch+1) c)` and the loop
    variable advances to `i+batch+1` -/
theorem batchesFrom_succ_of_lt (c n fuel i : Nat) (h : i < c) :
    batchesFrom c n (fuel + 1) i =
      (i, min (i + feedBatch c n + 1) c) :: batchesFrom c n fuel (i + feedBatch c n + 1) := by
  obtain ⟨_, hc, ha⟩ := gen_feeder_arith i c n
  obtain ⟨hlo, hhi, hnext⟩ := ha h
  rw [batchesFrom, if_pos (hc.2 h), hlo, hhi, hnext]

theorem batchesFrom_of_ge (c n fuel i : Nat) (h : c ≤ i) : batchesFrom c n fuel i = [] := by
  cases fuel with
  | zero => rfl
  | succ fuel =>
    have hc : ¬ (Gen.vCond i c n = true) := fun hh => by
      have := (gen_feeder_arith i c n).2.1.1 hh
      omega
    rw [batchesFrom, if_neg hc]

theorem batches_eq (c n : Nat) : batches c n = batchesFrom c n c 0 := by
  rw [batches, (gen_feeder_arith 0 c n).1]

/-- generalisation of `batches_partition` over the loop variable -/
theorem batchesFrom_partition (c n : Nat) :
    ∀ (fuel i : Nat), c - i ≤ fuel →
      (batchesFrom c n fuel i).flatMap (fun (p : Nat × Nat) => List.range' p.1 (p.2 - p.1)) =
        List.range' i (c - i) := by
  intro fuel
  induction fuel with
  | zero =>
    intro i h
    have : c - i = 0 := by omega
    simp [batchesFrom, this]
  | succ fuel ih =>
    intro i h
    by_cases hi : i < c
    · rw [batchesFrom_succ_of_lt c n fuel i hi, List.flatMap_cons, ih _ (by omega)]
      simp only []
      generalize feedBatch c n = b
      by_cases hb : i + b + 1 ≤ c
      · rw [Nat.min_eq_left hb]
        have h1 : i + b + 1 - i = b + 1 := by omega
        have h3 : (b + 1) + (c - (i + b + 1)) = c - i := by omega
        have key := List.range'_append (s := i) (m := b + 1) (n := c - (i + b + 1)) (step := 1)
        rw [Nat.one_mul, ← Nat.add_assoc, h3] at key
        rw [h1, key]
      · have h0 : c - (i + b + 1) = 0 := by omega
        rw [Nat.min_eq_right (by omega), h0]
        simp
    · rw [batchesFrom_of_ge c n _ i (by omega)]
      have : c - i = 0 := by omega
      simp [this]

/-- the batches are consecutive, non-empty and cover [0,c) exactly once, for every chunk count
    and every n ≥ 1 -/
theorem batches_partition (c n : Nat) (_hn : 1 ≤ n) :
    (batches c n).flatMap (fun (p : Nat × Nat) => List.range' p.1 (p.2 - p.1)) = List.range c := by
  rw [batches_eq]
  rw [batchesFrom_partition c n c 0 (by omega), List.range_eq_range']
  simp

/-- every batch is non-empty and within bounds, and batches are consecutive (each begins where the
    previous one ended; the last one ends at `c`) -/
theorem batchesFrom_consecutive (c n : Nat) :
    ∀ (fuel i : Nat), c - i ≤ fuel → i < c →
      ∃ hi rest, batchesFrom c n fuel i = (i, hi) :: rest ∧ i < hi ∧ hi ≤ c ∧
        (hi < c → ∃ fuel', c - hi ≤ fuel' ∧ rest = batchesFrom c n fuel' hi) ∧
        (hi = c → rest = []) := by
  intro fuel i h hi
  cases fuel with
  | zero => omega
  | succ fuel =>
    refine ⟨min (i + feedBatch c n + 1) c, batchesFrom c n fuel (i + feedBatch c n + 1),
      batchesFrom_succ_of_lt c n fuel i hi, by omega, by omega, ?_, ?_⟩
    · intro hlt
      have : min (i + feedBatch c n + 1) c = i + feedBatch c n + 1 := by omega
      exact ⟨fuel, by omega, by rw [this]⟩
    · intro heq
      exact batchesFrom_of_ge c n fuel _ (by omega)

/-! ### validating every batch is validating every chunk -/

theorem batchesFrom_all {α : Type} (l : List α) (P : α → Bool) (n : Nat) :
    ∀ (fuel i : Nat), l.length - i ≤ fuel →
      ((batchesFrom l.length n fuel i).all fun (p : Nat × Nat) =>
        ((l.drop p.1).take (p.2 - p.1)).all P) = (l.drop i).all P := by
  intro fuel
  induction fuel with
  | zero =>
    intro i h
    have : l.drop i = [] := List.drop_eq_nil_of_le (by omega)
    simp [batchesFrom, this]
  | succ fuel ih =>
    intro i h
    by_cases hi : i < l.length
    · rw [batchesFrom_succ_of_lt _ n fuel i hi, List.all_cons, ih _ (by omega)]
      simp only []
      generalize feedBatch l.length n = b
      have hsplit : l.drop i = (l.drop i).take (b + 1) ++ l.drop (i + b + 1) := by
        have := (List.take_append_drop (b + 1) (l.drop i)).symm
        rw [List.drop_drop] at this
        have e : i + (b + 1) = i + b + 1 := by omega
        rw [e] at this
        exact this
      by_cases hb : i + b + 1 ≤ l.length
      · rw [Nat.min_eq_left hb]
        have h1 : i + b + 1 - i = b + 1 := by omega
        rw [h1]
        conv => rhs; rw [hsplit]
        rw [List.all_append]
      · rw [Nat.min_eq_right (by omega)]
        have h2 : l.drop (i + b + 1) = [] := List.drop_eq_nil_of_le (by omega)
        have h3 : (l.drop i).take (l.length - i) = l.drop i :=
          List.take_of_length_le (by simp)
        rw [h2, h3]
        simp
    · rw [batchesFrom_of_ge _ n _ i (by omega)]
      have : l.drop i = [] := List.drop_eq_nil_of_le (by omega)
      simp [this]

/-- consequently validating every batch is validating every chunk -/
theorem batches_all_iff {α : Type} (l : List α) (P : α → Bool) (n : Nat) (_hn : 1 ≤ n) :
    ((batches l.length n).all fun (p : Nat × Nat) => ((l.drop p.1).take (p.2 - p.1)).all P) =
      l.all P := by
  rw [batches_eq]
  rw [batchesFrom_all l P n l.length 0 (by omega)]
  simp

/-! ### `verifyIndex` -/

/-- the batch-wise check of `verifyIndex`, restated with projections -/
theorem verifyIndex_eq (H : Digest) (file : Bytes) (isDevice : Bool) (idx : Index) (n : Nat)
    (hn : 1 ≤ n) :
    verifyIndex H file isDevice idx n =
      if !isDevice && decide (file.length ≠ idx.length.toNat) then .sizeMismatch
      else if idx.chunks.all (validateChunk H file) then .ok else .mismatch := by
  have hb := batches_all_iff idx.chunks (validateChunk H file) n hn
  have hn0 : ¬ n = 0 := by omega
  unfold verifyIndex
  rw [if_neg hn0]
  have hfun : (fun (x : Nat × Nat) => match x with
      | (lo, hi) => ((idx.chunks.drop lo).take (hi - lo)).all (validateChunk H file)) =
      (fun (p : Nat × Nat) => ((idx.chunks.drop p.1).take (p.2 - p.1)).all (validateChunk H file)) := by
    funext ⟨lo, hi⟩; rfl
  rw [hfun, hb]

/-- **verify-index accepts iff the file matches the index** (n ≥ 1, no cancellation) -/
theorem verify_iff (H : Digest) (file : Bytes) (isDevice : Bool) (idx : Index) (n : Nat)
    (hn : 1 ≤ n) :
    verifyIndex H file isDevice idx n = .ok ↔
      ((isDevice = true ∨ file.length = idx.length.toNat) ∧
        ∀ c ∈ idx.chunks, validateChunk H file c = true) := by
  rw [verifyIndex_eq H file isDevice idx n hn]
  by_cases hall : idx.chunks.all (validateChunk H file) = true
  · have hall' := List.all_eq_true.mp hall
    cases isDevice with
    | true => simp [hall]; exact hall'
    | false =>
      by_cases hl : file.length = idx.length.toNat
      · simp [hl, hall]; exact hall'
      · simp [hl]
  · have hall' : ¬ ∀ c ∈ idx.chunks, validateChunk H file c = true :=
      fun h => hall (List.all_eq_true.mpr h)
    constructor
    · intro h
      split at h <;> first | cases h | (rw [if_neg hall] at h; cases h)
    · intro h
      exact absurd h.2 hall'

/-- the result does not depend on the worker count -/
theorem verify_indep_n (H : Digest) (file : Bytes) (isDevice : Bool) (idx : Index) (n m : Nat)
    (hn : 1 ≤ n) (hm : 1 ≤ m) :
    verifyIndex H file isDevice idx n = verifyIndex H file isDevice idx m := by
  rw [verifyIndex_eq H file isDevice idx n hn, verifyIndex_eq H file isDevice idx m hm]

/-! ### detection of altered bytes -/

/-- chunks tile [0, L): cumulative starts from `st`, no wrap-around (what C04's `Consistent`
    gives) -/
def Tiles : Nat → List IndexChunk → Prop
  | _, [] => True
  | st, c :: cs => c.start.toNat = st ∧ Tiles (st + c.size.toNat) cs

def tileEnd : Nat → List IndexChunk → Nat
  | st, [] => st
  | st, c :: cs => tileEnd (st + c.size.toNat) cs

theorem le_tileEnd (st : Nat) (cs : List IndexChunk) : st ≤ tileEnd st cs := by
  induction cs generalizing st with
  | nil => simp [tileEnd]
  | cons c cs ih =>
    have := ih (st + c.size.toNat)
    simp only [tileEnd]
    omega

theorem validateChunk_hash {H : Digest} {f : Bytes} {c : IndexChunk}
    (h : validateChunk H f c = true) :
    H ((f.drop c.start.toNat).take c.size.toNat) = c.id := by
  unfold validateChunk at h
  simp only [Bool.and_eq_true, beq_iff_eq] at h
  exact h.2

/-- **any single altered byte is detected**: two files of the indexed length that are both
    accepted (all chunk ranges hash to the IDs) are equal, provided the digest does not collide on
    the chunk ranges that are compared.  So flipping, dropping or adding a byte anywhere makes
    verification fail. -/
theorem accepted_files_equal (H : Digest) (f g : Bytes) (cs : List IndexChunk) (st : Nat)
    (ht : Tiles st cs)
    (hf : ∀ c ∈ cs, validateChunk H f c = true) (hg : ∀ c ∈ cs, validateChunk H g c = true)
    (hinj : ∀ c ∈ cs,
      H ((f.drop c.start.toNat).take c.size.toNat) = H ((g.drop c.start.toNat).take c.size.toNat) →
        (f.drop c.start.toNat).take c.size.toNat = (g.drop c.start.toNat).take c.size.toNat) :
    (f.drop st).take (tileEnd st cs - st) = (g.drop st).take (tileEnd st cs - st) := by
  induction cs generalizing st with
  | nil => simp [tileEnd]
  | cons c cs ih =>
    obtain ⟨hst, ht'⟩ := ht
    have hcf := validateChunk_hash (hf c (by simp))
    have hcg := validateChunk_hash (hg c (by simp))
    have hc := hinj c (by simp) (hcf.trans hcg.symm)
    have hrest := ih (st + c.size.toNat) ht'
      (fun d hd => hf d (by simp [hd])) (fun d hd => hg d (by simp [hd]))
      (fun d hd => hinj d (by simp [hd]))
    have hge := le_tileEnd (st + c.size.toNat) cs
    simp only [tileEnd]
    rw [hst] at hc
    have hk : tileEnd (st + c.size.toNat) cs - st =
        c.size.toNat + (tileEnd (st + c.size.toNat) cs - (st + c.size.toNat)) := by omega
    rw [hk, List.take_add, List.take_add, List.drop_drop, List.drop_drop, hc, hrest]

/-- whole files: any change to an accepted file (same index, no digest collision on the compared
    chunk ranges) is rejected -/
theorem single_change_detected (H : Digest) (f g : Bytes) (idx : Index) (n : Nat) (hn : 1 ≤ n)
    (ht : Tiles 0 idx.chunks) (hlen : idx.length.toNat = tileEnd 0 idx.chunks)
    (hf : verifyIndex H f false idx n = .ok) (hg : verifyIndex H g false idx n = .ok)
    (hinj : ∀ c ∈ idx.chunks,
      H ((f.drop c.start.toNat).take c.size.toNat) = H ((g.drop c.start.toNat).take c.size.toNat) →
        (f.drop c.start.toNat).take c.size.toNat = (g.drop c.start.toNat).take c.size.toNat) :
    f = g := by
  obtain ⟨hfl, hfc⟩ := (verify_iff H f false idx n hn).mp hf
  obtain ⟨hgl, hgc⟩ := (verify_iff H g false idx n hn).mp hg
  have hfl' : f.length = tileEnd 0 idx.chunks := by
    rcases hfl with h | h
    · cases h
    · rw [h, hlen]
  have hgl' : g.length = tileEnd 0 idx.chunks := by
    rcases hgl with h | h
    · cases h
    · rw [h, hlen]
  have h := accepted_files_equal H f g idx.chunks 0 ht hfc hgc hinj
  simp only [List.drop_zero, Nat.sub_zero] at h
  rw [← hfl'] at h
  rw [List.take_length] at h
  rw [hfl', ← hgl', List.take_length] at h
  exact h

/-! ### non-vacuity

  Stated relative to `feedBatch` (for the pinned source `feedBatch 25 1 = 25/10 = 2`, so these are
  `[(0,3),(3,6),…,(24,25)]`, and `feedBatch 25 2 = 1`): the theorems above do not depend on the
  batch size, so the examples do not either. -/

example : (batches 7 1).getLast? = some (7 - (7 - 1) % (feedBatch 7 1 + 1) - 1, 7) := by decide

/-- every slice but the last has `feedBatch + 1` chunks -/
example : (batches 25 1).take 2 =
    [(0, feedBatch 25 1 + 1), (feedBatch 25 1 + 1, 2 * (feedBatch 25 1 + 1))] ∧
    (batches 25 1).length = (25 + feedBatch 25 1) / (feedBatch 25 1 + 1) := by decide

example : (batches 25 2).length = (25 + feedBatch 25 2) / (feedBatch 25 2 + 1) ∧
    (batches 25 2).getLast?.map (·.2) = some 25 := by decide

example : batches 0 3 = [] := by decide

end Desync
