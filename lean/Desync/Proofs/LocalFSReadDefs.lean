/-
  Vocabulary of the theorems about the reading side of `LocalFS`: which file systems are read
  (`FSValid`, `SrcRoot`), what a record stream in directory-walk order looks like as a `Tree`
  (`Tree.Walked`), what a record the reader produced looks like field by field (`Shaped`), and how a
  tree of records is moved to another place (`Tree.placeAt`, `Tree.rootedAt`).
-/
import Desync.Proofs.LocalFSReadStrings
import Desync.Proofs.LocalFSReadMode
import Desync.Proofs.LocalFSRoundTrip

namespace Desync.LFS
open Desync Desync.Mode

/-- directory entries are file names (one component, no NUL, not "." or "..", at most NAME_MAX bytes), and a
    node made by `mknod` is a character or block device, a fifo or a socket -/
def FSValid (fs : FS) : Prop :=
  (∀ e ∈ fs, ∀ c ∈ e.1, validName c = true ∧ c.length ≤ 255) ∧
  (∀ e ∈ fs, ∀ ty ma mi a m, e.2 = .dev ty ma mi a m →
    ty = S_IFCHR.toNat ∨ ty = S_IFBLK.toNat ∨ ty = S_IFIFO.toNat ∨ ty = S_IFSOCK.toNat)

/-- the directory to pack, as the user names it: an absolute path of file names whose proper prefixes are real
    directories (no symbolic link on the way), and which exists -/
structure SrcRoot (fs : FS) (root : List Name) : Prop where
  ne : root ≠ []
  valid : ∀ c ∈ root, validName c = true
  short : Short root
  above : AllDirs fs root.dropLast
  there : (fs.get root).isSome = true

/-- no mount point of another file system below the root (`--one-file-system` off, or nothing mounted) -/
def noSkip : RPath → Bool := fun _ => false

/-! ### records the reader produces -/

/-- a record as `LocalFS.Next` builds it, for a node `tar()` archives: the mode is type bits | twelve low bits with
    the type of the node's kind (a link's low bits are 0777), sizes, contents, targets and device numbers sit where
    their kind has them and are zero / empty elsewhere, the device numbers fit the 12 + 20 bits of `st_rdev`, the
    xattrs are sorted by key -/
structure Shaped (f : FileRec) : Prop where
  mode : ∃ (T : UInt32) (P : Nat), f.mode = (T ||| UInt32.ofNat (P % 4096)).toUInt64 ∧
    ((f.kind = .dir ∧ T = S_IFDIR) ∨ (f.kind = .reg ∧ T = S_IFREG) ∨
     (f.kind = .symlink ∧ T = S_IFLNK ∧ P % 4096 = 0o777) ∨ (f.kind = .device ∧ (T = S_IFCHR ∨ T = S_IFBLK)))
  size : (f.kind = .reg → f.size = u64len f.data) ∧ (f.kind = .symlink → f.size = UInt64.ofNat f.target.length) ∧
    (f.kind = .dir ∨ f.kind = .device → f.size = 0)
  data : f.kind ≠ .reg → f.data = []
  target : f.kind ≠ .symlink → f.target = []
  dev : (f.kind = .device → f.major < 4096 ∧ f.minor < 1048576) ∧ (f.kind ≠ .device → f.major = 0 ∧ f.minor = 0)
  xattrs : StrictSorted Prod.fst f.xattrs

/-- with `NoTime` every record's time is 0; without it a time of exactly 0 does not survive unpacking (`LocalFS`
    sets no time for an archived 0: the kernel's "now" stays) -/
def TimeOK (noTime : Bool) (f : FileRec) : Prop := if noTime then f.mtime = 0 else f.mtime ≠ 0

end Desync.LFS

namespace Desync
open LFS

/-- the same record at another path -/
def FileRec.movedTo (f : FileRec) (p : Bytes) : FileRec := { f with path := p, parent := dirOf p }

mutual
/-- the tree with its top at the path string `p`: every record's `path` and `parent` are what the reader reports there -/
def Tree.placeAt (p : Bytes) : Tree → Tree
  | .leaf f => .leaf (f.movedTo p)
  | .dir f cs => .dir (f.movedTo p) (Tree.placeListAt p cs)
def Tree.placeListAt (p : Bytes) : List Tree → List Tree
  | [] => []
  | t :: ts => t.placeAt (p ++ [slash] ++ t.hd.base) :: Tree.placeListAt p ts
end

def Tree.withBase (b : Bytes) : Tree → Tree
  | .leaf f => .leaf { f with base := b }
  | .dir f cs => .dir { f with base := b } cs

/-- the tree as read from the directory `root` (the top record is named after the directory) -/
def Tree.rootedAt (root : List Name) (t : Tree) : Tree :=
  (t.withBase (root.getLast?.getD [])).placeAt (absStr root)

mutual
/-- a record stream in the order and with the paths of a directory walk that starts at the path string `p`:
    pre-order; the children of every directory in strictly increasing byte-wise name order; every record's `parent`
    is `path.Dir` of its `path`, a child's `path` is its directory's joined with its name; only real directories
    have children (a symbolic link, whatever it points to, is a leaf) -/
def Tree.Walked (p : Bytes) : Tree → Prop
  | .leaf f => f.path = p ∧ f.parent = dirOf p ∧ f.kind ≠ .dir
  | .dir f cs => f.path = p ∧ f.parent = dirOf p ∧ f.kind = .dir ∧
      StrictSorted (fun c : Tree => c.hd.base) cs ∧ Tree.WalkedList p cs
def Tree.WalkedList (p : Bytes) : List Tree → Prop
  | [] => True
  | t :: ts => validName t.hd.base = true ∧ t.hd.base.length ≤ 255 ∧ t.hd.parent = p ∧
      t.Walked (p ++ [slash] ++ t.hd.base) ∧ Tree.WalkedList p ts
end

mutual
/-- sibling names strictly increasing, at every level -/
def Tree.Sorted : Tree → Prop
  | .leaf _ => True
  | .dir _ cs => StrictSorted (fun c : Tree => c.hd.base) cs ∧ Tree.SortedList cs
def Tree.SortedList : List Tree → Prop
  | [] => True
  | t :: ts => t.Sorted ∧ Tree.SortedList ts
end

mutual
/-- the height of a tree (a leaf: 1) -/
def Tree.height : Tree → Nat
  | .leaf _ => 1
  | .dir _ cs => Tree.heightList cs + 1
def Tree.heightList : List Tree → Nat
  | [] => 0
  | t :: ts => max t.height (Tree.heightList ts)
end

end Desync
