/-
  Proofs about `bstAssign` (model of `bst` in format.go): totality, completeness of the heap
  layout, and the BST (in-order) property.
-/
import Desync.Model.Goodbye
import Batteries.Data.List.Perm

namespace Desync

/-! ### powers of two -/

theorem pow2_lt_imp {a b : Nat} (h : 2 ^ a < 2 ^ b) : 2 * 2 ^ a ≤ 2 ^ b := by
  have hab : a < b := (Nat.pow_lt_pow_iff_right (by decide)).mp h
  have : 2 ^ (a + 1) ≤ 2 ^ b := Nat.pow_le_pow_right (by decide) hab
  rw [Nat.pow_succ] at this
  omega

/-- `x` is `2 ^ log2 x` rounded: the two defining inequalities -/
theorem log2_spec (t : Nat) : 2 ^ Nat.log2 (t + 1) ≤ t + 1 ∧ t + 1 < 2 * 2 ^ Nat.log2 (t + 1) := by
  have h1 := Nat.log2_self_le (n := t + 1) (by omega)
  have h2 := Nat.lt_log2_self (n := t + 1)
  rw [Nat.pow_succ] at h2
  omega

theorem log2_unique {x d : Nat} (h1 : 2 ^ d ≤ x) (h2 : x < 2 * 2 ^ d) : Nat.log2 x = d := by
  have hx : x ≠ 0 := by
    have : 0 < 2 ^ d := Nat.pow_pos (by decide)
    omega
  rw [Nat.log2_eq_iff hx, Nat.pow_succ]
  omega

/-! ### local-to-global heap index -/

/-- global heap index of the node with local heap index `t` in the subtree rooted at `a` -/
def gIdx (a t : Nat) : Nat := a * 2 ^ Nat.log2 (t + 1) + t

theorem gIdx_zero (a : Nat) : gIdx a 0 = a := by
  have : Nat.log2 (0 + 1) = 0 := log2_unique (by decide) (by decide)
  simp [gIdx, this]

theorem gIdx_root_zero (t : Nat) : gIdx 0 t = t := by simp [gIdx]

theorem log2_left (t : Nat) : Nat.log2 (2 * t + 1 + 1) = Nat.log2 (t + 1) + 1 := by
  have := log2_spec t
  apply log2_unique <;> rw [Nat.pow_succ] <;> omega

theorem log2_right (t : Nat) : Nat.log2 (2 * t + 2 + 1) = Nat.log2 (t + 1) + 1 := by
  have := log2_spec t
  apply log2_unique <;> rw [Nat.pow_succ] <;> omega

theorem gIdx_left (a t : Nat) : gIdx a (2 * t + 1) = 2 * gIdx a t + 1 := by
  unfold gIdx
  rw [log2_left, Nat.pow_succ, ← Nat.mul_assoc]
  generalize a * 2 ^ Nat.log2 (t + 1) = x
  omega

theorem gIdx_right (a t : Nat) : gIdx a (2 * t + 2) = 2 * gIdx a t + 2 := by
  unfold gIdx
  rw [log2_right, Nat.pow_succ, ← Nat.mul_assoc]
  generalize a * 2 ^ Nat.log2 (t + 1) = x
  omega

theorem gIdx_comp1 (i t : Nat) : gIdx i (gIdx 1 t) = gIdx (2 * i + 1) t := by
  have := log2_spec t
  have hl : Nat.log2 (gIdx 1 t + 1) = Nat.log2 (t + 1) + 1 := by
    unfold gIdx
    apply log2_unique <;> rw [Nat.pow_succ] <;> omega
  rw [gIdx, hl]
  unfold gIdx
  rw [Nat.pow_succ]
  generalize 2 ^ Nat.log2 (t + 1) = P
  have e1 : i * (P * 2) = 2 * (i * P) := by ac_rfl
  have e2 : (2 * i + 1) * P = 2 * (i * P) + P := by
    rw [Nat.add_mul, Nat.mul_assoc, Nat.one_mul]
  omega

theorem gIdx_comp2 (i t : Nat) : gIdx i (gIdx 2 t) = gIdx (2 * i + 2) t := by
  have := log2_spec t
  have hl : Nat.log2 (gIdx 2 t + 1) = Nat.log2 (t + 1) + 1 := by
    unfold gIdx
    apply log2_unique <;> rw [Nat.pow_succ] <;> omega
  rw [gIdx, hl]
  unfold gIdx
  rw [Nat.pow_succ]
  generalize 2 ^ Nat.log2 (t + 1) = P
  have e1 : i * (P * 2) = 2 * (i * P) := by ac_rfl
  have e2 : (2 * i + 2) * P = 2 * (i * P) + 2 * P := by
    rw [Nat.add_mul, Nat.mul_assoc]
  omega

/-! ### shape invariant -/

theorem pow2_facts (d c : Nat) :
    (2 ^ d < 2 ^ c → 2 * 2 ^ d ≤ 2 ^ c) ∧ (2 ^ c < 2 ^ d → 2 * 2 ^ c ≤ 2 ^ d) ∧
    (2 ^ d < 2 * 2 ^ c → 2 ^ d ≤ 2 ^ c) ∧ (2 * 2 ^ c < 2 ^ d → 4 * 2 ^ c ≤ 2 ^ d) ∧
    (2 ^ d < 4 * 2 ^ c → 2 ^ d ≤ 2 * 2 ^ c) ∧ (4 * 2 ^ c < 2 ^ d → 8 * 2 ^ c ≤ 2 ^ d) ∧
    0 < 2 ^ d ∧ 0 < 2 ^ c := by
  have a1 := @pow2_lt_imp d c
  have a2 := @pow2_lt_imp c d
  have a3 := @pow2_lt_imp d (c + 1)
  have a4 := @pow2_lt_imp (c + 1) d
  have a5 := @pow2_lt_imp d (c + 2)
  have a6 := @pow2_lt_imp (c + 2) d
  have p1 : 0 < 2 ^ d := Nat.pow_pos (by decide)
  have p2 : 0 < 2 ^ c := Nat.pow_pos (by decide)
  rw [Nat.pow_succ] at a3 a4
  rw [Nat.pow_succ, Nat.pow_succ] at a5 a6
  generalize 2 ^ d = P at *
  generalize 2 ^ c = h at *
  omega

/-- admissible (length, level) pairs of the recursive calls of `bst` -/
def BstInv (n e : Nat) : Prop :=
  n = 0 ∨ (1 ≤ e ∧ 2 ^ (e - 1) ≤ n ∧ n < 2 * 2 ^ (e - 1)) ∨ (2 ≤ e ∧ n + 1 = 2 ^ (e - 1))

theorem inv_bstLevel (n : Nat) : BstInv n (bstLevel n) := by
  unfold BstInv bstLevel
  rcases Nat.eq_zero_or_pos n with h | h
  · exact Or.inl h
  · right; left
    have h1 := Nat.log2_self_le (n := n) (by omega)
    have h2 := Nat.lt_log2_self (n := n)
    rw [Nat.pow_succ] at h2
    refine ⟨by omega, ?_, ?_⟩ <;> simp <;> omega

theorem bstK_succ_succ (n c : Nat) :
    bstK n (c + 2) =
      if n ≥ 3 * 2 ^ c - 1 then some (2 * 2 ^ c - 1)
      else if n ≥ 2 ^ c then some (n - 2 ^ c) else none := by
  unfold bstK
  have : c + 2 - 1 = c + 1 := by omega
  simp only [this, Nat.pow_succ]
  have p2 : 0 < 2 ^ c := Nat.pow_pos (by decide)
  generalize 2 ^ c = h at *
  have e1 : (2 * (h * 2) - 2) / 2 = 2 * h - 1 := by omega
  have e2 : h * 2 / 2 = h := by omega
  simp only [e1, e2]
  rw [if_neg (by omega)]
  by_cases h1 : n ≥ 3 * h - 1
  · rw [if_pos (by omega), if_pos h1]
  · rw [if_neg (by omega), if_neg h1]
    by_cases h2 : n ≥ h
    · rw [if_neg (by omega), if_pos h2]; congr 1; omega
    · rw [if_pos (by omega), if_neg h2]

theorem bstK_shape {n e : Nat} (hn : n ≠ 0) (hinv : BstInv n e) :
    ∃ k, bstK n e = some k ∧ k < n ∧ BstInv k (e - 1) ∧ BstInv (n - k - 1) (e - 1) ∧
      (∀ t, t < k ↔ gIdx 1 t < n) ∧ (∀ t, t < n - k - 1 ↔ gIdx 2 t < n) := by
  match e, hinv with
  | 0, hinv =>
    unfold BstInv at hinv; omega
  | 1, hinv =>
    have hn1 : n = 1 := by
      unfold BstInv at hinv; simp at hinv; omega
    subst hn1
    refine ⟨0, by decide, by omega, Or.inl rfl, Or.inl rfl, ?_, ?_⟩
    · intro t
      have := log2_spec t
      unfold gIdx; omega
    · intro t
      have := log2_spec t
      unfold gIdx; omega
  | c + 2, hinv =>
    have hsub : c + 2 - 1 = c + 1 := by omega
    have hsub' : c + 1 - 1 = c := by omega
    unfold BstInv at hinv
    rw [hsub, Nat.pow_succ] at hinv
    rw [bstK_succ_succ, hsub]
    have hp : 0 < 2 ^ c := Nat.pow_pos (by decide)
    -- facts about the level below, needed when `c ≥ 1`
    have hc : c = 0 ∨ 1 ≤ c := by omega
    have hpc : c = 0 → 2 ^ c = 1 := by intro h; subst h; rfl
    have hpc' : 1 ≤ c → 2 ≤ 2 ^ c := by
      intro h
      have := Nat.pow_le_pow_right (n := 2) (by decide) h
      simpa using this
    by_cases h1 : n ≥ 3 * 2 ^ c - 1
    · rw [if_pos h1]
      refine ⟨2 * 2 ^ c - 1, rfl, by omega, ?_, ?_, ?_, ?_⟩
      · unfold BstInv; rw [hsub']; right; left; omega
      · unfold BstInv; rw [hsub']; omega
      · intro t
        have := log2_spec t
        have := pow2_facts (Nat.log2 (t + 1)) c
        unfold gIdx
        generalize 2 ^ Nat.log2 (t + 1) = P at *
        generalize 2 ^ c = h at *
        omega
      · intro t
        have := log2_spec t
        have := pow2_facts (Nat.log2 (t + 1)) c
        unfold gIdx
        generalize 2 ^ Nat.log2 (t + 1) = P at *
        generalize 2 ^ c = h at *
        omega
    · rw [if_neg h1]
      have h2 : n ≥ 2 ^ c := by omega
      rw [if_pos h2]
      refine ⟨n - 2 ^ c, rfl, by omega, ?_, ?_, ?_, ?_⟩
      · unfold BstInv; rw [hsub']; omega
      · unfold BstInv; rw [hsub']; omega
      · intro t
        have := log2_spec t
        have := pow2_facts (Nat.log2 (t + 1)) c
        unfold gIdx
        generalize 2 ^ Nat.log2 (t + 1) = P at *
        generalize 2 ^ c = h at *
        omega
      · intro t
        have := log2_spec t
        have := pow2_facts (Nat.log2 (t + 1)) c
        unfold gIdx
        generalize 2 ^ Nat.log2 (t + 1) = P at *
        generalize 2 ^ c = h at *
        omega

/-! ### the children's index sets partition the parent's -/

theorem gIdx1_lt {s t : Nat} (h : s < t) : gIdx 1 s < gIdx 1 t := by
  have := log2_spec s
  have := log2_spec t
  have := pow2_facts (Nat.log2 (s + 1)) (Nat.log2 (t + 1))
  unfold gIdx
  generalize 2 ^ Nat.log2 (s + 1) = P at *
  generalize 2 ^ Nat.log2 (t + 1) = Q at *
  omega

theorem gIdx2_lt {s t : Nat} (h : s < t) : gIdx 2 s < gIdx 2 t := by
  have := log2_spec s
  have := log2_spec t
  have := pow2_facts (Nat.log2 (s + 1)) (Nat.log2 (t + 1))
  unfold gIdx
  generalize 2 ^ Nat.log2 (s + 1) = P at *
  generalize 2 ^ Nat.log2 (t + 1) = Q at *
  omega

theorem gIdx1_ne_zero (t : Nat) : gIdx 1 t ≠ 0 := by
  have := log2_spec t
  unfold gIdx
  omega

theorem gIdx2_ne_zero (t : Nat) : gIdx 2 t ≠ 0 := by
  have := log2_spec t
  unfold gIdx
  omega

theorem gIdx1_ne_gIdx2 (s t : Nat) : gIdx 1 s ≠ gIdx 2 t := by
  have := log2_spec s
  have := log2_spec t
  have := pow2_facts (Nat.log2 (s + 1)) (Nat.log2 (t + 1))
  unfold gIdx
  generalize 2 ^ Nat.log2 (s + 1) = P at *
  generalize 2 ^ Nat.log2 (t + 1) = Q at *
  omega

theorem nodup_map_of_lt {f : Nat → Nat} (hf : ∀ s t, s < t → f s < f t) (k : Nat) :
    ((List.range k).map f).Nodup := by
  have h := List.pairwise_lt_range (n := k)
  exact List.Pairwise.map f (fun a b hab => Nat.ne_of_lt (hf a b hab)) h

theorem shape_perm {n k : Nat} (hk : k < n) (hL : ∀ t, t < k ↔ gIdx 1 t < n)
    (hR : ∀ t, t < n - k - 1 ↔ gIdx 2 t < n) :
    (0 :: ((List.range k).map (gIdx 1) ++ (List.range (n - k - 1)).map (gIdx 2))).Perm
      (List.range n) := by
  apply List.Subperm.perm_of_length_le
  · apply List.subperm_of_subset
    · rw [List.nodup_cons, List.nodup_append]
      refine ⟨?_, nodup_map_of_lt (fun _ _ => gIdx1_lt) k,
        nodup_map_of_lt (fun _ _ => gIdx2_lt) _, ?_⟩
      · simp only [List.mem_append, List.mem_map, List.mem_range]
        rintro (⟨t, _, ht⟩ | ⟨t, _, ht⟩)
        · exact gIdx1_ne_zero t ht
        · exact gIdx2_ne_zero t ht
      · simp only [List.mem_map, List.mem_range]
        rintro a ⟨s, _, rfl⟩ b ⟨t, _, rfl⟩
        exact gIdx1_ne_gIdx2 s t
    · intro j hj
      simp only [List.mem_cons, List.mem_append, List.mem_map, List.mem_range] at hj
      rw [List.mem_range]
      rcases hj with rfl | ⟨t, ht, rfl⟩ | ⟨t, ht, rfl⟩
      · omega
      · exact (hL t).mp ht
      · exact (hR t).mp ht
  · simp only [List.length_cons, List.length_append, List.length_map, List.length_range]
    omega

/-! ### in-order traversal of a subtree -/

theorem heapInorder_reroot {α : Type} (f : Nat → α) (a n m : Nat)
    (h : ∀ t, t < m ↔ gIdx a t < n) :
    ∀ d t, m - t ≤ d → heapInorder f n (gIdx a t) = heapInorder (fun s => f (gIdx a s)) m t := by
  intro d
  induction d with
  | zero =>
    intro t ht
    have h1 : ¬ t < m := by omega
    have h2 : ¬ gIdx a t < n := fun hc => h1 ((h t).mpr hc)
    rw [heapInorder.eq_1 f n (gIdx a t), heapInorder.eq_1 _ m t, dif_neg h1, dif_neg h2]
  | succ d ih =>
    intro t ht
    rw [heapInorder.eq_1 f n (gIdx a t), heapInorder.eq_1 _ m t]
    by_cases h1 : t < m
    · have h2 : gIdx a t < n := (h t).mp h1
      rw [dif_pos h1, dif_pos h2, ← gIdx_left, ← gIdx_right,
        ih (2 * t + 1) (by omega), ih (2 * t + 2) (by omega)]
    · have h2 : ¬ gIdx a t < n := fun hc => h1 ((h t).mpr hc)
      rw [dif_neg h1, dif_neg h2]

theorem heapInorder_child {α : Type} (f : Nat → α) (a n m : Nat)
    (h : ∀ t, t < m ↔ gIdx a t < n) :
    heapInorder f n a = heapInorder (fun s => f (gIdx a s)) m 0 := by
  have := heapInorder_reroot f a n m h m 0 (by omega)
  rwa [gIdx_zero] at this

/-! ### the main induction -/

theorem bstAssign_nil {α : Type} (inp : List α) (i e : Nat) (h : inp.length = 0) :
    bstAssign inp i e = some [] := by
  rw [bstAssign, dif_pos h]

theorem bstAssign_step {α : Type} (inp : List α) (i e k : Nat) (h0 : inp.length ≠ 0)
    (hk : bstK inp.length e = some k) (hlt : k < inp.length) :
    bstAssign inp i e =
      (bstAssign (inp.take k) (2 * i + 1) (e - 1)).bind fun l =>
        (bstAssign (inp.drop (k + 1)) (2 * i + 2) (e - 1)).bind fun r =>
          some ((i, inp[k]) :: (l ++ r)) := by
  rw [bstAssign, dif_neg h0]
  split
  · rename_i hk'
    rw [hk] at hk'
    cases hk'
  · rename_i k' hk'
    have : k' = k := by
      rw [hk] at hk'
      cases hk'; rfl
    subst this
    rw [dif_pos hlt]
    rfl

theorem bstAssign_main {α : Type} :
    ∀ (N : Nat) (inp : List α) (i e : Nat), inp.length = N → BstInv N e →
      ∃ as, bstAssign inp i e = some as ∧
        (as.map Prod.fst).Perm ((List.range N).map (gIdx i)) ∧
        ∀ get : Nat → α, (∀ p ∈ as, get p.1 = p.2) →
          heapInorder (fun t => get (gIdx i t)) N 0 = inp := by
  intro N
  induction N using Nat.strongRecOn with
  | _ N ih =>
    intro inp i e hlen hinv
    by_cases h0 : N = 0
    · subst h0
      refine ⟨[], bstAssign_nil inp i e hlen, by simp, ?_⟩
      intro get _
      rw [heapInorder.eq_1, dif_neg (by omega)]
      exact (List.eq_nil_of_length_eq_zero hlen).symm
    · obtain ⟨k, hk, hkn, hinvL, hinvR, hL, hR⟩ := bstK_shape h0 hinv
      have hkl : k < inp.length := by omega
      have hlenL : (inp.take k).length = k := by
        rw [List.length_take]; omega
      have hlenR : (inp.drop (k + 1)).length = N - k - 1 := by
        rw [List.length_drop]; omega
      obtain ⟨l, hl, hlperm, hlin⟩ := ih k hkn (inp.take k) (2 * i + 1) (e - 1) hlenL hinvL
      obtain ⟨r, hr, hrperm, hrin⟩ :=
        ih (N - k - 1) (by omega) (inp.drop (k + 1)) (2 * i + 2) (e - 1) hlenR hinvR
      refine ⟨(i, inp[k]) :: (l ++ r), ?_, ?_, ?_⟩
      · rw [bstAssign_step inp i e k (by omega) (hlen ▸ hk) hkl, hl, hr]
        rfl
      · have hsp := (shape_perm hkn hL hR).map (gIdx i)
        simp only [List.map_cons, List.map_append, List.map_map, gIdx_zero] at hsp
        have e1 : (gIdx i ∘ gIdx 1) = gIdx (2 * i + 1) := by
          funext t; exact gIdx_comp1 i t
        have e2 : (gIdx i ∘ gIdx 2) = gIdx (2 * i + 2) := by
          funext t; exact gIdx_comp2 i t
        rw [e1, e2] at hsp
        refine List.Perm.trans ?_ hsp
        simp only [List.map_cons, List.map_append]
        exact List.Perm.cons _ (List.Perm.append hlperm hrperm)
      · intro get hget
        have hN : 0 < N := by omega
        rw [heapInorder.eq_1, dif_pos hN]
        have hLt := heapInorder_child (fun t => get (gIdx i t)) 1 N k hL
        have hRt := heapInorder_child (fun t => get (gIdx i t)) 2 N (N - k - 1) hR
        simp only [gIdx_comp1, gIdx_comp2] at hLt hRt
        have hroot : get (gIdx i 0) = inp[k] := by
          rw [gIdx_zero]
          exact hget (i, inp[k]) (List.mem_cons_self)
        rw [show 2 * 0 + 1 = 1 from rfl, show 2 * 0 + 2 = 2 from rfl, hLt, hRt, hroot,
          hlin get (fun p hp => hget p (List.mem_cons_of_mem _ (List.mem_append_left _ hp))),
          hrin get (fun p hp => hget p (List.mem_cons_of_mem _ (List.mem_append_right _ hp)))]
        rw [List.append_assoc, List.singleton_append, ← List.drop_eq_getElem_cons hkl,
          List.take_append_drop]

/-! ### writing the assignments into the output array -/

theorem foldl_set_size {α : Type} (as : List (Nat × α)) :
    ∀ arr : Array α,
      (as.foldl (fun arr (p : Nat × α) => arr.setIfInBounds p.1 p.2) arr).size = arr.size := by
  induction as with
  | nil => intro arr; rfl
  | cons q rest ih =>
    intro arr
    rw [List.foldl_cons, ih, Array.size_setIfInBounds]

theorem foldl_set_getElem?_not_mem {α : Type} (as : List (Nat × α)) :
    ∀ (arr : Array α) (j : Nat), j ∉ as.map Prod.fst →
      (as.foldl (fun arr (p : Nat × α) => arr.setIfInBounds p.1 p.2) arr)[j]? = arr[j]? := by
  induction as with
  | nil => intro arr j _; rfl
  | cons q rest ih =>
    intro arr j hj
    rw [List.map_cons, List.mem_cons, not_or] at hj
    rw [List.foldl_cons, ih _ j hj.2, Array.getElem?_setIfInBounds_ne (fun h => hj.1 h.symm)]

theorem foldl_set_getElem?_mem {α : Type} (as : List (Nat × α)) :
    ∀ (arr : Array α), (as.map Prod.fst).Nodup → (∀ p ∈ as, p.1 < arr.size) →
      ∀ p ∈ as,
        (as.foldl (fun arr (p : Nat × α) => arr.setIfInBounds p.1 p.2) arr)[p.1]? = some p.2 := by
  induction as with
  | nil => intro arr _ _ p hp; cases hp
  | cons q rest ih =>
    intro arr hnd hlt p hp
    rw [List.map_cons, List.nodup_cons] at hnd
    rw [List.foldl_cons]
    rcases List.mem_cons.mp hp with rfl | hp'
    · rw [foldl_set_getElem?_not_mem rest _ _ hnd.1,
        Array.getElem?_setIfInBounds_self_of_lt (hlt p List.mem_cons_self)]
    · apply ih _ hnd.2 _ p hp'
      intro p' hp''
      rw [Array.size_setIfInBounds]
      exact hlt p' (List.mem_cons_of_mem _ hp'')

theorem placeAll_get {α : Type} [Inhabited α] (n : Nat) (as : List (Nat × α))
    (hnd : (as.map Prod.fst).Nodup) (hlt : ∀ p ∈ as, p.1 < n) :
    ∀ p ∈ as, (placeAll n as)[p.1]! = p.2 := by
  intro p hp
  have h := foldl_set_getElem?_mem as (Array.replicate n default) hnd
    (by intro p' hp'; rw [Array.size_replicate]; exact hlt p' hp') p hp
  unfold placeAll
  rw [getElem!_def, h]

/-! ### the three results -/

/-- the Go code never indexes out of range: the layout is defined for every input length -/
theorem bstAssign_isSome {α : Type} (inp : List α) :
    (bstAssign inp 0 (bstLevel inp.length)).isSome := by
  obtain ⟨as, h, _⟩ := bstAssign_main inp.length inp 0 _ rfl (inv_bstLevel _)
  rw [h]; rfl

/-- the heap indices written are exactly 0..n-1, each once: the tree is complete -/
theorem bstAssign_indices_perm {α : Type} (inp : List α) (as : List (Nat × α))
    (h : bstAssign inp 0 (bstLevel inp.length) = some as) :
    (as.map Prod.fst).Perm (List.range inp.length) := by
  obtain ⟨as', h', hperm, _⟩ := bstAssign_main inp.length inp 0 _ rfl (inv_bstLevel _)
  rw [h] at h'
  cases h'
  have e : gIdx 0 = id := by funext t; exact gIdx_root_zero t
  rwa [e, List.map_id] at hperm

/-- in-order traversal of the resulting heap array gives back the (sorted) input: BST property -/
theorem bstAssign_inorder {α : Type} [Inhabited α] (inp : List α) (as : List (Nat × α))
    (h : bstAssign inp 0 (bstLevel inp.length) = some as) :
    heapInorder (fun j => (placeAll inp.length as)[j]!) inp.length 0 = inp := by
  obtain ⟨as', h', _, hin⟩ := bstAssign_main inp.length inp 0 _ rfl (inv_bstLevel _)
  rw [h] at h'
  cases h'
  have hperm := bstAssign_indices_perm inp as h
  have hnd : (as.map Prod.fst).Nodup := hperm.nodup_iff.mpr List.nodup_range
  have hlt : ∀ p ∈ as, p.1 < inp.length := by
    intro p hp
    have : p.1 ∈ as.map Prod.fst := List.mem_map_of_mem hp
    exact List.mem_range.mp (hperm.mem_iff.mp this)
  have := hin (fun j => (placeAll inp.length as)[j]!) (placeAll_get inp.length as hnd hlt)
  simpa only [gIdx_root_zero] using this

end Desync
