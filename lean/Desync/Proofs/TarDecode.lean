/-
  (3) Decoding what the tar encoder wrote, per element kind.
-/
import Desync.Proofs.FormatLemmas
import Desync.Proofs.TarSizes

namespace Desync

/-! ### `decBody` at the element types the encoder uses -/

theorem decBody_entry (sz : UInt64) (s : St) :
    decBody sz Gen.CaFormatEntry s =
      (if sz ≠ 64 then .err .format else do
        let (ff, s) ← readU64 s
        let (mode, s) ← readU64 s
        let (fl, s) ← readU64 s
        let (uid, s) ← readU64 s
        let (gid, s) ← readU64 s
        let (mt, s) ← readU64 s
        pure (.entry sz ff mode fl uid gid mt, s)) := by
  unfold decBody
  rw [if_pos rfl]

theorem decBody_xattr (sz : UInt64) (s : St) :
    decBody sz Gen.CaFormatXAttr s = (do
      let (b, s) ← readStr sz 16 s; pure (.xattr sz b, s)) := by
  unfold decBody
  rw [if_neg (by decide : ¬ Gen.CaFormatXAttr = Gen.CaFormatEntry),
    if_neg (by decide : ¬ Gen.CaFormatXAttr = Gen.CaFormatUser),
    if_neg (by decide : ¬ Gen.CaFormatXAttr = Gen.CaFormatGroup),
    if_pos rfl]

theorem decBody_filename (sz : UInt64) (s : St) :
    decBody sz Gen.CaFormatFilename s = (do
      let (b, s) ← readStr sz 16 s; pure (.filename sz b, s)) := by
  unfold decBody
  rw [if_neg (by decide : ¬ Gen.CaFormatFilename = Gen.CaFormatEntry),
    if_neg (by decide : ¬ Gen.CaFormatFilename = Gen.CaFormatUser),
    if_neg (by decide : ¬ Gen.CaFormatFilename = Gen.CaFormatGroup),
    if_neg (by decide : ¬ Gen.CaFormatFilename = Gen.CaFormatXAttr),
    if_neg (by decide : ¬ Gen.CaFormatFilename = Gen.CaFormatSELinux),
    if_pos rfl]

theorem decBody_symlink (sz : UInt64) (s : St) :
    decBody sz Gen.CaFormatSymlink s = (do
      let (b, s) ← readStr sz 16 s; pure (.symlink sz b, s)) := by
  unfold decBody
  rw [if_neg (by decide : ¬ Gen.CaFormatSymlink = Gen.CaFormatEntry),
    if_neg (by decide : ¬ Gen.CaFormatSymlink = Gen.CaFormatUser),
    if_neg (by decide : ¬ Gen.CaFormatSymlink = Gen.CaFormatGroup),
    if_neg (by decide : ¬ Gen.CaFormatSymlink = Gen.CaFormatXAttr),
    if_neg (by decide : ¬ Gen.CaFormatSymlink = Gen.CaFormatSELinux),
    if_neg (by decide : ¬ Gen.CaFormatSymlink = Gen.CaFormatFilename),
    if_pos rfl]

theorem decBody_device (sz : UInt64) (s : St) :
    decBody sz Gen.CaFormatDevice s =
      (if sz ≠ 32 then .err .format else do
        let (ma, s) ← readU64 s
        let (mi, s) ← readU64 s
        pure (.device sz ma mi, s)) := by
  unfold decBody
  rw [if_neg (by decide : ¬ Gen.CaFormatDevice = Gen.CaFormatEntry),
    if_neg (by decide : ¬ Gen.CaFormatDevice = Gen.CaFormatUser),
    if_neg (by decide : ¬ Gen.CaFormatDevice = Gen.CaFormatGroup),
    if_neg (by decide : ¬ Gen.CaFormatDevice = Gen.CaFormatXAttr),
    if_neg (by decide : ¬ Gen.CaFormatDevice = Gen.CaFormatSELinux),
    if_neg (by decide : ¬ Gen.CaFormatDevice = Gen.CaFormatFilename),
    if_neg (by decide : ¬ Gen.CaFormatDevice = Gen.CaFormatSymlink),
    if_pos rfl]

theorem decBody_payload (sz : UInt64) (s : St) :
    decBody sz Gen.CaFormatPayload s =
      if sz.toNat < 16 ∨ sz.toNat - 16 > 0x7FFFFFFFFFFFFFFF then .err .format
      else pure (.payload sz, s) := by
  unfold decBody
  rw [if_neg (by decide : ¬ Gen.CaFormatPayload = Gen.CaFormatEntry),
    if_neg (by decide : ¬ Gen.CaFormatPayload = Gen.CaFormatUser),
    if_neg (by decide : ¬ Gen.CaFormatPayload = Gen.CaFormatGroup),
    if_neg (by decide : ¬ Gen.CaFormatPayload = Gen.CaFormatXAttr),
    if_neg (by decide : ¬ Gen.CaFormatPayload = Gen.CaFormatSELinux),
    if_neg (by decide : ¬ Gen.CaFormatPayload = Gen.CaFormatFilename),
    if_neg (by decide : ¬ Gen.CaFormatPayload = Gen.CaFormatSymlink),
    if_neg (by decide : ¬ Gen.CaFormatPayload = Gen.CaFormatDevice),
    if_pos rfl]

theorem decBody_goodbye (sz : UInt64) (s : St) :
    decBody sz Gen.CaFormatGoodbye s =
      (if sz.toNat < 16 then .err .format else do
        let (items, s) ← readGoodbyeItems ((sz.toNat - 16) / 24) s []
        match items.getLast? with
        | none => .err .format
        | some l => if l.hash ≠ Gen.CaFormatGoodbyeTailMarker then .err .format
                    else pure (.goodbye sz items, s)) := by
  unfold decBody
  rw [if_neg (by decide : ¬ Gen.CaFormatGoodbye = Gen.CaFormatEntry),
    if_neg (by decide : ¬ Gen.CaFormatGoodbye = Gen.CaFormatUser),
    if_neg (by decide : ¬ Gen.CaFormatGoodbye = Gen.CaFormatGroup),
    if_neg (by decide : ¬ Gen.CaFormatGoodbye = Gen.CaFormatXAttr),
    if_neg (by decide : ¬ Gen.CaFormatGoodbye = Gen.CaFormatSELinux),
    if_neg (by decide : ¬ Gen.CaFormatGoodbye = Gen.CaFormatFilename),
    if_neg (by decide : ¬ Gen.CaFormatGoodbye = Gen.CaFormatSymlink),
    if_neg (by decide : ¬ Gen.CaFormatGoodbye = Gen.CaFormatDevice),
    if_neg (by decide : ¬ Gen.CaFormatGoodbye = Gen.CaFormatPayload),
    if_neg (by decide : ¬ Gen.CaFormatGoodbye = Gen.CaFormatFCaps),
    if_neg (by decide : ¬ Gen.CaFormatGoodbye = Gen.CaFormatACLUser),
    if_neg (by decide : ¬ Gen.CaFormatGoodbye = Gen.CaFormatACLGroup),
    if_neg (by decide : ¬ Gen.CaFormatGoodbye = Gen.CaFormatACLGroupObj),
    if_neg (by decide : ¬ Gen.CaFormatGoodbye = Gen.CaFormatACLDefault),
    if_pos rfl]
  rfl

/-! ### the two input-sized readers on encoder output -/

/-- a NUL-terminated string body -/
theorem readStr_enc (sz : UInt64) (x r : Bytes) (a : Nat) (hsz : sz.toNat = 16 + x.length + 1) :
    readStr sz 16 ⟨x ++ 0 :: r, a⟩ = .ok (x, ⟨r, a + (x.length + 1)⟩) := by
  unfold readStr
  rw [if_neg (by omega)]
  have hn : sz.toNat - 16 = (x ++ [0]).length := by simp; omega
  have hsplit : x ++ 0 :: r = (x ++ [0]) ++ r := by simp
  rw [hn, hsplit, readN_append]
  simp

theorem readGoodbyeItems_enc (items : List GoodbyeItem) (r : Bytes) (a : Nat)
    (acc : List GoodbyeItem) :
    readGoodbyeItems items.length ⟨encGoodbyeItems items ++ r, a⟩ acc
      = .ok (acc.reverse ++ items, ⟨r, a + 24 * items.length⟩) := by
  induction items generalizing a acc with
  | nil => simp [readGoodbyeItems, encGoodbyeItems]
  | cons it items ih =>
    have henc : encGoodbyeItems (it :: items) ++ r
        = le64 it.offset ++ (le64 it.size ++ (le64 it.hash ++ (encGoodbyeItems items ++ r))) := by
      simp [encGoodbyeItems, List.append_assoc]
    rw [henc, List.length_cons]
    unfold readGoodbyeItems
    simp only [readU64_le64, Res.ok_bind]
    rw [ih]
    simp only [List.reverse_cons, List.append_assoc, List.singleton_append]
    congr 3
    omega

/-! ### `decNext` on encoder output -/

theorem decNext_entry_enc (ff mode fl uid gid mt : UInt64) (r : Bytes) (a : Nat) :
    decNext ⟨encElem (.entry 64 ff mode fl uid gid mt) ++ r, a⟩
      = .ok (some (.entry 64 ff mode fl uid gid mt), ⟨r, a⟩) := by
  simp only [encElem, encU64s, List.flatMap_cons, List.flatMap_nil, List.append_nil,
    List.append_assoc]
  unfold decNext
  rw [readU64_le64]
  simp only
  rw [readU64_le64]
  simp only
  rw [decBody_entry, if_neg (by simp)]
  simp only [readU64_le64, Res.ok_bind, Res.pure_eq]

theorem decNext_filename_enc (n r : Bytes) (a : Nat) (h : 16 + n.length + 1 < 2^64) :
    decNext ⟨encElem (.filename (UInt64.ofNat (16 + n.length + 1)) n) ++ r, a⟩
      = .ok (some (.filename (UInt64.ofNat (16 + n.length + 1)) n), ⟨r, a + n.length + 1⟩) := by
  simp only [encElem, encU64s, List.flatMap_cons, List.flatMap_nil, List.append_nil,
    List.append_assoc, List.cons_append, List.nil_append]
  unfold decNext
  rw [readU64_le64]
  simp only
  rw [readU64_le64]
  simp only
  rw [decBody_filename, readStr_enc _ n r a (ofNat_toNat_of_lt h)]
  simp only [Res.ok_bind, Res.pure_eq, Nat.add_assoc]

theorem decNext_symlink_enc (t r : Bytes) (a : Nat) (h : 16 + t.length + 1 < 2^64) :
    decNext ⟨encElem (.symlink (UInt64.ofNat (16 + t.length + 1)) t) ++ r, a⟩
      = .ok (some (.symlink (UInt64.ofNat (16 + t.length + 1)) t), ⟨r, a + t.length + 1⟩) := by
  simp only [encElem, encU64s, List.flatMap_cons, List.flatMap_nil, List.append_nil,
    List.append_assoc, List.cons_append, List.nil_append]
  unfold decNext
  rw [readU64_le64]
  simp only
  rw [readU64_le64]
  simp only
  rw [decBody_symlink, readStr_enc _ t r a (ofNat_toNat_of_lt h)]
  simp only [Res.ok_bind, Res.pure_eq, Nat.add_assoc]

theorem decNext_device_enc (ma mi : UInt64) (r : Bytes) (a : Nat) :
    decNext ⟨encElem (.device 32 ma mi) ++ r, a⟩ = .ok (some (.device 32 ma mi), ⟨r, a⟩) := by
  simp only [encElem, encU64s, List.flatMap_cons, List.flatMap_nil, List.append_nil,
    List.append_assoc]
  unfold decNext
  rw [readU64_le64]
  simp only
  rw [readU64_le64]
  simp only
  rw [decBody_device, if_neg (by simp)]
  simp only [readU64_le64, Res.ok_bind, Res.pure_eq]

theorem decNext_payload_enc (sz : UInt64) (r : Bytes) (a : Nat) (h1 : 16 ≤ sz.toNat)
    (h2 : sz.toNat - 16 ≤ 0x7FFFFFFFFFFFFFFF) :
    decNext ⟨encElem (.payload sz) ++ r, a⟩ = .ok (some (.payload sz), ⟨r, a⟩) := by
  simp only [encElem, encU64s, List.flatMap_cons, List.flatMap_nil, List.append_nil,
    List.append_assoc]
  unfold decNext
  rw [readU64_le64]
  simp only
  rw [readU64_le64]
  simp only
  rw [decBody_payload, if_neg (by omega)]
  simp only [Res.ok_bind, Res.pure_eq]

theorem decNext_goodbye_enc (items : List GoodbyeItem) (r : Bytes) (a : Nat) (hne : items ≠ [])
    (htail : (items.getLast hne).hash = Gen.CaFormatGoodbyeTailMarker)
    (hlen : 16 + items.length * 24 < 2^64) :
    decNext ⟨encElem (.goodbye (UInt64.ofNat (16 + items.length * 24)) items) ++ r, a⟩
      = .ok (some (.goodbye (UInt64.ofNat (16 + items.length * 24)) items),
          ⟨r, a + 24 * items.length⟩) := by
  simp only [encElem, encU64s, List.flatMap_cons, List.flatMap_nil, List.append_nil,
    List.append_assoc]
  unfold decNext
  rw [readU64_le64]
  simp only
  rw [readU64_le64]
  simp only
  have hsz := ofNat_toNat_of_lt hlen
  rw [decBody_goodbye, if_neg (by omega)]
  have hn : ((UInt64.ofNat (16 + items.length * 24)).toNat - 16) / 24 = items.length := by
    rw [hsz]; omega
  simp only [hn]
  rw [readGoodbyeItems_enc]
  simp only [Res.ok_bind, List.reverse_nil, List.nil_append]
  rw [List.getLast?_eq_some_getLast hne]
  simp only [htail, ne_eq, not_true_eq_false, ↓reduceIte, Res.pure_eq, Res.ok_bind]

theorem decNext_xattr_enc (k v r : Bytes) (a : Nat) (h : k.length + v.length + 18 < 2^64) :
    decNext ⟨encElem (.xattr (u64len k + 1 + u64len v + 1 + 16) (k ++ [0] ++ v)) ++ r, a⟩
      = .ok (some (.xattr (u64len k + 1 + u64len v + 1 + 16) (k ++ [0] ++ v)),
          ⟨r, a + k.length + v.length + 2⟩) := by
  have hsz := xattr_sz_toNat k v h
  generalize u64len k + 1 + u64len v + 1 + 16 = sz at hsz ⊢
  simp only [encElem, encU64s, List.flatMap_cons, List.flatMap_nil, List.append_nil,
    List.append_assoc, List.cons_append, List.nil_append]
  unfold decNext
  rw [readU64_le64]
  simp only
  rw [readU64_le64]
  simp only
  have hbody : k ++ 0 :: (v ++ 0 :: r) = (k ++ 0 :: v) ++ 0 :: r := by simp
  rw [decBody_xattr, hbody, readStr_enc sz (k ++ 0 :: v) r a (by simp; omega)]
  simp only [Res.ok_bind, Res.pure_eq, List.length_append, List.length_cons]
  congr 3
  omega

end Desync
