/-
  The invariant of the parallel chunker machine (`Desync/Model/ParChunk.lean`) as a `Prop`
  (mirroring the executable `invB` of `ParChunkDefs.lean`, which the fuzzer evaluates), the
  hypotheses `EnvOK` about the abstract chunker, and the basic toolkit: worker-list updates and
  chains of genuine chunks (`Run`).
-/
import Desync.Proofs.ParChunkDefs

namespace Desync.Par

/-- what the machine assumes about the abstract chunker and the file: `zero x` = byte x of the file is zero -/
structure EnvOK (e : Env) (zero : Nat → Prop) : Prop where
  max_pos : 0 < e.max
  cut_pos : ∀ pos, pos < e.size → 0 < e.cut pos
  cut_le : ∀ pos, pos < e.size → pos + e.cut pos ≤ e.size
  /-- a chunk with the null chunk's ID consists of `max` zero bytes (collision-freeness of the digest) -/
  null_zero : ∀ c, e.isNull c = true → c.size = e.max ∧ ∀ x, c.start ≤ x → x < c.fin → zero x
  /-- if a null chunk exists at all, every position followed by `max` zero bytes cuts at `max` and that chunk is a null chunk -/
  zero_cut : ∀ pos, (∃ c0, e.isNull c0 = true) → pos + e.max ≤ e.size →
      (∀ x, pos ≤ x → x < pos + e.max → zero x) → e.cut pos = e.max ∧ e.isNull ⟨pos, e.max⟩ = true
  offsets_head : e.offsets.head? = some 0
  offsets_le : ∀ o ∈ e.offsets, o ≤ e.size
  offsets_sorted : e.offsets.Pairwise (· ≤ ·)

/-! ## worker-list updates -/

theorem getW_setW (s : St) (i x : Nat) (f : Worker → Worker) :
    (setW s i f).workers[x]? = if i = x then (s.workers[x]?).map f else s.workers[x]? := by
  simp only [setW, List.getElem?_modify]
  split <;> cases s.workers[x]? <;> simp

theorem getW_setW_self (s : St) (i : Nat) (f : Worker → Worker) (w : Worker) (h : s.workers[i]? = some w) :
    (setW s i f).workers[i]? = some (f w) := by
  rw [getW_setW, if_pos rfl, h]; rfl

theorem getW_setW_ne (s : St) (i x : Nat) (f : Worker → Worker) (h : x ≠ i) :
    (setW s i f).workers[x]? = s.workers[x]? := by
  rw [getW_setW, if_neg (fun h' => h h'.symm)]

@[simp] theorem len_setW (s : St) (i : Nat) (f : Worker → Worker) : (setW s i f).workers.length = s.workers.length := by
  simp only [setW, List.length_modify]

@[simp] theorem main_setW (s : St) (i : Nat) (f : Worker → Worker) : (setW s i f).main = s.main := rfl
@[simp] theorem index_setW (s : St) (i : Nat) (f : Worker → Worker) : (setW s i f).index = s.index := rfl

theorem getW_lt {ws : List Worker} {i : Nat} {w : Worker} (h : ws[i]? = some w) : i < ws.length := by
  have := List.getElem?_eq_some_iff.mp h
  exact this.1

theorem getW_of_lt {ws : List Worker} {i : Nat} (h : i < ws.length) : ∃ w, ws[i]? = some w :=
  ⟨ws[i], List.getElem?_eq_getElem h⟩

/-! ## chains of genuine chunks -/

/-- `l` is a chain of genuine chunks (`⟨p, cut p⟩` with `p < size`) from `b` to `en` -/
def Run (e : Env) : Nat → List Chunk → Nat → Prop
  | b, [], en => b = en
  | b, c :: l, en => c.start = b ∧ c.size = e.cut b ∧ b < e.size ∧ Run e (b + e.cut b) l en

def Genuine (e : Env) (c : Chunk) : Prop := c.size = e.cut c.start ∧ c.start < e.size

def ZeroOn (zero : Nat → Prop) (a b : Nat) : Prop := ∀ x, a ≤ x → x < b → zero x

theorem Run.le {e : Env} : ∀ {l : List Chunk} {b en : Nat}, Run e b l en → b ≤ en
  | [], b, en, h => by simp only [Run] at h; omega
  | c :: l, b, en, h => by
    simp only [Run] at h
    have := Run.le h.2.2.2
    omega

theorem Run.end_le {e : Env} {zero : Nat → Prop} (hE : EnvOK e zero) :
    ∀ {l : List Chunk} {b en : Nat}, Run e b l en → b ≤ e.size → en ≤ e.size
  | [], b, en, h, hb => by simp only [Run] at h; omega
  | c :: l, b, en, h, _ => by
    simp only [Run] at h
    exact Run.end_le hE h.2.2.2 (hE.cut_le b h.2.2.1)

theorem Run.snoc {e : Env} : ∀ {l : List Chunk} {b en : Nat} (c : Chunk), Run e b l en →
    c.start = en → c.size = e.cut en → en < e.size → Run e b (l ++ [c]) (en + e.cut en)
  | [], b, en, c, h, h1, h2, h3 => by
    simp only [Run] at h
    subst h
    simp only [List.nil_append, Run]
    exact ⟨h1, h2, h3, trivial⟩
  | d :: l, b, en, c, h, h1, h2, h3 => by
    simp only [Run] at h
    simp only [List.cons_append, Run]
    exact ⟨h.1, h.2.1, h.2.2.1, Run.snoc c h.2.2.2 h1 h2 h3⟩

/-- the start of a chain is the start of its first chunk -/
theorem Run.head_start {e : Env} {c : Chunk} {l : List Chunk} {b en : Nat} (h : Run e b (c :: l) en) : c.start = b := h.1

theorem Run.tail {e : Env} {c : Chunk} {l : List Chunk} {b en : Nat} (h : Run e b (c :: l) en) : Run e c.fin l en := by
  simp only [Run] at h
  have : c.fin = b + e.cut b := by simp only [Chunk.fin]; omega
  rw [this]; exact h.2.2.2

theorem Run.head_genuine {e : Env} {c : Chunk} {l : List Chunk} {b en : Nat} (h : Run e b (c :: l) en) : Genuine e c := by
  simp only [Run] at h
  exact ⟨by rw [h.1]; exact h.2.1, by rw [h.1]; exact h.2.2.1⟩

theorem indexLength_nil : indexLength [] = 0 := rfl

theorem indexLength_snoc (l : List Chunk) (c : Chunk) : indexLength (l ++ [c]) = c.fin := by
  simp only [indexLength, List.getLast?_concat]

/-- a chain is a prefix of the single-stream sequence from its start -/
theorem Run.prefix_seqFrom {e : Env} {zero : Nat → Prop} (hE : EnvOK e zero) :
    ∀ {l : List Chunk} {b en : Nat} (fuel : Nat), Run e b l en → e.size ≤ b + fuel → l <+: seqFrom e fuel b
  | [], _, _, _, _, _ => List.nil_prefix
  | c :: l, b, en, fuel, h, hf => by
    simp only [Run] at h
    obtain ⟨h1, h2, h3, h4⟩ := h
    match fuel, hf with
    | 0, hf => omega
    | fuel + 1, hf =>
      simp only [seqFrom]
      rw [if_neg (by omega)]
      have hc : c = ⟨b, e.cut b⟩ := by cases c; simp only [Chunk.mk.injEq]; exact ⟨h1, h2⟩
      rw [hc, List.prefix_cons_inj]
      have := hE.cut_pos b h3
      exact Run.prefix_seqFrom hE fuel h4 (by omega)

/-- a chain that reaches the end of the file is the single-stream sequence from its start -/
theorem Run.eq_seqFrom {e : Env} {zero : Nat → Prop} (hE : EnvOK e zero) :
    ∀ {l : List Chunk} {b : Nat} (fuel : Nat), Run e b l e.size → e.size ≤ b + fuel → l = seqFrom e fuel b
  | [], b, fuel, h, _ => by
    simp only [Run] at h
    cases fuel with
    | zero => rfl
    | succ f => simp only [seqFrom]; rw [if_pos (by omega)]
  | c :: l, b, fuel, h, hf => by
    simp only [Run] at h
    obtain ⟨h1, h2, h3, h4⟩ := h
    match fuel, hf with
    | 0, hf => omega
    | fuel + 1, hf =>
      simp only [seqFrom]
      rw [if_neg (by omega)]
      have hc : c = ⟨b, e.cut b⟩ := by cases c; simp only [Chunk.mk.injEq]; exact ⟨h1, h2⟩
      have := hE.cut_pos b h3
      rw [hc, Run.eq_seqFrom hE fuel h4 (by omega)]

/-! ## the invariant -/

def DeadEmpty (w : Worker) : Prop := w.stopped = true ∧ w.bucket = []
def FinEmpty (w : Worker) : Prop := finPC w.pc = true ∧ w.bucket = []

/-- the part of the invariant about the program counter of a worker that concerns the worker alone -/
def PcLocal (e : Env) (zero : Nat → Prop) (w : Worker) : Prop :=
  match w.pc with
  | .pushed c => Genuine e c ∧ c.fin = w.pos
  | .popping c _ => Genuine e c ∧ c.fin = w.pos ∧ ∃ j, w.next = some j
  | .decide c _ => Genuine e c ∧ c.fin = w.pos ∧ ∃ j, w.next = some j
  | .nullScan c _ => Genuine e c ∧ c.fin = w.pos ∧ ∃ j, w.next = some j
  | .advance last k => 0 < k ∧ last.fin + k * e.max = w.pos ∧ ZeroOn zero last.fin w.pos ∧ e.isNull last = true
  | _ => True

def PrevOK (p : Option Chunk) (c : Chunk) (sy : Chunk) : Prop :=
  ∀ q, p = some q → q.start < c.start ∧ (q = Chunk.zero ∨ q.fin = sy.start)

/-- the part about a worker inside `syncWith` that concerns `sync` of the next worker -/
def PcPair (e : Env) (zero : Nat → Prop) (pc : PC) (sy : Chunk) : Prop :=
  match pc with
  | .popping c p => PrevOK p c sy
  | .decide c p => PrevOK p c sy ∧ c.start ≤ sy.start
  | .nullScan c n => e.isNull sy = true ∧ c.start + n = sy.start ∧ ZeroOn zero c.start sy.fin
  | _ => True

structure WLocal (e : Env) (zero : Nat → Prop) (n i : Nat) (w : Worker) : Prop where
  pos_le : w.pos ≤ e.size
  run : Run e (front w) w.bucket (endOf w)
  stopped_iff : w.stopped = stoppedPC w.pc
  closed_iff : w.closed = true ↔ w.pc = .done
  nx_gt : i < nxW n w
  nx_le : nxW n w ≤ n
  next_lt : ∀ j, w.next = some j → j < n
  eof_ok : w.eof = true → w.pos = e.size ∧ finPC w.pc = true
  pc_ok : PcLocal e zero w

def Bypassed (ws : List Worker) (k : Nat) : Prop := ∃ i : Nat, ∃ w : Worker, i < k ∧ ws[i]? = some w ∧ k < nxW ws.length w

def InsyncInv (ws : List Worker) (m : Nat) : Prop :=
  ∀ (k : Nat) (w : Worker), ws[k]? = some w → m ≤ k → finPC w.pc = true → w.eof = false → ¬ Bypassed ws k →
    ∃ wj : Worker, ws[nxW ws.length w]? = some wj ∧ front wj = endOf w

def CarrierInv (e : Env) (ws : List Worker) (m q : Nat) : Prop :=
  ∃ k : Nat, ∃ w : Worker, m ≤ k ∧ ws[k]? = some w ∧
    (∀ (h : Nat) (wh : Worker), m ≤ h → h < k → ws[h]? = some wh → FinEmpty wh) ∧
    front w = q ∧ (FinEmpty w → q = e.size)

def BeforeInv (ws : List Worker) (m : Nat) : Prop :=
  ∀ (i : Nat) (w : Worker), i < m → ws[i]? = some w → w.pc = .done ∧ w.bucket = []

structure ReadInv (e : Env) (s : St) (m : Nat) : Prop where
  m_lt : m < s.workers.length
  before : BeforeInv s.workers m
  insync : InsyncInv s.workers m
  carrier : CarrierInv e s.workers m (indexLength s.index)

def MainInv (e : Env) (s : St) : Prop :=
  match s.main with
  | .reading m => ReadInv e s m
  | .finished ok => ok = true ∧ indexLength s.index = e.size

def LocInv (e : Env) (zero : Nat → Prop) (ws : List Worker) : Prop :=
  ∀ (i : Nat) (w : Worker), ws[i]? = some w → WLocal e zero ws.length i w

def PairInv (e : Env) (zero : Nat → Prop) (ws : List Worker) : Prop :=
  ∀ (i : Nat) (w : Worker) (j : Nat) (wj : Worker), ws[i]? = some w → w.next = some j → ws[j]? = some wj →
    PcPair e zero w.pc wj.sync

/-- S(j): as long as a worker before j is still running, `sync` of j is the chunk just before j's bucket -/
def SyncInv (ws : List Worker) : Prop :=
  ∀ (j : Nat) (wj : Worker), ws[j]? = some wj → (∃ i : Nat, ∃ w : Worker, i < j ∧ ws[i]? = some w ∧ w.pc ≠ .done) →
    wj.sync = Chunk.zero ∨ wj.sync.fin = front wj

/-- every worker strictly between a worker and its `next` is stopped with an empty bucket, and the
    `next` intervals are nested -/
def StructInv (ws : List Worker) : Prop :=
  ∀ (i : Nat) (w : Worker) (h : Nat) (wh : Worker), ws[i]? = some w → ws[h]? = some wh → i < h → h < nxW ws.length w →
    DeadEmpty wh ∧ nxW ws.length wh ≤ nxW ws.length w

structure Inv (e : Env) (zero : Nat → Prop) (s : St) : Prop where
  len : s.workers.length = e.offsets.length
  loc : LocInv e zero s.workers
  pair : PairInv e zero s.workers
  sync : SyncInv s.workers
  struct : StructInv s.workers
  index : Run e 0 s.index (indexLength s.index)
  main : MainInv e s

/-! ## small facts -/

theorem front_nil {w : Worker} (h : w.bucket = []) : front w = endOf w := by
  simp only [front, h]

theorem front_cons {w : Worker} {c : Chunk} {l : List Chunk} (h : w.bucket = c :: l) : front w = c.start := by
  simp only [front, h]

theorem nxW_some {n : Nat} {w : Worker} {j : Nat} (h : w.next = some j) : nxW n w = j := by
  simp only [nxW, h, Option.getD_some]

theorem DeadEmpty.finEmpty {e : Env} {zero : Nat → Prop} {n i : Nat} {w : Worker} (hl : WLocal e zero n i w)
    (h : DeadEmpty w) : FinEmpty w := by
  refine ⟨?_, h.2⟩
  have := hl.stopped_iff
  rw [h.1] at this
  cases hpc : w.pc <;> simp only [hpc, stoppedPC, finPC] at this ⊢ <;> cases this

theorem FinEmpty.front {w : Worker} (h : FinEmpty w) : front w = w.pos := by
  rw [front_nil h.2]
  have := h.1
  cases hpc : w.pc <;> simp only [hpc, finPC, endOf] at this ⊢ <;> cases this

theorem WLocal.front_le {e : Env} {zero : Nat → Prop} {n i : Nat} {w : Worker} (hl : WLocal e zero n i w) :
    front w ≤ endOf w := hl.run.le

theorem WLocal.endOf_le_pos {e : Env} {zero : Nat → Prop} {n i : Nat} {w : Worker} (hl : WLocal e zero n i w) :
    endOf w ≤ w.pos := by
  have := hl.pc_ok
  cases hpc : w.pc <;> simp only [hpc, endOf, PcLocal] at this ⊢ <;> omega

end Desync.Par
