/-
  The normalised statement skeletons of gcs.go / gcsindex.go that `Model/GCStore.lean` was written against
  (harness/extract/gcsfacts.go: logging dropped, side-effect-free single-definition locals replaced by their definition,
  an `else` after a branch that leaves the function flattened, locals renamed l0, l1, … in order of definition, the
  receiver `s`, parameters p0, p1, …, message strings shortened).  Read next to the model:

    gcsGetSkel         ↔ `gcsGetChunk`   NewReader: ErrObjectNotExist → ChunkMissing | err → wrapped error; ReadAll: the same
                                         split; `NewChunkFromStorage(id, b, s.converters, s.opt.SkipVerify)`
    gcsStoreSkel       ↔ `gcsStoreChunk` Data, toStorage, NewWriter, io.Copy (its error returned), Close (its error returned)
    gcsHasSkel         ↔ `gcsHasChunk`   ErrObjectNotExist → false,nil | err → false,err | true,nil
    gcsRemoveSkel      ↔ `gcsRemove`     the error of Delete returned (a missing object is an error)
    gcsPruneSkel       ↔ `gcsPruneWalk`  Objects(ctx, Query{Prefix}), Next: Done → end | err → return; idFromName err → continue;
                                         not in the map → RemoveChunk(id), its error returned
    gcsIDFromNameSkel / gcsNameFromIDSkel + gcsNamesAsS3 ↔ `s3Classify` / `nameFromID` (shared with the S3 model)
    gcsIndex…Skel      ↔ `gcsIndexGet` / `gcsIndexStore`
-/
import Desync.Generated.Facts

namespace Desync.GCS.Expected

def gcsGetSkel : List String := [
  "l0,l1 := s.client.Object(s.nameFromID(p0)).NewReader(emptyCtx)",
  "if l1==storage.ErrObjectNotExist",
  "{",
  "return nil,ChunkMissing{ID:p0}",
  "}",
  "if l1!=nil",
  "{",
  "return nil,errors.Wrap(l1,s.String())",
  "}",
  "defer l0.Close()",
  "l2,l1 := ioutil.ReadAll(l0)",
  "if l1==storage.ErrObjectNotExist",
  "{",
  "return nil,ChunkMissing{ID:p0}",
  "}",
  "if l1!=nil",
  "{",
  "return nil,errors.Wrap(l1,fmt.Sprintf(\"…\",p0))",
  "}",
  "return NewChunkFromStorage(p0,l2,s.converters,s.opt.SkipVerify)"]

def gcsStoreSkel : List String := [
  "l0,l1 := p0.Data()",
  "if l1!=nil",
  "{",
  "return l1",
  "}",
  "l0,l1 = s.converters.toStorage(l0)",
  "if l1!=nil",
  "{",
  "return l1",
  "}",
  "l2 := bytes.NewReader(l0)",
  "l3 := s.client.Object(s.nameFromID(p0.ID())).NewWriter(emptyCtx)",
  "l3.ContentType = \"…\"",
  "_,l1 = io.Copy(l3,l2)",
  "if l1!=nil",
  "{",
  "return errors.Wrap(l1,s.String())",
  "}",
  "l1 = l3.Close()",
  "if l1!=nil",
  "{",
  "return errors.Wrap(l1,s.String())",
  "}",
  "return nil"]

def gcsHasSkel : List String := [
  "_,l0 := s.client.Object(s.nameFromID(p0)).Attrs(emptyCtx)",
  "if l0==storage.ErrObjectNotExist",
  "{",
  "return false,nil",
  "}",
  "if l0!=nil",
  "{",
  "return false,l0",
  "}",
  "return true,nil"]

def gcsRemoveSkel : List String := [
  "l0 := s.client.Object(s.nameFromID(p0)).Delete(emptyCtx)",
  "if l0!=nil",
  "{",
  "return l0",
  "}",
  "return nil"]

def gcsPruneSkel : List String := [
  "l0 := s.client.Objects(p0,&storage.Query{Prefix:s.prefix})",
  "for ;;",
  "{",
  "l1,l2 := l0.Next()",
  "if l2==iterator.Done",
  "{",
  "break",
  "}",
  "if l2!=nil",
  "{",
  "return l2",
  "}",
  "l3,l2 := s.idFromName(l1.Name)",
  "if l2!=nil",
  "{",
  "continue",
  "}",
  "if _,l4 := p1[l3]; !l4",
  "{",
  "if l2 = s.RemoveChunk(l3); l2!=nil",
  "{",
  "return l2",
  "}",
  "}",
  "}",
  "return nil"]

def gcsNameFromIDSkel : List String := [
  "l0 := \"…\"",
  "if s.opt.Uncompressed",
  "{",
  "l0 += UncompressedChunkExt",
  "}",
  "else",
  "{",
  "l0 += CompressedChunkExt",
  "}",
  "return l0"]

def gcsIDFromNameSkel : List String := [
  "var l0 string",
  "if s.opt.Uncompressed",
  "{",
  "if !strings.HasSuffix(p0,UncompressedChunkExt)",
  "{",
  "return ChunkID{},fmt.Errorf(\"…\",p0)",
  "}",
  "l0 = strings.TrimSuffix(strings.TrimPrefix(p0,s.prefix),UncompressedChunkExt)",
  "}",
  "else",
  "{",
  "if !strings.HasSuffix(p0,CompressedChunkExt)",
  "{",
  "return ChunkID{},fmt.Errorf(\"…\",p0)",
  "}",
  "l0 = strings.TrimSuffix(strings.TrimPrefix(p0,s.prefix),CompressedChunkExt)",
  "}",
  "l1 := strings.Split(l0,\"…\")",
  "if len(l1)!=2",
  "{",
  "return ChunkID{},fmt.Errorf(\"…\",p0)",
  "}",
  "l2 := l1[0]",
  "l3 := l1[1]",
  "if !strings.HasPrefix(l3,l2)",
  "{",
  "return ChunkID{},fmt.Errorf(\"…\",p0)",
  "}",
  "return ChunkIDFromString(l3)"]

def gcsNormalizePrefixSkel : List String := [
  "l0 := strings.Trim(p0,\"…\")",
  "if l0!=\"…\"",
  "{",
  "l0 += \"…\"",
  "}",
  "return l0"]

def gcsIndexReaderSkel : List String := [
  "l0,l1 := s.client.Object(s.prefix+p0).NewReader(emptyCtx)",
  "if l1==storage.ErrObjectNotExist",
  "{",
  "return nil,errors.Wrap(l1,s.String())",
  "}",
  "if l1!=nil",
  "{",
  "return nil,errors.Wrap(l1,s.String())",
  "}",
  "return l0,nil"]

def gcsIndexGetSkel : List String := [
  "l0,l1 := s.GetIndexReader(p0)",
  "if l1!=nil",
  "{",
  "return i,l1",
  "}",
  "defer l0.Close()",
  "return IndexFromReader(l0)"]

def gcsIndexStoreSkel : List String := [
  "l0 := s.client.Object(s.prefix+p0).NewWriter(emptyCtx)",
  "l0.ContentType = \"…\"",
  "_,l1 := p1.WriteTo(l0)",
  "if l1!=nil",
  "{",
  "l0.Close()",
  "return errors.Wrap(l1,path.Base(s.Location))",
  "}",
  "l1 = l0.Close()",
  "if l1!=nil",
  "{",
  "return errors.Wrap(l1,path.Base(s.Location))",
  "}",
  "return nil"]

end Desync.GCS.Expected
