/-
  Frame lemmas, part 2: a worker takes a chunk out of the bucket of its next worker (`Inv.pop_step`),
  and the two events of the main routine.
-/
import Desync.Proofs.ParChunkFrame

namespace Desync.Par

variable {e : Env} {zero : Nat → Prop}

/-- `ws'` is `ws` with workers `i < j` replaced -/
structure Upd2 (ws ws' : List Worker) (i j : Nat) (w w' wj wj' : Worker) : Prop where
  hij : i < j
  hi : ws[i]? = some w
  hi' : ws'[i]? = some w'
  hj : ws[j]? = some wj
  hj' : ws'[j]? = some wj'
  oth : ∀ x, x ≠ i → x ≠ j → ws'[x]? = ws[x]?
  len : ws'.length = ws.length

theorem Upd2.setW {s : St} {i j : Nat} {w wj : Worker} (f g : Worker → Worker) (hij : i < j)
    (hi : s.workers[i]? = some w) (hj : s.workers[j]? = some wj) :
    Upd2 s.workers (setW (setW s j g) i f).workers i j w (f w) wj (g wj) := by
  refine ⟨hij, hi, ?_, hj, ?_, ?_, ?_⟩
  · apply getW_setW_self
    rw [getW_setW_ne _ _ _ _ (by omega)]; exact hi
  · rw [getW_setW_ne _ _ _ _ (by omega)]; exact getW_setW_self s j g wj hj
  · intro x h1 h2
    rw [getW_setW_ne _ _ _ _ h1, getW_setW_ne _ _ _ _ h2]
  · rw [len_setW, len_setW]

theorem Upd2.old {ws ws' : List Worker} {i j : Nat} {w w' wj wj' : Worker} (U : Upd2 ws ws' i j w w' wj wj')
    {x : Nat} {wx' : Worker} (hx : ws'[x]? = some wx') :
    (x = i ∧ wx' = w') ∨ (x = j ∧ wx' = wj') ∨ (x ≠ i ∧ x ≠ j ∧ ws[x]? = some wx') := by
  by_cases hxi : x = i
  · subst hxi; rw [U.hi'] at hx; exact Or.inl ⟨rfl, (Option.some.inj hx).symm⟩
  · by_cases hxj : x = j
    · subst hxj; rw [U.hj'] at hx; exact Or.inr (Or.inl ⟨rfl, (Option.some.inj hx).symm⟩)
    · rw [U.oth x hxi hxj] at hx; exact Or.inr (Or.inr ⟨hxi, hxj, hx⟩)

/-- what a receive by a syncing predecessor does to the worker it takes from: a chunk moves from the
    bucket into `sync`, or (bucket closed and drained) `sync` becomes the zero value -/
structure PopShape (wj wj' : Worker) : Prop where
  pos : wj'.pos = wj.pos
  pc : wj'.pc = wj.pc
  next : wj'.next = wj.next
  closed : wj'.closed = wj.closed
  stopped : wj'.stopped = wj.stopped
  eof : wj'.eof = wj.eof
  how : (∃ x, wj.bucket = x :: wj'.bucket ∧ wj'.sync = x) ∨ (wj.bucket = [] ∧ wj'.bucket = [] ∧ wj'.sync = Chunk.zero)

theorem PopShape.endOf {wj wj' : Worker} (P : PopShape wj wj') : endOf wj' = endOf wj := by
  simp only [Desync.Par.endOf, P.pc, P.pos]

theorem PopShape.empty {wj wj' : Worker} (P : PopShape wj wj') (h : wj.bucket = []) : wj'.bucket = [] := by
  rcases P.how with ⟨x, hx, _⟩ | ⟨_, h2, _⟩
  · rw [h] at hx; cases hx
  · exact h2

theorem PopShape.dead {wj wj' : Worker} (P : PopShape wj wj') (h : DeadEmpty wj) : DeadEmpty wj' :=
  ⟨by rw [P.stopped]; exact h.1, P.empty h.2⟩

theorem PopShape.fin {wj wj' : Worker} (P : PopShape wj wj') (h : FinEmpty wj) : FinEmpty wj' :=
  ⟨by rw [P.pc]; exact h.1, P.empty h.2⟩

theorem Run.front_eq : ∀ {l : List Chunk} {b en : Nat}, Run e b l en →
    (match l with | c :: _ => c.start | [] => en) = b
  | [], _, _, h => by simp only [Run] at h; exact h.symm
  | c :: l, _, _, h => h.1

/-- after a chunk has been taken out, the bucket starts where that chunk ends -/
theorem PopShape.front_pop {n j : Nat} {wj wj' : Worker} (P : PopShape wj wj') (hl : WLocal e zero n j wj) {x : Chunk}
    (hx : wj.bucket = x :: wj'.bucket) : front wj' = x.fin := by
  have hr := hl.run
  rw [hx] at hr
  have := Run.front_eq hr.tail
  rw [← P.endOf] at this
  simp only [front]
  exact this

theorem PopShape.wlocal {n j : Nat} {wj wj' : Worker} (P : PopShape wj wj') (hl : WLocal e zero n j wj) :
    WLocal e zero n j wj' := by
  refine ⟨by rw [P.pos]; exact hl.pos_le, ?_, by rw [P.stopped, P.pc]; exact hl.stopped_iff,
    by rw [P.closed, P.pc]; exact hl.closed_iff, by rw [nxW_congr rfl P.next]; exact hl.nx_gt,
    by rw [nxW_congr rfl P.next]; exact hl.nx_le, by rw [P.next]; exact hl.next_lt,
    by rw [P.eof, P.pos, P.pc]; exact hl.eof_ok, ?_⟩
  · rcases P.how with ⟨x, hx, _⟩ | ⟨h1, h2, _⟩
    · rw [P.front_pop hl hx, P.endOf]
      have hr := hl.run
      rw [hx] at hr
      exact hr.tail
    · have hr := hl.run
      rw [front_nil h1, h1] at hr
      rw [front_nil h2, h2, P.endOf]; exact hr
  · have := hl.pc_ok
    simp only [PcLocal, P.pc, P.pos, P.next] at this ⊢
    exact this

theorem PcPair.of_stopped {pc : PC} (h : stoppedPC pc = true) (sy : Chunk) : PcPair e zero pc sy := by
  cases pc <;> first | (simp only [PcPair]; done) | (simp only [stoppedPC] at h; cases h)

theorem Inv.pop_step (_hE : EnvOK e zero) {s s' : St} {i j : Nat} {w w' wj wj' : Worker} (hI : Inv e zero s)
    (U : Upd2 s.workers s'.workers i j w w' wj wj') (hmain : s'.main = s.main) (hindex : s'.index = s.index)
    (hnext : w.next = some j) (hlive : finPC w.pc = false) (hlive' : finPC w'.pc = false)
    (hs : w'.sync = w.sync) (hn : w'.next = w.next) (hf : front w' = front w)
    (hloc' : WLocal e zero s.workers.length i w') (P : PopShape wj wj')
    (hpair' : PcPair e zero w'.pc wj'.sync) : Inv e zero s' := by
  have hl := hI.loc i w U.hi
  have hlj := hI.loc j wj U.hj
  have hnd : w.pc ≠ .done := by intro h; rw [h] at hlive; cases hlive
  have hnotdead : ¬ DeadEmpty w := hl.not_dead_of_live hlive
  -- every worker of the new list has an old version with the same `next`
  have key : ∀ {y : Nat} {wy' : Worker}, s'.workers[y]? = some wy' →
      ∃ wy, s.workers[y]? = some wy ∧ nxW s'.workers.length wy' = nxW s.workers.length wy ∧
        (DeadEmpty wy → DeadEmpty wy') ∧ (wy'.pc ≠ .done → wy.pc ≠ .done) := by
    intro y wy' hy
    rcases U.old hy with ⟨rfl, rfl⟩ | ⟨rfl, rfl⟩ | ⟨_, _, hy0⟩
    · exact ⟨w, U.hi, nxW_congr U.len hn, fun h => absurd h hnotdead, fun _ => hnd⟩
    · exact ⟨wj, U.hj, nxW_congr U.len P.next, P.dead, by rw [P.pc]; exact id⟩
    · exact ⟨wy', hy0, by rw [U.len], id, id⟩
  have hBy : ∀ k, Bypassed s'.workers k → Bypassed s.workers k := by
    rintro k ⟨x, wx, hxk, hx, hlt⟩
    obtain ⟨wx0, hx0, hnx, _⟩ := key hx
    exact ⟨x, wx0, hxk, hx0, by rw [← hnx]; exact hlt⟩
  have hL : LocInv e zero s'.workers := by
    intro x wx hx
    rw [U.len]
    rcases U.old hx with ⟨rfl, rfl⟩ | ⟨rfl, rfl⟩ | ⟨_, _, hx0⟩
    · exact hloc'
    · exact P.wlocal hlj
    · exact hI.loc x wx hx0
  -- any other worker that points to j has stopped
  have others : ∀ (x : Nat) (wx : Worker), x ≠ i → s.workers[x]? = some wx → nxW s.workers.length wx = j →
      DeadEmpty wx := by
    intro x wx hxi hx hnx
    have hxj := (hI.loc x wx hx).nx_gt
    rcases Nat.lt_trichotomy x i with h | h | h
    · exact absurd (hI.struct x wx i w hx U.hi h (by rw [hnx]; exact U.hij)).1 hnotdead
    · exact absurd h hxi
    · exact (hI.struct i w x wx U.hi hx h (by rw [nxW_some hnext]; omega)).1
  have hP : PairInv e zero s'.workers := by
    intro x wx y wy hx hnx hy
    rcases U.old hx with ⟨rfl, rfl⟩ | ⟨rfl, rfl⟩ | ⟨hxi, hxj, hx0⟩
    · rw [hn, hnext] at hnx
      cases hnx
      rw [U.hj'] at hy; cases hy
      exact hpair'
    · rw [P.next] at hnx
      have hgt := hlj.nx_gt
      rw [nxW_some hnx] at hgt
      rw [U.oth y (by have := U.hij; omega) (by omega)] at hy
      rw [P.pc]
      exact hI.pair x wj y wy U.hj hnx hy
    · rcases U.old hy with ⟨rfl, rfl⟩ | ⟨rfl, rfl⟩ | ⟨_, _, hy0⟩
      · rw [hs]; exact hI.pair x wx y w hx0 hnx U.hi
      · have hd := others x wx hxi hx0 (nxW_some hnx)
        have hst := (hI.loc x wx hx0).stopped_iff
        rw [hd.1] at hst
        exact PcPair.of_stopped hst.symm _
      · exact hI.pair x wx y wy hx0 hnx hy0
  have hSy : SyncInv s'.workers := by
    intro y wy hy ⟨x, wx, hxy, hx, hxpc⟩
    have hprem : ∃ x : Nat, ∃ wx : Worker, x < y ∧ s.workers[x]? = some wx ∧ wx.pc ≠ .done := by
      obtain ⟨wx0, hx0, _, _, hpc⟩ := key hx
      exact ⟨x, wx0, hxy, hx0, hpc hxpc⟩
    rcases U.old hy with ⟨rfl, rfl⟩ | ⟨rfl, rfl⟩ | ⟨_, _, hy0⟩
    · rw [hs, hf]; exact hI.sync y w U.hi hprem
    · rcases P.how with ⟨c, hc, hsy⟩ | ⟨_, _, hsy⟩
      · right; rw [P.front_pop hlj hc, hsy]
      · left; exact hsy
    · exact hI.sync y wy hy0 hprem
  have hS : StructInv s'.workers := by
    intro x wx h wh hx hh hxh hlt
    obtain ⟨wx0, hx0, hnx, _⟩ := key hx
    obtain ⟨wh0, hh0, hnh, hdh, _⟩ := key hh
    rw [hnx] at hlt ⊢
    rw [hnh]
    have := hI.struct x wx0 h wh0 hx0 hh0 hxh hlt
    exact ⟨hdh this.1, this.2⟩
  refine ⟨by rw [U.len]; exact hI.len, hL, hP, hSy, hS, by rw [hindex]; exact hI.index, ?_⟩
  refine MainInv.same_index hmain hindex U.len ?_ hI.main
  intro m _ hR
  have hmi : m ≤ i := by
    rcases Nat.lt_or_ge i m with h | h
    · exact absurd (hR.before i w h U.hi).1 hnd
    · exact h
  refine ⟨?_, ?_, ?_⟩
  · intro x wx hxm hx
    rcases U.old hx with ⟨rfl, rfl⟩ | ⟨rfl, rfl⟩ | ⟨_, _, hx0⟩
    · omega
    · have := U.hij; omega
    · exact hR.before x wx hxm hx0
  · intro k wk hk hmk hfin heof hnb
    have hnb0 : ¬ Bypassed s.workers k := fun h => hnb (by
      obtain ⟨x, wx, hxk, hx, hlt⟩ := h
      by_cases hxi : x = i
      · subst hxi; rw [U.hi] at hx; cases hx
        exact ⟨x, w', hxk, U.hi', by rw [nxW_congr U.len hn]; exact hlt⟩
      · by_cases hxj : x = j
        · subst hxj; rw [U.hj] at hx; cases hx
          exact ⟨x, wj', hxk, U.hj', by rw [nxW_congr U.len P.next]; exact hlt⟩
        · exact ⟨x, wx, hxk, by rw [U.oth x hxi hxj]; exact hx, by rw [U.len]; exact hlt⟩)
    have trans : ∀ (y : Nat) (wy : Worker) (en : Nat), y ≠ j → s.workers[y]? = some wy → front wy = en →
        ∃ wy' : Worker, s'.workers[y]? = some wy' ∧ front wy' = en := by
      intro y wy en hyj hy hfr
      by_cases hyi : y = i
      · subst hyi; rw [U.hi] at hy; cases hy; exact ⟨w', U.hi', by rw [hf]; exact hfr⟩
      · exact ⟨wy, by rw [U.oth y hyi hyj]; exact hy, hfr⟩
    rcases U.old hk with ⟨rfl, rfl⟩ | ⟨rfl, rfl⟩ | ⟨hki, hkj, hk0⟩
    · rw [hlive'] at hfin; cases hfin
    · rw [P.pc] at hfin; rw [P.eof] at heof
      obtain ⟨wy, hy, hfr⟩ := hR.insync k wj U.hj hmk hfin heof hnb0
      rw [nxW_congr U.len P.next, P.endOf]
      exact trans _ wy _ (by have := hlj.nx_gt; omega) hy hfr
    · obtain ⟨wy, hy, hfr⟩ := hR.insync k wk hk0 hmk hfin heof hnb0
      rw [U.len]
      refine trans _ wy _ ?_ hy hfr
      intro hnk
      -- k points to j: then it is bypassed by i or i is dead
      have hkj' := (hI.loc k wk hk0).nx_gt
      rcases Nat.lt_trichotomy k i with h | h | h
      · exact hnotdead (hI.struct k wk i w hk0 U.hi h (by rw [hnk]; exact U.hij)).1
      · exact hki h
      · exact hnb0 ⟨i, w, h, U.hi, by rw [nxW_some hnext]; omega⟩
  · obtain ⟨k, wk, hmk, hk, hbetween, hfr, hfin⟩ := hR.carrier
    have hki : k ≤ i := by
      rcases Nat.lt_or_ge i k with h | h
      · have := (hbetween i w hmi h U.hi).1
        rw [hlive] at this; cases this
      · exact h
    have hb' : ∀ (h : Nat) (wh : Worker), m ≤ h → h < k → s'.workers[h]? = some wh → FinEmpty wh := by
      intro h wh hmh hhk hh
      rcases U.old hh with ⟨rfl, rfl⟩ | ⟨rfl, rfl⟩ | ⟨_, _, hh0⟩
      · omega
      · have := U.hij; omega
      · exact hbetween h wh hmh hhk hh0
    by_cases hkeq : k = i
    · subst hkeq
      rw [U.hi] at hk; cases hk
      refine ⟨k, w', hmk, U.hi', hb', by rw [hf]; exact hfr, ?_⟩
      intro h; have := h.1; rw [hlive'] at this; cases this
    · have hkj : k ≠ j := by have := U.hij; omega
      exact ⟨k, wk, hmk, by rw [U.oth k hkeq hkj]; exact hk, hb', hfr, hfin⟩

/-! ## the main routine -/

theorem WLocal.congr_sync {n i : Nat} {w : Worker} (hl : WLocal e zero n i w) (sy : Chunk) :
    WLocal e zero n i { w with sync := sy } :=
  ⟨hl.pos_le, hl.run, hl.stopped_iff, hl.closed_iff, hl.nx_gt, hl.nx_le, hl.next_lt, hl.eof_ok, hl.pc_ok⟩

theorem Inv.mainPop_step (hE : EnvOK e zero) {s : St} {m : Nat} {w : Worker} {c : Chunk} {rest : List Chunk}
    (hI : Inv e zero s) (hm : s.main = .reading m) (hw : s.workers[m]? = some w) (hb : w.bucket = c :: rest) :
    Inv e zero { setW s m (fun w => { w with bucket := rest }) with index := s.index ++ [c] } := by
  have hR := (MainInv.reading hm).mp hI.main
  have hl := hI.loc m w hw
  have U : Upd1 s.workers (setW s m (fun w => { w with bucket := rest })).workers m w { w with bucket := rest } :=
    Upd1.setW _ hw
  have P : PopShape w { w with bucket := rest, sync := c } := ⟨rfl, rfl, rfl, rfl, rfl, rfl, Or.inl ⟨c, hb, rfl⟩⟩
  have hloc' : WLocal e zero s.workers.length m { w with bucket := rest } := (P.wlocal hl).congr_sync w.sync
  have hfr' : front { w with bucket := rest } = c.fin := P.front_pop hl hb
  have hnotdead : ¬ DeadEmpty w := by intro h; have := h.2; rw [hb] at this; cases this
  have hnotfin : ¬ FinEmpty w := by intro h; have := h.2; rw [hb] at this; cases this
  -- the carrier is m itself
  have hq : c.start = indexLength s.index := by
    obtain ⟨k, wk, hmk, hk, hbetween, hfr, _⟩ := hR.carrier
    rcases Nat.lt_or_ge m k with h | h
    · exact absurd (hbetween m w (Nat.le_refl _) h hw) hnotfin
    · have : k = m := by omega
      subst this
      rw [hw] at hk; cases hk
      rw [← hfr, front_cons hb]
  have hgen := (show Run e (front w) (c :: rest) (endOf w) by rw [← hb]; exact hl.run).head_genuine
  have hL := LocInv.upd1 U hloc' hI.loc
  have hS := StructInv.upd1 U (w' := { w with bucket := rest }) rfl (fun h => absurd h hnotdead) hI.struct
  have hBy : ∀ k, Bypassed (setW s m (fun w => { w with bucket := rest })).workers k ↔ Bypassed s.workers k :=
    Bypassed.upd1 U rfl
  refine ⟨by rw [U.len]; exact hI.len, hL,
    PairInv.upd1 U (w' := { w with bucket := rest }) rfl rfl hI.loc (fun j wj hnx hj => hI.pair m w j wj hw hnx hj) hI.pair,
    ?_, hS, ?_, ?_⟩
  · -- sync
    intro j wj hj ⟨x, wx, hxj, hx, hxpc⟩
    have hprem : ∃ x : Nat, ∃ wx : Worker, x < j ∧ s.workers[x]? = some wx ∧ wx.pc ≠ .done := by
      rcases U.old hx with ⟨rfl, rfl⟩ | ⟨_, hx0⟩
      · exact ⟨x, w, hxj, hw, hxpc⟩
      · exact ⟨x, wx, hxj, hx0, hxpc⟩
    rcases U.old hj with ⟨rfl, rfl⟩ | ⟨_, hj0⟩
    · obtain ⟨x, wx, hxj, hx, hxpc⟩ := hprem
      exact absurd (hR.before x wx hxj hx).1 hxpc
    · exact hI.sync j wj hj0 hprem
  · -- index
    show Run e 0 (s.index ++ [c]) (indexLength (s.index ++ [c]))
    rw [indexLength_snoc]
    have := Run.snoc c hI.index hq (by rw [← hq]; exact hgen.1) (by rw [← hq]; exact hgen.2)
    have hfin : c.fin = indexLength s.index + e.cut (indexLength s.index) := by
      simp only [Chunk.fin]; rw [hgen.1, hq]
    rw [hfin]; exact this
  · -- main
    rw [MainInv.reading (show ({ setW s m (fun w => { w with bucket := rest }) with index := s.index ++ [c] } : St).main = .reading m from hm)]
    have hIns : InsyncInv (setW s m (fun w => { w with bucket := rest })).workers m := by
      intro k wk hk hmk hfin heof hnb
      rw [hBy] at hnb
      rw [U.len]
      have hold : ∃ wk0 : Worker, s.workers[k]? = some wk0 ∧ finPC wk0.pc = true ∧ wk0.eof = false ∧
          nxW s.workers.length wk = nxW s.workers.length wk0 ∧ endOf wk = endOf wk0 := by
        rcases U.old hk with ⟨rfl, rfl⟩ | ⟨_, hk0⟩
        · exact ⟨w, hw, hfin, heof, rfl, rfl⟩
        · exact ⟨wk, hk0, hfin, heof, rfl, rfl⟩
      obtain ⟨wk0, hk0, h1, h2, h3, h4⟩ := hold
      obtain ⟨wy, hy, hfr⟩ := hR.insync k wk0 hk0 hmk h1 h2 hnb
      have hgt := (hI.loc k wk0 hk0).nx_gt
      rw [h3, h4]
      exact ⟨wy, by rw [U.oth _ (by omega)]; exact hy, hfr⟩
    refine ⟨by rw [U.len]; exact hR.m_lt, BeforeInv.upd1 U (fun h => absurd h (Nat.lt_irrefl _)) hR.before, hIns, ?_⟩
    show CarrierInv e _ m (indexLength (s.index ++ [c]))
    rw [indexLength_snoc]
    refine carrier_at hE hL hS hIns U.hi' (Nat.le_refl _) (fun h wh h1 h2 _ => by omega) hfr' ?_
    intro _ _ hbp
    rw [hBy] at hbp
    obtain ⟨x, wx, hxk, hx, hlt⟩ := hbp
    exact hnotdead (hI.struct x wx m w hx hw hxk hlt).1

theorem Inv.index_le (hE : EnvOK e zero) {s : St} (hI : Inv e zero s) : indexLength s.index ≤ e.size :=
  Run.end_le hE hI.index (Nat.zero_le _)

/-- the bucket the main routine reads is closed and drained -/
theorem Inv.mainNext_step (hE : EnvOK e zero) {s : St} {m : Nat} {w : Worker}
    (hI : Inv e zero s) (hm : s.main = .reading m) (hw : s.workers[m]? = some w) (hb : w.bucket = []) (hc : w.closed = true) :
    (indexLength s.index < e.size → m + 1 < s.workers.length ∧ Inv e zero { s with main := .reading (m + 1) }) ∧
    (indexLength s.index ≥ e.size → Inv e zero { s with main := .finished true }) := by
  have hR := (MainInv.reading hm).mp hI.main
  have hl := hI.loc m w hw
  have hdone : w.pc = .done := hl.closed_iff.mp hc
  have hfe : FinEmpty w := ⟨by rw [hdone]; rfl, hb⟩
  constructor
  · intro hlt
    obtain ⟨k, wk, hmk, hk, hbetween, hfr, hfin⟩ := hR.carrier
    have hkm : m < k := by
      rcases Nat.lt_or_ge m k with h | h
      · exact h
      · have : k = m := by omega
        subst this
        rw [hw] at hk; cases hk
        have := hfin hfe; omega
    have hklt := getW_lt hk
    refine ⟨by omega, hI.len, hI.loc, hI.pair, hI.sync, hI.struct, hI.index, ?_⟩
    rw [MainInv.reading (show ({ s with main := .reading (m + 1) } : St).main = .reading (m + 1) from rfl)]
    refine ⟨by show m + 1 < s.workers.length; omega, ?_, ?_, ?_⟩
    · intro x wx hx hwx
      rcases Nat.lt_or_ge x m with h | h
      · exact hR.before x wx h hwx
      · have : x = m := by omega
        subst this
        rw [hw] at hwx; cases hwx
        exact ⟨hdone, hb⟩
    · intro k' wk' hk' hmk'
      exact hR.insync k' wk' hk' (by omega)
    · exact ⟨k, wk, by omega, hk, fun h wh h1 h2 hh => hbetween h wh (by omega) h2 hh, hfr, hfin⟩
  · intro hge
    refine ⟨hI.len, hI.loc, hI.pair, hI.sync, hI.struct, hI.index, ?_⟩
    rw [MainInv.finished (show ({ s with main := .finished true } : St).main = .finished true from rfl)]
    have := hI.index_le hE
    exact ⟨rfl, by show indexLength s.index = e.size; omega⟩

end Desync.Par
