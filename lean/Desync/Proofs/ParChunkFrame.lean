/-
  Frame lemmas for the invariant of the parallel chunker machine: how each component of `Inv`
  survives an update of one worker (`Upd1`), and the "walk" along the chain of workers that have
  stopped in sync, which finds the worker whose bucket the main routine reads next.
-/
import Desync.Proofs.ParChunkInv

namespace Desync.Par

variable {e : Env} {zero : Nat → Prop}

/-- `ws'` is `ws` with worker `i` replaced: `w` by `w'` -/
structure Upd1 (ws ws' : List Worker) (i : Nat) (w w' : Worker) : Prop where
  hi : ws[i]? = some w
  hi' : ws'[i]? = some w'
  oth : ∀ x, x ≠ i → ws'[x]? = ws[x]?
  len : ws'.length = ws.length

theorem Upd1.setW {s : St} {i : Nat} {w : Worker} (f : Worker → Worker) (h : s.workers[i]? = some w) :
    Upd1 s.workers (setW s i f).workers i w (f w) :=
  ⟨h, getW_setW_self s i f w h, fun x hx => getW_setW_ne s i x f hx, len_setW s i f⟩

/-- a worker of the new list comes from a worker of the old list -/
theorem Upd1.old {ws ws' : List Worker} {i : Nat} {w w' : Worker} (U : Upd1 ws ws' i w w') {x : Nat} {wx' : Worker}
    (hx : ws'[x]? = some wx') : (x = i ∧ wx' = w') ∨ (x ≠ i ∧ ws[x]? = some wx') := by
  by_cases hxi : x = i
  · subst hxi; rw [U.hi'] at hx; exact Or.inl ⟨rfl, (Option.some.inj hx).symm⟩
  · rw [U.oth x hxi] at hx; exact Or.inr ⟨hxi, hx⟩

theorem nxW_congr {n n' : Nat} {w w' : Worker} (hn : n' = n) (h : w'.next = w.next) : nxW n' w' = nxW n w := by
  simp only [nxW, h, hn]

theorem Bypassed.upd1 {ws ws' : List Worker} {i : Nat} {w w' : Worker} (U : Upd1 ws ws' i w w')
    (hn : w'.next = w.next) (k : Nat) : Bypassed ws' k ↔ Bypassed ws k := by
  constructor
  · rintro ⟨x, wx, hxk, hx, hlt⟩
    rcases U.old hx with ⟨rfl, rfl⟩ | ⟨_, hx0⟩
    · exact ⟨x, w, hxk, U.hi, by rw [← nxW_congr U.len hn]; exact hlt⟩
    · exact ⟨x, wx, hxk, hx0, by rw [← U.len]; exact hlt⟩
  · rintro ⟨x, wx, hxk, hx, hlt⟩
    by_cases hxi : x = i
    · subst hxi
      rw [U.hi] at hx; cases hx
      exact ⟨x, w', hxk, U.hi', by rw [nxW_congr U.len hn]; exact hlt⟩
    · exact ⟨x, wx, hxk, by rw [U.oth x hxi]; exact hx, by rw [U.len]; exact hlt⟩

/-! ## components under a single-worker update that keeps `next`, `sync` and the bucket front -/

theorem LocInv.upd1 {ws ws' : List Worker} {i : Nat} {w w' : Worker} (U : Upd1 ws ws' i w w')
    (hloc' : WLocal e zero ws.length i w') (old : LocInv e zero ws) : LocInv e zero ws' := by
  intro x wx hx
  rw [U.len]
  rcases U.old hx with ⟨rfl, rfl⟩ | ⟨_, hx0⟩
  · exact hloc'
  · exact old x wx hx0

theorem PairInv.upd1 {ws ws' : List Worker} {i : Nat} {w w' : Worker} (U : Upd1 ws ws' i w w')
    (hs : w'.sync = w.sync) (hn : w'.next = w.next) (hloc : LocInv e zero ws)
    (hpair' : ∀ j wj, w.next = some j → ws[j]? = some wj → PcPair e zero w'.pc wj.sync)
    (old : PairInv e zero ws) : PairInv e zero ws' := by
  intro x wx y wy hx hnext hy
  rcases U.old hx with ⟨rfl, rfl⟩ | ⟨hxi, hx0⟩
  · rw [hn] at hnext
    have hgt := (hloc x w U.hi).nx_gt
    rw [nxW_some hnext] at hgt
    rw [U.oth y (by omega)] at hy
    exact hpair' y wy hnext hy
  · rcases U.old hy with ⟨rfl, rfl⟩ | ⟨_, hy0⟩
    · rw [hs]; exact old x wx y w hx0 hnext U.hi
    · exact old x wx y wy hx0 hnext hy0

theorem SyncInv.upd1 {ws ws' : List Worker} {i : Nat} {w w' : Worker} (U : Upd1 ws ws' i w w')
    (hs : w'.sync = w.sync) (hf : front w' = front w) (hnd : w'.pc ≠ .done → w.pc ≠ .done)
    (old : SyncInv ws) : SyncInv ws' := by
  intro j wj hj ⟨x, wx, hxj, hx, hxpc⟩
  have hprem : ∃ x : Nat, ∃ wx : Worker, x < j ∧ ws[x]? = some wx ∧ wx.pc ≠ .done := by
    rcases U.old hx with ⟨rfl, rfl⟩ | ⟨_, hx0⟩
    · exact ⟨x, w, hxj, U.hi, hnd hxpc⟩
    · exact ⟨x, wx, hxj, hx0, hxpc⟩
  rcases U.old hj with ⟨rfl, rfl⟩ | ⟨_, hj0⟩
  · rw [hs, hf]; exact old j w U.hi hprem
  · exact old j wj hj0 hprem

theorem StructInv.upd1 {ws ws' : List Worker} {i : Nat} {w w' : Worker} (U : Upd1 ws ws' i w w')
    (hn : w'.next = w.next) (hde : DeadEmpty w → DeadEmpty w')
    (old : StructInv ws) : StructInv ws' := by
  intro x wx h wh hx hh hxh hlt
  -- the old versions of both workers, with the same `next`
  have key : ∀ {y : Nat} {wy' : Worker}, ws'[y]? = some wy' →
      ∃ wy, ws[y]? = some wy ∧ nxW ws'.length wy' = nxW ws.length wy ∧ (DeadEmpty wy → DeadEmpty wy') := by
    intro y wy' hy
    rcases U.old hy with ⟨rfl, rfl⟩ | ⟨_, hy0⟩
    · exact ⟨w, U.hi, nxW_congr U.len hn, hde⟩
    · exact ⟨wy', hy0, by rw [U.len], id⟩
  obtain ⟨wx0, hx0, hnx, _⟩ := key hx
  obtain ⟨wh0, hh0, hnh, hdh⟩ := key hh
  rw [hnx] at hlt ⊢
  rw [hnh]
  have := old x wx0 h wh0 hx0 hh0 hxh hlt
  exact ⟨hdh this.1, this.2⟩

theorem BeforeInv.upd1 {ws ws' : List Worker} {i : Nat} {w w' : Worker} {m : Nat} (U : Upd1 ws ws' i w w')
    (hnd : i < m → w.pc ≠ .done) (old : BeforeInv ws m) : BeforeInv ws' m := by
  intro x wx hxm hx
  rcases U.old hx with ⟨rfl, rfl⟩ | ⟨_, hx0⟩
  · exact absurd (old x w hxm U.hi).1 (hnd hxm)
  · exact old x wx hxm hx0

theorem InsyncInv.upd1 {ws ws' : List Worker} {i : Nat} {w w' : Worker} {m : Nat} (U : Upd1 ws ws' i w w')
    (hn : w'.next = w.next) (hf : front w' = front w) (_hloc : LocInv e zero ws)
    (hins : finPC w'.pc = true → w'.eof = false →
      (finPC w.pc = true ∧ w.eof = false ∧ endOf w' = endOf w) ∨
        (∃ wj : Worker, ws[nxW ws.length w]? = some wj ∧ front wj = endOf w'))
    (old : InsyncInv ws m) : InsyncInv ws' m := by
  intro k wk hk hmk hfin heof hnb
  rw [Bypassed.upd1 U hn] at hnb
  -- the conclusion transfers from the old list
  have trans : ∀ (j : Nat) (wj : Worker) (en : Nat), ws[j]? = some wj → front wj = en →
      ∃ wj' : Worker, ws'[j]? = some wj' ∧ front wj' = en := by
    intro j wj en hj hfr
    by_cases hji : j = i
    · subst hji; rw [U.hi] at hj; cases hj; exact ⟨w', U.hi', by rw [hf]; exact hfr⟩
    · exact ⟨wj, by rw [U.oth j hji]; exact hj, hfr⟩
  rcases U.old hk with ⟨rfl, rfl⟩ | ⟨_, hk0⟩
  · rw [nxW_congr U.len hn]
    rcases hins hfin heof with ⟨h1, h2, h3⟩ | ⟨wj, hj, hfr⟩
    · obtain ⟨wj, hj, hfr⟩ := old k w U.hi hmk h1 h2 hnb
      exact trans _ wj _ hj (by rw [h3]; exact hfr)
    · exact trans _ wj _ hj hfr
  · rw [U.len]
    obtain ⟨wj, hj, hfr⟩ := old k wk hk0 hmk hfin heof hnb
    exact trans _ wj _ hj hfr

/-! ## the walk along workers that stopped in sync -/

theorem walk (_hE : EnvOK e zero) {ws : List Worker} {m q : Nat} (hloc : LocInv e zero ws) (hst : StructInv ws)
    (hins : InsyncInv ws m) (hq : q ≠ e.size) :
    ∀ (d k : Nat) (w : Worker), ws.length ≤ k + d → ws[k]? = some w → m ≤ k → ¬ Bypassed ws k → FinEmpty w →
      endOf w = q →
      ∃ k' : Nat, ∃ w' : Worker, k < k' ∧ ws[k']? = some w' ∧
        (∀ (h : Nat) (wh : Worker), k < h → h < k' → ws[h]? = some wh → FinEmpty wh) ∧ front w' = q ∧ ¬ FinEmpty w' := by
  intro d
  induction d with
  | zero =>
    intro k w hlen hk
    have := getW_lt hk
    omega
  | succ d ih =>
    intro k w hlen hk hmk hnb hfe hend
    have hl := hloc k w hk
    have hpos : endOf w = w.pos := by rw [← front_nil hfe.2]; exact hfe.front
    have heof : w.eof = false := by
      cases hw : w.eof
      · rfl
      · exfalso; apply hq; rw [← hend, hpos]; exact (hl.eof_ok hw).1
    obtain ⟨wj, hj, hfr⟩ := hins k w hk hmk hfe.1 heof hnb
    have hgt := hl.nx_gt
    generalize hjdef : nxW ws.length w = j at hj hgt
    have hmid : ∀ (h : Nat) (wh : Worker), k < h → h < j → ws[h]? = some wh → FinEmpty wh := by
      intro h wh hkh hhj hh
      exact (hst k w h wh hk hh hkh (by rw [hjdef]; exact hhj)).1.finEmpty (hloc h wh hh)
    by_cases hfj : FinEmpty wj
    · have hnbj : ¬ Bypassed ws j := by
        rintro ⟨x, wx, hxj, hx, hlt⟩
        rcases Nat.lt_trichotomy x k with hxk | hxk | hxk
        · exact hnb ⟨x, wx, hxk, hx, by omega⟩
        · subst hxk; rw [hk] at hx; cases hx; omega
        · have := (hst k w x wx hk hx hxk (by rw [hjdef]; exact hxj)).2
          omega
      obtain ⟨k', w', hjk', hk', hbetween, hfr', hnf⟩ :=
        ih j wj (by omega) hj (by omega) hnbj hfj (by rw [← front_nil hfj.2, hfr, hend])
      refine ⟨k', w', by omega, hk', ?_, hfr', hnf⟩
      intro h wh hkh hhk' hh
      rcases Nat.lt_trichotomy h j with hhj | hhj | hhj
      · exact hmid h wh hkh hhj hh
      · subst hhj; rw [hj] at hh; cases hh; exact hfj
      · exact hbetween h wh hhj hhk' hh
    · exact ⟨j, wj, hgt, hj, hmid, by rw [hfr, hend], hfj⟩

/-- worker `i` carries the index end `q` if everything from `m` up to it is finished and drained -/
theorem carrier_at (hE : EnvOK e zero) {ws : List Worker} {m q i : Nat} {w : Worker} (hloc : LocInv e zero ws)
    (hst : StructInv ws) (hins : InsyncInv ws m) (hi : ws[i]? = some w) (hmi : m ≤ i)
    (hbetween : ∀ (h : Nat) (wh : Worker), m ≤ h → h < i → ws[h]? = some wh → FinEmpty wh)
    (hfr : front w = q) (hnb : FinEmpty w → q ≠ e.size → ¬ Bypassed ws i) : CarrierInv e ws m q := by
  by_cases hc : FinEmpty w ∧ q ≠ e.size
  · obtain ⟨k', w', hik', hk', hb', hfr', hnf⟩ :=
      walk hE hloc hst hins hc.2 ws.length i w (by omega) hi hmi (hnb hc.1 hc.2) hc.1
        (by rw [← front_nil hc.1.2]; exact hfr)
    refine ⟨k', w', by omega, hk', ?_, hfr', fun h => absurd h hnf⟩
    intro h wh hmh hhk' hh
    rcases Nat.lt_trichotomy h i with hhi | hhi | hhi
    · exact hbetween h wh hmh hhi hh
    · subst hhi; rw [hi] at hh; cases hh; exact hc.1
    · exact hb' h wh hhi hhk' hh
  · refine ⟨i, w, hmi, hi, hbetween, hfr, fun hfe => ?_⟩
    by_cases hq : q = e.size
    · exact hq
    · exact absurd ⟨hfe, hq⟩ hc

theorem CarrierInv.upd1 (hE : EnvOK e zero) {ws ws' : List Worker} {i : Nat} {w w' : Worker} {m q : Nat}
    (U : Upd1 ws ws' i w w') (hf : front w' = front w) (hfe : FinEmpty w → FinEmpty w')
    (hloc : LocInv e zero ws) (hst : StructInv ws)
    (hloc' : LocInv e zero ws') (hst' : StructInv ws') (hins' : InsyncInv ws' m)
    (hby : Bypassed ws' i → Bypassed ws i)
    (old : CarrierInv e ws m q) : CarrierInv e ws' m q := by
  obtain ⟨k, wk, hmk, hk, hbetween, hfr, hfin⟩ := old
  have hb' : ∀ (h : Nat) (wh : Worker), m ≤ h → h < k → ws'[h]? = some wh → FinEmpty wh := by
    intro h wh hmh hhk hh
    rcases U.old hh with ⟨rfl, rfl⟩ | ⟨_, hh0⟩
    · exact hfe (hbetween h w hmh hhk U.hi)
    · exact hbetween h wh hmh hhk hh0
  by_cases hki : k = i
  · subst hki
    rw [U.hi] at hk; cases hk
    refine carrier_at hE hloc' hst' hins' U.hi' hmk hb' (by rw [hf]; exact hfr) ?_
    intro _ hq hbp
    have hbp0 := hby hbp
    obtain ⟨x, wx, hxk, hx, hlt⟩ := hbp0
    have hd := (hst x wx k w hx U.hi hxk hlt).1
    exact hq (hfin (hd.finEmpty (hloc k w U.hi)))
  · exact ⟨k, wk, hmk, by rw [U.oth k hki]; exact hk, hb', hfr, hfin⟩

/-! ## assembling: a step of one worker that keeps its `next`, its `sync` and the front of its bucket -/

theorem MainInv.reading {s : St} {m : Nat} (h : s.main = .reading m) : MainInv e s ↔ ReadInv e s m := by
  simp only [MainInv, h]

theorem MainInv.finished {s : St} {ok : Bool} (h : s.main = .finished ok) :
    MainInv e s ↔ (ok = true ∧ indexLength s.index = e.size) := by
  simp only [MainInv, h]

theorem MainInv.same_index {s s' : St} (hmain : s'.main = s.main) (hindex : s'.index = s.index)
    (hlen : s'.workers.length = s.workers.length)
    (hr : ∀ m, s.main = .reading m → ReadInv e s m → BeforeInv s'.workers m ∧ InsyncInv s'.workers m ∧
      CarrierInv e s'.workers m (indexLength s.index))
    (old : MainInv e s) : MainInv e s' := by
  cases hm : s.main with
  | reading m =>
    rw [MainInv.reading hm] at old
    rw [MainInv.reading (hmain.trans hm)]
    obtain ⟨h1, h2, h3⟩ := hr m hm old
    exact ⟨by rw [hlen]; exact old.m_lt, h1, h2, by rw [hindex]; exact h3⟩
  | finished ok =>
    rw [MainInv.finished hm] at old
    rw [MainInv.finished (hmain.trans hm), hindex]
    exact old

theorem WLocal.not_dead_of_live {n i : Nat} {w : Worker} (hl : WLocal e zero n i w) (h : finPC w.pc = false) :
    ¬ DeadEmpty w := by
  intro hd
  have := (hd.finEmpty hl).1
  rw [h] at this; cases this

theorem Inv.self_step (hE : EnvOK e zero) {s s' : St} {i : Nat} {w w' : Worker} (hI : Inv e zero s)
    (U : Upd1 s.workers s'.workers i w w') (hmain : s'.main = s.main) (hindex : s'.index = s.index)
    (hs : w'.sync = w.sync) (hn : w'.next = w.next) (hf : front w' = front w) (hnd : w.pc ≠ .done)
    (hde : DeadEmpty w → DeadEmpty w') (hfe : FinEmpty w → FinEmpty w')
    (hloc' : WLocal e zero s.workers.length i w')
    (hpair' : ∀ j wj, w.next = some j → s.workers[j]? = some wj → PcPair e zero w'.pc wj.sync)
    (hins : finPC w'.pc = true → w'.eof = false →
      (finPC w.pc = true ∧ w.eof = false ∧ endOf w' = endOf w) ∨
        (∃ wj : Worker, s.workers[nxW s.workers.length w]? = some wj ∧ front wj = endOf w')) :
    Inv e zero s' := by
  have hL := LocInv.upd1 U hloc' hI.loc
  have hS := StructInv.upd1 U hn hde hI.struct
  refine ⟨by rw [U.len]; exact hI.len, hL, PairInv.upd1 U hs hn hI.loc hpair' hI.pair,
    SyncInv.upd1 U hs hf (fun _ => hnd) hI.sync, hS, by rw [hindex]; exact hI.index, ?_⟩
  refine MainInv.same_index hmain hindex U.len ?_ hI.main
  intro m _ hR
  have hIns := InsyncInv.upd1 U hn hf hI.loc hins hR.insync
  exact ⟨BeforeInv.upd1 U (fun _ => hnd) hR.before, hIns,
    CarrierInv.upd1 hE U hf hfe hI.loc hI.struct hL hS hIns (Bypassed.upd1 U hn i).mp hR.carrier⟩

/-- the same for a worker that has not decided to return, before or after -/
theorem Inv.self_step_live (hE : EnvOK e zero) {s s' : St} {i : Nat} {w w' : Worker} (hI : Inv e zero s)
    (U : Upd1 s.workers s'.workers i w w') (hmain : s'.main = s.main) (hindex : s'.index = s.index)
    (hs : w'.sync = w.sync) (hn : w'.next = w.next) (hf : front w' = front w) (hlive : finPC w.pc = false)
    (hloc' : WLocal e zero s.workers.length i w')
    (hpair' : ∀ j wj, w.next = some j → s.workers[j]? = some wj → PcPair e zero w'.pc wj.sync)
    (hins : finPC w'.pc = true → w'.eof = false →
        (∃ wj : Worker, s.workers[nxW s.workers.length w]? = some wj ∧ front wj = endOf w')) :
    Inv e zero s' := by
  have hl := hI.loc i w U.hi
  refine Inv.self_step hE hI U hmain hindex hs hn hf ?_ ?_ ?_ hloc' hpair' (fun h1 h2 => Or.inr (hins h1 h2))
  · intro h; rw [h] at hlive; cases hlive
  · intro h; exact absurd h (hl.not_dead_of_live hlive)
  · intro h; have := h.1; rw [hlive] at this; cases this

/-! ## the skip of a stopped and drained next worker -/

theorem Inv.skip_step (hE : EnvOK e zero) {s s' : St} {i j : Nat} {w w' wj : Worker} (hI : Inv e zero s)
    (U : Upd1 s.workers s'.workers i w w') (hmain : s'.main = s.main) (hindex : s'.index = s.index)
    (hpc : w.pc = .skipCheck) (hnext : w.next = some j) (hj : s.workers[j]? = some wj) (hdj : DeadEmpty wj)
    (hw' : w' = { w with next := wj.next, pc := .top }) : Inv e zero s' := by
  have hl := hI.loc i w U.hi
  have hlj := hI.loc j wj hj
  have hij : i < j := by have := hl.nx_gt; rw [nxW_some hnext] at this; exact this
  have hs : w'.sync = w.sync := by rw [hw']
  have hf : front w' = front w := by rw [hw']; simp only [front, endOf, hpc]
  have hnx' : nxW s.workers.length w' = nxW s.workers.length wj := by rw [hw']; rfl
  have hlive : finPC w.pc = false := by rw [hpc]; rfl
  have hnd : w.pc ≠ .done := by rw [hpc]; intro h; cases h
  have hnotstopped : w.stopped = false := by rw [hl.stopped_iff, hpc]; rfl
  have hloc' : WLocal e zero s.workers.length i w' := by
    refine ⟨?_, ?_, ?_, ?_, ?_, ?_, ?_, ?_, ?_⟩
    · rw [hw']; exact hl.pos_le
    · have := hl.run
      rw [hw']; simpa only [front, endOf, hpc] using this
    · rw [hw']; show w.stopped = stoppedPC .top; rw [hnotstopped]; rfl
    · have := hl.closed_iff
      rw [hpc] at this
      rw [hw']; show w.closed = true ↔ PC.top = PC.done
      constructor
      · intro h; exact absurd (this.mp h) (by intro h; cases h)
      · intro h; cases h
    · rw [hnx']; have := hlj.nx_gt; omega
    · rw [hnx']; exact hlj.nx_le
    · rw [hw']; exact hlj.next_lt
    · intro h
      rw [hw'] at h
      have := (hl.eof_ok h).2
      rw [hlive] at this; cases this
    · rw [hw']; simp only [PcLocal]
  have hL := LocInv.upd1 U hloc' hI.loc
  have hP : PairInv e zero s'.workers := by
    intro x wx y wy hx hnx hy
    rcases U.old hx with ⟨rfl, rfl⟩ | ⟨hxi, hx0⟩
    · rw [hw']; simp only [PcPair]
    · rcases U.old hy with ⟨rfl, rfl⟩ | ⟨_, hy0⟩
      · rw [hs]; exact hI.pair x wx y w hx0 hnx U.hi
      · exact hI.pair x wx y wy hx0 hnx hy0
  have hS : StructInv s'.workers := by
    intro x wx h wh hx hh hxh hlt
    rw [U.len] at hlt ⊢
    rcases U.old hx with ⟨rfl, rfl⟩ | ⟨hxi, hx0⟩
    · rcases U.old hh with ⟨rfl, rfl⟩ | ⟨_, hh0⟩
      · omega
      · rw [hnx'] at hlt ⊢
        have hjn := hlj.nx_gt
        rcases Nat.lt_trichotomy h j with hhj | hhj | hhj
        · have := hI.struct x w h wh U.hi hh0 hxh (by rw [nxW_some hnext]; exact hhj)
          rw [nxW_some hnext] at this
          exact ⟨this.1, by omega⟩
        · subst hhj; rw [hj] at hh0; cases hh0; exact ⟨hdj, Nat.le_refl _⟩
        · exact hI.struct j wj h wh hj hh0 hhj hlt
    · rcases U.old hh with ⟨rfl, rfl⟩ | ⟨_, hh0⟩
      · have := (hI.struct x wx h w hx0 U.hi hxh hlt).1
        exact absurd this (hl.not_dead_of_live hlive)
      · exact hI.struct x wx h wh hx0 hh0 hxh hlt
  have hBy : ∀ k, Bypassed s.workers k → Bypassed s'.workers k := by
    rintro k ⟨x, wx, hxk, hx, hlt⟩
    by_cases hxi : x = i
    · subst hxi
      rw [U.hi] at hx; cases hx
      refine ⟨x, w', hxk, U.hi', ?_⟩
      rw [U.len, hnx']
      rw [nxW_some hnext] at hlt
      have := hlj.nx_gt; omega
    · exact ⟨x, wx, hxk, by rw [U.oth x hxi]; exact hx, by rw [U.len]; exact hlt⟩
  refine ⟨by rw [U.len]; exact hI.len, hL, hP, SyncInv.upd1 U hs hf (fun _ => hnd) hI.sync, hS,
    by rw [hindex]; exact hI.index, ?_⟩
  refine MainInv.same_index hmain hindex U.len ?_ hI.main
  intro m _ hR
  have hIns : InsyncInv s'.workers m := by
    intro k wk hk hmk hfin heof hnb
    rcases U.old hk with ⟨rfl, rfl⟩ | ⟨_, hk0⟩
    · rw [hw'] at hfin; cases hfin
    · rw [U.len]
      obtain ⟨wy, hy, hfr⟩ := hR.insync k wk hk0 hmk hfin heof (fun h => hnb (hBy k h))
      by_cases hyi : nxW s.workers.length wk = i
      · rw [hyi] at hy ⊢; rw [U.hi] at hy; cases hy
        exact ⟨w', U.hi', by rw [hf]; exact hfr⟩
      · exact ⟨wy, by rw [U.oth _ hyi]; exact hy, hfr⟩
  refine ⟨BeforeInv.upd1 U (fun _ => hnd) hR.before, hIns,
    CarrierInv.upd1 hE U hf ?_ hI.loc hI.struct hL hS hIns ?_ hR.carrier⟩
  · intro h; have := h.1; rw [hlive] at this; cases this
  · rintro ⟨x, wx, hxk, hx, hlt⟩
    have hxi : x ≠ i := by omega
    exact ⟨x, wx, hxk, by rw [← U.oth x hxi]; exact hx, by rw [← U.len]; exact hlt⟩

end Desync.Par
