/-
  (B) Allocation is bounded by the input consumed.

  `Bnd s s'` : going from `s` to `s'` only consumes input, only allocates, and the
  "potential" `alloc + rest.length` does not increase (i.e. what was allocated is at most
  what was consumed).  `RBnd s r` lifts it to results; the rules are syntax directed like
  those of `NoPanic`/`RExt`.
-/
import Desync.Model.Archive
import Desync.Model.Protocol
import Desync.Proofs.FormatProofs

namespace Desync

def Bnd (s s' : St) : Prop :=
  s'.rest.length ≤ s.rest.length ∧ s.alloc ≤ s'.alloc ∧
    s'.alloc + s'.rest.length ≤ s.alloc + s.rest.length

theorem Bnd.refl (s : St) : Bnd s s := ⟨Nat.le_refl _, Nat.le_refl _, Nat.le_refl _⟩

theorem Bnd.trans {a b c : St} (h₁ : Bnd a b) (h₂ : Bnd b c) : Bnd a c := by
  unfold Bnd at *; omega

def RBnd {α : Type} (s : St) (r : Res (α × St)) : Prop :=
  ∀ x s', r = .ok (x, s') → Bnd s s'

namespace RBnd
variable {α β : Type} {s : St}

theorem err (e : Err) : RBnd s (.err e : Res (α × St)) := by intro x s' h; cases h
theorem panic (p : String) : RBnd s (.panic p : Res (α × St)) := by intro x s' h; cases h

theorem ok {x : α} {s1 : St} (h : Bnd s s1) : RBnd s (Res.ok (x, s1)) := by
  intro y s' h'; cases h'; exact h

theorem pure {x : α} {s1 : St} (h : Bnd s s1) : RBnd s (Pure.pure (x, s1) : Res (α × St)) := ok h

theorem bind {r : Res (α × St)} {f : α × St → Res (β × St)}
    (h₁ : RBnd s r) (h₂ : ∀ x s1, r = .ok (x, s1) → Bnd s s1 → RBnd s (f (x, s1))) :
    RBnd s (r >>= f) := by
  intro y s' h
  cases r with
  | ok a =>
    obtain ⟨x, s1⟩ := a
    exact h₂ x s1 rfl (h₁ x s1 rfl) y s' h
  | err e => cases h
  | panic p => cases h

theorem ite {c : Prop} [Decidable c] {a b : Res (α × St)} (h₁ : RBnd s a) (h₂ : RBnd s b) :
    RBnd s (if c then a else b) := by
  split <;> assumption

/-- weaken the starting point -/
theorem weaken {s0 s : St} {r : Res (α × St)} (h0 : Bnd s0 s) (h : RBnd s r) : RBnd s0 r :=
  fun x s' hr => h0.trans (h x s' hr)

theorem readU64 (s : St) : RBnd s (Desync.readU64 s) := by
  intro v s' h
  obtain ⟨hr, ha⟩ := readU64_ok h
  have := congrArg List.length hr
  simp at this
  unfold Bnd; omega

theorem readN (n : Nat) (s : St) : RBnd s (Desync.readN n s) := by
  intro v s' h
  obtain ⟨hr, hn, ha⟩ := readN_ok h
  have := congrArg List.length hr
  simp at this
  unfold Bnd; omega

end RBnd

theorem readN_consumes {n : Nat} {s s' : St} {b : Bytes} (h : readN n s = .ok (b, s')) :
    s.rest.length = s'.rest.length + n ∧ s'.alloc = s.alloc + n := by
  obtain ⟨hr, hn, ha⟩ := readN_ok h
  have := congrArg List.length hr
  simp at this
  omega

theorem readStr_bnd (sz : UInt64) (n : Nat) (s : St) : RBnd s (readStr sz n s) := by
  unfold readStr
  apply RBnd.ite
  · exact RBnd.err _
  · apply RBnd.bind (RBnd.readN _ _)
    intro b s1 _ hb
    dsimp only
    apply RBnd.ite
    · exact RBnd.panic _
    · exact RBnd.pure hb

theorem readGoodbyeItems_bnd (n : Nat) (s : St) (acc : List GoodbyeItem) :
    RBnd s (readGoodbyeItems n s acc) := by
  induction n generalizing s acc with
  | zero => unfold readGoodbyeItems; exact RBnd.ok (Bnd.refl _)
  | succ n ih =>
    unfold readGoodbyeItems
    intro x s' h
    cases h1 : Desync.readU64 s with
    | err e => rw [h1] at h; cases h
    | panic q => rw [h1] at h; cases h
    | ok v1 =>
      obtain ⟨o, s1⟩ := v1
      rw [h1] at h; simp only [Res.ok_bind] at h
      cases h2 : Desync.readU64 s1 with
      | err e => rw [h2] at h; cases h
      | panic q => rw [h2] at h; cases h
      | ok v2 =>
        obtain ⟨z, s2⟩ := v2
        rw [h2] at h; simp only [Res.ok_bind] at h
        cases h3 : Desync.readU64 s2 with
        | err e => rw [h3] at h; cases h
        | panic q => rw [h3] at h; cases h
        | ok v3 =>
          obtain ⟨hh, s3⟩ := v3
          rw [h3] at h; simp only [Res.ok_bind] at h
          have b := ih _ _ x s' h
          obtain ⟨r1, a1⟩ := readU64_ok h1
          obtain ⟨r2, a2⟩ := readU64_ok h2
          obtain ⟨r3, a3⟩ := readU64_ok h3
          have l1 := congrArg List.length r1
          have l2 := congrArg List.length r2
          have l3 := congrArg List.length r3
          simp at l1 l2 l3
          unfold Bnd at *
          simp only at b
          omega

theorem readTableItems_bnd (f : Nat) (s : St) (acc : List TableItem) :
    RBnd s (readTableItems f s acc) := by
  induction f generalizing s acc with
  | zero => unfold readTableItems; exact RBnd.err _
  | succ f ih =>
    unfold readTableItems
    apply RBnd.bind (RBnd.readU64 _); intro off s1 _ b1; dsimp only
    apply RBnd.ite
    · exact RBnd.pure b1
    · apply RBnd.weaken b1
      apply RBnd.bind (RBnd.readN _ _); intro id s2 _ b2; dsimp only
      exact RBnd.weaken b2 (ih _ _)

theorem decBody_bnd (sz typ : UInt64) (s : St) : RBnd s (decBody sz typ s) := by
  unfold decBody
  repeat' (first
    | exact RBnd.err _
    | exact RBnd.pure (Bnd.refl _)
    | exact RBnd.ok (Bnd.refl _)
    | apply RBnd.ite
    | (apply RBnd.bind (RBnd.readU64 _); intro _ _ _ hb; dsimp only; apply RBnd.weaken hb; clear hb)
    | (apply RBnd.bind (RBnd.readN _ _); intro _ _ _ hb; dsimp only; apply RBnd.weaken hb; clear hb)
    | (apply RBnd.bind (readStr_bnd _ _ _); intro _ _ _ hb; dsimp only; apply RBnd.weaken hb; clear hb)
    | (apply RBnd.bind (readGoodbyeItems_bnd _ _ _); intro _ _ _ hb; dsimp only; apply RBnd.weaken hb; clear hb)
    | (apply RBnd.bind (readTableItems_bnd _ _ _); intro _ _ _ hb; dsimp only; apply RBnd.weaken hb; clear hb))
  split
  · exact RBnd.err _
  · apply RBnd.ite
    · exact RBnd.err _
    · exact RBnd.pure (Bnd.refl _)

theorem decNext_bnd (s s' : St) (e : Option Elem) (h : decNext s = .ok (e, s')) : Bnd s s' := by
  unfold decNext at h
  cases h1 : readU64 s with
  | err e1 =>
    rw [h1] at h
    cases e1 <;> simp at h
    rw [← h.2]; exact Bnd.refl _
  | panic p => rw [h1] at h; simp at h
  | ok v1 =>
    obtain ⟨sz, s1⟩ := v1
    rw [h1] at h
    have b1 := RBnd.readU64 s _ _ h1
    simp only at h
    cases h2 : readU64 s1 with
    | err e1 =>
      rw [h2] at h
      cases e1 <;> simp at h
      rw [← h.2]; exact b1
    | panic p => rw [h2] at h; simp at h
    | ok v2 =>
      obtain ⟨typ, s2⟩ := v2
      rw [h2] at h
      have b2 := RBnd.readU64 s1 _ _ h2
      simp only at h
      cases h3 : decBody sz typ s2 with
      | err e1 => rw [h3] at h; simp at h
      | panic p => rw [h3] at h; simp at h
      | ok v3 =>
        obtain ⟨e', s3⟩ := v3
        rw [h3] at h
        have b3 := decBody_bnd sz typ s2 _ _ h3
        simp only [Res.ok_bind, Res.pure_eq] at h
        injection h with h
        injection h with _ hs
        subst hs
        exact (b1.trans b2).trans b3

theorem decNext_alloc_le_consumed (s s' : St) (e : Option Elem) (h : decNext s = .ok (e, s')) :
    s'.rest.length ≤ s.rest.length ∧
    s'.alloc - s.alloc ≤ s.rest.length - s'.rest.length ∧ s.alloc ≤ s'.alloc := by
  have := decNext_bnd s s' e h
  unfold Bnd at this; omega

theorem readMessage_bnd (s : St) : RBnd s (readMessage s) := by
  unfold readMessage
  apply RBnd.bind (RBnd.readU64 _); intro len s1 _ b1; dsimp only
  apply RBnd.ite
  · exact RBnd.err _
  · apply RBnd.weaken b1
    apply RBnd.bind (RBnd.readN _ _); intro b s2 _ b2; dsimp only
    apply RBnd.ite
    · exact RBnd.panic _
    · exact RBnd.pure b2

theorem readMessage_alloc_le_consumed (s s' : St) (m : Message) (h : readMessage s = .ok (m, s')) :
    s'.alloc - s.alloc ≤ s.rest.length - s'.rest.length := by
  have := readMessage_bnd s m s' h
  unfold Bnd at this; omega

end Desync
