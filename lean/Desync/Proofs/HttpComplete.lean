/-
  Completeness of `HTTPHandler.idFromPath`: the canonical path of every 32-byte chunk ID (in the
  handler's mode) is accepted and decodes to that ID.
-/
import Desync.Proofs.LocalStoreProofs

namespace Desync

theorem takeWhile_append_stop (f : UInt8 → Bool) (l r : Bytes) (a : UInt8)
    (hl : ∀ x ∈ l, f x = true) (ha : f a = false) : (l ++ a :: r).takeWhile f = l := by
  induction l with
  | nil => simp [ha]
  | cons y ys ih =>
    have hy : f y = true := hl y (by simp)
    simp only [List.cons_append, List.takeWhile_cons, hy, ↓reduceIte]
    rw [ih (fun x hx => hl x (by simp [hx]))]

/-- `path.Base` of `a ++ "/" ++ t` for a non-empty `t` without '/' is `t` -/
theorem goBase_last (a t : Bytes) (hne : t ≠ []) (h47 : (47 : UInt8) ∉ t) :
    goBase (a ++ [47] ++ t) = t := by
  obtain ⟨u, x, rfl⟩ : ∃ u x, t = u ++ [x] := by
    rcases List.eq_nil_or_concat t with h | ⟨u, x, h⟩
    · exact absurd h hne
    · exact ⟨u, x, by simpa using h⟩
  have hx : x ≠ 47 := fun h => h47 (by simp [h])
  have hrev : (a ++ [47] ++ (u ++ [x])).reverse = x :: (u.reverse ++ 47 :: a.reverse) := by simp
  have hdrop : (x :: (u.reverse ++ 47 :: a.reverse)).dropWhile (· = 47) =
      x :: (u.reverse ++ 47 :: a.reverse) := by
    simp [hx]
  have htake : (x :: (u.reverse ++ 47 :: a.reverse)).takeWhile (· ≠ 47) = x :: u.reverse := by
    have := takeWhile_append_stop (· ≠ 47) (x :: u.reverse) a.reverse 47
      (by
        intro y hy
        have : y ∈ u ++ [x] := by
          simp only [List.mem_cons, List.mem_reverse] at hy
          simp only [List.mem_append, List.mem_singleton]
          exact hy.symm
        have : y ≠ 47 := fun h => h47 (h ▸ this)
        simpa using this)
      (by simp)
    simpa using this
  unfold goBase
  rw [if_neg (by simp)]
  simp only [hrev, hdrop, List.reverse_reverse, htake]
  rw [if_neg (by simp)]
  simp

theorem idFromPath_complete (compressed : Bool) (id : Bytes) (h : id.length = 32) :
    idFromPath compressed ([47] ++ (hexEncode id).take 4 ++ [47] ++ hexEncode id ++
      (if compressed then compressedExt else [])) = some id := by
  obtain ⟨s47, s46⟩ := hexEncode_no_slash_dot id
  have slen : (hexEncode id).length = 64 := by rw [hexEncode_length, h]
  have key : ∀ ext : Bytes, (47 : UInt8) ∉ ext →
      goBase ([47] ++ (hexEncode id).take 4 ++ [47] ++ hexEncode id ++ ext) = hexEncode id ++ ext := by
    intro ext he
    have := goBase_last ([47] ++ (hexEncode id).take 4) (hexEncode id ++ ext)
      (by intro h0; have := congrArg List.length h0; simp [slen] at this)
      (by simp [s47, he])
    simpa [List.append_assoc] using this
  cases compressed
  · -- uncompressed handler
    have hs : hasSuffix ([47] ++ (hexEncode id).take 4 ++ [47] ++ hexEncode id ++ []) compressedExt
        = false := by
      cases hp : hasSuffix ([47] ++ (hexEncode id).take 4 ++ [47] ++ hexEncode id ++ []) compressedExt with
      | false => rfl
      | true =>
        have := hasSuffix_mem _ _ hp 46 (by simp [compressedExt, Gen.CompressedChunkExtBytes])
        simp only [List.append_nil, List.mem_append, List.mem_singleton] at this
        rcases this with ((h1 | h1) | h1) | h1
        · cases h1
        · exact absurd (List.mem_of_mem_take h1) s46
        · cases h1
        · exact absurd h1 s46
    unfold idFromPath
    simp only [Bool.not_false, Bool.true_and, hs, Bool.false_eq_true, ↓reduceIte,
      key [] (by simp), trimSuffix_append, slen, chunkIDFromString_hexEncode id h]
    simp
  · have he : (47 : UInt8) ∉ compressedExt := by simp [compressedExt, Gen.CompressedChunkExtBytes]
    unfold idFromPath
    simp only [Bool.not_true, Bool.false_and, Bool.false_eq_true, ↓reduceIte,
      key compressedExt he, trimSuffix_append, slen, chunkIDFromString_hexEncode id h]
    simp

end Desync
