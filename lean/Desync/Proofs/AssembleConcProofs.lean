/-
  Proofs about the concurrent assembly step machine (`Desync.Model.AssembleConc`):
  for an index that describes `blob` with collision-free IDs and a plan that partitions the index,
  every reachable state keeps the file length, every settled position holds the blob's bytes, the
  self seed only offers finished ranges, completion implies `file = blob`, and no reachable
  non-final state is stuck.  DESIGN section 6, C01.

  The invariant (`Inv`) is ownership: every plan item below `taken` is finished or held by exactly
  one worker; a worker writes only inside the unsettled part of its own item, which is disjoint
  from every settled range.
-/
import Desync.Model.AssembleConc
import Desync.Proofs.FileLemmas
namespace Desync.AsmConc
open Desync.Asm

def chunkData (e : Env) (blob : Bytes) (p : Nat) : Bytes := readUpTo blob (e.startOf p) (e.sizeOf p)

structure WF (e : Env) (blob : Bytes) : Prop where
  start0 : e.chunks ≠ [] → e.startOf 0 = 0
  contiguous : ∀ p, p + 1 < e.chunks.length → e.startOf (p + 1) = e.endOf p
  length_eq : indexLength e.chunks = blob.length
  ids : ∀ p, p < e.chunks.length → e.idOf p = e.H (chunkData e blob p)
  collision_free : ∀ p, p < e.chunks.length → ∀ b, e.H b = e.idOf p → b = chunkData e blob p
  plan_first : ∀ f l, e.plan[0]? = some (f, l) → f = 0
  plan_next : ∀ (k f l f' l' : Nat), e.plan[k]? = some (f, l) → e.plan[k+1]? = some (f', l') → f' = l + 1
  plan_ordered : ∀ (k f l : Nat), e.plan[k]? = some (f, l) → f ≤ l ∧ l < e.chunks.length
  plan_last : ∀ f l, e.plan.getLast? = some (f, l) → l + 1 = e.chunks.length
  plan_empty : e.plan = [] ↔ e.chunks = []

theorem endOf_eq (e : Env) (p : Nat) : e.endOf p = e.startOf p + e.sizeOf p := rfl

theorem exists_of_lt {l : List (Nat × Nat)} {i : Nat} (h : i < l.length) : ∃ f g, l[i]? = some (f, g) :=
  ⟨l[i].1, l[i].2, List.getElem?_eq_getElem h⟩

theorem lt_of_getElem? {α} {l : List α} {i : Nat} {a : α} (h : l[i]? = some a) : i < l.length := by
  obtain ⟨h', _⟩ := List.getElem?_eq_some_iff.mp h
  exact h'

namespace WF
variable {e : Env} {blob : Bytes}

theorem end_le_start (hwf : WF e blob) : ∀ q p, p < q → q < e.chunks.length → e.endOf p ≤ e.startOf q := by
  intro q
  induction q with
  | zero => intro p hp; omega
  | succ q ih =>
    intro p hp hq
    have hc := hwf.contiguous q hq
    by_cases hpq : p = q
    · subst hpq; omega
    · have := ih p (by omega) (by omega)
      have := endOf_eq e q
      omega

theorem end_last (hwf : WF e blob) (hn : 0 < e.chunks.length) :
    e.endOf (e.chunks.length - 1) = blob.length := by
  rw [← hwf.length_eq]
  unfold indexLength
  rw [List.getLast?_eq_getElem?]
  have h : e.chunks[e.chunks.length - 1]? = some (e.chunks[e.chunks.length - 1]'(by omega)) :=
    List.getElem?_eq_getElem _
  simp [h, Env.endOf, Env.startOf, Env.sizeOf, List.getD]

theorem end_le_len (hwf : WF e blob) {p : Nat} (hp : p < e.chunks.length) : e.endOf p ≤ blob.length := by
  have hl := hwf.end_last (by omega)
  by_cases h : p = e.chunks.length - 1
  · subst h; omega
  · have := hwf.end_le_start (e.chunks.length - 1) p (by omega) (by omega)
    have := endOf_eq e (e.chunks.length - 1)
    omega

theorem chunkData_length (hwf : WF e blob) {p : Nat} (hp : p < e.chunks.length) :
    (chunkData e blob p).length = e.sizeOf p := by
  have := hwf.end_le_len hp
  exact readUpTo_length _ _ _ (by rw [endOf_eq] at this; exact this)

theorem plan_lt (hwf : WF e blob) : ∀ d k f l f' l', e.plan[k]? = some (f, l) →
    e.plan[k + 1 + d]? = some (f', l') → l < f' := by
  intro d
  induction d with
  | zero =>
    intro k f l f' l' h h'
    have := hwf.plan_next k f l f' l' h h'
    omega
  | succ d ih =>
    intro k f l f' l' h h'
    have hlt := lt_of_getElem? h'
    obtain ⟨f'', l'', h''⟩ := exists_of_lt (l := e.plan) (i := k + 1 + d) (by omega)
    have h1 := ih k f l f'' l'' h h''
    have h2 := hwf.plan_ordered _ _ _ h''
    have h3 := hwf.plan_next (k + 1 + d) f'' l'' f' l' h'' h'
    omega

theorem plan_lt' (hwf : WF e blob) {k k' f l f' l' : Nat} (hk : k < k') (h : e.plan[k]? = some (f, l))
    (h' : e.plan[k']? = some (f', l')) : l < f' := by
  have : k' = k + 1 + (k' - k - 1) := by omega
  rw [this] at h'
  exact hwf.plan_lt _ _ _ _ _ _ h h'

theorem plan_cover (hwf : WF e blob) : ∀ p, p < e.chunks.length →
    ∃ (k f l : Nat), e.plan[k]? = some (f, l) ∧ f ≤ p ∧ p ≤ l := by
  intro p
  induction p with
  | zero =>
    intro hp
    have hne : e.plan ≠ [] := by
      intro h
      have := hwf.plan_empty.mp h
      simp [this] at hp
    have hpos : 0 < e.plan.length := List.length_pos_iff.mpr hne
    obtain ⟨f, l, h⟩ := exists_of_lt hpos
    have := hwf.plan_first f l h
    exact ⟨0, f, l, h, by omega, by omega⟩
  | succ p ih =>
    intro hp
    obtain ⟨k, f, l, h, h1, h2⟩ := ih (by omega)
    by_cases hpl : p + 1 ≤ l
    · exact ⟨k, f, l, h, by omega, hpl⟩
    · have hkl := lt_of_getElem? h
      by_cases hk : k + 1 < e.plan.length
      · obtain ⟨f', l', h'⟩ := exists_of_lt hk
        have := hwf.plan_next k f l f' l' h h'
        have := hwf.plan_ordered _ _ _ h'
        exact ⟨k + 1, f', l', h', by omega, by omega⟩
      · have hlast : e.plan.getLast? = some (f, l) := by
          rw [List.getLast?_eq_getElem?]
          have : e.plan.length - 1 = k := by omega
          rw [this]; exact h
        have := hwf.plan_last f l hlast
        omega

end WF

/-! ## workers' jobs and buffers as functions of the worker number -/

def jobOfL (ws : List Worker) (w : Nat) : Option Job := (ws[w]?).bind (·.job)
def bufOfL (ws : List Worker) (w : Nat) : Option (Nat × Bytes) := (ws[w]?).bind (·.buf)

def jobOf (s : St) (w : Nat) : Option Job := jobOfL s.workers w
def bufOf (s : St) (w : Nat) : Option (Nat × Bytes) := bufOfL s.workers w

theorem jobOfL_modify {ws : List Worker} {w : Nat} {wk : Worker} (g : Worker → Worker)
    (h : ws[w]? = some wk) (w' : Nat) :
    jobOfL (ws.modify w g) w' = if w' = w then (g wk).job else jobOfL ws w' := by
  unfold jobOfL
  rw [List.getElem?_modify]
  by_cases hw : w' = w
  · subst hw; simp [h]
  · have : ¬ w = w' := fun h => hw h.symm
    simp [hw, this]

theorem bufOfL_modify {ws : List Worker} {w : Nat} {wk : Worker} (g : Worker → Worker)
    (h : ws[w]? = some wk) (w' : Nat) :
    bufOfL (ws.modify w g) w' = if w' = w then (g wk).buf else bufOfL ws w' := by
  unfold bufOfL
  rw [List.getElem?_modify]
  by_cases hw : w' = w
  · subst hw; simp [h]
  · have : ¬ w = w' := fun h => hw h.symm
    simp [hw, this]

theorem jobOf_of_worker {s : St} {w : Nat} {wk : Worker} (h : s.workers[w]? = some wk) :
    jobOf s w = wk.job := by simp [jobOf, jobOfL, h]

theorem bufOf_of_worker {s : St} {w : Nat} {wk : Worker} (h : s.workers[w]? = some wk) :
    bufOf s w = wk.buf := by simp [bufOf, bufOfL, h]

/-! ## what each event does (inversion of `step`) -/

/-- the common shape of every step that does not hand out or complete a plan item -/
structure Frame (s s' : St) (w : Nat) (j : Job) (g : Nat) : Prop where
  job : jobOf s w = some j
  taken : s'.taken = s.taken
  ss : s'.ss = s.ss
  finished : s'.finished = s.finished
  jobs : ∀ w', jobOf s' w' = if w' = w then some { j with good := g } else jobOf s w'
  nworkers : s'.workers.length = s.workers.length

theorem step_take {e : Env} {s s' : St} {w : Nat} (h : step e s (.take w) = some s') :
    ∃ (f l : Nat), jobOf s w = none ∧ e.plan[s.taken]? = some (f, l) ∧
      s'.file = s.file ∧ s'.taken = s.taken + 1 ∧ s'.ss = s.ss ∧ s'.finished = s.finished ∧
      (∀ w', jobOf s' w' = if w' = w then some { k := s.taken, first := f, last := l, good := 0 } else jobOf s w') ∧
      (∀ w', bufOf s' w' = if w' = w then none else bufOf s w') ∧
      s'.workers.length = s.workers.length := by
  simp only [step] at h
  split at h
  · split at h
    · rename_i wk f l hw hp hn
      have hn' : wk.job = none := by simpa using hn
      cases Option.some.inj h
      exact ⟨f, l, by rw [jobOf_of_worker hw, hn'], hp, rfl, rfl, rfl, rfl,
        fun w' => jobOfL_modify _ hw w', fun w' => bufOfL_modify _ hw w', List.length_modify _ _ _⟩
    · cases h
  · cases h

theorem step_scribble {e : Env} {s s' : St} {w off : Nat} {b : Bytes}
    (h : step e s (.scribble w off b) = some s') :
    ∃ j, Frame s s' w j j.good ∧ j.cur ≤ j.last ∧ e.startOf j.cur ≤ off ∧
      off + b.length ≤ e.endOf j.last ∧ s'.file = writeAt s.file off b ∧
      (∀ w', bufOf s' w' = bufOf s w') := by
  simp only [step] at h
  split at h
  · split at h
    · rename_i j bf hw hg
      cases Option.some.inj h
      have hj := jobOf_of_worker hw
      refine ⟨j, ⟨hj, rfl, rfl, rfl, ?_, rfl⟩, hg.1, hg.2.1, hg.2.2, rfl, fun _ => rfl⟩
      intro w'
      by_cases hw' : w' = w
      · subst hw'; simp only [if_true]; exact hj
      · simp only [if_neg hw']; rfl
    · cases h
  · cases h

theorem step_verify {e : Env} {s s' : St} {w : Nat} (h : step e s (.verify w) = some s') :
    ∃ j b, Frame s s' w j (j.good + 1) ∧ j.cur ≤ j.last ∧
      readFull s.file (e.startOf j.cur) (e.sizeOf j.cur) = some b ∧ e.H b = e.idOf j.cur ∧
      s'.file = s.file ∧ (∀ w', bufOf s' w' = bufOf s w') := by
  simp only [step] at h
  split at h
  · split at h
    · split at h
      · split at h
        · rename_i j bf hw hg _ b hb hH
          cases Option.some.inj h
          refine ⟨j, b, ⟨jobOf_of_worker hw, rfl, rfl, rfl, fun w' => jobOfL_modify _ hw w', List.length_modify _ _ _⟩,
            hg, hb, hH, rfl, ?_⟩
          intro w'
          have := bufOfL_modify (fun wk : Worker => { wk with job := some { j with good := j.good + 1 } }) hw w'
          simp only [bufOf, setW, this]
          by_cases hw' : w' = w
          · subst hw'; simp [bufOfL, hw]
          · simp [hw']
        · cases h
      · cases h
    · cases h
  · cases h

theorem step_selfRead {e : Env} {s s' : St} {w p : Nat} (h : step e s (.selfRead w p) = some s') :
    ∃ j, Frame s s' w j j.good ∧ j.cur ≤ j.last ∧ p < s.ss.written ∧ e.idOf p = e.idOf j.cur ∧
      s'.file = s.file ∧
      (∀ w', bufOf s' w' = if w' = w then some (j.cur, readUpTo s.file (e.startOf p) (e.sizeOf p)) else bufOf s w') := by
  simp only [step] at h
  split at h
  · split at h
    · rename_i j bf hw hg
      cases Option.some.inj h
      have hj := jobOf_of_worker hw
      refine ⟨j, ⟨hj, rfl, rfl, rfl, ?_, List.length_modify _ _ _⟩, hg.1, hg.2.1, hg.2.2, rfl,
        fun w' => bufOfL_modify _ hw w'⟩
      intro w'
      have := jobOfL_modify (fun wk : Worker => { wk with buf := some (j.cur, readUpTo s.file (e.startOf p) (e.sizeOf p)) }) hw w'
      simp only [jobOf, setW, this]
    · cases h
  · cases h

theorem step_selfWrite {e : Env} {s s' : St} {w : Nat} (h : step e s (.selfWrite w) = some s') :
    ∃ j b, Frame s s' w j (j.good + 1) ∧ j.cur ≤ j.last ∧ bufOf s w = some (j.cur, b) ∧
      b.length = e.sizeOf j.cur ∧ s'.file = writeAt s.file (e.startOf j.cur) b ∧
      (∀ w', bufOf s' w' = if w' = w then none else bufOf s w') := by
  simp only [step] at h
  split at h
  · split at h
    · rename_i j p b hw hg
      cases Option.some.inj h
      obtain ⟨rfl, h2, h3⟩ := hg
      exact ⟨j, b, ⟨jobOf_of_worker hw, rfl, rfl, rfl, fun w' => jobOfL_modify _ hw w', List.length_modify _ _ _⟩,
        h2, bufOf_of_worker hw, h3, rfl, fun w' => bufOfL_modify _ hw w'⟩
    · cases h
  · cases h

theorem step_storeWrite {e : Env} {s s' : St} {w : Nat} {d : Bytes} (h : step e s (.storeWrite w d) = some s') :
    ∃ j, Frame s s' w j (j.good + 1) ∧ j.cur ≤ j.last ∧ e.H d = e.idOf j.cur ∧
      d.length = e.sizeOf j.cur ∧ s'.file = writeAt s.file (e.startOf j.cur) d ∧
      (∀ w', bufOf s' w' = if w' = w then none else bufOf s w') := by
  simp only [step] at h
  split at h
  · split at h
    · rename_i j bf hw hg
      cases Option.some.inj h
      exact ⟨j, ⟨jobOf_of_worker hw, rfl, rfl, rfl, fun w' => jobOfL_modify _ hw w', List.length_modify _ _ _⟩,
        hg.1, hg.2.1, hg.2.2, rfl, fun w' => bufOfL_modify _ hw w'⟩
    · cases h
  · cases h

theorem step_finish {e : Env} {s s' : St} {w : Nat} (h : step e s (.finish w) = some s') :
    ∃ j, jobOf s w = some j ∧ j.cur = j.last + 1 ∧ s'.file = s.file ∧ s'.taken = s.taken ∧
      s'.ss = s.ss.add j.first j.last ∧ s'.finished = j.k :: s.finished ∧
      (∀ w', jobOf s' w' = if w' = w then none else jobOf s w') ∧
      (∀ w', bufOf s' w' = if w' = w then none else bufOf s w') ∧
      s'.workers.length = s.workers.length := by
  simp only [step] at h
  split at h
  · split at h
    · rename_i j bf hw hg
      cases Option.some.inj h
      exact ⟨j, jobOf_of_worker hw, hg, rfl, rfl, rfl, rfl, fun w' => jobOfL_modify _ hw w',
        fun w' => bufOfL_modify _ hw w', List.length_modify _ _ _⟩
    · cases h
  · cases h

/-! ## the invariant -/

/-- position `p` belongs to plan item `k` -/
def InItem (e : Env) (k p : Nat) : Prop := ∃ (f l : Nat), e.plan[k]? = some (f, l) ∧ f ≤ p ∧ p ≤ l

/-- position `p` lies in a finished plan item -/
def FinPosL (e : Env) (fin : List Nat) (p : Nat) : Prop := ∃ k, k ∈ fin ∧ InItem e k p
def FinPos (e : Env) (s : St) (p : Nat) : Prop := FinPosL e s.finished p

/-- position `p` lies in the good prefix of some worker's job -/
def GoodPos (s : St) (p : Nat) : Prop := ∃ w j, jobOf s w = some j ∧ j.first ≤ p ∧ p < j.first + j.good

def Settled (e : Env) (s : St) (p : Nat) : Prop := FinPos e s p ∨ GoodPos s p

structure Inv (e : Env) (blob : Bytes) (s : St) : Prop where
  len : s.file.length = blob.length
  fin_lt : ∀ k, k ∈ s.finished → k < s.taken
  job_ok : ∀ w j, jobOf s w = some j →
    j.k < s.taken ∧ e.plan[j.k]? = some (j.first, j.last) ∧ j.first + j.good ≤ j.last + 1 ∧ j.k ∉ s.finished
  distinct : ∀ w w' j j', jobOf s w = some j → jobOf s w' = some j' → j.k = j'.k → w = w'
  owned : ∀ k, k < s.taken → k ∈ s.finished ∨ ∃ w j, jobOf s w = some j ∧ j.k = k
  settled : ∀ p, Settled e s p → readUpTo s.file (e.startOf p) (e.sizeOf p) = chunkData e blob p
  buf_ok : ∀ w p b, bufOf s w = some (p, b) → e.H b = e.idOf p
  ss_written : ∀ p, p < s.ss.written → FinPos e s p
  ss_cache : ∀ a b, (a, b) ∈ s.ss.cache → ∃ (k l : Nat), k ∈ s.finished ∧ e.plan[k]? = some (a, l) ∧ b = l + 1

theorem cur_eq (j : Job) : j.cur = j.first + j.good := rfl

section
variable {e : Env} {blob : Bytes}

/-- a position of another plan item lies entirely before the unsettled part of `j` or after `j` -/
theorem item_disjoint (hwf : WF e blob) {k k' f l f' l' p c : Nat} (hk : k ≠ k')
    (h : e.plan[k]? = some (f, l)) (h' : e.plan[k']? = some (f', l'))
    (hp1 : f' ≤ p) (hp2 : p ≤ l') (hc1 : f ≤ c) (hc2 : c ≤ l) :
    p < e.chunks.length ∧ (e.endOf p ≤ e.startOf c ∨ e.endOf l ≤ e.startOf p) := by
  have ho := hwf.plan_ordered _ _ _ h
  have ho' := hwf.plan_ordered _ _ _ h'
  refine ⟨by omega, ?_⟩
  by_cases hlt : k' < k
  · have := hwf.plan_lt' hlt h' h
    exact Or.inl (hwf.end_le_start c p (by omega) (by omega))
  · have := hwf.plan_lt' (by omega : k < k') h h'
    exact Or.inr (hwf.end_le_start p l (by omega) (by omega))

/-- a settled position is disjoint from the unsettled part of any worker's job -/
theorem settled_disjoint (hwf : WF e blob) {s : St} (inv : Inv e blob s) {w : Nat} {j : Job}
    (hj : jobOf s w = some j) (hc : j.cur ≤ j.last) {p : Nat} (hs : Settled e s p) :
    p < e.chunks.length ∧ (e.endOf p ≤ e.startOf j.cur ∨ e.endOf j.last ≤ e.startOf p) := by
  obtain ⟨hk, hplan, hle, hnf⟩ := inv.job_ok w j hj
  have ho := hwf.plan_ordered _ _ _ hplan
  rw [cur_eq] at hc ⊢
  rcases hs with ⟨k, hkf, f, l, hkp, h1, h2⟩ | ⟨w', j', hj', h1, h2⟩
  · have hne : j.k ≠ k := fun h => hnf (h ▸ hkf)
    exact item_disjoint hwf hne hplan hkp h1 h2 (by omega) hc
  · obtain ⟨hk', hplan', hle', hnf'⟩ := inv.job_ok w' j' hj'
    by_cases hw : w' = w
    · subst hw
      rw [hj] at hj'
      cases hj'
      exact ⟨by omega, Or.inl (hwf.end_le_start _ _ (by omega) (by omega))⟩
    · have hne : j.k ≠ j'.k := fun h => hw (inv.distinct w w' j j' hj hj' h).symm
      exact item_disjoint hwf hne hplan hplan' h1 (by omega) (by omega) hc

/-- a write confined to the unsettled part of a worker's job leaves every settled position alone -/
theorem settled_write (hwf : WF e blob) {s : St} (inv : Inv e blob s) {w : Nat} {j : Job}
    (hj : jobOf s w = some j) (hc : j.cur ≤ j.last) {off : Nat} {b : Bytes}
    (h1 : e.startOf j.cur ≤ off) (h2 : off + b.length ≤ e.endOf j.last) {p : Nat} (hs : Settled e s p) :
    readUpTo (writeAt s.file off b) (e.startOf p) (e.sizeOf p) = chunkData e blob p := by
  obtain ⟨hk, hplan, hle, hnf⟩ := inv.job_ok w j hj
  have ho := hwf.plan_ordered _ _ _ hplan
  have hlen := hwf.end_le_len ho.2
  obtain ⟨hp, hd⟩ := settled_disjoint hwf inv hj hc hs
  rw [readUpTo_writeAt_disjoint _ _ _ _ _ (by rw [inv.len]; omega)]
  · exact inv.settled p hs
  · rw [endOf_eq] at hd
    omega

theorem write_len (hwf : WF e blob) {s : St} (inv : Inv e blob s) {w : Nat} {j : Job}
    (hj : jobOf s w = some j) {off : Nat} {b : Bytes}
    (h2 : off + b.length ≤ e.endOf j.last) : (writeAt s.file off b).length = blob.length := by
  obtain ⟨hk, hplan, hle, hnf⟩ := inv.job_ok w j hj
  have ho := hwf.plan_ordered _ _ _ hplan
  have hlen := hwf.end_le_len ho.2
  rw [writeAt_length _ _ _ (by rw [inv.len]; omega), inv.len]

/-- the end of the current chunk is inside the job's range -/
theorem cur_end_le (hwf : WF e blob) {s : St} (inv : Inv e blob s) {w : Nat} {j : Job}
    (hj : jobOf s w = some j) (hc : j.cur ≤ j.last) :
    j.cur < e.chunks.length ∧ e.endOf j.cur ≤ e.endOf j.last := by
  obtain ⟨hk, hplan, hle, hnf⟩ := inv.job_ok w j hj
  have ho := hwf.plan_ordered _ _ _ hplan
  refine ⟨by omega, ?_⟩
  by_cases h : j.cur = j.last
  · rw [h]; exact Nat.le_refl _
  · have := hwf.end_le_start j.last j.cur (by omega) ho.2
    have := endOf_eq e j.last
    omega

/-- frame rule: a step that keeps `taken`, `ss`, `finished` and at most advances `good` of one job -/
theorem Inv.frame {s s' : St} {w : Nat} {j : Job} {g : Nat} (inv : Inv e blob s) (fr : Frame s s' w j g)
    (hg : j.first + g ≤ j.last + 1)
    (hlen : s'.file.length = blob.length)
    (hset : ∀ p, Settled e s' p → readUpTo s'.file (e.startOf p) (e.sizeOf p) = chunkData e blob p)
    (hbuf : ∀ w p b, bufOf s' w = some (p, b) → e.H b = e.idOf p) : Inv e blob s' := by
  have back : ∀ w' j', jobOf s' w' = some j' →
      ∃ j0, jobOf s w' = some j0 ∧ j0.k = j'.k ∧ j0.first = j'.first ∧ j0.last = j'.last ∧
        (w' ≠ w → j0 = j') ∧ (w' = w → j0 = j ∧ j'.good = g) := by
    intro w' j' h
    rw [fr.jobs] at h
    by_cases hw : w' = w
    · rw [if_pos hw] at h
      cases Option.some.inj h
      exact ⟨j, hw ▸ fr.job, rfl, rfl, rfl, fun h => absurd hw h, fun _ => ⟨rfl, rfl⟩⟩
    · rw [if_neg hw] at h
      exact ⟨j', h, rfl, rfl, rfl, fun _ => rfl, fun h => absurd h hw⟩
  have fwd : ∀ w' j0, jobOf s w' = some j0 → ∃ j', jobOf s' w' = some j' ∧ j'.k = j0.k := by
    intro w' j0 h
    by_cases hw : w' = w
    · subst hw
      rw [fr.job] at h
      cases Option.some.inj h
      exact ⟨{ j with good := g }, by rw [fr.jobs, if_pos rfl], rfl⟩
    · exact ⟨j0, by rw [fr.jobs, if_neg hw]; exact h, rfl⟩
  refine ⟨hlen, ?_, ?_, ?_, ?_, hset, hbuf, ?_, ?_⟩
  · intro k hk
    rw [fr.finished] at hk; rw [fr.taken]; exact inv.fin_lt k hk
  · intro w' j' h
    obtain ⟨j0, h0, e1, e2, e3, hne, heq⟩ := back w' j' h
    obtain ⟨a1, a2, a3, a4⟩ := inv.job_ok w' j0 h0
    rw [fr.taken, fr.finished, ← e1, ← e2, ← e3]
    refine ⟨a1, a2, ?_, a4⟩
    by_cases hw : w' = w
    · obtain ⟨rfl, hg'⟩ := heq hw
      rw [hg']; exact hg
    · rw [← hne hw]; exact a3
  · intro w1 w2 j1 j2 h1 h2 hk
    obtain ⟨j01, h01, e1, _⟩ := back w1 j1 h1
    obtain ⟨j02, h02, e2, _⟩ := back w2 j2 h2
    exact inv.distinct w1 w2 j01 j02 h01 h02 (by omega)
  · intro k hk
    rw [fr.taken] at hk
    rw [fr.finished]
    rcases inv.owned k hk with h | ⟨w', j0, h0, hk0⟩
    · exact Or.inl h
    · obtain ⟨j', h', hk'⟩ := fwd w' j0 h0
      exact Or.inr ⟨w', j', h', by omega⟩
  · intro p hp
    rw [fr.ss] at hp
    have := inv.ss_written p hp
    unfold FinPos at this ⊢
    rw [fr.finished]; exact this
  · intro a b hab
    rw [fr.ss] at hab
    rw [fr.finished]; exact inv.ss_cache a b hab

/-- under a frame step every settled position was settled before, or is the one just advanced over -/
theorem Frame.settled_back {s s' : St} {w : Nat} {j : Job} {g : Nat} (fr : Frame s s' w j g)
    (hg : g ≤ j.good + 1) {p : Nat} (hs : Settled e s' p) : Settled e s p ∨ (g = j.good + 1 ∧ p = j.cur) := by
  rcases hs with h | ⟨w', j', hj', h1, h2⟩
  · unfold FinPos at h
    rw [fr.finished] at h
    exact Or.inl (Or.inl h)
  · rw [fr.jobs] at hj'
    by_cases hw : w' = w
    · rw [if_pos hw] at hj'
      cases Option.some.inj hj'
      simp only at h1 h2
      by_cases hp : p < j.first + j.good
      · exact Or.inl (Or.inr ⟨w, j, fr.job, h1, hp⟩)
      · exact Or.inr ⟨by omega, by rw [cur_eq]; omega⟩
    · rw [if_neg hw] at hj'
      exact Or.inl (Or.inr ⟨w', j', hj', h1, h2⟩)

end

/-! ## the self seed -/

theorem advance_inv (Fin : Nat → Prop) (C : Nat → Nat → Prop)
    (hC : ∀ a b, C a b → ∀ p, a ≤ p → p < b → Fin p) :
    ∀ (fuel : Nat) (ss : SelfSeed), (∀ p, p < ss.written → Fin p) → (∀ a b, (a, b) ∈ ss.cache → C a b) →
      (∀ p, p < (SelfSeed.advance fuel ss).written → Fin p) ∧
      (∀ a b, (a, b) ∈ (SelfSeed.advance fuel ss).cache → C a b) := by
  intro fuel
  induction fuel with
  | zero => intro ss h1 h2; exact ⟨h1, h2⟩
  | succ fuel ih =>
    intro ss h1 h2
    unfold SelfSeed.advance
    split
    · exact ⟨h1, h2⟩
    · rename_i x nxt hfind
      have hmem := List.mem_of_find?_eq_some hfind
      have hx : x = ss.written := by
        have := List.find?_some hfind
        simpa using this
      subst hx
      apply ih
      · intro p hp
        by_cases h : p < ss.written
        · exact h1 p h
        · exact hC _ _ (h2 _ _ hmem) p (by omega) hp
      · intro a b hab
        exact h2 a b (List.mem_filter.mp hab).1

section
variable {e : Env} {blob : Bytes}

/-! ## the invariant holds initially and is preserved by every step -/

theorem jobOf_init (e : Env) (prior : Bytes) (n w : Nat) : jobOf (init e prior n) w = none := by
  simp only [jobOf, jobOfL, init, List.getElem?_replicate]
  split <;> rfl

theorem bufOf_init (e : Env) (prior : Bytes) (n w : Nat) : bufOf (init e prior n) w = none := by
  simp only [bufOf, bufOfL, init, List.getElem?_replicate]
  split <;> rfl

theorem inv_init (hwf : WF e blob) (prior : Bytes) (n : Nat) : Inv e blob (init e prior n) := by
  refine ⟨?_, ?_, ?_, ?_, ?_, ?_, ?_, ?_, ?_⟩
  · show (truncate prior (indexLength e.chunks)).length = blob.length
    rw [truncate_length, hwf.length_eq]
  · intro k hk; cases hk
  · intro w j h; rw [jobOf_init] at h; cases h
  · intro w w' j j' h; rw [jobOf_init] at h; cases h
  · intro k hk; exact absurd hk (Nat.not_lt_zero k)
  · intro p hp
    rcases hp with ⟨k, hk, _⟩ | ⟨w, j, h, _⟩
    · cases hk
    · rw [jobOf_init] at h; cases h
  · intro w p b h; rw [bufOf_init] at h; cases h
  · intro p hp; exact absurd hp (Nat.not_lt_zero p)
  · intro a b h; cases h

theorem inv_take (hwf : WF e blob) (inv : Inv e blob s) {w : Nat} (h : step e s (.take w) = some s') : Inv e blob s' := by
  obtain ⟨f, l, hnone, hplan, hfile, htaken, hss, hfin, hjobs, hbufs, _⟩ := step_take h
  have back : ∀ w' j', jobOf s' w' = some j' →
      (w' = w ∧ j' = { k := s.taken, first := f, last := l, good := 0 }) ∨ (w' ≠ w ∧ jobOf s w' = some j') := by
    intro w' j' hj
    rw [hjobs] at hj
    by_cases hw : w' = w
    · rw [if_pos hw] at hj; exact Or.inl ⟨hw, (Option.some.inj hj).symm⟩
    · rw [if_neg hw] at hj; exact Or.inr ⟨hw, hj⟩
  refine ⟨by rw [hfile]; exact inv.len, ?_, ?_, ?_, ?_, ?_, ?_, ?_, ?_⟩
  · intro k hk
    rw [hfin] at hk; rw [htaken]
    exact Nat.lt_succ_of_lt (inv.fin_lt k hk)
  · intro w' j' hj
    rw [htaken, hfin]
    rcases back w' j' hj with ⟨_, rfl⟩ | ⟨_, h0⟩
    · have := hwf.plan_ordered _ _ _ hplan
      refine ⟨Nat.lt_succ_self _, hplan, by simp only; omega, ?_⟩
      intro hmem
      exact Nat.lt_irrefl _ (inv.fin_lt _ hmem)
    · obtain ⟨a1, a2, a3, a4⟩ := inv.job_ok w' j' h0
      exact ⟨Nat.lt_succ_of_lt a1, a2, a3, a4⟩
  · intro w1 w2 j1 j2 h1 h2 hk
    rcases back w1 j1 h1 with ⟨e1, rfl⟩ | ⟨n1, h01⟩ <;> rcases back w2 j2 h2 with ⟨e2, rfl⟩ | ⟨n2, h02⟩
    · rw [e1, e2]
    · have := (inv.job_ok w2 j2 h02).1
      simp only at hk; omega
    · have := (inv.job_ok w1 j1 h01).1
      simp only at hk; omega
    · exact inv.distinct w1 w2 j1 j2 h01 h02 hk
  · intro k hk
    rw [htaken] at hk; rw [hfin]
    by_cases hkt : k = s.taken
    · exact Or.inr ⟨w, _, by rw [hjobs, if_pos rfl], hkt.symm⟩
    · rcases inv.owned k (by omega) with h | ⟨w', j0, h0, hk0⟩
      · exact Or.inl h
      · have hw : w' ≠ w := by
          intro hw; rw [hw, hnone] at h0; cases h0
        exact Or.inr ⟨w', j0, by rw [hjobs, if_neg hw]; exact h0, hk0⟩
  · intro p hp
    rw [hfile]
    apply inv.settled
    rcases hp with hp | ⟨w', j', hj', h1, h2⟩
    · unfold FinPos at hp; rw [hfin] at hp; exact Or.inl hp
    · rcases back w' j' hj' with ⟨_, rfl⟩ | ⟨_, h0⟩
      · simp only at h1 h2; omega
      · exact Or.inr ⟨w', j', h0, h1, h2⟩
  · intro w' p b hb
    rw [hbufs] at hb
    by_cases hw : w' = w
    · rw [if_pos hw] at hb; cases hb
    · rw [if_neg hw] at hb; exact inv.buf_ok w' p b hb
  · intro p hp
    rw [hss] at hp
    have := inv.ss_written p hp
    unfold FinPos at this ⊢
    rw [hfin]; exact this
  · intro a b hab
    rw [hss] at hab; rw [hfin]
    exact inv.ss_cache a b hab

theorem inv_scribble (hwf : WF e blob) (inv : Inv e blob s) {w off : Nat} {b : Bytes}
    (h : step e s (.scribble w off b) = some s') : Inv e blob s' := by
  obtain ⟨j, fr, hc, h1, h2, hfile, hbufs⟩ := step_scribble h
  have hjob := inv.job_ok w j fr.job
  apply inv.frame fr hjob.2.2.1
  · rw [hfile]; exact write_len hwf inv fr.job h2
  · intro p hp
    rcases fr.settled_back (Nat.le_succ _) hp with hs | ⟨hg, _⟩
    · rw [hfile]; exact settled_write hwf inv fr.job hc h1 h2 hs
    · omega
  · intro w' p b' hb
    rw [hbufs] at hb; exact inv.buf_ok w' p b' hb

theorem inv_verify (hwf : WF e blob) (inv : Inv e blob s) {w : Nat}
    (h : step e s (.verify w) = some s') : Inv e blob s' := by
  obtain ⟨j, b, fr, hc, hread, hH, hfile, hbufs⟩ := step_verify h
  have hjob := inv.job_ok w j fr.job
  have hcur := cur_end_le hwf inv fr.job hc
  apply inv.frame fr (by rw [cur_eq] at hc; omega)
  · rw [hfile]; exact inv.len
  · intro p hp
    rw [hfile]
    rcases fr.settled_back (Nat.le_refl _) hp with hs | ⟨_, rfl⟩
    · exact inv.settled p hs
    · rw [← readFull_eq_some hread]
      exact hwf.collision_free _ hcur.1 b hH
  · intro w' p b' hb
    rw [hbufs] at hb; exact inv.buf_ok w' p b' hb

theorem inv_selfRead (hwf : WF e blob) (inv : Inv e blob s) {w p : Nat}
    (h : step e s (.selfRead w p) = some s') : Inv e blob s' := by
  obtain ⟨j, fr, hc, hp, hid, hfile, hbufs⟩ := step_selfRead h
  have hjob := inv.job_ok w j fr.job
  apply inv.frame fr hjob.2.2.1
  · rw [hfile]; exact inv.len
  · intro q hq
    rw [hfile]
    rcases fr.settled_back (Nat.le_succ _) hq with hs | ⟨hg, _⟩
    · exact inv.settled q hs
    · omega
  · intro w' q b' hb
    rw [hbufs] at hb
    by_cases hw : w' = w
    · rw [if_pos hw] at hb
      cases Option.some.inj hb
      have hfin := inv.ss_written p hp
      have hpn : p < e.chunks.length := by
        obtain ⟨k, _, f, l, hk, _, h2⟩ := hfin
        have := hwf.plan_ordered _ _ _ hk
        omega
      rw [inv.settled p (Or.inl hfin), ← hwf.ids p hpn, hid]
    · rw [if_neg hw] at hb; exact inv.buf_ok w' q b' hb

/-- writing the right bytes at the current position of a job -/
theorem inv_write (hwf : WF e blob) (inv : Inv e blob s) {w : Nat} {j : Job} {d : Bytes}
    (fr : Frame s s' w j (j.good + 1)) (hc : j.cur ≤ j.last) (hH : e.H d = e.idOf j.cur)
    (hlen : d.length = e.sizeOf j.cur) (hfile : s'.file = writeAt s.file (e.startOf j.cur) d)
    (hbufs : ∀ w', bufOf s' w' = if w' = w then none else bufOf s w') : Inv e blob s' := by
  have hjob := inv.job_ok w j fr.job
  have hcur := cur_end_le hwf inv fr.job hc
  have hend : e.startOf j.cur + d.length ≤ e.endOf j.last := by
    rw [hlen, ← endOf_eq]; exact hcur.2
  have hin : e.startOf j.cur + d.length ≤ s.file.length := by
    have ho := hwf.plan_ordered _ _ _ hjob.2.1
    have := hwf.end_le_len ho.2
    rw [inv.len]; omega
  apply inv.frame fr (by rw [cur_eq] at hc; omega)
  · rw [hfile]; exact write_len hwf inv fr.job hend
  · intro p hp
    rw [hfile]
    rcases fr.settled_back (Nat.le_refl _) hp with hs | ⟨_, rfl⟩
    · exact settled_write hwf inv fr.job hc (Nat.le_refl _) hend hs
    · rw [← hlen, readUpTo_writeAt_same _ _ _ hin]
      exact hwf.collision_free _ hcur.1 d hH
  · intro w' p b' hb
    rw [hbufs] at hb
    by_cases hw : w' = w
    · rw [if_pos hw] at hb; cases hb
    · rw [if_neg hw] at hb; exact inv.buf_ok w' p b' hb

theorem inv_selfWrite (hwf : WF e blob) (inv : Inv e blob s) {w : Nat}
    (h : step e s (.selfWrite w) = some s') : Inv e blob s' := by
  obtain ⟨j, b, fr, hc, hbuf, hlen, hfile, hbufs⟩ := step_selfWrite h
  exact inv_write hwf inv fr hc (inv.buf_ok w _ b hbuf) hlen hfile hbufs

theorem inv_storeWrite (hwf : WF e blob) (inv : Inv e blob s) {w : Nat} {d : Bytes}
    (h : step e s (.storeWrite w d) = some s') : Inv e blob s' := by
  obtain ⟨j, fr, hc, hH, hlen, hfile, hbufs⟩ := step_storeWrite h
  exact inv_write hwf inv fr hc hH hlen hfile hbufs

theorem FinPosL_mono {fin : List Nat} {k p : Nat} (h : FinPosL e fin p) : FinPosL e (k :: fin) p := by
  obtain ⟨k', hk', hi⟩ := h
  exact ⟨k', List.mem_cons_of_mem _ hk', hi⟩

theorem inv_finish (inv : Inv e blob s) {w : Nat}
    (h : step e s (.finish w) = some s') : Inv e blob s' := by
  obtain ⟨j, hj, hcur, hfile, htaken, hss, hfin, hjobs, hbufs, _⟩ := step_finish h
  obtain ⟨hk, hplan, hle, hnf⟩ := inv.job_ok w j hj
  rw [cur_eq] at hcur
  have back : ∀ w' j', jobOf s' w' = some j' → w' ≠ w ∧ jobOf s w' = some j' := by
    intro w' j' hj'
    rw [hjobs] at hj'
    by_cases hw : w' = w
    · rw [if_pos hw] at hj'; cases hj'
    · rw [if_neg hw] at hj'; exact ⟨hw, hj'⟩
  have hadv := advance_inv (FinPosL e (j.k :: s.finished))
    (fun a b => ∃ (k l : Nat), k ∈ j.k :: s.finished ∧ e.plan[k]? = some (a, l) ∧ b = l + 1)
    (by
      intro a b ⟨k, l, hk, hp, hb⟩ p h1 h2
      exact ⟨k, hk, a, l, hp, h1, by omega⟩)
    (((j.first, j.last + 1) :: s.ss.cache.filter (·.1 != j.first)).length + 1)
    { s.ss with cache := (j.first, j.last + 1) :: s.ss.cache.filter (·.1 != j.first) }
    (by
      intro p hp
      exact FinPosL_mono (inv.ss_written p hp))
    (by
      intro a b hab
      rcases List.mem_cons.mp hab with heq | hmem
      · cases heq
        exact ⟨j.k, j.last, List.mem_cons_self, hplan, rfl⟩
      · obtain ⟨k, l, h1, h2, h3⟩ := inv.ss_cache a b (List.mem_filter.mp hmem).1
        exact ⟨k, l, List.mem_cons_of_mem _ h1, h2, h3⟩)
  refine ⟨by rw [hfile]; exact inv.len, ?_, ?_, ?_, ?_, ?_, ?_, ?_, ?_⟩
  · intro k hkm
    rw [hfin] at hkm; rw [htaken]
    rcases List.mem_cons.mp hkm with rfl | hm
    · exact hk
    · exact inv.fin_lt k hm
  · intro w' j' hj'
    obtain ⟨hw, h0⟩ := back w' j' hj'
    obtain ⟨a1, a2, a3, a4⟩ := inv.job_ok w' j' h0
    rw [htaken, hfin]
    refine ⟨a1, a2, a3, ?_⟩
    intro hm
    rcases List.mem_cons.mp hm with heq | hm
    · exact hw (inv.distinct w' w j' j h0 hj heq)
    · exact a4 hm
  · intro w1 w2 j1 j2 h1 h2 hkk
    exact inv.distinct w1 w2 j1 j2 (back w1 j1 h1).2 (back w2 j2 h2).2 hkk
  · intro k hkt
    rw [htaken] at hkt; rw [hfin]
    rcases inv.owned k hkt with h | ⟨w', j0, h0, hk0⟩
    · exact Or.inl (List.mem_cons_of_mem _ h)
    · by_cases hw : w' = w
      · rw [hw, hj] at h0
        cases Option.some.inj h0
        exact Or.inl (hk0 ▸ List.mem_cons_self)
      · exact Or.inr ⟨w', j0, by rw [hjobs, if_neg hw]; exact h0, hk0⟩
  · intro p hp
    rw [hfile]
    apply inv.settled
    rcases hp with hp | ⟨w', j', hj', h1, h2⟩
    · unfold FinPos at hp; rw [hfin] at hp
      obtain ⟨k, hkm, f, l, hkp, h1, h2⟩ := hp
      rcases List.mem_cons.mp hkm with rfl | hm
      · rw [hplan] at hkp
        cases Option.some.inj hkp
        exact Or.inr ⟨w, j, hj, h1, by omega⟩
      · exact Or.inl ⟨k, hm, f, l, hkp, h1, h2⟩
    · exact Or.inr ⟨w', j', (back w' j' hj').2, h1, h2⟩
  · intro w' p b hb
    rw [hbufs] at hb
    by_cases hw : w' = w
    · rw [if_pos hw] at hb; cases hb
    · rw [if_neg hw] at hb; exact inv.buf_ok w' p b hb
  · intro p hp
    rw [hss] at hp
    unfold FinPos; rw [hfin]
    exact hadv.1 p hp
  · intro a b hab
    rw [hss] at hab
    rw [hfin]
    exact hadv.2 a b hab

theorem inv_step (hwf : WF e blob) (inv : Inv e blob s) {ev : Ev}
    (h : step e s ev = some s') : Inv e blob s' := by
  cases ev with
  | take w => exact inv_take hwf inv h
  | scribble w off b => exact inv_scribble hwf inv h
  | verify w => exact inv_verify hwf inv h
  | selfRead w p => exact inv_selfRead hwf inv h
  | selfWrite w => exact inv_selfWrite hwf inv h
  | storeWrite w d => exact inv_storeWrite hwf inv h
  | finish w => exact inv_finish inv h

theorem reach_inv (hwf : WF e blob) {prior : Bytes} {n : Nat} {s : St}
    (h : Reachable e (init e prior n) s) : Inv e blob s := by
  induction h with
  | refl => exact inv_init hwf prior n
  | step ev _ hs ih => exact inv_step hwf ih hs

end

/-! ## main theorems -/

section
variable {e : Env} {blob : Bytes} {prior : Bytes} {n : Nat} {s : St}

/-- 1. the file keeps the length of the index -/
theorem conc_length (hwf : WF e blob) (h : Reachable e (init e prior n) s) :
    s.file.length = blob.length := (reach_inv hwf h).len

/-- 2. every settled position holds the blob's bytes -/
theorem settled_correct (hwf : WF e blob) (h : Reachable e (init e prior n) s) (p : Nat)
    (hp : (∃ (k f l : Nat), k ∈ s.finished ∧ e.plan[k]? = some (f, l) ∧ f ≤ p ∧ p ≤ l) ∨
          (∃ (w : Nat) (wk : Worker) (j : Job), s.workers[w]? = some wk ∧ wk.job = some j ∧
            j.first ≤ p ∧ p < j.first + j.good)) :
    readUpTo s.file (e.startOf p) (e.sizeOf p) = chunkData e blob p := by
  apply (reach_inv hwf h).settled
  rcases hp with ⟨k, f, l, hk, hpl, h1, h2⟩ | ⟨w, wk, j, hw, hj, h1, h2⟩
  · exact Or.inl ⟨k, hk, f, l, hpl, h1, h2⟩
  · exact Or.inr ⟨w, j, by rw [jobOf_of_worker hw, hj], h1, h2⟩

/-- 3. the self seed only offers positions of finished plan items -/
theorem selfseed_prefix_finished (hwf : WF e blob) (h : Reachable e (init e prior n) s) (p : Nat)
    (hp : p < s.ss.written) :
    ∃ (k f l : Nat), k ∈ s.finished ∧ e.plan[k]? = some (f, l) ∧ f ≤ p ∧ p ≤ l := by
  obtain ⟨k, hk, f, l, hpl, h1, h2⟩ := (reach_inv hwf h).ss_written p hp
  exact ⟨k, f, l, hk, hpl, h1, h2⟩

/-- a file that agrees with the blob on every chunk is the blob -/
theorem file_eq_of_chunks (hwf : WF e blob) {file : Bytes} (hlen : file.length = blob.length)
    (hall : ∀ p, p < e.chunks.length → readUpTo file (e.startOf p) (e.sizeOf p) = chunkData e blob p) :
    file = blob := by
  by_cases hn : e.chunks.length = 0
  · have hnil : e.chunks = [] := List.eq_nil_of_length_eq_zero hn
    have h0 : blob.length = 0 := by
      rw [← hwf.length_eq, hnil]; rfl
    rw [List.eq_nil_of_length_eq_zero h0]
    exact List.eq_nil_of_length_eq_zero (hlen.trans h0)
  · have key : ∀ p, p < e.chunks.length → file.take (e.endOf p) = blob.take (e.endOf p) := by
      intro p
      induction p with
      | zero =>
        intro hp
        have h0 := hwf.start0 (by intro h; rw [h] at hn; exact hn rfl)
        have := hall 0 hp
        unfold chunkData at this
        rw [endOf_eq, take_add_readUpTo, take_add_readUpTo, this, h0]
        rfl
      | succ p ih =>
        intro hp
        have hc := hwf.contiguous p hp
        have := hall (p + 1) hp
        unfold chunkData at this
        rw [endOf_eq, take_add_readUpTo, take_add_readUpTo, this, hc, ih (by omega)]
    have hl := hwf.end_last (by omega)
    have := key (e.chunks.length - 1) (by omega)
    rw [hl, List.take_of_length_le (by omega), List.take_of_length_le (by omega)] at this
    exact this

/-- 4. if every plan item completed, the file is the blob: for every interleaving, every content
    written from seeds, every prior content of the target and any number of workers -/
theorem conc_safe (hwf : WF e blob) (h : Reachable e (init e prior n) s) (hd : Done e s) :
    s.file = blob := by
  have inv := reach_inv hwf h
  apply file_eq_of_chunks hwf inv.len
  intro p hp
  obtain ⟨k, f, l, hk, h1, h2⟩ := hwf.plan_cover p hp
  exact inv.settled p (Or.inl ⟨k, hd k (lt_of_getElem? hk), f, l, hk, h1, h2⟩)

theorem reach_workers_length (h : Reachable e (init e prior n) s) : s.workers.length = n := by
  induction h with
  | refl => simp [init]
  | step ev _ hs ih =>
    rw [← ih]
    cases ev with
    | take w => obtain ⟨_, _, _, _, _, _, _, _, _, _, h⟩ := step_take hs; exact h
    | scribble w off b => obtain ⟨_, fr, _⟩ := step_scribble hs; exact fr.nworkers
    | verify w => obtain ⟨_, _, fr, _⟩ := step_verify hs; exact fr.nworkers
    | selfRead w p => obtain ⟨_, fr, _⟩ := step_selfRead hs; exact fr.nworkers
    | selfWrite w => obtain ⟨_, _, fr, _⟩ := step_selfWrite hs; exact fr.nworkers
    | storeWrite w d => obtain ⟨_, fr, _⟩ := step_storeWrite hs; exact fr.nworkers
    | finish w => obtain ⟨_, _, _, _, _, _, _, _, _, h⟩ := step_finish hs; exact h

/-- the store's data for a position passes the guard of `storeWrite` -/
theorem store_complete (hwf : WF e blob) (p : Nat) (hp : p < e.chunks.length) :
    e.H (chunkData e blob p) = e.idOf p ∧ (chunkData e blob p).length = e.sizeOf p :=
  ⟨(hwf.ids p hp).symm, hwf.chunkData_length hp⟩

/-- 5. no reachable state short of completion is stuck -/
theorem conc_progress (hwf : WF e blob) (h : Reachable e (init e prior n) s) (hn : 0 < n)
    (hnd : ¬ Done e s) : ∃ ev s', step e s ev = some s' := by
  have inv := reach_inv hwf h
  have hnw := reach_workers_length h
  by_cases hbusy : ∃ w j, jobOf s w = some j
  · obtain ⟨w, j, hj⟩ := hbusy
    obtain ⟨hk, hplan, hle, hnf⟩ := inv.job_ok w j hj
    have ho := hwf.plan_ordered _ _ _ hplan
    have hwl : w < s.workers.length := by
      apply Classical.byContradiction
      intro hge
      have : s.workers[w]? = none := List.getElem?_eq_none (by omega)
      simp [jobOf, jobOfL, this] at hj
    obtain ⟨wk, hwk⟩ : ∃ wk, s.workers[w]? = some wk := ⟨_, List.getElem?_eq_getElem hwl⟩
    have hwj : wk.job = some j := by rw [← jobOf_of_worker hwk]; exact hj
    obtain ⟨job, buf⟩ := wk
    simp only at hwj
    subst hwj
    by_cases hc : j.cur ≤ j.last
    · have hcn : j.cur < e.chunks.length := by omega
      obtain ⟨h1, h2⟩ := store_complete hwf j.cur hcn
      refine ⟨.storeWrite w (chunkData e blob j.cur), ?_⟩
      simp only [step, hwk, hc, h1, h2, and_self, if_true]
      exact ⟨_, rfl⟩
    · have hc' : j.cur = j.last + 1 := by rw [cur_eq] at hc ⊢; omega
      refine ⟨.finish w, ?_⟩
      simp only [step, hwk, hc', if_true]
      exact ⟨_, rfl⟩
  · have hidle : ∀ w, jobOf s w = none := by
      intro w
      cases hj : jobOf s w with
      | none => rfl
      | some j => exact absurd ⟨w, j, hj⟩ hbusy
    have htk : s.taken < e.plan.length := by
      apply Classical.byContradiction
      intro hge
      apply hnd
      intro k hk
      rcases inv.owned k (by omega) with h | ⟨w, j, hj, _⟩
      · exact h
      · rw [hidle w] at hj; cases hj
    obtain ⟨f, l, hpl⟩ := exists_of_lt htk
    obtain ⟨wk, hwk⟩ : ∃ wk, s.workers[0]? = some wk := ⟨_, List.getElem?_eq_getElem (by omega)⟩
    have hwj : wk.job = none := by rw [← jobOf_of_worker hwk]; exact hidle 0
    refine ⟨.take 0, ?_⟩
    simp only [step, hwk, hpl, hwj, Option.isNone_none, if_true]
    exact ⟨_, rfl⟩

end

/-! ## non-vacuity: a concrete run that reaches `Done` -/

theorem run_reachable {e : Env} {s0 : St} : ∀ (evs : List Ev) (s s' : St),
    Reachable e s0 s → run e s evs = some s' → Reachable e s0 s' := by
  intro evs
  induction evs with
  | nil => intro s s' hr h; cases Option.some.inj h; exact hr
  | cons ev evs ih =>
    intro s s' hr h
    simp only [run] at h
    cases hs : step e s ev with
    | none => rw [hs] at h; cases h
    | some s1 =>
      rw [hs] at h
      exact ih s1 s' (Reachable.step ev hr hs) h

namespace Example

/-- three chunks, the third a duplicate of the first; the hash is the identity -/
def blob : Bytes := [1, 2, 3, 1, 2]

def env : Env where
  H := fun b => b
  chunks := [⟨[1, 2], 0, 2⟩, ⟨[3], 2, 1⟩, ⟨[1, 2], 3, 2⟩]
  plan := [(0, 0), (1, 2)]

theorem wf : WF env blob where
  start0 := fun _ => rfl
  contiguous := by
    intro p hp
    have : p = 0 ∨ p = 1 := by simp [env] at hp; omega
    rcases this with rfl | rfl <;> rfl
  length_eq := rfl
  ids := by
    intro p hp
    have : p = 0 ∨ p = 1 ∨ p = 2 := by simp [env] at hp; omega
    rcases this with rfl | rfl | rfl <;> rfl
  collision_free := by
    intro p hp b hb
    have : p = 0 ∨ p = 1 ∨ p = 2 := by simp [env] at hp; omega
    rcases this with rfl | rfl | rfl <;> exact hb
  plan_first := by
    intro f l h
    cases Option.some.inj h; rfl
  plan_next := by
    intro k f l f' l' h h'
    match k with
    | 0 => cases Option.some.inj h; cases Option.some.inj h'; rfl
    | 1 => cases h'
    | k + 2 => cases h
  plan_ordered := by
    intro k f l h
    match k with
    | 0 => cases Option.some.inj h; decide
    | 1 => cases Option.some.inj h; decide
    | k + 2 => cases h
  plan_last := by
    intro f l h
    cases Option.some.inj h; rfl
  plan_empty := by
    constructor <;> intro h <;> cases h

/-- two workers; the prior content has the middle chunk in place.  Worker 0 fetches chunk 0 from
    the store; worker 1 finds chunk 1 in place, has a seed write garbage over chunk 2, then copies
    chunk 2 from the written prefix (chunk 0, same ID). -/
def events : List Ev :=
  [.take 0, .take 1, .verify 1, .scribble 1 3 [7], .storeWrite 0 [1, 2], .finish 0,
   .selfRead 1 0, .selfWrite 1, .finish 1]

def prior : Bytes := [9, 9, 3]

example : ∃ s, Reachable env (init env prior 2) s ∧ Done env s ∧ s.file = blob := by
  have hrun : ∃ s, run env (init env prior 2) events = some s ∧ s.finished = [1, 0] ∧ s.file = blob :=
    ⟨_, rfl, rfl, rfl⟩
  obtain ⟨s, hr, hfin, hfile⟩ := hrun
  refine ⟨s, run_reachable events _ s Reachable.refl hr, ?_, hfile⟩
  intro k hk
  rw [hfin]
  have : k = 0 ∨ k = 1 := by simp [env] at hk; omega
  rcases this with rfl | rfl <;> decide

end Example

end Desync.AsmConc
