/-
  Definitions shared by the regenerated obligations of C03 / C20 / C14 about `storeFromLocation` and
  `indexStoreFromLocation` (no theorems here: a changed source must break only the obligation that states it).
-/
import Desync.Model.StoreOpts

namespace Desync.C03
open Desync Desync.StoreOpts

/-- the model's view of the sources: the command's store options … -/
def cmdOf (i : Gen.StoreoptsIn) : CmdStoreOptions :=
  { n := i.flagI "concurrency", clientCert := i.flagS "client-cert", clientKey := i.flagS "client-key", caCert := i.flagS "ca-cert",
    skipVerify := i.cmdB "skipVerify", errorRetry := i.flagI "error-retry", errorRetryBaseInterval := i.flagI "error-retry-base-interval",
    chClientCert := i.changed "client-cert", chClientKey := i.changed "client-key", chCaCert := i.changed "ca-cert",
    chTrustInsecure := i.changed "trust-insecure", chErrorRetry := i.changed "error-retry",
    chErrorRetryBaseInterval := i.changed "error-retry-base-interval" }

/-- … and the configuration entry selected for the location -/
def cfgOf (i : Gen.StoreoptsIn) : StoreOptions :=
  { n := i.cfgI "N", clientCert := i.cfgS "ClientCert", clientKey := i.cfgS "ClientKey", caCert := i.cfgS "CACert",
    trustInsecure := i.cfgB "TrustInsecure", httpAuth := i.cfgS "HTTPAuth", httpCookie := i.cfgS "HTTPCookie", timeout := i.cfgI "Timeout",
    errorRetry := i.cfgI "ErrorRetry", errorRetryBaseInterval := i.cfgI "ErrorRetryBaseInterval", skipVerify := i.cfgB "SkipVerify",
    uncompressed := i.cfgB "Uncompressed" }

def genSFL (i : Gen.StoreoptsIn) : StoreOptions :=
  { n := Gen.storeoptsSFLOptN i, clientCert := Gen.storeoptsSFLOptClientCert i, clientKey := Gen.storeoptsSFLOptClientKey i,
    caCert := Gen.storeoptsSFLOptCACert i, trustInsecure := Gen.storeoptsSFLOptTrustInsecure i, httpAuth := Gen.storeoptsSFLOptHTTPAuth i,
    httpCookie := Gen.storeoptsSFLOptHTTPCookie i, timeout := Gen.storeoptsSFLOptTimeout i, errorRetry := Gen.storeoptsSFLOptErrorRetry i,
    errorRetryBaseInterval := Gen.storeoptsSFLOptErrorRetryBaseInterval i, skipVerify := Gen.storeoptsSFLOptSkipVerify i,
    uncompressed := Gen.storeoptsSFLOptUncompressed i }

def genISFL (i : Gen.StoreoptsIn) : StoreOptions :=
  { n := Gen.storeoptsISFLOptN i, clientCert := Gen.storeoptsISFLOptClientCert i, clientKey := Gen.storeoptsISFLOptClientKey i,
    caCert := Gen.storeoptsISFLOptCACert i, trustInsecure := Gen.storeoptsISFLOptTrustInsecure i, httpAuth := Gen.storeoptsISFLOptHTTPAuth i,
    httpCookie := Gen.storeoptsISFLOptHTTPCookie i, timeout := Gen.storeoptsISFLOptTimeout i, errorRetry := Gen.storeoptsISFLOptErrorRetry i,
    errorRetryBaseInterval := Gen.storeoptsISFLOptErrorRetryBaseInterval i, skipVerify := Gen.storeoptsISFLOptSkipVerify i,
    uncompressed := Gen.storeoptsISFLOptUncompressed i }

macro "optwire" : tactic =>
  `(tactic| first
    | rfl
    | (simp only [genSFL, genISFL, cmdOf, cfgOf, mergedWith, Gen.storeoptsSFLOptN, Gen.storeoptsSFLOptClientCert, Gen.storeoptsSFLOptClientKey,
        Gen.storeoptsSFLOptCACert, Gen.storeoptsSFLOptTrustInsecure, Gen.storeoptsSFLOptHTTPAuth, Gen.storeoptsSFLOptHTTPCookie,
        Gen.storeoptsSFLOptTimeout, Gen.storeoptsSFLOptErrorRetry, Gen.storeoptsSFLOptErrorRetryBaseInterval,
        Gen.storeoptsSFLOptSkipVerify, Gen.storeoptsSFLOptUncompressed,
        Gen.storeoptsISFLOptN, Gen.storeoptsISFLOptClientCert, Gen.storeoptsISFLOptClientKey,
        Gen.storeoptsISFLOptCACert, Gen.storeoptsISFLOptTrustInsecure, Gen.storeoptsISFLOptHTTPAuth, Gen.storeoptsISFLOptHTTPCookie,
        Gen.storeoptsISFLOptTimeout, Gen.storeoptsISFLOptErrorRetry, Gen.storeoptsISFLOptErrorRetryBaseInterval,
        Gen.storeoptsISFLOptSkipVerify, Gen.storeoptsISFLOptUncompressed] <;> first | done | grind)
    | grind)

end Desync.C03
