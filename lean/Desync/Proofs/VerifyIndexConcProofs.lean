/-
  `VerifyIndex` on its worker pool (`Model/VerifyIndexConc.lean`) against the sequential model
  (`Model/VerifyIndex.lean`): without cancellation every schedule of every worker count ends in the
  sequential verdict; with cancellation a success is still the sequential success.
-/
import Desync.Model.VerifyIndexConc
import Desync.Proofs.PoolJobsProofs
import Desync.Proofs.VerifyIndexProofs

namespace Desync
open Pool

theorem all_getElem?_iff {α : Type} (L : List α) (P : α → Bool) :
    (∀ j, j < L.length → (match L[j]? with | some p => P p | none => true) = true) ↔ L.all P = true := by
  rw [List.all_eq_true]
  constructor
  · intro h p hp
    obtain ⟨j, hj, rfl⟩ := List.getElem_of_mem hp
    have := h j hj
    simpa [List.getElem?_eq_getElem hj] using this
  · intro h j hj
    simp [List.getElem?_eq_getElem hj]
    exact h _ (List.getElem_mem hj)

/-- every job of the pool is good iff the sequential model's batch-wise check passes -/
theorem all_good_iff (H : Digest) (file : Bytes) (idx : Index) (n : Nat) :
    (∀ j, j < verifyJobs idx n → goodBatch H file idx n j = true) ↔
      ((batches idx.chunks.length n).all fun (lo, hi) =>
        ((idx.chunks.drop lo).take (hi - lo)).all (validateChunk H file)) = true := by
  have h := all_getElem?_iff (batches idx.chunks.length n)
    (fun (p : Nat × Nat) => match p with
      | (lo, hi) => ((idx.chunks.drop lo).take (hi - lo)).all (validateChunk H file))
  rw [← h]
  unfold verifyJobs goodBatch
  constructor
  · intro hg j hj
    have := hg j hj
    split at this <;> simp_all
  · intro hg j hj
    have := hg j hj
    split <;> simp_all

/-- **no cancellation: every schedule ends in the sequential verdict** -/
theorem verifyIndexConc_eq_sequential (sh : PoolShape) (H : Digest) (file : Bytes) (isDevice : Bool)
    (idx : Index) (n : Nat) (s : Pool.St)
    (h : ReachableJ sh (goodBatch H file idx n) (Pool.St.init (verifyJobs idx n) n) s)
    (hc : s.parentCancelled = false) (o : VerifyOutcome)
    (ho : verifyIndexConc file isDevice idx n s = some o) :
    o = (verifyIndex H file isDevice idx n).toOutcome := by
  unfold verifyIndexConc at ho
  unfold verifyIndex
  split at ho
  · rename_i hsz
    rw [if_pos hsz]; cases ho; rfl
  · rename_i hsz
    rw [if_neg hsz]
    split at ho
    · rename_i hn0
      rw [if_pos hn0]; cases ho; rfl
    · rename_i hn0
      rw [if_neg hn0]
      cases hr : s.result with
      | none => simp [hr] at ho
      | some r =>
        obtain ⟨hiff, hor⟩ := okJ_iff_all_good sh _ _ n s r h hr hc
        rw [all_good_iff] at hiff
        simp only [hr, Option.map_some, Option.some.injEq] at ho
        rcases hor with rfl | rfl
        · rw [if_pos (hiff.1 rfl)]; subst ho; rfl
        · have : ¬ _ := fun hall => by have := hiff.2 hall; cases this
          rw [if_neg this]; subst ho; rfl

/-- **any cancellation: a success is the sequential success** (shape marks and reports) -/
theorem verifyIndexConc_ok_sound (sh : PoolShape) (hsh : sh.ok = true) (H : Digest) (file : Bytes)
    (isDevice : Bool) (idx : Index) (n : Nat) (s : Pool.St)
    (h : ReachableJ sh (goodBatch H file idx n) (Pool.St.init (verifyJobs idx n) n) s)
    (ho : verifyIndexConc file isDevice idx n s = some .ok) :
    verifyIndex H file isDevice idx n = .ok := by
  unfold verifyIndexConc at ho
  unfold verifyIndex
  split at ho
  · cases ho
  · rename_i hsz
    rw [if_neg hsz]
    split at ho
    · cases ho
    · rename_i hn0
      rw [if_neg hn0]
      cases hr : s.result with
      | none => simp [hr] at ho
      | some r =>
        simp only [hr, Option.map_some, Option.some.injEq] at ho
        have hrok : r = .ok := by cases r <;> simp_all
        subst hrok
        have hall := okJ_all_good sh hsh _ _ n s h hr
        rw [all_good_iff] at hall
        rw [if_pos hall]

end Desync
