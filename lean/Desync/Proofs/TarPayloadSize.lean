/-
  The payload element of a regular file and the bytes that follow it agree, whatever the reader
  reported: `tar()` copies exactly `size` bytes of content (`io.CopyN(w, data, size)`), where
  `size` is the size recorded in the element header (`16 + f.size`), and fails when the content is
  shorter.  No hypothesis relates `f.size` and `f.data` here.
-/
import Desync.Proofs.TarSizes

namespace Desync

/-- the `.reg` case of `tarOne`, unfolded -/
theorem tarOne_reg (fuel : Nat) (f : FileRec) (rest : List FileRec) (hk : f.kind = .reg) :
    tarOne (fuel + 1) f rest =
      if f.data.length < f.size.toNat then none
      else some (encElem (entryElem f) ++ encXattrs f.xattrs ++ encElem (.payload (16 + f.size)) ++
        f.data.take f.size.toNat, rest) := by
  rw [tarOne]
  simp [hk]

/-- content shorter than the recorded size: `io.CopyN` hits EOF and `tar()` returns an error -/
theorem tarOne_reg_short_fails (fuel : Nat) (f : FileRec) (rest : List FileRec)
    (hk : f.kind = .reg) (hs : f.data.length < f.size.toNat) : tarOne (fuel + 1) f rest = none := by
  rw [tarOne_reg fuel f rest hk, if_pos hs]

/-- whenever a regular file is written, the content has at least `f.size` bytes, no record is
    consumed, and the output is entry, xattrs, the payload header announcing `16 + f.size`, and
    exactly `f.size` bytes of content -/
theorem tarOne_reg_payload_exact (fuel : Nat) (f : FileRec) (rest : List FileRec) (out : Bytes)
    (rest' : List FileRec)
    (hk : f.kind = .reg) (h : tarOne (fuel + 1) f rest = some (out, rest')) :
    f.size.toNat ≤ f.data.length ∧ rest' = rest ∧
    out = encElem (entryElem f) ++ encXattrs f.xattrs ++ encElem (.payload (16 + f.size)) ++
      f.data.take f.size.toNat ∧
    (f.data.take f.size.toNat).length = f.size.toNat := by
  rw [tarOne_reg fuel f rest hk] at h
  by_cases hs : f.data.length < f.size.toNat
  · rw [if_pos hs] at h
    cases h
  · rw [if_neg hs] at h
    have hle : f.size.toNat ≤ f.data.length := Nat.le_of_not_lt hs
    simp only [Option.some.injEq, Prod.mk.injEq] at h
    exact ⟨hle, h.2.symm, h.1.symm, by rw [List.length_take]; omega⟩

/-- if `16 + f.size` does not wrap, the size field of the payload element, as a number, is the
    16 header bytes plus the number of content bytes written after the header; in the vocabulary of
    `TarSizes.lean`: the size field equals the element's encoded length including its payload -/
theorem tarOne_reg_size_field (fuel : Nat) (f : FileRec) (rest : List FileRec) (out : Bytes)
    (rest' : List FileRec)
    (hk : f.kind = .reg) (h : tarOne (fuel + 1) f rest = some (out, rest'))
    (hw : f.size.toNat + 16 < 2 ^ 64) :
    (16 + f.size).toNat = 16 + (f.data.take f.size.toNat).length ∧
    (Elem.payload (16 + f.size)).sizeField.toNat
      = (Elem.payload (16 + f.size)).encLen (f.data.take f.size.toNat).length := by
  obtain ⟨_, _, _, hlen⟩ := tarOne_reg_payload_exact fuel f rest out rest' hk h
  have h1 : (16 + f.size).toNat = 16 + (f.data.take f.size.toNat).length := by
    rw [hlen, UInt64.toNat_add]
    simp
    omega
  exact ⟨h1, by simp only [Elem.sizeField, Elem.encLen, payload_size]; exact h1⟩

end Desync
