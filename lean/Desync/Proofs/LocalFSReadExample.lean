/-
  Non-vacuity of the file-system round trip: a concrete file system with a directory tree that has a nested directory
  with the set-group-ID bit and an extended attribute, a set-user-ID file with two extended attributes, a symbolic link
  to a directory with its own time stamp, a character device node and an empty directory; every hypothesis of
  `fs_roundtrip` holds of it (checked by evaluation), and so does its conclusion.
-/
import Desync.Proofs.LocalFSReadProofs

namespace Desync.LFS
open Desync Desync.Mode

instance (xs : List (Bytes × Bytes)) : Decidable (XattrsOK xs) := by unfold XattrsOK; infer_instance
instance (nt : Bool) (f : FileRec) : Decidable (Fits nt f) := by unfold Fits; infer_instance
instance (nt : Bool) (recs : List FileRec) : Decidable (Representable nt recs) := by unfold Representable; infer_instance

/-- the representability hypothesis of `fs_roundtrip`, by evaluation of the reader -/
def checkRepresentable (env : Env) (nt : Bool) (fs : FS) (root : List Name) : Bool :=
  match readTree env nt noSkip fs (absStr root) with
  | some (.ok recs) => decide (Representable nt recs)
  | _ => false

theorem representable_of_check {env : Env} {nt : Bool} {fs : FS} {root : List Name}
    (h : checkRepresentable env nt fs root = true) :
    ∀ recs, readTree env nt noSkip fs (absStr root) = some (.ok recs) → Representable nt recs := by
  intro recs hr
  unfold checkRepresentable at h
  rw [hr] at h
  simpa using h

namespace ReadExample

def nSrv : Bytes := [115, 114, 118]                           -- "srv"
def nSrc : Bytes := [115, 114, 99]                            -- "src"
def nDst : Bytes := [100, 115, 116]                           -- "dst"
def nSub : Bytes := [115, 117, 98]                            -- "sub"
def nF : Bytes := [102]                                       -- "f"
def nL : Bytes := [108]                                       -- "l"
def nC : Bytes := [99]                                        -- "c"
def nE : Bytes := [65]                                        -- "A" (sorts before the lower-case names)
def xaA : Bytes × Bytes := ([117, 115, 101, 114, 46, 97], [1])     -- user.a = 01
def xaB : Bytes × Bytes := ([117, 115, 101, 114, 46, 98], [2, 3])  -- user.b = 02 03

/-- /srv/src: sub/ (02775, user.a), sub/f (04755, user.b then user.a: the reader sorts), sub/l -> /srv (own mtime),
    c (character device 1:3), A/ (empty); listed in no particular order -/
def fs0 : FS :=
  [ ([nSrv, nSrc, nSub, nL], .symlink [47, 115, 114, 118] { owner := some (0, 0) } (some 77)),
    ([nSrv], .dir { owner := some (0, 0), mode := some 0o755 } (some 4)),
    ([nSrv, nSrc, nC], .dev S_IFCHR.toNat 1 3 { owner := some (0, 5), mode := some 0o660 } (some 9)),
    ([nSrv, nSrc], .dir { owner := some (1000, 100), mode := some 0o755 } (some 5)),
    ([nSrv, nSrc, nSub, nF], .file [1, 2, 3] { owner := some (1000, 100), mode := some 0o4755, xattrs := [xaB, xaA] } (some 8)),
    ([nSrv, nSrc, nSub], .dir { owner := some (1000, 100), mode := some 0o2775, xattrs := [xaA] } (some 6)),
    ([nSrv, nSrc, nE], .dir { owner := some (0, 0), mode := some 0o1777 } (some 7)) ]

def root0 : List Name := [nSrv, nSrc]

/-- another machine: only /srv exists -/
def fs1 : FS := [([nSrv], .dir { owner := some (0, 0), mode := some 0o755 } (some 4))]
def root1 : List Name := [nSrv, nDst]

def env0 : Env := ⟨fun _ => (0, 0), fun _ => 0, fun _ => 0⟩

theorem valid0 : FSValid fs0 := by
  refine ⟨by decide, ?_⟩
  intro e he ty ma mi a m h
  simp only [fs0, List.mem_cons, List.mem_nil_iff, or_false] at he
  rcases he with rfl | rfl | rfl | rfl | rfl | rfl | rfl <;> simp at h
  left; exact h.1.symm

theorem allDirs_nil (fs : FS) : AllDirs fs [] := by
  intro Q R e hQ
  have : Q = [] := by
    cases Q with
    | nil => rfl
    | cons a Q => simp at e
  exact absurd this hQ

theorem allDirs_srv (fs : FS) (a : Attr) (m : Option Nat) (h : fs.get [nSrv] = some (.dir a m)) : AllDirs fs [nSrv] := by
  intro Q R e hQ
  cases Q with
  | nil => exact absurd rfl hQ
  | cons x Q =>
    cases Q with
    | nil =>
      simp only [List.cons_append, List.nil_append, List.cons.injEq] at e
      rw [← e.1]; exact ⟨a, m, h⟩
    | cons y Q => simp at e

theorem srcRoot0 : SrcRoot fs0 root0 where
  ne := by decide
  valid := by decide
  short := by unfold Short; decide
  above := allDirs_srv fs0 _ _ (by rfl)
  there := by decide

theorem isDir0 : IsDir (fs0.get root0) := ⟨_, _, by rfl⟩

theorem rootOK1 : RootOK fs1 root1 where
  ne := by decide
  comps_valid := by decide
  above := by
    intro k h0 hk
    have : k = 1 := by simp [root1] at hk; omega
    subst this
    exact ⟨_, _, by rfl⟩
  not_link := by
    intro t a m h
    have : fs1.get root1 = none := by decide
    rw [this] at h; cases h

theorem short1 : Short root1 := by unfold Short; decide

theorem fresh1 : ∀ p, root1 <+: p → fs1.get p = none := by
  intro p hp
  have hl := hp.length_le
  simp only [fs1, FS.get, List.lookup]
  have : (p == [nSrv]) = false := by
    simp only [beq_eq_false_iff_ne]
    rintro rfl
    simp [root1] at hl
  rw [this]

set_option maxRecDepth 100000 in
theorem representable0 (nt : Bool) : checkRepresentable env0 nt fs0 root0 = true := by
  cases nt <;> decide

/-- the conclusion of `fs_roundtrip` for this tree, onto the other machine's /srv/dst and (second part) onto a path of
    the same name -/
theorem roundtrip0 (nt : Bool) :
    ∃ (t : Tree) (b : Bytes),
      readTree env0 nt noSkip fs0 (absStr root0) = some (.ok t.records) ∧ t.Walked (absStr root0) ∧
      tarStream t.records = some b ∧
      (untarFS restoreAll root1 fs1 b).2 = true ∧
      readTree env0 nt noSkip (untarFS restoreAll root1 fs1 b).1 (absStr root1) = some (.ok (t.rootedAt root1).records) ∧
      tarStream (t.rootedAt root1).records = some b :=
  let ⟨t, b, h1, h2, h3, h4, h5, h6, _⟩ := fs_roundtrip env0 nt fs0 fs1 root0 root1 valid0 srcRoot0 isDir0
    (representable_of_check (representable0 nt)) rootOK1 short1 fresh1
  ⟨t, b, h1, h2, h3, h4, h5, h6⟩

end ReadExample

end Desync.LFS
