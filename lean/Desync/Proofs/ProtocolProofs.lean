/-
  Proofs about `Model/Protocol.lean`: framing round trip, truthful interpretation of the
  server's replies, and the server loop.
-/
import Desync.Model.Protocol
import Desync.Proofs.FormatLemmas

namespace Desync

/-- framing round trip: reading what was written gives the message back, for any following bytes -/
theorem readMessage_writeMessage (m : Message) (r : Bytes) (a : Nat) (h : 16 + m.body.length < 2^64) :
    readMessage ⟨writeMessage m ++ r, a⟩ = .ok (m, ⟨r, a + (8 + m.body.length)⟩) := by
  obtain ⟨typ, body⟩ := m
  simp only at h
  have hw : writeMessage ⟨typ, body⟩ ++ r
      = le64 (UInt64.ofNat (16 + body.length)) ++ ((le64 typ ++ body) ++ r) := by
    simp [writeMessage, List.append_assoc]
  have htn : (UInt64.ofNat (16 + body.length)).toNat = 16 + body.length := by
    rw [UInt64.toNat_ofNat']
    exact Nat.mod_eq_of_lt (by simpa using h)
  have hnlt : ¬ (UInt64.ofNat (16 + body.length) < 16) := by
    rw [UInt64.lt_iff_toNat_lt, htn]
    simp
  have hlen : 16 + body.length - 8 = (le64 typ ++ body).length := by
    simp; omega
  unfold readMessage
  rw [hw, readU64_le64]
  simp only [Res.ok_bind, hnlt, ↓reduceIte, htn]
  rw [hlen, readN_append]
  have h8 : ¬ (le64 typ ++ body).length < 8 := by simp
  simp only [Res.ok_bind, h8, ↓reduceIte, Res.pure_eq, u64OfLE_le64_append]
  have hd : List.drop 8 (le64 typ ++ body) = body := by
    rw [List.drop_append_of_le_length (by simp)]
    simp [List.drop_of_length_le]
  have hl2 : (le64 typ ++ body).length = 8 + body.length := by simp
  rw [hd, hl2]

/-- missing vs chunk are told apart truthfully -/
theorem interpret_missing (id : Bytes) : interpretReply (missingMessage id) = .missing := by
  simp [interpretReply, missingMessage]

theorem interpret_chunk (id data : Bytes) (flags : UInt64) (hid : id.length = 32) :
    interpretReply (chunkMessage id flags data) = .chunk data := by
  have hne : Gen.CaProtocolChunk ≠ Gen.CaProtocolMissing := by decide
  have hl : ¬ (le64 flags ++ id ++ data).length < 40 := by
    simp [hid]; omega
  have hd : List.drop 40 (le64 flags ++ id ++ data) = data := by
    have : (le64 flags ++ id).length = 40 := by simp [hid]
    rw [List.drop_append_of_le_length (by omega)]
    rw [List.drop_of_length_le (by omega)]
    rfl
  simp only [interpretReply, chunkMessage, hne, ↓reduceIte, hl, hd]

theorem interpret_other (m : Message) (h1 : m.typ ≠ Gen.CaProtocolMissing)
    (h2 : m.typ ≠ Gen.CaProtocolChunk) : interpretReply m = .error := by
  simp [interpretReply, h1, h2]

/-- the server answers every request up to the first store failure; a missing chunk does not end
    the session -/
theorem serve_all_answered (reqs : List (Bytes × StoreAns)) (h : ∀ p ∈ reqs, p.2 ≠ .failure) :
    (serveRequests reqs).2 = true ∧ (serveRequests reqs).1.length = reqs.length ∧
    ∀ i (hi : i < reqs.length), (serveRequests reqs).1[i]? =
      some (match reqs[i].2 with
        | .missing => missingMessage reqs[i].1
        | .data c => chunkMessage reqs[i].1 1 c
        | .failure => missingMessage reqs[i].1) := by
  induction reqs with
  | nil => simp [serveRequests]
  | cons p rest ih =>
    obtain ⟨id, ans⟩ := p
    have ih := ih (fun q hq => h q (List.mem_cons_of_mem _ hq))
    obtain ⟨ih1, ih2, ih3⟩ := ih
    have hp := h (id, ans) (List.mem_cons_self)
    cases ans with
    | failure => exact absurd rfl hp
    | missing =>
      refine ⟨by simpa [serveRequests] using ih1, by simpa [serveRequests] using ih2, ?_⟩
      intro i hi
      cases i with
      | zero => simp [serveRequests]
      | succ j =>
        have hj : j < rest.length := by simpa using hi
        simpa [serveRequests] using ih3 j hj
    | data c =>
      refine ⟨by simpa [serveRequests] using ih1, by simpa [serveRequests] using ih2, ?_⟩
      intro i hi
      cases i with
      | zero => simp [serveRequests]
      | succ j =>
        have hj : j < rest.length := by simpa using hi
        simpa [serveRequests] using ih3 j hj

end Desync
