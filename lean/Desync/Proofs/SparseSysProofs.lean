/-
  Sparse-file proofs (C09), part 3: the system across sessions (`SparseSys`): cache file and state
  file on disk, restarts with the cache file kept / deleted / resized and the state file kept or
  dropped.  Every read in every history returns the blob's bytes or an error.
-/
import Desync.Model.SparseSys
import Desync.Proofs.SparseOpen

namespace Desync

/-! ### static facts, independent of the session -/

/-- static facts about the index, the blob and the store (`SparseSetup` without a state) -/
structure SparseStatic (blob : Bytes) (chunks : List RChunk) (nullID length : Nat) (fetch : Fetch) :
    Prop where
  tiles : TilesFrom 0 chunks
  len : length = blob.length ∧ endOf 0 chunks = blob.length
  sound : ∀ c ∈ chunks, ∀ k b, fetch k c.id = some b → b = slice blob c
  null : ∀ c ∈ chunks, c.id = nullID → slice blob c = List.replicate c.size 0

/-- the session works on this index -/
def SysIdx (chunks : List RChunk) (nullID length : Nat) (sys : SparseSys) : Prop :=
  sys.s.chunks = chunks ∧ sys.s.nullID = nullID ∧ sys.s.length = length

theorem SparseStatic.setup {blob : Bytes} {chunks : List RChunk} {nullID length : Nat}
    {fetch : Fetch} (h : SparseStatic blob chunks nullID length fetch) {s : SparseSt}
    (h1 : s.chunks = chunks) (h2 : s.nullID = nullID) (h3 : s.length = length) :
    SparseSetup blob s fetch := by
  subst h1 h2 h3
  exact ⟨h.tiles, h.len, h.sound, h.null⟩

/-- well-formed ops: a resize is to a length other than the index's.  (In `SparseSys` a resize to
    exactly `length` is modelled as "no change", so the theorems below hold without this; it is
    kept for the statement requested.) -/
def SysOpOK (length : Nat) : SysOp → Prop
  | .restart (.resize m) _ => m ≠ length
  | _ => True

/-- system invariant: the session is good and a state file on disk never claims more than the
    cache file holds -/
def SysInv (blob : Bytes) (sys : SparseSys) : Prop :=
  SparseInv blob sys.s ∧ (∀ st, sys.stateFile = some st → DoneLe st sys.s.done)

/-! ### helpers -/

theorem stateAccepted_eq_stateOK (chunks : List RChunk) (length : Nat) (file : Bytes)
    (state : Option (List Bool)) :
    stateAccepted chunks length file state = stateOK chunks length file state := by
  cases state <;> rfl

theorem doneLe_allFalse (n : Nat) (d : List Bool) : DoneLe (List.replicate n false) d := by
  intro i h
  rw [List.getElem?_replicate] at h
  split at h <;> cases h

/-- whatever happens to the cache file between sessions, the result is the old file cut somewhere
    and zero-extended; and if it (still) has the index length it was not cut below it -/
theorem applyFileChange_form {length : Nat} {file : Bytes} (hl : file.length = length)
    (fc : FileChange) :
    ∃ m k, applyFileChange length file fc = file.take m ++ List.replicate k 0 ∧
      ((applyFileChange length file fc).length = length → length ≤ m) := by
  have hkeep : file = file.take length ++ List.replicate 0 0 := by
    rw [List.replicate_zero, List.append_nil, List.take_of_length_le (by omega)]
  cases fc with
  | keep => exact ⟨length, 0, hkeep, fun _ => Nat.le_refl _⟩
  | delete =>
    refine ⟨0, 0, by simp [applyFileChange], ?_⟩
    intro h
    simp only [applyFileChange, List.length_nil] at h
    omega
  | resize m =>
    have heq : applyFileChange length file (.resize m) =
        if m = length then file
        else if m ≤ file.length then file.take m
        else file ++ List.replicate (m - file.length) 0 := rfl
    rw [heq]
    by_cases h1 : m = length
    · rw [if_pos h1]
      exact ⟨length, 0, hkeep, fun _ => Nat.le_refl _⟩
    · rw [if_neg h1]
      by_cases h2 : m ≤ file.length
      · rw [if_pos h2]
        refine ⟨m, 0, by rw [List.replicate_zero, List.append_nil], ?_⟩
        intro h
        rw [List.length_take] at h
        omega
      · rw [if_neg h2]
        refine ⟨length, m - file.length, ?_, fun _ => Nat.le_refl _⟩
        rw [List.take_of_length_le (by omega)]

theorem open_done_of_ok {fetch : Fetch} {chunks : List RChunk} {nullID length : Nat} {file : Bytes}
    {state : Option (List Bool)} (h : stateOK chunks length file state = true)
    (init : Option (List Bool)) (calls : Nat) :
    (SparseSt.open fetch chunks nullID length file state init calls).done = state.getD [] := by
  rw [open_eq, h, if_pos rfl]

/-! ### the step equations -/

theorem step_read (fetch : Fetch) (sys : SparseSys) (off n : Nat) :
    sys.step fetch (.read off n) =
      (some (sys.s.readAt fetch off n).1, { sys with s := (sys.s.readAt fetch off n).2 }) := rfl

theorem step_save (fetch : Fetch) (sys : SparseSys) :
    sys.step fetch .saveState = (none, { sys with stateFile := some sys.s.saveState }) := rfl

theorem step_restart (fetch : Fetch) (sys : SparseSys) (fc : FileChange) (dropState : Bool) :
    sys.step fetch (.restart fc dropState) =
      (none,
        { s := SparseSt.open fetch sys.s.chunks sys.s.nullID sys.s.length
            (applyFileChange sys.s.length sys.s.file fc)
            (if dropState then none else sys.stateFile) none sys.s.calls,
          stateFile :=
            if stateAccepted sys.s.chunks sys.s.length (applyFileChange sys.s.length sys.s.file fc)
                (if dropState then none else sys.stateFile)
            then (if dropState then none else sys.stateFile)
            else some (List.replicate sys.s.chunks.length false) }) := rfl

theorem run_cons (fetch : Fetch) (sys : SparseSys) (op : SysOp) (ops : List SysOp) :
    sys.run fetch (op :: ops) =
      ((sys.step fetch op).1 :: ((sys.step fetch op).2.run fetch ops).1,
        ((sys.step fetch op).2.run fetch ops).2) := rfl

/-! ### init and step -/

/-- the first session satisfies the system invariant -/
theorem sys_init_inv {blob : Bytes} {chunks : List RChunk} {nullID length : Nat} {fetch : Fetch}
    (hst : SparseStatic blob chunks nullID length fetch) :
    SysInv blob (SparseSys.init fetch chunks nullID length) ∧
    SysIdx chunks nullID length (SparseSys.init fetch chunks nullID length) := by
  have hs : SparseSetup blob { chunks, nullID, length, done := [], file := [] } fetch :=
    hst.setup rfl rfl rfl
  obtain ⟨a1, a2⟩ := open_fresh_inv hs 0 (state := none) rfl none 0
  refine ⟨⟨a1, ?_⟩, a2⟩
  intro st h
  have : st = List.replicate chunks.length false := by
    simp only [SparseSys.init, Option.some.injEq] at h
    exact h.symm
  rw [this]
  exact doneLe_allFalse _ _

/-- every op (well-formed or not, see `SysOpOK`) preserves the system invariant and the index; a
    read's result is the blob's range or an error -/
theorem sys_step_inv {blob : Bytes} {chunks : List RChunk} {nullID length : Nat} {fetch : Fetch}
    (hst : SparseStatic blob chunks nullID length fetch) {sys : SparseSys}
    (hx : SysIdx chunks nullID length sys) (hi : SysInv blob sys) (op : SysOp) :
    SysInv blob (sys.step fetch op).2 ∧ SysIdx chunks nullID length (sys.step fetch op).2 ∧
    (∀ r, (sys.step fetch op).1 = some r →
      match r with
      | .data b eof => ∃ off n, op = .read off n ∧ b = (blob.drop off).take n ∧
          (eof = true ↔ b.length < n)
      | .err => ∃ k id, fetch k id = none) := by
  obtain ⟨x1, x2, x3⟩ := hx
  obtain ⟨i1, i2⟩ := hi
  have hs : SparseSetup blob sys.s fetch := hst.setup x1 x2 x3
  cases op with
  | read off n =>
    rw [step_read]
    have h := readAt_blob_or_error hs i1 off n
    obtain ⟨a1, a2, a3⟩ := readAt_inv hs i1 off n
    refine ⟨⟨a1, fun st h' => (i2 st h').trans a3⟩,
      ⟨a2.1.trans x1, a2.2.1.trans x2, a2.2.2.trans x3⟩, ?_⟩
    intro r hr
    simp only [Option.some.injEq] at hr
    rcases hra : sys.s.readAt fetch off n with ⟨r', s'⟩
    rw [hra] at h hr
    subst hr
    cases r' with
    | data b eof => exact ⟨off, n, rfl, h.1, h.2.1⟩
    | err => exact h.2.2.2
  | saveState =>
    rw [step_save]
    refine ⟨⟨i1, ?_⟩, ⟨x1, x2, x3⟩, fun r hr => by cases hr⟩
    intro st h
    simp only [Option.some.injEq] at h
    rw [← h]
    exact DoneLe.refl _
  | restart fc dropState =>
    rw [step_restart]
    have hfl : sys.s.file.length = sys.s.length := by rw [i1.1, hs.len.1]
    obtain ⟨m, k, hform, hcut⟩ := applyFileChange_form hfl fc
    have hstate : ∀ st, (if dropState then none else sys.stateFile) = some st →
        DoneLe st sys.s.done := by
      intro st h
      cases dropState with
      | true => cases h
      | false => exact i2 st h
    rw [stateAccepted_eq_stateOK, hform]
    have hacc : stateOK sys.s.chunks sys.s.length (sys.s.file.take m ++ List.replicate k 0)
        (if dropState then none else sys.stateFile) = true → sys.s.length ≤ m := by
      intro hok
      apply hcut
      rw [hform]
      cases hstf : (if dropState then none else sys.stateFile) with
      | none => rw [hstf] at hok; cases hok
      | some st =>
        rw [hstf] at hok
        simp only [stateOK, Bool.and_eq_true, decide_eq_true_eq] at hok
        exact hok.1
    obtain ⟨a1, a2⟩ := open_inv_from_previous hs i1 m k hstate hacc none sys.s.calls
    refine ⟨⟨a1, ?_⟩, ⟨a2.1.trans x1, a2.2.1.trans x2, a2.2.2.trans x3⟩, fun r hr => by cases hr⟩
    intro st h
    dsimp only at h ⊢
    cases hok : stateOK sys.s.chunks sys.s.length (sys.s.file.take m ++ List.replicate k 0)
        (if dropState then none else sys.stateFile) with
    | false =>
      rw [hok] at h
      simp only [Bool.false_eq_true, if_false, Option.some.injEq] at h
      rw [← h]
      exact doneLe_allFalse _ _
    | true =>
      rw [hok, if_pos rfl] at h
      rw [open_done_of_ok hok, h]
      exact DoneLe.refl _

/-! ### histories -/

/-- every history from any good system state: invariant and index are kept, every read's result is
    the blob's range of the corresponding request, or an error -/
theorem sys_run_inv {blob : Bytes} {chunks : List RChunk} {nullID length : Nat} {fetch : Fetch}
    (hst : SparseStatic blob chunks nullID length fetch) (ops : List SysOp) :
    ∀ {sys : SparseSys}, SysIdx chunks nullID length sys → SysInv blob sys →
    SysInv blob (sys.run fetch ops).2 ∧ SysIdx chunks nullID length (sys.run fetch ops).2 ∧
    (∀ (j : Nat) (r : SparseRead), (sys.run fetch ops).1[j]? = some (some r) →
      match r with
      | .data b eof => ∃ off n, ops[j]? = some (.read off n) ∧ b = (blob.drop off).take n ∧
          (eof = true ↔ b.length < n)
      | .err => ∃ k id, fetch k id = none) := by
  induction ops with
  | nil =>
    intro sys hx hi
    exact ⟨hi, hx, fun j r h => by simp [SparseSys.run] at h⟩
  | cons op ops ih =>
    intro sys hx hi
    obtain ⟨a1, a2, a3⟩ := sys_step_inv hst hx hi op
    obtain ⟨b1, b2, b3⟩ := ih a2 a1
    rw [run_cons]
    refine ⟨b1, b2, ?_⟩
    intro j r hj
    cases j with
    | zero =>
      simp only [List.getElem?_cons_zero, Option.some.injEq] at hj
      have h := a3 r hj
      cases r with
      | data b eof =>
        obtain ⟨off, n, e1, e2⟩ := h
        exact ⟨off, n, by rw [e1]; rfl, e2⟩
      | err => exact h
    | succ j =>
      simp only [List.getElem?_cons_succ] at hj
      have h := b3 j r hj
      cases r with
      | data b eof => simpa only [List.getElem?_cons_succ] using h
      | err => exact h

/-- **every read in every history returns the blob's bytes or an error**; no provenance
    hypotheses: the cache file may be kept, deleted or resized and the state file kept or dropped
    between sessions, reads may fail, the state may be saved at any time -/
theorem sys_reads_blob_or_error {blob : Bytes} {chunks : List RChunk} {nullID length : Nat}
    {fetch : Fetch} (hst : SparseStatic blob chunks nullID length fetch)
    (ops : List SysOp) (_hok : ∀ op ∈ ops, SysOpOK length op) :
    ∀ (j : Nat) (r : SparseRead),
      ((SparseSys.init fetch chunks nullID length).run fetch ops).1[j]? = some (some r) →
      match r with
      | .data b eof => ∃ off n, ops[j]? = some (.read off n) ∧ b = (blob.drop off).take n ∧
          (eof = true ↔ b.length < n)
      | .err => ∃ k id, fetch k id = none := by
  obtain ⟨h1, h2⟩ := sys_init_inv hst
  exact (sys_run_inv hst ops h2 h1).2.2

end Desync
