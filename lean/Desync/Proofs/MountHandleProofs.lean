/-
  Concurrent read requests on one handle of an index mount (Model/MountHandle.lean), locked shape:
  invariant `SInv` of the step machine; every finished request returned what ONE sequential
  `fuseRead` returns from some reader state satisfying the reader invariant (`Good`), whence the
  results of `fuseRead_safe` / `fuseRead_exact` carry over to every interleaving.
-/
import Desync.Model.MountHandle
import Desync.Proofs.ReadSeekerRead

namespace Desync.MountHandle
open Desync

/-- the request's result is the result of a sequential `fuseRead` on a good reader state -/
def Good (blob : Bytes) (ip0 : IdxPos) (fetch : Fetch) (q : Req) (res : Option (Option Bytes)) : Prop :=
  ∃ ip1 c1, Inv blob ip1 ∧ SameIdx ip0 ip1 ∧ res = some (ip1.fuseRead fetch q.off q.len c1).1

/-- where request `r` can be, for the locked shape -/
def ReqInv (blob : Bytes) (ip0 : IdxPos) (fetch : Fetch) (s : St) (r : Nat) (q : Req) (st : ReqSt) : Prop :=
  (st.pc = 0 ∧ s.holder ≠ some r ∧ st.failed = false ∧ st.res = none) ∨
  (st.pc = 1 ∧ s.holder = some r ∧ st.failed = false ∧ st.res = none) ∨
  (st.pc = 2 ∧ s.holder = some r ∧ ∃ ip1, Inv blob ip1 ∧ SameIdx ip0 ip1 ∧
      ((st.failed = true ∧ st.res = some none ∧ ∃ e, ip1.seek (q.off : Int) .start = .error e) ∨
       (st.failed = false ∧ st.res = none ∧ ip1.seek (q.off : Int) .start = .ok s.ip))) ∨
  (st.pc = 3 ∧ s.holder = some r ∧ Good blob ip0 fetch q st.res) ∨
  (st.pc = 4 ∧ s.holder ≠ some r ∧ Good blob ip0 fetch q st.res)

structure SInv (blob : Bytes) (ip0 : IdxPos) (fetch : Fetch) (rq : List Req) (s : St) : Prop where
  inv : Inv blob s.ip
  same : SameIdx ip0 s.ip
  len : s.reqs.length = rq.length
  /-- the mutex is held by one of the requests -/
  hold : ∀ r1, s.holder = some r1 → ∃ q, rq[r1]? = some q
  reqs : ∀ r q st, rq[r]? = some q → s.reqs[r]? = some st → ReqInv blob ip0 fetch s r q st

theorem reqInv_other {blob : Bytes} {ip0 : IdxPos} {fetch : Fetch} {s s' : St} {r : Nat} {q : Req}
    {st : ReqSt} (h : ReqInv blob ip0 fetch s r q st) (h1 : s.holder ≠ some r)
    (h2 : s'.holder ≠ some r) : ReqInv blob ip0 fetch s' r q st := by
  rcases h with ⟨a, _, c⟩ | ⟨_, b, _⟩ | ⟨_, b, _⟩ | ⟨_, b, _⟩ | ⟨a, _, c⟩
  · exact Or.inl ⟨a, h2, c⟩
  · exact absurd b h1
  · exact absurd b h1
  · exact absurd b h1
  · exact Or.inr (Or.inr (Or.inr (Or.inr ⟨a, h2, c⟩)))

theorem init_sinv {blob : Bytes} {ip0 : IdxPos} {fetch : Fetch} (rq : List Req) (calls : Nat)
    (hi : Inv blob ip0) : SInv blob ip0 fetch rq (St.init ip0 calls rq.length) := by
  refine ⟨hi, SameIdx.refl _, by simp [St.init], by simp [St.init], ?_⟩
  intro r q st _ hst
  simp only [St.init, List.getElem?_replicate] at hst
  split at hst
  · cases hst
    exact Or.inl ⟨rfl, by simp [St.init], rfl, rfl⟩
  · cases hst

/-- after a step of `r'` that ends with the reader `ip'`, holder `hd'` and `r'` in state `st'`:
    the invariant is kept provided `r'`'s own clause holds and the other requests do not hold the
    mutex before or after -/
theorem sinv_set {blob : Bytes} {ip0 : IdxPos} {fetch : Fetch} {rq : List Req} {s : St}
    (h : SInv blob ip0 fetch rq s) {r' : Nat} {q' : Req} (hq : rq[r']? = some q')
    (ip' : IdxPos) (c' : Nat) (hd' : Option Nat) (st' : ReqSt)
    (hinv : Inv blob ip') (hsame : SameIdx ip0 ip')
    (hold : s.holder = none ∨ s.holder = some r') (hnew : hd' = none ∨ hd' = some r')
    (hown : ReqInv blob ip0 fetch { ip := ip', calls := c', holder := hd', reqs := s.reqs.set r' st' } r' q' st') :
    SInv blob ip0 fetch rq { ip := ip', calls := c', holder := hd', reqs := s.reqs.set r' st' } := by
  refine ⟨hinv, hsame, by simp [h.len], ?_, ?_⟩
  · intro r1 h1
    rcases hnew with e | e
    · rw [e] at h1; cases h1
    · rw [e] at h1; cases h1; exact ⟨q', hq⟩
  intro r q st hrq hst
  by_cases hr : r = r'
  · subst hr
    have hlt : r < s.reqs.length := by
      have := (List.getElem?_eq_some_iff.mp hst).1; simpa using this
    simp only [List.getElem?_set_self hlt] at hst
    cases hst
    rw [hq] at hrq; cases hrq
    exact hown
  · simp only [List.getElem?_set_ne (Ne.symm hr)] at hst
    have := h.reqs r q st hrq hst
    refine reqInv_other this ?_ ?_
    · rcases hold with e | e <;> rw [e] <;> simp <;> exact fun h => hr h.symm
    · show hd' ≠ some r
      rcases hnew with e | e <;> rw [e] <;> simp <;> exact fun h => hr h.symm

theorem step_sinv {blob : Bytes} {ip0 : IdxPos} {fetch : Fetch} {rq : List Req} {s s' : St}
    (hs : Setup blob ip0 fetch) (h : SInv blob ip0 fetch rq s) (r' : Nat)
    (hstep : step lockedShape fetch rq s r' = some s') : SInv blob ip0 fetch rq s' := by
  unfold step at hstep
  split at hstep
  next st q' hst hq =>
    have hown := h.reqs r' q' st hq hst
    unfold stepReq at hstep
    rcases hown with ⟨p, hh, hf, hres⟩ | ⟨p, hh, hf, hres⟩ | ⟨p, hh, ip1, i1, i2, hcase⟩ |
        ⟨p, hh, hg⟩ | ⟨p, hh, hg⟩
    · -- lock
      simp only [p, lockedShape, List.getElem?_cons_zero, hf, Bool.false_eq_true, if_false] at hstep
      split at hstep
      next hnone =>
        cases hstep
        refine sinv_set h hq s.ip s.calls (some r') _ h.inv h.same (Or.inl hnone) (Or.inr rfl) ?_
        exact Or.inr (Or.inl ⟨by simp [p], rfl, hf, hres⟩)
      next => cases hstep
    · -- seek
      simp only [p, lockedShape, List.getElem?_cons_succ, List.getElem?_cons_zero, hf,
        Bool.false_eq_true, if_false] at hstep
      split at hstep
      next ip' hseek =>
        cases hstep
        obtain ⟨k1, k2⟩ := seek_start (hs.of_same h.same) h.inv q'.off
        have hoff : q'.off ≤ blob.length :=
          Nat.le_of_not_lt (fun hc => by rw [k2 hc] at hseek; cases hseek)
        obtain ⟨ip2, e1, _, e3, e4⟩ := k1 hoff
        rw [hseek] at e1; cases e1
        refine sinv_set h hq ip' s.calls s.holder _ e3 (h.same.trans e4) (Or.inr hh) (Or.inr hh) ?_
        exact Or.inr (Or.inr (Or.inl ⟨by simp [p], hh, s.ip, h.inv, h.same,
          Or.inr ⟨hf, hres, hseek⟩⟩))
      next e hseek =>
        cases hstep
        refine sinv_set h hq s.ip s.calls s.holder _ h.inv h.same (Or.inr hh) (Or.inr hh) ?_
        exact Or.inr (Or.inr (Or.inl ⟨by simp, hh, s.ip, h.inv, h.same,
          Or.inl ⟨rfl, rfl, e, hseek⟩⟩))
    · -- read (or skipped after a failed Seek)
      rcases hcase with ⟨hf, hres, e, hseek⟩ | ⟨hf, hres, hseek⟩
      · simp only [p, lockedShape, List.getElem?_cons_succ, List.getElem?_cons_zero, hf,
          if_true] at hstep
        cases hstep
        refine sinv_set h hq s.ip s.calls s.holder _ h.inv h.same (Or.inr hh) (Or.inr hh) ?_
        refine Or.inr (Or.inr (Or.inr (Or.inl ⟨by simp [p], hh, ip1, s.calls, i1, i2, ?_⟩)))
        rw [fuseRead_err hseek]; exact hres
      · simp only [p, lockedShape, List.getElem?_cons_succ, List.getElem?_cons_zero, hf,
          Bool.false_eq_true, if_false] at hstep
        cases hstep
        have hsafe := fuseRead_safe (hs.of_same i2) i1 q'.off q'.len s.calls
        have hfr := fuseRead_ok (fetch := fetch) (n := q'.len) (calls := s.calls) hseek
        have hst2 : (ip1.fuseRead fetch q'.off q'.len s.calls).2 = (s.ip.read fetch q'.len s.calls).2 := by
          rw [hfr]; rcases s.ip.read fetch q'.len s.calls with ⟨res, a, b⟩; cases res <;> rfl
        have hst1 : (ip1.fuseRead fetch q'.off q'.len s.calls).1 = outcome (s.ip.read fetch q'.len s.calls).1 := by
          rw [hfr]; rcases s.ip.read fetch q'.len s.calls with ⟨res, a, b⟩; cases res <;> rfl
        have e1 : (s.ip.read fetch q'.len s.calls).2.1 = (ip1.fuseRead fetch q'.off q'.len s.calls).2.1 := by
          rw [hst2]
        refine sinv_set h hq _ _ s.holder _ (e1 ▸ hsafe.1) (i2.trans (e1 ▸ hsafe.2.1))
          (Or.inr hh) (Or.inr hh) ?_
        refine Or.inr (Or.inr (Or.inr (Or.inl ⟨by simp, hh, ip1, s.calls, i1, i2, ?_⟩)))
        show some (outcome _) = _
        rw [hst1]
    · -- unlock
      have hres : ∀ b : Bool, (if b = true then
            (if s.holder = some r' then some { advance s r' st with holder := none } else some (advance s r' st))
          else (if s.holder = some r' then some { advance s r' st with holder := none } else none))
          = some { advance s r' st with holder := none } := by
        intro b; cases b <;> simp [hh]
      simp only [p, lockedShape, List.getElem?_cons_succ, List.getElem?_cons_zero] at hstep
      rw [hres] at hstep
      cases hstep
      refine sinv_set h hq s.ip s.calls none _ h.inv h.same (Or.inr hh) (Or.inl rfl) ?_
      exact Or.inr (Or.inr (Or.inr (Or.inr ⟨by simp [p], by simp, hg⟩)))
    · -- finished
      simp [p, lockedShape] at hstep
  next => cases hstep

theorem run_sinv {blob : Bytes} {ip0 : IdxPos} {fetch : Fetch} {rq : List Req}
    (hs : Setup blob ip0 fetch) (sched : List Nat) :
    ∀ s, SInv blob ip0 fetch rq s → SInv blob ip0 fetch rq (runSched lockedShape fetch rq sched s) := by
  induction sched with
  | nil => intro s h; exact h
  | cons r rs ih =>
    intro s h
    simp only [runSched]
    apply ih
    cases hstep : step lockedShape fetch rq s r with
    | none => exact h
    | some s' => exact step_sinv hs h r hstep

/-- what `Good` gives: never altered bytes; the exact bytes when the store does not fail -/
theorem good_spec {blob : Bytes} {ip0 : IdxPos} {fetch : Fetch} {q : Req} {res : Option (Option Bytes)}
    (hs : Setup blob ip0 fetch) (hg : Good blob ip0 fetch q res) :
    (∃ o, res = some o) ∧
    (∀ b, res = some (some b) → q.off ≤ blob.length ∧ b = (blob.drop q.off).take q.len) ∧
    (NeverFails ip0 fetch → q.off ≤ blob.length → res = some (some ((blob.drop q.off).take q.len))) ∧
    (blob.length < q.off → res = some none) := by
  obtain ⟨ip1, c1, i1, i2, rfl⟩ := hg
  refine ⟨⟨_, rfl⟩, ?_, ?_, ?_⟩
  · intro b hb
    have := (fuseRead_safe (hs.of_same i2) i1 q.off q.len c1).2.2 b (by simpa using hb)
    exact ⟨this.1, this.2.1⟩
  · intro hnf hoff
    obtain ⟨ip', c', e, _⟩ := (fuseRead_exact (hs.of_same i2) i1 (hnf.of_same i2) q.off q.len c1).1 hoff
    rw [e]
  · intro hoff
    obtain ⟨_, k2⟩ := seek_start (hs.of_same i2) i1 q.off
    rw [fuseRead_err (k2 hoff)]

/-- every interleaving, every finished request -/
theorem concurrent_reads {blob : Bytes} {ip0 : IdxPos} {fetch : Fetch}
    (hs : Setup blob ip0 fetch) (hi : Inv blob ip0) (rq : List Req) (calls : Nat) (sched : List Nat)
    (r : Nat) (q : Req) (st : ReqSt) (hq : rq[r]? = some q)
    (hst : (runSched lockedShape fetch rq sched (St.init ip0 calls rq.length)).reqs[r]? = some st)
    (hdone : st.done lockedShape) : Good blob ip0 fetch q st.res := by
  have h := run_sinv hs sched _ (init_sinv (fetch := fetch) rq calls hi)
  rcases h.reqs r q st hq hst with ⟨p, _⟩ | ⟨p, _⟩ | ⟨p, _⟩ | ⟨p, _⟩ | ⟨_, _, hg⟩
  all_goals first | exact hg | (simp [ReqSt.done, lockedShape, p] at hdone)

/-- no deadlock: while a request has not returned, some request can move -/
theorem progress {blob : Bytes} {ip0 : IdxPos} {fetch : Fetch} {rq : List Req} {s : St}
    (h : SInv blob ip0 fetch rq s) (r : Nat) (q : Req) (st : ReqSt) (hq : rq[r]? = some q)
    (hst : s.reqs[r]? = some st) (hnd : ¬ st.done lockedShape) :
    ∃ r', (step lockedShape fetch rq s r').isSome := by
  -- either the mutex is free (then `r` itself can move: it is at `Lock` or holds nothing it waits for), or its holder can move
  have hmove : ∀ r1 q1 st1, rq[r1]? = some q1 → s.reqs[r1]? = some st1 →
      (st1.pc = 0 → s.holder = none) → st1.pc < 4 → (step lockedShape fetch rq s r1).isSome := by
    intro r1 q1 st1 hq1 hst1 hfree hlt
    unfold step; simp only [hq1, hst1]
    unfold stepReq
    rcases h.reqs r1 q1 st1 hq1 hst1 with ⟨p, _, hf, _⟩ | ⟨p, hh, hf, _⟩ | ⟨p, hh, _⟩ | ⟨p, hh, _⟩ | ⟨p, _⟩
    · simp [p, lockedShape, hf, hfree p]
    · simp only [p, lockedShape, List.getElem?_cons_succ, List.getElem?_cons_zero, hf,
        Bool.false_eq_true, if_false]
      split <;> rfl
    · simp only [p, lockedShape, List.getElem?_cons_succ, List.getElem?_cons_zero]
      split <;> rfl
    · simp only [p, lockedShape, List.getElem?_cons_succ, List.getElem?_cons_zero, hh, if_true]
      split <;> rfl
    · omega
  have hpc : st.pc < 4 := by
    rcases h.reqs r q st hq hst with ⟨p, _⟩ | ⟨p, _⟩ | ⟨p, _⟩ | ⟨p, _⟩ | ⟨p, _⟩
    all_goals first | omega | (exact absurd (by simp [ReqSt.done, lockedShape, p]) hnd)
  cases hh : s.holder with
  | none => exact ⟨r, hmove r q st hq hst (fun _ => hh) hpc⟩
  | some r1 =>
    -- the holder is a request in its critical section
    by_cases hr1 : r1 = r
    · subst hr1
      refine ⟨r1, hmove r1 q st hq hst ?_ hpc⟩
      intro p0
      rcases h.reqs r1 q st hq hst with ⟨_, hne, _⟩ | ⟨p, _⟩ | ⟨p, _⟩ | ⟨p, _⟩ | ⟨p, _⟩
      · exact absurd hh hne
      all_goals omega
    · obtain ⟨q1, hq1⟩ := h.hold r1 hh
      have hlt : r1 < s.reqs.length := by
        rw [h.len]; exact (List.getElem?_eq_some_iff.mp hq1).1
      have hst1 : s.reqs[r1]? = some s.reqs[r1] := List.getElem?_eq_getElem hlt
      refine ⟨r1, hmove r1 q1 _ hq1 hst1 ?_ ?_⟩
      all_goals
        rcases h.reqs r1 q1 _ hq1 hst1 with ⟨_, hne, _⟩ | ⟨p, _⟩ | ⟨p, _⟩ | ⟨p, _⟩ | ⟨_, hne, _⟩
        all_goals first | exact absurd hh hne | omega

/-! ### every run is finite: a move advances one program by one operation -/

def pcSum (l : List ReqSt) : Nat := (l.map (·.pc)).sum

theorem pcSum_set : ∀ (l : List ReqSt) (r : Nat) (st st' : ReqSt), l[r]? = some st →
    pcSum (l.set r st') + st.pc = pcSum l + st'.pc := by
  intro l
  induction l with
  | nil => intro r st st' h; simp at h
  | cons a l ih =>
    intro r st st' h
    cases r with
    | zero =>
      simp only [List.getElem?_cons_zero, Option.some.injEq] at h
      subst h
      simp only [pcSum, List.set_cons_zero, List.map_cons, List.sum_cons]; omega
    | succ r =>
      simp only [List.getElem?_cons_succ] at h
      have := ih r st st' h
      simp only [pcSum, List.set_cons_succ, List.map_cons, List.sum_cons] at this ⊢; omega

/-- whatever the shape: a move of a request advances its program counter by one and leaves the others -/
theorem step_pcSum {shape : Shape} {fetch : Fetch} {rq : List Req} {s s' : St} {r : Nat}
    (h : step shape fetch rq s r = some s') : pcSum s'.reqs = pcSum s.reqs + 1 := by
  unfold step at h
  split at h
  next st q hst _ =>
    have key : ∀ st1 : ReqSt, st1.pc = st.pc → pcSum (s.reqs.set r { st1 with pc := st1.pc + 1 }) = pcSum s.reqs + 1 := by
      intro st1 h1
      have := pcSum_set s.reqs r st { st1 with pc := st1.pc + 1 } hst
      simp only [h1] at this ⊢; omega
    unfold stepReq at h
    split at h
    · cases h
    · split at h
      · split at h
        · split at h <;> cases h <;> exact key st rfl
        · cases h; exact key st rfl
      · split at h
        · split at h
          · cases h; exact key st rfl
          · cases h
        · split at h
          · cases h; exact key st rfl
          · cases h
        · split at h
          · cases h; exact key st rfl
          · cases h; exact key { st with failed := true, res := some none } rfl
        · cases h; exact key { st with res := _ } rfl
  next => cases h

theorem sinv_pcSum_le {blob : Bytes} {ip0 : IdxPos} {fetch : Fetch} {rq : List Req} {s : St}
    (h : SInv blob ip0 fetch rq s) : pcSum s.reqs ≤ 4 * rq.length := by
  have hb : ∀ st ∈ s.reqs, st.pc ≤ 4 := by
    intro st hm
    obtain ⟨r, hlt, hr⟩ := List.getElem_of_mem hm
    have hst : s.reqs[r]? = some st := by rw [List.getElem?_eq_getElem hlt, hr]
    have hlt' : r < rq.length := by rw [← h.len]; exact hlt
    have hq : rq[r]? = some (rq[r]'hlt') := List.getElem?_eq_getElem hlt'
    rcases h.reqs r _ st hq hst with ⟨p, _⟩ | ⟨p, _⟩ | ⟨p, _⟩ | ⟨p, _⟩ | ⟨p, _⟩ <;> omega
  rw [← h.len]
  generalize s.reqs = l at hb
  induction l with
  | nil => simp [pcSum]
  | cons a l ih =>
    have h1 := hb a (by simp)
    have h2 := ih (fun st hm => hb st (by simp [hm]))
    simp only [pcSum, List.map_cons, List.sum_cons, List.length_cons] at h2 ⊢; omega

theorem moves_bounded {blob : Bytes} {ip0 : IdxPos} {fetch : Fetch} {rq : List Req}
    (hs : Setup blob ip0 fetch) (sched : List Nat) :
    ∀ s, SInv blob ip0 fetch rq s →
      countMoves lockedShape fetch rq sched s + pcSum s.reqs ≤ 4 * rq.length := by
  induction sched with
  | nil => intro s h; simpa [countMoves] using sinv_pcSum_le h
  | cons r rs ih =>
    intro s h
    simp only [countMoves]
    cases hstep : step lockedShape fetch rq s r with
    | none => exact ih s h
    | some s' =>
      have := ih s' (step_sinv hs h r hstep)
      have := step_pcSum hstep
      simp only; omega

/-! ### the shapes that do NOT keep Seek and Read in one critical section -/

/-- the two-chunk blob of `setup_example` -/
def exBlob : Bytes := [10, 11, 12, 13]
def exIp : IdxPos := IdxPos.new [⟨1, 0, 2⟩, ⟨2, 2, 2⟩] 4 0 8
def exFetch : Fetch := fun _ id => if id = 1 then some [10, 11] else if id = 2 then some [12, 13] else none
/-- two requests: bytes [0,2) and bytes [2,4) -/
def exReqs : List Req := [⟨0, 2⟩, ⟨2, 2⟩]

/-- request 0 seeks (locked), request 1 seeks (locked), request 0 reads (locked): with the critical
    section split in two, request 0 returns the bytes at request 1's offset, with success -/
theorem split_violates :
    ((runSched splitShape exFetch exReqs [0, 0, 0, 1, 1, 1, 0, 0, 0] (St.init exIp 0 2)).reqs[0]?.map
        (fun st => (st.pc, st.res))) = some (6, some (some [12, 13])) ∧
    (exBlob.drop 0).take 2 = [10, 11] := by decide

/-- the same with the lock around the Seek only -/
theorem seek_only_violates :
    ((runSched seekOnlyShape exFetch exReqs [0, 0, 0, 1, 1, 1, 0] (St.init exIp 0 2)).reqs[0]?.map
        (fun st => (st.pc, st.res))) = some (4, some (some [12, 13])) ∧
    (exBlob.drop 0).take 2 = [10, 11] := by decide

/-- on the same example the locked shape returns the right bytes under that schedule (and, by
    `concurrent_reads`, under every other) -/
theorem locked_example :
    ((runSched lockedShape exFetch exReqs [0, 0, 1, 0, 1, 0, 1, 1, 1, 1] (St.init exIp 0 2)).reqs.map
        (fun st => (st.pc, st.res))) = [(4, some (some [10, 11])), (4, some (some [12, 13]))] := by decide

end Desync.MountHandle
