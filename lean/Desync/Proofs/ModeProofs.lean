/-
  Proofs about `Desync.Model.Mode`: stat mode <-> Go FileMode round trips and the
  device number packing round trip.
-/
import Desync.Model.Mode
import Mathlib.Tactic.IntervalCases

namespace Desync.Mode

/-! ### small bit-level toolkit -/

/-- a single-bit mask either misses or hits -/
private theorem and_bit_cases (m k : UInt32) (i : Nat) (hk : k.toBitVec = BitVec.twoPow 32 i) :
    m &&& k = 0 ∨ m &&& k = k := by
  simp only [← UInt32.toBitVec_inj, UInt32.toBitVec_and, hk, BitVec.and_twoPow]
  by_cases h : m.toBitVec.getLsbD i <;> simp [h]

/-- the seven file types catar archives use -/
def validType (t : UInt32) : Bool :=
  t == S_IFREG || t == S_IFDIR || t == S_IFLNK || t == S_IFBLK || t == S_IFCHR || t == S_IFIFO || t == S_IFSOCK

private theorem stat_decomp (m : UInt32) (hhi : m &&& 0xffff0000 = 0) :
    m = (m &&& 0x1ff) ||| ((m &&& 0xf000) ||| ((m &&& 0x800) ||| ((m &&& 0x400) ||| (m &&& 0x200)))) := by
  simp only [← UInt32.toBitVec_inj, UInt32.toBitVec_and, UInt32.toBitVec_or, UInt32.toBitVec_ofNat] at hhi ⊢
  have h1 : m.toBitVec = m.toBitVec &&&
      (0xffff0000#32 ||| (0x1ff#32 ||| (0xf000#32 ||| (0x800#32 ||| (0x400#32 ||| 0x200#32))))) := by
    rw [show (0xffff0000#32 ||| (0x1ff#32 ||| (0xf000#32 ||| (0x800#32 ||| (0x400#32 ||| 0x200#32))))) =
      BitVec.allOnes 32 from by decide, BitVec.and_allOnes]
  rw [BitVec.and_or_distrib_left, BitVec.and_or_distrib_left, BitVec.and_or_distrib_left,
    BitVec.and_or_distrib_left, BitVec.and_or_distrib_left, hhi, BitVec.zero_or] at h1
  exact h1

set_option maxRecDepth 4000 in
/-- (1) every stat mode with a valid type nibble and any of the 12 permission/set-id/sticky bits
    survives stat → FileMode → stat unchanged -/
theorem stat_roundtrip (m : UInt32) (hhi : m &&& 0xffff0000 = 0) (ht : validType (m &&& S_IFMT) = true) :
    filemodeToStat (statToFilemode m) = m := by
  have hdec := stat_decomp m hhi
  have hu := and_bit_cases m 0x800 11 (by decide)
  have hg := and_bit_cases m 0x400 10 (by decide)
  have hv := and_bit_cases m 0x200 9 (by decide)
  simp only [validType, S_IFMT, S_IFBLK, S_IFCHR, S_IFDIR, S_IFIFO, S_IFLNK, S_IFSOCK, S_IFREG,
    Bool.or_eq_true, beq_iff_eq] at ht
  refine Eq.trans ?_ hdec.symm
  rcases ht with ((((((ht | ht) | ht) | ht) | ht) | ht) | ht) <;>
  rcases hu with hu | hu <;> rcases hg with hg | hg <;> rcases hv with hv | hv <;>
  · simp [statToFilemode, S_IFMT, S_IFBLK, S_IFCHR, S_IFDIR, S_IFIFO, S_IFLNK, S_IFSOCK,
      S_ISUID, S_ISGID, S_ISVTX, ModeDir, ModeSymlink, ModeDevice, ModeNamedPipe, ModeSocket, ModeSetuid,
      ModeSetgid, ModeCharDevice, ModeSticky, ht, hu, hg, hv]
    simp only [filemodeToStat, ModeDir, ModeSymlink, ModeDevice, ModeNamedPipe, ModeSocket, ModeSetuid,
      ModeSetgid, ModeCharDevice, ModeSticky, ModeIrregular, ModeType, S_IFBLK, S_IFCHR, S_IFDIR,
      S_IFIFO, S_IFLNK, S_IFSOCK, S_IFREG, S_ISUID, S_ISGID, S_ISVTX,
      ← UInt32.toBitVec_inj, UInt32.toBitVec_and, UInt32.toBitVec_or, UInt32.toBitVec_ofNat, ne_eq,
      BitVec.and_or_distrib_right, BitVec.and_assoc, BitVec.or_assoc, BitVec.reduceAnd, BitVec.reduceOr,
      BitVec.reduceEq, BitVec.and_zero, BitVec.zero_or, BitVec.or_zero, if_true, if_false, not_true,
      not_false_eq_true]

/-- the seven Go type-bit combinations `filemodeToStat` distinguishes -/
def validGoType (t : UInt32) : Bool :=
  t == 0 || t == ModeDir || t == ModeSymlink || t == ModeDevice || t == (ModeDevice ||| ModeCharDevice) ||
  t == ModeNamedPipe || t == ModeSocket

private theorem modeType_eq : ModeType = 0x8f280000 := by decide
private theorem devChar_lit : (0x4000000 ||| 0x200000 : UInt32) = 0x4200000 := by decide

private theorem filemode_decomp (fm : UInt32)
    (hbits : fm &&& (~~~ (0x1ff ||| ModeType ||| ModeSetuid ||| ModeSetgid ||| ModeSticky)) = 0) :
    fm = (fm &&& 0x1ff) ||| ((fm &&& 0x8f280000) ||| ((fm &&& 0x800000) ||| ((fm &&& 0x400000) |||
      (fm &&& 0x100000)))) := by
  rw [show (~~~ (0x1ff ||| ModeType ||| ModeSetuid ||| ModeSetgid ||| ModeSticky) : UInt32) = 0x7007fe00
    from by decide] at hbits
  simp only [← UInt32.toBitVec_inj, UInt32.toBitVec_and, UInt32.toBitVec_or, UInt32.toBitVec_ofNat] at hbits ⊢
  have h1 : fm.toBitVec = fm.toBitVec &&&
      (0x7007fe00#32 ||| (0x1ff#32 ||| (0x8f280000#32 ||| (0x800000#32 ||| (0x400000#32 ||| 0x100000#32))))) := by
    rw [show (0x7007fe00#32 ||| (0x1ff#32 ||| (0x8f280000#32 ||| (0x800000#32 ||| (0x400000#32 ||| 0x100000#32))))) =
      BitVec.allOnes 32 from by decide, BitVec.and_allOnes]
  rw [BitVec.and_or_distrib_left, BitVec.and_or_distrib_left, BitVec.and_or_distrib_left,
    BitVec.and_or_distrib_left, BitVec.and_or_distrib_left, hbits, BitVec.zero_or] at h1
  exact h1

set_option maxRecDepth 4000 in
/-- (2) every Go FileMode built from permission bits, set-id/sticky flags and one of the seven type
    combinations survives FileMode → stat → FileMode -/
theorem filemode_roundtrip (fm : UInt32)
    (hbits : fm &&& (~~~ (0x1ff ||| ModeType ||| ModeSetuid ||| ModeSetgid ||| ModeSticky)) = 0)
    (ht : validGoType (fm &&& ModeType) = true) :
    statToFilemode (filemodeToStat fm) = fm := by
  have hdec := filemode_decomp fm hbits
  have hu := and_bit_cases fm 0x800000 23 (by decide)
  have hg := and_bit_cases fm 0x400000 22 (by decide)
  have hv := and_bit_cases fm 0x100000 20 (by decide)
  simp only [validGoType, modeType_eq, ModeDir, ModeSymlink, ModeDevice, ModeCharDevice, ModeNamedPipe,
    ModeSocket, devChar_lit, Bool.or_eq_true, beq_iff_eq] at ht
  refine Eq.trans ?_ hdec.symm
  rcases ht with ((((((ht | ht) | ht) | ht) | ht) | ht) | ht) <;>
  rcases hu with hu | hu <;> rcases hg with hg | hg <;> rcases hv with hv | hv <;>
  · simp [filemodeToStat, modeType_eq, devChar_lit, S_IFBLK, S_IFCHR, S_IFDIR, S_IFIFO, S_IFLNK, S_IFSOCK,
      S_IFREG, S_ISUID, S_ISGID, S_ISVTX, ModeDir, ModeSymlink, ModeDevice, ModeCharDevice, ModeNamedPipe, ModeSocket,
      ModeSetuid, ModeSetgid, ModeSticky, ht, hu, hg, hv]
    simp only [statToFilemode, ModeDir, ModeSymlink, ModeDevice, ModeNamedPipe, ModeSocket, ModeSetuid,
      ModeSetgid, ModeCharDevice, ModeSticky, S_IFMT, S_IFBLK, S_IFCHR, S_IFDIR,
      S_IFIFO, S_IFLNK, S_IFSOCK, S_ISUID, S_ISGID, S_ISVTX,
      ← UInt32.toBitVec_inj, UInt32.toBitVec_and, UInt32.toBitVec_or, UInt32.toBitVec_ofNat, ne_eq,
      BitVec.and_or_distrib_right, BitVec.and_assoc, BitVec.or_assoc, BitVec.reduceAnd, BitVec.reduceOr,
      BitVec.reduceEq, BitVec.and_zero, BitVec.zero_or, BitVec.or_zero, if_true, if_false, not_true,
      not_false_eq_true]

/-! ### device numbers -/

set_option linter.deprecated false in
/-- `rdev % 256` in the model elaborates to `UInt64 % Nat` (`UInt64.modn`); it is the low-byte mask -/
private theorem u64_modn_256 (x : UInt64) : (x % (256 : Nat)).toBitVec = x.toBitVec &&& 255#64 := by
  apply BitVec.eq_of_toNat_eq
  rw [BitVec.toNat_and]
  have : (x % (256 : Nat)).toBitVec.toNat = x.toBitVec.toNat % 256 := by
    show (UInt64.modn x 256).toBitVec.toNat = _
    unfold UInt64.modn
    simp
    omega
  rw [this]
  exact (Nat.and_two_pow_sub_one_eq_mod x.toBitVec.toNat 8).symm

private theorem bv_eq_and_mask (x : BitVec 64) (n : Nat) (hn : n ≤ 64) (h : x.toNat < 2 ^ n) :
    x = x &&& BitVec.ofNat 64 (2 ^ n - 1) := by
  apply BitVec.eq_of_toNat_eq
  have h64 : 2 ^ n - 1 < 2 ^ 64 :=
    Nat.lt_of_lt_of_le (Nat.sub_lt (Nat.two_pow_pos n) Nat.one_pos) (Nat.pow_le_pow_right (by decide) hn)
  rw [BitVec.toNat_and, BitVec.toNat_ofNat, Nat.mod_eq_of_lt h64,
    Nat.and_two_pow_sub_one_of_lt_two_pow h]

/-- the packing/unpacking identity as a pure bit-vector identity on masked inputs -/
private theorem dev_bv (M N : BitVec 64) :
    let major := M &&& 0xfff#64
    let minor := N &&& 0xfffff#64
    let d := ((major &&& 0x00000fff#64) <<< 8) ||| ((major &&& 0xfffff000#64) <<< 32) |||
      ((minor &&& 0x000000ff#64) <<< 0) ||| ((minor &&& 0xffffff00#64) <<< 12)
    ((d >>> 8) &&& 0xfff#64 = major) ∧ ((d &&& 255#64) ||| ((d &&& 0xfff00000#64) >>> 12) = minor) := by
  intro major minor d
  constructor
  · ext i hi
    simp only [d, major, minor, BitVec.getElem_and, BitVec.getElem_ushiftRight,
      BitVec.getLsbD_and, BitVec.getLsbD_or, BitVec.getLsbD_shiftLeft]
    interval_cases i <;> simp
  · ext i hi
    simp only [d, major, minor, BitVec.getElem_and, BitVec.getElem_or, BitVec.getElem_shiftLeft,
      BitVec.getElem_ushiftRight, BitVec.getLsbD_and, BitVec.getLsbD_or, BitVec.getLsbD_shiftLeft]
    interval_cases i <;> simp

/-- (3) device numbers: for major < 2^12 and minor < 2^20 packing and unpacking is the identity -/
theorem dev_roundtrip (major minor : UInt64) (hma : major < 4096) (hmi : minor < 1048576) :
    rdevMajor (mkdev major minor) = major ∧ rdevMinor (mkdev major minor) = minor := by
  have hM : major.toBitVec = major.toBitVec &&& 0xfff#64 :=
    bv_eq_and_mask major.toBitVec 12 (by decide) (UInt64.lt_iff_toNat_lt.mp hma)
  have hN : minor.toBitVec = minor.toBitVec &&& 0xfffff#64 :=
    bv_eq_and_mask minor.toBitVec 20 (by decide) (UInt64.lt_iff_toNat_lt.mp hmi)
  have h := dev_bv major.toBitVec minor.toBitVec
  simp only [rdevMajor, rdevMinor, mkdev, ← UInt64.toBitVec_inj, UInt64.toBitVec_and, UInt64.toBitVec_or,
    UInt64.toBitVec_shiftLeft, UInt64.toBitVec_shiftRight, UInt64.toBitVec_ofNat, u64_modn_256,
    BitVec.reduceMod, BitVec.shiftLeft_eq', BitVec.ushiftRight_eq', BitVec.reduceToNat]
  rw [hM, hN]
  exact h

/-- (4) negative: outside that range the read side drops bits -/
theorem dev_roundtrip_fails_outside : ∃ major minor : UInt64, rdevMajor (mkdev major minor) ≠ major :=
  ⟨4096, 0, by decide⟩

end Desync.Mode
