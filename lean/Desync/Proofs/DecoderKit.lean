/-
  A small relational kit for syntax-directed proofs about the decoders:

  * `RExt q r₁ r₂` : if `r₁` succeeds then `r₂` succeeds with the same value and the same
    state extended by `q` ("more input does not change a successful parse");
  * `NoPanic r`    : `r` is not a panic outcome.

  Both come with rules for `bind`, `if`, `pure`, the primitive readers and the two loops of
  the format decoder, so that statements about `decBody`/`decNext` are proved by walking
  the definition once.
-/
import Desync.Proofs.FormatLemmas

namespace Desync

/-! ## RExt -/

def RExt {α : Type} (q : Bytes) (r₁ r₂ : Res (α × St)) : Prop :=
  ∀ x s', r₁ = .ok (x, s') → r₂ = .ok (x, s'.app q)

namespace RExt
variable {α β : Type} {q : Bytes}

theorem err (e : Err) (r : Res (α × St)) : RExt q (.err e) r := by
  intro x s' h; cases h

theorem pure' (x : α) (s : St) : RExt q (Res.ok (x, s)) (Res.ok (x, s.app q)) := by
  intro y s' h; cases h; rfl

theorem pure (x : α) (s : St) :
    RExt q (Pure.pure (x, s) : Res (α × St)) (Pure.pure (x, s.app q)) := pure' x s

theorem bind {r₁ r₂ : Res (α × St)} {f g : α × St → Res (β × St)}
    (h₁ : RExt q r₁ r₂) (h₂ : ∀ x s, RExt q (f (x, s)) (g (x, s.app q))) :
    RExt q (r₁ >>= f) (r₂ >>= g) := by
  intro y s' h
  cases r₁ with
  | ok a =>
    obtain ⟨x, s⟩ := a
    rw [h₁ x s rfl]
    exact h₂ x s y s' h
  | err e => cases h
  | panic p => cases h

theorem ite {c : Prop} [Decidable c] {a b a' b' : Res (α × St)}
    (h₁ : RExt q a a') (h₂ : RExt q b b') :
    RExt q (if c then a else b) (if c then a' else b') := by
  split <;> assumption

theorem readU64 (s : St) : RExt q (Desync.readU64 s) (Desync.readU64 (s.app q)) := by
  intro v s' h; exact readU64_app q h

theorem readN (n : Nat) (s : St) : RExt q (Desync.readN n s) (Desync.readN n (s.app q)) := by
  intro v s' h; exact readN_app q h

end RExt

/-! ## NoPanic -/

def NoPanic {α : Type} (r : Res α) : Prop := ∀ p, r ≠ .panic p

namespace NoPanic
variable {α β : Type}

theorem ok (a : α) : NoPanic (Res.ok a) := by intro p h; cases h
theorem pure (a : α) : NoPanic (Pure.pure a : Res α) := ok a
theorem err (e : Err) : NoPanic (Res.err e : Res α) := by intro p h; cases h

theorem bind {r : Res α} {f : α → Res β} (h₁ : NoPanic r) (h₂ : ∀ a, r = .ok a → NoPanic (f a)) :
    NoPanic (r >>= f) := by
  intro p h
  cases r with
  | ok a => exact h₂ a rfl p h
  | err e => cases h
  | panic s => exact h₁ s rfl

theorem ite {c : Prop} [Decidable c] {a b : Res α} (h₁ : c → NoPanic a) (h₂ : ¬c → NoPanic b) :
    NoPanic (if c then a else b) := by
  split
  · exact h₁ ‹_›
  · exact h₂ ‹_›

theorem readU64 (s : St) : NoPanic (Desync.readU64 s) := readU64_not_panic s
theorem readN (n : Nat) (s : St) : NoPanic (Desync.readN n s) := readN_not_panic n s

end NoPanic

end Desync
