/-
  ReadSeeker proofs, part 1: tilings (`TilesFrom`), `searchChunk` on a tiling, slices of the blob.
-/
import Desync.Model.ReadSeeker

namespace Desync

/-- the index describes a blob: chunks are consecutive from `st`, each non-empty -/
def TilesFrom : Nat → List RChunk → Prop
  | _, [] => True
  | st, c :: cs => c.start = st ∧ 0 < c.size ∧ TilesFrom (st + c.size) cs

/-- end offset of a tiling that starts at `st` -/
def endOf : Nat → List RChunk → Nat
  | st, [] => st
  | st, c :: cs => endOf (st + c.size) cs

/-- the bytes of the blob that chunk `c` covers -/
def slice (blob : Bytes) (c : RChunk) : Bytes := (blob.drop c.start).take c.size

theorem endOf_ge (st : Nat) (cs : List RChunk) : st ≤ endOf st cs := by
  induction cs generalizing st with
  | nil => simp [endOf]
  | cons c cs ih =>
    have := ih (st + c.size)
    simp only [endOf]; omega

/-- position facts about the `i`-th chunk of a tiling -/
theorem tiles_get {st : Nat} {cs : List RChunk} {i : Nat} {c : RChunk}
    (ht : TilesFrom st cs) (hc : cs[i]? = some c) :
    st ≤ c.start ∧ 0 < c.size ∧ c.start + c.size ≤ endOf st cs ∧
    (i + 1 = cs.length → c.start + c.size = endOf st cs) ∧
    (i + 1 < cs.length → c.start + c.size < endOf st cs) := by
  induction cs generalizing st i with
  | nil => simp at hc
  | cons d ds ih =>
    obtain ⟨h1, h2, h3⟩ := ht
    cases i with
    | zero =>
      simp at hc; subst hc
      have hge := endOf_ge (st + d.size) ds
      refine ⟨by omega, h2, by simpa [endOf] using (by omega), ?_, ?_⟩
      · intro hl
        have : ds = [] := by
          cases ds with
          | nil => rfl
          | cons _ _ => simp at hl
        subst this; simp [endOf]; omega
      · intro hl
        cases ds with
        | nil => simp at hl
        | cons e es =>
          obtain ⟨g1, g2, _⟩ := h3
          have := endOf_ge (st + d.size + e.size) es
          simp only [endOf]; omega
    | succ j =>
      simp only [List.getElem?_cons_succ] at hc
      obtain ⟨a1, a2, a3, a4, a5⟩ := ih h3 hc
      refine ⟨by omega, a2, by simpa [endOf] using a3, ?_, ?_⟩
      · intro hl; simp only [List.length_cons] at hl
        simpa [endOf] using a4 (by omega)
      · intro hl; simp only [List.length_cons] at hl
        simpa [endOf] using a5 (by omega)

/-- `searchChunk` finds the chunk that contains `p` -/
theorem searchChunk_lt {st : Nat} {cs : List RChunk} {p : Nat}
    (ht : TilesFrom st cs) (h1 : st ≤ p) (h2 : p < endOf st cs) :
    ∃ c, cs[searchChunk p cs]? = some c ∧ c.start ≤ p ∧ p < c.start + c.size := by
  induction cs generalizing st with
  | nil => simp [endOf] at h2; omega
  | cons d ds ih =>
    obtain ⟨g1, g2, g3⟩ := ht
    simp only [searchChunk]
    by_cases hp : p < d.start + d.size
    · simp only [hp, if_true]
      exact ⟨d, by simp, by omega, hp⟩
    · simp only [hp, if_false]
      simp only [endOf] at h2
      obtain ⟨c, hc1, hc2, hc3⟩ := ih g3 (by omega) h2
      exact ⟨c, by simpa using hc1, hc2, hc3⟩

/-- past the end `searchChunk` returns `len` -/
theorem searchChunk_ge {st : Nat} {cs : List RChunk} {p : Nat}
    (ht : TilesFrom st cs) (h : endOf st cs ≤ p) : searchChunk p cs = cs.length := by
  induction cs generalizing st with
  | nil => rfl
  | cons d ds ih =>
    obtain ⟨g1, g2, g3⟩ := ht
    simp only [endOf] at h
    have := endOf_ge (st + d.size) ds
    have hp : ¬ p < d.start + d.size := by omega
    simp only [searchChunk, hp, if_false, List.length_cons, ih g3 h]

/-- the chunk containing `p` is unique: `searchChunk` returns exactly its index -/
theorem searchChunk_unique {st : Nat} {cs : List RChunk} {p i : Nat} {c : RChunk}
    (ht : TilesFrom st cs) (hc : cs[i]? = some c) (h1 : c.start ≤ p) (h2 : p < c.start + c.size) :
    searchChunk p cs = i := by
  induction cs generalizing st i with
  | nil => simp at hc
  | cons d ds ih =>
    obtain ⟨g1, g2, g3⟩ := ht
    cases i with
    | zero => simp at hc; subst hc; simp [searchChunk, h2]
    | succ j =>
      simp only [List.getElem?_cons_succ] at hc
      have := (tiles_get g3 hc).1
      have hp : ¬ p < d.start + d.size := by omega
      simp only [searchChunk, hp, if_false, ih g3 hc]

/-! ### slices -/

theorem slice_length {blob : Bytes} {c : RChunk} (h : c.start + c.size ≤ blob.length) :
    (slice blob c).length = c.size := by
  simp only [slice, List.length_take, List.length_drop]; omega

/-- what remains of a chunk's data from offset `off` is the blob from `start + off` -/
theorem slice_drop (blob : Bytes) (c : RChunk) (off : Nat) :
    (slice blob c).drop off = (blob.drop (c.start + off)).take (c.size - off) := by
  simp only [slice, List.drop_take, List.drop_drop]

theorem take_drop_append (blob : Bytes) (p k m : Nat) :
    (blob.drop p).take k ++ (blob.drop (p + k)).take m = (blob.drop p).take (k + m) := by
  rw [List.take_add, List.drop_drop]

end Desync
