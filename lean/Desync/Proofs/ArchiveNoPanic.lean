/-
  (A) The archive decoder, `UnTar` and `ReadMessage` never panic.
-/
import Desync.Model.Archive
import Desync.Model.Protocol
import Desync.Proofs.FormatProofs

namespace Desync

theorem takePayload_nopanic (n : Nat) (s : St) : NoPanic (takePayload n s) := by
  unfold takePayload
  apply NoPanic.ite <;> intro _
  · exact NoPanic.ok _
  · exact NoPanic.err _

theorem archLoop_nopanic (fuel : Nat) (a : ArchDec) (p : Pending) : NoPanic (archLoop fuel a p) := by
  induction fuel generalizing a p with
  | zero => unfold archLoop; exact NoPanic.err _
  | succ fuel ih =>
    unfold archLoop
    apply NoPanic.bind
    · split
      · exact NoPanic.pure _
      · apply NoPanic.bind (decNext_nopanic _)
        intro ⟨e, s⟩ _
        exact NoPanic.pure _
    · intro ⟨c, a1⟩ _
      dsimp only
      split
      all_goals
        repeat' (first
          | exact NoPanic.err _
          | exact NoPanic.pure _
          | exact NoPanic.ok _
          | exact ih _ _
          | (apply NoPanic.ite <;> intro _)
          | (apply NoPanic.bind (takePayload_nopanic _ _); intro ⟨_, _⟩ _; dsimp only)
          | split)

theorem ArchDec.next_nopanic (a : ArchDec) : NoPanic a.next := archLoop_nopanic _ _ _

theorem untarNodes_nopanic (fuel : Nat) (a : ArchDec) (acc : List Node) :
    NoPanic (untarNodes fuel a acc) := by
  induction fuel generalizing a acc with
  | zero => unfold untarNodes; exact NoPanic.err _
  | succ fuel ih =>
    unfold untarNodes
    apply NoPanic.bind (ArchDec.next_nopanic _)
    intro ⟨n, a1⟩ _
    dsimp only
    split
    · exact NoPanic.pure _
    · exact ih _ _

theorem untar_nopanic (b : Bytes) : NoPanic (untar b) := untarNodes_nopanic _ _ _

theorem readMessage_nopanic (s : St) : NoPanic (readMessage s) := by
  unfold readMessage
  apply NoPanic.bind (NoPanic.readU64 _)
  intro ⟨len, s1⟩ _
  dsimp only
  apply NoPanic.ite <;> intro hlen
  · exact NoPanic.err _
  · apply NoPanic.bind (NoPanic.readN _ _)
    intro ⟨b, s2⟩ hb
    dsimp only
    obtain ⟨_, hl, _⟩ := readN_ok hb
    apply NoPanic.ite <;> intro h8
    · exfalso
      have : ¬ len.toNat < 16 := by simpa [UInt64.lt_iff_toNat_lt] using hlen
      omega
    · exact NoPanic.pure _

end Desync
