/-
  (C) Confinement of the names handed to the filesystem writer.
-/
import Desync.Model.Archive
import Desync.Proofs.FormatProofs

namespace Desync

/-- a relative path made of one or more valid single components joined by '/' -/
def ValidPath (p : Bytes) : Prop :=
  ∃ comps : List Bytes, comps ≠ [] ∧ (∀ c ∈ comps, validName c = true) ∧
    p = List.intercalate [slash] comps

def Confined (p : Bytes) : Prop := p = [dot] ∨ ValidPath p

def Node.name : Node → Bytes
  | .dir n _ => n | .file n _ _ _ => n | .device n _ _ _ => n | .symlink n _ _ => n

/-! ### `List.intercalate` -/

theorem intercalate_singleton {α} (sep a : List α) : List.intercalate sep [a] = a := by
  simp [List.intercalate]

theorem intercalate_cons_cons {α} (sep a b : List α) (r : List (List α)) :
    List.intercalate sep (a :: b :: r) = a ++ sep ++ List.intercalate sep (b :: r) := by
  simp [List.intercalate]

theorem intercalate_snoc {α} (sep : List α) (cs : List (List α)) (c : List α) (h : cs ≠ []) :
    List.intercalate sep (cs ++ [c]) = List.intercalate sep cs ++ sep ++ c := by
  induction cs with
  | nil => exact absurd rfl h
  | cons a r ih =>
    cases r with
    | nil => simp [List.intercalate]
    | cons b r =>
      have := ih (by simp)
      rw [List.cons_append, List.cons_append, intercalate_cons_cons, ← List.cons_append, this,
        intercalate_cons_cons]
      simp

theorem intercalate_ne_nil {α} (sep : List α) (cs : List (List α)) (h : cs ≠ [])
    (hc : ∀ c ∈ cs, c ≠ []) : List.intercalate sep cs ≠ [] := by
  cases cs with
  | nil => exact absurd rfl h
  | cons a r =>
    have ha : a ≠ [] := hc a (by simp)
    cases r with
    | nil => simpa [intercalate_singleton] using ha
    | cons b r => rw [intercalate_cons_cons]; simp [ha]

/-! ### valid names -/

theorem validName_ne_nil_ac {n : Bytes} (h : validName n = true) : n ≠ [] := by
  intro hn; subst hn; simp [validName] at h

theorem validName_no_slash {n : Bytes} (h : validName n = true) : slash ∉ n := by
  unfold validName at h
  simp at h
  exact h.1.2

theorem dropWhile_append_all {α} (q : α → Bool) (l₁ l₂ : List α) (h : ∀ x ∈ l₁, q x = true) :
    (l₁ ++ l₂).dropWhile q = l₂.dropWhile q := by
  induction l₁ with
  | nil => rfl
  | cons a r ih =>
    have ha := h a (by simp)
    simp only [List.cons_append, List.dropWhile_cons, ha, ↓reduceIte]
    exact ih (fun x hx => h x (by simp [hx]))

theorem dropWhile_all {α} (q : α → Bool) (l : List α) (h : ∀ x ∈ l, q x = true) :
    l.dropWhile q = [] := by
  have := dropWhile_append_all q l [] h
  simpa using this

/-! ### `joinPath` and `dirOf` preserve confinement -/

theorem ValidPath.single {n : Bytes} (h : validName n = true) : ValidPath n :=
  ⟨[n], by simp, by simpa using h, (intercalate_singleton _ _).symm⟩

theorem joinPath_confined {dir name : Bytes} (hd : Confined dir)
    (hn : name = [] ∨ validName name = true) : Confined (joinPath dir name) := by
  unfold joinPath
  split
  · exact hd
  · rename_i hne
    have hv : validName name = true := hn.resolve_left hne
    split
    · exact .inr (ValidPath.single hv)
    · rename_i hdot
      obtain ⟨comps, hc, hall, rfl⟩ := hd.resolve_left hdot
      refine .inr ⟨comps ++ [name], by simp, ?_, ?_⟩
      · intro c hcm
        rcases List.mem_append.1 hcm with h | h
        · exact hall c h
        · simp at h; subst h; exact hv
      · rw [intercalate_snoc _ _ _ hc]

theorem dirOf_dot : dirOf [dot] = [dot] := by decide

theorem dirOf_no_slash {c : Bytes} (h : slash ∉ c) : dirOf c = [dot] := by
  unfold dirOf
  rw [dropWhile_all]
  intro x hx
  have : x ≠ slash := by
    intro hxs; subst hxs; exact h (List.mem_reverse.1 hx)
  simpa using this

/-- the crux: `dirOf` drops the last component -/
theorem dirOf_snoc {d c : Bytes} (hd : d ≠ []) (hc : slash ∉ c) :
    dirOf (d ++ [slash] ++ c) = d := by
  unfold dirOf
  have hrev : (d ++ [slash] ++ c).reverse = c.reverse ++ (slash :: d.reverse) := by simp
  rw [hrev, dropWhile_append_all]
  · have : (slash :: d.reverse).dropWhile (fun x => decide (x ≠ slash)) = slash :: d.reverse := by
      simp
    rw [this]
    simp [hd]
  · intro x hx
    have : x ≠ slash := by
      intro hxs; subst hxs; exact hc (List.mem_reverse.1 hx)
    simpa using this

theorem dirOf_confined {p : Bytes} (hp : Confined p) : Confined (dirOf p) := by
  rcases hp with rfl | ⟨comps, hne, hall, rfl⟩
  · rw [dirOf_dot]; exact .inl rfl
  · obtain ⟨cs, c, rfl⟩ : ∃ cs c, comps = cs ++ [c] :=
      ⟨comps.dropLast, comps.getLast hne, (List.dropLast_concat_getLast hne).symm⟩
    have hcv : validName c = true := hall c (by simp)
    by_cases hcs : cs = []
    · subst hcs
      simp only [List.nil_append, intercalate_singleton]
      rw [dirOf_no_slash (validName_no_slash hcv)]
      exact .inl rfl
    · rw [intercalate_snoc _ _ _ hcs]
      have hall' : ∀ c ∈ cs, validName c = true := fun x hx => hall x (by simp [hx])
      rw [dirOf_snoc (intercalate_ne_nil _ _ hcs (fun x hx => validName_ne_nil_ac (hall' x hx)))
        (validName_no_slash hcv)]
      exact .inr ⟨cs, hcs, hall', rfl⟩

/-! ### the decoder loop -/

theorem Res.bind_eq_ok {α β} {r : Res α} {f : α → Res β} {y : β} (h : (r >>= f) = .ok y) :
    ∃ x, r = .ok x ∧ f x = .ok y := by
  cases r with
  | ok a => exact ⟨a, rfl, h⟩
  | err e => cases h
  | panic p => cases h

/-- the filename check of `Next` only touches the counters -/
theorem ArchDec.admit_eq_some {a a2 : ArchDec} {name : Bytes} {isDir : Bool}
    (h : a.admit name isDir = some a2) :
    ¬ (0 < a.nodes ∧ (name = [] ∨ a.rootNotDir = true)) ∧
    a2 = { a with nodes := a.nodes + 1,
                  rootNotDir := if a.nodes = 0 && name = [] && !isDir then true else a.rootNotDir } := by
  unfold ArchDec.admit at h
  split at h
  · cases h
  · rename_i hc
    cases h
    refine ⟨?_, rfl⟩
    intro hh
    apply hc
    simpa using hh

theorem ArchDec.admit_dir {a a2 : ArchDec} {name : Bytes} {isDir : Bool}
    (h : a.admit name isDir = some a2) : a2.dir = a.dir := by
  rw [(ArchDec.admit_eq_some h).2]

theorem ArchDec.admit_st {a a2 : ArchDec} {name : Bytes} {isDir : Bool}
    (h : a.admit name isDir = some a2) : a2.st = a.st := by
  rw [(ArchDec.admit_eq_some h).2]

theorem ArchDec.admit_last {a a2 : ArchDec} {name : Bytes} {isDir : Bool}
    (h : a.admit name isDir = some a2) : a2.last = a.last := by
  rw [(ArchDec.admit_eq_some h).2]

theorem ArchDec.admit_skip {a a2 : ArchDec} {name : Bytes} {isDir : Bool}
    (h : a.admit name isDir = some a2) : a2.skip = a.skip := by
  rw [(ArchDec.admit_eq_some h).2]

theorem ArchDec.admit_nodes {a a2 : ArchDec} {name : Bytes} {isDir : Bool}
    (h : a.admit name isDir = some a2) : a2.nodes = a.nodes + 1 := by
  rw [(ArchDec.admit_eq_some h).2]

/-- general form of the invariant: whatever the loop returns, a returned node has a confined
    name and the decoder's directory stays confined -/
theorem archLoop_confined' (fuel : Nat) (a : ArchDec) (p : Pending) (o : Option Node) (a' : ArchDec)
    (hdir : Confined a.dir) (hname : p.name = [] ∨ validName p.name = true)
    (h : archLoop fuel a p = .ok (o, a')) :
    (∀ n, o = some n → Confined n.name) ∧ Confined a'.dir := by
  induction fuel generalizing a p with
  | zero => unfold archLoop at h; cases h
  | succ fuel ih =>
    unfold archLoop at h
    obtain ⟨⟨c, a1⟩, h1, h2⟩ := Res.bind_eq_ok h
    clear h
    have hd1 : a1.dir = a.dir := by
      split at h1
      · cases h1; rfl
      · obtain ⟨⟨e, s⟩, _, h12⟩ := Res.bind_eq_ok h1
        cases h12; rfl
    clear h1
    rw [← hd1] at hdir
    clear hd1
    dsimp only at h2
    have hj := joinPath_confined hdir hname
    split at h2
    all_goals (repeat' (split at h2))
    all_goals (try (cases h2; done))
    all_goals first
      | exact ih _ _ hdir hname h2
      | (refine ih _ _ hdir ?_ h2; exact hname)
      | exact ih _ _ (dirOf_confined hdir) hname h2
      | (refine ih _ _ hdir (.inr ?_) h2
         rename_i hv
         simpa using hv)
      | (have hadm := ArchDec.admit_dir ‹ArchDec.admit _ _ _ = some _›
         obtain ⟨⟨data, s⟩, _, h3⟩ := Res.bind_eq_ok h2
         cases h3
         refine ⟨fun n hn => by cases hn; show Confined (joinPath _ _); rw [hadm]; exact hj, ?_⟩
         show Confined (ArchDec.dir _)
         rw [hadm]; exact hdir)
      | (have hadm := ArchDec.admit_dir ‹ArchDec.admit _ _ _ = some _›
         cases h2
         refine ⟨fun n hn => by cases hn; show Confined (joinPath _ _); rw [hadm]; exact hj, ?_⟩
         first
           | (show Confined (joinPath _ _); rw [hadm]; exact hj)
           | (rw [hadm]; exact hdir))
      | (cases h2
         exact ⟨fun n hn => (by cases hn), hdir⟩)

/-- invariant: the decoder's current directory is always Confined; every node it returns has a
    Confined name -/
theorem archLoop_confined (fuel : Nat) (a : ArchDec) (p : Pending) (n : Node) (a' : ArchDec)
    (hdir : Confined a.dir) (hname : p.name = [] ∨ validName p.name = true)
    (h : archLoop fuel a p = .ok (some n, a')) : Confined n.name ∧ Confined a'.dir :=
  let ⟨h1, h2⟩ := archLoop_confined' fuel a p (some n) a' hdir hname h
  ⟨h1 n rfl, h2⟩

/-- the end-of-archive case: the directory stays confined -/
theorem archLoop_confined_none (fuel : Nat) (a : ArchDec) (p : Pending) (a' : ArchDec)
    (hdir : Confined a.dir) (hname : p.name = [] ∨ validName p.name = true)
    (h : archLoop fuel a p = .ok (none, a')) : Confined a'.dir :=
  (archLoop_confined' fuel a p none a' hdir hname h).2

theorem ArchDec.next_confined (a : ArchDec) (o : Option Node) (a' : ArchDec)
    (hdir : Confined a.dir) (h : a.next = .ok (o, a')) :
    (∀ n, o = some n → Confined n.name) ∧ Confined a'.dir :=
  archLoop_confined' _ a {} o a' hdir (.inl rfl) h

theorem untarNodes_confined (fuel : Nat) (a : ArchDec) (acc nodes : List Node)
    (hdir : Confined a.dir) (hacc : ∀ n ∈ acc, Confined n.name)
    (h : untarNodes fuel a acc = .ok nodes) : ∀ n ∈ nodes, Confined n.name := by
  induction fuel generalizing a acc with
  | zero => unfold untarNodes at h; cases h
  | succ fuel ih =>
    unfold untarNodes at h
    obtain ⟨⟨o, a1⟩, h1, h2⟩ := Res.bind_eq_ok h
    obtain ⟨hn, hd⟩ := ArchDec.next_confined a o a1 hdir h1
    dsimp only at h2
    split at h2
    · cases h2
      intro n hn'
      exact hacc n (List.mem_reverse.1 hn')
    · rename_i n
      refine ih a1 (n :: acc) hd ?_ h2
      intro m hm
      rcases List.mem_cons.1 hm with rfl | hm
      · exact hn _ rfl
      · exact hacc m hm

theorem untar_confined (b : Bytes) (nodes : List Node) (h : untar b = .ok nodes) :
    ∀ n ∈ nodes, Confined n.name :=
  untarNodes_confined _ _ [] nodes (.inl rfl) (by simp) h

end Desync
