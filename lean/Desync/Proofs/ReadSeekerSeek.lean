/-
  ReadSeeker proofs, part 2: `Setup`, the reader invariant `Inv`, `findOffset` and `Seek`.
-/
import Desync.Proofs.ReadSeekerSearch

namespace Desync

structure Setup (blob : Bytes) (ip : IdxPos) (fetch : Fetch) : Prop where
  tiles : TilesFrom 0 ip.chunks
  len : ip.length = blob.length ∧ endOf 0 ip.chunks = blob.length
  /-- the store is sound (C03): whatever it returns for a chunk's ID is that chunk's bytes -/
  sound : ∀ c ∈ ip.chunks, ∀ k b, fetch k c.id = some b → b = slice blob c
  /-- equal IDs mean equal content (digest collision-freeness on the chunks of this index) -/
  ids : ∀ c ∈ ip.chunks, ∀ d ∈ ip.chunks, c.id = d.id → slice blob c = slice blob d
  /-- a chunk carrying the null ID is `nullLen` zero bytes -/
  null : ∀ c ∈ ip.chunks, c.id = ip.nullID → slice blob c = List.replicate ip.nullLen 0

/-- `ip'` serves the same index as `ip` -/
def SameIdx (ip ip' : IdxPos) : Prop :=
  ip'.chunks = ip.chunks ∧ ip'.length = ip.length ∧ ip'.nullID = ip.nullID ∧ ip'.nullLen = ip.nullLen

theorem SameIdx.refl (ip : IdxPos) : SameIdx ip ip := ⟨rfl, rfl, rfl, rfl⟩

theorem SameIdx.trans {a b c : IdxPos} (h1 : SameIdx a b) (h2 : SameIdx b c) : SameIdx a c := by
  obtain ⟨a1, a2, a3, a4⟩ := h1
  obtain ⟨b1, b2, b3, b4⟩ := h2
  exact ⟨b1.trans a1, b2.trans a2, b3.trans a3, b4.trans a4⟩

theorem Setup.of_same {blob : Bytes} {ip ip' : IdxPos} {fetch : Fetch}
    (hs : Setup blob ip fetch) (h : SameIdx ip ip') : Setup blob ip' fetch := by
  obtain ⟨h1, h2, h3, h4⟩ := h
  obtain ⟨a, b, c, d, e⟩ := hs
  constructor
  · rw [h1]; exact a
  · rw [h1, h2]; exact b
  · rw [h1]; exact c
  · rw [h1]; exact d
  · rw [h1, h3, h4]; exact e

/-- reader invariant.  Compared with the first sketch it also records that the offset reaches the
    end of the current chunk only in the last chunk (otherwise `Read` would spin, see report). -/
def Inv (blob : Bytes) (ip : IdxPos) : Prop :=
  (ip.chunks = [] → ip.pos = 0) ∧
  (ip.chunks ≠ [] → ∃ c, ip.chunks[ip.curIdx]? = some c ∧ ip.curID = c.id ∧ ip.curOff ≤ c.size ∧
      (ip.curOff = c.size → ip.curIdx + 1 = ip.chunks.length) ∧
      ip.pos = c.start + ip.curOff ∧ (ip.curChunk ≠ [] → ip.curChunk = slice blob c))

theorem inv_new (blob : Bytes) (chunks : List RChunk) (length nullID nullLen : Nat)
    (ht : TilesFrom 0 chunks) : Inv blob (IdxPos.new chunks length nullID nullLen) := by
  cases chunks with
  | nil => exact ⟨fun _ => rfl, fun h => absurd rfl h⟩
  | cons c cs =>
    obtain ⟨h1, h2, _⟩ := ht
    refine ⟨fun h => by simp [IdxPos.new] at h, fun _ => ⟨c, ?_⟩⟩
    refine ⟨rfl, rfl, Nat.zero_le _, ?_, ?_, fun h => absurd rfl h⟩
    · intro h; show 0 + 1 = _; change 0 = c.size at h; omega
    · show 0 = c.start + 0; omega

theorem setup_new {blob : Bytes} {chunks : List RChunk} {length nullID nullLen : Nat} {fetch : Fetch}
    {ip : IdxPos} (hs : Setup blob ip fetch) (hc : ip.chunks = chunks) (hl : ip.length = length)
    (h1 : ip.nullID = nullID) (h2 : ip.nullLen = nullLen) :
    Setup blob (IdxPos.new chunks length nullID nullLen) fetch :=
  hs.of_same ⟨hc.symm, hl.symm, h1.symm, h2.symm⟩

/-- under the invariant the position never exceeds the blob length -/
theorem inv_pos_le {blob : Bytes} {ip : IdxPos} {fetch : Fetch}
    (hs : Setup blob ip fetch) (hi : Inv blob ip) : ip.pos ≤ blob.length := by
  by_cases hch : ip.chunks = []
  · rw [hi.1 hch]; exact Nat.zero_le _
  · obtain ⟨c, hc, _, h3, _, h5, _⟩ := hi.2 hch
    have := (tiles_get hs.tiles hc).2.2.1
    have := hs.len.2
    omega

/-- with a non-empty blob the index is non-empty -/
theorem chunks_ne_nil {blob : Bytes} {ip : IdxPos} {fetch : Fetch}
    (hs : Setup blob ip fetch) (h : 0 < blob.length) : ip.chunks ≠ [] := by
  intro hch
  have := hs.len.2
  rw [hch] at this
  simp [endOf] at this; omega

theorem mem_of_getElem? {cs : List RChunk} {i : Nat} {c : RChunk} (h : cs[i]? = some c) : c ∈ cs :=
  List.mem_of_getElem? h

/-- `findOffset`: succeeds exactly for `newPos ≤ L`, lands on `newPos`, keeps the invariant -/
theorem findOffset_spec {blob : Bytes} {ip : IdxPos} {fetch : Fetch}
    (hs : Setup blob ip fetch) (hi : Inv blob ip) (newPos : Nat) :
    (newPos ≤ blob.length →
      ∃ ip', ip.findOffset newPos = .ok ip' ∧ ip'.pos = newPos ∧ Inv blob ip' ∧ SameIdx ip ip') ∧
    (blob.length < newPos → ip.findOffset newPos = .error .beyond) := by
  have hposle := inv_pos_le hs hi
  have hL := hs.len.2
  unfold IdxPos.findOffset
  by_cases hnp : newPos = ip.pos
  · rw [if_pos hnp]
    exact ⟨fun _ => ⟨ip, rfl, hnp.symm, hi, SameIdx.refl ip⟩, fun h => by omega⟩
  rw [if_neg hnp]
  by_cases hch : ip.chunks = []
  · rw [if_pos hch]
    have h0 := hi.1 hch
    rw [hch] at hL; simp only [endOf] at hL
    exact ⟨fun h => by omega, fun _ => rfl⟩
  rw [if_neg hch]
  obtain ⟨c, hc, hid, hoff, hlast, hpos, hdata⟩ := hi.2 hch
  obtain ⟨_, hcsz, hcend, _, _⟩ := tiles_get hs.tiles hc
  have hgetD : ip.chunks.getD ip.curIdx ⟨0, 0, 0⟩ = c := by
    rw [List.getD_eq_getElem?_getD, hc]; rfl
  simp only [hgetD]
  by_cases hfast : ip.pos ≤ newPos + ip.curOff ∧ newPos + ip.curOff < ip.pos + c.size
  · rw [if_pos hfast]
    refine ⟨fun _ => ⟨_, rfl, rfl, ?_, ⟨rfl, rfl, rfl, rfl⟩⟩, fun h => by omega⟩
    refine ⟨fun h => absurd h hch, fun _ => ⟨c, hc, hid, ?_, ?_, ?_, hdata⟩⟩
    · show newPos + ip.curOff - ip.pos ≤ c.size; omega
    · show newPos + ip.curOff - ip.pos = c.size → _; intro h; omega
    · show newPos = c.start + (newPos + ip.curOff - ip.pos); omega
  rw [if_neg hfast]
  have hlenpos : 0 < ip.chunks.length := List.length_pos_iff.mpr hch
  by_cases hlt : newPos < blob.length
  · -- the containing chunk
    obtain ⟨d, hd, hd1, hd2⟩ := searchChunk_lt hs.tiles (Nat.zero_le _) (by omega : newPos < endOf 0 ip.chunks)
    have hilt : searchChunk newPos ip.chunks < ip.chunks.length := by
      have := (List.getElem?_eq_some_iff.mp hd).1; exact this
    have hnge : ¬ searchChunk newPos ip.chunks ≥ ip.chunks.length := by omega
    rw [if_neg hnge]
    have hgetD2 : ip.chunks.getD (searchChunk newPos ip.chunks) ⟨0, 0, 0⟩ = d := by
      rw [List.getD_eq_getElem?_getD, hd]; rfl
    simp only [hgetD2]
    rw [if_neg (by omega : ¬ newPos < d.start), if_neg (by omega : ¬ newPos > d.start + d.size)]
    refine ⟨fun _ => ⟨_, rfl, rfl, ?_, ⟨rfl, rfl, rfl, rfl⟩⟩, fun h => by omega⟩
    refine ⟨fun h => absurd h hch, fun _ => ⟨d, hd, rfl, ?_, ?_, ?_, ?_⟩⟩
    · show newPos - d.start ≤ d.size; omega
    · show newPos - d.start = d.size → _; intro h; omega
    · show newPos = d.start + (newPos - d.start); omega
    · show (if d.id ≠ ip.curID then [] else ip.curChunk) ≠ [] →
        (if d.id ≠ ip.curID then [] else ip.curChunk) = slice blob d
      by_cases hne : d.id ≠ ip.curID
      · rw [if_pos hne]; intro h; exact absurd rfl h
      · rw [if_neg hne]
        intro h
        rw [hdata h]
        apply hs.ids c (mem_of_getElem? hc) d (mem_of_getElem? hd)
        rw [← hid]; exact (Decidable.not_not.mp hne).symm
  · -- at or past the end: the last chunk
    have hsl : searchChunk newPos ip.chunks = ip.chunks.length :=
      searchChunk_ge hs.tiles (by omega)
    rw [hsl, if_pos (Nat.le_refl _)]
    have hlastlt : ip.chunks.length - 1 < ip.chunks.length := by omega
    obtain ⟨d, hd⟩ : ∃ d, ip.chunks[ip.chunks.length - 1]? = some d :=
      ⟨_, List.getElem?_eq_getElem hlastlt⟩
    obtain ⟨_, hdsz, _, hdend, _⟩ := tiles_get hs.tiles hd
    have hdend := hdend (by omega)
    have hgetD2 : ip.chunks.getD (ip.chunks.length - 1) ⟨0, 0, 0⟩ = d := by
      rw [List.getD_eq_getElem?_getD, hd]; rfl
    simp only [hgetD2]
    rw [if_neg (by omega : ¬ newPos < d.start)]
    by_cases hgt : newPos > d.start + d.size
    · rw [if_pos hgt]
      exact ⟨fun h => by omega, fun _ => rfl⟩
    · rw [if_neg hgt]
      refine ⟨fun _ => ⟨_, rfl, rfl, ?_, ⟨rfl, rfl, rfl, rfl⟩⟩, fun h => by omega⟩
      refine ⟨fun h => absurd h hch, fun _ => ⟨d, hd, rfl, ?_, ?_, ?_, ?_⟩⟩
      · show newPos - d.start ≤ d.size; omega
      · show newPos - d.start = d.size → _; intro _; show ip.chunks.length - 1 + 1 = ip.chunks.length; omega
      · show newPos = d.start + (newPos - d.start); omega
      · show (if d.id ≠ ip.curID then [] else ip.curChunk) ≠ [] →
          (if d.id ≠ ip.curID then [] else ip.curChunk) = slice blob d
        by_cases hne : d.id ≠ ip.curID
        · rw [if_pos hne]; intro h; exact absurd rfl h
        · rw [if_neg hne]
          intro h
          rw [hdata h]
          apply hs.ids c (mem_of_getElem? hc) d (mem_of_getElem? hd)
          rw [← hid]; exact (Decidable.not_not.mp hne).symm

/-- the absolute target of a `Seek` -/
def seekTarget (ip : IdxPos) (offset : Int) : Whence → Int
  | .start => offset
  | .current => ip.pos + offset
  | .end_ => ip.length + offset

/-- Seek: succeeds exactly for targets in `[0, L]`; on success `pos = target` and the invariant
    holds; on failure (an `Except.error`, which carries no state) the reader is unchanged, and the
    error is `before` for negative targets, `beyond` for targets past the end. -/
theorem seek_spec {blob : Bytes} {ip : IdxPos} {fetch : Fetch}
    (hs : Setup blob ip fetch) (hi : Inv blob ip) (offset : Int) (w : Whence) :
    (0 ≤ seekTarget ip offset w ∧ seekTarget ip offset w ≤ blob.length →
      ∃ ip', ip.seek offset w = .ok ip' ∧ ip'.pos = (seekTarget ip offset w).toNat ∧
        Inv blob ip' ∧ SameIdx ip ip') ∧
    (seekTarget ip offset w < 0 → ip.seek offset w = .error .before) ∧
    (seekTarget ip offset w > blob.length → ip.seek offset w = .error .beyond) := by
  have hseek : ip.seek offset w =
      if seekTarget ip offset w < 0 then .error .before
      else match ip.findOffset (seekTarget ip offset w).toNat with
        | .error e => .error e
        | .ok ip' => .ok ip' := by
    cases w <;> rfl
  rw [hseek]
  obtain ⟨f1, f2⟩ := findOffset_spec hs hi (seekTarget ip offset w).toNat
  refine ⟨?_, ?_, ?_⟩
  · rintro ⟨h0, h1⟩
    rw [if_neg (by omega)]
    obtain ⟨ip', e1, e2, e3, e4⟩ := f1 (by omega)
    exact ⟨ip', by rw [e1], e2, e3, e4⟩
  · intro h; rw [if_pos h]
  · intro h
    rw [if_neg (by omega), f2 (by omega)]

end Desync
