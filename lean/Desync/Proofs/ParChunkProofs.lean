/-
  The parallel chunker (`make.go`: `IndexFromFile`, `pChunker.start`, `pChunker.syncWith`, modelled as the
  step machine of `Desync/Model/ParChunk.lean`) produces the single-stream chunk sequence, whatever the
  interleaving; no reachable state is stuck before the main routine has finished.     DESIGN section 6, C02.
  The invariant is in `ParChunkInv.lean`, its preservation in `ParChunkFrame*.lean` and `ParChunkSteps*.lean`,
  termination in `ParChunkTerm.lean`.
-/
import Desync.Proofs.ParChunkSteps3
import Desync.Proofs.ParChunkTerm

namespace Desync.Par

variable {e : Env} {zero : Nat → Prop}

/-! ## the initial state -/

theorem init_len (e : Env) : (init e).workers.length = e.offsets.length := by
  simp only [init, List.length_map, List.length_zipIdx]

theorem init_get {e : Env} {i : Nat} {w : Worker} (h : (init e).workers[i]? = some w) :
    ∃ o, e.offsets[i]? = some o ∧
      w = { pos := o, next := if i + 1 < e.offsets.length then some (i + 1) else none } := by
  simp only [init, List.getElem?_map, List.getElem?_zipIdx, Option.map_map] at h
  cases ho : e.offsets[i]? with
  | none => rw [ho] at h; cases h
  | some o =>
    rw [ho] at h
    simp only [Option.map_some, Function.comp_apply, Nat.zero_add, Option.some.injEq] at h
    exact ⟨o, rfl, h.symm⟩

theorem Inv.at_init (hE : EnvOK e zero) : Inv e zero (init e) := by
  have hne : 0 < e.offsets.length := by
    have := hE.offsets_head
    cases ho : e.offsets with
    | nil => rw [ho] at this; cases this
    | cons a l => simp only [List.length_cons]; omega
  have hnx : ∀ (i o : Nat), i < e.offsets.length →
      i < nxW e.offsets.length { pos := o, next := if i + 1 < e.offsets.length then some (i + 1) else none } ∧
      nxW e.offsets.length { pos := o, next := if i + 1 < e.offsets.length then some (i + 1) else none } ≤ e.offsets.length ∧
      (nxW e.offsets.length { pos := o, next := if i + 1 < e.offsets.length then some (i + 1) else none } ≤ i + 1 ∨
        e.offsets.length ≤ i + 1) := by
    intro i o hi
    by_cases h : i + 1 < e.offsets.length
    · simp only [nxW, h, ↓reduceIte, Option.getD_some]; omega
    · simp only [nxW, h, ↓reduceIte, Option.getD_none]; omega
  refine ⟨init_len e, ?_, ?_, ?_, ?_, rfl, ?_⟩
  · intro i w hw
    rw [init_len]
    obtain ⟨o, ho, rfl⟩ := init_get hw
    have hi : i < e.offsets.length := (List.getElem?_eq_some_iff.mp ho).1
    have hn := hnx i o hi
    refine ⟨hE.offsets_le o (List.mem_of_getElem? ho), rfl, rfl, ?_, by omega, by omega, ?_, ?_, trivial⟩
    · constructor <;> intro h <;> cases h
    · intro j hj
      by_cases h : i + 1 < e.offsets.length
      · simp only [h, ↓reduceIte, Option.some.injEq] at hj; omega
      · simp only [h, ↓reduceIte] at hj; cases hj
    · intro h; cases h
  · intro i w j wj hw _ _
    obtain ⟨o, _, rfl⟩ := init_get hw
    trivial
  · intro j wj hj _
    obtain ⟨o, _, rfl⟩ := init_get hj
    exact Or.inl rfl
  · intro i w h wh hw hh hih hlt
    rw [init_len] at hlt ⊢
    obtain ⟨o, ho, rfl⟩ := init_get hw
    have hi : i < e.offsets.length := (List.getElem?_eq_some_iff.mp ho).1
    have hh' : h < e.offsets.length := by rw [← init_len]; exact getW_lt hh
    have hn := hnx i o hi
    omega
  · rw [MainInv.reading (show (Desync.Par.init e).main = .reading 0 from rfl)]
    refine ⟨by rw [init_len]; exact hne, ?_, ?_, ?_⟩
    · intro i w hi; omega
    · intro k w hw _ hfin
      obtain ⟨o, _, rfl⟩ := init_get hw
      cases hfin
    · obtain ⟨w, hw⟩ := getW_of_lt (ws := (Desync.Par.init e).workers) (i := 0) (by rw [init_len]; exact hne)
      refine ⟨0, w, Nat.le_refl _, hw, fun h wh h1 h2 => by omega, ?_, ?_⟩
      · obtain ⟨o, ho, rfl⟩ := init_get hw
        have := hE.offsets_head
        rw [List.head?_eq_getElem?, ho] at this
        cases this
        rfl
      · intro hfe
        obtain ⟨o, _, rfl⟩ := init_get hw
        cases hfe.1

theorem Inv.reachable (hE : EnvOK e zero) {s : St} (hr : Reachable e (init e) s) : Inv e zero s := by
  induction hr with
  | refl => exact Inv.at_init hE
  | step ev _ hs ih => exact ih.step_preserved hE ev hs

/-! ## safety -/

/-- at every moment the index is a prefix of the single-stream sequence -/
theorem index_prefix (e : Env) (zero : Nat → Prop) (h : EnvOK e zero) (s : St)
    (hr : Reachable e (init e) s) : s.index <+: seqAll e :=
  Run.prefix_seqFrom h (e.size + 1) (Inv.reachable h hr).index (by omega)

/-- SAFETY, main theorem: whatever the interleaving, when the main routine finishes it reports success and
    the index is exactly the single-stream chunk sequence -/
theorem parallel_eq_sequential (e : Env) (zero : Nat → Prop) (h : EnvOK e zero) (s : St)
    (hr : Reachable e (init e) s) (ok : Bool) (hf : s.main = .finished ok) :
    ok = true ∧ s.index = seqAll e := by
  have hI := Inv.reachable h hr
  have hm := (MainInv.finished hf).mp hI.main
  refine ⟨hm.1, ?_⟩
  have hrun := hI.index
  rw [hm.2] at hrun
  exact Run.eq_seqFrom h (e.size + 1) hrun (by omega)

/-! ## progress -/

theorem exists_of_isSome {s : St} {ev : Ev} (h : (step e s ev).isSome = true) : ∃ ev s', step e s ev = some s' :=
  ⟨ev, Option.isSome_iff_exists.mp h⟩

/-- a worker that is not done can take a step -/
theorem worker_enabled {s : St} (hI : Inv e zero s) {i : Nat} {w : Worker} (hw : s.workers[i]? = some w)
    (hnd : w.pc ≠ .done) : ∃ ev s', step e s ev = some s' := by
  have hl := hI.loc i w hw
  have hpcl := hl.pc_ok
  have hnext : ∀ j, w.next = some j → ∃ wj, s.workers[j]? = some wj := fun j hj => getW_of_lt (hl.next_lt j hj)
  cases hpc : w.pc with
  | top =>
    apply exists_of_isSome (ev := .produce i)
    simp only [step, hw, hpc, ↓reduceIte]
    split <;> rfl
  | pushed c =>
    apply exists_of_isSome (ev := .look i)
    simp only [step, hw, hpc]
    split <;> rfl
  | popping c prev =>
    simp only [PcLocal, hpc] at hpcl
    obtain ⟨j, hj⟩ := hpcl.2.2
    obtain ⟨wj, hwj⟩ := hnext j hj
    apply exists_of_isSome (ev := .pop i)
    simp only [step, hw, hpc, hj, hwj]
    split
    · split <;> rfl
    · rfl
  | decide c prev =>
    simp only [PcLocal, hpc] at hpcl
    obtain ⟨j, hj⟩ := hpcl.2.2
    obtain ⟨wj, hwj⟩ := hnext j hj
    apply exists_of_isSome (ev := .decide i)
    simp only [step, hw, hpc, hj, hwj]
    split
    · rfl
    · split
      · split <;> rfl
      · rfl
  | nullScan c n =>
    simp only [PcLocal, hpc] at hpcl
    obtain ⟨j, hj⟩ := hpcl.2.2
    obtain ⟨wj, hwj⟩ := hnext j hj
    apply exists_of_isSome (ev := .scan i)
    simp only [step, hw, hpc, hj, hwj]
    split
    · split <;> rfl
    · rfl
    · rfl
  | advance last k =>
    simp only [PcLocal, hpc] at hpcl
    apply exists_of_isSome (ev := .pushNull i)
    simp only [step, hw, hpc]
    rw [if_neg (by omega)]
    split <;> rfl
  | skipCheck =>
    apply exists_of_isSome (ev := .skip i)
    simp only [step, hw, hpc, ↓reduceIte]
    cases hn : w.next with
    | none => rfl
    | some j =>
      obtain ⟨wj, hwj⟩ := hnext j hn
      simp only [hwj]
      split <;> rfl
  | stopping =>
    apply exists_of_isSome (ev := .stop i)
    simp only [step, hw, hpc, ↓reduceIte]; rfl
  | closing =>
    apply exists_of_isSome (ev := .close i)
    simp only [step, hw, hpc, ↓reduceIte]; rfl
  | done => exact absurd hpc hnd

/-- PROGRESS: no reachable state is stuck before the main routine has finished -/
theorem parallel_not_stuck (e : Env) (zero : Nat → Prop) (h : EnvOK e zero) (s : St)
    (hr : Reachable e (init e) s) (hm : ∀ ok, s.main ≠ .finished ok) : ∃ ev s', step e s ev = some s' := by
  have hI := Inv.reachable h hr
  cases hmain : s.main with
  | finished ok => exact absurd hmain (hm ok)
  | reading m =>
    have hR := (MainInv.reading hmain).mp hI.main
    obtain ⟨w, hw⟩ := getW_of_lt hR.m_lt
    have hl := hI.loc m w hw
    cases hb : w.bucket with
    | cons c rest =>
      apply exists_of_isSome (ev := .mainPop)
      simp only [step, hmain, hw, hb]; rfl
    | nil =>
      by_cases hc : w.closed = true
      · apply exists_of_isSome (ev := .mainNext)
        simp only [step, hmain, hw, hb, hc, and_self, ↓reduceIte]
        split
        · rfl
        · split <;> rfl
      · exact worker_enabled hI hw (fun hd => hc (hl.closed_iff.mpr hd))

/-! ## termination -/

/-- TERMINATION: a measure that strictly decreases with every step, so every schedule is finite -/
theorem parallel_terminates (e : Env) (zero : Nat → Prop) (h : EnvOK e zero) :
    ∃ μ : St → Nat, ∀ s ev s', Reachable e (init e) s → step e s ev = some s' → μ s' < μ s :=
  ⟨mu e, fun _ ev _ hr hs => mu_decreases h ev (Inv.reachable h hr) hs⟩

/-! ## non-vacuity -/

/-- run a schedule -/
def runEvs (e : Env) : St → List Ev → Option St
  | s, [] => some s
  | s, ev :: evs => match step e s ev with
    | some s' => runEvs e s' evs
    | none => none

theorem reachable_of_runEvs (e : Env) (s0 : St) : ∀ (evs : List Ev) (s s' : St), Reachable e s0 s → runEvs e s evs = some s' →
    Reachable e s0 s'
  | [], s, s', hr, h => by simp only [runEvs, Option.some.injEq] at h; rw [← h]; exact hr
  | ev :: evs, s, s', hr, h => by
    simp only [runEvs] at h
    split at h
    · rename_i s1 hs1
      exact reachable_of_runEvs e s0 evs s1 s' (Reachable.step ev hr hs1) h
    · cases h

def exEnv : Env where
  size := 10
  max := 4
  cut := fun pos => if pos % 5 + 3 ≤ 5 then 3 else 5 - pos % 5
  isNull := fun _ => false
  offsets := [0, 5]

def exSched : List Ev :=
  [.produce 0, .look 0, .pop 0, .decide 0, .skip 0, .produce 0, .look 0, .pop 0, .skip 0,
   .produce 1, .look 1, .skip 1, .produce 1, .look 1, .skip 1, .produce 1, .stop 1, .close 1,
   .produce 0, .look 0, .pop 0, .pop 0, .decide 0, .stop 0, .close 0,
   .mainPop, .mainPop, .mainPop, .mainNext, .mainPop, .mainNext]

theorem exEnv_ok : EnvOK exEnv (fun _ => False) where
  max_pos := by decide
  cut_pos := by intro pos h; simp only [exEnv] at h ⊢; split <;> omega
  cut_le := by intro pos h; simp only [exEnv] at h ⊢; split <;> omega
  null_zero := by intro c h; cases h
  zero_cut := by intro pos ⟨c0, h⟩; cases h
  offsets_head := rfl
  offsets_le := by intro o ho; simp only [exEnv, List.mem_cons, List.not_mem_nil, or_false] at ho ⊢; omega
  offsets_sorted := by simp [exEnv]

/-- non-vacuity: a concrete environment satisfying `EnvOK` and a reachable finished state (worker 0 stops in
    sync with worker 1 on the chunk 5:3; the index is 0:3, 3:2, 5:3, 8:2) -/
example : ∃ s, Reachable exEnv (init exEnv) s ∧ s.main = .finished true ∧ s.index = seqAll exEnv ∧ s.index.length = 4 := by
  refine ⟨(runEvs exEnv (init exEnv) exSched).get (by decide), ?_, by decide, by decide, by decide⟩
  exact reachable_of_runEvs exEnv _ exSched _ _ Reachable.refl (Option.some_get _).symm

end Desync.Par
