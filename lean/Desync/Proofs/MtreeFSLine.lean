/-
  `mtreeFilename` against `unescape`, `strings.Join` against the reader's word splitting, and the line of each of the
  four `Create*` methods against `parseLine`.
-/
import Desync.Proofs.MtreeFSProofs

namespace Desync.MtreeFS
open Desync

/-! ### `mtreeFilename` / `unescape` -/

/-- `%03o` of a byte is three octal digits -/
theorem escOct (n : Nat) (h : n < 256) :
    pad0 3 (fmtNat 8 n) = [digitByte (n / 64), digitByte (n / 8 % 8), digitByte (n % 8)] := by
  interval_cases n <;> rfl

theorem octVal_digitByte (d : Nat) (h : d < 8) : octVal (digitByte d) = some d := by
  interval_cases d <;> rfl

theorem escByte_escaped (c : UInt8) (h : isEscaped c = true) :
    escByte c = [92, digitByte (c.toNat / 64), digitByte (c.toNat / 8 % 8), digitByte (c.toNat % 8)] := by
  unfold escByte
  rw [if_pos h, escOct _ c.toNat_lt]

theorem escByte_plain (c : UInt8) (h : isEscaped c = false) : escByte c = [c] := by
  unfold escByte
  simp [h]

theorem not_escaped_ne (c : UInt8) (h : isEscaped c = false) : c ≠ 92 ∧ c ≠ 35 ∧ 32 ≤ c.toNat ∧ c.toNat ≤ 126 := by
  simp only [isEscaped, Bool.or_eq_false_iff, beq_eq_false_iff_ne, decide_eq_false_iff_not, UInt8.not_lt] at h
  obtain ⟨⟨⟨h1, h2⟩, h3⟩, h4⟩ := h
  refine ⟨h1, h2, ?_, ?_⟩
  · exact UInt8.le_iff_toNat_le.mp h3
  · exact UInt8.le_iff_toNat_le.mp h4

theorem unescape_escByte (c : UInt8) (r : Bytes) :
    unescape (escByte c ++ r) = (unescape r).map (c :: ·) := by
  cases h : isEscaped c with
  | true =>
    rw [escByte_escaped c h]
    have hc : c.toNat < 256 := c.toNat_lt
    simp only [List.cons_append, List.nil_append]
    rw [unescape]
    simp only [if_true]
    rw [octVal_digitByte _ (by omega), octVal_digitByte _ (Nat.mod_lt _ (by omega)), octVal_digitByte _ (Nat.mod_lt _ (by omega))]
    have hv : c.toNat / 64 * 64 + c.toNat / 8 % 8 * 8 + c.toNat % 8 = c.toNat := by omega
    cases hr : unescape r with
    | none => simp
    | some r' =>
      simp only [hv, hc, if_true, Option.map_some]
      simp
  | false =>
    rw [escByte_plain c h]
    have hne := (not_escaped_ne c h).1
    simp only [List.cons_append, List.nil_append]
    cases hr : unescape r <;> (rw [unescape.eq_def]; simp [hne, hr])

/-- reading a name back: `unescape` is a left inverse of `mtreeFilename` -/
theorem unescape_mtreeFilename (s : Bytes) : unescape (mtreeFilename s) = some s := by
  induction s with
  | nil => simp [mtreeFilename, unescape]
  | cons c cs ih =>
    rw [mtreeFilename, unescape_escByte, ih]
    rfl

/-- bytes a name is made of after escaping: never a tab or a newline, and a space only where the name has one -/
theorem escByte_blank (c x : UInt8) (hx : x ∈ escByte c) (hb : isBlank x = true) : c = 32 ∧ x = 32 := by
  cases h : isEscaped c with
  | true =>
    rw [escByte_escaped c h] at hx
    have hc : c.toNat < 256 := c.toNat_lt
    simp only [List.mem_cons, List.not_mem_nil, or_false] at hx
    rcases hx with rfl | rfl | rfl | rfl
    · simp [isBlank] at hb
    · have := (digitByte_isDigit (c.toNat / 64) (by omega)).not_blank; simp [this] at hb
    · have := (digitByte_isDigit (c.toNat / 8 % 8) (by omega)).not_blank; simp [this] at hb
    · have := (digitByte_isDigit (c.toNat % 8) (by omega)).not_blank; simp [this] at hb
  | false =>
    rw [escByte_plain c h] at hx
    simp only [List.mem_singleton] at hx
    subst hx
    obtain ⟨_, _, h32, _⟩ := not_escaped_ne x h
    simp only [isBlank, Bool.or_eq_true, beq_iff_eq] at hb
    rcases hb with (rfl | rfl) | rfl
    · exact ⟨rfl, rfl⟩
    · simp at h32
    · simp at h32

theorem mtreeFilename_clean (s : Bytes) (hs : (32 : UInt8) ∉ s) : ∀ x ∈ mtreeFilename s, isBlank x = false := by
  induction s with
  | nil => simp [mtreeFilename]
  | cons c cs ih =>
    intro x hx
    simp only [mtreeFilename, List.mem_append] at hx
    rcases hx with hx | hx
    · cases hb : isBlank x with
      | false => rfl
      | true =>
        have := (escByte_blank c x hx hb).1
        subst this
        simp at hs
    · exact ih (fun h => hs (by simp [h])) x hx

theorem escByte_ne_nil (c : UInt8) : escByte c ≠ [] := by
  unfold escByte; split <;> simp

theorem mtreeFilename_ne_nil (s : Bytes) (hs : s ≠ []) : mtreeFilename s ≠ [] := by
  cases s with
  | nil => exact absurd rfl hs
  | cons c cs =>
    have := escByte_ne_nil c
    simp [mtreeFilename, this]

/-- an escaped name never starts a comment -/
theorem mtreeFilename_head (s : Bytes) : (mtreeFilename s).head? ≠ some 35 := by
  cases s with
  | nil => simp [mtreeFilename]
  | cons c cs =>
    cases h : isEscaped c with
    | true => simp [mtreeFilename, escByte_escaped c h]
    | false =>
      have := (not_escaped_ne c h).2.1
      simp [mtreeFilename, escByte_plain c h, this]

/-! ### words -/

def Clean (w : Bytes) : Prop := ∀ x ∈ w, isBlank x = false

instance (w : Bytes) : Decidable (Clean w) := inferInstanceAs (Decidable (∀ x ∈ w, isBlank x = false))

theorem splitBlank_ne_nil (l : Bytes) : splitBlank l ≠ [] := by
  induction l with
  | nil => simp [splitBlank]
  | cons c cs ih =>
    unfold splitBlank
    split
    · simp
    · split <;> simp

theorem splitBlank_clean_sep (w : Bytes) (hw : Clean w) (s : UInt8) (hs : isBlank s = true) (rest : Bytes) :
    splitBlank (w ++ s :: rest) = w :: splitBlank rest := by
  induction w with
  | nil => simp [splitBlank, hs]
  | cons c cs ih =>
    have hc : isBlank c = false := hw c (by simp)
    have := ih (fun x hx => hw x (by simp [hx]))
    simp only [List.cons_append]
    rw [splitBlank]
    simp [hc, this]

theorem words_nil : words [] = [] := by simp [words, splitBlank]

theorem words_clean_sep (w : Bytes) (hw : Clean w) (hne : w ≠ []) (s : UInt8) (hs : isBlank s = true) (rest : Bytes) :
    words (w ++ s :: rest) = w :: words rest := by
  unfold words
  rw [splitBlank_clean_sep w hw s hs rest]
  cases w with
  | nil => exact absurd rfl hne
  | cons c cs => simp

/-- `strings.Join` then `Fprintln`, read back word by word -/
theorem words_joinSp (ws : List Bytes) (hne : ws ≠ []) (hw : ∀ w ∈ ws, Clean w ∧ w ≠ []) :
    words (joinSp ws ++ [10]) = ws := by
  induction ws with
  | nil => exact absurd rfl hne
  | cons w ws ih =>
    obtain ⟨hc, hn⟩ := hw w (by simp)
    cases ws with
    | nil =>
      simp only [joinSp]
      rw [words_clean_sep w hc hn 10 (by decide) [], words_nil]
    | cons w' ws' =>
      simp only [joinSp, List.append_assoc, List.cons_append]
      rw [words_clean_sep w hc hn 32 (by decide)]
      congr 1
      have := ih (by simp) (fun x hx => hw x (by simp [hx]))
      simpa [joinSp] using this

/-! ### `keyword=value` -/

theorem splitEq_kv (k v : Bytes) (hk : (61 : UInt8) ∉ k) : splitEq (kv k v) = (k, v) := by
  unfold kv
  induction k with
  | nil => simp [splitEq]
  | cons c cs ih =>
    have hc : c ≠ 61 := fun e => hk (by simp [e])
    simp only [List.cons_append, splitEq, hc, if_false]
    rw [ih (fun h => hk (by simp [h]))]

theorem kv_clean (k v : Bytes) (hk : Clean k) (hv : Clean v) : Clean (kv k v) := by
  intro x hx
  simp only [kv, List.mem_append, List.mem_cons] at hx
  rcases hx with hx | rfl | hx
  · exact hk x hx
  · decide
  · exact hv x hx

theorem kv_ne_nil (k v : Bytes) : kv k v ≠ [] := by simp [kv]

theorem clean_of_digits (s : Bytes) (h : ∀ c ∈ s, IsDigit c) : Clean s := fun x hx => (h x hx).not_blank

theorem fmtD_clean (i : Int) : Clean (fmtD i) := by
  intro x hx
  rcases fmtD_chars i x hx with h | rfl
  · exact h.not_blank
  · decide

theorem fmtMode_clean (m : UInt32) : Clean (fmtMode m) :=
  clean_of_digits _ (pad0_isDigit 4 _ (fmtNat_isDigit 8 _ (by omega) (by omega)))

theorem fmtTime_clean (sec : Int) (nsec : Nat) : Clean (fmtTime sec nsec) := by
  intro x hx
  simp only [fmtTime, List.mem_append, List.mem_cons] at hx
  rcases hx with hx | rfl | hx
  · exact fmtD_clean sec x hx
  · decide
  · exact (pad0_isDigit 9 _ (fmtNat_isDigit 10 _ (by omega) (by omega)) x hx).not_blank

theorem fmtNat10_clean (n : Nat) : Clean (fmtNat 10 n) := clean_of_digits _ (fmtNat_isDigit 10 n (by omega) (by omega))

theorem fmtHex_clean (d : Bytes) : Clean (fmtHex d) := clean_of_digits _ (fmtHex_isDigit d)

theorem parseMode_fmtMode (m : UInt32) : parseNat 8 (fmtMode m) = some (TarFS.tarMode m).toNat :=
  parseNat_pad0 8 4 _ (by omega) (by omega)

end Desync.MtreeFS
