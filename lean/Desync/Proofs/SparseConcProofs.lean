import Desync.Model.SparseConc

namespace Desync.SparseConc

/-- the reader an event belongs to -/
def Ev.reader : Ev → Nat
  | .start r _ => r
  | .preload r _ => r
  | .acquire r => r
  | .ready r => r
  | .check r => r
  | .fetchOk r => r
  | .fetchFail r => r
  | .dataFail r => r
  | .write r => r
  | .writeFail r => r
  | .mark r => r
  | .release r => r
  | .read r => r
  | .loaded r => r

/-- the chunk whose mutex a reader in this state holds -/
def PC.holds : PC → Option Nat
  | .locked _ _ i => some i
  | .fetching _ _ i => some i
  | .fetched _ _ i => some i
  | .written _ _ i => some i
  | .marked _ _ i => some i
  | .failed _ i => some i
  | _ => none

/-- the requested range of an active reader -/
def PC.range : PC → List Nat
  | .want range _ => range
  | .locked range _ _ => range
  | .fetching range _ _ => range
  | .fetched range _ _ => range
  | .written range _ _ => range
  | .marked range _ _ => range
  | .readFile range => range
  | _ => []

/-- chunks of the range the reader has not yet seen done -/
def PC.pending : PC → List Nat
  | .want _ todo => todo
  | .locked _ todo i => i :: todo
  | .fetching _ todo i => i :: todo
  | .fetched _ todo i => i :: todo
  | .written _ todo i => i :: todo
  | .marked _ todo _ => todo
  | _ => []

/-- the chunk this reader is loading (store call issued, done bit not yet set) or has failed to load -/
def PC.loading : PC → Option Nat
  | .fetching _ _ i => some i
  | .fetched _ _ i => some i
  | .written _ _ i => some i
  | .failed _ i => some i
  | _ => none

/-- the chunk this reader has written into the cache file -/
def PC.wrote : PC → Option Nat
  | .written _ _ i => some i
  | .marked _ _ i => some i
  | _ => none

theorem getD_set {α} (l : List α) (i j : Nat) (v d : α) :
    (l.set i v).getD j d = if i = j ∧ i < l.length then v else l.getD j d := by
  simp only [List.getD_eq_getElem?_getD, List.getElem?_set]
  split <;> split <;> simp_all <;> omega

theorem lt_of_getD_ne {α} (l : List α) (i : Nat) (d : α) (h : l.getD i d ≠ d) : i < l.length := by
  rcases Nat.lt_or_ge i l.length with h' | h'
  · exact h'
  · simp [List.getD_eq_getElem?_getD, List.getElem?_eq_none h'] at h

theorem holds_of_loading (pc : PC) (i : Nat) (h : pc.loading = some i) : pc.holds = some i := by
  cases pc <;> simp_all [PC.loading, PC.holds]

theorem holds_of_wrote (pc : PC) (i : Nat) (h : pc.wrote = some i) : pc.holds = some i := by
  cases pc <;> simp_all [PC.wrote, PC.holds]

theorem rd_set (l : List PC) (r r' : Nat) (pc' pc : PC) (h : (l.set r pc')[r']? = some pc) :
    (r' = r ∧ pc = pc' ∧ r < l.length) ∨ (r' ≠ r ∧ l[r']? = some pc) := by
  rw [List.getElem?_set] at h
  split at h
  · split at h
    · simp_all
    · simp at h
  · right; exact ⟨by omega, h⟩

/-- per-reader part of the invariant: reader `r` is in state `pc` -/
structure Good (s : St) (r : Nat) (pc : PC) : Prop where
  /-- a reader in a lock-holding state for chunk `i` is the holder of mutex `i` -/
  holder : ∀ i, pc.holds = some i → s.lock.getD i none = some r
  /-- ranges only mention chunk indices `< n` -/
  bound : ∀ j, (j ∈ pc.range ∨ j ∈ pc.pending ∨ pc.holds = some j) → j < s.n
  /-- every chunk of the range that is not pending is null or done -/
  range_ok : ∀ j, j ∈ pc.range → j ∈ pc.pending ∨ s.isNull.getD j false = true ∨ s.done.getD j false = true
  /-- after `WriteAt` the chunk's range holds the blob's bytes -/
  wrote_pop : ∀ i, pc.wrote = some i → s.populated.getD i false = true
  /-- a chunk being loaded (store call issued, done bit not yet set) is not done: never a second load / write after `mark` -/
  fresh : ∀ i, pc.loading = some i → s.done.getD i false = false
  /-- a successful return saw the blob -/
  ret_ok : ∀ range sb, pc = .returned true range sb → sb = true

/-- invariant of every reachable state -/
structure Inv (s : St) : Prop where
  lens : s.isNull.length = s.n ∧ s.populated.length = s.n ∧ s.done.length = s.n ∧ s.lock.length = s.n
  /-- done ⇒ populated -/
  done_pop : ∀ i, s.done.getD i false = true → s.populated.getD i false = true
  /-- null ranges equal the blob -/
  null_pop : ∀ i, s.isNull.getD i false = true → s.populated.getD i false = true
  /-- a mutex's holder is a reader in a lock-holding state for that chunk -/
  lock_holder : ∀ (i r : Nat), s.lock.getD i none = some r → ∃ pc, s.readers[r]? = some pc ∧ pc.holds = some i
  good : ∀ (r : Nat) (pc : PC), s.readers[r]? = some pc → Good s r pc

theorem inv_init (isNull : List Bool) (k : Nat) : Inv (St.init isNull k) := by
  have hid : ∀ (r : Nat) pc, (List.replicate k PC.idle)[r]? = some pc → pc = PC.idle := by
    intro r pc h
    rw [List.getElem?_replicate] at h
    split at h <;> simp_all
  refine ⟨by simp [St.init], ?_, ?_, ?_, ?_⟩
  · intro i h
    simp [St.init, List.getD_eq_getElem?_getD, List.getElem?_replicate] at h
    split at h <;> simp_all
  · intro i h; exact h
  · intro i r h
    simp [St.init, List.getD_eq_getElem?_getD, List.getElem?_replicate] at h
    split at h <;> simp_all
  · intro r pc h
    rw [hid r pc h]
    constructor <;> simp [PC.holds, PC.range, PC.pending, PC.wrote, PC.loading]

/-- frame lemma: reader `r` moves from `pc0` to `pc'`; `populated` and `done` only grow, `done` only
    at the chunk `r` holds, mutexes only change between free and held-by-`r` -/
theorem inv_update (s s' : St) (h : Inv s) (r : Nat) (pc0 pc' : PC) (hr : s.readers[r]? = some pc0)
    (hn : s'.n = s.n) (hnull : s'.isNull = s.isNull) (hrd : s'.readers = s.readers.set r pc')
    (hlen : s'.populated.length = s.n ∧ s'.done.length = s.n ∧ s'.lock.length = s.n)
    (hpop : ∀ j, s.populated.getD j false = true → s'.populated.getD j false = true)
    (hdp : ∀ j, s'.done.getD j false = true → s'.populated.getD j false = true)
    (hdm : ∀ j, s.done.getD j false = true → s'.done.getD j false = true)
    (hdn : ∀ j, s'.done.getD j false = true → s.done.getD j false = true ∨ pc0.holds = some j)
    (hlock : ∀ j, s'.lock.getD j none = s.lock.getD j none ∨
      (s'.lock.getD j none = some r ∧ s.lock.getD j none = none) ∨
      (s'.lock.getD j none = none ∧ s.lock.getD j none = some r))
    (hgood : Good s' r pc')
    (hh2 : ∀ i, s'.lock.getD i none = some r → pc'.holds = some i) : Inv s' := by
  have hrlt : r < s.readers.length := by
    rcases Nat.lt_or_ge r s.readers.length with h' | h'
    · exact h'
    · simp [List.getElem?_eq_none h'] at hr
  refine ⟨?_, hdp, ?_, ?_, ?_⟩
  · rw [hn, hnull]; exact ⟨h.lens.1, hlen⟩
  · intro i hi; rw [hnull] at hi; exact hpop i (h.null_pop i hi)
  · intro i r' hl
    by_cases hrr : r' = r
    · subst hrr
      exact ⟨pc', by rw [hrd]; simp [hrlt], hh2 i hl⟩
    · rcases hlock i with he | ⟨he, _⟩ | ⟨he, _⟩
      · rw [he] at hl
        obtain ⟨pc, hpc, hh⟩ := h.lock_holder i r' hl
        exact ⟨pc, by rw [hrd, List.getElem?_set_ne (by omega)]; exact hpc, hh⟩
      · rw [he] at hl; simp at hl; omega
      · rw [he] at hl; simp at hl
  · intro r' pc hpc
    rw [hrd] at hpc
    rcases rd_set _ _ _ _ _ hpc with ⟨rfl, rfl, _⟩ | ⟨hne, hpc'⟩
    · exact hgood
    · have g := h.good r' pc hpc'
      have g0 := h.good r pc0 hr
      refine ⟨?_, ?_, ?_, ?_, ?_, g.ret_ok⟩
      · intro i hi
        have := g.holder i hi
        rcases hlock i with he | ⟨_, he⟩ | ⟨_, he⟩
        · rw [he]; exact this
        · rw [he] at this; simp at this
        · rw [he] at this; simp at this; omega
      · rw [hn]; exact g.bound
      · intro j hj
        rw [hnull]
        rcases g.range_ok j hj with h1 | h1 | h1
        · exact Or.inl h1
        · exact Or.inr (Or.inl h1)
        · exact Or.inr (Or.inr (hdm j h1))
      · intro i hi; exact hpop i (g.wrote_pop i hi)
      · intro i hi
        have hf := g.fresh i hi
        cases hd : s'.done.getD i false with
        | false => rfl
        | true =>
          rcases hdn i hd with h1 | h1
          · rw [h1] at hf; simp at hf
          · have a := g0.holder i h1
            have b := g.holder i (holds_of_loading pc i hi)
            rw [a] at b; simp at b; omega

theorem Good.congr {s s' : St} {r : Nat} {pc : PC} (g : Good s r pc) (hn : s'.n = s.n)
    (h1 : s'.isNull = s.isNull) (h2 : s'.populated = s.populated) (h3 : s'.done = s.done)
    (h4 : s'.lock = s.lock) : Good s' r pc := by
  refine ⟨?_, ?_, ?_, ?_, ?_, g.ret_ok⟩
  · rw [h4]; exact g.holder
  · rw [hn]; exact g.bound
  · rw [h1, h3]; exact g.range_ok
  · rw [h2]; exact g.wrote_pop
  · rw [h3]; exact g.fresh

/-- only the program counter of `r` changes -/
theorem inv_setR (s : St) (h : Inv s) (r : Nat) (pc0 pc' : PC) (hr : s.readers[r]? = some pc0)
    (hgood : Good s r pc') (hh : ∀ i, pc0.holds = some i → pc'.holds = some i) : Inv (setR s r pc') := by
  refine inv_update s (setR s r pc') h r pc0 pc' hr rfl rfl rfl ⟨h.lens.2.1, h.lens.2.2.1, h.lens.2.2.2⟩
    (fun _ h => h) h.done_pop (fun _ h => h) (fun _ h => Or.inl h) (fun _ => Or.inl rfl)
    (hgood.congr rfl rfl rfl rfl rfl) ?_
  intro i hi
  obtain ⟨pc, hpc, hh'⟩ := h.lock_holder i r hi
  rw [hr] at hpc; cases hpc
  exact hh i hh'

theorem inv_start (s s' : St) (r : Nat) (range : List Nat) (h : Inv s)
    (hs : step s (.start r range) = some s') : Inv s' := by
  simp only [step] at hs
  split at hs
  · rename_i hr
    split at hs
    · rename_i hall
      injection hs with hs; subst hs
      rw [List.all_eq_true] at hall
      refine inv_setR s h r _ _ hr ?_ (by simp [PC.holds])
      constructor
      · simp [PC.holds]
      · intro j hj
        simp only [PC.range, PC.pending, PC.holds, List.mem_filter] at hj
        rcases hj with hj | hj | hj
        · simpa using hall j hj
        · simpa using hall j hj.1
        · simp at hj
      · intro j hj
        simp only [PC.range] at hj
        simp only [PC.pending, List.mem_filter]
        cases hd : s.done.getD j false <;> cases hn : s.isNull.getD j false <;> simp [hj]
      · simp [PC.wrote]
      · simp [PC.loading]
      · simp
    · simp at hs
  · simp at hs

theorem inv_acquire (s s' : St) (r : Nat) (h : Inv s) (hs : step s (.acquire r) = some s') : Inv s' := by
  simp only [step] at hs
  split at hs
  · rename_i range i todo hr
    split at hs
    · rename_i hlk
      injection hs with hs; subst hs
      have g := h.good r _ hr
      have hi : i < s.n := g.bound i (Or.inr (Or.inl (by simp [PC.pending])))
      have hil : i < s.lock.length := by rw [h.lens.2.2.2]; exact hi
      refine inv_update s _ h r _ (.locked range todo i) hr rfl rfl rfl
        ⟨h.lens.2.1, h.lens.2.2.1, by simp [h.lens.2.2.2]⟩
        (fun _ h => h) h.done_pop (fun _ h => h) (fun _ h => Or.inl h) ?_ ?_ ?_
      · intro j
        simp only [getD_set]
        by_cases hij : i = j
        · subst hij; right; left; exact ⟨by simp [hil], hlk⟩
        · left; simp [hij]
      · constructor
        · intro j hj
          simp only [PC.holds, Option.some.injEq] at hj; subst hj
          simp [hil]
        · intro j hj
          apply g.bound j
          simp only [PC.range, PC.pending, PC.holds, List.mem_cons, Option.some.injEq] at hj ⊢
          rcases hj with hj | hj | hj
          · exact Or.inl hj
          · exact Or.inr (Or.inl hj)
          · exact Or.inr (Or.inl (Or.inl hj.symm))
        · exact g.range_ok
        · simp [PC.wrote]
        · simp [PC.loading]
        · simp
      · intro j hj
        simp only [getD_set] at hj
        split at hj
        · rename_i hc; simp [PC.holds, hc.1]
        · obtain ⟨pc, hpc, hh'⟩ := h.lock_holder j r hj
          rw [hr] at hpc; cases hpc
          simp [PC.holds] at hh'
    · simp at hs
  · simp at hs

theorem inv_ready (s s' : St) (r : Nat) (h : Inv s) (hs : step s (.ready r) = some s') : Inv s' := by
  simp only [step] at hs
  split at hs
  · rename_i range hr
    injection hs with hs; subst hs
    have g := h.good r _ hr
    refine inv_setR s h r _ _ hr ?_ (by simp [PC.holds])
    constructor
    · simp [PC.holds]
    · intro j hj
      apply g.bound j
      simpa [PC.range, PC.pending, PC.holds] using hj
    · intro j hj
      have := g.range_ok j hj
      simpa [PC.pending] using this
    · simp [PC.wrote]
    · simp [PC.loading]
    · simp
  · simp at hs

theorem inv_preload (s s' : St) (r i : Nat) (h : Inv s) (hs : step s (.preload r i) = some s') : Inv s' := by
  simp only [step] at hs
  split at hs
  · rename_i hr
    split at hs
    · rename_i hi
      injection hs with hs; subst hs
      refine inv_setR s h r _ _ hr ?_ (by simp [PC.holds])
      constructor
      · simp [PC.holds]
      · intro j hj
        simp only [PC.range, PC.pending, PC.holds] at hj
        rcases hj with hj | hj | hj
        · simp at hj
        · simp at hj; omega
        · simp at hj
      · simp [PC.range]
      · simp [PC.wrote]
      · simp [PC.loading]
      · simp
    · simp at hs
  · simp at hs

theorem inv_loaded (s s' : St) (r : Nat) (h : Inv s) (hs : step s (.loaded r) = some s') : Inv s' := by
  simp only [step] at hs
  split at hs
  · rename_i hr
    injection hs with hs; subst hs
    refine inv_setR s h r _ _ hr ?_ (by simp [PC.holds])
    constructor <;> simp [PC.holds, PC.range, PC.pending, PC.wrote, PC.loading]
  · simp at hs

/-- `r` releases the mutex of chunk `i` and moves to a state that holds nothing -/
theorem inv_unlock (s : St) (h : Inv s) (r : Nat) (pc0 pc' : PC) (i : Nat)
    (hr : s.readers[r]? = some pc0) (h0 : pc0.holds = some i) (h' : pc'.holds = none)
    (hgood : Good s r pc') : Inv { setR s r pc' with lock := s.lock.set i none } := by
  have g := h.good r _ hr
  have hlk := g.holder i h0
  have hil : i < s.lock.length := lt_of_getD_ne _ _ none (by rw [hlk]; simp)
  refine inv_update s _ h r pc0 pc' hr rfl rfl rfl
    ⟨h.lens.2.1, h.lens.2.2.1, by simp [h.lens.2.2.2]⟩
    (fun _ h => h) h.done_pop (fun _ h => h) (fun _ h => Or.inl h) ?_ ?_ ?_
  · intro j
    simp only [getD_set]
    by_cases hij : i = j
    · subst hij; right; right; exact ⟨by simp [hil], hlk⟩
    · left; simp [hij]
  · refine ⟨?_, hgood.bound, hgood.range_ok, hgood.wrote_pop, hgood.fresh, hgood.ret_ok⟩
    intro j hj; rw [h'] at hj; simp at hj
  · intro j hj
    simp only [getD_set] at hj
    split at hj
    · simp at hj
    · rename_i hc
      obtain ⟨pc, hpc, hh'⟩ := h.lock_holder j r hj
      rw [hr] at hpc; cases hpc
      rw [h0] at hh'; simp at hh'; subst hh'
      exact absurd ⟨rfl, hil⟩ hc

theorem inv_check (s s' : St) (r : Nat) (h : Inv s) (hs : step s (.check r) = some s') : Inv s' := by
  simp only [step] at hs
  split at hs
  · rename_i range todo i hr
    have g := h.good r _ hr
    split at hs
    · rename_i hd
      injection hs with hs; subst hs
      refine inv_setR s h r _ _ hr ?_ (by simp [PC.holds])
      refine ⟨g.holder, ?_, ?_, ?_, by simp [PC.loading], by simp⟩
      · intro j hj
        apply g.bound j
        simp only [PC.range, PC.pending, PC.holds, List.mem_cons] at hj ⊢
        rcases hj with hj | hj | hj
        · exact Or.inl hj
        · exact Or.inr (Or.inl (Or.inr hj))
        · exact Or.inr (Or.inr hj)
      · intro j hj
        rcases g.range_ok j hj with h1 | h1
        · simp only [PC.pending, List.mem_cons] at h1 ⊢
          rcases h1 with rfl | h1
          · exact Or.inr (Or.inr hd)
          · exact Or.inl h1
        · exact Or.inr h1
      · intro j hj
        simp only [PC.wrote, Option.some.injEq] at hj; subst hj
        exact h.done_pop _ hd
    · rename_i hd
      injection hs with hs; subst hs
      refine inv_setR s h r _ _ hr ?_ (by simp [PC.holds])
      refine ⟨g.holder, g.bound, g.range_ok, by simp [PC.wrote], ?_, by simp⟩
      intro j hj
      simp only [PC.loading, Option.some.injEq] at hj; subst hj
      simpa using hd
  · simp at hs

theorem inv_fetchOk (s s' : St) (r : Nat) (h : Inv s) (hs : step s (.fetchOk r) = some s') : Inv s' := by
  simp only [step] at hs
  split at hs
  · rename_i range todo i hr
    have g := h.good r _ hr
    injection hs with hs; subst hs
    refine inv_setR s h r _ _ hr ?_ (by simp [PC.holds])
    exact ⟨g.holder, g.bound, g.range_ok, by simp [PC.wrote], g.fresh, by simp⟩
  · simp at hs

/-- a load fails: the reader keeps the mutex and the chunk stays not done -/
theorem good_failed (s : St) (r i : Nat) (range : List Nat) (pc : PC) (g : Good s r pc)
    (hh : pc.holds = some i) (hl : pc.loading = some i) : Good s r (.failed range i) := by
  refine ⟨?_, ?_, by simp [PC.range], by simp [PC.wrote], ?_, by simp⟩
  · intro j hj
    simp only [PC.holds, Option.some.injEq] at hj; subst hj
    exact g.holder _ hh
  · intro j hj
    simp only [PC.range, PC.pending, PC.holds] at hj
    rcases hj with hj | hj | hj
    · simp at hj
    · simp at hj
    · simp at hj; subst hj; exact g.bound _ (Or.inr (Or.inr hh))
  · intro j hj
    simp only [PC.loading, Option.some.injEq] at hj; subst hj
    exact g.fresh _ hl

theorem inv_fetchFail (s s' : St) (r : Nat) (h : Inv s) (hs : step s (.fetchFail r) = some s') : Inv s' := by
  simp only [step] at hs
  split at hs
  · rename_i range todo i hr
    injection hs with hs; subst hs
    exact inv_setR s h r _ _ hr (good_failed s r i range _ (h.good r _ hr) rfl rfl) (by simp [PC.holds])
  · simp at hs

theorem inv_dataFail (s s' : St) (r : Nat) (h : Inv s) (hs : step s (.dataFail r) = some s') : Inv s' := by
  simp only [step] at hs
  split at hs
  · rename_i range todo i hr
    injection hs with hs; subst hs
    exact inv_setR s h r _ _ hr (good_failed s r i range _ (h.good r _ hr) rfl rfl) (by simp [PC.holds])
  · simp at hs

theorem inv_writeFail (s s' : St) (r : Nat) (h : Inv s) (hs : step s (.writeFail r) = some s') : Inv s' := by
  simp only [step] at hs
  split at hs
  · rename_i range todo i hr
    injection hs with hs; subst hs
    exact inv_setR s h r _ _ hr (good_failed s r i range _ (h.good r _ hr) rfl rfl) (by simp [PC.holds])
  · simp at hs

theorem inv_release (s s' : St) (r : Nat) (h : Inv s) (hs : step s (.release r) = some s') : Inv s' := by
  simp only [step] at hs
  split at hs
  · rename_i range todo i hr
    have g := h.good r _ hr
    injection hs with hs; subst hs
    refine inv_unlock s h r _ _ i hr (by simp [PC.holds]) (by simp [PC.holds]) ?_
    refine ⟨by simp [PC.holds], ?_, g.range_ok, by simp [PC.wrote], by simp [PC.loading], by simp⟩
    intro j hj
    apply g.bound j
    simp only [PC.range, PC.pending, PC.holds] at hj ⊢
    rcases hj with hj | hj | hj
    · exact Or.inl hj
    · exact Or.inr (Or.inl hj)
    · simp at hj
  · rename_i range i hr
    injection hs with hs; subst hs
    refine inv_unlock s h r _ _ i hr (by simp [PC.holds]) (by simp [PC.holds]) ?_
    constructor <;> simp [PC.holds, PC.range, PC.pending, PC.wrote, PC.loading]
  · simp at hs

theorem inv_read (s s' : St) (r : Nat) (h : Inv s) (hs : step s (.read r) = some s') : Inv s' := by
  simp only [step] at hs
  split at hs
  · rename_i range hr
    have g := h.good r _ hr
    injection hs with hs; subst hs
    refine inv_setR s h r _ _ hr ?_ (by simp [PC.holds])
    refine ⟨by simp [PC.holds], by simp [PC.holds, PC.range, PC.pending], by simp [PC.range],
      by simp [PC.wrote], by simp [PC.loading], ?_⟩
    intro range' sb he
    injection he with _ h2 h3
    subst h2; subst h3
    rw [List.all_eq_true]
    intro j hj
    rcases g.range_ok j hj with h1 | h1 | h1
    · simp [PC.pending] at h1
    · simpa using h.null_pop j h1
    · simpa using h.done_pop j h1
  · simp at hs

theorem inv_write (s s' : St) (r : Nat) (h : Inv s) (hs : step s (.write r) = some s') : Inv s' := by
  simp only [step] at hs
  split at hs
  · rename_i range todo i hr
    have g := h.good r _ hr
    have hi : i < s.n := g.bound i (Or.inr (Or.inr (by simp [PC.holds])))
    have hip : i < s.populated.length := by rw [h.lens.2.1]; exact hi
    injection hs with hs; subst hs
    have hpop : ∀ j, s.populated.getD j false = true → (s.populated.set i true).getD j false = true := by
      intro j hj; rw [getD_set]; split
      · rfl
      · exact hj
    refine inv_update s _ h r _ (.written range todo i) hr rfl rfl rfl
      ⟨by simp [h.lens.2.1], h.lens.2.2.1, h.lens.2.2.2⟩
      hpop (fun j hj => hpop j (h.done_pop j hj)) (fun _ h => h) (fun _ h => Or.inl h)
      (fun _ => Or.inl rfl) ?_ ?_
    · refine ⟨g.holder, g.bound, g.range_ok, ?_, g.fresh, by simp⟩
      intro j hj
      simp only [PC.wrote, Option.some.injEq] at hj; subst hj
      show (s.populated.set i true).getD i false = true
      rw [getD_set]; simp [hip]
    · intro j hj
      obtain ⟨pc, hpc, hh'⟩ := h.lock_holder j r hj
      rw [hr] at hpc; cases hpc
      exact hh'
  · simp at hs

theorem inv_mark (s s' : St) (r : Nat) (h : Inv s) (hs : step s (.mark r) = some s') : Inv s' := by
  simp only [step] at hs
  split at hs
  · rename_i range todo i hr
    have g := h.good r _ hr
    have hi : i < s.n := g.bound i (Or.inr (Or.inr (by simp [PC.holds])))
    have hid : i < s.done.length := by rw [h.lens.2.2.1]; exact hi
    have hwp := g.wrote_pop i (by simp [PC.wrote])
    injection hs with hs; subst hs
    have hdi : (s.done.set i true).getD i false = true := by rw [getD_set]; simp [hid]
    have hdm : ∀ j, s.done.getD j false = true → (s.done.set i true).getD j false = true := by
      intro j hj; rw [getD_set]; split
      · rfl
      · exact hj
    refine inv_update s _ h r _ (.marked range todo i) hr rfl rfl rfl
      ⟨h.lens.2.1, by simp [h.lens.2.2.1], h.lens.2.2.2⟩
      (fun _ h => h) ?_ hdm ?_ (fun _ => Or.inl rfl) ?_ ?_
    · intro j hj
      show s.populated.getD j false = true
      change (s.done.set i true).getD j false = true at hj
      rw [getD_set] at hj
      split at hj
      · rename_i hc; rw [← hc.1]; exact hwp
      · exact h.done_pop j hj
    · intro j hj
      change (s.done.set i true).getD j false = true at hj
      rw [getD_set] at hj
      split at hj
      · rename_i hc; right; simp [PC.holds, hc.1]
      · exact Or.inl hj
    · refine ⟨g.holder, ?_, ?_, g.wrote_pop, by simp [PC.loading], by simp⟩
      · intro j hj
        apply g.bound j
        simp only [PC.range, PC.pending, PC.holds, List.mem_cons] at hj ⊢
        rcases hj with hj | hj | hj
        · exact Or.inl hj
        · exact Or.inr (Or.inl (Or.inr hj))
        · exact Or.inr (Or.inr hj)
      · intro j hj
        show j ∈ todo ∨ s.isNull.getD j false = true ∨ (s.done.set i true).getD j false = true
        rcases g.range_ok j hj with h1 | h1 | h1
        · simp only [PC.pending, List.mem_cons] at h1
          rcases h1 with rfl | h1
          · exact Or.inr (Or.inr hdi)
          · exact Or.inl h1
        · exact Or.inr (Or.inl h1)
        · exact Or.inr (Or.inr (hdm j h1))
    · intro j hj
      obtain ⟨pc, hpc, hh'⟩ := h.lock_holder j r hj
      rw [hr] at hpc; cases hpc
      exact hh'
  · simp at hs

theorem inv_step (s s' : St) (e : Ev) (h : Inv s) (hs : step s e = some s') : Inv s' := by
  cases e with
  | start r range => exact inv_start s s' r range h hs
  | preload r i => exact inv_preload s s' r i h hs
  | acquire r => exact inv_acquire s s' r h hs
  | ready r => exact inv_ready s s' r h hs
  | check r => exact inv_check s s' r h hs
  | fetchOk r => exact inv_fetchOk s s' r h hs
  | fetchFail r => exact inv_fetchFail s s' r h hs
  | dataFail r => exact inv_dataFail s s' r h hs
  | write r => exact inv_write s s' r h hs
  | writeFail r => exact inv_writeFail s s' r h hs
  | loaded r => exact inv_loaded s s' r h hs
  | mark r => exact inv_mark s s' r h hs
  | release r => exact inv_release s s' r h hs
  | read r => exact inv_read s s' r h hs

theorem inv_reachable (isNull : List Bool) (k : Nat) (s : St)
    (h : Reachable (St.init isNull k) s) : Inv s := by
  induction h with
  | refl => exact inv_init isNull k
  | step e _ hs ih => exact inv_step _ _ e ih hs

/-- the invariant also holds along `run` (schedules in which disabled events are skipped) -/
theorem inv_run (s : St) (es : List Ev) (h : Inv s) : Inv (run s es) := by
  induction es generalizing s with
  | nil => exact h
  | cons e es ih =>
    simp only [run]
    apply ih
    cases hs : step s e with
    | none => simpa using h
    | some s' => simpa using inv_step s s' e h hs

/-- **safety, all interleavings**: a reader that returns successfully has seen the blob's bytes on
    its whole range, never the unpopulated zeros of the cache file -/
theorem read_sees_blob (isNull : List Bool) (k : Nat) (s : St) (h : Reachable (St.init isNull k) s)
    (r : Nat) (range : List Nat) (sawBlob : Bool)
    (hr : s.readers[r]? = some (.returned true range sawBlob)) : sawBlob = true :=
  ((inv_reachable isNull k s h).good r _ hr).ret_ok range sawBlob rfl

/-- mutual exclusion: at most one reader is between `acquire` and `release` for a chunk -/
theorem single_loader (isNull : List Bool) (k : Nat) (s : St) (h : Reachable (St.init isNull k) s)
    (r1 r2 i : Nat) (pc1 pc2 : PC) (h1 : s.readers[r1]? = some pc1) (h2 : s.readers[r2]? = some pc2)
    (hh1 : pc1.holds = some i) (hh2 : pc2.holds = some i) : r1 = r2 := by
  have hI := inv_reachable isNull k s h
  have a := (hI.good r1 pc1 h1).holder i hh1
  have b := (hI.good r2 pc2 h2).holder i hh2
  rw [a] at b; simpa using b

/-- a chunk is never loaded or written once it is marked done: a reader with a store request in
    flight, or about to `WriteAt`, or about to set the done bit, sees `done i = false` -/
theorem no_reload (isNull : List Bool) (k : Nat) (s : St) (h : Reachable (St.init isNull k) s)
    (r i : Nat) (pc : PC) (hr : s.readers[r]? = some pc) (hl : pc.loading = some i) :
    s.done.getD i false = false :=
  ((inv_reachable isNull k s h).good r pc hr).fresh i hl

/-- a reader only reaches `readFile range` when every non-null chunk of `range` is done; in particular
    a failed load (which leaves `done` unset) makes a later reader load the chunk again -/
theorem readFile_all_done (isNull : List Bool) (k : Nat) (s : St) (h : Reachable (St.init isNull k) s)
    (r : Nat) (range : List Nat) (hr : s.readers[r]? = some (.readFile range)) :
    ∀ i ∈ range, s.isNull.getD i false = true ∨ s.done.getD i false = true := by
  intro i hi
  rcases ((inv_reachable isNull k s h).good r _ hr).range_ok i hi with h1 | h1
  · simp [PC.pending] at h1
  · exact h1

/-- a reader in a lock-holding state always has an enabled event (in any state, no invariant
    needed): holders never wait for anything -/
theorem holder_enabled (s : St) (r i : Nat) (pc : PC) (hr : s.readers[r]? = some pc)
    (hh : pc.holds = some i) : ∃ e s', e.reader = r ∧ step s e = some s' := by
  cases pc with
  | idle => simp [PC.holds] at hh
  | want => simp [PC.holds] at hh
  | readFile => simp [PC.holds] at hh
  | returned => simp [PC.holds] at hh
  | locked range todo j =>
    by_cases hd : s.done.getD j false = true
    · exact ⟨.check r, _, rfl, by simp only [step, hr, hd]; rfl⟩
    · exact ⟨.check r, _, rfl, by simp only [step, hr, hd]; rfl⟩
  | fetching range todo j => exact ⟨.fetchOk r, _, rfl, by simp only [step, hr]; rfl⟩
  | fetched range todo j => exact ⟨.write r, _, rfl, by simp only [step, hr]; rfl⟩
  | written range todo j => exact ⟨.mark r, _, rfl, by simp only [step, hr]; rfl⟩
  | marked range todo j => exact ⟨.release r, _, rfl, by simp only [step, hr]; rfl⟩
  | failed range j => exact ⟨.release r, _, rfl, by simp only [step, hr]; rfl⟩

/-- **no deadlock / no lost wake-up**: in every reachable state, every reader that is neither idle
    nor returned has an enabled event of its own, unless it waits (state `want range (i :: todo)`)
    for a mutex held by another reader `r'`, and that holder has an enabled event of its own -/
theorem no_deadlock (isNull : List Bool) (k : Nat) (s : St) (h : Reachable (St.init isNull k) s)
    (r : Nat) (pc : PC) (hr : s.readers[r]? = some pc)
    (hact : pc ≠ .idle ∧ ∀ ok rg sb, pc ≠ .returned ok rg sb) :
    (∃ e s', step s e = some s') ∧
    ((∃ e s', e.reader = r ∧ step s e = some s') ∨
     (∃ range i todo r', pc = .want range (i :: todo) ∧ s.lock.getD i none = some r' ∧ r' ≠ r ∧
        ∃ e s', e.reader = r' ∧ step s e = some s')) := by
  have hI := inv_reachable isNull k s h
  have key : (∃ e s', e.reader = r ∧ step s e = some s') ∨
     (∃ range i todo r', pc = .want range (i :: todo) ∧ s.lock.getD i none = some r' ∧ r' ≠ r ∧
        ∃ e s', e.reader = r' ∧ step s e = some s') := by
    cases pc with
    | idle => exact absurd rfl hact.1
    | returned ok rg sb => exact absurd rfl (hact.2 ok rg sb)
    | readFile range => exact Or.inl ⟨.read r, _, rfl, by simp only [step, hr]; rfl⟩
    | locked range todo j => exact Or.inl (holder_enabled s r j _ hr rfl)
    | fetching range todo j => exact Or.inl (holder_enabled s r j _ hr rfl)
    | fetched range todo j => exact Or.inl (holder_enabled s r j _ hr rfl)
    | written range todo j => exact Or.inl (holder_enabled s r j _ hr rfl)
    | marked range todo j => exact Or.inl (holder_enabled s r j _ hr rfl)
    | failed range j => exact Or.inl (holder_enabled s r j _ hr rfl)
    | want range todo =>
      cases todo with
      | nil => exact Or.inl ⟨.ready r, _, rfl, by simp only [step, hr]; rfl⟩
      | cons i todo =>
        cases hl : s.lock.getD i none with
        | none => exact Or.inl ⟨.acquire r, _, rfl, by simp only [step, hr, hl]; rfl⟩
        | some r' =>
          obtain ⟨pc', hpc', hh'⟩ := hI.lock_holder i r' hl
          refine Or.inr ⟨range, i, todo, r', rfl, hl, ?_, holder_enabled s r' i pc' hpc' hh'⟩
          rintro rfl
          rw [hr] at hpc'; cases hpc'
          simp [PC.holds] at hh'
  refine ⟨?_, key⟩
  rcases key with ⟨e, s', _, he⟩ | ⟨_, _, _, _, _, _, _, e, s', _, he⟩
  · exact ⟨e, s', he⟩
  · exact ⟨e, s', he⟩

/-- the populated form of the progress bookkeeping: every chunk of a reader's range that is not
    pending (not in `todo`, and not the chunk it is loading) holds the blob's bytes -/
theorem range_populated (isNull : List Bool) (k : Nat) (s : St) (h : Reachable (St.init isNull k) s)
    (r : Nat) (pc : PC) (hr : s.readers[r]? = some pc) :
    (∀ j ∈ pc.range, j < s.n) ∧
    (∀ j ∈ pc.range, j ∉ pc.pending → s.populated.getD j false = true) ∧
    (∀ i, pc.wrote = some i → s.populated.getD i false = true) := by
  have hI := inv_reachable isNull k s h
  have g := hI.good r pc hr
  refine ⟨fun j hj => g.bound j (Or.inl hj), ?_, g.wrote_pop⟩
  intro j hj hnp
  rcases g.range_ok j hj with h1 | h1 | h1
  · exact absurd h1 hnp
  · exact hI.null_pop j h1
  · exact hI.done_pop j h1

/-- retry, part 1a: each way a load can fail (store call, `Data()`, opening or writing the cache file)
    puts the reader into `failed` for the chunk it was loading, with everything else unchanged -/
theorem fail_to_failed (s s' : St) (r : Nat) (e : Ev)
    (he : e = .fetchFail r ∨ e = .dataFail r ∨ e = .writeFail r) (hs : step s e = some s') :
    ∃ pc range i, s.readers[r]? = some pc ∧ pc.loading = some i ∧ pc.range = range ∧
      s'.readers[r]? = some (.failed range i) ∧
      s'.done = s.done ∧ s'.lock = s.lock ∧ s'.populated = s.populated := by
  have hset : ∀ pc pc', s.readers[r]? = some pc → (setR s r pc').readers[r]? = some pc' := by
    intro pc pc' hr
    have hrl : r < s.readers.length := by
      rcases Nat.lt_or_ge r s.readers.length with h' | h'
      · exact h'
      · simp [List.getElem?_eq_none h'] at hr
    show (s.readers.set r _)[r]? = _
    simp [hrl]
  rcases he with rfl | rfl | rfl <;> simp only [step] at hs <;> split at hs
  · rename_i range todo i hr
    injection hs with hs; subst hs
    exact ⟨_, range, i, hr, rfl, rfl, hset _ _ hr, rfl, rfl, rfl⟩
  · simp at hs
  · rename_i range todo i hr
    injection hs with hs; subst hs
    exact ⟨_, range, i, hr, rfl, rfl, hset _ _ hr, rfl, rfl, rfl⟩
  · simp at hs
  · rename_i range todo i hr
    injection hs with hs; subst hs
    exact ⟨_, range, i, hr, rfl, rfl, hset _ _ hr, rfl, rfl, rfl⟩
  · simp at hs

/-- retry, part 1b: in every reachable state a reader whose load of chunk `i` failed sees the chunk
    not done; its `release` is enabled and leaves the chunk not done, the mutex free, and the reader
    returning an error (never a successful read) -/
theorem failed_not_done (isNull : List Bool) (k : Nat) (s : St)
    (h : Reachable (St.init isNull k) s) (r i : Nat) (range : List Nat)
    (hr : s.readers[r]? = some (.failed range i)) :
    s.done.getD i false = false ∧
    ∃ s', step s (.release r) = some s' ∧
      s'.done.getD i false = false ∧ s'.lock.getD i none = none ∧
      s'.readers[r]? = some (.returned false range false) := by
  have hI := inv_reachable isNull k s h
  have g := hI.good r _ hr
  have hlk := g.holder i rfl
  have hil : i < s.lock.length := lt_of_getD_ne _ _ none (by rw [hlk]; simp)
  have hrl : r < s.readers.length := by
    rcases Nat.lt_or_ge r s.readers.length with h' | h'
    · exact h'
    · simp [List.getElem?_eq_none h'] at hr
  refine ⟨g.fresh i rfl, { setR s r (.returned false range false) with lock := s.lock.set i none },
    by simp only [step, hr], g.fresh i rfl, ?_, ?_⟩
  · show (s.lock.set i none).getD i none = none
    rw [getD_set]; simp [hil]
  · show (s.readers.set r _)[r]? = _
    simp [hrl]

/-- retry, part 3: a reader that finds the chunk not done under the mutex fetches it (again) -/
theorem check_undone_fetches (s : St) (r i : Nat) (range todo : List Nat)
    (hr : s.readers[r]? = some (.locked range todo i)) (hd : s.done.getD i false = false) :
    step s (.check r) = some (setR s r (.fetching range todo i)) := by
  simp only [step, hr, hd]; rfl

/-- a strictly replayed trace ends in a reachable state -/
theorem replay_reachable (s0 s s' : St) (es : List Ev) (h : Reachable s0 s)
    (hr : replay s es = some s') : Reachable s0 s' := by
  induction es generalizing s with
  | nil => simp only [replay] at hr; injection hr with hr; subst hr; exact h
  | cons e es ih =>
    simp only [replay] at hr
    split at hr
    · rename_i s1 hs
      exact ih s1 (Reachable.step e h hs) hr
    · simp at hr

/-- retry, part 2: a reader that starts while a non-null chunk of its range is not done puts that
    chunk on its to-do list (it will load it, not be served the unpopulated range) -/
theorem start_todo (s s' : St) (r : Nat) (range : List Nat) (hs : step s (.start r range) = some s') :
    ∃ todo, s'.readers[r]? = some (.want range todo) ∧
      ∀ i ∈ range, s.done.getD i false = false → s.isNull.getD i false = false → i ∈ todo := by
  simp only [step] at hs
  split at hs
  · rename_i hr
    have hrl : r < s.readers.length := by
      rcases Nat.lt_or_ge r s.readers.length with h' | h'
      · exact h'
      · simp [List.getElem?_eq_none h'] at hr
    split at hs
    · injection hs with hs; subst hs
      refine ⟨range.filter fun i => !(s.done.getD i false) && !(s.isNull.getD i false), ?_, ?_⟩
      · show (s.readers.set r _)[r]? = _
        rw [List.getElem?_set_self hrl]
      intro i hi hd hn
      rw [List.mem_filter]; exact ⟨hi, by rw [hd, hn]; rfl⟩
    · simp at hs
  · simp at hs


end Desync.SparseConc
