/-
  `FailoverGroup` under concurrency (Model/Failover.lean): with a permanently healthy member no
  request ever fails, in every interleaving; the lock discipline; progress.
-/
import Desync.Model.Failover

namespace Desync.Failover

/-- distance from `a` to the healthy member `h` going forward (mod `n`) -/
def d (n h a : Nat) : Nat := (h + n - a % n) % n

/-- distance from `a` to the healthy member going forward -/
def dist (s : St) (a : Nat) : Nat := d s.n s.h a

theorem d_eq {n h a : Nat} (hh : h < n) (ha : a < n) :
    d n h a = if a ≤ h then h - a else h + n - a := by
  unfold d
  rw [Nat.mod_eq_of_lt ha]
  split
  · have : h + n - a = (h - a) + n := by omega
    rw [this, Nat.add_mod_right]
    exact Nat.mod_eq_of_lt (by omega)
  · exact Nat.mod_eq_of_lt (by omega)

theorem d_lt {n h a : Nat} (hn : 1 ≤ n) : d n h a < n := Nat.mod_lt _ (by omega)

theorem d_self {n h : Nat} (hh : h < n) : d n h h = 0 := by
  rw [d_eq hh hh]; simp

theorem d_eq_zero {n h a : Nat} (hh : h < n) (ha : a < n) (h0 : d n h a = 0) : a = h := by
  rw [d_eq hh ha] at h0
  split at h0 <;> omega

theorem d_inj {n h a b : Nat} (hh : h < n) (ha : a < n) (hb : b < n)
    (he : d n h a = d n h b) : a = b := by
  rw [d_eq hh ha, d_eq hh hb] at he
  split at he <;> split at he <;> omega

theorem succ_mod_lt {n a : Nat} (hn : 1 ≤ n) : (a + 1) % n < n := Nat.mod_lt _ (by omega)

/-- advancing from a member other than `h` gets one step closer to `h` -/
theorem d_succ {n h a : Nat} (hh : h < n) (ha : a < n) (hne : a ≠ h) :
    d n h ((a + 1) % n) + 1 = d n h a := by
  have hn : 1 ≤ n := by omega
  rw [d_eq hh (succ_mod_lt hn), d_eq hh ha]
  rcases Nat.lt_or_ge (a + 1) n with h1 | h1
  · rw [Nat.mod_eq_of_lt h1]
    split <;> split <;> omega
  · have : a + 1 = n := by omega
    rw [this, Nat.mod_self]
    split <;> split <;> omega

/-! ### the step function as a relation -/

/-- the caller an event belongs to -/
def Ev.caller : Ev → Nat
  | .wantR t => t
  | .rlock t => t
  | .runlock t => t
  | .call t _ => t
  | .ret t _ => t
  | .wantW t => t
  | .lock t => t
  | .errFrom t => t
  | .unlock t => t
  | .giveUp t => t

/-- `Tr s pc e pc' act'`: in state `s` the caller of `e`, at `pc`, may take `e`; it continues at `pc'`
    and leaves `active = act'` -/
inductive Tr (s : St) : PC → Ev → PC → Nat → Prop
  | wantR (t i : Nat) : i < s.n → Tr s (.next i) (.wantR t) (.wantR i) s.active
  | giveUp (t i : Nat) : ¬ i < s.n → Tr s (.next i) (.giveUp t) .failed s.active
  | rlock (t i : Nat) : rlockFree s = true → Tr s (.wantR i) (.rlock t) (.holdR i s.active) s.active
  | runlock (t i a : Nat) : Tr s (.holdR i a) (.runlock t) (.toCall i a) s.active
  | call (t i a : Nat) : Tr s (.toCall i a) (.call t a) (.calling i a) s.active
  | retOk (t i a : Nat) (o : Out) (op : Op) (p : Bool) : s.reqs[t]? = some (op, p) →
      classify op o = some true → (a = s.h ∨ s.truthful = true → o = truth op p) →
      Tr s (.calling i a) (.ret t o) (.ok o a) s.active
  | retErr (t i a : Nat) (o : Out) (op : Op) (p : Bool) : s.reqs[t]? = some (op, p) →
      classify op o = some false → a ≠ s.h →
      Tr s (.calling i a) (.ret t o) (.erred i a) s.active
  | wantW (t i a : Nat) : Tr s (.erred i a) (.wantW t) (.wantW i a) s.active
  | lock (t i a : Nat) : lockFree s = true → Tr s (.wantW i a) (.lock t) (.holdW i a) s.active
  | advance (t i : Nat) : Tr s (.holdW i s.active) (.errFrom t) (.advd i) ((s.active + 1) % s.n)
  | stale (t i a : Nat) : a ≠ s.active → Tr s (.holdW i a) (.errFrom t) (.advd i) s.active
  | unlock (t i : Nat) : Tr s (.advd i) (.unlock t) (.next (i + 1)) s.active

theorem classify_truth (op : Op) (p : Bool) : classify op (truth op p) = some true := by
  cases op <;> cases p <;> rfl

/-- every step is one caller's transition: nothing but its program counter and `active` changes -/
theorem step_spec {s s' : St} {e : Ev} (hs : step s e = some s') :
    ∃ pc pc' act', s.callers[e.caller]? = some pc ∧ Tr s pc e pc' act' ∧
      s' = { s with active := act', callers := s.callers.set e.caller pc' } := by
  cases e with
  | wantR t =>
    simp only [step] at hs
    split at hs
    · rename_i i hpc
      split at hs
      · rename_i hlt
        injection hs with hs; subst hs
        exact ⟨_, _, _, hpc, .wantR t i hlt, rfl⟩
      · cases hs
    · cases hs
  | giveUp t =>
    simp only [step] at hs
    split at hs
    · rename_i i hpc
      split at hs
      · cases hs
      · rename_i hlt
        injection hs with hs; subst hs
        exact ⟨_, _, _, hpc, .giveUp t i hlt, rfl⟩
    · cases hs
  | rlock t =>
    simp only [step] at hs
    split at hs
    · rename_i i hpc
      split at hs
      · rename_i hf
        injection hs with hs; subst hs
        exact ⟨_, _, _, hpc, .rlock t i hf, rfl⟩
      · cases hs
    · cases hs
  | runlock t =>
    simp only [step] at hs
    split at hs
    · rename_i i a hpc
      injection hs with hs; subst hs
      exact ⟨_, _, _, hpc, .runlock t i a, rfl⟩
    · cases hs
  | call t m =>
    simp only [step] at hs
    split at hs
    · rename_i i a hpc
      split at hs
      · rename_i hm
        injection hs with hs; subst hs; subst hm
        exact ⟨_, _, _, hpc, .call t i m, rfl⟩
      · cases hs
    · cases hs
  | ret t o =>
    simp only [step] at hs
    split at hs
    · rename_i i a op p hpc hrq
      split at hs
      · cases hs
      · rename_i hcond
        split at hs
        · rename_i hcl
          injection hs with hs; subst hs
          refine ⟨_, _, _, hpc, .retOk t i a o op p hrq hcl ?_, rfl⟩
          intro hor
          apply Classical.byContradiction
          intro hne
          apply hcond
          refine ⟨?_, hne⟩
          rcases hor with h1 | h1
          · exact Or.inl h1
          · exact Or.inr ⟨h1, hcl⟩
        · rename_i hcl
          injection hs with hs; subst hs
          refine ⟨_, _, _, hpc, .retErr t i a o op p hrq hcl ?_, rfl⟩
          intro hah
          apply hcond
          refine ⟨Or.inl hah, ?_⟩
          intro ho
          rw [ho, classify_truth] at hcl
          cases hcl
        · cases hs
    · cases hs
  | wantW t =>
    simp only [step] at hs
    split at hs
    · rename_i i a hpc
      injection hs with hs; subst hs
      exact ⟨_, _, _, hpc, .wantW t i a, rfl⟩
    · cases hs
  | lock t =>
    simp only [step] at hs
    split at hs
    · rename_i i a hpc
      split at hs
      · rename_i hf
        injection hs with hs; subst hs
        exact ⟨_, _, _, hpc, .lock t i a hf, rfl⟩
      · cases hs
    · cases hs
  | errFrom t =>
    simp only [step] at hs
    split at hs
    · rename_i i a hpc
      injection hs with hs; subst hs
      by_cases hact : a = s.active
      · subst hact
        rw [if_pos rfl]
        exact ⟨_, _, _, hpc, .advance t i, rfl⟩
      · rw [if_neg hact]
        exact ⟨_, _, _, hpc, .stale t i a hact, rfl⟩
    · cases hs
  | unlock t =>
    simp only [step] at hs
    split at hs
    · rename_i i hpc
      injection hs with hs; subst hs
      exact ⟨_, _, _, hpc, .unlock t i, rfl⟩
    · cases hs

/-- and conversely: every transition of the relation is a step -/
theorem step_of_tr {s : St} {e : Ev} {pc pc' : PC} {act' : Nat}
    (hpc : s.callers[e.caller]? = some pc) (htr : Tr s pc e pc' act') :
    step s e = some { s with active := act', callers := s.callers.set e.caller pc' } := by
  cases htr with
  | wantR t i hlt => simp only [Ev.caller] at hpc; simp only [step, hpc, if_pos hlt, setC, Ev.caller]
  | giveUp t i hlt => simp only [Ev.caller] at hpc; simp only [step, hpc, if_neg hlt, setC, Ev.caller]
  | rlock t i hf => simp only [Ev.caller] at hpc; simp only [step, hpc, hf, setC, Ev.caller, if_true]
  | runlock t i a => simp only [Ev.caller] at hpc; simp only [step, hpc, setC, Ev.caller]
  | call t i a => simp only [Ev.caller] at hpc; simp only [step, hpc, setC, Ev.caller, if_true]
  | retOk t i a o op p hrq hcl htruth =>
    simp only [Ev.caller] at hpc
    have hc : ¬ ((a = s.h ∨ (s.truthful = true ∧ classify op o = some true)) ∧ o ≠ truth op p) := by
      intro ⟨hor, hne⟩
      apply hne
      apply htruth
      rcases hor with h1 | h1
      · exact Or.inl h1
      · exact Or.inr h1.1
    simp only [step, hpc, hrq]
    rw [if_neg hc]
    simp only [hcl, setC, Ev.caller]
  | retErr t i a o op p hrq hcl hne =>
    simp only [Ev.caller] at hpc
    have hc : ¬ ((a = s.h ∨ (s.truthful = true ∧ classify op o = some true)) ∧ o ≠ truth op p) := by
      intro ⟨hor, _⟩
      rcases hor with h1 | h1
      · exact hne h1
      · rw [hcl] at h1; cases h1.2
    simp only [step, hpc, hrq]
    rw [if_neg hc]
    simp only [hcl, setC, Ev.caller]
  | wantW t i a => simp only [Ev.caller] at hpc; simp only [step, hpc, setC, Ev.caller]
  | lock t i a hf => simp only [Ev.caller] at hpc; simp only [step, hpc, hf, setC, Ev.caller, if_true]
  | advance t i => simp only [Ev.caller] at hpc; simp only [step, hpc, setC, Ev.caller, if_true]
  | stale t i a hne => simp only [Ev.caller] at hpc; simp only [step, hpc, setC, Ev.caller, if_neg hne]
  | unlock t i => simp only [Ev.caller] at hpc; simp only [step, hpc, setC, Ev.caller]

theorem forall_set {P : PC → Prop} {l : List PC} {u : Nat} {new : PC}
    (hall : ∀ (t : Nat) (pc : PC), l[t]? = some pc → P pc) (hnew : P new) :
    ∀ (t : Nat) (pc : PC), (l.set u new)[t]? = some pc → P pc := by
  intro t pc h
  rw [List.getElem?_set] at h
  split at h
  · split at h
    · injection h with h; subst h; exact hnew
    · cases h
  · exact hall t pc h

/-! ### no request fails -/

/-- per-caller invariant (`act` is the shared `active` index) -/
def Good (n h act : Nat) : PC → Prop
  | .next i => i + d n h act ≤ n - 1
  | .wantR i => i + d n h act ≤ n - 1
  | .holdR i a => a < n ∧ i + d n h a ≤ n - 1 ∧ d n h act ≤ d n h a
  | .toCall i a => a < n ∧ i + d n h a ≤ n - 1 ∧ d n h act ≤ d n h a
  | .calling i a => a < n ∧ i + d n h a ≤ n - 1 ∧ d n h act ≤ d n h a
  | .erred i a => a < n ∧ a ≠ h ∧ i + d n h a ≤ n - 1 ∧ d n h act ≤ d n h a
  | .wantW i a => a < n ∧ a ≠ h ∧ i + d n h a ≤ n - 1 ∧ d n h act ≤ d n h a
  | .holdW i a => a < n ∧ a ≠ h ∧ i + d n h a ≤ n - 1 ∧ d n h act ≤ d n h a
  | .advd i => i + 1 + d n h act ≤ n - 1
  | .ok _ _ => True
  | .failed => False

theorem Good.mono {n h act act' : Nat} {pc : PC} (hle : d n h act' ≤ d n h act)
    (hg : Good n h act pc) : Good n h act' pc := by
  cases pc <;> simp only [Good] at hg ⊢ <;> omega

/-- the inductive invariant -/
structure Inv (n h : Nat) (s : St) : Prop where
  hn : s.n = n
  hh : s.h = h
  act : s.active < n
  good : ∀ (t : Nat) (pc : PC), s.callers[t]? = some pc → Good n h s.active pc

theorem inv_init (n h : Nat) (wp tr : Bool) (reqs : List (Op × Bool)) (hn : 1 ≤ n) :
    Inv n h (St.init n h wp tr reqs) := by
  refine ⟨rfl, rfl, ?_, ?_⟩
  · show 0 < n
    omega
  · intro t pc hpc
    simp only [St.init, List.getElem?_replicate] at hpc
    split at hpc
    · injection hpc with hpc; subst hpc
      have := @d_lt n h 0 hn
      show 0 + d n h 0 ≤ n - 1
      omega
    · cases hpc

theorem inv_step {n h : Nat} (hn : 1 ≤ n) (hh : h < n) {s s' : St} (e : Ev)
    (hi : Inv n h s) (hs : step s e = some s') : Inv n h s' := by
  obtain ⟨en, eh, hact, hgood⟩ := hi
  obtain ⟨pc, pc', act', hpc, htr, hs'⟩ := step_spec hs
  have hg := hgood _ _ hpc
  rw [hs']
  -- a transition that leaves `active` alone
  have keep : ∀ {pc' : PC}, Good n h s.active pc' →
      Inv n h { s with active := s.active, callers := s.callers.set e.caller pc' } :=
    fun hnew => ⟨en, eh, hact, forall_set hgood hnew⟩
  cases htr with
  | wantR t i hlt => exact keep (by simp only [Good] at hg ⊢; exact hg)
  | giveUp t i hlt => exact absurd (by simp only [Good] at hg; omega) hlt
  | rlock t i hf => exact keep (by simp only [Good] at hg ⊢; exact ⟨hact, hg, Nat.le_refl _⟩)
  | runlock t i a => exact keep (by simp only [Good] at hg ⊢; exact hg)
  | call t i a => exact keep (by simp only [Good] at hg ⊢; exact hg)
  | retOk t i a o op p hrq hcl htruth => exact keep (by simp only [Good])
  | retErr t i a o op p hrq hcl hne =>
    exact keep (by simp only [Good] at hg ⊢; exact ⟨hg.1, by rw [← eh]; exact hne, hg.2.1, hg.2.2⟩)
  | wantW t i a => exact keep (by simp only [Good] at hg ⊢; exact hg)
  | lock t i a hf => exact keep (by simp only [Good] at hg ⊢; exact hg)
  | advance t i =>
    simp only [Good] at hg
    obtain ⟨ha, hne, hia, _⟩ := hg
    have hsucc : d n h ((s.active + 1) % s.n) + 1 = d n h s.active := by
      rw [en]; exact d_succ hh ha hne
    refine ⟨en, eh, ?_, ?_⟩
    · show (s.active + 1) % s.n < n
      rw [en]; exact succ_mod_lt hn
    · show ∀ (t' : Nat) (pc : PC), (s.callers.set t (PC.advd i))[t']? = some pc →
          Good n h ((s.active + 1) % s.n) pc
      apply forall_set
      · intro t' pc h'
        exact Good.mono (by omega) (hgood t' pc h')
      · simp only [Good]; omega
  | stale t i a hne =>
    simp only [Good] at hg
    obtain ⟨ha, _, hia, hda⟩ := hg
    have : d n h s.active ≠ d n h a := fun he => hne (d_inj hh hact ha he).symm
    exact keep (by simp only [Good]; omega)
  | unlock t i => exact keep (by simp only [Good] at hg ⊢; omega)

theorem inv_reachable {n h : Nat} {wp tr : Bool} {reqs : List (Op × Bool)} (hn : 1 ≤ n) (hh : h < n) {s : St}
    (hr : Reachable (St.init n h wp tr reqs) s) : Inv n h s := by
  induction hr with
  | refl => exact inv_init n h wp tr reqs hn
  | step e _ hs ih => exact inv_step hn hh e ih hs

/-- **a group with a permanently healthy member keeps succeeding**: no caller ever reaches `failed`,
in any interleaving of any number of callers, whatever the other members do -/
theorem never_fails (n h : Nat) (wp tr : Bool) (reqs : List (Op × Bool)) (hn : 1 ≤ n) (hh : h < n) (s : St)
    (hr : Reachable (St.init n h wp tr reqs) s) :
    ∀ (t : Nat), s.callers[t]? ≠ some PC.failed := by
  intro t ht
  exact (inv_reachable hn hh hr).good t _ ht

/-- the attempt counter of a running caller never exceeds `n - 1 - dist active`: in particular it
stays below `n`, and a caller that sees `active = h` is on its last needed attempt -/
theorem attempts_bounded (n h : Nat) (wp tr : Bool) (reqs : List (Op × Bool)) (hn : 1 ≤ n) (hh : h < n) (s : St)
    (hr : Reachable (St.init n h wp tr reqs) s) (t : Nat) :
    (∀ i, s.callers[t]? = some (PC.next i) → i + dist s s.active ≤ n - 1) ∧
    (∀ i a, s.callers[t]? = some (PC.calling i a) →
      a < n ∧ i + dist s a ≤ n - 1 ∧ dist s s.active ≤ dist s a) ∧
    (∀ i a, s.callers[t]? = some (PC.erred i a) →
      a < n ∧ a ≠ h ∧ i + dist s a ≤ n - 1 ∧ dist s s.active ≤ dist s a) := by
  have hi := inv_reachable hn hh hr
  have e1 := hi.hn
  have e2 := hi.hh
  unfold dist
  rw [e1, e2]
  exact ⟨fun i hpc => hi.good t _ hpc, fun i a hpc => hi.good t _ hpc,
    fun i a hpc => hi.good t _ hpc⟩

/-- **`active` only moves when the member it points to has failed a request**: a step changes `active`
only if it is the `errorFrom(a)` of a caller whose member call on `a` returned an error (it holds the
write lock with exactly `a = active`); then `active` moves to the next member, and the member left
behind is not the healthy one -/
theorem active_only_moves_on_error_of_active (n h : Nat) (wp tr : Bool) (reqs : List (Op × Bool))
    (hn : 1 ≤ n) (hh : h < n) (s s' : St) (hr : Reachable (St.init n h wp tr reqs) s) (e : Ev)
    (hs : step s e = some s') (hne : s'.active ≠ s.active) :
    ∃ t i, e = .errFrom t ∧ s.callers[t]? = some (.holdW i s.active) ∧ s.active ≠ h ∧
      s'.active = (s.active + 1) % n := by
  have hi := inv_reachable hn hh hr
  obtain ⟨pc, pc', act', hpc, htr, hs'⟩ := step_spec hs
  have hg := hi.good _ _ hpc
  cases htr with
  | advance t i =>
    simp only [Good] at hg
    exact ⟨t, i, rfl, hpc, hg.2.1, by rw [hs', ← hi.hn]⟩
  | _ => exact absurd (by rw [hs']) hne

/-- one step: the distance of `active` to the healthy member never increases, and once `active = h`
it stays `h` -/
theorem active_monotone_step (n h : Nat) (wp tr : Bool) (reqs : List (Op × Bool)) (hn : 1 ≤ n) (hh : h < n)
    (s s' : St) (hr : Reachable (St.init n h wp tr reqs) s) (e : Ev) (hs : step s e = some s') :
    s'.n = n ∧ s'.h = h ∧ s'.active < n ∧ dist s' s'.active ≤ dist s s.active ∧
      (s.active = h → s'.active = h) := by
  have hi := inv_reachable hn hh hr
  have hi' := inv_step hn hh e hi hs
  refine ⟨hi'.hn, hi'.hh, hi'.act, ?_⟩
  unfold dist
  rw [hi'.hn, hi'.hh, hi.hn, hi.hh]
  by_cases hch : s'.active = s.active
  · rw [hch]; exact ⟨Nat.le_refl _, id⟩
  · obtain ⟨t, i, _, hpc, hne, hact'⟩ := active_only_moves_on_error_of_active n h wp tr reqs hn hh s s' hr e hs hch
    have hsucc := d_succ hh hi.act hne
    rw [hact']
    exact ⟨by omega, fun h0 => absurd h0 hne⟩

theorem reachable_trans {s0 s1 s2 : St} (h1 : Reachable s0 s1) (h2 : Reachable s1 s2) :
    Reachable s0 s2 := by
  induction h2 with
  | refl => exact h1
  | step e _ hs ih => exact Reachable.step e ih hs

/-- over any run: the distance of `active` to the healthy member never increases, and `active`
stops at `h`: once `active = h` it stays `h` forever -/
theorem active_monotone (n h : Nat) (wp tr : Bool) (reqs : List (Op × Bool)) (hn : 1 ≤ n) (hh : h < n) (s s' : St)
    (hr : Reachable (St.init n h wp tr reqs) s) (hr' : Reachable s s') :
    s'.active < n ∧ dist s' s'.active ≤ dist s s.active ∧ (s.active = h → s'.active = h) := by
  induction hr' with
  | refl => exact ⟨(inv_reachable hn hh hr).act, Nat.le_refl _, id⟩
  | step e hmid hs ih =>
    have := active_monotone_step n h wp tr reqs hn hh _ _ (reachable_trans hr hmid) e hs
    exact ⟨this.2.2.1, Nat.le_trans this.2.2.2.1 ih.2.1, fun h0 => this.2.2.2.2 (ih.2.2 h0)⟩

/-! ### what a request returns -/

/-- configuration fields never change -/
theorem step_config {s s' : St} {e : Ev} (hs : step s e = some s') :
    s'.n = s.n ∧ s'.h = s.h ∧ s'.wp = s.wp ∧ s'.truthful = s.truthful ∧ s'.reqs = s.reqs := by
  obtain ⟨_, _, _, _, _, hs'⟩ := step_spec hs
  rw [hs']
  exact ⟨rfl, rfl, rfl, rfl, rfl⟩

theorem reachable_config {s0 s : St} (hr : Reachable s0 s) :
    s.n = s0.n ∧ s.h = s0.h ∧ s.wp = s0.wp ∧ s.truthful = s0.truthful ∧ s.reqs = s0.reqs := by
  induction hr with
  | refl => exact ⟨rfl, rfl, rfl, rfl, rfl⟩
  | step e _ hs ih =>
    obtain ⟨a, b, c, dd, f⟩ := step_config hs
    exact ⟨a.trans ih.1, b.trans ih.2.1, c.trans ih.2.2.1, dd.trans ih.2.2.2.1, f.trans ih.2.2.2.2⟩

/-- what holds of a caller that has returned -/
def ResOk (s : St) (t : Nat) : PC → Prop
  | .ok o a => ∃ op p, s.reqs[t]? = some (op, p) ∧ classify op o = some true ∧
      (a = s.h ∨ s.truthful = true → o = truth op p)
  | _ => True

theorem resok_step {s s' : St} {e : Ev} (hs : step s e = some s')
    (hi : ∀ (t : Nat) (pc : PC), s.callers[t]? = some pc → ResOk s t pc) :
    ∀ (t : Nat) (pc : PC), s'.callers[t]? = some pc → ResOk s' t pc := by
  obtain ⟨pc0, pc', act', hpc, htr, hs'⟩ := step_spec hs
  intro t pc h
  rw [hs'] at h
  simp only [List.getElem?_set] at h
  have same : ∀ pc, ResOk s t pc → ResOk s' t pc := by
    intro pc hp
    rw [hs']
    cases pc <;> first | trivial | exact hp
  split at h
  · rename_i heq
    split at h
    · injection h with h; subst h
      apply same
      subst heq
      cases htr with
      | retOk t i a o op p hrq hcl htruth => exact ⟨op, p, hrq, hcl, htruth⟩
      | _ => trivial
    · cases h
  · exact same pc (hi t pc h)

/-- **a request returns what a member answered, unmasked**: a caller that has returned holds an answer
(a chunk or "missing" for `GetChunk`, a verdict for `HasChunk` — never an error turned into something
else, never a missing chunk turned into a failure), and it is the truth whenever it came from the
healthy member or the members are replicas -/
theorem resok_reachable {n h : Nat} {wp tr : Bool} {reqs : List (Op × Bool)} {s : St}
    (hr : Reachable (St.init n h wp tr reqs) s) :
    ∀ (t : Nat) (pc : PC), s.callers[t]? = some pc → ResOk s t pc := by
  induction hr with
  | refl =>
    intro t pc hpc
    simp only [St.init, List.getElem?_replicate] at hpc
    split at hpc
    · injection hpc with hpc; subst hpc; trivial
    · cases hpc
  | step e _ hs ih => exact resok_step hs ih

/-- **a request returns what a member answered, unmasked**: a caller that has returned holds an answer
(a chunk or "missing" for `GetChunk`, a verdict for `HasChunk` — never an error turned into something
else, never a missing chunk turned into a failure), and it is the truth whenever it came from the
healthy member or the members are replicas -/
theorem result_is_answer (n h : Nat) (wp tr : Bool) (reqs : List (Op × Bool)) (s : St)
    (hr : Reachable (St.init n h wp tr reqs) s) (t : Nat) (o : Out) (a : Nat)
    (hpc : s.callers[t]? = some (.ok o a)) :
    ∃ op p, reqs[t]? = some (op, p) ∧ classify op o = some true ∧ (a = h ∨ tr = true → o = truth op p) := by
  have hc := reachable_config hr
  have := resok_reachable hr t _ hpc
  simp only [ResOk] at this
  rw [hc.2.2.2.2, hc.2.1, hc.2.2.2.1] at this
  exact this

/-! ### the lock discipline -/

def PC.holds (pc : PC) : Bool := pc.isReader || pc.isWriter

theorem all_get {l : List PC} {f : PC → Bool} (h : l.all f = true) {t : Nat} {pc : PC}
    (hpc : l[t]? = some pc) : f pc = true :=
  List.all_eq_true.mp h pc (List.mem_of_getElem? hpc)

/-- mutual exclusion, and a read lock pins `active` -/
structure Mx (s : St) : Prop where
  excl : ∀ (t u : Nat) (p q : PC), s.callers[t]? = some p → s.callers[u]? = some q → t ≠ u →
    p.isWriter = true → q.holds = false
  pin : ∀ (t i a : Nat), s.callers[t]? = some (.holdR i a) → a = s.active

theorem get_set_ne {l : List PC} {c t : Nat} {x pc : PC} (hne : t ≠ c) (h : (l.set c x)[t]? = some pc) :
    l[t]? = some pc := by
  rw [List.getElem?_set] at h
  rw [if_neg (fun h' => hne h'.symm)] at h
  exact h

theorem get_set_eq {l : List PC} {c : Nat} {x pc : PC} (h : (l.set c x)[c]? = some pc) : pc = x := by
  rw [List.getElem?_set] at h
  simp only [if_true] at h
  split at h
  · injection h with h; exact h.symm
  · cases h

theorem mx_step {s s' : St} {e : Ev} (hs : step s e = some s') (hi : Mx s) : Mx s' := by
  obtain ⟨pc0, pc', act', hpc, htr, hs'⟩ := step_spec hs
  obtain ⟨hex, hpin⟩ := hi
  subst hs'
  have excl_of : (pc'.isWriter = true → pc0.isWriter = true) → (pc'.holds = true → pc0.holds = true) →
      ∀ (t u : Nat) (p q : PC), (s.callers.set e.caller pc')[t]? = some p → (s.callers.set e.caller pc')[u]? = some q → t ≠ u →
        p.isWriter = true → q.holds = false := by
    intro hw hh t u p q hp hq hne hpw
    by_cases htc : t = e.caller
    · subst htc
      have := get_set_eq hp; subst this
      have hq' := get_set_ne (fun h => hne h.symm) hq
      exact hex _ _ _ _ hpc hq' hne (hw hpw)
    · have hp' := get_set_ne htc hp
      by_cases huc : u = e.caller
      · subst huc
        have := get_set_eq hq; subst this
        have := hex _ _ _ _ hp' hpc hne hpw
        cases hh' : q.holds
        · rfl
        · rw [hh hh'] at this; cases this
      · exact hex _ _ _ _ hp' (get_set_ne huc hq) hne hpw
  have pin_of : act' = s.active → (∀ i a, pc' = .holdR i a → pc0 = .holdR i a ∨ a = s.active) →
      ∀ (t i a : Nat), (s.callers.set e.caller pc')[t]? = some (.holdR i a) → a = act' := by
    intro hact hr t i a hp
    rw [hact]
    by_cases htc : t = e.caller
    · subst htc
      have := get_set_eq hp
      rcases hr i a this.symm with h1 | h1
      · rw [h1] at hpc; exact hpin _ _ _ hpc
      · exact h1
    · exact hpin _ _ _ (get_set_ne htc hp)
  cases htr with
  | wantR t i hlt =>
    exact ⟨excl_of (by intro h; cases h) (by intro h; cases h), pin_of rfl (by intro i a h; cases h)⟩
  | giveUp t i hlt =>
    exact ⟨excl_of (by intro h; cases h) (by intro h; cases h), pin_of rfl (by intro i a h; cases h)⟩
  | rlock t i hf =>
    refine ⟨?_, pin_of rfl (by intro i a h; injection h with _ h; exact Or.inr h.symm)⟩
    intro t' u p q hp hq hne hpw
    simp only [Ev.caller] at hp hq
    by_cases htc : t' = t
    · subst htc
      have := get_set_eq hp; subst this; cases hpw
    · have hp' := get_set_ne htc hp
      have := all_get hf hp'
      rw [hpw] at this
      cases this
  | runlock t i a =>
    exact ⟨excl_of (by intro h; cases h) (by intro h; cases h), pin_of rfl (by intro i a h; cases h)⟩
  | call t i a =>
    exact ⟨excl_of (by intro h; cases h) (by intro h; cases h), pin_of rfl (by intro i a h; cases h)⟩
  | retOk t i a o op p hrq hcl htruth =>
    exact ⟨excl_of (by intro h; cases h) (by intro h; cases h), pin_of rfl (by intro i a h; cases h)⟩
  | retErr t i a o op p hrq hcl hne =>
    exact ⟨excl_of (by intro h; cases h) (by intro h; cases h), pin_of rfl (by intro i a h; cases h)⟩
  | wantW t i a =>
    exact ⟨excl_of (by intro h; cases h) (by intro h; cases h), pin_of rfl (by intro i a h; cases h)⟩
  | lock t i a hf =>
    refine ⟨?_, pin_of rfl (by intro i a h; cases h)⟩
    intro t' u p q hp hq hne hpw
    simp only [Ev.caller] at hp hq
    by_cases huc : u = t
    · subst huc
      have htc : t' ≠ u := hne
      have hp' := get_set_ne htc hp
      have := all_get hf hp'
      simp only [hpw, Bool.or_true, Bool.not_true] at this
      cases this
    · have hq' := get_set_ne huc hq
      have := all_get hf hq'
      simp only [PC.holds]
      cases hh : (q.isReader || q.isWriter)
      · rfl
      · rw [hh] at this; cases this
  | advance t i =>
    refine ⟨excl_of (fun _ => rfl) (fun _ => rfl), ?_⟩
    intro t' i' a' hp
    simp only [Ev.caller] at hp
    by_cases htc : t' = t
    · subst htc
      have := get_set_eq hp; cases this
    · have hp' := get_set_ne htc hp
      have := hex _ _ _ _ hpc hp' (fun h => htc h.symm) rfl
      cases this
  | stale t i a hne =>
    exact ⟨excl_of (fun _ => rfl) (fun _ => rfl), pin_of rfl (by intro i a h; cases h)⟩
  | unlock t i =>
    exact ⟨excl_of (by intro h; cases h) (by intro h; cases h), pin_of rfl (by intro i a h; cases h)⟩

theorem mx_init (n h : Nat) (wp tr : Bool) (reqs : List (Op × Bool)) : Mx (St.init n h wp tr reqs) := by
  refine ⟨?_, ?_⟩
  · intro t u p q hp _ _ hpw
    simp only [St.init, List.getElem?_replicate] at hp
    split at hp
    · injection hp with hp; subst hp; cases hpw
    · cases hp
  · intro t i a hp
    simp only [St.init, List.getElem?_replicate] at hp
    split at hp
    · injection hp with hp; cases hp
    · cases hp

/-- **the lock discipline**: a caller inside `errorFrom` (holding the write lock) is alone — no other
caller holds the lock in either mode — and the `active` a caller has read inside `current()` is the
current one for as long as it holds the read lock: `current()` and `errorFrom()` are atomic -/
theorem mutex (n h : Nat) (wp tr : Bool) (reqs : List (Op × Bool)) (s : St)
    (hr : Reachable (St.init n h wp tr reqs) s) : Mx s := by
  induction hr with
  | refl => exact mx_init n h wp tr reqs
  | step e _ hs ih => exact mx_step hs ih

/-! ### progress -/

/-- every caller has its request -/
theorem callers_length {n h : Nat} {wp tr : Bool} {reqs : List (Op × Bool)} {s : St}
    (hr : Reachable (St.init n h wp tr reqs) s) : s.callers.length = s.reqs.length := by
  induction hr with
  | refl => simp [St.init]
  | step e _ hs ih =>
    obtain ⟨_, _, _, _, _, hs'⟩ := step_spec hs
    rw [hs']; simp only [List.length_set]; exact ih

def PC.final : PC → Bool
  | .ok _ _ => true
  | .failed => true
  | _ => false

/-- waiting for the mutex -/
def PC.waiting : PC → Bool
  | .wantR _ => true
  | .wantW _ _ => true
  | _ => false

/-- a caller that holds the lock always has an enabled event of its own -/
theorem holder_enabled {s : St} {u : Nat} {q : PC} (hq : s.callers[u]? = some q) (hh : q.holds = true) :
    ∃ (e : Ev) (s' : St), e.caller = u ∧ step s e = some s' := by
  cases q with
  | holdR i a => exact ⟨.runlock u, _, rfl, step_of_tr (e := .runlock u) hq (.runlock u i a)⟩
  | holdW i a =>
    by_cases ha : a = s.active
    · subst ha; exact ⟨.errFrom u, _, rfl, step_of_tr (e := .errFrom u) hq (.advance u i)⟩
    · exact ⟨.errFrom u, _, rfl, step_of_tr (e := .errFrom u) hq (.stale u i a ha)⟩
  | advd i => exact ⟨.unlock u, _, rfl, step_of_tr (e := .unlock u) hq (.unlock u i)⟩
  | _ => cases hh

theorem not_all {l : List PC} {f : PC → Bool} (h : ¬ l.all f = true) :
    ∃ (u : Nat) (q : PC), l[u]? = some q ∧ f q = false := by
  have : ¬ ∀ x ∈ l, f x = true := fun h' => h (List.all_eq_true.mpr h')
  have ⟨x, hx⟩ := Classical.not_forall.mp this
  have ⟨hm, hf⟩ := Classical.not_imp.mp hx
  obtain ⟨u, hu⟩ := List.getElem?_of_mem hm
  refine ⟨u, x, hu, ?_⟩
  cases hfx : f x
  · rfl
  · exact absurd hfx hf

/-- **progress**: a caller that has not returned either has an enabled event of its own, or it waits
for the mutex and a caller that holds the mutex has an enabled event (holders never block: no lock is
held across a member call), or it waits only because a writer has announced itself and that writer can
take the lock now.  By `never_fails` the only way to return is an answer. -/
theorem no_deadlock (n h : Nat) (wp tr : Bool) (reqs : List (Op × Bool)) (hn : 1 ≤ n) (hh : h < n) (s : St)
    (hr : Reachable (St.init n h wp tr reqs) s) (t : Nat) (pc : PC) (hpc : s.callers[t]? = some pc)
    (hok : ∀ o a, pc ≠ PC.ok o a) :
    (∃ (e : Ev) (s' : St), e.caller = t ∧ step s e = some s') ∨
    (pc.waiting = true ∧ ∃ (u : Nat) (q : PC), u ≠ t ∧ s.callers[u]? = some q ∧
      ((q.holds = true ∧ ∃ (e : Ev) (s' : St), e.caller = u ∧ step s e = some s') ∨
       (q.isPendingW = true ∧ ∃ s', step s (.lock u) = some s'))) := by
  -- a caller blocked at Lock: somebody else holds the lock
  have blockedW : ∀ (v : Nat) (i a : Nat), s.callers[v]? = some (.wantW i a) → ¬ lockFree s = true →
      ∃ (u : Nat) (q : PC), u ≠ v ∧ s.callers[u]? = some q ∧ q.holds = true := by
    intro v i a hv hf
    obtain ⟨u, q, hq, hfq⟩ := not_all hf
    refine ⟨u, q, ?_, hq, ?_⟩
    · intro huv; subst huv; rw [hv] at hq; injection hq with hq; subst hq; cases hfq
    · simp only [PC.holds]
      cases hh' : (q.isReader || q.isWriter)
      · rw [hh'] at hfq; cases hfq
      · rfl
  cases pc with
  | next i =>
    by_cases hlt : i < s.n
    · exact Or.inl ⟨.wantR t, _, rfl, step_of_tr (e := .wantR t) hpc (.wantR t i hlt)⟩
    · exact Or.inl ⟨.giveUp t, _, rfl, step_of_tr (e := .giveUp t) hpc (.giveUp t i hlt)⟩
  | wantR i =>
    by_cases hf : rlockFree s = true
    · exact Or.inl ⟨.rlock t, _, rfl, step_of_tr (e := .rlock t) hpc (.rlock t i hf)⟩
    · obtain ⟨u, q, hq, hfq⟩ := not_all hf
      have hut : u ≠ t := by
        intro hut; subst hut; rw [hpc] at hq; injection hq with hq; subst hq
        simp [PC.isWriter, PC.isPendingW] at hfq
      refine Or.inr ⟨rfl, ?_⟩
      by_cases hw : q.isWriter = true
      · exact ⟨u, q, hut, hq, Or.inl ⟨by simp only [PC.holds, hw, Bool.or_true], holder_enabled hq (by simp only [PC.holds, hw, Bool.or_true])⟩⟩
      · have hpw : q.isPendingW = true := by
          cases hq1 : q.isWriter
          · rw [hq1] at hfq
            simp only [Bool.false_or, Bool.not_eq_false', Bool.and_eq_true] at hfq
            exact hfq.2
          · exact absurd hq1 hw
        cases q with
        | wantW i' a' =>
          by_cases hlf : lockFree s = true
          · exact ⟨u, _, hut, hq, Or.inr ⟨rfl, _, step_of_tr (e := .lock u) hq (.lock u i' a' hlf)⟩⟩
          · obtain ⟨v, q', hvu, hq', hh'⟩ := blockedW u i' a' hq hlf
            have hvt : v ≠ t := by
              intro hvt; subst hvt; rw [hpc] at hq'; injection hq' with hq'; subst hq'; cases hh'
            exact ⟨v, q', hvt, hq', Or.inl ⟨hh', holder_enabled hq' hh'⟩⟩
        | _ => cases hpw
  | holdR i a => exact Or.inl (holder_enabled hpc rfl)
  | toCall i a => exact Or.inl ⟨.call t a, _, rfl, step_of_tr (e := .call t a) hpc (.call t i a)⟩
  | calling i a =>
    -- a truthful answer is always possible (and the healthy member gives no other)
    have hlen : t < s.reqs.length := by
      rw [← callers_length hr]
      rcases Nat.lt_or_ge t s.callers.length with hlt | hge
      · exact hlt
      · rw [List.getElem?_eq_none hge] at hpc; cases hpc
    have hrq : s.reqs[t]? = some (s.reqs[t]) := List.getElem?_eq_getElem hlen
    generalize s.reqs[t] = rq at hrq
    obtain ⟨op, p⟩ := rq
    exact Or.inl ⟨.ret t (truth op p), _, rfl,
      step_of_tr (e := .ret t (truth op p)) hpc (.retOk t i a _ op p hrq (classify_truth op p) (fun _ => rfl))⟩
  | erred i a => exact Or.inl ⟨.wantW t, _, rfl, step_of_tr (e := .wantW t) hpc (.wantW t i a)⟩
  | wantW i a =>
    by_cases hlf : lockFree s = true
    · exact Or.inl ⟨.lock t, _, rfl, step_of_tr (e := .lock t) hpc (.lock t i a hlf)⟩
    · obtain ⟨u, q, hut, hq, hh'⟩ := blockedW t i a hpc hlf
      exact Or.inr ⟨rfl, u, q, hut, hq, Or.inl ⟨hh', holder_enabled hq hh'⟩⟩
  | holdW i a => exact Or.inl (holder_enabled hpc rfl)
  | advd i => exact Or.inl (holder_enabled hpc rfl)
  | ok o a => exact absurd rfl (hok o a)
  | failed => exact absurd hpc (never_fails n h wp tr reqs hn hh s hr t)

/-- **`HasChunk` through the group**: a `HasChunk` caller that has returned holds a verdict `(b, nil)` —
`HasChunk` has no `ChunkMissing` arm, every error of a member (a `ChunkMissing` error included) is failed
over, never returned — and the verdict is the truth whenever it came from the healthy member or the
members are replicas -/
theorem has_healthy (n h : Nat) (wp tr : Bool) (reqs : List (Op × Bool)) (s : St)
    (hr : Reachable (St.init n h wp tr reqs) s) (t : Nat) (p : Bool) (hreq : reqs[t]? = some (.has, p))
    (o : Out) (a : Nat) (hpc : s.callers[t]? = some (.ok o a)) :
    ∃ b, o = .has b ∧ (a = h ∨ tr = true → b = p) := by
  obtain ⟨op, p', hrq, hcl, htruth⟩ := result_is_answer n h wp tr reqs s hr t o a hpc
  rw [hreq] at hrq
  injection hrq with hrq
  injection hrq with h1 h2
  subst h1; subst h2
  cases o with
  | has b =>
    refine ⟨b, rfl, ?_⟩
    intro hor
    have := htruth hor
    simp only [truth] at this
    injection this
  | chunk => cases hcl
  | missing => cases hcl
  | error => cases hcl

/-! ### runs (for examples and the driver) -/

def run (s : St) : List Ev → Option St
  | [] => some s
  | e :: es => match step s e with
    | some s' => run s' es
    | none => none

theorem run_reachable {s0 s s' : St} (hr : Reachable s0 s) (es : List Ev) (h : run s es = some s') :
    Reachable s0 s' := by
  induction es generalizing s with
  | nil => simp only [run] at h; injection h with h; subst h; exact hr
  | cons e es ih =>
    simp only [run] at h
    split at h
    · rename_i s1 hs1
      exact ih (Reachable.step e hr hs1) h
    · cases h

/-! ### every run is finite -/

/-- steps a caller can still take, at most -/
def mu (n : Nat) : PC → Nat
  | .next i => (n - i) * 10 + 10
  | .wantR i => (n - i) * 10 + 9
  | .holdR i _ => (n - i) * 10 + 8
  | .toCall i _ => (n - i) * 10 + 7
  | .calling i _ => (n - i) * 10 + 6
  | .erred i _ => (n - i) * 10 + 5
  | .wantW i _ => (n - i) * 10 + 4
  | .holdW i _ => (n - i) * 10 + 3
  | .advd i => (n - i) * 10 + 2
  | .ok _ _ => 0
  | .failed => 0

def total (s : St) : Nat := (s.callers.map (mu s.n)).sum

/-- a caller inside the loop body has passed the loop test -/
def Att (n : Nat) : PC → Prop
  | .next _ => True
  | .wantR i => i < n
  | .holdR i _ => i < n
  | .toCall i _ => i < n
  | .calling i _ => i < n
  | .erred i _ => i < n
  | .wantW i _ => i < n
  | .holdW i _ => i < n
  | .advd i => i < n
  | .ok _ _ => True
  | .failed => True

theorem att_reachable {s0 s : St} (h0 : ∀ (t : Nat) (pc : PC), s0.callers[t]? = some pc → Att s0.n pc)
    (hr : Reachable s0 s) : ∀ (t : Nat) (pc : PC), s.callers[t]? = some pc → Att s.n pc := by
  induction hr with
  | refl => exact h0
  | step e _ hs ih =>
    obtain ⟨pc0, pc', act', hpc, htr, hs'⟩ := step_spec hs
    subst hs'
    have hg := ih _ _ hpc
    apply forall_set ih
    cases htr <;> simp only [Att] at hg ⊢ <;> assumption

theorem sum_set_lt {f : PC → Nat} {pc pc' : PC} (hlt : f pc' < f pc) :
    ∀ (l : List PC) (t : Nat), l[t]? = some pc → ((l.set t pc').map f).sum < (l.map f).sum := by
  intro l
  induction l with
  | nil => intro t h; cases h
  | cons x xs ih =>
    intro t h
    cases t with
    | zero =>
      simp only [List.getElem?_cons_zero] at h
      injection h with h; subst h
      simp only [List.set_cons_zero, List.map_cons, List.sum_cons]
      omega
    | succ t =>
      simp only [List.getElem?_cons_succ] at h
      have := ih t h
      simp only [List.set_cons_succ, List.map_cons, List.sum_cons]
      omega

/-- **every step uses up budget**: the number of steps the callers can still take strictly decreases — no
hypothesis on the members, on `h`, or on the schedule -/
theorem step_decreases {s0 s s' : St} (h0 : ∀ (t : Nat) (pc : PC), s0.callers[t]? = some pc → Att s0.n pc)
    (hr : Reachable s0 s) (e : Ev) (hs : step s e = some s') : total s' < total s := by
  obtain ⟨pc0, pc', act', hpc, htr, hs'⟩ := step_spec hs
  subst hs'
  have hatt := att_reachable h0 hr _ _ hpc
  show ((s.callers.set e.caller pc').map (mu s.n)).sum < (s.callers.map (mu s.n)).sum
  apply sum_set_lt _ _ _ hpc
  cases htr <;> simp only [mu, Att] at hatt ⊢ <;> omega

theorem att_init (n h : Nat) (wp tr : Bool) (reqs : List (Op × Bool)) :
    ∀ (t : Nat) (pc : PC), (St.init n h wp tr reqs).callers[t]? = some pc → Att (St.init n h wp tr reqs).n pc := by
  intro t pc hpc
  simp only [St.init, List.getElem?_replicate] at hpc
  split at hpc
  · injection hpc with hpc; subst hpc; trivial
  · cases hpc

/-- **every schedule is finite**: a run of the machine from the initial state takes at most
`k * (10 n + 10)` steps (`k` callers, `n` members) -/
theorem run_bounded (n h : Nat) (wp tr : Bool) (reqs : List (Op × Bool)) (s s' : St)
    (hr : Reachable (St.init n h wp tr reqs) s) (es : List Ev) (hrun : run s es = some s') :
    es.length + total s' ≤ total s := by
  induction es generalizing s with
  | nil => simp only [run] at hrun; injection hrun with hrun; subst hrun; simp
  | cons e es ih =>
    simp only [run] at hrun
    split at hrun
    · rename_i s1 hs1
      have h1 := step_decreases (att_init n h wp tr reqs) hr e hs1
      have h2 := ih s1 (Reachable.step e hr hs1) hrun
      simp only [List.length_cons]
      omega
    · cases hrun

theorem sum_replicate_nat (k c : Nat) : (List.replicate k c).sum = k * c := by
  induction k with
  | zero => simp
  | succ k ih => rw [List.replicate_succ, List.sum_cons, ih, Nat.succ_mul]; omega

theorem total_init (n h : Nat) (wp tr : Bool) (reqs : List (Op × Bool)) :
    total (St.init n h wp tr reqs) = reqs.length * (n * 10 + 10) := by
  simp only [total, St.init, List.map_replicate, mu, Nat.sub_zero]
  exact sum_replicate_nat _ _

end Desync.Failover
