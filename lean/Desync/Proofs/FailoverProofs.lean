/-
  `FailoverGroup` under concurrency (Model/Failover.lean): with a permanently healthy member no
  request ever fails, in every interleaving.
-/
import Desync.Model.Failover

namespace Desync.Failover

/-- distance from `a` to the healthy member `h` going forward (mod `n`) -/
def d (n h a : Nat) : Nat := (h + n - a % n) % n

/-- distance from `a` to the healthy member going forward -/
def dist (s : St) (a : Nat) : Nat := d s.n s.h a

theorem d_eq {n h a : Nat} (hh : h < n) (ha : a < n) :
    d n h a = if a ≤ h then h - a else h + n - a := by
  unfold d
  rw [Nat.mod_eq_of_lt ha]
  split
  · have : h + n - a = (h - a) + n := by omega
    rw [this, Nat.add_mod_right]
    exact Nat.mod_eq_of_lt (by omega)
  · exact Nat.mod_eq_of_lt (by omega)

theorem d_lt {n h a : Nat} (hn : 1 ≤ n) : d n h a < n := Nat.mod_lt _ (by omega)

theorem d_self {n h : Nat} (hh : h < n) : d n h h = 0 := by
  rw [d_eq hh hh]; simp

theorem d_eq_zero {n h a : Nat} (hh : h < n) (ha : a < n) (h0 : d n h a = 0) : a = h := by
  rw [d_eq hh ha] at h0
  split at h0 <;> omega

theorem d_inj {n h a b : Nat} (hh : h < n) (ha : a < n) (hb : b < n)
    (he : d n h a = d n h b) : a = b := by
  rw [d_eq hh ha, d_eq hh hb] at he
  split at he <;> split at he <;> omega

theorem succ_mod_lt {n a : Nat} (hn : 1 ≤ n) : (a + 1) % n < n := Nat.mod_lt _ (by omega)

/-- advancing from a member other than `h` gets one step closer to `h` -/
theorem d_succ {n h a : Nat} (hh : h < n) (ha : a < n) (hne : a ≠ h) :
    d n h ((a + 1) % n) + 1 = d n h a := by
  have hn : 1 ≤ n := by omega
  rw [d_eq hh (succ_mod_lt hn), d_eq hh ha]
  rcases Nat.lt_or_ge (a + 1) n with h1 | h1
  · rw [Nat.mod_eq_of_lt h1]
    split <;> split <;> omega
  · have : a + 1 = n := by omega
    rw [this, Nat.mod_self]
    split <;> split <;> omega

/-- per-caller invariant (`act` is the shared `active` index) -/
def Good (n h act : Nat) : PC → Prop
  | .idle => True
  | .ok => True
  | .failed => False
  | .readCur i => i + d n h act ≤ n - 1
  | .calling i a => a < n ∧ i + d n h a ≤ n - 1 ∧ d n h act ≤ d n h a
  | .erred i a => a < n ∧ a ≠ h ∧ i + d n h a ≤ n - 1 ∧ d n h act ≤ d n h a

theorem Good.mono {n h act act' : Nat} {pc : PC} (hle : d n h act' ≤ d n h act)
    (hg : Good n h act pc) : Good n h act' pc := by
  cases pc with
  | idle => trivial
  | ok => trivial
  | failed => exact hg
  | readCur i => simp only [Good] at hg ⊢; omega
  | calling i a => simp only [Good] at hg ⊢; omega
  | erred i a => simp only [Good] at hg ⊢; omega

/-- the inductive invariant -/
structure Inv (n h : Nat) (s : St) : Prop where
  hn : s.n = n
  hh : s.h = h
  act : s.active < n
  good : ∀ (t : Nat) (pc : PC), s.callers[t]? = some pc → Good n h s.active pc

theorem forall_set {P : PC → Prop} {l : List PC} {u : Nat} {new : PC}
    (hall : ∀ (t : Nat) (pc : PC), l[t]? = some pc → P pc) (hnew : P new) :
    ∀ (t : Nat) (pc : PC), (l.set u new)[t]? = some pc → P pc := by
  intro t pc h
  rw [List.getElem?_set] at h
  split at h
  · split at h
    · injection h with h; subst h; exact hnew
    · cases h
  · exact hall t pc h

theorem inv_init (n h k : Nat) (hn : 1 ≤ n) : Inv n h (St.init n h k) := by
  refine ⟨rfl, rfl, ?_, ?_⟩
  · show 0 < n
    omega
  · intro t pc hpc
    simp only [St.init, List.getElem?_replicate] at hpc
    split at hpc
    · injection hpc with hpc; subst hpc; trivial
    · cases hpc

theorem inv_step {n h : Nat} (hn : 1 ≤ n) (hh : h < n) {s s' : St} (e : Ev)
    (hi : Inv n h s) (hs : step s e = some s') : Inv n h s' := by
  obtain ⟨en, eh, hact, hgood⟩ := hi
  cases e with
  | start t =>
    simp only [step] at hs
    split at hs
    · injection hs with hs; subst hs
      refine ⟨en, eh, hact, forall_set hgood ?_⟩
      have := @d_lt n h s.active hn
      show Good n h s.active (PC.readCur 0)
      simp only [Good]; omega
    · cases hs
  | current t =>
    simp only [step] at hs
    split at hs
    · rename_i i hpc
      have hg := hgood t _ hpc
      simp only [Good] at hg
      have hlt : i < s.n := by omega
      rw [if_pos hlt] at hs
      injection hs with hs; subst hs
      refine ⟨en, eh, hact, forall_set hgood ?_⟩
      simp only [Good]
      exact ⟨hact, hg, Nat.le_refl _⟩
    · cases hs
  | answer t =>
    simp only [step] at hs
    split at hs
    · injection hs with hs; subst hs
      exact ⟨en, eh, hact, forall_set hgood trivial⟩
    · cases hs
  | error t =>
    simp only [step] at hs
    split at hs
    · rename_i i a hpc
      have hg := hgood t _ hpc
      simp only [Good] at hg
      split at hs
      · cases hs
      · rename_i hne
        injection hs with hs; subst hs
        refine ⟨en, eh, hact, forall_set hgood ?_⟩
        simp only [Good]
        exact ⟨hg.1, by rw [← eh]; exact hne, hg.2.1, hg.2.2⟩
    · cases hs
  | errorFrom t =>
    simp only [step] at hs
    split at hs
    · rename_i i a hpc
      have hg := hgood t _ hpc
      simp only [Good] at hg
      obtain ⟨ha, hne, hia, hda⟩ := hg
      injection hs with hs; subst hs
      by_cases hact_eq : a = s.active
      · rw [if_pos hact_eq]
        subst hact_eq
        have hsucc : d n h ((s.active + 1) % s.n) + 1 = d n h s.active := by
          rw [en]; exact d_succ hh ha hne
        refine ⟨en, eh, ?_, ?_⟩
        · show (s.active + 1) % s.n < n
          rw [en]; exact succ_mod_lt hn
        · show ∀ (t' : Nat) (pc : PC), (s.callers.set t (PC.readCur (i + 1)))[t']? = some pc →
              Good n h ((s.active + 1) % s.n) pc
          apply forall_set
          · intro t' pc h'
            exact Good.mono (by omega) (hgood t' pc h')
          · simp only [Good]; omega
      · rw [if_neg hact_eq]
        refine ⟨en, eh, hact, forall_set hgood ?_⟩
        show Good n h s.active (PC.readCur (i + 1))
        simp only [Good]
        have : d n h s.active ≠ d n h a := fun he => hact_eq (d_inj hh hact ha he).symm
        omega
    · cases hs

theorem inv_reachable {n h k : Nat} (hn : 1 ≤ n) (hh : h < n) {s : St}
    (hr : Reachable (St.init n h k) s) : Inv n h s := by
  induction hr with
  | refl => exact inv_init n h k hn
  | step e _ hs ih => exact inv_step hn hh e ih hs

/-- **a group with a permanently healthy member keeps succeeding**: no caller ever reaches `failed`,
in any interleaving of any number of callers -/
theorem never_fails (n h k : Nat) (hn : 1 ≤ n) (hh : h < n) (s : St)
    (hr : Reachable (St.init n h k) s) :
    ∀ (t : Nat), s.callers[t]? ≠ some PC.failed := by
  intro t ht
  exact (inv_reachable hn hh hr).good t _ ht

/-- the attempt counter of a running caller never exceeds `n - 1 - dist active`: in particular it
stays below `n`, and a caller that sees `active = h` is on its last needed attempt -/
theorem attempts_bounded (n h k : Nat) (hn : 1 ≤ n) (hh : h < n) (s : St)
    (hr : Reachable (St.init n h k) s) (t : Nat) :
    (∀ i, s.callers[t]? = some (PC.readCur i) → i + dist s s.active ≤ n - 1) ∧
    (∀ i a, s.callers[t]? = some (PC.calling i a) →
      a < n ∧ i + dist s a ≤ n - 1 ∧ dist s s.active ≤ dist s a) ∧
    (∀ i a, s.callers[t]? = some (PC.erred i a) →
      a < n ∧ a ≠ h ∧ i + dist s a ≤ n - 1 ∧ dist s s.active ≤ dist s a) := by
  have hi := inv_reachable hn hh hr
  have e1 := hi.hn
  have e2 := hi.hh
  unfold dist
  rw [e1, e2]
  exact ⟨fun i hpc => hi.good t _ hpc, fun i a hpc => hi.good t _ hpc,
    fun i a hpc => hi.good t _ hpc⟩

/-- one step: `active < n`, `n`/`h` are constant, the distance of `active` to the healthy member
never increases, and once `active = h` it stays `h` -/
theorem active_monotone_step (n h k : Nat) (hn : 1 ≤ n) (hh : h < n) (s s' : St)
    (hr : Reachable (St.init n h k) s) (e : Ev) (hs : step s e = some s') :
    s'.n = n ∧ s'.h = h ∧ s'.active < n ∧ dist s' s'.active ≤ dist s s.active ∧
      (s.active = h → s'.active = h) := by
  have hi := inv_reachable hn hh hr
  have hi' := inv_step hn hh e hi hs
  refine ⟨hi'.hn, hi'.hh, hi'.act, ?_⟩
  unfold dist
  rw [hi'.hn, hi'.hh, hi.hn, hi.hh]
  obtain ⟨en, eh, hact, hgood⟩ := hi
  cases e with
  | start t =>
    simp only [step] at hs
    split at hs
    · injection hs with hs; subst hs; exact ⟨Nat.le_refl _, id⟩
    · cases hs
  | current t =>
    simp only [step] at hs
    split at hs
    · split at hs <;> (injection hs with hs; subst hs; exact ⟨Nat.le_refl _, id⟩)
    · cases hs
  | answer t =>
    simp only [step] at hs
    split at hs
    · injection hs with hs; subst hs; exact ⟨Nat.le_refl _, id⟩
    · cases hs
  | error t =>
    simp only [step] at hs
    split at hs
    · split at hs
      · cases hs
      · injection hs with hs; subst hs; exact ⟨Nat.le_refl _, id⟩
    · cases hs
  | errorFrom t =>
    simp only [step] at hs
    split at hs
    · rename_i i a hpc
      have hg := hgood t _ hpc
      simp only [Good] at hg
      obtain ⟨ha, hne, hia, hda⟩ := hg
      injection hs with hs; subst hs
      by_cases hact_eq : a = s.active
      · rw [if_pos hact_eq]
        subst hact_eq
        have hsucc : d n h ((s.active + 1) % s.n) + 1 = d n h s.active := by
          rw [en]; exact d_succ hh ha hne
        refine ⟨?_, ?_⟩
        · show d n h ((s.active + 1) % s.n) ≤ d n h s.active
          omega
        · intro hah; exact absurd hah hne
      · rw [if_neg hact_eq]
        exact ⟨Nat.le_refl _, id⟩
    · cases hs

theorem reachable_trans {s0 s1 s2 : St} (h1 : Reachable s0 s1) (h2 : Reachable s1 s2) :
    Reachable s0 s2 := by
  induction h2 with
  | refl => exact h1
  | step e _ hs ih => exact Reachable.step e ih hs

/-- over any run: the distance of `active` to the healthy member never increases, and `active`
stops at `h`: once `active = h` it stays `h` forever -/
theorem active_monotone (n h k : Nat) (hn : 1 ≤ n) (hh : h < n) (s s' : St)
    (hr : Reachable (St.init n h k) s) (hr' : Reachable s s') :
    s'.active < n ∧ dist s' s'.active ≤ dist s s.active ∧ (s.active = h → s'.active = h) := by
  induction hr' with
  | refl => exact ⟨(inv_reachable hn hh hr).act, Nat.le_refl _, id⟩
  | step e hmid hs ih =>
    have := active_monotone_step n h k hn hh _ _ (reachable_trans hr hmid) e hs
    exact ⟨this.2.2.1, Nat.le_trans this.2.2.2.1 ih.2.1, fun h0 => this.2.2.2.2 (ih.2.2 h0)⟩

/-- the caller an event belongs to -/
def Ev.caller : Ev → Nat
  | .start t => t
  | .current t => t
  | .answer t => t
  | .error t => t
  | .errorFrom t => t

/-- **progress**: every caller that has not returned has an enabled event of its own (no lock is
held across a member call, so nobody blocks anybody), and by `never_fails` the only way to return is
`ok` -/
theorem no_deadlock (n h k : Nat) (hn : 1 ≤ n) (hh : h < n) (s : St)
    (hr : Reachable (St.init n h k) s) (t : Nat) (pc : PC) (hpc : s.callers[t]? = some pc)
    (hok : pc ≠ PC.ok) : ∃ (e : Ev) (s' : St), e.caller = t ∧ step s e = some s' := by
  cases pc with
  | idle => exact ⟨.start t, setC s t (.readCur 0), rfl, by simp only [step, hpc]⟩
  | readCur i =>
    refine ⟨.current t, if i < s.n then setC s t (.calling i s.active) else setC s t .failed, rfl, ?_⟩
    simp only [step, hpc]
    split <;> rfl
  | calling i a => exact ⟨.answer t, setC s t .ok, rfl, by simp only [step, hpc]⟩
  | erred i a =>
    exact ⟨.errorFrom t,
      setC (if a = s.active then { s with active := (s.active + 1) % s.n } else s) t
        (.readCur (i + 1)), rfl, by simp only [step, hpc]⟩
  | ok => exact absurd rfl hok
  | failed => exact absurd hpc (never_fails n h k hn hh s hr t)

end Desync.Failover

