/-
  Lemmas for C04: decoding what `encodeIndex` wrote.
-/
import Desync.Model.IndexCodec
import Desync.Proofs.FormatProofs

namespace Desync

theorem readTableItems_enc (items : List TableItem) (r : Bytes) (a : Nat) (acc : List TableItem)
    (fuel : Nat) (hfuel : items.length < fuel)
    (hoff : ∀ it ∈ items, it.offset ≠ 0) (hid : ∀ it ∈ items, it.id.length = 32) :
    readTableItems fuel ⟨encTableItems items ++ (le64 0 ++ r), a⟩ acc
      = .ok (acc.reverse ++ items, ⟨r, a + 32 * items.length⟩) := by
  induction items generalizing a acc fuel with
  | nil =>
    obtain ⟨f, rfl⟩ : ∃ f, fuel = f + 1 := ⟨fuel - 1, by simp at hfuel; omega⟩
    simp only [encTableItems, List.flatMap_nil, List.nil_append, readTableItems]
    rw [readU64_le64]
    simp
  | cons it items ih =>
    obtain ⟨f, rfl⟩ : ∃ f, fuel = f + 1 := ⟨fuel - 1, by simp at hfuel; omega⟩
    have ho : it.offset ≠ 0 := hoff it (by simp)
    have hi : it.id.length = 32 := hid it (by simp)
    have henc : encTableItems (it :: items) ++ (le64 0 ++ r)
        = le64 it.offset ++ (it.id ++ (encTableItems items ++ (le64 0 ++ r))) := by
      simp [encTableItems, List.append_assoc]
    rw [henc]
    unfold readTableItems
    rw [readU64_le64]
    simp only [Res.ok_bind, ho, ↓reduceIte]
    have := readN_append it.id (encTableItems items ++ (le64 0 ++ r)) a
    rw [hi] at this
    rw [this]
    simp only [Res.ok_bind]
    rw [ih (a + 32) (⟨it.offset, it.id⟩ :: acc) f (by simp at hfuel; omega)
      (fun x hx => hoff x (by simp [hx])) (fun x hx => hid x (by simp [hx]))]
    simp only [List.reverse_cons, List.append_assoc, List.singleton_append, List.length_cons]
    congr 3
    omega

/-- well-formed chunk list starting at byte `st`: IDs have 32 bytes, starts are cumulative,
    sizes respect `max`, every end offset is non-zero and below 2^64 -/
def ChunksOK (max : UInt64) : Nat → List IndexChunk → Prop
  | _, [] => True
  | st, c :: cs =>
    c.id.length = 32 ∧ c.start.toNat = st ∧ c.size ≤ max ∧
    0 < st + c.size.toNat ∧ st + c.size.toNat < 2 ^ 64 ∧
    ChunksOK max (st + c.size.toNat) cs

theorem tableItemsFrom_props (max : UInt64) (st : Nat) (off : UInt64) (cs : List IndexChunk)
    (hst : off.toNat = st) (h : ChunksOK max st cs) :
    (∀ it ∈ tableItemsFrom off cs, it.offset ≠ 0) ∧
    (∀ it ∈ tableItemsFrom off cs, it.id.length = 32) ∧
    (tableItemsFrom off cs).length = cs.length := by
  induction cs generalizing st off with
  | nil => simp [tableItemsFrom]
  | cons c cs ih =>
    obtain ⟨hid, hs, hmax, hpos, hlt, hrest⟩ := h
    have hadd : (off + c.size).toNat = st + c.size.toNat := by
      rw [UInt64.toNat_add, hst]; omega
    obtain ⟨h1, h2, h3⟩ := ih (st + c.size.toNat) (off + c.size) hadd hrest
    refine ⟨?_, ?_, ?_⟩
    · intro it hit
      simp only [tableItemsFrom, List.mem_cons] at hit
      rcases hit with rfl | hit
      · intro h0
        have := congrArg UInt64.toNat h0
        simp only at this
        rw [hadd] at this
        simp at this
        omega
      · exact h1 it hit
    · intro it hit
      simp only [tableItemsFrom, List.mem_cons] at hit
      rcases hit with rfl | hit
      · exact hid
      · exact h2 it hit
    · simp [tableItemsFrom, h3]

theorem chunksFromTable_tableItemsFrom (max : UInt64) (st : Nat) (off : UInt64)
    (cs : List IndexChunk) (hst : off.toNat = st) (h : ChunksOK max st cs) :
    chunksFromTable max off (tableItemsFrom off cs) = .ok cs := by
  induction cs generalizing st off with
  | nil => simp [tableItemsFrom, chunksFromTable]
  | cons c cs ih =>
    obtain ⟨hid, hs, hmax, hpos, hlt, hrest⟩ := h
    have hadd : (off + c.size).toNat = st + c.size.toNat := by
      rw [UInt64.toNat_add, hst]; omega
    have hle : off ≤ off + c.size := by
      rw [UInt64.le_iff_toNat_le, hadd, hst]; omega
    have hsub : off + c.size - off = c.size := by
      apply UInt64.toNat_inj.mp
      rw [UInt64.toNat_sub_of_le _ _ hle, hadd, hst]; omega
    have hnlt : ¬ (off + c.size < off) := by
      rw [UInt64.lt_iff_toNat_lt, hadd, hst]; omega
    have hngt : ¬ (c.size > max) := by
      have := UInt64.le_iff_toNat_le.mp hmax
      show ¬ (max < c.size)
      rw [UInt64.lt_iff_toNat_lt]; omega
    simp only [tableItemsFrom, chunksFromTable, hnlt, ↓reduceIte, hsub, hngt]
    rw [ih (st + c.size.toNat) (off + c.size) hadd hrest]
    simp only [Res.ok_bind, Res.pure_eq]
    congr 2
    have : c.start = off := by
      apply UInt64.toNat_inj.mp; omega
    cases c; simp_all

end Desync

namespace Desync

theorem decBody_index (sz : UInt64) (s : St) :
    decBody sz Gen.CaFormatIndex s = (do
      let (ff, s) ← readU64 s
      let (mn, s) ← readU64 s
      let (av, s) ← readU64 s
      let (mx, s) ← readU64 s
      pure (.index sz ff mn av mx, s)) := by
  unfold decBody
  rw [if_neg (by decide : ¬ Gen.CaFormatIndex = Gen.CaFormatEntry),
    if_neg (by decide : ¬ Gen.CaFormatIndex = Gen.CaFormatUser),
    if_neg (by decide : ¬ Gen.CaFormatIndex = Gen.CaFormatGroup),
    if_neg (by decide : ¬ Gen.CaFormatIndex = Gen.CaFormatXAttr),
    if_neg (by decide : ¬ Gen.CaFormatIndex = Gen.CaFormatSELinux),
    if_neg (by decide : ¬ Gen.CaFormatIndex = Gen.CaFormatFilename),
    if_neg (by decide : ¬ Gen.CaFormatIndex = Gen.CaFormatSymlink),
    if_neg (by decide : ¬ Gen.CaFormatIndex = Gen.CaFormatDevice),
    if_neg (by decide : ¬ Gen.CaFormatIndex = Gen.CaFormatPayload),
    if_neg (by decide : ¬ Gen.CaFormatIndex = Gen.CaFormatFCaps),
    if_neg (by decide : ¬ Gen.CaFormatIndex = Gen.CaFormatACLUser),
    if_neg (by decide : ¬ Gen.CaFormatIndex = Gen.CaFormatACLGroup),
    if_neg (by decide : ¬ Gen.CaFormatIndex = Gen.CaFormatACLGroupObj),
    if_neg (by decide : ¬ Gen.CaFormatIndex = Gen.CaFormatACLDefault),
    if_neg (by decide : ¬ Gen.CaFormatIndex = Gen.CaFormatGoodbye),
    if_pos rfl]

theorem decBody_table (s : St) :
    decBody 0xFFFFFFFFFFFFFFFF Gen.CaFormatTable s = (do
      let (items, s) ← readTableItems (s.rest.length + 1) s []
      let (x, s) ← readU64 s
      if x ≠ 0 then .err .format else do
      let (_, s) ← readU64 s
      let (_, s) ← readU64 s
      let (m, s) ← readU64 s
      if m ≠ Gen.CaFormatTableTailMarker then .err .format
      else pure (.table 0xFFFFFFFFFFFFFFFF items, s)) := by
  unfold decBody
  rw [if_neg (by decide : ¬ Gen.CaFormatTable = Gen.CaFormatEntry),
    if_neg (by decide : ¬ Gen.CaFormatTable = Gen.CaFormatUser),
    if_neg (by decide : ¬ Gen.CaFormatTable = Gen.CaFormatGroup),
    if_neg (by decide : ¬ Gen.CaFormatTable = Gen.CaFormatXAttr),
    if_neg (by decide : ¬ Gen.CaFormatTable = Gen.CaFormatSELinux),
    if_neg (by decide : ¬ Gen.CaFormatTable = Gen.CaFormatFilename),
    if_neg (by decide : ¬ Gen.CaFormatTable = Gen.CaFormatSymlink),
    if_neg (by decide : ¬ Gen.CaFormatTable = Gen.CaFormatDevice),
    if_neg (by decide : ¬ Gen.CaFormatTable = Gen.CaFormatPayload),
    if_neg (by decide : ¬ Gen.CaFormatTable = Gen.CaFormatFCaps),
    if_neg (by decide : ¬ Gen.CaFormatTable = Gen.CaFormatACLUser),
    if_neg (by decide : ¬ Gen.CaFormatTable = Gen.CaFormatACLGroup),
    if_neg (by decide : ¬ Gen.CaFormatTable = Gen.CaFormatACLGroupObj),
    if_neg (by decide : ¬ Gen.CaFormatTable = Gen.CaFormatACLDefault),
    if_neg (by decide : ¬ Gen.CaFormatTable = Gen.CaFormatGoodbye),
    if_neg (by decide : ¬ Gen.CaFormatTable = Gen.CaFormatIndex),
    if_pos rfl]
  simp only [ne_eq, not_true_eq_false, ↓reduceIte]

theorem decNext_index_enc (sz ff mn av mx : UInt64) (r : Bytes) (a : Nat) :
    decNext ⟨encElem (.index sz ff mn av mx) ++ r, a⟩
      = .ok (some (.index sz ff mn av mx), ⟨r, a⟩) := by
  simp only [encElem, encU64s, List.flatMap_cons, List.flatMap_nil, List.append_nil,
    List.append_assoc]
  unfold decNext
  rw [readU64_le64]
  simp only
  rw [readU64_le64]
  simp only
  rw [decBody_index]
  simp only [readU64_le64, Res.ok_bind, Res.pure_eq]

theorem decNext_table_enc (items : List TableItem) (r : Bytes) (a : Nat)
    (hoff : ∀ it ∈ items, it.offset ≠ 0) (hid : ∀ it ∈ items, it.id.length = 32) :
    decNext ⟨encElem (.table 0xFFFFFFFFFFFFFFFF items) ++ r, a⟩
      = .ok (some (.table 0xFFFFFFFFFFFFFFFF items), ⟨r, a + 32 * items.length⟩) := by
  simp only [encElem, encU64s, List.flatMap_cons, List.flatMap_nil, List.append_nil,
    List.append_assoc]
  unfold decNext
  rw [readU64_le64]
  simp only
  rw [readU64_le64]
  simp only
  rw [decBody_table]
  simp only
  rw [readTableItems_enc items _ a [] _ _ hoff hid]
  · simp only [Res.ok_bind, readU64_le64, List.reverse_nil, List.nil_append, ne_eq,
      not_true_eq_false, ↓reduceIte, Res.pure_eq]
  · simp only [List.length_append, le64_length]
    have : (encTableItems items).length ≥ items.length := by
      induction items with
      | nil => simp
      | cons it items ih =>
        have := ih (fun x hx => hoff x (by simp [hx])) (fun x hx => hid x (by simp [hx]))
        simp only [encTableItems, List.flatMap_cons, List.length_append, le64_length,
          List.length_cons] at this ⊢
        omega
    omega

end Desync
