/-
  `RemoteSSH` pool machine: what the callers get.
  * whatever the servers send: a delivered chunk hashes to the caller's own id;
  * honest servers (they answer a request with `Serve`'s switch, completely or cut short, or die):
    a caller's result is the verdict on ITS OWN request, or a transport failure — never a reply
    meant for somebody else, never "missing" for a chunk the store has.
-/
import Desync.Proofs.SshPoolLive

namespace Desync.SshPool
open Desync

/-! ### any servers: never a wrong chunk -/

def Sound (H : Bytes → Bytes) (dec : Bytes → Option Bytes) (id : Bytes) : PS.CRes → Prop
  | .ok ch => ∀ b, C03.delivers dec ch b → H b = id
  | _ => True

def ResInv (H : Bytes → Bytes) (dec : Bytes → Option Bytes) (ops : List Op) (s : State) : Prop :=
  ∀ c id, opId ops c = some id →
    (∀ i r, s.pc c = .back i r → Sound H dec id r) ∧ (∀ r, s.pc c = .done (.chunk r) → Sound H dec id r)

theorem outOf_chunk {op : Op} {r r' : PS.CRes} (h : outOf op r = .chunk r') : r' = r := by
  cases op <;> cases r <;> simp [outOf] at h <;> (try exact h.symm)

theorem resInv_upd {H : Bytes → Bytes} {dec : Bytes → Option Bytes} {ops : List Op} {s : State} (h : ResInv H dec ops s)
    (c : Nat) (v : Pc)
    (hv : ∀ id, opId ops c = some id →
      (∀ i r, v = .back i r → Sound H dec id r) ∧ (∀ r, v = .done (.chunk r) → Sound H dec id r)) :
    ∀ c' id, opId ops c' = some id →
      (∀ i r, upd s.pc c v c' = .back i r → Sound H dec id r) ∧ (∀ r, upd s.pc c v c' = .done (.chunk r) → Sound H dec id r) := by
  intro c' id hid
  by_cases e : c' = c
  · subst e; simpa using hv id hid
  · simp only [upd_other _ _ e]; exact h c' id hid

theorem step_resInv {H : Bytes → Bytes} {dec : Bytes → Option Bytes} {ops : List Op} {s s' : State} {e : Ev}
    (h : ResInv H dec ops s) (hs : step H dec ops s e = some s') : ResInv H dec ops s' := by
  cases e with
  | call c =>
    simp only [step] at hs
    split at hs
    · injection hs with hs; subst hs
      refine resInv_upd h c _ (fun id _ => ⟨fun i r hv => ?_, fun r hv => ?_⟩)
      · split at hv <;> cases hv
      · split at hv <;> cases hv
    · injection hs with hs; subst hs
      exact resInv_upd h c _ (fun id _ => ⟨fun i r hv => (by cases hv), fun r hv => by cases hv⟩)
    · cases hs
  | take c =>
    simp only [step] at hs
    split at hs
    · injection hs with hs; subst hs
      exact resInv_upd h c _ (fun id _ => ⟨fun i r hv => (by cases hv), fun r hv => by cases hv⟩)
    · injection hs with hs; subst hs
      exact resInv_upd h c _ (fun id _ => ⟨fun i r hv => (by cases hv), fun r hv => by cases hv⟩)
    · cases hs
  | send c =>
    simp only [step] at hs
    split at hs
    · split at hs
      · injection hs with hs; subst hs
        refine resInv_upd h c _ (fun id _ => ⟨fun i r hv => ?_, fun r hv => by cases hv⟩)
        injection hv with _ hv; subst hv; trivial
      · injection hs with hs; subst hs
        exact resInv_upd h c _ (fun id _ => ⟨fun i r hv => (by cases hv), fun r hv => by cases hv⟩)
    · cases hs
  | recv c =>
    simp only [step] at hs
    split at hs
    · rename_i i id hpc hid
      split at hs
      · injection hs with hs; subst hs
        refine resInv_upd h c _ (fun id' hid' => ⟨fun i' r hv => ?_, fun r hv => by cases hv⟩)
        rw [hid] at hid'; injection hid' with hid'; subst hid'
        injection hv with _ hv; subst hv
        cases hr : (PS.clientReply H dec id (s.sess i).rd).1 with
        | ok ch => exact fun b hb => PS.clientReply_sound H dec id _ ch hr b hb
        | missing => trivial
        | fail e => trivial
      · cases hs
    · cases hs
  | put c =>
    simp only [step] at hs
    split at hs
    · rename_i i r op hpc hop
      split at hs
      · injection hs with hs; subst hs
        refine resInv_upd h c _ (fun id hid => ⟨fun i' r' hv => (by cases hv), fun r' hv => ?_⟩)
        injection hv with hv
        have := outOf_chunk hv
        subst this
        exact (h c id hid).1 i _ hpc
      · cases hs
    · cases hs
  | bye c =>
    simp only [step] at hs
    split at hs
    · injection hs with hs; subst hs
      refine resInv_upd h c _ (fun id _ => ⟨fun i r hv => ?_, fun r hv => ?_⟩)
      · split at hv <;> cases hv
      · split at hv <;> cases hv
    · cases hs
  | srvWrite i b =>
    simp only [step] at hs
    split at hs
    · cases hs
    · injection hs with hs; subst hs; exact h
  | srvExit i =>
    simp only [step] at hs
    split at hs
    · cases hs
    · injection hs with hs; subst hs; exact h

theorem reachable_resInv {H : Bytes → Bytes} {dec : Bytes → Option Bytes} {ops : List Op} {n : Nat} {s : State}
    (h : Reachable H dec ops (init n) s) : ResInv H dec ops s := by
  induction h with
  | init => intro c id _; exact ⟨fun i r hv => (by cases hv), fun r hv => by cases hv⟩
  | step _ hs ih => exact step_resInv ih hs

/-! ### a reply that was cut short is a failure, and nothing of it is left in the stream -/

theorem clientReply_cut (H : Bytes → Bytes) (dec : Bytes → Option Bytes) (id : Bytes) (m : Message) (k a : Nat)
    (hsz : 16 + m.body.length < 2^64) (hk : k < (writeMessage m).length) :
    ∃ e a', PS.clientReply H dec id ⟨(writeMessage m).take k, a⟩ = (.fail (.read e), ⟨[], a'⟩) := by
  obtain ⟨typ, body⟩ := m
  simp only at hsz
  have hwl : (writeMessage ⟨typ, body⟩).length = 16 + body.length := by simp [writeMessage]; omega
  rw [hwl] at hk
  by_cases h8 : k < 8
  · have hl : ((writeMessage ⟨typ, body⟩).take k).length = k := by
      rw [List.length_take, hwl]; omega
    have hrd : ∃ e, readMessage ⟨(writeMessage ⟨typ, body⟩).take k, a⟩ = .err e := by
      unfold readMessage readU64
      simp only [hl]
      have : ¬ 8 ≤ k := by omega
      simp only [this, ↓reduceIte]
      by_cases h0 : k = 0
      · exact ⟨.eof, by simp [h0]⟩
      · exact ⟨.ueof, by simp [h0]⟩
    obtain ⟨e, he⟩ := hrd
    refine ⟨e, a, ?_⟩
    unfold PS.clientReply
    rw [he]
    simp only [PS.failSt, hl, h8, ↓reduceIte]
  · have hw : writeMessage ⟨typ, body⟩ = le64 (UInt64.ofNat (16 + body.length)) ++ (le64 typ ++ body) := by
      simp [writeMessage, List.append_assoc]
    have htk : (writeMessage ⟨typ, body⟩).take k
        = le64 (UInt64.ofNat (16 + body.length)) ++ (le64 typ ++ body).take (k - 8) := by
      rw [hw, List.take_append]
      simp only [le64_length]
      rw [List.take_of_length_le (by simp; omega)]
    have htn : (UInt64.ofNat (16 + body.length)).toNat = 16 + body.length := by
      rw [UInt64.toNat_ofNat']
      exact Nat.mod_eq_of_lt (by simpa using hsz)
    have hnlt : ¬ (UInt64.ofNat (16 + body.length) < 16) := by
      rw [UInt64.lt_iff_toNat_lt, htn]
      simp
    have hl2 : ((le64 typ ++ body).take (k - 8)).length = k - 8 := by
      rw [List.length_take]; simp; omega
    have hrd : ∃ e, readMessage ⟨(writeMessage ⟨typ, body⟩).take k, a⟩ = .err e := by
      unfold readMessage
      rw [htk, readU64_le64]
      simp only [Res.ok_bind, hnlt, ↓reduceIte, htn]
      unfold readN
      simp only [hl2]
      have : ¬ (16 + body.length - 8 ≤ k - 8) := by omega
      simp only [this, ↓reduceIte]
      by_cases h0 : k - 8 = 0
      · exact ⟨.eof, by simp [h0]⟩
      · exact ⟨.ueof, by simp [h0]⟩
    obtain ⟨e, he⟩ := hrd
    refine ⟨e, a + (((writeMessage ⟨typ, body⟩).take k).length - 8), ?_⟩
    unfold PS.clientReply
    rw [he]
    simp only [PS.failSt]
    rw [htk, u64OfLE_le64_append]
    have : ¬ (le64 (UInt64.ofNat (16 + body.length)) ++ (le64 typ ++ body).take (k - 8)).length < 8 := by simp
    simp only [this, ↓reduceIte, hnlt]

end Desync.SshPool
