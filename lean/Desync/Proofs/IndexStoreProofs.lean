/-
  Lemmas for C04 (index stores): the stores of `Model/IndexStore.lean` refine a map
  name → index.  What the codec contributes is taken as hypotheses here (`RoundTrip`,
  `PrefixRejected`), so that this file does not depend on `Properties/C04.lean`, which
  instantiates them with `decode_encode` and `prefix_rejected`.
-/
import Desync.Model.IndexStore

namespace Desync.IStore
open Desync

/-! ### the finite map -/

theorem Dir.get_set_same (d : Dir) (n : Name) (b : Bytes) : (d.set n b).get n = some b := by
  induction d with
  | nil => simp [Dir.set, Dir.get]
  | cons e d ih =>
    obtain ⟨m, c⟩ := e
    unfold Dir.set
    by_cases h : m = n
    · simp [h, Dir.get]
    · simp [h, Dir.get, ih]

theorem Dir.get_set_other (d : Dir) (n m : Name) (b : Bytes) (h : m ≠ n) :
    (d.set n b).get m = d.get m := by
  induction d with
  | nil =>
    have : n ≠ m := fun e => h e.symm
    simp [Dir.set, Dir.get, this]
  | cons e d ih =>
    obtain ⟨x, c⟩ := e
    unfold Dir.set
    split
    · rename_i hx
      have hxm : ¬ x = m := fun e => h (e.symm.trans hx)
      simp [Dir.get, hxm]
    · by_cases hm : x = m
      · simp [Dir.get, hm]
      · simp [Dir.get, hm, ih]

theorem plainName_props (n : Name) (h : plainName n = true) :
    n ≠ [] ∧ (47 : UInt8) ∉ n ∧ n ≠ [46] ∧ n ≠ [46, 46] := by
  unfold plainName at h
  simp only [Bool.and_eq_true, Bool.not_eq_true', beq_eq_false_iff_ne, ne_eq] at h
  obtain ⟨⟨⟨h1, h2⟩, h3⟩, h4⟩ := h
  refine ⟨h1, ?_, h3, h4⟩
  intro hm
  have : n.contains 47 = true := List.contains_iff_mem.mpr hm
  rw [this] at h2; cases h2

/-! ### local store -/

/-- what the codec has to provide for an index the stores are used with -/
def RoundTrip (alg : DigestAlg) (Good : Index → Prop) : Prop :=
  ∀ i, Good i → decodeIndex alg (encodeIndex i) = .ok i

def PrefixRejected (alg : DigestAlg) (Good : Index → Prop) : Prop :=
  ∀ i k, Good i → k < (encodeIndex i).length → ∃ e, decodeIndex alg ((encodeIndex i).take k) = .err e

theorem writeOver_trunc (old w : Bytes) : writeOver true old w = w := rfl

/-- without `O_TRUNC` a shorter write over a longer file leaves the tail of the old content -/
theorem writeOver_notrunc_tail (old w : Bytes) (h : w.length < old.length) : writeOver false old w ≠ w := by
  intro e
  have := congrArg List.length e
  simp [writeOver] at this
  omega

theorem localStore_frame (c : LocalCfg) (d : Dir) (n : Name) (i : Index) (f : StoreFault) (m : Name)
    (h : m ≠ n) : ((localStore c d n i f).1).get m = d.get m := by
  unfold localStore
  split
  · rfl
  · cases f <;> simp [Dir.get_set_other _ _ _ _ h]

theorem localStore_ok_get (c : LocalCfg) (hc : c.truncates = true) (d : Dir) (n : Name) (i : Index)
    (hn : plainName n = true) :
    localStore c d n i .none = (d.set n (encodeIndex i), true) := by
  simp [localStore, hn, hc, writeOver]

theorem localStore_writeFails (c : LocalCfg) (hc : c.truncates = true) (d : Dir) (n : Name) (i : Index) (k : Nat)
    (hn : plainName n = true) :
    localStore c d n i (.writeFails k) = (d.set n ((encodeIndex i).take k), !c.returnsWriteErr) := by
  simp [localStore, hn, hc, writeOver]

theorem localStore_createFails (c : LocalCfg) (d : Dir) (n : Name) (i : Index) :
    localStore c d n i .createFails = (d, false) := by
  unfold localStore
  split <;> rfl

theorem localStore_notPlain (c : LocalCfg) (d : Dir) (n : Name) (i : Index) (f : StoreFault)
    (hn : plainName n = false) : localStore c d n i f = (d, false) := by
  simp [localStore, hn]

/-- a store that reports success has written the complete encoding -/
theorem localStore_success_complete (c : LocalCfg) (hc : c = ⟨true, true⟩) (d : Dir) (n : Name) (i : Index)
    (f : StoreFault) (h : (localStore c d n i f).2 = true) :
    f = .none ∧ plainName n = true ∧ (localStore c d n i f).1 = d.set n (encodeIndex i) := by
  subst hc
  by_cases hn : plainName n = true
  · cases f with
    | none => exact ⟨rfl, hn, by rw [localStore_ok_get _ rfl _ _ _ hn]⟩
    | createFails => rw [localStore_createFails] at h; cases h
    | writeFails k => rw [localStore_writeFails _ rfl _ _ _ _ hn] at h; cases h
  · have hn' : plainName n = false := by simpa using hn
    rw [localStore_notPlain _ _ _ _ _ hn'] at h; cases h

theorem take_full {α} (l : List α) (k : Nat) (h : l.length ≤ k) : l.take k = l := List.take_of_length_le h

/-- reading back bytes that are a prefix of an encoding: an error, or (the whole encoding) the index -/
theorem decodeRes_prefix (alg : DigestAlg) (Good : Index → Prop) (hrt : RoundTrip alg Good)
    (hpre : PrefixRejected alg Good) (i : Index) (hi : Good i) (k : Nat) :
    (k < (encodeIndex i).length → ∃ e, decodeRes alg ((encodeIndex i).take k) = .decodeErr e) ∧
    ((encodeIndex i).length ≤ k → decodeRes alg ((encodeIndex i).take k) = .ok i) := by
  constructor
  · intro hk
    obtain ⟨e, he⟩ := hpre i k hi hk
    exact ⟨e, by simp [decodeRes, he]⟩
  · intro hk
    rw [take_full _ _ hk]
    simp [decodeRes, hrt i hi]

/-! ### histories: the directory refines an abstract map -/

/-- abstract content of a name: a whole index, or what a store that failed part-way left of one -/
inductive AFile
  | whole (i : Index)
  | part (i : Index) (k : Nat)

def AFile.bytes : AFile → Bytes
  | .whole i => encodeIndex i
  | .part i k => (encodeIndex i).take k

structure Op where
  n : Name
  i : Index
  f : StoreFault

abbrev AMap := Name → Option AFile

/-- the abstract effect of a `StoreIndex` -/
def absStep (a : AMap) (o : Op) : AMap := fun m =>
  if m = o.n ∧ plainName o.n = true then
    match o.f with
    | .none => some (.whole o.i)
    | .createFails => a m
    | .writeFails k => some (.part o.i k)
  else a m

def absRun (a : AMap) (ops : List Op) : AMap := ops.foldl absStep a

def run (c : LocalCfg) (d : Dir) (ops : List Op) : Dir :=
  ops.foldl (fun d o => (localStore c d o.n o.i o.f).1) d

def Refines (d : Dir) (a : AMap) : Prop := ∀ m, d.get m = (a m).map AFile.bytes

theorem step_refines (c : LocalCfg) (hc : c.truncates = true) (d : Dir) (a : AMap) (h : Refines d a) (o : Op) :
    Refines (localStore c d o.n o.i o.f).1 (absStep a o) := by
  intro m
  unfold absStep
  by_cases hn : plainName o.n = true
  · by_cases hm : m = o.n
    · subst hm
      simp only [hn, and_self, ↓reduceIte]
      cases hf : o.f with
      | none => rw [localStore_ok_get _ hc _ _ _ hn]; simp [Dir.get_set_same, AFile.bytes]
      | createFails => rw [localStore_createFails]; exact h _
      | writeFails k => rw [localStore_writeFails _ hc _ _ _ _ hn]; simp [Dir.get_set_same, AFile.bytes]
    · rw [localStore_frame _ _ _ _ _ _ hm]
      simp only [hm, false_and, ↓reduceIte]
      exact h m
  · have hn' : plainName o.n = false := by simpa using hn
    rw [localStore_notPlain _ _ _ _ _ hn']
    simp only [hn', Bool.false_eq_true, and_false, ↓reduceIte]
    exact h m

theorem run_refines (c : LocalCfg) (hc : c.truncates = true) (ops : List Op) (d : Dir) (a : AMap)
    (h : Refines d a) : Refines (run c d ops) (absRun a ops) := by
  induction ops generalizing d a with
  | nil => exact h
  | cons o ops ih =>
    simp only [run, absRun, List.foldl_cons]
    exact ih _ _ (step_refines c hc d a h o)

/-- what `GetIndex` returns for a name, given the abstract content -/
def GetSpec (alg : DigestAlg) (d : Dir) (m : Name) : Option AFile → Prop
  | none => localGet alg d m = .notFound
  | some (.whole i) => localGet alg d m = .ok i
  | some (.part i k) =>
    (k < (encodeIndex i).length → ∃ e, localGet alg d m = .decodeErr e) ∧
    ((encodeIndex i).length ≤ k → localGet alg d m = .ok i)

def AFile.index : AFile → Index
  | .whole i => i
  | .part i _ => i

theorem get_of_refines (alg : DigestAlg) (Good : Index → Prop) (hrt : RoundTrip alg Good)
    (hpre : PrefixRejected alg Good) (d : Dir) (a : AMap) (h : Refines d a) (m : Name)
    (hg : ∀ x, a m = some x → Good x.index) : GetSpec alg d m (a m) := by
  have hm := h m
  cases ha : a m with
  | none =>
    rw [ha] at hm
    simp [GetSpec, localGet, hm]
  | some x =>
    rw [ha] at hm
    have hgx := hg x ha
    cases x with
    | whole i =>
      simp only [Option.map_some, AFile.bytes] at hm
      simp [GetSpec, localGet, hm, decodeRes, hrt i hgx]
    | part i k =>
      simp only [Option.map_some, AFile.bytes] at hm
      simp only [GetSpec, localGet, hm]
      exact decodeRes_prefix alg Good hrt hpre i hgx k

/-- every index in the abstract map came from an operation of the history (or was there before) -/
theorem absRun_index (ops : List Op) (a : AMap) (P : Index → Prop) (ha : ∀ m x, a m = some x → P x.index)
    (ho : ∀ o ∈ ops, P o.i) : ∀ m x, absRun a ops m = some x → P x.index := by
  induction ops generalizing a with
  | nil => exact ha
  | cons o ops ih =>
    simp only [absRun, List.foldl_cons]
    apply ih
    · intro m x hx
      unfold absStep at hx
      have hoi := ho o (by simp)
      split at hx
      · cases hf : o.f with
        | none => rw [hf] at hx; simp only [Option.some.injEq] at hx; subst hx; exact hoi
        | createFails => rw [hf] at hx; exact ha m x hx
        | writeFails k => rw [hf] at hx; simp only [Option.some.injEq] at hx; subst hx; exact hoi
      · exact ha m x hx
    · intro o' ho'; exact ho o' (by simp [ho'])

/-- **refinement, with faults**: after any history of `StoreIndex` calls — successful, failing at the
    open, failing after `k` bytes — `GetIndex` of any name answers as the abstract map says -/
theorem history_refines (alg : DigestAlg) (Good : Index → Prop) (hrt : RoundTrip alg Good)
    (hpre : PrefixRejected alg Good) (c : LocalCfg) (hc : c.truncates = true) (ops : List Op)
    (hg : ∀ o ∈ ops, Good o.i) (m : Name) :
    GetSpec alg (run c [] ops) m (absRun (fun _ => none) ops m) := by
  apply get_of_refines alg Good hrt hpre _ _ (run_refines c hc ops [] (fun _ => none) (fun _ => rfl)) m
  exact absRun_index ops (fun _ => none) Good (by intro _ _ h; cases h) hg m

/-! ### successful histories: the index stored last -/

/-- the index stored last under `m` in a history (oldest first): the later part of the history decides,
    and only when it does not mention `m` the first entry does -/
def lastStored : List (Name × Index) → Name → Option Index
  | [], _ => none
  | (n, i) :: h, m =>
    match lastStored h m with
    | some j => some j
    | none => if n = m then some i else none

def opsOf (h : List (Name × Index)) : List Op := h.map fun p => ⟨p.1, p.2, .none⟩

theorem absRun_success (h : List (Name × Index)) (hn : ∀ p ∈ h, plainName p.1 = true) (a : AMap) (m : Name) :
    absRun a (opsOf h) m =
      match lastStored h m with
      | some i => some (.whole i)
      | none => a m := by
  induction h generalizing a with
  | nil => rfl
  | cons p h ih =>
    obtain ⟨n, i⟩ := p
    have hp : plainName n = true := hn (n, i) (by simp)
    simp only [opsOf, List.map_cons, absRun, List.foldl_cons]
    have := ih (fun q hq => hn q (by simp [hq])) (absStep a ⟨n, i, .none⟩)
    simp only [opsOf, absRun] at this
    rw [this]
    simp only [lastStored]
    cases hl : lastStored h m with
    | some j => rfl
    | none =>
      simp only [absStep, hp, and_true]
      by_cases hnm : n = m
      · subst hnm; simp
      · have : ¬ m = n := fun e => hnm e.symm
        simp [hnm, this]

theorem lastStored_mem (h : List (Name × Index)) (m : Name) (i : Index) (e : lastStored h m = some i) :
    (m, i) ∈ h := by
  induction h with
  | nil => cases e
  | cons p h ih =>
    obtain ⟨n, j⟩ := p
    simp only [lastStored] at e
    cases hl : lastStored h m with
    | some j' =>
      simp only [hl, Option.some.injEq] at e
      subst e
      exact List.mem_cons_of_mem _ (ih hl)
    | none =>
      simp only [hl] at e
      by_cases hnm : n = m
      · simp only [hnm, ↓reduceIte, Option.some.injEq] at e
        subst e; subst hnm
        exact List.mem_cons_self
      · simp [hnm] at e

/-- **refinement**: after any history of successful `StoreIndex` calls on indexes the codec round-trips,
    `GetIndex` of any name returns exactly the index stored last under it, and "not found" if there is none -/
theorem success_history_get (alg : DigestAlg) (Good : Index → Prop) (hrt : RoundTrip alg Good)
    (c : LocalCfg) (hc : c.truncates = true) (h : List (Name × Index))
    (hn : ∀ p ∈ h, plainName p.1 = true) (hg : ∀ p ∈ h, Good p.2) (m : Name) :
    localGet alg (run c [] (opsOf h)) m =
      match lastStored h m with
      | some i => .ok i
      | none => .notFound := by
  have href := run_refines c hc (opsOf h) [] (fun _ => none) (fun _ => rfl) m
  rw [absRun_success h hn] at href
  cases hl : lastStored h m with
  | none =>
    rw [hl] at href
    simp [localGet, href]
  | some i =>
    rw [hl] at href
    have hgi : Good i := hg (m, i) (lastStored_mem h m i hl)
    simp only [Option.map_some, AFile.bytes] at href
    simp [localGet, href, decodeRes, hrt i hgi]

/-! ### HTTP: `path.Base` of the request path -/

theorem takeWhile_append_stop (f : UInt8 → Bool) (l r : Bytes) (a : UInt8)
    (hl : ∀ x ∈ l, f x = true) (ha : f a = false) : (l ++ a :: r).takeWhile f = l := by
  induction l with
  | nil => simp [ha]
  | cons y ys ih =>
    have hy : f y = true := hl y (by simp)
    simp only [List.cons_append, List.takeWhile_cons, hy, ↓reduceIte]
    rw [ih (fun x hx => hl x (by simp [hx]))]

/-- `path.Base("/" + t)` for a non-empty `t` without '/' is `t` -/
theorem goBase_slash (t : Bytes) (hne : t ≠ []) (h47 : (47 : UInt8) ∉ t) : goBase (47 :: t) = t := by
  obtain ⟨u, x, rfl⟩ : ∃ u x, t = u ++ [x] := by
    rcases List.eq_nil_or_concat t with h | ⟨u, x, h⟩
    · exact absurd h hne
    · exact ⟨u, x, by simpa using h⟩
  have hx : x ≠ 47 := fun h => h47 (by simp [h])
  have hrev : (47 :: (u ++ [x])).reverse = x :: (u.reverse ++ [47]) := by simp
  have hdrop : (x :: (u.reverse ++ [47])).dropWhile (· = 47) = x :: (u.reverse ++ [47]) := by
    simp [hx]
  have htake : (x :: (u.reverse ++ [47])).takeWhile (· ≠ 47) = x :: u.reverse := by
    have := takeWhile_append_stop (· ≠ 47) (x :: u.reverse) [] 47
      (by
        intro y hy
        have : y ∈ u ++ [x] := by
          simp only [List.mem_cons, List.mem_reverse] at hy
          simp only [List.mem_append, List.mem_singleton]
          exact hy.symm
        have : y ≠ 47 := fun h => h47 (h ▸ this)
        simpa using this)
      (by simp)
    simpa using this
  unfold goBase
  rw [if_neg (by simp)]
  simp only [hrev, hdrop, List.reverse_reverse, htake]
  rw [if_neg (by simp)]
  simp

theorem reqName_plain (n : Name) (hn : plainName n = true) (r : Request) (hp : r.path = 47 :: n) :
    reqName r = n := by
  obtain ⟨h1, h2, _, _⟩ := plainName_props n hn
  simp [reqName, hp, goBase_slash n h1 h2]

/-! ### HTTP: the handler over the local store -/

theorem serveIndex_calls (cfg : HandlerCfg) (o : StoreOracle) (r : Request) :
    (serveIndex cfg o r).calls = [] ∨ (serveIndex cfg o r).calls = [.getIndex (goBase r.path)] ∨
    (serveIndex cfg o r).calls = [.getIndexReader (goBase r.path)] ∨
    (serveIndex cfg o r).calls = [.storeIndex (goBase r.path)] := by
  by_cases h2 : (goBase r.path = [46] ∨ goBase r.path = [46, 46] ∨ goBase r.path = [47])
  all_goals by_cases h1 : (cfg.auth ≠ [] ∧ r.authHeader ≠ cfg.auth)
  all_goals simp only [serveIndex, h1, h2, ↓reduceIte]
  all_goals repeat' split
  all_goals simp

theorem serveIndex_get_calls (cfg : HandlerCfg) (o : StoreOracle) (r : Request) (hm : r.method = .get) :
    (serveIndex cfg o r).calls = [] ∨ (serveIndex cfg o r).calls = [.getIndex (goBase r.path)] := by
  by_cases h2 : (goBase r.path = [46] ∨ goBase r.path = [46, 46] ∨ goBase r.path = [47])
  all_goals by_cases h1 : (cfg.auth ≠ [] ∧ r.authHeader ≠ cfg.auth)
  all_goals simp only [serveIndex, h1, h2, hm, ↓reduceIte]
  all_goals repeat' split
  all_goals simp

theorem serveIndex_put_200 (cfg : HandlerCfg) (o : StoreOracle) (r : Request) (hm : r.method = .put)
    (c : Nat) (hc : c = 200 ∨ c = 201) (h : (serveIndex cfg o r).status = c) :
    c = 200 ∧ o.indexValid = true ∧ o.storeOK = true ∧
    (serveIndex cfg o r).calls = [.storeIndex (goBase r.path)] := by
  by_cases h2 : (goBase r.path = [46] ∨ goBase r.path = [46, 46] ∨ goBase r.path = [47])
  all_goals by_cases h1 : (cfg.auth ≠ [] ∧ r.authHeader ≠ cfg.auth)
  all_goals simp only [serveIndex, h1, h2, hm, ↓reduceIte] at h ⊢
  all_goals repeat' split at h
  all_goals first
    | omega
    | (simp_all; done)
    | (simp_all; omega)
theorem handle_frame (s : Srv) (d : Dir) (r : Request) (f : StoreFault) (m : Name) (h : m ≠ reqName r) :
    ((handle s d r f).1).get m = d.get m := by
  unfold handle
  simp only
  rcases serveIndex_calls s.cfg (oracleFor s d r f) r with hc | hc | hc | hc <;> rw [hc]
  · rfl
  · rfl
  · rfl
  · simp only [List.foldl_cons, List.foldl_nil, applyCall]
    split
    · exact localStore_frame _ _ _ _ _ _ h
    · rfl

theorem handle_get_dir (s : Srv) (d : Dir) (r : Request) (f : StoreFault) (hm : r.method = .get) :
    (handle s d r f).1 = d := by
  unfold handle
  simp only
  rcases serveIndex_get_calls s.cfg (oracleFor s d r f) r hm with hc | hc <;> rw [hc] <;> rfl

/-- hypotheses under which the handler lets a request of the client through to the store -/
structure Open (c : ClientCfg) (s : Srv) : Prop where
  auth : s.cfg.auth = [] ∨ c.auth = s.cfg.auth
  writable : s.cfg.writable = true
  storeWritable : s.cfg.storeIsWritable = true

theorem nameOK (n : Name) (hn : plainName n = true) : ¬ (n = [46] ∨ n = [46, 46] ∨ n = [47]) := by
  obtain ⟨_, h2, h3, h4⟩ := plainName_props n hn
  intro h
  rcases h with h | h | h
  · exact h3 h
  · exact h4 h
  · exact h2 (by simp [h])

theorem authOK (c : ClientCfg) (s : Srv) (h : s.cfg.auth = [] ∨ c.auth = s.cfg.auth) :
    ¬ (s.cfg.auth ≠ [] ∧ c.auth ≠ s.cfg.auth) := by
  intro ⟨h1, h2⟩
  rcases h with h | h
  · exact h1 h
  · exact h2 h

/-- PUT of the complete encoding of a round-tripping index: the handler decodes it, stores it in the
    local store and answers 200 iff that store call succeeded (500 otherwise) -/
theorem handle_put (alg : DigestAlg) (Good : Index → Prop) (hrt : RoundTrip alg Good)
    (c : ClientCfg) (hf : c.freshBody = true) (s : Srv) (hs : s.alg = alg) (ho : Open c s)
    (d : Dir) (n : Name) (hn : plainName n = true) (i : Index) (hi : Good i) (k : Nat) (f : StoreFault) :
    handle s d (putRequest c n i k) f =
      ((localStore s.lcfg d n i f).1, .status (if (localStore s.lcfg d n i f).2 then 200 else 500) []) := by
  have hname : reqName (putRequest c n i k) = n := reqName_plain n hn _ rfl
  have hgb : goBase (47 :: n) = n := by simpa [reqName, putRequest] using hname
  have hbody : (putRequest c n i k).body = encodeIndex i := by simp [putRequest, attemptBody, hf]
  have hdec : decodeIndex s.alg (encodeIndex i) = .ok i := hs ▸ hrt i hi
  have hauth := authOK c s ho.auth
  have hnm := nameOK n hn
  unfold handle
  simp only [serveIndex, oracleFor, hname, hbody, hdec]
  simp only [putRequest, hgb, hauth, hnm, ↓reduceIte, ho.writable, ho.storeWritable, Bool.not_true,
    Bool.false_eq_true]
  cases hst : (localStore s.lcfg d n i f).2 <;>
    simp [applyCall, hdec, attemptBody, hf]

/-- GET of a name that holds the encoding of a round-tripping index: 200 with that encoding -/
theorem handle_get (alg : DigestAlg) (Good : Index → Prop) (hrt : RoundTrip alg Good)
    (c : ClientCfg) (s : Srv) (hs : s.alg = alg) (ho : Open c s)
    (d : Dir) (n : Name) (hn : plainName n = true) (i : Index) (hi : Good i)
    (hd : d.get n = some (encodeIndex i)) (f : StoreFault) :
    handle s d (getRequest c n) f = (d, .status 200 (encodeIndex i)) := by
  have hname : reqName (getRequest c n) = n := reqName_plain n hn _ rfl
  have hgb : goBase (47 :: n) = n := by simpa [reqName, getRequest] using hname
  have hdec : decodeIndex s.alg (encodeIndex i) = .ok i := hs ▸ hrt i hi
  have hget : localGet s.alg d n = .ok i := by simp [localGet, hd, decodeRes, hdec]
  have hauth := authOK c s ho.auth
  have hnm := nameOK n hn
  unfold handle
  simp only [serveIndex, oracleFor, hname, hget]
  simp [getRequest, hgb, hauth, hnm, applyCall]

/-- whatever the request: a 200 (or 201) on PUT means the decoded body is now the content of the name -/
theorem handle_put_success (s : Srv) (hl : s.lcfg = ⟨true, true⟩) (d d' : Dir) (r : Request) (f : StoreFault)
    (hm : r.method = .put) (c : Nat) (b : Bytes) (hc : c = 200 ∨ c = 201)
    (h : handle s d r f = (d', .status c b)) :
    ∃ i, decodeIndex s.alg r.body = .ok i ∧ d' = d.set (reqName r) (encodeIndex i) := by
  unfold handle at h
  simp only [Prod.mk.injEq, Http.Resp.status.injEq] at h
  obtain ⟨hd, hst, _⟩ := h
  obtain ⟨_, hv, hok, hcalls⟩ := serveIndex_put_200 s.cfg (oracleFor s d r f) r hm c hc hst
  rw [hcalls] at hd
  simp only [List.foldl_cons, List.foldl_nil, applyCall] at hd
  simp only [oracleFor] at hv hok
  cases hdec : decodeIndex s.alg r.body with
  | err e => simp [hdec] at hv
  | panic p => simp [hdec] at hv
  | ok i =>
    refine ⟨i, rfl, ?_⟩
    simp only [hdec] at hd hok
    obtain ⟨_, _, hfin⟩ := localStore_success_complete s.lcfg hl d (reqName r) i f hok
    rw [← hd]
    exact hfin

/-! ### HTTP: the retry loop (additions to `Proofs/HttpRetryProofs.lean`, kept here so that this file
    depends on models only) -/

open Http in
theorem retryLoop_masks (retry : Nat) (fails : List Http.Resp) (c : Nat) (b : Bytes) (rest : List Http.Resp)
    (hf : ∀ r ∈ fails, retryable r = true) (hc : ¬ (500 ≤ c ∧ c < 600))
    (fuel attempt : Nat) (hk : fails = [] ∨ attempt + fails.length < retry) (hfuel : fails.length < fuel) :
    retryLoop retry fuel (fails ++ Http.Resp.status c b :: rest) attempt
      = (.answer c b, attempt + fails.length + 1) := by
  induction fails generalizing fuel attempt with
  | nil =>
    cases fuel with
    | zero => simp at hfuel
    | succ fuel =>
      have hr : retryable (Http.Resp.status c b) = false := by simp [retryable, hc]
      simp [retryLoop, hr]
  | cons f fails ih =>
    cases fuel with
    | zero => simp at hfuel
    | succ fuel =>
      have hr : retryable f = true := hf f List.mem_cons_self
      have hk' : attempt + (fails.length + 1) < retry := by
        rcases hk with hk | hk
        · cases hk
        · simpa using hk
      have hlt : ¬ (attempt + 1 ≥ retry) := by omega
      simp only [List.length_cons] at hfuel
      have := ih (fun r hr => hf r (List.mem_cons_of_mem _ hr)) fuel (attempt + 1)
        (Or.inr (by omega)) (by omega)
      simp only [retryLoop, List.cons_append, List.headD_cons, hr, ↓reduceIte, hlt, List.tail_cons,
        this, List.length_cons]
      congr 1
      omega

open Http in
/-- transient failures (fewer than the budget) followed by a final answer are invisible; with no failure
    at all the budget does not matter -/
theorem issueRetryable_masks (retry : Nat) (fails : List Http.Resp) (c : Nat) (b : Bytes) (rest : List Http.Resp)
    (hf : ∀ r ∈ fails, retryable r = true) (hk : fails = [] ∨ fails.length < retry) (hc : ¬ (500 ≤ c ∧ c < 600)) :
    issueRetryable retry (fails ++ Http.Resp.status c b :: rest) = (.answer c b, fails.length + 1) := by
  unfold issueRetryable
  rw [retryLoop_masks retry fails c b rest hf hc (retry + 1) 0 (by simpa using hk)
    (by rcases hk with hk | hk
        · simp [hk]
        · omega)]
  simp

open Http in
/-- a real answer (status ≠ 0) of the loop is the response to the LAST attempt it made -/
theorem retryLoop_answer_last (retry fuel : Nat) (rs : List Http.Resp) (attempt c : Nat) (b : Bytes) (n : Nat)
    (h : retryLoop retry fuel rs attempt = (.answer c b, n)) (hc : c ≠ 0) :
    ∃ j, n = attempt + j + 1 ∧ rs[j]? = some (Http.Resp.status c b) := by
  induction fuel generalizing rs attempt with
  | zero => simp [retryLoop] at h
  | succ fuel ih =>
    unfold retryLoop at h
    simp only at h
    split at h
    · split at h
      · generalize rs.headD Http.Resp.transportErr = r at h
        cases r with
        | transportErr => simp at h
        | status c' b' =>
          simp only [Prod.mk.injEq, RetryRes.answer.injEq] at h
          exact absurd h.1.1.symm hc
      · obtain ⟨j, hj, hr⟩ := ih _ _ h
        cases rs with
        | nil => simp at hr
        | cons x xs =>
          refine ⟨j + 1, by omega, ?_⟩
          simpa using hr
    · cases rs with
      | nil => simp at h
      | cons x xs =>
        cases x with
        | transportErr => simp at h
        | status c' b' =>
          simp only [List.headD_cons, Prod.mk.injEq, RetryRes.answer.injEq] at h
          refine ⟨0, by omega, ?_⟩
          simp [h.1.1, h.1.2]

/-! ### HTTP: the sequence of attempts -/

theorem dirAfter_zero (d : Dir) (tr : List (Http.Resp × Dir)) : dirAfter d tr 0 = d := by
  cases tr <;> rfl

theorem serveSeq_length (s : Srv) (req : Nat → Request) (fs : List Fate) (d : Dir) (k : Nat) :
    (serveSeq s req d k fs).length = fs.length := by
  induction fs generalizing d k with
  | nil => rfl
  | cons f fs ih => simp [serveSeq, ih]

/-- the `j`-th entry of the trace is the `j`-th fate applied to the content the earlier attempts left -/
theorem serveSeq_getElem (s : Srv) (req : Nat → Request) (fs : List Fate) (d : Dir) (k j : Nat)
    (r : Http.Resp) (d' : Dir) (h : (serveSeq s req d k fs)[j]? = some (r, d')) :
    ∃ f, fs[j]? = some f ∧ attempt s req (dirAfter d (serveSeq s req d k fs) j) (k + j) f = (d', r) ∧
      dirAfter d (serveSeq s req d k fs) (j + 1) = d' := by
  induction fs generalizing d k j with
  | nil => simp [serveSeq] at h
  | cons f fs ih =>
    simp only [serveSeq] at h ⊢
    cases j with
    | zero =>
      simp only [List.getElem?_cons_zero, Option.some.injEq, Prod.mk.injEq] at h
      refine ⟨f, rfl, ?_, ?_⟩
      · simp only [dirAfter, Nat.add_zero]
        rw [← h.1, ← h.2]
      · simp only [dirAfter, dirAfter_zero]
        exact h.2
    | succ j =>
      simp only [List.getElem?_cons_succ] at h
      obtain ⟨f', hf', ha, hd⟩ := ih _ _ _ h
      refine ⟨f', by simpa using hf', ?_, ?_⟩
      · simp only [dirAfter]
        rw [show k + (j + 1) = k + 1 + j by omega]
        exact ha
      · simp only [dirAfter]
        exact hd

theorem serveSeq_append (s : Srv) (req : Nat → Request) (fs gs : List Fate) (d : Dir) (k : Nat) :
    serveSeq s req d k (fs ++ gs) =
      serveSeq s req d k fs ++
        serveSeq s req (dirAfter d (serveSeq s req d k fs) fs.length) (k + fs.length) gs := by
  induction fs generalizing d k with
  | nil => simp [serveSeq, dirAfter]
  | cons f fs ih =>
    simp only [List.cons_append, serveSeq, List.length_cons, dirAfter]
    rw [ih]
    rw [show k + 1 + fs.length = k + (fs.length + 1) by omega]

theorem dirAfter_append_succ (d : Dir) (tr1 tr2 : List (Http.Resp × Dir)) (x : Http.Resp × Dir) :
    dirAfter d (tr1 ++ x :: tr2) (tr1.length + 1) = x.2 := by
  induction tr1 generalizing d with
  | nil => simp [dirAfter, dirAfter_zero]
  | cons y tr1 ih =>
    obtain ⟨r, d'⟩ := y
    simp only [List.cons_append, List.length_cons, dirAfter]
    exact ih d'

def Fate.failsPut : Fate → Bool
  | .run .none false => false
  | _ => true

def Fate.failsGet : Fate → Bool
  | .run _ false => false
  | _ => true

theorem attempt_frame (s : Srv) (req : Nat → Request) (n : Name) (hreq : ∀ k, reqName (req k) = n)
    (d : Dir) (k : Nat) (f : Fate) (m : Name) (hm : m ≠ n) :
    ((attempt s req d k f).1).get m = d.get m := by
  cases f with
  | busy => rfl
  | reset => rfl
  | run f lost =>
    simp only [attempt]
    exact handle_frame s d (req k) f m (by rw [hreq k]; exact hm)

/-- a failing PUT attempt looks transient to the client, and touches no other name -/
theorem attempt_put_fails (alg : DigestAlg) (Good : Index → Prop) (hrt : RoundTrip alg Good)
    (c : ClientCfg) (hf : c.freshBody = true) (s : Srv) (hs : s.alg = alg) (hl : s.lcfg = ⟨true, true⟩)
    (ho : Open c s) (n : Name) (hn : plainName n = true) (i : Index) (hi : Good i)
    (d : Dir) (k : Nat) (f : Fate) (hfail : f.failsPut = true) :
    Http.retryable (attempt s (putRequest c n i) d k f).2 = true := by
  cases f with
  | busy => simp [attempt, Http.retryable]
  | reset => simp [attempt, Http.retryable]
  | run f lost =>
    simp only [attempt]
    cases lost with
    | true => simp [Http.retryable]
    | false =>
      rw [handle_put alg Good hrt c hf s hs ho d n hn i hi k f]
      cases f with
      | none => simp [Fate.failsPut] at hfail
      | createFails => simp [localStore_createFails, Http.retryable]
      | writeFails j =>
        have htr : s.lcfg.truncates = true := by rw [hl]
        have hre : s.lcfg.returnsWriteErr = true := by rw [hl]
        simp [localStore_writeFails _ htr _ _ _ _ hn, hre, Http.retryable]

theorem put_fails_seq (alg : DigestAlg) (Good : Index → Prop) (hrt : RoundTrip alg Good)
    (c : ClientCfg) (hf : c.freshBody = true) (s : Srv) (hs : s.alg = alg) (hl : s.lcfg = ⟨true, true⟩)
    (ho : Open c s) (n : Name) (hn : plainName n = true) (i : Index) (hi : Good i)
    (pf : List Fate) (hpf : ∀ f ∈ pf, f.failsPut = true) (d : Dir) (k : Nat) :
    (∀ r ∈ (serveSeq s (putRequest c n i) d k pf).map (·.1), Http.retryable r = true) ∧
    (∀ m, m ≠ n → (dirAfter d (serveSeq s (putRequest c n i) d k pf) pf.length).get m = d.get m) := by
  induction pf generalizing d k with
  | nil => simp [serveSeq, dirAfter]
  | cons f pf ih =>
    obtain ⟨ih1, ih2⟩ := ih (fun g hg => hpf g (by simp [hg])) (attempt s (putRequest c n i) d k f).1 (k + 1)
    have h1 := attempt_put_fails alg Good hrt c hf s hs hl ho n hn i hi d k f (hpf f (by simp))
    have h2 := attempt_frame s (putRequest c n i) n (fun k => reqName_plain n hn _ rfl) d k f
    constructor
    · intro r hr
      simp only [serveSeq, List.map_cons, List.mem_cons] at hr
      rcases hr with hr | hr
      · rw [hr]; exact h1
      · exact ih1 r hr
    · intro m hm
      simp only [serveSeq, List.length_cons, dirAfter]
      rw [ih2 m hm, h2 m hm]

theorem attempt_get_dir (s : Srv) (c : ClientCfg) (n : Name) (d : Dir) (k : Nat) (f : Fate) :
    (attempt s (fun _ => getRequest c n) d k f).1 = d := by
  cases f with
  | busy => rfl
  | reset => rfl
  | run f lost => simp only [attempt]; exact handle_get_dir s d _ f rfl

theorem get_fails_seq (s : Srv) (c : ClientCfg) (n : Name) (gf : List Fate)
    (hgf : ∀ f ∈ gf, f.failsGet = true) (d : Dir) (k : Nat) :
    (∀ r ∈ (serveSeq s (fun _ => getRequest c n) d k gf).map (·.1), Http.retryable r = true) ∧
    dirAfter d (serveSeq s (fun _ => getRequest c n) d k gf) gf.length = d := by
  induction gf generalizing k with
  | nil => simp [serveSeq, dirAfter]
  | cons f gf ih =>
    have hd := attempt_get_dir s c n d k f
    obtain ⟨ih1, ih2⟩ := ih (fun g hg => hgf g (by simp [hg])) (k + 1)
    constructor
    · intro r hr
      simp only [serveSeq, List.map_cons, List.mem_cons, hd] at hr
      rcases hr with hr | hr
      · rw [hr]
        have hfail := hgf f (by simp)
        cases f with
        | busy => simp [attempt, Http.retryable]
        | reset => simp [attempt, Http.retryable]
        | run f lost =>
          cases lost with
          | true => simp [attempt, Http.retryable]
          | false => simp [Fate.failsGet] at hfail
      · exact ih1 r hr
    · simp only [serveSeq, List.length_cons, dirAfter, hd]
      exact ih2

/-! ### HTTP: the client's operations -/

/-- **success is complete**: whatever happens to the attempts, a `StoreIndex` that the client reports as
    successful has left the complete encoding under the name on the server -/
theorem httpStore_success (alg : DigestAlg) (Good : Index → Prop) (hrt : RoundTrip alg Good)
    (c : ClientCfg) (hf : c.freshBody = true) (s : Srv) (hs : s.alg = alg) (hl : s.lcfg = ⟨true, true⟩)
    (d : Dir) (n : Name) (hn : plainName n = true) (i : Index) (hi : Good i) (fs : List Fate)
    (h : (httpStore c s d n i fs).2.1 = true) :
    ((httpStore c s d n i fs).1).get n = some (encodeIndex i) := by
  simp only [httpStore] at h ⊢
  generalize htr : serveSeq s (putRequest c n i) d 0 fs = tr at h ⊢
  unfold Http.storeObject at h
  cases hres : Http.issueRetryable c.retry (tr.map (·.1)) with
  | mk res k =>
    rw [hres] at h
    simp only at h ⊢
    cases res with
    | error => simp at h
    | answer code b =>
      simp only [Bool.or_eq_true, decide_eq_true_eq] at h
      have hcode0 : code ≠ 0 := by omega
      unfold Http.issueRetryable at hres
      obtain ⟨j, hj, hr⟩ := retryLoop_answer_last _ _ _ _ _ _ _ hres hcode0
      simp only [Nat.zero_add] at hj
      subst hj
      rw [List.getElem?_map] at hr
      cases hj : tr[j]? with
      | none => rw [hj] at hr; simp at hr
      | some e =>
        obtain ⟨r, d'⟩ := e
        rw [hj] at hr
        simp only [Option.map_some, Option.some.injEq] at hr
        subst hr
        rw [← htr] at hj
        obtain ⟨f, _, ha, hd⟩ := serveSeq_getElem s _ fs d 0 j _ d' hj
        rw [htr] at hd
        rw [hd]
        cases f with
        | busy => simp only [attempt, Prod.mk.injEq, Http.Resp.status.injEq] at ha; omega
        | reset => simp [attempt] at ha
        | run f lost =>
          simp only [attempt] at ha
          cases lost with
          | true => simp at ha
          | false =>
            simp only [Bool.false_eq_true, ↓reduceIte] at ha
            obtain ⟨i', hdec, hd'⟩ := handle_put_success s hl _ d' _ f rfl code b h ha
            have hbody : (putRequest c n i (0 + j)).body = encodeIndex i := by
              simp [putRequest, attemptBody, hf]
            rw [hbody, hs, hrt i hi] at hdec
            simp only [Res.ok.injEq] at hdec
            subst hdec
            rw [hd', reqName_plain n hn _ rfl]
            exact Dir.get_set_same _ _ _

/-- a `StoreIndex` whose first `pf.length` attempts fail transiently and whose next attempt gets through -/
theorem httpStore_masks (alg : DigestAlg) (Good : Index → Prop) (hrt : RoundTrip alg Good)
    (c : ClientCfg) (hf : c.freshBody = true) (s : Srv) (hs : s.alg = alg) (hl : s.lcfg = ⟨true, true⟩)
    (ho : Open c s) (d : Dir) (n : Name) (hn : plainName n = true) (i : Index) (hi : Good i)
    (pf pr : List Fate) (hpf : ∀ f ∈ pf, f.failsPut = true) (hpl : pf = [] ∨ pf.length < c.retry) :
    (httpStore c s d n i (pf ++ .run .none false :: pr)).2.1 = true ∧
    (httpStore c s d n i (pf ++ .run .none false :: pr)).2.2 = pf.length + 1 ∧
    ((httpStore c s d n i (pf ++ .run .none false :: pr)).1).get n = some (encodeIndex i) ∧
    (∀ m, m ≠ n → ((httpStore c s d n i (pf ++ .run .none false :: pr)).1).get m = d.get m) := by
  obtain ⟨hp1, hp2⟩ := put_fails_seq alg Good hrt c hf s hs hl ho n hn i hi pf hpf d 0
  generalize hdK : dirAfter d (serveSeq s (putRequest c n i) d 0 pf) pf.length = dK at hp2
  generalize htp : serveSeq s (putRequest c n i) d 0 pf = trp at hp1 hdK
  have hlp : trp.length = pf.length := by rw [← htp]; exact serveSeq_length _ _ _ _ _
  generalize htq : serveSeq s (putRequest c n i) (dK.set n (encodeIndex i)) (0 + pf.length + 1) pr = trq
  have htr : serveSeq s (putRequest c n i) d 0 (pf ++ .run .none false :: pr) =
      trp ++ ((Http.Resp.status 200 [], dK.set n (encodeIndex i)) :: trq) := by
    rw [serveSeq_append, htp, hdK]
    congr 1
    simp only [serveSeq, attempt]
    rw [handle_put alg Good hrt c hf s hs ho _ n hn i hi _ .none]
    have htrunc : s.lcfg.truncates = true := by rw [hl]
    rw [localStore_ok_get _ htrunc _ _ _ hn]
    simp only [↓reduceIte, Bool.false_eq_true]
    rw [← htq]
  have hrs : (trp ++ ((Http.Resp.status 200 [], dK.set n (encodeIndex i)) :: trq)).map (·.1) =
      trp.map (·.1) ++ Http.Resp.status 200 [] :: trq.map (·.1) := by simp
  have hlen : (trp.map (·.1)).length = pf.length := by simp [hlp]
  have hiss := issueRetryable_masks c.retry (trp.map (·.1)) 200 [] (trq.map (·.1)) hp1
    (by rw [hlen]
        rcases hpl with h | h
        · left; subst h; simp at hlp; simp [hlp]
        · right; exact h) (by omega)
  rw [← hrs, hlen] at hiss
  have hdir : (httpStore c s d n i (pf ++ .run .none false :: pr)).1 = dK.set n (encodeIndex i) := by
    simp only [httpStore, htr, hiss]
    have := dirAfter_append_succ d trp trq (Http.Resp.status 200 [], dK.set n (encodeIndex i))
    rw [hlp] at this
    exact this
  refine ⟨?_, ?_, ?_, ?_⟩
  · simp only [httpStore, htr, Http.storeObject, hiss]
    decide
  · simp only [httpStore, htr, hiss]
  · rw [hdir]; exact Dir.get_set_same _ _ _
  · intro m hm
    rw [hdir, Dir.get_set_other _ _ _ _ hm]
    exact hp2 m hm

/-- a `GetIndex` of a name that holds a complete encoding, through transient failures -/
theorem httpGet_masks (alg : DigestAlg) (Good : Index → Prop) (hrt : RoundTrip alg Good)
    (c : ClientCfg) (s : Srv) (hs : s.alg = alg) (ho : Open c s)
    (d : Dir) (n : Name) (hn : plainName n = true) (i : Index) (hi : Good i)
    (hd : d.get n = some (encodeIndex i))
    (gf gr : List Fate) (hgf : ∀ f ∈ gf, f.failsGet = true) (hgl : gf = [] ∨ gf.length < c.retry) :
    httpGet c s d n (gf ++ .run .none false :: gr) = (d, .ok i, gf.length + 1) := by
  obtain ⟨hg1, hg2⟩ := get_fails_seq s c n gf hgf d 0
  generalize htp : serveSeq s (fun _ => getRequest c n) d 0 gf = trp at hg1 hg2
  have hlp : trp.length = gf.length := by rw [← htp]; exact serveSeq_length _ _ _ _ _
  generalize htq : serveSeq s (fun _ => getRequest c n) d (0 + gf.length + 1) gr = trq
  have htr : serveSeq s (fun _ => getRequest c n) d 0 (gf ++ .run .none false :: gr) =
      trp ++ ((Http.Resp.status 200 (encodeIndex i), d) :: trq) := by
    rw [serveSeq_append, htp, hg2]
    congr 1
    simp only [serveSeq, attempt]
    rw [handle_get alg Good hrt c s hs ho d n hn i hi hd .none]
    simp only [Bool.false_eq_true, ↓reduceIte]
    rw [← htq]
  have hrs : (trp ++ ((Http.Resp.status 200 (encodeIndex i), d) :: trq)).map (·.1) =
      trp.map (·.1) ++ Http.Resp.status 200 (encodeIndex i) :: trq.map (·.1) := by simp
  have hlen : (trp.map (·.1)).length = gf.length := by simp [hlp]
  have hiss := issueRetryable_masks c.retry (trp.map (·.1)) 200 (encodeIndex i) (trq.map (·.1)) hg1
    (by rw [hlen]
        rcases hgl with h | h
        · left; subst h; simp at hlp; simp [hlp]
        · right; exact h) (by omega)
  rw [← hrs, hlen] at hiss
  have hdec : decodeIndex s.alg (encodeIndex i) = .ok i := hs ▸ hrt i hi
  have hdir : dirAfter d (trp ++ ((Http.Resp.status 200 (encodeIndex i), d) :: trq)) (gf.length + 1) = d := by
    have := dirAfter_append_succ d trp trq (Http.Resp.status 200 (encodeIndex i), d)
    rw [hlp] at this
    exact this
  have e1 : (httpGet c s d n (gf ++ .run .none false :: gr)).1 = d := by
    simp only [httpGet, htr, hiss]; exact hdir
  have e2 : (httpGet c s d n (gf ++ .run .none false :: gr)).2.1 = .ok i := by
    simp only [httpGet, htr, Http.getObject, hiss, decodeRes, hdec]
  have e3 : (httpGet c s d n (gf ++ .run .none false :: gr)).2.2 = gf.length + 1 := by
    simp only [httpGet, htr, hiss]
  exact Prod.ext e1 (Prod.ext e2 e3)

/-! ### S3 / SFTP: the object-replacing stores -/

def runAtomic (d : Dir) (ops : List (Name × Index × Bool)) : Dir :=
  ops.foldl (fun d o => (atomicStore d o.1 o.2.1 o.2.2).1) d

/-- a failed store leaves everything as it was; a successful one holds the complete encoding -/
theorem atomicStore_spec (d : Dir) (n : Name) (i : Index) (fails : Bool) :
    ((atomicStore d n i fails).2 = false → (atomicStore d n i fails).1 = d) ∧
    ((atomicStore d n i fails).2 = true → (atomicStore d n i fails).1 = d.set n (encodeIndex i)) := by
  unfold atomicStore
  split
  · simp
  · split <;> simp

end Desync.IStore
