/-
  Proofs about the HTTP handlers (`Model/HttpHandler.lean`): authorization, read-only mode,
  write verification, path confinement of chunk IDs and index names.
-/
import Desync.Model.HttpHandler
import Desync.Properties.C03

namespace Desync

/-! ### hex digits -/

theorem hexNibble_some (c : UInt8) (n : Nat) (h : hexNibble c = some n) :
    n < 16 ∧ c ≠ 47 ∧ c ≠ 46 := by
  have hc : ∀ c : UInt8, ∀ n, hexNibble c = some n → n < 16 ∧ c ≠ 47 ∧ c ≠ 46 := by
    intro c n h
    unfold hexNibble at h
    simp only [UInt8.le_iff_toNat_le] at h
    have e1 : (48 : UInt8).toNat = 48 := rfl
    have e2 : (57 : UInt8).toNat = 57 := rfl
    have e3 : (97 : UInt8).toNat = 97 := rfl
    have e4 : (102 : UInt8).toNat = 102 := rfl
    have e5 : (65 : UInt8).toNat = 65 := rfl
    have e6 : (70 : UInt8).toNat = 70 := rfl
    rw [e1, e2, e3, e4, e5, e6] at h
    have n47 : c = 47 → c.toNat = 47 := fun h => by rw [h]; rfl
    have n46 : c = 46 → c.toNat = 46 := fun h => by rw [h]; rfl
    split at h
    · injection h with h; refine ⟨by omega, fun h' => ?_, fun h' => ?_⟩
      · have := n47 h'; omega
      · have := n46 h'; omega
    · split at h
      · injection h with h; refine ⟨by omega, fun h' => ?_, fun h' => ?_⟩
        · have := n47 h'; omega
        · have := n46 h'; omega
      · split at h
        · injection h with h; refine ⟨by omega, fun h' => ?_, fun h' => ?_⟩
          · have := n47 h'; omega
          · have := n46 h'; omega
        · cases h
  exact hc c n h

/-- a successfully decoded hex string has even length and consists of hex digits only -/
theorem hexDecode_some (s b : Bytes) (h : hexDecode s = some b) :
    s.length = 2 * b.length ∧ ∀ c ∈ s, ∃ n, hexNibble c = some n := by
  induction s using hexDecode.induct generalizing b with
  | case1 => simp [hexDecode] at h; subst h; simp
  | case2 => simp [hexDecode] at h
  | case3 a c rest ih =>
    cases hx : hexNibble a with
    | none => simp [hexDecode, hx] at h
    | some x =>
      cases hy : hexNibble c with
      | none => simp [hexDecode, hx, hy] at h
      | some y =>
        cases hr : hexDecode rest with
        | none => simp [hexDecode, hx, hy, hr] at h
        | some r =>
          simp [hexDecode, hx, hy, hr] at h
          subst h
          obtain ⟨hl, hm⟩ := ih r hr
          refine ⟨by simp [hl]; omega, ?_⟩
          intro d hd
          simp only [List.mem_cons] at hd
          rcases hd with rfl | rfl | hd
          · exact ⟨x, hx⟩
          · exact ⟨y, hy⟩
          · exact hm d hd

theorem hexDecode_no_slash_dot (s b : Bytes) (h : hexDecode s = some b) :
    (47 : UInt8) ∉ s ∧ (46 : UInt8) ∉ s := by
  obtain ⟨_, hm⟩ := hexDecode_some s b h
  constructor
  · intro hin
    obtain ⟨n, hn⟩ := hm _ hin
    exact (hexNibble_some _ _ hn).2.1 rfl
  · intro hin
    obtain ⟨n, hn⟩ := hm _ hin
    exact (hexNibble_some _ _ hn).2.2 rfl

theorem chunkIDFromString_some (s id : Bytes) (h : chunkIDFromString s = some id) :
    hexDecode s = some id ∧ id.length = 32 := by
  unfold chunkIDFromString at h
  split at h
  · rename_i b hb
    split at h
    · injection h with h; subst h; exact ⟨hb, by assumption⟩
    · cases h
  · cases h

/-! ### authorization -/

theorem chunk_unauthorized_no_store_call (H : Bytes → Bytes) (dec : Bytes → Option Bytes)
    (cfg : HandlerCfg) (o : StoreOracle) (r : Request)
    (ha : cfg.auth ≠ []) (hh : r.authHeader ≠ cfg.auth) :
    serveChunk H dec cfg o r = ⟨401, []⟩ := by
  unfold serveChunk
  rw [if_pos ⟨ha, hh⟩]

theorem index_unauthorized_no_store_call (cfg : HandlerCfg) (o : StoreOracle) (r : Request)
    (ha : cfg.auth ≠ []) (hh : r.authHeader ≠ cfg.auth) :
    serveIndex cfg o r = ⟨401, []⟩ := by
  unfold serveIndex
  rw [if_pos ⟨ha, hh⟩]

/-! ### read-only -/

def Call.isWrite : Call → Bool
  | .storeChunk .. => true
  | .storeIndex .. => true
  | _ => false

/-- every store call of the chunk handler names the ID decoded from the path; a `storeChunk`
    call is made only by a writable server and carries the chunk built by `newChunkFromStorage` -/
theorem chunk_calls_char (H : Bytes → Bytes) (dec : Bytes → Option Bytes)
    (cfg : HandlerCfg) (o : StoreOracle) (r : Request) :
    ∀ c ∈ (serveChunk H dec cfg o r).calls,
      ∃ id, idFromPath cfg.compressed r.path = some id ∧
        (c = .getChunk id ∨ c = .hasChunk id ∨
          ∃ ch, c = .storeChunk id ch ∧ cfg.writable = true ∧
            newChunkFromStorage H dec id r.body (if cfg.compressed then [.compressor] else [])
              cfg.skipVerifyWrite = .ok ch) := by
  intro c hc
  unfold serveChunk at hc
  split at hc
  · simp at hc
  · split at hc
    · simp at hc
    · rename_i id hid
      refine ⟨id, hid, ?_⟩
      split at hc
      · split at hc <;> simp at hc <;> simp [hc]
      · split at hc <;> simp at hc <;> simp [hc]
      · split at hc
        · simp at hc
        · rename_i hw
          split at hc
          · simp at hc
          · simp only at hc
            generalize (if cfg.compressed = true then [Conv.compressor] else []) = convs at hc ⊢
            cases hch : newChunkFromStorage H dec id r.body convs cfg.skipVerifyWrite with
            | invalid => simp [hch] at hc
            | ok ch =>
              rw [hch] at hc
              right; right
              refine ⟨ch, ?_, by simpa using hw, rfl⟩
              simp only at hc
              by_cases hs : o.storeOK = true <;> simp [hs] at hc <;> exact hc
      · simp at hc

theorem chunk_readonly_no_write (H : Bytes → Bytes) (dec : Bytes → Option Bytes)
    (cfg : HandlerCfg) (o : StoreOracle) (r : Request) (hw : cfg.writable = false) :
    ∀ c ∈ (serveChunk H dec cfg o r).calls, c.isWrite = false := by
  intro c hc
  obtain ⟨id, _, h | h | ⟨ch, _, hw', _⟩⟩ := chunk_calls_char H dec cfg o r c hc
  · subst h; rfl
  · subst h; rfl
  · rw [hw] at hw'; cases hw'

theorem index_readonly_no_write (cfg : HandlerCfg) (o : StoreOracle) (r : Request)
    (hw : cfg.writable = false) :
    ∀ c ∈ (serveIndex cfg o r).calls, c.isWrite = false := by
  intro c hc
  unfold serveIndex at hc
  split at hc
  · simp at hc
  · simp only at hc
    split at hc
    · simp at hc
    · split at hc
      · split at hc <;> simp at hc <;> subst hc <;> rfl
      · split at hc <;> simp at hc <;> subst hc <;> rfl
      · simp [hw] at hc
      · simp at hc

/-! ### write verification -/

theorem put_verified (H : Bytes → Bytes) (dec : Bytes → Option Bytes)
    (cfg : HandlerCfg) (o : StoreOracle) (r : Request) (id : Bytes) (c : ChunkObj)
    (hv : cfg.skipVerifyWrite = false)
    (hc : Call.storeChunk id c ∈ (serveChunk H dec cfg o r).calls) :
    idFromPath cfg.compressed r.path = some id ∧ ∀ b, C03.delivers dec c b → H b = id := by
  obtain ⟨id', hid, h | h | ⟨ch, h, _, hnew⟩⟩ := chunk_calls_char H dec cfg o r _ hc
  · cases h
  · cases h
  · injection h with h1 h2
    subst h1; subst h2
    rw [hv] at hnew
    exact ⟨hid, fun b hb => C03.fromStorage_sound H dec _ _ _ _ hnew b hb⟩

theorem chunk_calls_use_path_id (H : Bytes → Bytes) (dec : Bytes → Option Bytes)
    (cfg : HandlerCfg) (o : StoreOracle) (r : Request) :
    ∀ c ∈ (serveChunk H dec cfg o r).calls,
      ∃ id, idFromPath cfg.compressed r.path = some id ∧
        (c = .getChunk id ∨ c = .hasChunk id ∨ ∃ ch, c = .storeChunk id ch) := by
  intro c hc
  obtain ⟨id, hid, h | h | ⟨ch, h, _⟩⟩ := chunk_calls_char H dec cfg o r c hc
  · exact ⟨id, hid, .inl h⟩
  · exact ⟨id, hid, .inr (.inl h)⟩
  · exact ⟨id, hid, .inr (.inr ⟨ch, h⟩)⟩

/-! ### path confinement for chunks -/

theorem idFromPath_sound (compressed : Bool) (p id : Bytes) (h : idFromPath compressed p = some id) :
    ∃ s : Bytes, s.length = 64 ∧ hexDecode s = some id ∧ id.length = 32 ∧
      p = [47] ++ s.take 4 ++ [47] ++ s ++ (if compressed then compressedExt else []) ∧
      (47 : UInt8) ∉ s ∧ (46 : UInt8) ∉ s := by
  have key : ∀ ext : Bytes,
      (if (trimSuffix (goBase p) ext).length < 4 then none
        else if p ≠ [47] ++ (trimSuffix (goBase p) ext).take 4 ++ [47] ++ trimSuffix (goBase p) ext ++ ext
          then none
        else chunkIDFromString (trimSuffix (goBase p) ext)) = some id →
      ∃ s : Bytes, s.length = 64 ∧ hexDecode s = some id ∧ id.length = 32 ∧
        p = [47] ++ s.take 4 ++ [47] ++ s ++ ext ∧ (47 : UInt8) ∉ s ∧ (46 : UInt8) ∉ s := by
    intro ext h
    split at h
    · cases h
    · split at h
      · cases h
      · rename_i hp
        have hp' := Classical.not_not.mp hp
        obtain ⟨hd, hl⟩ := chunkIDFromString_some _ _ h
        obtain ⟨hlen, _⟩ := hexDecode_some _ _ hd
        obtain ⟨h47, h46⟩ := hexDecode_no_slash_dot _ _ hd
        exact ⟨_, by omega, hd, hl, hp', h47, h46⟩
  unfold idFromPath at h
  split at h
  · cases h
  · cases compressed
    · exact key [] h
    · exact key compressedExt h

/-! ### path confinement for indexes -/

theorem not_mem_takeWhile_ne (a : UInt8) (l : Bytes) : a ∉ l.takeWhile (· ≠ a) := by
  induction l with
  | nil => simp
  | cons x xs ih =>
    simp only [List.takeWhile_cons]
    split
    · rename_i hx
      simp only [List.mem_cons, not_or]
      exact ⟨fun h => by simp [h] at hx, ih⟩
    · simp

theorem goBase_no_slash (p : Bytes) : goBase p = [47] ∨ (47 : UInt8) ∉ goBase p := by
  unfold goBase
  split
  · right; simp
  · simp only
    split
    · left; rfl
    · right
      rw [List.mem_reverse]
      exact not_mem_takeWhile_ne 47 _

theorem dropWhile_head_not (f : UInt8 → Bool) (l : Bytes) :
    l.dropWhile f = [] ∨ ∃ x xs, l.dropWhile f = x :: xs ∧ f x = false := by
  induction l with
  | nil => left; rfl
  | cons y ys ih =>
    simp only [List.dropWhile_cons]
    cases hy : f y
    · right; exact ⟨y, ys, by simp, hy⟩
    · simpa using ih

theorem goBase_ne_nil (p : Bytes) : goBase p ≠ [] := by
  unfold goBase
  split
  · simp
  · simp only
    split
    · simp
    · rename_i hq
      rcases dropWhile_head_not (· = 47) p.reverse with h | ⟨x, xs, h, hx⟩
      · simp [h] at hq
      · rw [h]
        simp only [List.reverse_reverse]
        have : x ≠ 47 := by simpa using hx
        simp [this]

theorem index_calls_confined (cfg : HandlerCfg) (o : StoreOracle) (r : Request) :
    ∀ c ∈ (serveIndex cfg o r).calls,
      ∃ n, (c = .getIndex n ∨ c = .getIndexReader n ∨ c = .storeIndex n) ∧ n = goBase r.path ∧
        n ≠ [] ∧ n ≠ [46] ∧ n ≠ [46, 46] ∧ (47 : UInt8) ∉ n := by
  intro c hc
  unfold serveIndex at hc
  split at hc
  · simp at hc
  · simp only at hc
    split at hc
    · simp at hc
    · rename_i hn
      simp only [not_or] at hn
      obtain ⟨h1, h2, h3⟩ := hn
      have h47 : (47 : UInt8) ∉ goBase r.path := by
        rcases goBase_no_slash r.path with h | h
        · exact absurd h h3
        · exact h
      refine ⟨goBase r.path, ?_, rfl, goBase_ne_nil _, h1, h2, h47⟩
      split at hc
      · split at hc <;> simp at hc <;> simp [hc]
      · split at hc <;> simp at hc <;> simp [hc]
      · split at hc
        · simp at hc
        · split at hc
          · simp at hc
          · split at hc
            · simp at hc
            · split at hc <;> simp at hc <;> simp [hc]
      · simp at hc

end Desync
