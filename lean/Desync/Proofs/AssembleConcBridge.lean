/-
  The environment the trace validation (`asmconc.accept`, lean/Driver/AsmAccept.lean) builds for the concurrent
  machine — hash and index of the sequential model's environment, plan = the (first, last) pairs of the sequential
  model's `plan` — is well-formed in the machine's sense whenever the sequential model's well-formedness `WFSeq`
  holds.  So `C01.accepted_trace_safe` applies to every trace the driver accepts under the assumptions of the
  sequential safety theorem.   DESIGN section 12.9.
-/
import Desync.Proofs.AssembleSafe
import Desync.Proofs.AssembleConcProofs

namespace Desync.AsmConc
open Desync.Asm

theorem pairs_first {n : Nat} : ∀ (items : List PlanItem) (cur f l : Nat), Partition n cur items →
    (planPairs items)[0]? = some (f, l) → f = cur := by
  intro items cur f l hp h
  cases items with
  | nil => simp [planPairs] at h
  | cons it rest =>
    simp only [Partition] at hp
    simp [planPairs] at h
    omega

theorem pairs_next {n : Nat} : ∀ (items : List PlanItem) (cur k f l f' l' : Nat), Partition n cur items →
    (planPairs items)[k]? = some (f, l) → (planPairs items)[k + 1]? = some (f', l') → f' = l + 1 := by
  intro items
  induction items with
  | nil => intro cur k f l f' l' _ h; simp [planPairs] at h
  | cons it rest ih =>
    intro cur k f l f' l' hp h h'
    simp only [Partition] at hp
    obtain ⟨_, _, _, hrest⟩ := hp
    cases k with
    | zero =>
      have h0 : (it.first, it.last) = (f, l) := by simpa [planPairs] using h
      have h1 : (planPairs rest)[0]? = some (f', l') := by simpa [planPairs] using h'
      have := pairs_first rest _ f' l' hrest h1
      have hl : it.last = l := congrArg Prod.snd h0
      omega
    | succ k =>
      have h0 : (planPairs rest)[k]? = some (f, l) := by simpa [planPairs] using h
      have h1 : (planPairs rest)[k + 1]? = some (f', l') := by simpa [planPairs] using h'
      exact ih _ k f l f' l' hrest h0 h1

theorem pairs_ordered {n : Nat} : ∀ (items : List PlanItem) (cur k f l : Nat), Partition n cur items →
    (planPairs items)[k]? = some (f, l) → f ≤ l ∧ l < n := by
  intro items
  induction items with
  | nil => intro cur k f l _ h; simp [planPairs] at h
  | cons it rest ih =>
    intro cur k f l hp h
    simp only [Partition] at hp
    obtain ⟨_, h2, h3, hrest⟩ := hp
    cases k with
    | zero =>
      have h0 : (it.first, it.last) = (f, l) := by simpa [planPairs] using h
      have hf : it.first = f := congrArg Prod.fst h0
      have hl : it.last = l := congrArg Prod.snd h0
      omega
    | succ k =>
      have h0 : (planPairs rest)[k]? = some (f, l) := by simpa [planPairs] using h
      exact ih _ k f l hrest h0

theorem pairs_last {n : Nat} : ∀ (items : List PlanItem) (cur f l : Nat), Partition n cur items →
    (planPairs items).getLast? = some (f, l) → l + 1 = n := by
  intro items
  induction items with
  | nil => intro cur f l _ h; simp [planPairs] at h
  | cons it rest ih =>
    intro cur f l hp h
    simp only [Partition] at hp
    obtain ⟨_, _, _, hrest⟩ := hp
    cases rest with
    | nil =>
      simp only [Partition] at hrest
      have h0 : (it.first, it.last) = (f, l) := by simpa [planPairs] using h
      have hl : it.last = l := congrArg Prod.snd h0
      omega
    | cons it' rest' =>
      have h0 : (planPairs (it' :: rest')).getLast? = some (f, l) := by
        simpa [planPairs, List.getLast?_cons_cons] using h
      exact ih _ f l hrest h0

/-- **the driver's environment is well-formed**: for every seed set, the machine environment built from the
    sequential model's plan satisfies `AsmConc.WF` as soon as the index describes the blob (`WFSeq`) -/
theorem envOf_wf {cf : Cfg} {e : Asm.Env} {blob : Bytes} (wf : WFSeq cf e blob) (seeds : List Seed) :
    WF (envOf cf.H e (plan e seeds)) blob where
  start0 := wf.start0
  contiguous := wf.contiguous
  length_eq := wf.length_eq
  ids := wf.ids
  collision_free := wf.collision_free
  plan_first := fun f l h => pairs_first _ 0 f l (plan_partitions e seeds) h
  plan_next := fun k f l f' l' h h' => pairs_next _ 0 k f l f' l' (plan_partitions e seeds) h h'
  plan_ordered := fun k f l h => pairs_ordered _ 0 k f l (plan_partitions e seeds) h
  plan_last := fun f l h => pairs_last _ 0 f l (plan_partitions e seeds) h
  plan_empty := by
    constructor
    · intro h
      have hnil : plan e seeds = [] := by
        cases hp : plan e seeds with
        | nil => rfl
        | cons a b => simp [envOf, planPairs, hp] at h
      show e.chunks = []
      cases hc : e.chunks with
      | nil => rfl
      | cons a b => exact absurd hnil (plan_nonempty e seeds (by rw [hc]; simp))
    · intro h
      have hc : e.chunks = [] := h
      simp [envOf, planPairs, plan, hc]

end Desync.AsmConc
