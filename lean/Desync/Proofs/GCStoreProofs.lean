/-
  Proofs about the GCS backend model (`Model/GCStore.lean`): GetChunk / StoreChunk / HasChunk case analyses and the
  prune walk (page-wise listing, deletes that can fail) — used by Properties/C03GCS, C06GCS, C16GCS.
-/
import Desync.Model.GCStore
import Desync.Proofs.S3StoreProofs

namespace Desync.GCS
open Desync Desync.Remote

/-! ### GetChunk -/

theorem construct_ok (H : Bytes → Bytes) (dec : Bytes → Option Bytes) (id b : Bytes) (convs : List Conv) (sv : Bool)
    (c : ChunkObj) (h : construct H dec id b convs sv = .ok c) : newChunkFromStorage H dec id b convs sv = .ok c := by
  unfold construct at h
  split at h
  · injection h with h; subst h; assumption
  · cases h

theorem construct_cases (H : Bytes → Bytes) (dec : Bytes → Option Bytes) (id b : Bytes) (convs : List Conv) (sv : Bool) :
    (∃ c, construct H dec id b convs sv = .ok c) ∨ construct H dec id b convs sv = .invalid := by
  unfold construct
  split
  · exact .inl ⟨_, rfl⟩
  · exact .inr rfl

theorem get_truthful (H : Bytes → Bytes) (dec : Bytes → Option Bytes) (id : Bytes) (convs : List Conv)
    (sv : Bool) (o : GetOutcome) :
    (∀ c, gcsGetChunk H dec id convs sv o = .ok c → ∃ b, o = .body b ∧ newChunkFromStorage H dec id b convs sv = .ok c) ∧
    (gcsGetChunk H dec id convs sv o = .invalid → ∃ b, o = .body b ∧ newChunkFromStorage H dec id b convs sv = .invalid) ∧
    (gcsGetChunk H dec id convs sv o = .missing ↔ (o = .openNotExist ∨ o = .readNotExist)) ∧
    (o = .openErr ∨ o = .readErr → gcsGetChunk H dec id convs sv o = .error) := by
  cases o with
  | body b =>
    refine ⟨fun c h => ⟨b, rfl, construct_ok H dec id b convs sv c h⟩, ?_, ?_, ?_⟩
    · intro h
      refine ⟨b, rfl, ?_⟩
      simp only [gcsGetChunk, construct] at h
      split at h
      · cases h
      · assumption
    · constructor
      · intro h
        rcases construct_cases H dec id b convs sv with ⟨c, hc⟩ | hc <;> simp [gcsGetChunk, hc] at h
      · rintro (h | h) <;> cases h
    · rintro (h | h) <;> cases h
  | openNotExist => simp [gcsGetChunk]
  | openErr => simp [gcsGetChunk]
  | readNotExist => simp [gcsGetChunk]
  | readErr => simp [gcsGetChunk]

/-! ### StoreChunk / HasChunk -/

theorem store_truthful (data : Option Bytes) (toSt : Bytes → Option Bytes) (o : UploadOutcome) (obj : Option Bytes) :
    ((gcsStoreChunk data toSt o obj).res = .ok ↔ ∃ d b, data = some d ∧ toSt d = some b ∧ o = .stored) ∧
    ((gcsStoreChunk data toSt o obj).res = .ok → ∃ d b, data = some d ∧ toSt d = some b ∧
        (gcsStoreChunk data toSt o obj).obj = some b) ∧
    ((gcsStoreChunk data toSt o obj).res = .error → o ≠ .storedNoReply → (gcsStoreChunk data toSt o obj).obj = obj) ∧
    ((gcsStoreChunk data toSt o obj).obj = obj ∨
      ∃ d b, data = some d ∧ toSt d = some b ∧ (gcsStoreChunk data toSt o obj).obj = some b) ∧
    (gcsStoreChunk data toSt o obj).uploads ≤ 1 := by
  cases data with
  | none => simp [gcsStoreChunk]
  | some d =>
    cases hb : toSt d with
    | none => simp [gcsStoreChunk, hb]
    | some b => cases o <;> simp [gcsStoreChunk, hb]

theorem has_truthful (o : StatOutcome) :
    ((gcsHasChunk o).has = true ↔ o = .found) ∧ ((gcsHasChunk o).err = true ↔ o = .failure) ∧
    (o = .notFound ↔ ((gcsHasChunk o).has = false ∧ (gcsHasChunk o).err = false)) := by
  cases o <;> simp [gcsHasChunk]

theorem bulk_store_truthful (data : Option Bytes) (toSt : Bytes → Option Bytes) (st : StatOutcome) (o : UploadOutcome)
    (obj : Option Bytes) (hworld : st = .found → obj.isSome = true)
    (hok : (gcsBulkStore data toSt st o obj).res = .ok) :
    (gcsBulkStore data toSt st o obj).obj.isSome = true ∧
    (st = .found ∨ (st = .notFound ∧ ∃ d b, data = some d ∧ toSt d = some b ∧ o = .stored ∧
      (gcsBulkStore data toSt st o obj).obj = some b)) := by
  cases st with
  | found => simpa [gcsBulkStore, gcsHasChunk] using hworld rfl
  | failure => simp [gcsBulkStore, gcsHasChunk] at hok
  | notFound =>
    have hs : gcsBulkStore data toSt .notFound o obj = gcsStoreChunk data toSt o obj := by
      simp [gcsBulkStore, gcsHasChunk]
    rw [hs] at hok ⊢
    obtain ⟨hiff, hobj, -⟩ := store_truthful data toSt o obj
    obtain ⟨d, b, hd, hb, ho⟩ := hiff.mp hok
    obtain ⟨d', b', hd', hb', hobj'⟩ := hobj hok
    rw [hd] at hd'; injection hd' with hd'; subst hd'
    rw [hb] at hb'; injection hb' with hb'; subst hb'
    exact ⟨by simp [hobj'], .inr ⟨rfl, d, b, hd, hb, ho, hobj'⟩⟩

/-! ### RemoveChunk / Prune -/

theorem remove_subset (unc : Bool) (a : DelAnswer) (id : Bytes) (d : StoreDir) :
    ∀ f ∈ (gcsRemove unc a id d).1, f ∈ d := by
  intro f hf
  unfold gcsRemove at hf
  cases a with
  | refuse => exact hf
  | normal =>
    simp only at hf
    split at hf
    · exact (List.mem_filter.mp hf).1
    · exact hf
  | lost => exact (List.mem_filter.mp hf).1

theorem remove_removed (unc : Bool) (a : DelAnswer) (id : Bytes) (d : StoreDir) :
    ∀ f ∈ d, f ∉ (gcsRemove unc a id d).1 → f = nameFromID unc id := by
  intro f hf hn
  apply Classical.byContradiction
  intro hne
  apply hn
  unfold gcsRemove
  cases a with
  | refuse => exact hf
  | normal =>
    simp only
    split
    · exact List.mem_filter.mpr ⟨hf, by simpa using hne⟩
    · exact hf
  | lost => exact List.mem_filter.mpr ⟨hf, by simpa using hne⟩

/-- a delete that reports success removed the object, which was there -/
theorem remove_ok (unc : Bool) (a : DelAnswer) (id : Bytes) (d d' : StoreDir)
    (h : gcsRemove unc a id d = (d', true)) : nameFromID unc id ∈ d ∧ nameFromID unc id ∉ d' := by
  unfold gcsRemove at h
  cases a with
  | refuse => simp at h
  | lost => simp at h
  | normal =>
    simp only at h
    split at h
    · rename_i hin
      injection h with h1 _
      subst h1
      exact ⟨hin, by simp⟩
    · simp at h

def resDir : PruneRes → StoreDir
  | .ok d => d
  | .failed d => d

theorem nextPage_snap (env : PruneEnv) (d snap snap' : StoreDir) (left pages left' pages' : Nat)
    (h : nextPage env d snap left pages = some (snap', left', pages')) (hsub : ∀ f ∈ d, f ∈ snap) :
    ∀ f ∈ d, f ∈ snap' := by
  unfold nextPage at h
  split at h
  · split at h
    · cases h
    · injection h with h; injection h with h1 _; subst h1; exact fun f hf => hf
  · injection h with h; injection h with h1 _; subst h1; exact hsub

/-- the walk only removes, and only canonical objects of unreferenced IDs that `idFromName` produced -/
theorem walk_removed_only (unc : Bool) (keep : Bytes → Bool) (env : PruneEnv) (l : List (Bytes × Bytes)) :
    ∀ (d snap : StoreDir) (left pages dels : Nat),
    (∀ f ∈ resDir (gcsPruneWalk unc keep env l d snap left pages dels), f ∈ d) ∧
    ∀ f ∈ d, f ∉ resDir (gcsPruneWalk unc keep env l d snap left pages dels) →
      ∃ id, id.length = 32 ∧ keep id = false ∧ f = nameFromID unc id := by
  induction l with
  | nil =>
    intro d snap left pages dels
    simp only [gcsPruneWalk, resDir]
    exact ⟨fun f hf => hf, fun f hf hn => absurd hf hn⟩
  | cons e rest ih =>
    intro d snap left pages dels
    have triv : (∀ f ∈ resDir (PruneRes.failed d), f ∈ d) ∧
        ∀ f ∈ d, f ∉ resDir (PruneRes.failed d) → ∃ id, id.length = 32 ∧ keep id = false ∧ f = nameFromID unc id :=
      ⟨fun f hf => hf, fun f hf hn => absurd hf hn⟩
    unfold gcsPruneWalk
    split
    · exact ih d snap left pages dels
    · split
      · exact triv
      · rename_i snap' left' pages' _
        split
        · exact ih _ _ _ _ _
        · split
          · rename_i id hcl
            split
            · exact ih _ _ _ _ _
            · rename_i hk
              have hlen := s3Classify_consider_length unc _ _ _ hcl
              have hkf : keep id = false := by simpa using hk
              have hsub := remove_subset unc (env.del dels) id d
              have hrem := remove_removed unc (env.del dels) id d
              split
              · rename_i d' hrm
                rw [hrm] at hsub hrem
                obtain ⟨h1, h2⟩ := ih d' snap' (left' - 1) pages' (dels + 1)
                refine ⟨fun f hf => hsub f (h1 f hf), ?_⟩
                intro f hf hn
                by_cases hfd : f ∈ d'
                · exact h2 f hfd hn
                · exact ⟨id, hlen, hkf, hrem f hf hfd⟩
              · rename_i d' hrm
                rw [hrm] at hsub hrem
                refine ⟨fun f hf => hsub f hf, ?_⟩
                intro f hf hn
                exact ⟨id, hlen, hkf, hrem f hf hn⟩
          · exact ih _ _ _ _ _

/-- a successful walk has deleted the canonical object of every unreferenced ID whose name was still to come -/
theorem walk_complete (unc : Bool) (keep : Bytes → Bool) (env : PruneEnv) (l : List (Bytes × Bytes)) :
    ∀ (d snap : StoreDir) (left pages dels : Nat) (d' : StoreDir),
    (∀ f ∈ d, f ∈ snap) →
    gcsPruneWalk unc keep env l d snap left pages dels = .ok d' →
    ∀ id, id.length = 32 → keep id = false → nameFromID unc id ∈ l → nameFromID unc id ∉ d' := by
  induction l with
  | nil => intro d snap left pages dels d' _ _ id _ _ hin; cases hin
  | cons e rest ih =>
    intro d snap left pages dels d' hsub h id hlen hk hin
    have hres : ∀ f ∈ d', f ∈ d := by
      have := (walk_removed_only unc keep env (e :: rest) d snap left pages dels).1
      rw [h] at this
      exact this
    unfold gcsPruneWalk at h
    split at h
    · -- not listed: not there now either
      rename_i hns
      rcases List.mem_cons.mp hin with he | hr
      · intro hd; subst he; exact hns (hsub _ (hres _ hd))
      · exact ih d snap left pages dels d' hsub h id hlen hk hr
    · split at h
      · cases h
      · rename_i snap' left' pages' hnp
        have hsub' := nextPage_snap env d snap snap' left pages left' pages' hnp hsub
        split at h
        · rename_i hns
          rcases List.mem_cons.mp hin with he | hr
          · intro hd; subst he; exact hns (hsub' _ (hres _ hd))
          · exact ih _ _ _ _ _ d' hsub' h id hlen hk hr
        · split at h
          · rename_i id' hcl
            split at h
            · -- kept
              rename_i hk'
              rcases List.mem_cons.mp hin with he | hr
              · subst he
                rw [s3_classify_own unc id hlen] at hcl
                injection hcl with hcl; subst hcl
                rw [hk] at hk'; cases hk'
              · exact ih _ _ _ _ _ d' hsub' h id hlen hk hr
            · split at h
              · rename_i d1 hrm
                have ⟨_, hgone⟩ := remove_ok unc _ id' d d1 hrm
                have hsub1 : ∀ f ∈ d1, f ∈ snap' := by
                  intro f hf
                  have := remove_subset unc (env.del dels) id' d
                  rw [hrm] at this
                  exact hsub' f (this f hf)
                rcases List.mem_cons.mp hin with he | hr
                · subst he
                  rw [s3_classify_own unc id hlen] at hcl
                  injection hcl with hcl; subst hcl
                  intro hd
                  have := (walk_removed_only unc keep env rest d1 snap' (left' - 1) pages' (dels + 1)).1
                  rw [h] at this
                  exact hgone (this _ hd)
                · exact ih _ _ _ _ _ d' hsub1 h id hlen hk hr
              · cases h
          · rename_i hnc
            rcases List.mem_cons.mp hin with he | hr
            · subst he
              exact absurd (s3_classify_own unc id hlen) (by intro hc; exact hnc id hc)
            · exact ih _ _ _ _ _ d' hsub' h id hlen hk hr

end Desync.GCS
