/-
  Safety and progress of the "feeder + N workers + errgroup" step machine (`Desync.Pool`).
-/
import Desync.Model.Pool

namespace Desync.Pool

/-- the result computed by `wait` -/
def resOf (sh : PoolShape) (s : St) : Res :=
  if s.groupErr then .err else if sh.reportsInterrupt && s.broke then .interrupted else .ok

/-- the inductive invariant of the pool -/
structure Inv (sh : PoolShape) (jobs n : Nat) (s : St) : Prop where
  jobs_eq : s.jobs = jobs
  done_len : s.done.length = jobs
  wlen : s.workers.length = n
  next_le : s.next ≤ jobs
  cover : ∀ j, j < s.next →
    s.done.getD j false = true ∨ (∃ w : Nat, s.workers[w]? = some (W.busy j)) ∨ s.groupErr = true
  busy_lt : ∀ (w j : Nat), s.workers[w]? = some (W.busy j) → j < s.next
  closed : s.feederClosed = true →
    s.next = jobs ∨ (s.broke = sh.marksInterrupt ∧ (s.parentCancelled = true ∨ s.groupErr = true))
  broke_imp : s.broke = true → s.parentCancelled = true ∨ s.groupErr = true
  exited : ∀ w : Nat, s.workers[w]? = some W.exited → s.feederClosed = true ∨ s.groupErr = true
  res : ∀ r, s.result = some r →
    s.feederClosed = true ∧ (∀ (w : Nat) (x : W), s.workers[w]? = some x → x = W.exited) ∧ r = resOf sh s

theorem inv_init (sh : PoolShape) (jobs n : Nat) : Inv sh jobs n (St.init jobs n) := by
  constructor <;> simp [St.init, List.getElem?_replicate]

theorem all_exited_iff (ws : List W) :
    ws.all (· == W.exited) = true ↔ ∀ (w : Nat) (x : W), ws[w]? = some x → x = W.exited := by
  simp only [List.all_eq_true, beq_iff_eq]
  constructor
  · intro h w x hx
    exact h x (List.mem_iff_getElem?.2 ⟨w, hx⟩)
  · intro h x hx
    obtain ⟨w, hw⟩ := List.mem_iff_getElem?.1 hx
    exact h w x hw

theorem inv_step {sh : PoolShape} {jobs n : Nat} {s s' : St} (e : Ev) (hi : Inv sh jobs n s)
    (h : step sh s e = some s') : Inv sh jobs n s' := by
  obtain ⟨h1, h2, h3, h4, h5, h6, h7, hb, h8, h9⟩ := hi
  cases e with
  | feedSend w =>
    simp only [step] at h
    split at h <;> cases h
    rename_i hc
    constructor <;> first | done | grind [resOf, all_exited_iff] | skip
    intro j hj
    by_cases hlt : j < s.next
    · rcases h5 j hlt with h | ⟨w', hw'⟩ | h
      · exact .inl h
      · exact .inr (.inl ⟨w', by grind⟩)
      · exact .inr (.inr h)
    · exact .inr (.inl ⟨w, by grind⟩)
  | workOk w =>
    simp only [step] at h
    split at h <;> cases h
    rename_i j₀ hw
    constructor <;> first | done | grind [resOf, all_exited_iff] | skip
    intro j hj
    by_cases hjj : j = j₀
    · exact .inl (by grind)
    · rcases h5 j hj with h | ⟨w', hw'⟩ | h
      · exact .inl (by grind)
      · exact .inr (.inl ⟨w', by grind⟩)
      · exact .inr (.inr h)
  | workExit w =>
    simp only [step] at h
    split at h <;> cases h
    rename_i hc
    constructor <;> first | done | grind [resOf, all_exited_iff] | skip
    intro j hj
    rcases h5 j hj with h | ⟨w', hw'⟩ | h
    · exact .inl h
    · exact .inr (.inl ⟨w', by grind⟩)
    · exact .inr (.inr h)
  | _ =>
    simp only [step] at h
    split at h <;> cases h
    constructor <;> grind [resOf, all_exited_iff]

theorem inv_reachable {sh : PoolShape} {jobs n : Nat} {s : St}
    (h : Reachable sh (St.init jobs n) s) : Inv sh jobs n s := by
  induction h with
  | refl => exact inv_init sh jobs n
  | step e _ hs ih => exact inv_step e ih hs

/-- at a computed result every handed-out job is done or the group failed -/
theorem result_cover {sh : PoolShape} {jobs n : Nat} {s : St} (hi : Inv sh jobs n s) {r : Res}
    (hr : s.result = some r) (j : Nat) (hj : j < s.next) :
    s.done.getD j false = true ∨ s.groupErr = true := by
  obtain ⟨_, hall, _⟩ := hi.res r hr
  rcases hi.cover j hj with h | ⟨w, hw⟩ | h
  · exact .inl h
  · cases hall w _ hw
  · exact .inr h

/-- a failing job is always reported: result ok ⇒ no worker failed -/
theorem failure_is_reported (sh : PoolShape) (jobs n : Nat) (s : St)
    (h : Reachable sh (St.init jobs n) s) (hr : s.result = some .ok) : s.groupErr = false := by
  have hi := inv_reachable h
  obtain ⟨_, _, hres⟩ := hi.res _ hr
  cases hg : s.groupErr
  · rfl
  · simp [resOf, hg] at hres

/-- **a cancelled operation never reports success**: for a shape that marks and reports
interruption, in every reachable state (any schedule, any cancellation point, any worker failures,
any number of workers, any number of jobs) a result of `ok` means every job was completed -/
theorem cancel_never_success (sh : PoolShape) (hsh : sh.ok = true) (jobs n : Nat) (s : St)
    (h : Reachable sh (St.init jobs n) s) (hr : s.result = some .ok) :
    ∀ j, j < jobs → s.done.getD j false = true := by
  have hi := inv_reachable h
  have hg := failure_is_reported sh jobs n s h hr
  obtain ⟨hcl, _, hres⟩ := hi.res _ hr
  simp only [PoolShape.ok, Bool.and_eq_true] at hsh
  obtain ⟨hm, hrep⟩ := hsh
  have hnext : s.next = jobs := by
    rcases hi.closed hcl with h | ⟨hb, _⟩
    · exact h
    · simp [resOf, hg, hrep, hb, hm] at hres
  intro j hj
  rcases result_cover hi hr j (by omega) with h | h
  · exact h
  · simp [hg] at h

/-- without cancellation and failures the result is ok exactly when all jobs are done
(holds for every shape) -/
theorem no_cancel_all_done (sh : PoolShape) (jobs n : Nat) (s : St) (r : Res)
    (h : Reachable sh (St.init jobs n) s) (hr : s.result = some r)
    (hc : s.parentCancelled = false) (he : s.groupErr = false) :
    r = .ok ∧ ∀ j, j < jobs → s.done.getD j false = true := by
  have hi := inv_reachable h
  obtain ⟨hcl, _, hres⟩ := hi.res _ hr
  have hnext : s.next = jobs := by
    rcases hi.closed hcl with h | ⟨_, h | h⟩
    · exact h
    · simp [hc] at h
    · simp [he] at h
  refine ⟨?_, ?_⟩
  · cases hb : s.broke
    · simp [resOf, he, hb] at hres; exact hres
    · rcases hi.broke_imp hb with h | h
      · simp [hc] at h
      · simp [he] at h
  · intro j hj
    rcases result_cover hi hr j (by omega) with h | h
    · exact h
    · simp [he] at h

/-- the pinned tree's shape (neither marks nor reports) DOES report success with unfinished work:
the parent context is cancelled before the second job is fed -/
theorem legacy_shape_violates : ∃ (es : List Ev), let s := run ⟨false, false⟩ (St.init 2 1) es
    s.result = some .ok ∧ s.done.getD 1 false = false :=
  ⟨[.feedSend 0, .workOk 0, .parentCancel, .feedBreak, .workExit 0, .wait], by decide⟩

theorem exists_not_exited (ws : List W) (h : ¬ ws.all (· == W.exited) = true) :
    ∃ (w : Nat) (x : W), ws[w]? = some x ∧ x ≠ W.exited := by
  simp only [List.all_eq_true, beq_iff_eq] at h
  have ⟨x, hx, hne⟩ : ∃ x, x ∈ ws ∧ x ≠ W.exited := by
    apply Classical.byContradiction
    intro hcon
    apply h
    intro x hx
    apply Classical.byContradiction
    intro hne
    exact hcon ⟨x, hx, hne⟩
  obtain ⟨w, hw⟩ := List.mem_iff_getElem?.1 hx
  exact ⟨w, x, hw, hne⟩

theorem enabled_of_isSome {sh : PoolShape} {s : St} (e : Ev) (hne : e ≠ Ev.parentCancel)
    (h : (step sh s e).isSome = true) : ∃ e s', e ≠ Ev.parentCancel ∧ step sh s e = some s' := by
  obtain ⟨s', hs'⟩ := Option.isSome_iff_exists.1 h
  exact ⟨e, s', hne, hs'⟩

/-- no deadlock: in every reachable state without a result some event other than `parentCancel`
is enabled (for at least one worker) -/
theorem no_deadlock (sh : PoolShape) (jobs n : Nat) (s : St) (hn : 1 ≤ n)
    (h : Reachable sh (St.init jobs n) s) (hr : s.result = none) :
    ∃ e s', e ≠ Ev.parentCancel ∧ step sh s e = some s' := by
  have hi := inv_reachable h
  cases hcl : s.feederClosed
  · -- the feeder is still running
    by_cases hnext : s.next = s.jobs
    · exact enabled_of_isSome .feedEnd (by simp) (by simp [step, hcl, hnext])
    · have hlt : s.next < s.jobs := by have := hi.next_le; have := hi.jobs_eq; omega
      by_cases hc : s.parentCancelled = true ∨ s.groupErr = true
      · exact enabled_of_isSome .feedBreak (by simp) (by simp [step, hcl, hlt, hc])
      · have h0 : 0 < s.workers.length := by have := hi.wlen; omega
        have hw0 : s.workers[0]? = some s.workers[0] := List.getElem?_eq_getElem h0
        cases hx : s.workers[0] with
        | idle =>
          rw [hx] at hw0
          exact enabled_of_isSome (.feedSend 0) (by simp) (by simp [step, hcl, hlt, hw0])
        | busy j =>
          rw [hx] at hw0
          exact enabled_of_isSome (.workOk 0) (by simp) (by simp [step, hw0])
        | exited =>
          rw [hx] at hw0
          rcases hi.exited 0 hw0 with h | h
          · simp [hcl] at h
          · exact absurd (.inr h) hc
  · by_cases hall : s.workers.all (· == W.exited) = true
    · exact enabled_of_isSome .wait (by simp) (by simp only [step]; rw [if_pos ⟨hcl, by simp [hr], hall⟩]; rfl)
    · obtain ⟨w, x, hw, hne⟩ := exists_not_exited _ hall
      cases x with
      | idle => exact enabled_of_isSome (.workExit w) (by simp) (by simp [step, hcl, hw])
      | busy j => exact enabled_of_isSome (.workOk w) (by simp) (by simp [step, hw])
      | exited => exact absurd rfl hne

end Desync.Pool
