/-
  String-level facts for the reading side of `LocalFS` (`Model/LocalFSRead.lean`): Go's byte-wise string
  order and `sortBy` (what `readDirNames` and `tar()`'s `sort.Strings` produce), `path.Clean` /
  `filepath.Join` / `basename` / `path.Base` / `path.Dir` on clean absolute paths.
-/
import Desync.Model.LocalFSRead
import Desync.Proofs.LocalFSPath

namespace Desync.LFS
open Desync

/-! ### the order -/

theorem bytesLt_cons (a b : UInt8) (as bs : Bytes) :
    bytesLt (a :: as) (b :: bs) = true ↔ a < b ∨ (a = b ∧ bytesLt as bs = true) := by
  simp [bytesLt]

theorem bytesLt_irrefl (a : Bytes) : bytesLt a a = false := by
  induction a with
  | nil => rfl
  | cons x xs ih => simp [bytesLt, ih, UInt8.lt_irrefl]

theorem bytesLt_trans {a b c : Bytes} (h₁ : bytesLt a b = true) (h₂ : bytesLt b c = true) :
    bytesLt a c = true := by
  induction a generalizing b c with
  | nil =>
    cases b with
    | nil => simp [bytesLt] at h₁
    | cons y ys =>
      cases c with
      | nil => simp [bytesLt] at h₂
      | cons z zs => simp [bytesLt]
  | cons x xs ih =>
    cases b with
    | nil => simp [bytesLt] at h₁
    | cons y ys =>
      cases c with
      | nil => simp [bytesLt] at h₂
      | cons z zs =>
        rw [bytesLt_cons] at *
        rcases h₁ with h | ⟨rfl, h⟩ <;> rcases h₂ with h' | ⟨rfl, h'⟩
        · exact .inl (UInt8.lt_trans h h')
        · exact .inl h
        · exact .inl h'
        · exact .inr ⟨rfl, ih h h'⟩

theorem bytesLt_asymm {a b : Bytes} (h : bytesLt a b = true) : bytesLt b a = false := by
  cases hba : bytesLt b a with
  | false => rfl
  | true =>
    have := bytesLt_trans h hba
    rw [bytesLt_irrefl] at this
    exact absurd this (by simp)

theorem bytesLt_total {a b : Bytes} (h₁ : bytesLt a b = false) (h₂ : a ≠ b) : bytesLt b a = true := by
  induction a generalizing b with
  | nil =>
    cases b with
    | nil => exact absurd rfl h₂
    | cons y ys => simp [bytesLt] at h₁
  | cons x xs ih =>
    cases b with
    | nil => simp [bytesLt]
    | cons y ys =>
      rw [bytesLt_cons]
      have hn : ¬ (x < y ∨ (x = y ∧ bytesLt xs ys = true)) := by
        rw [← bytesLt_cons, h₁]; simp
      by_cases hxy : x = y
      · subst hxy
        right
        refine ⟨rfl, ih ?_ ?_⟩
        · cases hb : bytesLt xs ys with
          | false => rfl
          | true => exact absurd (.inr ⟨rfl, hb⟩) hn
        · intro e; exact h₂ (by rw [e])
      · left
        have hlt : ¬ x < y := fun h => hn (.inl h)
        rw [UInt8.lt_iff_toNat_lt] at *
        have : x.toNat ≠ y.toNat := fun e => hxy (UInt8.toNat_inj.1 e)
        omega

/-- strictly increasing keys -/
def StrictSorted {α} (key : α → Bytes) (l : List α) : Prop :=
  l.Pairwise fun x y => bytesLt (key x) (key y) = true

theorem StrictSorted.nodup {α} {key : α → Bytes} {l : List α} (h : StrictSorted key l) :
    (l.map key).Nodup := by
  unfold List.Nodup
  rw [List.pairwise_map]
  refine List.Pairwise.imp ?_ h
  intro a b hab e
  rw [e, bytesLt_irrefl] at hab
  exact absurd hab (by simp)

theorem StrictSorted.map {α} {key : α → Bytes} {l : List α} (h : StrictSorted key l) :
    StrictSorted id (l.map key) := by
  unfold StrictSorted
  rw [List.pairwise_map]
  exact h

/-! ### `insertBy` -/

theorem mem_map_insertBy {α} (key : α → Bytes) (x : α) (l : List α) (k : Bytes) :
    k ∈ (insertBy key x l).map key ↔ k = key x ∨ k ∈ l.map key := by
  induction l with
  | nil => simp [insertBy]
  | cons y ys ih =>
    unfold insertBy
    split
    · simp
    · split
      · rename_i _ he
        simp [he]
      · rw [List.map_cons, List.mem_cons, ih, List.map_cons, List.mem_cons]
        exact or_left_comm

theorem mem_of_mem_insertBy {α} (key : α → Bytes) (x : α) (l : List α) (z : α)
    (h : z ∈ insertBy key x l) : z = x ∨ z ∈ l := by
  induction l with
  | nil => simpa [insertBy] using h
  | cons y ys ih =>
    unfold insertBy at h
    split at h
    · simpa using h
    · split at h
      · rcases List.mem_cons.1 h with h | h
        · exact .inl h
        · exact .inr (List.mem_cons_of_mem _ h)
      · rcases List.mem_cons.1 h with h | h
        · exact .inr (by simp [h])
        · rcases ih h with h | h
          · exact .inl h
          · exact .inr (List.mem_cons_of_mem _ h)

theorem insertBy_sorted {α} (key : α → Bytes) (x : α) (l : List α) (h : StrictSorted key l) :
    StrictSorted key (insertBy key x l) := by
  induction l with
  | nil => simp [insertBy, StrictSorted]
  | cons y ys ih =>
    unfold StrictSorted at h ih ⊢
    rw [List.pairwise_cons] at h
    obtain ⟨hy, hys⟩ := h
    unfold insertBy
    split
    · rename_i hlt
      rw [List.pairwise_cons, List.pairwise_cons]
      refine ⟨?_, hy, hys⟩
      intro z hz
      rcases List.mem_cons.1 hz with rfl | hz
      · exact hlt
      · exact bytesLt_trans hlt (hy z hz)
    · split
      · rename_i _ he
        rw [List.pairwise_cons]
        refine ⟨?_, hys⟩
        intro z hz
        rw [he]; exact hy z hz
      · rename_i hlt hne
        rw [List.pairwise_cons]
        refine ⟨?_, ih hys⟩
        intro z hz
        rcases mem_of_mem_insertBy key x ys z hz with rfl | hz
        · exact bytesLt_total (by simpa using hlt) hne
        · exact hy z hz

theorem sortBy_cons {α} (key : α → Bytes) (x : α) (l : List α) :
    sortBy key (x :: l) = insertBy key x (sortBy key l) := rfl

theorem sortBy_sorted {α} (key : α → Bytes) (l : List α) : StrictSorted key (sortBy key l) := by
  induction l with
  | nil => simp [sortBy, StrictSorted]
  | cons x l ih => rw [sortBy_cons]; exact insertBy_sorted key x _ ih

/-- `sortBy` keeps exactly the keys of its input -/
theorem mem_map_sortBy {α} (key : α → Bytes) (l : List α) (k : Bytes) :
    k ∈ (sortBy key l).map key ↔ k ∈ l.map key := by
  induction l with
  | nil => simp [sortBy]
  | cons x l ih => rw [sortBy_cons, mem_map_insertBy, ih]; simp

theorem mem_sortBy_id (l : List Name) (n : Name) : n ∈ sortBy id l ↔ n ∈ l := by
  have := mem_map_sortBy id l n
  simpa using this

/-- every element of the result is an element of the input -/
theorem mem_of_mem_sortBy {α} (key : α → Bytes) (l : List α) (x : α) (h : x ∈ sortBy key l) : x ∈ l := by
  induction l with
  | nil => simp [sortBy] at h
  | cons y l ih =>
    rw [sortBy_cons] at h
    rcases mem_of_mem_insertBy key y _ x h with rfl | h
    · simp
    · exact List.mem_cons_of_mem _ (ih h)

/-- a list that is sorted already is left alone -/
theorem sortBy_of_sorted {α} (key : α → Bytes) (l : List α) (h : StrictSorted key l) : sortBy key l = l := by
  induction l with
  | nil => rfl
  | cons x l ih =>
    unfold StrictSorted at h ih
    rw [List.pairwise_cons] at h
    rw [sortBy_cons, ih h.2]
    cases l with
    | nil => rfl
    | cons y ys =>
      unfold insertBy
      rw [if_pos (h.1 y (by simp))]

/-- a strictly sorted list is determined by its elements -/
theorem strictSorted_ext {l₁ l₂ : List Name} (h₁ : StrictSorted id l₁) (h₂ : StrictSorted id l₂)
    (h : ∀ n, n ∈ l₁ ↔ n ∈ l₂) : l₁ = l₂ := by
  induction l₁ generalizing l₂ with
  | nil =>
    cases l₂ with
    | nil => rfl
    | cons b bs => exact absurd ((h b).2 (by simp)) (by simp)
  | cons a as ih =>
    cases l₂ with
    | nil => exact absurd ((h a).1 (by simp)) (by simp)
    | cons b bs =>
      unfold StrictSorted at h₁ h₂ ih
      rw [List.pairwise_cons] at h₁ h₂
      simp only [id] at h₁ h₂
      have hab : a = b := by
        by_cases e : a = b
        · exact e
        · have h1 : bytesLt b a = true := by
            rcases List.mem_cons.1 ((h a).1 (by simp)) with e' | hm
            · exact absurd e' e
            · exact h₂.1 a hm
          have h2 : bytesLt a b = true := by
            rcases List.mem_cons.1 ((h b).2 (by simp)) with e' | hm
            · exact absurd e'.symm e
            · exact h₁.1 b hm
          rw [bytesLt_asymm h1] at h2
          exact absurd h2 (by simp)
      subst hab
      congr 1
      refine ih h₁.2 h₂.2 ?_
      intro n
      constructor
      · intro hn
        rcases List.mem_cons.1 ((h n).1 (List.mem_cons_of_mem _ hn)) with e | hm
        · have := h₁.1 n hn
          rw [e, bytesLt_irrefl] at this
          exact absurd this (by simp)
        · exact hm
      · intro hn
        rcases List.mem_cons.1 ((h n).2 (List.mem_cons_of_mem _ hn)) with e | hm
        · have := h₂.1 n hn
          rw [e, bytesLt_irrefl] at this
          exact absurd this (by simp)
        · exact hm

/-- the result depends on the set of elements only (the order `Readdirnames` happens to deliver, duplicates) -/
theorem sortBy_id_ext {l₁ l₂ : List Name} (h : ∀ n, n ∈ l₁ ↔ n ∈ l₂) : sortBy id l₁ = sortBy id l₂ :=
  strictSorted_ext (sortBy_sorted id l₁) (sortBy_sorted id l₂) fun n => by
    rw [mem_sortBy_id, mem_sortBy_id]; exact h n

/-! ### clean absolute paths -/

theorem comps_go_slash_nil (rest : Bytes) (acc : List Name) :
    comps.go (slash :: rest) [] acc = comps.go rest [] acc := by
  rw [comps.go]; simp

theorem comps_absStr (p : List Name) (hv : ∀ c ∈ p, validName c = true) : comps (absStr p) = p := by
  by_cases hne : p = []
  · subst hne; decide
  · unfold comps absStr
    rw [comps_go_slash_nil, comps_go_intercalate p hne hv]
    simp

theorem absStr_ne_nil (p : List Name) : absStr p ≠ [] := by simp [absStr]

theorem absStr_head (p : List Name) : (absStr p).head? = some slash := by simp [absStr]

theorem absStr_snoc (p : List Name) (n : Name) (hne : p ≠ []) : absStr (p ++ [n]) = absStr p ++ [slash] ++ n := by
  unfold absStr
  rw [intercalate_snoc _ _ _ hne]
  simp

/-- `"/…/n"` is something, a slash, and `n` -/
theorem absStr_snoc_split (p : List Name) (n : Name) : ∃ d, absStr (p ++ [n]) = d ++ [slash] ++ n := by
  by_cases hne : p = []
  · subst hne; exact ⟨[], by simp [absStr]⟩
  · exact ⟨absStr p, absStr_snoc p n hne⟩

/-- a clean absolute path other than "/" does not end in a slash -/
theorem absStr_getLast (p : List Name) (hne : p ≠ []) (hv : ∀ c ∈ p, validName c = true) :
    (absStr p).getLast? ≠ some slash := by
  obtain ⟨q, c, rfl⟩ : ∃ q c, p = q ++ [c] :=
    ⟨p.dropLast, p.getLast hne, (List.dropLast_concat_getLast hne).symm⟩
  have hc := hv c (by simp)
  obtain ⟨d, hd⟩ := absStr_snoc_split q c
  rw [hd, List.getLast?_append]
  intro e
  cases hcl : c.getLast? with
  | none => exact validName_ne_nil hc (List.getLast?_eq_none_iff.1 hcl)
  | some a =>
    rw [hcl] at e
    simp at e
    subst e
    exact validName_no_slash hc (List.mem_of_getLast? hcl)

theorem absStr_injective {p q : List Name} (hp : ∀ c ∈ p, validName c = true) (hq : ∀ c ∈ q, validName c = true)
    (h : absStr p = absStr q) : p = q := by
  rw [← comps_absStr p hp, ← comps_absStr q hq, h]

theorem cleanComps_valid (cs : List Name) (hv : ∀ c ∈ cs, validName c = true) (acc : List Name) :
    cleanComps true acc cs = acc.reverse ++ cs := by
  induction cs generalizing acc with
  | nil => simp [cleanComps]
  | cons c rest ih =>
    have hc := hv c (by simp)
    have h1 : ¬ (c = [] ∨ c = [dot]) := by
      rintro (e | e)
      · exact validName_ne_nil hc e
      · exact validName_ne_dot hc e
    have h2 := validName_ne_dotdot hc
    have ih' := fun acc => ih (fun x hx => hv x (by simp [hx])) acc
    cases acc <;> simp only [cleanComps, if_neg h1, if_neg h2, ih'] <;> simp

theorem clean_of_rooted (s : Bytes) (h : s.head? = some slash) :
    clean s = slash :: List.intercalate [slash] (cleanComps true [] (comps s)) := by
  have hne : s ≠ [] := by intro e; subst e; simp at h
  unfold clean
  simp [hne, h]

/-- `path.Clean` leaves a clean absolute path alone -/
theorem clean_absStr (p : List Name) (hv : ∀ c ∈ p, validName c = true) : clean (absStr p) = absStr p := by
  rw [clean_of_rooted _ (absStr_head p), comps_absStr p hv, cleanComps_valid p hv]
  simp [absStr]

theorem comps_absStr_slash (p : List Name) (n : Name) (hv : ∀ c ∈ p, validName c = true)
    (hn : validName n = true) : comps (absStr p ++ [slash] ++ n) = p ++ [n] := by
  have hv' : ∀ c ∈ p ++ [n], validName c = true := by
    intro c hc
    rcases List.mem_append.1 hc with hc | hc
    · exact hv c hc
    · simp at hc; subst hc; exact hn
  by_cases hne : p = []
  · subst hne
    have : absStr [] ++ [slash] ++ n = slash :: slash :: n := by simp [absStr]
    rw [this]
    unfold comps
    rw [comps_go_slash_nil]
    have := comps_absStr [n] (by simpa using hn)
    unfold comps absStr at this
    rw [intercalate_singleton] at this
    simpa using this
  · rw [← absStr_snoc p n hne, comps_absStr _ hv']

/-- `filepath.Join(dir, name)` for a clean absolute `dir` and a file name -/
theorem joinName_absStr (p : List Name) (n : Name) (hv : ∀ c ∈ p, validName c = true) (hn : validName n = true) :
    joinName (absStr p) n = absStr (p ++ [n]) := by
  have hv' : ∀ c ∈ p ++ [n], validName c = true := by
    intro c hc
    rcases List.mem_append.1 hc with hc | hc
    · exact hv c hc
    · simp at hc; subst hc; exact hn
  unfold joinName
  rw [if_neg (absStr_ne_nil p)]
  have hh : (absStr p ++ [slash] ++ n).head? = some slash := by simp [absStr]
  rw [clean_of_rooted _ hh, comps_absStr_slash p n hv hn, cleanComps_valid _ hv']
  simp [absStr]

theorem dropWhile_slash_reverse_snoc (x n : Bytes) (hn : n ≠ []) (hs : slash ∉ n) :
    (x ++ n).reverse.dropWhile (· = slash) = (x ++ n).reverse := by
  rw [List.reverse_append]
  cases h : n.reverse with
  | nil => simp at h; exact absurd h hn
  | cons a t =>
    have ha : a ∈ n := by rw [← List.mem_reverse, h]; simp
    have : a ≠ slash := by intro e; subst e; exact hs ha
    simp [this]

theorem takeWhile_all {α} (q : α → Bool) (l : List α) (h : ∀ x ∈ l, q x = true) :
    l.takeWhile q = l := by
  induction l with
  | nil => rfl
  | cons a r ih =>
    simp only [List.takeWhile_cons, h a (by simp), ↓reduceIte]
    rw [ih (fun x hx => h x (by simp [hx]))]

theorem takeWhile_ne_slash_reverse_snoc (d n : Bytes) (hs : slash ∉ n) :
    ((d ++ [slash] ++ n).reverse.takeWhile (· ≠ slash)).reverse = n := by
  have hrev : (d ++ [slash] ++ n).reverse = n.reverse ++ (slash :: d.reverse) := by simp
  rw [hrev, List.takeWhile_append_of_pos]
  · simp
  · intro a ha
    have : a ≠ slash := by intro e; subst e; exact hs (List.mem_reverse.1 ha)
    simpa using this

theorem stripSlashes_snoc (d n : Bytes) (hn : n ≠ []) (hs : slash ∉ n) :
    stripSlashes (d ++ [slash] ++ n) = d ++ [slash] ++ n := by
  cases d with
  | nil =>
    have := dropWhile_slash_reverse_snoc [] n hn hs
    simp only [List.nil_append] at this
    simp [stripSlashes, this]
  | cons c d =>
    have := dropWhile_slash_reverse_snoc (d ++ [slash]) n hn hs
    simp only [List.cons_append, stripSlashes, this]
    simp

theorem osBasename_snoc (d n : Bytes) (hn : n ≠ []) (hs : slash ∉ n) :
    osBasename (d ++ [slash] ++ n) = n := by
  unfold osBasename
  rw [stripSlashes_snoc d n hn hs]
  have hl : ¬ (d ++ [slash] ++ n).length ≤ 1 := by
    have : 0 < n.length := List.length_pos_iff.2 hn
    simp; omega
  simp only [hl, if_false]
  exact takeWhile_ne_slash_reverse_snoc d n hs

/-- the `Name()` of `Lstat("/…/n")` -/
theorem osBasename_absStr_snoc (p : List Name) (n : Name) (hn : validName n = true) :
    osBasename (absStr (p ++ [n])) = n := by
  obtain ⟨d, hd⟩ := absStr_snoc_split p n
  rw [hd, osBasename_snoc d n (validName_ne_nil hn) (validName_no_slash hn)]

theorem pathBase_valid (n : Name) (hn : validName n = true) : pathBase n = n := by
  have hne := validName_ne_nil hn
  have hs := validName_no_slash hn
  unfold pathBase
  rw [if_neg hne]
  have h1 := dropWhile_slash_reverse_snoc [] n hne hs
  simp only [List.nil_append] at h1
  have h2 : n.reverse.takeWhile (· ≠ slash) = n.reverse := by
    apply takeWhile_all
    intro a ha
    have : a ≠ slash := by intro e; subst e; exact hs (List.mem_reverse.1 ha)
    simpa using this
  simp only [h1, List.reverse_reverse, h2, if_neg hne]

/-- `path.Dir("/…/n")` -/
theorem dirOf_absStr_snoc (p : List Name) (n : Name) (hn : validName n = true) :
    dirOf (absStr (p ++ [n])) = absStr p := by
  have hs := validName_no_slash hn
  by_cases hne : p = []
  · subst hne
    have : absStr ([] ++ [n]) = slash :: n := by simp [absStr]
    rw [this]
    unfold dirOf
    have hrev : (slash :: n).reverse = n.reverse ++ [slash] := by simp
    rw [hrev, dropWhile_append_all]
    · simp [absStr]
    · intro x hx
      have : x ≠ slash := by intro e; subst e; exact hs (List.mem_reverse.1 hx)
      simpa using this
  · rw [absStr_snoc p n hne, dirOf_snoc (absStr_ne_nil p) hs]

theorem absStr_length_lt (p : List Name) (n : Name) (hn : n ≠ []) : (absStr p).length < (absStr (p ++ [n])).length := by
  have : 0 < n.length := List.length_pos_iff.2 hn
  by_cases hne : p = []
  · subst hne
    simp [absStr]; omega
  · rw [absStr_snoc p n hne]
    simp

end Desync.LFS
