/-
  Sparse-file proofs (C09): a read of a copy-on-read sparse file returns the blob's bytes or an
  error, never stale zeros, across arbitrary histories of reads, failures and restarts.
-/
import Desync.Model.Sparse
import Desync.Proofs.ReadSeekerSearch

namespace Desync

/-! ### slices, pointwise -/

theorem slice_getElem? (f : Bytes) (c : RChunk) (k : Nat) :
    (slice f c)[k]? = if k < c.size then f[c.start + k]? else none := by
  simp only [slice, List.getElem?_take, List.getElem?_drop]

theorem slice_eq_of_get {f g : Bytes} {c : RChunk}
    (h : ∀ p, c.start ≤ p → p < c.start + c.size → f[p]? = g[p]?) : slice f c = slice g c := by
  apply List.ext_getElem?
  intro k
  rw [slice_getElem?, slice_getElem?]
  split
  · exact h _ (by omega) (by omega)
  · rfl

theorem get_of_slice_eq {f g : Bytes} {c : RChunk} (h : slice f c = slice g c) {p : Nat}
    (h1 : c.start ≤ p) (h2 : p < c.start + c.size) : f[p]? = g[p]? := by
  have h3 := congrArg (·[p - c.start]?) h
  simp only [slice_getElem?] at h3
  have e : c.start + (p - c.start) = p := by omega
  rw [if_pos (by omega), if_pos (by omega), e] at h3
  exact h3

/-! ### `writeAt`: length and frame -/

theorem writeAt_eq {file : Bytes} {off : Nat} {b : Bytes} (h : off + b.length ≤ file.length) :
    writeAt file off b = file.take off ++ b ++ file.drop (off + b.length) := by
  have : ¬ file.length < off + b.length := by omega
  simp only [writeAt, this, if_false]

theorem writeAt_length {file : Bytes} {off : Nat} {b : Bytes} (h : off + b.length ≤ file.length) :
    (writeAt file off b).length = file.length := by
  rw [writeAt_eq h]
  simp only [List.length_append, List.length_take, List.length_drop]
  omega

theorem writeAt_getElem? {file : Bytes} {off : Nat} {b : Bytes} (h : off + b.length ≤ file.length)
    (p : Nat) :
    (writeAt file off b)[p]? =
      if off ≤ p ∧ p < off + b.length then b[p - off]? else file[p]? := by
  rw [writeAt_eq h]
  have hl : (file.take off).length = off := by simp only [List.length_take]; omega
  by_cases h1 : p < off
  · rw [if_neg (by omega), List.append_assoc, List.getElem?_append_left (by omega),
      List.getElem?_take, if_pos h1]
  · rw [List.append_assoc, List.getElem?_append_right (by omega), hl]
    by_cases h2 : p < off + b.length
    · rw [if_pos (by omega), List.getElem?_append_left (by omega)]
    · rw [if_neg (by omega), List.getElem?_append_right (by omega), List.getElem?_drop]
      congr 1; omega

/-- the written range holds the written bytes -/
theorem writeAt_slice_self {file : Bytes} {c : RChunk} {b : Bytes} (hb : b.length = c.size)
    (h : c.start + c.size ≤ file.length) : slice (writeAt file c.start b) c = b := by
  apply List.ext_getElem?
  intro k
  rw [slice_getElem?, writeAt_getElem? (by omega)]
  by_cases hk : k < c.size
  · rw [if_pos hk, if_pos (by omega)]
    congr 1; omega
  · rw [if_neg hk, List.getElem?_eq_none (by omega)]

/-- frame: a range disjoint from the written one is unchanged -/
theorem writeAt_slice_other {file : Bytes} {off : Nat} {b : Bytes} {d : RChunk}
    (h : off + b.length ≤ file.length)
    (hd : d.start + d.size ≤ off ∨ off + b.length ≤ d.start) :
    slice (writeAt file off b) d = slice file d := by
  apply slice_eq_of_get
  intro p h1 h2
  rw [writeAt_getElem? h, if_neg (by omega)]

/-! ### tilings: distinct chunks are disjoint -/

theorem tiles_lt {st : Nat} {cs : List RChunk} {i j : Nat} {c d : RChunk}
    (ht : TilesFrom st cs) (hc : cs[i]? = some c) (hd : cs[j]? = some d) (hij : i < j) :
    c.start + c.size ≤ d.start := by
  induction cs generalizing st i j with
  | nil => simp at hc
  | cons e es ih =>
    obtain ⟨g1, g2, g3⟩ := ht
    cases j with
    | zero => omega
    | succ j' =>
      simp only [List.getElem?_cons_succ] at hd
      cases i with
      | zero =>
        simp only [List.getElem?_cons_zero, Option.some.injEq] at hc
        subst hc
        have := (tiles_get g3 hd).1
        omega
      | succ i' =>
        simp only [List.getElem?_cons_succ] at hc
        exact ih g3 hc hd (by omega)

theorem tiles_disjoint {st : Nat} {cs : List RChunk} {i j : Nat} {c d : RChunk}
    (ht : TilesFrom st cs) (hc : cs[i]? = some c) (hd : cs[j]? = some d) (hij : i ≠ j) :
    d.start + d.size ≤ c.start ∨ c.start + c.size ≤ d.start := by
  rcases Nat.lt_or_gt_of_ne hij with h | h
  · exact Or.inr (tiles_lt ht hc hd h)
  · exact Or.inl (tiles_lt ht hd hc h)

/-! ### setup and invariant -/

/-- static facts about the index, the blob and the store -/
structure SparseSetup (blob : Bytes) (s : SparseSt) (fetch : Fetch) : Prop where
  /-- consecutive non-empty chunks from 0 -/
  tiles : TilesFrom 0 s.chunks
  len : s.length = blob.length ∧ endOf 0 s.chunks = blob.length
  /-- store soundness (C03): whatever the store returns for a chunk's ID is that chunk's data -/
  sound : ∀ c ∈ s.chunks, ∀ k b, fetch k c.id = some b → b = slice blob c
  /-- chunks with the null ID are all zero -/
  null : ∀ c ∈ s.chunks, c.id = s.nullID → slice blob c = List.replicate c.size 0

/-- flags only go from false to true -/
def DoneLe (a b : List Bool) : Prop := ∀ i : Nat, a[i]? = some true → b[i]? = some true

theorem DoneLe.refl (a : List Bool) : DoneLe a a := fun _ h => h

theorem DoneLe.trans {a b c : List Bool} (h1 : DoneLe a b) (h2 : DoneLe b c) : DoneLe a c :=
  fun i h => h2 i (h1 i h)

/-- the cache-file invariant -/
def SparseInv (blob : Bytes) (s : SparseSt) : Prop :=
  s.file.length = blob.length ∧ s.done.length = s.chunks.length ∧
  (∀ (i : Nat) (c : RChunk), s.chunks[i]? = some c → s.done[i]? = some true →
    slice s.file c = slice blob c) ∧
  (∀ c ∈ s.chunks, c.id = s.nullID → slice s.file c = slice blob c)

/-- same index (chunks, null ID, length) -/
def SameIndex (s s' : SparseSt) : Prop :=
  s'.chunks = s.chunks ∧ s'.nullID = s.nullID ∧ s'.length = s.length

theorem SameIndex.refl (s : SparseSt) : SameIndex s s := ⟨rfl, rfl, rfl⟩

theorem SameIndex.trans {a b c : SparseSt} (h1 : SameIndex a b) (h2 : SameIndex b c) :
    SameIndex a c := by
  obtain ⟨x1, x2, x3⟩ := h1
  obtain ⟨y1, y2, y3⟩ := h2
  exact ⟨y1.trans x1, y2.trans x2, y3.trans x3⟩

theorem SparseSetup.of_same {blob : Bytes} {s s' : SparseSt} {fetch : Fetch}
    (hs : SparseSetup blob s fetch) (h : SameIndex s s') : SparseSetup blob s' fetch := by
  obtain ⟨h1, h2, h3⟩ := h
  obtain ⟨a, b, c, d⟩ := hs
  constructor
  · rw [h1]; exact a
  · rw [h1, h3]; exact b
  · rw [h1]; exact c
  · rw [h1, h2]; exact d

theorem SparseSetup.chunk_bound {blob : Bytes} {s : SparseSt} {fetch : Fetch}
    (hs : SparseSetup blob s fetch) {i : Nat} {c : RChunk} (hc : s.chunks[i]? = some c) :
    c.start + c.size ≤ blob.length := by
  have := (tiles_get hs.tiles hc).2.2.1
  rw [hs.len.2] at this
  exact this

/-! ### `loadChunk` -/

theorem loadChunk_done {s : SparseSt} {fetch : Fetch} {i : Nat}
    (hd : s.done.getD i false = true) : s.loadChunk fetch i = (true, s) := by
  simp only [SparseSt.loadChunk, hd, if_true]

theorem loadChunk_none {s : SparseSt} {fetch : Fetch} {i : Nat}
    (hd : ¬ s.done.getD i false = true) (hc : s.chunks[i]? = none) :
    s.loadChunk fetch i = (false, s) := by
  simp only [SparseSt.loadChunk, hd, hc]; rfl

theorem loadChunk_fail {s : SparseSt} {fetch : Fetch} {i : Nat} {c : RChunk}
    (hd : ¬ s.done.getD i false = true) (hc : s.chunks[i]? = some c)
    (hf : fetch s.calls c.id = none) :
    s.loadChunk fetch i = (false, { s with calls := s.calls + 1 }) := by
  simp only [SparseSt.loadChunk, hd, hc, hf]; rfl

theorem loadChunk_ok {s : SparseSt} {fetch : Fetch} {i : Nat} {c : RChunk} {b : Bytes}
    (hd : ¬ s.done.getD i false = true) (hc : s.chunks[i]? = some c)
    (hf : fetch s.calls c.id = some b) :
    s.loadChunk fetch i =
      (true, { s with calls := s.calls + 1, file := writeAt s.file c.start b,
                      done := s.done.set i true }) := by
  simp only [SparseSt.loadChunk, hd, hc, hf]; rfl

/-- a load (success or failure) preserves the invariant and the index; flags only grow; on success
    `done[i]` is set; a failure changes neither flags nor file and is a store error -/
theorem loadChunk_inv {blob : Bytes} {s : SparseSt} {fetch : Fetch}
    (hs : SparseSetup blob s fetch) (hi : SparseInv blob s) (i : Nat) :
    SparseInv blob (s.loadChunk fetch i).2 ∧ SameIndex s (s.loadChunk fetch i).2 ∧
    DoneLe s.done (s.loadChunk fetch i).2.done ∧
    ((s.loadChunk fetch i).1 = true → (s.loadChunk fetch i).2.done[i]? = some true) ∧
    ((s.loadChunk fetch i).1 = false →
      (s.loadChunk fetch i).2.done = s.done ∧ (s.loadChunk fetch i).2.file = s.file ∧
      (i < s.chunks.length → ∃ k id, fetch k id = none)) := by
  obtain ⟨hl, hdl, hdone, hnull⟩ := hi
  by_cases hd : s.done.getD i false = true
  · rw [loadChunk_done hd]
    refine ⟨⟨hl, hdl, hdone, hnull⟩, SameIndex.refl s, DoneLe.refl _, ?_, by simp⟩
    intro _
    rw [List.getD_eq_getElem?_getD] at hd
    cases h : s.done[i]? with
    | none => rw [h] at hd; simp at hd
    | some v => rw [h] at hd; simp at hd; rw [hd]
  · cases hc : s.chunks[i]? with
    | none =>
      rw [loadChunk_none hd hc]
      refine ⟨⟨hl, hdl, hdone, hnull⟩, SameIndex.refl s, DoneLe.refl _, by simp, ?_⟩
      intro _
      refine ⟨rfl, rfl, ?_⟩
      intro hlt
      rw [List.getElem?_eq_none_iff] at hc
      omega
    | some c =>
      have hilt : i < s.chunks.length := by
        rcases Nat.lt_or_ge i s.chunks.length with h | h
        · exact h
        · rw [List.getElem?_eq_none h] at hc; simp at hc
      cases hf : fetch s.calls c.id with
      | none =>
        rw [loadChunk_fail hd hc hf]
        refine ⟨⟨hl, hdl, hdone, hnull⟩, ⟨rfl, rfl, rfl⟩, DoneLe.refl _, by simp, ?_⟩
        intro _
        exact ⟨rfl, rfl, fun _ => ⟨_, _, hf⟩⟩
      | some b =>
        rw [loadChunk_ok hd hc hf]
        have hcm : c ∈ s.chunks := List.mem_of_getElem? hc
        have hb : b = slice blob c := hs.sound c hcm _ _ hf
        have hcb := hs.chunk_bound hc
        have hbl : b.length = c.size := by rw [hb]; exact slice_length hcb
        have hw : c.start + b.length ≤ s.file.length := by omega
        -- every chunk other than `c` keeps its bytes
        have frame : ∀ j d, s.chunks[j]? = some d → j ≠ i →
            slice (writeAt s.file c.start b) d = slice s.file d := by
          intro j d hj hji
          apply writeAt_slice_other hw
          have := tiles_disjoint hs.tiles hj hc hji
          omega
        have self : slice (writeAt s.file c.start b) c = slice blob c := by
          rw [writeAt_slice_self hbl (by omega)]; exact hb
        refine ⟨⟨?_, ?_, ?_, ?_⟩, ⟨rfl, rfl, rfl⟩, ?_, ?_, by simp⟩
        · show (writeAt s.file c.start b).length = blob.length
          rw [writeAt_length hw]; exact hl
        · show (s.done.set i true).length = s.chunks.length
          rw [List.length_set]; exact hdl
        · intro j d hj hdj
          show slice (writeAt s.file c.start b) d = slice blob d
          by_cases hji : j = i
          · subst hji
            rw [hc] at hj
            cases hj
            exact self
          · rw [frame j d hj hji]
            apply hdone j d hj
            have : (s.done.set i true)[j]? = s.done[j]? := List.getElem?_set_ne (Ne.symm hji)
            rw [← this]; exact hdj
        · intro d hdm hdn
          show slice (writeAt s.file c.start b) d = slice blob d
          obtain ⟨j, hj⟩ := List.getElem?_of_mem hdm
          by_cases hji : j = i
          · subst hji
            rw [hc] at hj
            cases hj
            exact self
          · rw [frame j d hj hji]
            exact hnull d hdm hdn
        · intro j hj
          show (s.done.set i true)[j]? = some true
          by_cases hji : j = i
          · subst hji
            rw [List.getElem?_set_self (by omega)]
          · rw [List.getElem?_set_ne (Ne.symm hji)]; exact hj
        · intro _
          show (s.done.set i true)[i]? = some true
          rw [List.getElem?_set_self (by omega)]

/-! ### the load loop -/

/-- the loop body of `loadRange`: stop at the first error -/
def loadStep (fetch : Fetch) (acc : Bool × SparseSt) (i : Nat) : Bool × SparseSt :=
  if acc.1 then acc.2.loadChunk fetch i else acc

theorem loadStep_foldl_false (fetch : Fetch) (l : List Nat) (s : SparseSt) :
    l.foldl (loadStep fetch) (false, s) = (false, s) := by
  induction l with
  | nil => rfl
  | cons i l ih =>
    have : loadStep fetch (false, s) i = (false, s) := rfl
    rw [List.foldl_cons, this]; exact ih

/-- loading a list of (valid) chunk indexes: the invariant and the index are preserved, flags only
    grow; on success all listed chunks are done; a failure is a store error -/
theorem loadFold_inv {blob : Bytes} {fetch : Fetch} (l : List Nat) :
    ∀ {s : SparseSt}, SparseSetup blob s fetch → SparseInv blob s →
    (∀ i ∈ l, i < s.chunks.length) →
    SparseInv blob (l.foldl (loadStep fetch) (true, s)).2 ∧
    SameIndex s (l.foldl (loadStep fetch) (true, s)).2 ∧
    DoneLe s.done (l.foldl (loadStep fetch) (true, s)).2.done ∧
    ((l.foldl (loadStep fetch) (true, s)).1 = true →
      ∀ i ∈ l, (l.foldl (loadStep fetch) (true, s)).2.done[i]? = some true) ∧
    ((l.foldl (loadStep fetch) (true, s)).1 = false → ∃ k id, fetch k id = none) := by
  induction l with
  | nil =>
    intro s _ hi _
    exact ⟨hi, SameIndex.refl s, DoneLe.refl _, by simp, by simp⟩
  | cons i l ih =>
    intro s hs hi hl
    obtain ⟨a1, a2, a3, a4, a5⟩ := loadChunk_inv hs hi i
    have hstep : loadStep fetch (true, s) i = s.loadChunk fetch i := rfl
    rw [List.foldl_cons, hstep]
    rcases hlc : s.loadChunk fetch i with ⟨ok, s1⟩
    rw [hlc] at a1 a2 a3 a4 a5
    cases ok with
    | false =>
      rw [loadStep_foldl_false]
      refine ⟨a1, a2, a3, by simp, ?_⟩
      intro _
      exact (a5 rfl).2.2 (hl i (List.mem_cons_self))
    | true =>
      have hs1 : SparseSetup blob s1 fetch := hs.of_same a2
      have hl1 : ∀ j ∈ l, j < s1.chunks.length := by
        intro j hj
        have : s1.chunks = s.chunks := a2.1
        rw [this]; exact hl j (List.mem_cons_of_mem _ hj)
      obtain ⟨b1, b2, b3, b4, b5⟩ := ih hs1 a1 hl1
      refine ⟨b1, a2.trans b2, a3.trans b3, ?_, b5⟩
      intro hok j hj
      rcases List.mem_cons.mp hj with rfl | hj'
      · exact b3 _ (a4 rfl)
      · exact b4 hok j hj'

/-! ### `sparseIndexRange` -/

/-- `lastChunk`: stays inside the index and stops only in front of a chunk that starts after `e` -/
theorem indexRange_go_spec (chunks : List RChunk) (e : Nat) :
    ∀ (fuel i last : Nat), i = last + 1 → chunks.length < fuel + i → last < chunks.length →
      last ≤ sparseIndexRange.go chunks e i last fuel ∧
      sparseIndexRange.go chunks e i last fuel < chunks.length ∧
      (∀ c, chunks[sparseIndexRange.go chunks e i last fuel + 1]? = some c → e < c.start) ∧
      (∀ j c, last < j → j ≤ sparseIndexRange.go chunks e i last fuel → chunks[j]? = some c →
        c.start ≤ e) := by
  intro fuel
  induction fuel with
  | zero => intro i last h1 h2 h3; omega
  | succ fuel ih =>
    intro i last h1 h2 h3
    unfold sparseIndexRange.go
    cases hc : chunks[i]? with
    | none =>
      dsimp only
      refine ⟨Nat.le_refl _, h3, ?_, ?_⟩
      · intro c hc'
        rw [← h1, hc] at hc'
        cases hc'
      · intro j c g1 g2; omega
    | some c =>
      have hi : i < chunks.length := by
        rcases Nat.lt_or_ge i chunks.length with h | h
        · exact h
        · rw [List.getElem?_eq_none h] at hc; cases hc
      by_cases he : e < c.start
      · simp only [he, if_true]
        refine ⟨Nat.le_refl _, h3, ?_, ?_⟩
        · intro c' hc'
          rw [← h1, hc] at hc'
          cases hc'
          exact he
        · intro j c g1 g2; omega
      · simp only [he, if_false]
        obtain ⟨b1, b2, b3, b4⟩ := ih (i + 1) (last + 1) (by omega) (by omega) (by omega)
        refine ⟨by omega, b2, b3, ?_⟩
        intro j d g1 g2 g3
        by_cases hj : j = i
        · subst hj
          rw [hc] at g3
          cases g3
          omega
        · exact b4 j d (by omega) g2 g3

theorem indexRange_snd_lt {cs : List RChunk} (hne : cs ≠ []) (off n : Nat) :
    (sparseIndexRange cs off n).2 < cs.length := by
  have hpos : 0 < cs.length := List.length_pos_iff.mpr hne
  unfold sparseIndexRange
  by_cases h : searchChunk off cs ≥ cs.length
  · simp only [h, if_true]; omega
  · simp only [h, if_false]
    exact (indexRange_go_spec cs _ cs.length _ _ rfl (by omega) (by omega)).2.1

/-- coverage: every chunk that holds a byte of `[off, off+n)` has its index in `[first, last]` -/
theorem indexRange_covers {cs : List RChunk} (ht : TilesFrom 0 cs) {off n p j : Nat} {c : RChunk}
    (hoff : off < endOf 0 cs) (h1 : off ≤ p) (h2 : p < off + n)
    (hc : cs[j]? = some c) (hp1 : c.start ≤ p) (hp2 : p < c.start + c.size) :
    (sparseIndexRange cs off n).1 ≤ j ∧ j ≤ (sparseIndexRange cs off n).2 := by
  obtain ⟨cf, hcf, hf1, hf2⟩ := searchChunk_lt ht (Nat.zero_le _) hoff
  have hjl : j < cs.length := by
    rcases Nat.lt_or_ge j cs.length with h | h
    · exact h
    · rw [List.getElem?_eq_none h] at hc; cases hc
  have hfl : searchChunk off cs < cs.length := by
    rcases Nat.lt_or_ge (searchChunk off cs) cs.length with h | h
    · exact h
    · rw [List.getElem?_eq_none h] at hcf; cases hcf
  have hnot : ¬ searchChunk off cs ≥ cs.length := by omega
  unfold sparseIndexRange
  simp only [hnot, if_false]
  obtain ⟨b1, b2, b3, _⟩ :=
    indexRange_go_spec cs (off + n - 1) cs.length (searchChunk off cs + 1) (searchChunk off cs) rfl
      (by omega) hfl
  constructor
  · rcases Nat.lt_or_ge j (searchChunk off cs) with h | h
    · have := tiles_lt ht hc hcf h
      omega
    · exact h
  · rcases Nat.lt_or_ge (sparseIndexRange.go cs (off + n - 1) (searchChunk off cs + 1)
        (searchChunk off cs) cs.length) j with h | h
    · -- the chunk after `last` exists and starts after `e`, yet at or before `c`
      have hex : ∃ d, cs[sparseIndexRange.go cs (off + n - 1) (searchChunk off cs + 1)
          (searchChunk off cs) cs.length + 1]? = some d := by
        rw [List.getElem?_eq_getElem (by omega)]
        exact ⟨_, rfl⟩
      obtain ⟨d, hd⟩ := hex
      have hd1 := b3 d hd
      have hd2 : d.start ≤ c.start := by
        rcases Nat.lt_or_ge (sparseIndexRange.go cs (off + n - 1) (searchChunk off cs + 1)
            (searchChunk off cs) cs.length + 1) j with g | g
        · have := tiles_lt ht hd hc g
          omega
        · have : sparseIndexRange.go cs (off + n - 1) (searchChunk off cs + 1)
              (searchChunk off cs) cs.length + 1 = j := by omega
          rw [this, hc] at hd
          cases hd
          exact Nat.le_refl _
      omega
    · exact h

/-! ### `loadRange` -/

/-- the chunks `loadRange` loads: in `[first, last]`, not done, not null -/
def neededIdx (s : SparseSt) (off n : Nat) : List Nat :=
  ((List.range ((sparseIndexRange s.chunks off n).2 + 1 - (sparseIndexRange s.chunks off n).1)).map
      (· + (sparseIndexRange s.chunks off n).1)).filter fun i =>
    !(s.done.getD i false) && decide ((s.chunks.getD i ⟨0, 0, 0⟩).id ≠ s.nullID)

theorem loadRange_eq (fetch : Fetch) (s : SparseSt) (off n : Nat) :
    s.loadRange fetch off n =
      if n < 1 ∨ s.chunks = [] then (true, s)
      else (neededIdx s off n).foldl (loadStep fetch) (true, s) := rfl

theorem mem_neededIdx {s : SparseSt} {off n i : Nat} :
    i ∈ neededIdx s off n ↔
      ((sparseIndexRange s.chunks off n).1 ≤ i ∧ i ≤ (sparseIndexRange s.chunks off n).2) ∧
      s.done.getD i false = false ∧ (s.chunks.getD i ⟨0, 0, 0⟩).id ≠ s.nullID := by
  unfold neededIdx
  simp only [List.mem_filter, List.mem_map, List.mem_range, Bool.and_eq_true, Bool.not_eq_true',
    decide_eq_true_eq]
  constructor
  · rintro ⟨⟨k, hk, rfl⟩, h2, h3⟩
    exact ⟨⟨by omega, by omega⟩, h2, h3⟩
  · rintro ⟨⟨h1, h1'⟩, h2, h3⟩
    exact ⟨⟨i - (sparseIndexRange s.chunks off n).1, by omega, by omega⟩, h2, h3⟩

/-- chunk `j`'s range of the file is usable: loaded, or a null chunk -/
def Avail (s : SparseSt) (j : Nat) : Prop :=
  s.done[j]? = some true ∨ ∃ c, s.chunks[j]? = some c ∧ c.id = s.nullID

theorem Avail.slice_eq {blob : Bytes} {s : SparseSt} (hi : SparseInv blob s) {j : Nat} {c : RChunk}
    (hc : s.chunks[j]? = some c) (ha : Avail s j) : slice s.file c = slice blob c := by
  rcases ha with h | ⟨d, hd, hn⟩
  · exact hi.2.2.1 j c hc h
  · rw [hc] at hd
    cases hd
    exact hi.2.2.2 c (List.mem_of_getElem? hc) hn

/-- `loadRange` preserves the invariant and the index, flags only grow; a failure is a store error;
    on success every chunk in `[first, last]` is done or null -/
theorem loadRange_inv {blob : Bytes} {s : SparseSt} {fetch : Fetch}
    (hs : SparseSetup blob s fetch) (hi : SparseInv blob s) (off n : Nat) :
    SparseInv blob (s.loadRange fetch off n).2 ∧ SameIndex s (s.loadRange fetch off n).2 ∧
    DoneLe s.done (s.loadRange fetch off n).2.done ∧
    ((s.loadRange fetch off n).1 = false → ∃ k id, fetch k id = none) ∧
    ((s.loadRange fetch off n).1 = true → 1 ≤ n → s.chunks ≠ [] →
      ∀ j, (sparseIndexRange s.chunks off n).1 ≤ j → j ≤ (sparseIndexRange s.chunks off n).2 →
        Avail (s.loadRange fetch off n).2 j) := by
  rw [loadRange_eq]
  by_cases h0 : n < 1 ∨ s.chunks = []
  · rw [if_pos h0]
    refine ⟨hi, SameIndex.refl s, DoneLe.refl _, by simp, ?_⟩
    intro _ h1 h2
    rcases h0 with h | h
    · omega
    · exact absurd h h2
  · rw [if_neg h0]
    have hne : s.chunks ≠ [] := fun h => h0 (Or.inr h)
    have hlast := indexRange_snd_lt hne off n
    have hvalid : ∀ i ∈ neededIdx s off n, i < s.chunks.length := by
      intro i hi'
      have := (mem_neededIdx.mp hi').1.2
      omega
    obtain ⟨a1, a2, a3, a4, a5⟩ := loadFold_inv (neededIdx s off n) hs hi hvalid
    refine ⟨a1, a2, a3, a5, ?_⟩
    intro hok _ _ j hj1 hj2
    have hjl : j < s.chunks.length := by omega
    by_cases hd : s.done.getD j false = true
    · left
      apply a3
      rw [List.getD_eq_getElem?_getD] at hd
      cases h : s.done[j]? with
      | none => rw [h] at hd; simp at hd
      | some v => rw [h] at hd; simp at hd; rw [hd]
    · by_cases hn : (s.chunks.getD j ⟨0, 0, 0⟩).id = s.nullID
      · right
        refine ⟨s.chunks[j], ?_, ?_⟩
        · rw [a2.1]; exact List.getElem?_eq_getElem hjl
        · rw [a2.2.1, ← hn, List.getD_eq_getElem?_getD, List.getElem?_eq_getElem hjl]; rfl
      · left
        apply a4 hok
        exact mem_neededIdx.mpr ⟨⟨hj1, hj2⟩, by simpa using hd, hn⟩

/-- after a successful `loadRange` the file agrees with the blob on the whole requested range -/
theorem loadRange_covers {blob : Bytes} {s : SparseSt} {fetch : Fetch}
    (hs : SparseSetup blob s fetch) (hi : SparseInv blob s) (off n : Nat)
    (hok : (s.loadRange fetch off n).1 = true) :
    ∀ p, off ≤ p → p < off + n → (s.loadRange fetch off n).2.file[p]? = blob[p]? := by
  obtain ⟨a1, a2, _, _, a5⟩ := loadRange_inv hs hi off n
  intro p h1 h2
  rcases Nat.lt_or_ge p blob.length with hp | hp
  · have hpe : p < endOf 0 s.chunks := by rw [hs.len.2]; exact hp
    obtain ⟨c, hc, hc1, hc2⟩ := searchChunk_lt hs.tiles (Nat.zero_le _) hpe
    have hne : s.chunks ≠ [] := by
      intro h; rw [h] at hc; cases hc
    have hr := indexRange_covers (n := n) hs.tiles (by omega : off < endOf 0 s.chunks) h1 h2 hc hc1 hc2
    have hav := a5 hok (by omega) hne _ hr.1 hr.2
    have hc' : (s.loadRange fetch off n).2.chunks[searchChunk p s.chunks]? = some c := by
      rw [a2.1]; exact hc
    exact get_of_slice_eq (Avail.slice_eq a1 hc' hav) hc1 hc2
  · rw [List.getElem?_eq_none hp, List.getElem?_eq_none (by rw [a1.1]; exact hp)]

/-! ### `readAt` -/

/-- **main**: a read returns exactly the blob's bytes of the requested range (cut at the end of the
    blob), or an error caused by a store error; never stale zeros.  The invariant survives both. -/
theorem readAt_blob_or_error {blob : Bytes} {s : SparseSt} {fetch : Fetch}
    (hs : SparseSetup blob s fetch) (hi : SparseInv blob s) (off n : Nat) :
    match s.readAt fetch off n with
    | (.data b eof, s') =>
        b = (blob.drop off).take n ∧ (eof = true ↔ b.length < n) ∧
        SparseInv blob s' ∧ SameIndex s s' ∧ DoneLe s.done s'.done
    | (.err, s') =>
        SparseInv blob s' ∧ SameIndex s s' ∧ DoneLe s.done s'.done ∧ ∃ k id, fetch k id = none := by
  obtain ⟨a1, a2, a3, a4, _⟩ := loadRange_inv hs hi off n
  have hcov := loadRange_covers hs hi off n
  unfold SparseSt.readAt
  rcases hlr : s.loadRange fetch off n with ⟨ok, s'⟩
  rw [hlr] at a1 a2 a3 a4 hcov
  cases ok with
  | false => exact ⟨a1, a2, a3, a4 rfl⟩
  | true =>
    refine ⟨?_, by simp, a1, a2, a3⟩
    apply List.ext_getElem?
    intro k
    simp only [List.getElem?_take, List.getElem?_drop]
    split
    · exact hcov rfl _ (by omega) (by omega)
    · rfl

/-! ### sequences of reads (retries after failures included) -/

/-- run a list of `(offset, length)` reads; the trace of results and the final state -/
def SparseSt.runReads (fetch : Fetch) : SparseSt → List (Nat × Nat) → List SparseRead × SparseSt
  | s, [] => ([], s)
  | s, (off, n) :: ops =>
    let r := s.readAt fetch off n
    let rest := SparseSt.runReads fetch r.2 ops
    (r.1 :: rest.1, rest.2)

theorem readAt_inv {blob : Bytes} {s : SparseSt} {fetch : Fetch}
    (hs : SparseSetup blob s fetch) (hi : SparseInv blob s) (off n : Nat) :
    SparseInv blob (s.readAt fetch off n).2 ∧ SameIndex s (s.readAt fetch off n).2 ∧
    DoneLe s.done (s.readAt fetch off n).2.done := by
  have h := readAt_blob_or_error hs hi off n
  rcases hr : s.readAt fetch off n with ⟨r, s'⟩
  rw [hr] at h
  cases r with
  | data b eof => exact ⟨h.2.2.1, h.2.2.2.1, h.2.2.2.2⟩
  | err => exact ⟨h.1, h.2.1, h.2.2.1⟩

theorem readAt_data {blob : Bytes} {s : SparseSt} {fetch : Fetch}
    (hs : SparseSetup blob s fetch) (hi : SparseInv blob s) {off n : Nat} {b : Bytes} {eof : Bool}
    (h : (s.readAt fetch off n).1 = .data b eof) :
    b = (blob.drop off).take n ∧ (eof = true ↔ b.length < n) := by
  have h' := readAt_blob_or_error hs hi off n
  rcases hr : s.readAt fetch off n with ⟨r, s'⟩
  rw [hr] at h h'
  cases h
  exact ⟨h'.1, h'.2.1⟩

/-- any sequence of reads (with arbitrary store failures in between, so in particular a retry of a
    failed read): every `.data` result in the trace is the blob's range of the corresponding
    request, and the final state still satisfies the invariant -/
theorem reads_blob_or_error {blob : Bytes} {fetch : Fetch} (ops : List (Nat × Nat)) :
    ∀ {s : SparseSt}, SparseSetup blob s fetch → SparseInv blob s →
    (s.runReads fetch ops).1.length = ops.length ∧
    (∀ (j : Nat) (b : Bytes) (eof : Bool), (s.runReads fetch ops).1[j]? = some (.data b eof) →
      ∃ off n, ops[j]? = some (off, n) ∧ b = (blob.drop off).take n ∧
        (eof = true ↔ b.length < n)) ∧
    SparseInv blob (s.runReads fetch ops).2 ∧ SameIndex s (s.runReads fetch ops).2 ∧
    DoneLe s.done (s.runReads fetch ops).2.done := by
  induction ops with
  | nil =>
    intro s _ hi
    exact ⟨rfl, by simp [SparseSt.runReads], hi, SameIndex.refl s, DoneLe.refl _⟩
  | cons op ops ih =>
    intro s hs hi
    obtain ⟨off, n⟩ := op
    obtain ⟨a1, a2, a3⟩ := readAt_inv hs hi off n
    obtain ⟨b0, b1, b2, b3, b4⟩ := ih (hs.of_same a2) a1
    simp only [SparseSt.runReads]
    refine ⟨by simp only [List.length_cons, b0], ?_, b2, a2.trans b3, a3.trans b4⟩
    intro j b eof hj
    cases j with
    | zero =>
      simp only [List.getElem?_cons_zero, Option.some.injEq] at hj
      exact ⟨off, n, rfl, readAt_data hs hi hj⟩
    | succ j =>
      simp only [List.getElem?_cons_succ] at hj
      simpa only [List.getElem?_cons_succ] using b1 j b eof hj

end Desync
