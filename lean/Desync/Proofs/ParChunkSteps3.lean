/-
  The invariant of the parallel chunker machine is preserved by every event (part 3: the null-chunk
  scan and fast-forward), and hence holds in every reachable state.
-/
import Desync.Proofs.ParChunkSteps2

namespace Desync.Par

variable {e : Env} {zero : Nat → Prop}

theorem front_advance {w : Worker} (c : Chunk) (p k : Nat) (hend : endOf w = w.pos) (hc : c.fin = w.pos) :
    front { w with pos := p, pc := .advance c k } = front w := by
  show (match w.bucket with | c :: _ => c.start | [] => endOf { w with pos := p, pc := .advance c k }) =
    (match w.bucket with | c :: _ => c.start | [] => endOf w)
  rw [hend, show endOf { w with pos := p, pc := .advance c k } = c.fin from rfl, hc]

/-- the worker after the count `n` of zero bytes has been turned into a fast-forward over `n / max` null chunks -/
theorem advance_ok (hE : EnvOK e zero) {n0 i : Nat} {w : Worker} {c : Chunk} {n : Nat} {sy : Chunk}
    (hl : WLocal e zero n0 i w) (hpc : w.pc = .nullScan c n)
    (hnull : e.isNull sy = true) (hn : c.start + n = sy.start) (hz : ZeroOn zero c.start sy.fin) (hsz : sy.fin ≤ e.size)
    (hk : n / e.max > 0) :
    WLocal e zero n0 i { w with pos := w.pos + n / e.max * e.max, pc := .advance c (n / e.max) } := by
  have hlive : finPC w.pc = false := by rw [hpc]; rfl
  have hend : endOf w = w.pos := by simp only [endOf, hpc]
  have hpcl := hl.pc_ok
  simp only [PcLocal, hpc] at hpcl
  obtain ⟨⟨hcsz, hclt⟩, hcfin, _⟩ := hpcl
  have hns := hE.null_zero sy hnull
  have hmul : n / e.max * e.max ≤ n := Nat.div_mul_le_self n e.max
  have hsyfin : sy.fin = c.start + n + e.max := by simp only [Chunk.fin]; omega
  have hzc := hE.zero_cut c.start ⟨sy, hnull⟩ (by omega) (fun x h1 h2 => hz x h1 (by omega))
  have hcmax : c.size = e.max := by rw [hcsz]; exact hzc.1
  have hcnull : e.isNull c = true := by
    have : c = ⟨c.start, e.max⟩ := by cases c; simp only [Chunk.mk.injEq, true_and]; exact hcmax
    rw [this]; exact hzc.2
  have hcf : c.fin = c.start + e.max := by simp only [Chunk.fin]; omega
  refine hl.update rfl rfl rfl (by rw [hpc]; rfl) (by rw [hpc]; simp) ?_ ?_ ?_ ?_
  · show w.pos + n / e.max * e.max ≤ e.size
    omega
  · rw [front_advance c _ _ hend hcfin]
    show Run e (front w) w.bucket c.fin
    rw [hcfin, ← hend]; exact hl.run
  · intro h; rw [show ({ w with pos := w.pos + n / e.max * e.max, pc := PC.advance c (n / e.max) } : Worker).eof = w.eof from rfl,
      hl.eof_false hlive] at h; cases h
  · refine ⟨hk, ?_, ?_, hcnull⟩
    · show c.fin + n / e.max * e.max = w.pos + n / e.max * e.max
      omega
    · intro x h1 h2
      have h2' : x < w.pos + n / e.max * e.max := h2
      exact hz x (by omega) (by omega)

theorem Inv.scan (hE : EnvOK e zero) {s s' : St} {i : Nat} (hI : Inv e zero s)
    (h : step e s (.scan i) = some s') : Inv e zero s' := by
  simp only [step, Gen.parNumNull, Gen.parNStep] at h
  split at h
  · rename_i w hw
    have hl := hI.loc i w hw
    split at h
    · rename_i c n j hpc hnext
      have hlive : finPC w.pc = false := by rw [hpc]; rfl
      have hend : endOf w = w.pos := by simp only [endOf, hpc]
      have hpcl := hl.pc_ok
      simp only [PcLocal, hpc] at hpcl
      have hij : i < j := by have := hl.nx_gt; rw [nxW_some hnext] at this; exact this
      split at h
      · rename_i wj hj
        have hlj := hI.loc j wj hj
        have hpr := hI.pair i w j wj hw hnext hj
        simp only [PcPair, hpc] at hpr
        obtain ⟨hnull, hn, hz⟩ := hpr
        have hnd : w.pc ≠ .done := by rw [hpc]; intro h; cases h
        have hns := hE.null_zero wj.sync hnull
        have hmax := hE.max_pos
        have hsyfin : wj.sync.fin = front wj := by
          rcases hI.sync j wj hj ⟨i, w, hij, hw, hnd⟩ with h0 | h1
          · rw [h0] at hns; have : (0 : Nat) = e.max := hns.1; omega
          · exact h1
        have hsz : wj.sync.fin ≤ e.size := by rw [hsyfin]; exact hlj.front_le_size
        have hadv := advance_ok hE hl hpc hnull hn hz hsz
        have hfadv := front_advance (w := w) c (w.pos + n / e.max * e.max) (n / e.max) hend hpcl.2.1
        have hskp : WLocal e zero s.workers.length i { w with pc := .skipCheck } :=
          hl.update_pc _ hlive rfl hend rfl trivial
        split at h
        · rename_i x hrecv
          split at h
          · rename_i hxnull
            cases h
            refine Inv.pop_step hE hI (Upd2.setW _ _ hij hw hj) rfl rfl hnext hlive rfl rfl rfl
              (front_update_pc _ hend rfl) (hl.update_pc _ hlive rfl hend rfl ?_) (popShape_chunk hrecv) ?_
            · simp only [PcLocal]; exact hpcl
            · have hxs : x.start = wj.sync.fin := by rw [hsyfin, front_cons (tryRecv_some_some hrecv)]
              have hnx := hE.null_zero x hxnull
              refine ⟨hxnull, ?_, ?_⟩
              · show c.start + (n + e.max) = x.start
                rw [hxs]; simp only [Chunk.fin]; omega
              · intro y h1 h2
                by_cases hy : y < wj.sync.fin
                · exact hz y h1 hy
                · exact hnx.2 y (by omega) h2
          · cases h
            by_cases hk : n / e.max > 0
            · simp only [hk, ↓reduceIte]
              exact Inv.pop_step hE hI (Upd2.setW _ _ hij hw hj) rfl rfl hnext hlive rfl rfl rfl
                hfadv (hadv hk) (popShape_chunk hrecv) trivial
            · simp only [hk, ↓reduceIte]
              exact Inv.pop_step hE hI (Upd2.setW _ _ hij hw hj) rfl rfl hnext hlive rfl rfl rfl
                (front_update_pc _ hend rfl) hskp (popShape_chunk hrecv) trivial
        · rename_i hrecv
          cases h
          by_cases hk : n / e.max > 0
          · simp only [hk, ↓reduceIte]
            exact Inv.pop_step hE hI (Upd2.setW _ _ hij hw hj) rfl rfl hnext hlive rfl rfl rfl
              hfadv (hadv hk) (popShape_closed hrecv) trivial
          · simp only [hk, ↓reduceIte]
            exact Inv.pop_step hE hI (Upd2.setW _ _ hij hw hj) rfl rfl hnext hlive rfl rfl rfl
              (front_update_pc _ hend rfl) hskp (popShape_closed hrecv) trivial
        · cases h
          by_cases hk : n / e.max > 0
          · simp only [hk, ↓reduceIte]
            exact Inv.self_step_live hE hI (Upd1.setW _ hw) rfl rfl rfl rfl hfadv hlive (hadv hk)
              (fun _ _ _ _ => trivial) (fun h => by cases h)
          · simp only [hk, ↓reduceIte]
            exact Inv.self_step_live hE hI (Upd1.setW _ hw) rfl rfl rfl rfl (front_update_pc _ hend rfl) hlive hskp
              (fun _ _ _ _ => trivial) (fun h => by cases h)
      · cases h
    · cases h
  · cases h

theorem Inv.pushNull (hE : EnvOK e zero) {s s' : St} {i : Nat} (hI : Inv e zero s)
    (h : step e s (.pushNull i) = some s') : Inv e zero s' := by
  simp only [step] at h
  split at h
  · rename_i w hw
    have hl := hI.loc i w hw
    split at h
    · rename_i last k hpc
      have hlive : finPC w.pc = false := by rw [hpc]; rfl
      have hend : endOf w = last.fin := by simp only [endOf, hpc]
      have hpcl := hl.pc_ok
      simp only [PcLocal, hpc] at hpcl
      obtain ⟨hk, hpos, hz, hnull⟩ := hpcl
      have hmax := hE.max_pos
      have hkm : e.max ≤ k * e.max := Nat.le_mul_of_pos_left _ hk
      have hple := hl.pos_le
      have hzc := hE.zero_cut last.fin ⟨last, hnull⟩ (by omega) (fun x h1 h2 => hz x h1 (by omega))
      have hrun : Run e (front w) (w.bucket ++ [⟨last.fin, e.max⟩]) (last.fin + e.max) := by
        have := hl.run
        rw [hend] at this
        have h2 := Run.snoc ⟨last.fin, e.max⟩ this rfl hzc.1.symm (by omega)
        rw [hzc.1] at h2; exact h2
      have hfr : ∀ (pc' : PC), front { w with bucket := w.bucket ++ [⟨last.fin, e.max⟩], pc := pc' } = front w := by
        intro pc'
        cases hb : w.bucket <;> simp only [front, hb, List.nil_append, List.cons_append]
        exact hend.symm
      split at h
      · cases h
      · split at h
        · rename_i hk1
          cases h
          refine Inv.self_step_live hE hI (Upd1.setW _ hw) rfl rfl rfl rfl (hfr _) hlive ?_
            (fun _ _ _ _ => trivial) (fun h => by cases h)
          refine hl.update rfl rfl rfl (by rw [hpc]; rfl) (by rw [hpc]; simp) hple ?_ ?_ trivial
          · rw [hfr]
            show Run e (front w) (w.bucket ++ [⟨last.fin, e.max⟩]) w.pos
            have : w.pos = last.fin + e.max := by rw [← hpos, hk1]; omega
            rw [this]; exact hrun
          · intro h; rw [show ({ w with bucket := w.bucket ++ [⟨last.fin, e.max⟩], pc := PC.skipCheck } : Worker).eof = w.eof from rfl,
              hl.eof_false hlive] at h; cases h
        · rename_i hk0 hk1
          cases h
          refine Inv.self_step_live hE hI (Upd1.setW _ hw) rfl rfl rfl rfl (hfr _) hlive ?_
            (fun _ _ _ _ => trivial) (fun h => by cases h)
          obtain ⟨t, rfl⟩ : ∃ t, k = t + 2 := ⟨k - 2, by omega⟩
          have hmul : (t + 2) * e.max = (t + 1) * e.max + e.max := by rw [Nat.succ_mul]
          refine hl.update rfl rfl rfl (by rw [hpc]; rfl) (by rw [hpc]; simp) hple ?_ ?_ ?_
          · rw [hfr]
            exact hrun
          · intro h; rw [show ({ w with bucket := w.bucket ++ [⟨last.fin, e.max⟩], pc := PC.advance ⟨last.fin, e.max⟩ (t + 2 - 1) } : Worker).eof = w.eof from rfl,
              hl.eof_false hlive] at h; cases h
          · show 0 < t + 2 - 1 ∧ (⟨last.fin, e.max⟩ : Chunk).fin + (t + 2 - 1) * e.max = w.pos ∧
              ZeroOn zero (⟨last.fin, e.max⟩ : Chunk).fin w.pos ∧ e.isNull ⟨last.fin, e.max⟩ = true
            have h1 : t + 2 - 1 = t + 1 := by omega
            rw [h1]
            refine ⟨by omega, ?_, ?_, hzc.2⟩
            · simp only [Chunk.fin] at hpos ⊢; omega
            · intro x hx1 hx2
              simp only [Chunk.fin] at hx1
              exact hz x (by simp only [Chunk.fin]; omega) hx2
    · cases h
  · cases h

/-- the invariant is preserved by every step -/
theorem Inv.step_preserved (hE : EnvOK e zero) {s s' : St} (ev : Ev) (hI : Inv e zero s)
    (h : step e s ev = some s') : Inv e zero s' := by
  cases ev with
  | produce i => exact hI.produce hE h
  | look i => exact hI.look hE h
  | pop i => exact hI.pop hE h
  | decide i => exact hI.decide hE h
  | scan i => exact hI.scan hE h
  | pushNull i => exact hI.pushNull hE h
  | skip i => exact hI.skip hE h
  | stop i => exact hI.stop hE h
  | close i => exact hI.close hE h
  | mainPop => exact hI.mainPop hE h
  | mainNext => exact hI.mainNext hE h

end Desync.Par
