/-
  `UnTar` onto a `LocalFS` (`Model/LocalFS.lean`) never changes anything outside the destination:
  `untar_fs_confined`.

  * `LocalFSKit`   : `FS.get` of `set`/`del`/`touch`, `Frame`, resolution straight down real directories
  * `LocalFSCalls` : the system calls and the four `LocalFS` methods under a straight resolution
  * `LocalFSPath`  : `comps`/`joinPath`/`dirOf` on the decoder's directory strings
  * this file      : what is assumed of the decoder (`DecFacts`), the loop invariant, the theorem
-/
import Desync.Proofs.LocalFSCalls
import Desync.Proofs.LocalFSPath

namespace Desync.LFS

/-! ### what the decoder guarantees -/

def dirUp : Nat → Bytes → Bytes
  | 0, d => d
  | k+1, d => dirUp k (dirOf d)

def nodeName : Node → Bytes
  | .dir n _ => n | .file n _ _ _ => n | .device n _ _ _ => n | .symlink n _ _ => n

/-- `Confined d`: d is "." or a '/'-join of valid single components -/
def Confined (p : Bytes) : Prop :=
  p = [dot] ∨ ∃ cs : List Bytes, cs ≠ [] ∧ (∀ c ∈ cs, validName c = true) ∧ p = List.intercalate [slash] cs

structure DecFacts : Prop where
  /-- every node after the first is a proper child of the directory the decoder is in at that moment -/
  child : ∀ (a : ArchDec) (n : Node) (a' : ArchDec), a.next = .ok (some n, a') → 0 < a.nodes →
      ∃ k c, validName c = true ∧ nodeName n = joinPath (dirUp k a.dir) c ∧
        a'.dir = (match n with | .dir .. => nodeName n | _ => dirUp k a.dir)
  /-- the first node: nameless (its name is the directory the decoder is in, after the goodbye elements consumed in this
      call) or a child as above -/
  first : ∀ (a : ArchDec) (n : Node) (a' : ArchDec), a.next = .ok (some n, a') → a.nodes = 0 → a.rootNotDir = false →
      (∃ k, nodeName n = dirUp k a.dir ∧ a'.dir = dirUp k a.dir ∧ (a'.rootNotDir = true ↔ ¬ (∃ nm m, n = .dir nm m))) ∨
      (a'.rootNotDir = false ∧ ∃ k c, validName c = true ∧ nodeName n = joinPath (dirUp k a.dir) c ∧
        a'.dir = (match n with | .dir .. => nodeName n | _ => dirUp k a.dir))
  /-- counters -/
  counts : ∀ (a : ArchDec) (n : Node) (a' : ArchDec), a.next = .ok (some n, a') →
      a'.nodes = a.nodes + 1 ∧ (0 < a.nodes → a.rootNotDir = false ∧ a'.rootNotDir = false)
  /-- the decoder's directory stays confined -/
  dirConfined : ∀ (a : ArchDec) (n : Node) (a' : ArchDec), a.next = .ok (some n, a') → Confined a.dir → Confined a'.dir

/-- the destination as the user gave it: a non-empty absolute path of valid components whose proper prefixes are real
    directories, and which is not itself a symbolic link (whether it exists or not) -/
structure RootOK (fs : FS) (root : List Name) : Prop where
  ne : root ≠ []
  comps_valid : ∀ c ∈ root, validName c = true
  above : ∀ k, 0 < k → k < root.length → ∃ a m, fs.get (root.take k) = some (.dir a m)
  not_link : ∀ t a m, fs.get root ≠ some (.symlink t a m)

theorem confined_iff_rep {d : Bytes} : Confined d ↔ ∃ cs, Rep d cs := by
  constructor
  · rintro (rfl | ⟨cs, hne, hv, rfl⟩)
    · exact ⟨[], rep_dot⟩
    · exact ⟨cs, hv, .inr ⟨hne, rfl⟩⟩
  · rintro ⟨cs, hv, ⟨_, rfl⟩ | ⟨hne, rfl⟩⟩
    · exact .inl rfl
    · exact .inr ⟨cs, hne, hv, rfl⟩

theorem rep_dirUp : ∀ (k : Nat) {d : Bytes} {cs : List Name}, Rep d cs →
    ∃ P, P <+: cs ∧ Rep (dirUp k d) P
  | 0, _, cs, h => ⟨cs, List.prefix_refl _, h⟩
  | k+1, _, cs, h => by
    obtain ⟨P, hP, hr⟩ := rep_dirUp k (rep_dirOf h)
    exact ⟨P, hP.trans (List.dropLast_prefix _), hr⟩

/-! ### paths under the destination -/

/-- every non-empty prefix, the path itself included, is a real directory -/
def AllDirs (fs : FS) (q : List Name) : Prop := ∀ Q R, q = Q ++ R → Q ≠ [] → IsDir (fs.get Q)

theorem normal_of_valid {P : List Name} (h : ∀ c ∈ P, validName c = true) : Normal P :=
  fun c hc => ⟨validName_ne_dot (h c hc), validName_ne_dotdot (h c hc)⟩

theorem not_prefix_of_shorter {a b : List Name} (h : b.length < a.length) : ¬ a <+: b :=
  fun hp => by have := hp.length_le; omega

theorem above_of_frame {fs0 fs : FS} {root : List Name} (hr : RootOK fs0 root) (hf : Frame root fs0 fs)
    {Q bs : List Name} (e : root = Q ++ bs) (hQ : Q ≠ []) (hbs : bs ≠ []) : IsDir (fs.get Q) := by
  have hl := congrArg List.length e
  simp at hl
  have h1 : 0 < Q.length := List.length_pos_iff.2 hQ
  have h2 : 0 < bs.length := List.length_pos_iff.2 hbs
  obtain ⟨a, m, hg⟩ := hr.above Q.length h1 (by omega)
  have ht : root.take Q.length = Q := by rw [e]; exact List.take_left' rfl
  rw [ht] at hg
  exact hf.isDir (not_prefix_of_shorter (by omega)) ⟨a, m, hg⟩

/-- the path `root ++ T` resolves straight when no proper prefix from `root` on is a link -/
theorem straight_of {fs0 fs : FS} {root T : List Name} (hr : RootOK fs0 root) (hf : Frame root fs0 fs)
    (hT : ∀ P', P' <+: T → P' ≠ T → NotLink (fs.get (root ++ P'))) : Straight fs (root ++ T) := by
  intro Q R e hQ hR
  simp only [List.nil_append]
  rcases List.append_eq_append_iff.1 e with ⟨as, rfl, rfl⟩ | ⟨bs, e1, e2⟩
  · refine hT as (List.prefix_append _ _) ?_
    intro h
    have := congrArg List.length h
    simp at this
    exact hR this
  · by_cases hbs : bs = []
    · subst hbs
      simp only [List.append_nil] at e1
      simp only [List.nil_append] at e2
      subst e1 e2
      have := hT [] (List.nil_prefix) (fun h => hR h.symm)
      simpa using this
    · exact (above_of_frame hr hf e1 hQ hbs).notLink

/-- directories recorded for a later `chtimes` -/
def TimesOK (root : List Name) (fs : FS) (ts : List (List Name × Nat)) : Prop :=
  ∀ q ∈ ts, root <+: q.1 ∧ Normal q.1 ∧ AllDirs fs q.1

theorem allDirs_step {dst q : List Name} {fs fs' : FS} (hf : Frame dst fs fs') (hq : AllDirs fs q)
    (hb : ∀ Q, Q <+: q → dst <+: Q → IsDir (fs'.get Q)) : AllDirs fs' q := by
  intro Q R e hQ
  by_cases hd : dst <+: Q
  · exact hb Q ⟨R, e.symm⟩ hd
  · exact hf.isDir hd (hq Q R e hQ)

theorem timesOK_step {root dst : List Name} {fs fs' : FS} {ts : List (List Name × Nat)}
    (hf : Frame dst fs fs') (ht : TimesOK root fs ts)
    (hb : ∀ q ∈ ts, ∀ Q, Q <+: q.1 → dst <+: Q → IsDir (fs'.get Q)) : TimesOK root fs' ts :=
  fun q hq => ⟨(ht q hq).1, (ht q hq).2.1, allDirs_step hf (ht q hq).2.2 (hb q hq)⟩

/-- a node that only goes through when `dst` is not a directory leaves the recorded directories alone -/
theorem timesOK_step_nondir {root dst : List Name} {fs fs' : FS} {ts : List (List Name × Nat)}
    (hne : dst ≠ []) (hf : Frame dst fs fs') (ht : TimesOK root fs ts) (hnd : ¬ IsDir (fs.get dst)) :
    TimesOK root fs' ts := by
  refine timesOK_step hf ht ?_
  intro q hq Q hQ hd
  exfalso
  obtain ⟨R, e⟩ := hd.trans hQ
  exact hnd ((ht q hq).2.2 dst R e.symm hne)

def isDirNode : Node → Prop
  | .dir .. => True
  | _ => False

/-! ### one node -/

theorem step_node (o : Opts) {fs0 : FS} {root : List Name} (hr : RootOK fs0 root) (s : LState) (n : Node)
    (T : List Name) (hname : pathOf (nodeName n) = T) (hTv : ∀ c ∈ T, validName c = true)
    (hf : Frame root fs0 s.fs) (hT : ∀ P', P' <+: T → P' ≠ T → NotLink (s.fs.get (root ++ P')))
    (ht : TimesOK root s.fs s.dirTimes) :
    Tri (Frame root fs0)
      (fun s' => Frame root fs0 s'.fs ∧ TimesOK root s'.fs s'.dirTimes ∧
        (∀ P', P' <+: T → P' ≠ T → NotLink (s'.fs.get (root ++ P'))) ∧
        (isDirNode n → NotLink (s'.fs.get (root ++ T))))
      (applyNode o root s n) := by
  have hS : Straight s.fs (root ++ T) := straight_of hr hf hT
  have hN : Normal (root ++ T) := normal_of_valid (by
    intro c hc
    rcases List.mem_append.1 hc with h | h
    · exact hr.comps_valid c h
    · exact hTv c h)
  have hne : root ++ T ≠ [] := by simp [hr.ne]
  have hpre : root <+: root ++ T := List.prefix_append _ _
  have hkeep : ∀ f : FS, Frame (root ++ T) s.fs f →
      ∀ P', P' <+: T → P' ≠ T → NotLink (f.get (root ++ P')) := by
    intro f hff P' hP hPne
    refine hff.notLink (not_prefix_of_shorter ?_) (hT P' hP hPne)
    have h1 := hP.length_le
    have h2 : P'.length ≠ T.length := fun h => hPne (hP.eq_of_length h)
    simp; omega
  have herr : ∀ f : FS, Frame (root ++ T) s.fs f → Frame root fs0 f :=
    fun f hff => hf.trans (hff.mono hpre)
  cases n with
  | dir name m =>
    simp only [nodeName] at hname
    have hdst : dstOf root name = root ++ T := by rw [dstOf_eq, hname]
    have := createDir_tri o root s name m (hdst ▸ hN) (hdst ▸ hne) (hdst ▸ hS)
    rw [hdst] at this
    refine this.mono herr ?_
    rintro s' ⟨hff, hbel, hdir, htimes⟩
    have hold : TimesOK root s'.fs s.dirTimes := by
      refine timesOK_step hff ht ?_
      intro q hq Q hQ hd
      by_cases hQe : Q = root ++ T
      · rw [hQe]; exact hdir
      · rw [hbel Q hd hQe]
        obtain ⟨R, e⟩ := hQ
        refine (ht q hq).2.2 Q R e.symm ?_
        rintro rfl
        exact hne (List.prefix_nil.1 hd)
    refine ⟨herr _ hff, ?_, hkeep _ hff, fun _ => hdir.notLink⟩
    rcases htimes with e | ⟨hpd, t, e⟩
    · rw [e]; exact hold
    · rw [e]
      intro q hq
      rcases List.mem_append.1 hq with hq | hq
      · exact hold q hq
      · simp only [List.mem_singleton] at hq
        subst hq
        refine ⟨hpre, hN, ?_⟩
        intro Q R e hQ
        by_cases hR : R = []
        · subst hR
          simp only [List.append_nil] at e
          rw [← e]; exact hdir
        · have := hpd Q R e hQ hR
          simpa using this
  | file name m sz data =>
    simp only [nodeName] at hname
    have hdst : dstOf root name = root ++ T := by rw [dstOf_eq, hname]
    have := createFile_tri o root s name m data (hdst ▸ hN) (hdst ▸ hS)
    rw [hdst] at this
    refine this.mono herr ?_
    rintro s' ⟨hff, htimes⟩
    refine ⟨herr _ hff, ?_, hkeep _ hff, fun h => h.elim⟩
    rw [htimes]
    intro q hq
    obtain ⟨hq, hnp⟩ := List.mem_filter.1 hq
    refine ⟨(ht q hq).1, (ht q hq).2.1, allDirs_step hff (ht q hq).2.2 ?_⟩
    intro Q hQ hd
    exfalso
    have : (root ++ T).isPrefixOf q.1 = true := List.isPrefixOf_iff_prefix.2 (hd.trans hQ)
    simp [this] at hnp
  | symlink name m target =>
    simp only [nodeName] at hname
    have hdst : dstOf root name = root ++ T := by rw [dstOf_eq, hname]
    have := createSymlink_tri o root s name m target (hdst ▸ hN) (hdst ▸ hS)
    rw [hdst] at this
    refine this.mono herr ?_
    rintro s' ⟨hff, hnd, htimes⟩
    refine ⟨herr _ hff, ?_, hkeep _ hff, fun h => h.elim⟩
    rw [htimes]
    exact timesOK_step_nondir hne hff ht hnd
  | device name m ma mi =>
    simp only [nodeName] at hname
    have hdst : dstOf root name = root ++ T := by rw [dstOf_eq, hname]
    have := createDevice_tri o root s name m ma.toNat mi.toNat (hdst ▸ hN) (hdst ▸ hS)
    rw [hdst] at this
    refine this.mono herr ?_
    rintro s' ⟨hff, hnd, htimes⟩
    refine ⟨herr _ hff, ?_, hkeep _ hff, fun h => h.elim⟩
    rw [htimes]
    exact timesOK_step_nondir hne hff ht hnd

/-! ### what the decoder facts say about the next destination -/

theorem proper_prefix_snoc {P' P : List Name} {c : Name} (h : P' <+: P) :
    P' <+: P ++ [c] ∧ P' ≠ P ++ [c] := by
  refine ⟨h.trans (List.prefix_append _ _), ?_⟩
  rintro rfl
  have := h.length_le
  simp at this
  omega

theorem child_like {a a' : ArchDec} {n : Node} {cs : List Name} {k : Nat} {c : Name}
    (hrep : Rep a.dir cs) (hc : validName c = true)
    (hdir : a'.dir = (match n with | .dir .. => nodeName n | _ => dirUp k a.dir))
    (hname : nodeName n = joinPath (dirUp k a.dir) c) :
    ∃ T cs', (∀ c ∈ T, validName c = true) ∧ pathOf (nodeName n) = T ∧ Rep a'.dir cs' ∧
      (∀ P', P' <+: T → P' ≠ T → P' <+: cs) ∧
      (∀ P', P' <+: cs' → (P' <+: T ∧ P' ≠ T) ∨ (P' = T ∧ isDirNode n)) := by
  obtain ⟨P, hP, hrP⟩ := rep_dirUp k hrep
  have hrn : Rep (nodeName n) (P ++ [c]) := hname ▸ rep_join hrP hc
  have hproper : ∀ P', P' <+: P ++ [c] → P' ≠ P ++ [c] → P' <+: cs := by
    intro P' h hne
    rcases List.prefix_concat_iff.1 h with h | h
    · exact absurd h hne
    · exact h.trans hP
  cases n with
  | dir nm m =>
    refine ⟨P ++ [c], P ++ [c], hrn.1, rep_pathOf hrn, ?_, hproper, ?_⟩
    · rw [hdir]; exact hrn
    · intro P' h
      rcases List.prefix_concat_iff.1 h with h | h
      · exact .inr ⟨h, trivial⟩
      · exact .inl (proper_prefix_snoc h)
  | file nm m sz data =>
    exact ⟨P ++ [c], P, hrn.1, rep_pathOf hrn, by rw [hdir]; exact hrP, hproper,
      fun P' h => .inl (proper_prefix_snoc h)⟩
  | symlink nm m t =>
    exact ⟨P ++ [c], P, hrn.1, rep_pathOf hrn, by rw [hdir]; exact hrP, hproper,
      fun P' h => .inl (proper_prefix_snoc h)⟩
  | device nm m ma mi =>
    exact ⟨P ++ [c], P, hrn.1, rep_pathOf hrn, by rw [hdir]; exact hrP, hproper,
      fun P' h => .inl (proper_prefix_snoc h)⟩

theorem isDirNode_iff {n : Node} : isDirNode n ↔ ∃ nm m, n = .dir nm m := by
  cases n <;> simp [isDirNode]

theorem dec_step (hd : DecFacts) {a a' : ArchDec} {n : Node} {cs : List Name}
    (hnext : a.next = .ok (some n, a')) (hrep : Rep a.dir cs)
    (h0 : a.nodes = 0 → cs = [] ∧ a.rootNotDir = false) :
    ∃ T cs', (∀ c ∈ T, validName c = true) ∧ pathOf (nodeName n) = T ∧ Rep a'.dir cs' ∧
      a'.nodes ≠ 0 ∧ a.rootNotDir = false ∧
      (∀ P', P' <+: T → P' ≠ T → P' <+: cs) ∧
      (a'.rootNotDir = false → ∀ P', P' <+: cs' → (P' <+: T ∧ P' ≠ T) ∨ (P' = T ∧ isDirNode n)) := by
  obtain ⟨hcnt, hcnt2⟩ := hd.counts a n a' hnext
  have hn' : a'.nodes ≠ 0 := by omega
  by_cases hz : a.nodes = 0
  · obtain ⟨rfl, hrnd⟩ := h0 hz
    rcases hd.first a n a' hnext hz hrnd with ⟨k, hname, hdir, hiff⟩ | ⟨_, k, c, hc, hname, hdir⟩
    · obtain ⟨P, hP, hrP⟩ := rep_dirUp k hrep
      have hPn : P = [] := List.prefix_nil.1 hP
      subst hPn
      refine ⟨[], [], by simp, ?_, hdir ▸ hrP, hn', hrnd, ?_, ?_⟩
      · rw [hname]; exact rep_pathOf hrP
      · intro P' h hne; exact absurd (List.prefix_nil.1 h) hne
      · intro hfalse P' h
        refine .inr ⟨List.prefix_nil.1 h, ?_⟩
        rw [isDirNode_iff]
        by_cases hnd : ∃ nm m, n = Node.dir nm m
        · exact hnd
        · have := hiff.2 hnd
          rw [hfalse] at this
          cases this
    · obtain ⟨T, cs', h1, h2, h3, h4, h5⟩ := child_like hrep hc hdir hname
      exact ⟨T, cs', h1, h2, h3, hn', hrnd, h4, fun _ => h5⟩
  · have hpos : 0 < a.nodes := Nat.pos_of_ne_zero hz
    obtain ⟨k, c, hc, hname, hdir⟩ := hd.child a n a' hnext hpos
    obtain ⟨T, cs', h1, h2, h3, h4, h5⟩ := child_like hrep hc hdir hname
    exact ⟨T, cs', h1, h2, h3, hn', (hcnt2 hpos).1, h4, fun _ => h5⟩

/-! ### `finish` -/

theorem straight_of_allDirs {fs : FS} {q : List Name} (h : AllDirs fs q) : Straight fs q := by
  intro Q R e hQ _
  simp only [List.nil_append]
  exact (h Q R e hQ).notLink

theorem finishFrom_frame {root : List Name} (hne : root ≠ []) :
    ∀ (ds : List (List Name × Nat)) (fs : FS), TimesOK root fs ds →
      Frame root fs (finishFrom fs ds).1
  | [], fs, _ => Frame.refl _ _
  | d :: ds, fs, ht => by
    unfold finishFrom
    cases hc : chtimes fs d.1 d.2 with
    | error e => exact Frame.refl _ _
    | ok fs' =>
      simp only
      obtain ⟨hpre, hN, hall⟩ := ht d (by simp)
      have hdne : d.1 ≠ [] := by
        rintro h
        rw [h] at hpre
        exact hne (List.prefix_nil.1 hpre)
      obtain ⟨oa, _⟩ := chtimes_ok hN (straight_of_allDirs hall)
        (fun _ => (hall d.1 [] (by simp) hdne).notLink) hc
      refine (oa.frame.mono hpre).trans (finishFrom_frame hne ds fs' ?_)
      intro q hq
      obtain ⟨h1, h2, h3⟩ := ht q (by simp [hq])
      refine ⟨h1, h2, ?_⟩
      intro Q R e hQ
      by_cases hQd : Q = d.1
      · rw [hQd]; exact oa.2.1 (hQd ▸ h3 Q R e hQ)
      · rw [oa.1 Q hQd]; exact h3 Q R e hQ

/-! ### the loop -/

structure Inv (fs0 : FS) (root : List Name) (a : ArchDec) (s : LState) : Prop where
  frame : Frame root fs0 s.fs
  times : TimesOK root s.fs s.dirTimes
  rep : ∃ cs, Rep a.dir cs ∧ (a.nodes = 0 → cs = [] ∧ a.rootNotDir = false) ∧
    (a.rootNotDir = false → ∀ P, P <+: cs → NotLink (s.fs.get (root ++ P)))

theorem untarLoop_frame (hd : DecFacts) (o : Opts) {fs0 : FS} {root : List Name} (hr : RootOK fs0 root) :
    ∀ (fuel : Nat) (a : ArchDec) (s : LState), Inv fs0 root a s →
      Frame root fs0 (untarLoop o root fuel a s).1
  | 0, _, _, h => h.frame
  | fuel + 1, a, s, h => by
    unfold untarLoop
    split
    · -- end of the archive
      unfold finish
      refine h.frame.trans (finishFrom_frame hr.ne _ _ ?_)
      intro q hq
      exact h.times q (List.mem_reverse.1 hq)
    · rename_i n a' hnext
      obtain ⟨cs, hrep, h0, hI1⟩ := h.rep
      obtain ⟨T, cs', hTv, hname, hrep', hn', hrnd, hprop, hnew⟩ := dec_step hd hnext hrep h0
      have hstep := step_node o hr s n T hname hTv h.frame
        (fun P' hP hPne => hI1 hrnd P' (hprop P' hP hPne)) h.times
      cases happ : applyNode o root s n with
      | error f =>
        rw [happ] at hstep
        exact hstep
      | ok s' =>
        rw [happ] at hstep
        obtain ⟨hf', ht', hkeep, hdirn⟩ := hstep
        refine untarLoop_frame hd o hr fuel a' s' ⟨hf', ht', cs', hrep', fun h => absurd h hn', ?_⟩
        intro hfalse P hP
        rcases hnew hfalse P hP with ⟨h1, h2⟩ | ⟨rfl, h2⟩
        · exact hkeep P h1 h2
        · exact hdirn h2
    · exact h.frame

/-! ### the theorem -/

/-- MAIN THEOREM (frame): whatever the archive bytes, whatever the file system held before (hostile symbolic links
    included), every object outside the destination is exactly what it was — except that the destination's parent
    directory may have got a new modification time because the destination itself was created or replaced in it -/
theorem untar_fs_confined (hd : DecFacts) (o : Opts) (root : List Name) (fs : FS) (b : Bytes) (h : RootOK fs root) :
    ∀ p : RPath, ¬ (root <+: p) →
      (p ≠ root.dropLast → ((untarFS o root fs b).1).get p = fs.get p) ∧
      (p = root.dropLast → ∃ a m m', fs.get p = some (.dir a m) ∧ ((untarFS o root fs b).1).get p = some (.dir a m') ∨
                              ((untarFS o root fs b).1).get p = fs.get p) := by
  have hframe : Frame root fs (untarFS o root fs b).1 := by
    unfold untarFS
    refine untarLoop_frame hd o h _ _ _ ⟨Frame.refl _ _, ?_, [], rep_dot, fun _ => ⟨rfl, rfl⟩, ?_⟩
    · intro q hq; cases hq
    · intro _ P hP
      rw [List.prefix_nil.1 hP, List.append_nil]
      exact h.not_link
  intro p hp
  rcases hframe p hp with e | ⟨hpe, a, m, m', e1, e2⟩
  · exact ⟨fun _ => e, fun _ => ⟨{}, none, none, .inr e⟩⟩
  · exact ⟨fun hne => absurd hpe hne, fun _ => ⟨a, m, m', .inl ⟨e1, e2⟩⟩⟩

/-! ### the statement is not vacuous -/

namespace Example

def nSrv : Bytes := [115, 114, 118]                           -- "srv"
def nDest : Bytes := [100, 101, 115, 116]                     -- "dest"
def nLink : Bytes := [108, 105, 110, 107]                     -- "link"
def nSub : Bytes := [115, 117, 98]                            -- "sub"
def nOutside : Bytes := [111, 117, 116, 115, 105, 100, 101]   -- "outside"
def tOutside : Bytes := [47, 111, 117, 116, 115, 105, 100, 101]               -- "/outside"

/-- attributes of /outside and of /srv before unpacking -/
def aOutside : Attr := { owner := some (1, 1), mode := some 0o700, xattrs := [] }
def aSrv : Attr := { owner := some (3, 3), mode := some 0o2775, xattrs := [([117, 115, 101, 114, 46, 120], [1])] }

/-- the destination /srv/dest exists and holds a hostile link /srv/dest/link -> /outside -/
def fsA : FS :=
  [([nOutside], .dir aOutside (some 2)), ([nSrv], .dir aSrv (some 4)), ([nSrv, nDest], .dir {} none),
   ([nSrv, nDest, nLink], .symlink tOutside {} none)]

/-- the destination /srv/dest does not exist yet -/
def fsB : FS := [([nOutside], .dir aOutside (some 2)), ([nSrv], .dir aSrv (some 4))]

def root : List Name := [nSrv, nDest]

/-- a directory holding a file "link" (abc), a directory "sub" and in it a symbolic link "x" -> /outside -/
def archive : Bytes :=
  encElem (.entry 64 Gen.TarFeatureFlags 0o40755 0 0 0 0) ++
  encElem (.filename (16 + 5) nLink) ++
  encElem (.entry 64 Gen.TarFeatureFlags 0o100644 0 0 0 5) ++
  encElem (.payload (16 + 3)) ++ [97, 98, 99] ++
  encElem (.filename (16 + 4) nSub) ++
  encElem (.entry 64 Gen.TarFeatureFlags 0o40755 0 0 0 7) ++
  encElem (.filename (16 + 2) [120]) ++
  encElem (.entry 64 Gen.TarFeatureFlags 0o120777 0 0 0 5) ++
  encElem (.symlink (16 + 9) tOutside) ++
  encElem (.goodbye (16 + 24) [⟨0, 0, Gen.CaFormatGoodbyeTailMarker⟩]) ++
  encElem (.goodbye (16 + 24) [⟨0, 0, Gen.CaFormatGoodbyeTailMarker⟩])

def opts : Opts := ⟨false, false⟩

theorem rootOK_of (fs : FS) (h1 : fs.get [nSrv] = some (.dir aSrv (some 4)))
    (h2 : ∀ t a m, fs.get root ≠ some (.symlink t a m)) : RootOK fs root where
  ne := by decide
  comps_valid := by decide
  above := by
    intro k h0 hk
    have : k = 1 := by simp [root] at hk; omega
    subst this
    exact ⟨_, _, h1⟩
  not_link := h2

theorem rootOK_A : RootOK fsA root := by
  refine rootOK_of fsA (by decide) ?_
  intro t a lm h
  have : fsA.get root = some (.dir {} none) := by decide
  rw [this] at h
  cases h

theorem rootOK_B : RootOK fsB root := by
  refine rootOK_of fsB (by decide) ?_
  intro t a lm h
  have : fsB.get root = none := by decide
  rw [this] at h
  cases h

/-- what `setPerms` leaves with these options: owner 0:0, the archived permission bits, no xattrs -/
def aDir : Attr := { owner := some (0, 0), mode := some 0o755, xattrs := [] }
def aFile : Attr := { owner := some (0, 0), mode := some 0o644, xattrs := [] }
def aLink : Attr := { owner := some (0, 0), mode := none, xattrs := [] }

/-- onto `fsA`: `UnTar` returns nil, the hostile link has been replaced by the file, the link of the archive exists, and
    /outside and /srv are what they were -/
example :
    (untarFS opts root fsA archive).2 = true ∧
    (untarFS opts root fsA archive).1.get [nSrv, nDest, nLink] = some (.file [97, 98, 99] aFile (some 5)) ∧
    (untarFS opts root fsA archive).1.get [nSrv, nDest, nSub] = some (.dir aDir (some 7)) ∧
    (untarFS opts root fsA archive).1.get [nSrv, nDest, nSub, [120]] = some (.symlink tOutside aLink (some 5)) ∧
    (untarFS opts root fsA archive).1.get [nOutside] = fsA.get [nOutside] ∧
    (untarFS opts root fsA archive).1.get [nSrv] = fsA.get [nSrv] := by
  decide +kernel

/-- onto `fsB`: the destination is created, and its parent /srv gets a new mtime (and keeps its owner, mode and
    xattrs) — the exception in the theorem is needed -/
example :
    (untarFS opts root fsB archive).2 = true ∧
    (untarFS opts root fsB archive).1.get [nSrv, nDest] = some (.dir aDir none) ∧
    (untarFS opts root fsB archive).1.get [nSrv, nDest, nLink] = some (.file [97, 98, 99] aFile (some 5)) ∧
    (untarFS opts root fsB archive).1.get [nOutside] = fsB.get [nOutside] ∧
    fsB.get [nSrv] = some (.dir aSrv (some 4)) ∧
    (untarFS opts root fsB archive).1.get [nSrv] = some (.dir aSrv none) := by
  decide +kernel

/-- the theorem applied: /outside is untouched whatever the archive -/
example (hd : DecFacts) (b : Bytes) : (untarFS opts root fsA b).1.get [nOutside] = fsA.get [nOutside] :=
  (untar_fs_confined hd opts root fsA b rootOK_A [nOutside] (by decide)).1 (by decide)

end Example

end Desync.LFS
