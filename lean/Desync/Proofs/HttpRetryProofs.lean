/-
  Proofs about `Model/Http.lean`: the retry loop, the truthful status mapping of
  `GetObject` / `HasChunk` / `StoreObject`, and the compression matrix.
-/
import Desync.Model.Http
import Desync.Properties.C03

namespace Desync.Http
open Desync

/-! ### the retry loop -/

theorem retryLoop_attempt_le (retry : Nat) (fuel : Nat) (rs : List Resp) (attempt : Nat) :
    attempt ≤ (retryLoop retry fuel rs attempt).2 := by
  induction fuel generalizing rs attempt with
  | zero => simp [retryLoop]
  | succ fuel ih =>
    unfold retryLoop
    simp only
    split
    · split
      · simp
      · exact Nat.le_trans (Nat.le_succ _) (ih rs.tail (attempt + 1))
    · simp

theorem retryLoop_attempt_ub (retry : Nat) (fuel : Nat) (rs : List Resp) (attempt : Nat) :
    (retryLoop retry fuel rs attempt).2 ≤ max retry (attempt + 1) := by
  induction fuel generalizing rs attempt with
  | zero => simp [retryLoop]; omega
  | succ fuel ih =>
    unfold retryLoop
    simp only
    split
    · split
      · simp only; omega
      · rename_i hlt
        have := ih rs.tail (attempt + 1)
        omega
    · simp only; omega

/-- the number of attempts is bounded by the retry budget (at least one attempt is always made) -/
theorem retry_bound (retry : Nat) (rs : List Resp) :
    1 ≤ (issueRetryable retry rs).2 ∧ (issueRetryable retry rs).2 ≤ max retry 1 := by
  constructor
  · unfold issueRetryable retryLoop
    simp only
    split
    · split
      · simp
      · exact retryLoop_attempt_le retry retry rs.tail (0 + 1)
    · simp
  · simpa [issueRetryable] using retryLoop_attempt_ub retry (retry + 1) rs 0

theorem retryLoop_masks (retry : Nat) (fails : List Resp) (c : Nat) (b : Bytes) (rest : List Resp)
    (hf : ∀ r ∈ fails, retryable r = true) (hc : ¬ (500 ≤ c ∧ c < 600))
    (fuel attempt : Nat) (hk : attempt + fails.length < retry) (hfuel : fails.length < fuel) :
    retryLoop retry fuel (fails ++ Resp.status c b :: rest) attempt
      = (.answer c b, attempt + fails.length + 1) := by
  induction fails generalizing fuel attempt with
  | nil =>
    cases fuel with
    | zero => simp at hfuel
    | succ fuel =>
      have hr : retryable (Resp.status c b) = false := by simp [retryable, hc]
      simp [retryLoop, hr]
  | cons f fails ih =>
    cases fuel with
    | zero => simp at hfuel
    | succ fuel =>
      have hr : retryable f = true := hf f List.mem_cons_self
      have hlt : ¬ (attempt + 1 ≥ retry) := by simp at hk ⊢; omega
      simp only [List.length_cons] at hk hfuel
      have := ih (fun r hr => hf r (List.mem_cons_of_mem _ hr)) fuel (attempt + 1)
        (by omega) (by omega)
      simp only [retryLoop, List.cons_append, List.headD_cons, hr, ↓reduceIte, hlt, List.tail_cons,
        this, List.length_cons]
      congr 1
      omega

/-- a run of k < retry transient failures (5xx or transport errors) followed by a final,
    non-retryable answer is invisible: the caller sees that answer, after k+1 attempts -/
theorem retry_masks_short_runs (retry : Nat) (fails : List Resp) (c : Nat) (b : Bytes) (rest : List Resp)
    (hf : ∀ r ∈ fails, retryable r = true) (hk : fails.length < retry) (hc : ¬ (500 ≤ c ∧ c < 600)) :
    issueRetryable retry (fails ++ Resp.status c b :: rest) = (.answer c b, fails.length + 1) := by
  unfold issueRetryable
  rw [retryLoop_masks retry fails c b rest hf hc (retry + 1) 0 (by omega) (by omega)]
  simp

theorem retryLoop_exhausted (retry : Nat) (fuel : Nat) (rs : List Resp) (attempt : Nat)
    (ha : attempt < max retry 1)
    (hr : ∀ i, attempt + i < max retry 1 → retryable (rs.getD i .transportErr) = true) :
    (retryLoop retry fuel rs attempt).1 = .error ∨ (retryLoop retry fuel rs attempt).1 = .answer 0 [] := by
  induction fuel generalizing rs attempt with
  | zero => simp [retryLoop]
  | succ fuel ih =>
    have h0 : retryable (rs.headD .transportErr) = true := by
      have := hr 0 (by simpa using ha)
      cases rs <;> simpa using this
    unfold retryLoop
    simp only [h0, ↓reduceIte]
    split
    · cases rs.headD Resp.transportErr <;> simp
    · rename_i hlt
      apply ih
      · omega
      · intro i hi
        have := hr (i + 1) (by omega)
        cases rs with
        | nil => simp [retryable]
        | cons x xs => simpa using this

/-- when the budget is exhausted by failures the result is never a usable answer: either an error,
    or the pseudo status 0 -/
theorem retry_exhausted (retry : Nat) (rs : List Resp)
    (hr : ∀ i, i < max retry 1 → retryable (rs.getD i .transportErr) = true) :
    (issueRetryable retry rs).1 = .error ∨ (issueRetryable retry rs).1 = .answer 0 [] := by
  unfold issueRetryable
  apply retryLoop_exhausted
  · omega
  · intro i hi; exact hr i (by simpa using hi)

theorem retryLoop_answer_mem (retry : Nat) (fuel : Nat) (rs : List Resp) (attempt : Nat) (c : Nat) (b : Bytes)
    (h : (retryLoop retry fuel rs attempt).1 = .answer c b) : (c = 0 ∧ b = []) ∨ Resp.status c b ∈ rs := by
  induction fuel generalizing rs attempt with
  | zero => simp [retryLoop] at h
  | succ fuel ih =>
    unfold retryLoop at h
    simp only at h
    split at h
    · split at h
      · generalize rs.headD Resp.transportErr = r at h
        cases r with
        | transportErr => simp at h
        | status c' b' =>
          simp only [RetryRes.answer.injEq] at h
          left; exact ⟨h.1.symm, h.2.symm⟩
      · rcases ih _ _ h with h' | h'
        · exact .inl h'
        · exact .inr (List.mem_of_mem_tail h')
    · cases rs with
      | nil => simp at h
      | cons x xs =>
        cases x with
        | transportErr => simp at h
        | status c' b' =>
          simp only [List.headD_cons, RetryRes.answer.injEq] at h
          right; rw [h.1, h.2]; exact List.mem_cons_self

/-- the final answer of the loop is one of the server's actual responses (nothing is invented),
    unless the budget ran out -/
theorem answer_is_a_response (retry : Nat) (rs : List Resp) (c : Nat) (b : Bytes)
    (h : (issueRetryable retry rs).1 = .answer c b) : (c = 0 ∧ b = []) ∨ Resp.status c b ∈ rs :=
  retryLoop_answer_mem retry (retry + 1) rs 0 c b h

/-! ### truthful status mapping -/

/-- **truthful status mapping**, GET: the object is reported present only for a final 200, missing
    only for a final 404, and everything else — other statuses, exhausted budget, transport errors —
    is an error (never "missing", never data) -/
theorem get_truthful (retry : Nat) (rs : List Resp) :
    (∀ b, getObject retry rs = .ok b → (issueRetryable retry rs).1 = .answer 200 b) ∧
    (getObject retry rs = .missing → ∃ b, (issueRetryable retry rs).1 = .answer 404 b) ∧
    ((issueRetryable retry rs).1 = .error ∨ (issueRetryable retry rs).1 = .answer 0 [] →
      getObject retry rs = .error) := by
  unfold getObject
  refine ⟨?_, ?_, ?_⟩
  · intro b h
    split at h <;> simp_all
  · intro h
    split at h <;> simp_all
  · rintro (h | h) <;> simp [h]

/-- everything that is neither a final 200 nor a final 404 is an error -/
theorem get_error_iff (retry : Nat) (rs : List Resp) :
    getObject retry rs = .error ↔
      ¬ (∃ b, (issueRetryable retry rs).1 = .answer 200 b) ∧
      ¬ (∃ b, (issueRetryable retry rs).1 = .answer 404 b) := by
  unfold getObject
  split <;> simp_all

/-- **truthful status mapping**, HEAD: present ⇔ final 200, absent ⇔ final 404, everything else —
    other statuses, exhausted budget, transport errors — is an error -/
theorem has_truthful (retry : Nat) (rs : List Resp) :
    (hasChunk retry rs = .present ↔ ∃ b, (issueRetryable retry rs).1 = .answer 200 b) ∧
    (hasChunk retry rs = .absent ↔ ∃ b, (issueRetryable retry rs).1 = .answer 404 b) ∧
    (hasChunk retry rs = .error ↔
      ¬ (∃ b, (issueRetryable retry rs).1 = .answer 200 b) ∧
      ¬ (∃ b, (issueRetryable retry rs).1 = .answer 404 b)) ∧
    ((issueRetryable retry rs).1 = .error ∨ (issueRetryable retry rs).1 = .answer 0 [] →
      hasChunk retry rs = .error) := by
  unfold hasChunk
  refine ⟨?_, ?_, ?_, ?_⟩
  · split <;> simp_all
  · split <;> simp_all
  · split <;> simp_all
  · rintro (h | h) <;> simp [h]

theorem store_truthful (retry : Nat) (rs : List Resp) :
    storeObject retry rs = true ↔
      ∃ b, (issueRetryable retry rs).1 = .answer 200 b ∨ (issueRetryable retry rs).1 = .answer 201 b := by
  unfold storeObject
  split
  · simp_all
  · rename_i c b h
    simp only [h, Bool.or_eq_true, decide_eq_true_eq, RetryRes.answer.injEq]
    constructor
    · rintro (h | h)
      · exact ⟨b, .inl ⟨h, rfl⟩⟩
      · exact ⟨b, .inr ⟨h, rfl⟩⟩
    · rintro ⟨b', (h | h)⟩
      · exact .inl h.1
      · exact .inr h.1

/-! ### compression matrix -/

/-- **compression matrix**: for every combination of client / chunk-server / upstream compression
    and verification on, a client GetChunk through a chunk server returns exactly the chunk's bytes
    or an error — never other bytes -/
theorem matrix_never_wrong (z : Zstd) (H : Bytes → Bytes) (cc sc uc : Bool) (id stored b : Bytes)
    (h : clientGet z H cc sc uc true id stored = .ok b) : H b = id := by
  unfold clientGet at h
  split at h
  · cases h
  · split at h
    · cases h
    · simp only [Bool.not_true] at h
      split at h
      · cases h
      · rename_i c hc
        split at h
        · rename_i b' hb'
          injection h with h; subst h
          exact C03.fromStorage_sound H z.dec id _ _ c hc _ hb'
        · cases h

/-- whenever client and server agree on the format and the stored object is the faithful encoding
    of `data`, the client gets `data` -/
theorem matrix_preserves (z : Zstd) (hz : ∀ x, z.dec (z.comp x) = some x) (H : Bytes → Bytes)
    (cc uc : Bool) (data : Bytes) (hne : data ≠ []) (hcomp : ∀ x, x ≠ [] → z.comp x ≠ []) :
    clientGet z H cc cc uc true (H data) (if uc then z.comp data else data) = .ok data := by
  have hbody : serverBody z cc uc (if uc then z.comp data else data)
      = some (if cc then z.comp data else data) := by
    cases cc <;> cases uc <;> simp [serverBody, hz]
  have hdl : data.length > 0 := List.length_pos_iff.mpr hne
  have hcl : (z.comp data).length > 0 := List.length_pos_iff.mpr (hcomp data hne)
  unfold clientGet
  simp only [ne_eq, not_true_eq_false, ↓reduceIte, hbody, Bool.not_true]
  cases cc
  · simp [newChunkFromStorage, ChunkObj.getID, ChunkObj.getData, fromStorage, hdl]
  · simp [newChunkFromStorage, ChunkObj.getID, ChunkObj.getData, fromStorage, hdl, hcl, hz]

end Desync.Http
