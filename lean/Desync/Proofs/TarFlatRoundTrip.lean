/-
  (5) A flat directory (a root directory with any number of regular files, symlinks and device
  nodes, all possibly carrying xattrs) written by `tarStream` is read back by `untar`.
-/
import Desync.Proofs.TarRoundTrip

namespace Desync

/-! ### statement vocabulary -/

/-- the node a leaf record unpacks to, as a child of the root -/
def leafNode (f : FileRec) : Node :=
  match f.kind with
  | .reg => .file f.base ⟨f.uid, f.gid, f.mode, f.mtime, f.xattrs⟩ f.size f.data
  | .symlink => .symlink f.base ⟨f.uid, f.gid, f.mode, f.mtime, f.xattrs⟩ f.target
  | .device => .device f.base ⟨f.uid, f.gid, f.mode, f.mtime, f.xattrs⟩ f.major f.minor
  | _ => .dir f.base ⟨f.uid, f.gid, f.mode, f.mtime, f.xattrs⟩   -- not used: leaves are never dirs

/-- xattrs as the encoder emits them: keys without NUL, pairwise distinct keys (sorted by key in the
    real code; distinctness is what the decoder's map needs), lengths in range -/
def XattrsOK (xs : List (Bytes × Bytes)) : Prop :=
  (∀ kv ∈ xs, (0 : UInt8) ∉ kv.1 ∧ kv.1.length + kv.2.length + 18 < 2^64) ∧ (xs.map Prod.fst).Nodup

/-- well-formed leaf child of `root` -/
def LeafOK (root f : FileRec) : Prop :=
  (f.kind = .reg ∨ f.kind = .symlink ∨ f.kind = .device) ∧ f.parent = root.path ∧
  validName f.base = true ∧ 16 + f.base.length + 1 < 2^64 ∧
  (f.kind = .reg → f.size = u64len f.data ∧ f.data.length < 2^63) ∧
  (f.kind = .symlink → 16 + f.target.length + 1 < 2^64) ∧
  XattrsOK f.xattrs

/-! ### closed form of the encoder's output -/

/-- the filename element announcing `f` in its parent directory -/
def fnameElem (f : FileRec) : Elem := .filename (UInt64.ofNat (16 + f.base.length + 1)) f.base

/-- what follows entry and xattrs of a leaf -/
def leafTail (f : FileRec) : Bytes :=
  match f.kind with
  | .reg => encElem (.payload (16 + f.size)) ++ f.data
  | .symlink => encElem (.symlink (UInt64.ofNat (16 + f.target.length + 1)) f.target)
  | .device => encElem (.device 32 f.major f.minor)
  | _ => []

/-- bytes `tarOne` writes for a leaf: entry, xattrs, then payload+data | symlink | device -/
def leafBody (f : FileRec) : Bytes :=
  encElem (entryElem f) ++ (encXattrs f.xattrs ++ leafTail f)

/-- bytes written for the leaf children of one directory -/
def childrenBytes : List FileRec → Bytes
  | [] => []
  | f :: cs => encElem (fnameElem f) ++ (leafBody f ++ childrenBytes cs)

def goodbyeElem (items : List GoodbyeItem) : Elem :=
  .goodbye (UInt64.ofNat (16 + items.length * 24)) items

/-- the archive of a flat directory, element by element; `items` is the goodbye table -/
def flatArchive (root : FileRec) (cs : List FileRec) (items : List GoodbyeItem) : Bytes :=
  encElem (entryElem root) ++ (encXattrs root.xattrs ++ (childrenBytes cs ++ encElem (goodbyeElem items)))

/-! ### the encoder side -/

/-- (`hreg`: the payload writer copies exactly `f.size` bytes and fails on shorter content, so
    `leafBody` describes a regular file's bytes only when size and content agree) -/
theorem tarOne_leaf (fuel : Nat) (f : FileRec) (rest : List FileRec)
    (hk : f.kind = .reg ∨ f.kind = .symlink ∨ f.kind = .device)
    (hreg : f.kind = .reg → f.size = u64len f.data ∧ f.data.length < 2^63) :
    tarOne (fuel + 1) f rest = some (leafBody f, rest) := by
  rw [tarOne]
  rcases hk with hk | hk | hk
  · obtain ⟨hsz, hdata⟩ := hreg hk
    simp [hk, leafBody, leafTail, List.append_assoc, not_short_of_u64len hsz hdata,
      take_size_of_u64len hsz hdata]
  · simp [hk, leafBody, leafTail, List.append_assoc]
  · simp [hk, leafBody, leafTail, List.append_assoc]

theorem tarChildren_leaves (dir : Bytes) (cs : List FileRec)
    (hcs : ∀ f ∈ cs, (f.kind = .reg ∨ f.kind = .symlink ∨ f.kind = .device) ∧ f.parent = dir ∧
      (f.kind = .reg → f.size = u64len f.data ∧ f.data.length < 2^63)) :
    ∀ (fuel n : Nat) (items : List GoodbyeItem), cs.length + 1 ≤ fuel →
      ∃ items', items'.length = items.length + cs.length ∧
        tarChildren fuel dir cs n items = some (childrenBytes cs, items', []) := by
  induction cs with
  | nil =>
    intro fuel n items hf
    obtain ⟨k, rfl⟩ : ∃ k, fuel = k + 1 := ⟨fuel - 1, by simp at hf; omega⟩
    exact ⟨items, by simp, by simp [tarChildren, childrenBytes]⟩
  | cons f cs ih =>
    intro fuel n items hf
    obtain ⟨k, rfl⟩ : ∃ k, fuel = k + 1 + 1 := ⟨fuel - 2, by simp at hf; omega⟩
    obtain ⟨hk, hp, hreg⟩ := hcs f (by simp)
    have hno : f.kind ≠ .other := by rcases hk with h | h | h <;> simp [h]
    obtain ⟨items', hlen, hrec⟩ := ih (fun g hg => hcs g (by simp [hg])) (k + 1)
      (n + ((encElem (fnameElem f)).length + (leafBody f).length))
      (items ++ [⟨UInt64.ofNat n,
        UInt64.ofNat ((encElem (fnameElem f)).length + (leafBody f).length), sipHashName f.base⟩])
      (by simp at hf; omega)
    refine ⟨items', by simp at hlen ⊢; omega, ?_⟩
    rw [tarChildren]
    simp only [hp, ne_eq, not_true_eq_false, ↓reduceIte, hno, tarOne_leaf k f cs hk hreg]
    simp only [fnameElem] at hrec
    simp only [hrec, childrenBytes, fnameElem, List.append_assoc]

/-- the encoder's output on a flat directory is `flatArchive` for some goodbye table of
    `children.length + 1` items ending in the tail marker -/
theorem tarStream_flat (root : FileRec) (cs : List FileRec) (hrk : root.kind = .dir)
    (hcs : ∀ f ∈ cs, (f.kind = .reg ∨ f.kind = .symlink ∨ f.kind = .device) ∧ f.parent = root.path ∧
      (f.kind = .reg → f.size = u64len f.data ∧ f.data.length < 2^63)) :
    ∃ items : List GoodbyeItem, ∃ hne : items ≠ [],
      (items.getLast hne).hash = Gen.CaFormatGoodbyeTailMarker ∧ items.length = cs.length + 1 ∧
      tarStream (root :: cs) = some (flatArchive root cs items) := by
  obtain ⟨its, hlen, hch⟩ := tarChildren_leaves root.path cs hcs (2 * (cs.length + 1) + 1)
    (encElem (entryElem root) ++ encXattrs root.xattrs).length [] (by omega)
  generalize hmap : its.map (fun (it : GoodbyeItem) =>
    ({ it with offset := UInt64.ofNat ((encElem (entryElem root) ++ encXattrs root.xattrs).length +
      (childrenBytes cs).length) - it.offset } : GoodbyeItem)) = mapped
  have hml : mapped.length = cs.length := by rw [← hmap]; simpa using hlen
  cases hb : makeGoodbyeBST mapped with
  | none => have := makeGoodbyeBST_isSome mapped; rw [hb] at this; cases this
  | some bst =>
    have hbl := makeGoodbyeBST_length mapped bst hb
    refine ⟨bst ++ [⟨UInt64.ofNat ((encElem (entryElem root) ++ encXattrs root.xattrs).length +
      (childrenBytes cs).length), UInt64.ofNat (16 + bst.length * 24 + 24),
      Gen.CaFormatGoodbyeTailMarker⟩], by simp, by simp, by simp; omega, ?_⟩
    simp only [tarStream, List.length_cons]
    rw [tarOne]
    simp only [hrk, reduceCtorEq, ↓reduceIte, hch, hmap, hb, Option.map_some, flatArchive,
      goodbyeElem, List.append_assoc]

/-! ### xattr helpers -/

theorem splitNul_enc (k v : Bytes) (hk : (0 : UInt8) ∉ k) : splitNul (k ++ [0] ++ v) = some (k, v) := by
  have hc : (k ++ [0] ++ v).contains 0 = true := by simp
  have ht : ∀ k : Bytes, (0 : UInt8) ∉ k → (k ++ [0] ++ v).takeWhile (· ≠ 0) = k := by
    intro k hk
    induction k with
    | nil => simp
    | cons x k ih =>
      have hx : x ≠ 0 := fun h => hk (by simp [h])
      have := ih (fun h => hk (by simp [h]))
      simp_all
  have hd : ∀ k : Bytes, (0 : UInt8) ∉ k → (k ++ [0] ++ v).dropWhile (· ≠ 0) = 0 :: v := by
    intro k hk
    induction k with
    | nil => simp
    | cons x k ih =>
      have hx : x ≠ 0 := fun h => hk (by simp [h])
      have := ih (fun h => hk (by simp [h]))
      simp_all
  unfold splitNul
  rw [if_pos hc, ht k hk, hd k hk]
  rfl

theorem mapSet_fresh (m : List (Bytes × Bytes)) (k v : Bytes) (h : k ∉ m.map Prod.fst) :
    mapSet m k v = m ++ [(k, v)] := by
  unfold mapSet
  rw [if_neg]
  simp only [List.any_eq_true, decide_eq_true_eq, not_exists, not_and]
  intro p hp hpk
  exact h (List.mem_map.mpr ⟨p, hp, hpk⟩)

/-- the decoder's xattr map after reading the elements of `xs` one by one -/
def xattrFold (acc xs : List (Bytes × Bytes)) : List (Bytes × Bytes) :=
  xs.foldl (fun m kv => mapSet m kv.1 kv.2) acc

theorem xattrFold_nodup (acc xs : List (Bytes × Bytes)) (h : ((acc ++ xs).map Prod.fst).Nodup) :
    xattrFold acc xs = acc ++ xs := by
  induction xs generalizing acc with
  | nil => simp [xattrFold]
  | cons kv xs ih =>
    have hfresh : kv.1 ∉ acc.map Prod.fst := by
      intro hm
      rw [List.map_append, List.nodup_append] at h
      exact h.2.2 _ hm _ (by simp) rfl
    have h' : (((acc ++ [kv]) ++ xs).map Prod.fst).Nodup := by simpa using h
    have := ih (acc ++ [kv]) h'
    simp only [xattrFold, List.foldl_cons] at this ⊢
    rw [mapSet_fresh _ _ _ hfresh, this]
    simp

theorem encXattrs_cons (k v : Bytes) (xs : List (Bytes × Bytes)) :
    encXattrs ((k, v) :: xs)
      = encElem (.xattr (u64len k + 1 + u64len v + 1 + 16) (k ++ [0] ++ v)) ++ encXattrs xs := by
  simp [encXattrs]

theorem encXattrs_length_ge (xs : List (Bytes × Bytes)) : xs.length ≤ (encXattrs xs).length := by
  induction xs with
  | nil => simp
  | cons kv xs ih =>
    obtain ⟨k, v⟩ := kv
    rw [encXattrs_cons, List.length_append, xattr_size, List.length_cons]
    omega

/-! ### more one-step lemmas for `ArchiveDecoder.Next` -/

/-- reading an element or taking it from `last` is the same thing -/
theorem archLoop_peek (fuel : Nat) (st s' : St) (dir : Bytes) (skip : Nat) (p : Pending) (e : Elem)
    (nd : Nat) (rnd : Bool)
    (hd : decNext st = .ok (some e, s')) :
    archLoop (fuel + 1) ⟨st, dir, none, skip, nd, rnd⟩ p
      = archLoop (fuel + 1) ⟨s', dir, some e, skip, nd, rnd⟩ p := by
  rw [archLoop, archLoop]
  simp [hd]

theorem archLoop_xattr (fuel : Nat) (st s' : St) (dir : Bytes) (skip : Nat)
    (e : UInt64 × UInt64 × UInt64 × UInt64) (xs : List (Bytes × Bytes)) (nm : Bytes)
    (sl : Option Bytes) (dv : Option (UInt64 × UInt64)) (sz : UInt64) (nv k v : Bytes) (nd : Nat) (rnd : Bool)
    (hd : decNext st = .ok (some (.xattr sz nv), s')) (hs : splitNul nv = some (k, v)) :
    archLoop (fuel + 1) ⟨st, dir, none, skip, nd, rnd⟩ ⟨some e, xs, nm, sl, dv⟩
      = archLoop fuel ⟨s', dir, none, skip, nd, rnd⟩ ⟨some e, mapSet xs k v, nm, sl, dv⟩ := by
  rw [archLoop]
  simp [hd, hs]

theorem archLoop_symlink (fuel : Nat) (st s' : St) (dir : Bytes) (skip : Nat)
    (e : UInt64 × UInt64 × UInt64 × UInt64) (xs : List (Bytes × Bytes)) (nm : Bytes)
    (sl : Option Bytes) (dv : Option (UInt64 × UInt64)) (sz : UInt64) (t : Bytes) (nd : Nat) (rnd : Bool)
    (hd : decNext st = .ok (some (.symlink sz t), s')) :
    archLoop (fuel + 1) ⟨st, dir, none, skip, nd, rnd⟩ ⟨some e, xs, nm, sl, dv⟩
      = archLoop fuel ⟨s', dir, none, skip, nd, rnd⟩ ⟨some e, xs, nm, some t, dv⟩ := by
  rw [archLoop]
  simp [hd]

theorem archLoop_device (fuel : Nat) (st s' : St) (dir : Bytes) (skip : Nat)
    (e : UInt64 × UInt64 × UInt64 × UInt64) (xs : List (Bytes × Bytes)) (nm : Bytes)
    (sl : Option Bytes) (dv : Option (UInt64 × UInt64)) (sz ma mi : UInt64) (nd : Nat) (rnd : Bool)
    (hd : decNext st = .ok (some (.device sz ma mi), s')) :
    archLoop (fuel + 1) ⟨st, dir, none, skip, nd, rnd⟩ ⟨some e, xs, nm, sl, dv⟩
      = archLoop fuel ⟨s', dir, none, skip, nd, rnd⟩ ⟨some e, xs, nm, sl, some (ma, mi)⟩ := by
  rw [archLoop]
  simp [hd]

/-- the elements that complete a pending entry: the next filename, or the goodbye table -/
def IsTerm (e : Elem) : Prop := (∃ sz n, e = .filename sz n) ∨ (∃ sz items, e = .goodbye sz items)

/-- a terminator completes a pending directory entry ... -/
theorem archLoop_term_dir (fuel : Nat) (st s' : St) (dir : Bytes) (skip : Nat)
    (e : UInt64 × UInt64 × UInt64 × UInt64) (xs : List (Bytes × Bytes)) (nm : Bytes) (t : Elem)
    (nd : Nat) (hadm : nd = 0 ∨ nm ≠ [])
    (ht : IsTerm t) (hd : decNext st = .ok (some t, s')) :
    archLoop (fuel + 1) ⟨st, dir, none, skip, nd, false⟩ ⟨some e, xs, nm, none, none⟩
      = .ok (some (.dir (joinPath dir nm) (Pending.meta ⟨some e, xs, nm, none, none⟩)),
          ⟨s', joinPath dir nm, some t, skip, nd + 1, false⟩) := by
  rw [archLoop]
  rcases ht with ⟨sz, n, rfl⟩ | ⟨sz, items, rfl⟩ <;> rcases hadm with h | h <;>
    simp [hd, ArchDec.admit, h]

/-- ... a pending symlink ... -/
theorem archLoop_term_symlink (fuel : Nat) (st s' : St) (dir : Bytes) (skip : Nat)
    (e : UInt64 × UInt64 × UInt64 × UInt64) (xs : List (Bytes × Bytes)) (nm tg : Bytes) (t : Elem)
    (nd : Nat) (hnm : nm ≠ [])
    (ht : IsTerm t) (hd : decNext st = .ok (some t, s')) :
    archLoop (fuel + 1) ⟨st, dir, none, skip, nd, false⟩ ⟨some e, xs, nm, some tg, none⟩
      = .ok (some (.symlink (joinPath dir nm) (Pending.meta ⟨some e, xs, nm, some tg, none⟩) tg),
          ⟨s', dir, some t, skip, nd + 1, false⟩) := by
  rw [archLoop]
  rcases ht with ⟨sz, n, rfl⟩ | ⟨sz, items, rfl⟩ <;> simp [hd, ArchDec.admit, hnm]

/-- ... and a pending device node -/
theorem archLoop_term_device (fuel : Nat) (st s' : St) (dir : Bytes) (skip : Nat)
    (e : UInt64 × UInt64 × UInt64 × UInt64) (xs : List (Bytes × Bytes)) (nm : Bytes)
    (sl : Option Bytes) (ma mi : UInt64) (t : Elem)
    (nd : Nat) (hnm : nm ≠ [])
    (ht : IsTerm t) (hd : decNext st = .ok (some t, s')) :
    archLoop (fuel + 1) ⟨st, dir, none, skip, nd, false⟩ ⟨some e, xs, nm, sl, some (ma, mi)⟩
      = .ok (some (.device (joinPath dir nm) (Pending.meta ⟨some e, xs, nm, sl, some (ma, mi)⟩) ma mi),
          ⟨s', dir, some t, skip, nd + 1, false⟩) := by
  rw [archLoop]
  rcases ht with ⟨sz, n, rfl⟩ | ⟨sz, items, rfl⟩ <;> cases sl <;> simp [hd, ArchDec.admit, hnm]

theorem archLoop_last_goodbye (fuel : Nat) (st : St) (dir : Bytes) (skip : Nat)
    (xs : List (Bytes × Bytes)) (nm : Bytes) (sl : Option Bytes) (dv : Option (UInt64 × UInt64))
    (sz : UInt64) (items : List GoodbyeItem) (nd : Nat) (rnd : Bool) :
    archLoop (fuel + 1) ⟨st, dir, some (.goodbye sz items), skip, nd, rnd⟩ ⟨none, xs, nm, sl, dv⟩
      = archLoop fuel ⟨st, dirOf dir, none, skip, nd, rnd⟩ ⟨none, xs, nm, sl, dv⟩ := by
  rw [archLoop]
  simp

/-- all xattr elements of an entry, in one go -/
theorem archLoop_xattrs (xs : List (Bytes × Bytes))
    (hx : ∀ kv ∈ xs, (0 : UInt8) ∉ kv.1 ∧ kv.1.length + kv.2.length + 18 < 2^64)
    (fuel : Nat) (r : Bytes) (dir : Bytes) (skip : Nat)
    (e : UInt64 × UInt64 × UInt64 × UInt64) (nm : Bytes)
    (sl : Option Bytes) (dv : Option (UInt64 × UInt64)) (a : Nat) (acc : List (Bytes × Bytes))
    (nd : Nat) (rnd : Bool) :
    ∃ a', archLoop (fuel + xs.length) ⟨⟨encXattrs xs ++ r, a⟩, dir, none, skip, nd, rnd⟩
        ⟨some e, acc, nm, sl, dv⟩
      = archLoop fuel ⟨⟨r, a'⟩, dir, none, skip, nd, rnd⟩ ⟨some e, xattrFold acc xs, nm, sl, dv⟩ := by
  induction xs generalizing a acc with
  | nil => exact ⟨a, by simp [encXattrs, xattrFold]⟩
  | cons kv xs ih =>
    obtain ⟨k, v⟩ := kv
    obtain ⟨hk, hl⟩ := hx (k, v) (by simp)
    obtain ⟨a', h'⟩ := ih (fun kv h => hx kv (by simp [h])) (a + k.length + v.length + 2) (mapSet acc k v)
    refine ⟨a', ?_⟩
    have hd := decNext_xattr_enc k v (encXattrs xs ++ r) a hl
    rw [encXattrs_cons, List.append_assoc, List.length_cons, ← Nat.add_assoc,
      archLoop_xattr (hd := hd) (hs := splitNul_enc k v hk), h']
    rfl

/-! ### one leaf child -/

theorem leafBody_length_ge (f : FileRec) : f.xattrs.length + 64 ≤ (leafBody f).length := by
  have := encXattrs_length_ge f.xattrs
  simp only [leafBody, List.length_append, (entryElem_size f).1]
  omega

/-- `Next` with the leaf's filename pending, on the leaf's bytes followed by `R`, where `R` starts
    with the terminator `t`: the leaf's node comes out; a regular file leaves the decoder in front
    of `R`, a symlink or device node leaves it behind `t` with `t` as look-ahead -/
theorem archLoop_leaf (root f : FileRec) (hf : LeafOK root f) (sz : UInt64) (t : Elem) (ht : IsTerm t)
    (R R' : Bytes) (hdt : ∀ a, ∃ a', decNext ⟨R, a⟩ = .ok (some t, ⟨R', a'⟩))
    (a F : Nat) (hF : f.xattrs.length + 4 ≤ F) (nd : Nat) :
    ∃ s', archLoop F ⟨⟨leafBody f ++ R, a⟩, [dot], some (.filename sz f.base), 0, nd, false⟩
              ⟨none, [], [], none, none⟩ = .ok (some (leafNode f), s') ∧
      ((∃ a', s' = ⟨⟨R, a'⟩, [dot], none, 0, nd + 1, false⟩) ∨
       (∃ a', s' = ⟨⟨R', a'⟩, [dot], some t, 0, nd + 1, false⟩)) := by
  obtain ⟨hkind, _, hname, _, hreg, hsym, hxa, hnd⟩ := hf
  have hne := validName_ne_nil hname
  have hfold : xattrFold [] f.xattrs = f.xattrs := by
    simpa using xattrFold_nodup [] f.xattrs (by simpa using hnd)
  rcases hkind with hk | hk | hk
  · -- regular file
    obtain ⟨hsz, hdata⟩ := hreg hk
    obtain ⟨h1, h2⟩ := payload_size_facts f.data hdata
    obtain ⟨k, rfl⟩ : ∃ k, F = k + 1 + f.xattrs.length + 1 + 1 :=
      ⟨F - (f.xattrs.length + 3), by omega⟩
    have hbody : leafBody f ++ R
        = encElem (.entry 64 Gen.TarFeatureFlags f.mode 0 f.uid f.gid f.mtime) ++
            (encXattrs f.xattrs ++ (encElem (.payload (16 + f.size)) ++ (f.data ++ R))) := by
      simp only [leafBody, leafTail, hk, entryElem, List.append_assoc]
    obtain ⟨a', hx⟩ := archLoop_xattrs f.xattrs hxa (k + 1)
      (encElem (.payload (16 + f.size)) ++ (f.data ++ R)) [dot] 0
      (f.mode, f.uid, f.gid, f.mtime) f.base none none a [] nd false
    have hd2 := decNext_payload_enc (16 + f.size) (f.data ++ R) a'
      (by rw [hsz, h1]; omega) (by rw [hsz, h1]; omega)
    have hp : takePayload ((16 + f.size).toNat - 16) ⟨f.data ++ R, a'⟩ = .ok (f.data, ⟨R, a'⟩) := by
      rw [hsz, h1, Nat.add_sub_cancel_left]
      exact takePayload_append _ _ _
    refine ⟨_, ?_, Or.inl ⟨a', rfl⟩⟩
    rw [hbody, archLoop_last_filename (hn := hname),
      archLoop_entry (hd := decNext_entry_enc ..), hx, archLoop_payload (hnm := hne) (hd := hd2) (ht := hp)]
    simp [leafNode, hk, joinPath, Pending.meta, hne, hfold, hsz, h2]
  · -- symlink
    have hts := hsym hk
    obtain ⟨k, rfl⟩ : ∃ k, F = k + 1 + 1 + f.xattrs.length + 1 + 1 :=
      ⟨F - (f.xattrs.length + 4), by omega⟩
    have hbody : leafBody f ++ R
        = encElem (.entry 64 Gen.TarFeatureFlags f.mode 0 f.uid f.gid f.mtime) ++
            (encXattrs f.xattrs ++
              (encElem (.symlink (UInt64.ofNat (16 + f.target.length + 1)) f.target) ++ R)) := by
      simp only [leafBody, leafTail, hk, entryElem, List.append_assoc]
    obtain ⟨a', hx⟩ := archLoop_xattrs f.xattrs hxa (k + 1 + 1)
      (encElem (.symlink (UInt64.ofNat (16 + f.target.length + 1)) f.target) ++ R) [dot] 0
      (f.mode, f.uid, f.gid, f.mtime) f.base none none a [] nd false
    have hd2 := decNext_symlink_enc f.target R a' hts
    obtain ⟨a'', hd3⟩ := hdt (a' + f.target.length + 1)
    refine ⟨_, ?_, Or.inr ⟨a'', rfl⟩⟩
    rw [hbody, archLoop_last_filename (hn := hname),
      archLoop_entry (hd := decNext_entry_enc ..), hx, archLoop_symlink (hd := hd2),
      archLoop_term_symlink (hnm := hne) (ht := ht) (hd := hd3)]
    simp [leafNode, hk, joinPath, Pending.meta, hne, hfold]
  · -- device node
    obtain ⟨k, rfl⟩ : ∃ k, F = k + 1 + 1 + f.xattrs.length + 1 + 1 :=
      ⟨F - (f.xattrs.length + 4), by omega⟩
    have hbody : leafBody f ++ R
        = encElem (.entry 64 Gen.TarFeatureFlags f.mode 0 f.uid f.gid f.mtime) ++
            (encXattrs f.xattrs ++ (encElem (.device 32 f.major f.minor) ++ R)) := by
      simp only [leafBody, leafTail, hk, entryElem, List.append_assoc]
    obtain ⟨a', hx⟩ := archLoop_xattrs f.xattrs hxa (k + 1 + 1)
      (encElem (.device 32 f.major f.minor) ++ R) [dot] 0
      (f.mode, f.uid, f.gid, f.mtime) f.base none none a [] nd false
    have hd2 := decNext_device_enc f.major f.minor R a'
    obtain ⟨a'', hd3⟩ := hdt a'
    refine ⟨_, ?_, Or.inr ⟨a'', rfl⟩⟩
    rw [hbody, archLoop_last_filename (hn := hname),
      archLoop_entry (hd := decNext_entry_enc ..), hx, archLoop_device (hd := hd2),
      archLoop_term_device (hnm := hne) (ht := ht) (hd := hd3)]
    simp [leafNode, hk, joinPath, Pending.meta, hne, hfold]

/-! ### the decoder between two calls of `Next` -/

/-- the element the children's bytes (followed by the goodbye table) start with ... -/
def headElem (cs : List FileRec) (items : List GoodbyeItem) : Elem :=
  match cs with
  | [] => goodbyeElem items
  | c :: _ => fnameElem c

/-- ... and what follows it -/
def tailBytes (cs : List FileRec) (items : List GoodbyeItem) : Bytes :=
  match cs with
  | [] => []
  | c :: cs => leafBody c ++ (childrenBytes cs ++ encElem (goodbyeElem items))

theorem headElem_isTerm (cs : List FileRec) (items : List GoodbyeItem) : IsTerm (headElem cs items) := by
  cases cs with
  | nil => exact Or.inr ⟨_, _, rfl⟩
  | cons c cs => exact Or.inl ⟨_, _, rfl⟩

/-- the goodbye table the decoder needs: non-empty, ending in the tail marker, size in range -/
def TableOK (items : List GoodbyeItem) : Prop :=
  (∃ hne : items ≠ [], (items.getLast hne).hash = Gen.CaFormatGoodbyeTailMarker) ∧
    16 + items.length * 24 < 2 ^ 64

theorem decNext_head (root : FileRec) (cs : List FileRec) (items : List GoodbyeItem)
    (hcs : ∀ f ∈ cs, LeafOK root f) (hit : TableOK items) (a : Nat) :
    ∃ a', decNext ⟨childrenBytes cs ++ encElem (goodbyeElem items), a⟩
      = .ok (some (headElem cs items), ⟨tailBytes cs items, a'⟩) := by
  cases cs with
  | nil =>
    obtain ⟨⟨hne, htail⟩, hlen⟩ := hit
    have := decNext_goodbye_enc items [] a hne htail hlen
    rw [List.append_nil] at this
    exact ⟨_, by simpa [childrenBytes, headElem, tailBytes, goodbyeElem] using this⟩
  | cons c cs =>
    obtain ⟨_, _, _, hbase, _⟩ := hcs c (by simp)
    have := decNext_filename_enc c.base (leafBody c ++ (childrenBytes cs ++ encElem (goodbyeElem items))) a hbase
    exact ⟨_, by simpa [childrenBytes, headElem, tailBytes, fnameElem, List.append_assoc] using this⟩

/-- decoder states in the root directory in front of the children `cs`: either nothing has been
    read of them, or their first element has been read as look-ahead -/
def Ready (cs : List FileRec) (items : List GoodbyeItem) (s : ArchDec) : Prop :=
  (∃ a nd, s = ⟨⟨childrenBytes cs ++ encElem (goodbyeElem items), a⟩, [dot], none, 0, nd, false⟩) ∨
  (∃ a nd, s = ⟨⟨tailBytes cs items, a⟩, [dot], some (headElem cs items), 0, nd, false⟩)

theorem next_leaf (root c : FileRec) (cs : List FileRec) (items : List GoodbyeItem)
    (hc : LeafOK root c) (hcs : ∀ f ∈ cs, LeafOK root f) (hit : TableOK items)
    (s : ArchDec) (hs : Ready (c :: cs) items s) :
    ∃ s', s.next = .ok (some (leafNode c), s') ∧ Ready cs items s' := by
  have hlen := leafBody_length_ge c
  rcases hs with ⟨a, nd, rfl⟩ | ⟨a, nd, rfl⟩
  · obtain ⟨a1, hd⟩ := decNext_head root (c :: cs) items
      (by intro f hf; rcases List.mem_cons.mp hf with rfl | h; exact hc; exact hcs f h) hit a
    obtain ⟨s', h, hr⟩ := archLoop_leaf root c hc (UInt64.ofNat (16 + c.base.length + 1))
      (headElem cs items) (headElem_isTerm cs items) _ (tailBytes cs items)
      (decNext_head root cs items hcs hit) a1
      ((childrenBytes (c :: cs) ++ encElem (goodbyeElem items)).length + 2)
      (by simp only [childrenBytes, List.length_append]; omega) nd
    have hr : Ready cs items s' := by
      rcases hr with ⟨a', rfl⟩ | ⟨a', rfl⟩
      · exact Or.inl ⟨a', _, rfl⟩
      · exact Or.inr ⟨a', _, rfl⟩
    refine ⟨s', ?_, hr⟩
    unfold ArchDec.next
    show archLoop (_ + 1 + 1) _ ⟨none, [], [], none, none⟩ = _
    rw [archLoop_peek (hd := hd)]
    exact h
  · obtain ⟨s', h, hr⟩ := archLoop_leaf root c hc (UInt64.ofNat (16 + c.base.length + 1))
      (headElem cs items) (headElem_isTerm cs items) _ (tailBytes cs items)
      (decNext_head root cs items hcs hit) a
      ((tailBytes (c :: cs) items).length + 2)
      (by simp only [tailBytes, List.length_append]; omega) nd
    have hr : Ready cs items s' := by
      rcases hr with ⟨a', rfl⟩ | ⟨a', rfl⟩
      · exact Or.inl ⟨a', _, rfl⟩
      · exact Or.inr ⟨a', _, rfl⟩
    exact ⟨s', h, hr⟩

theorem next_end (items : List GoodbyeItem) (hit : TableOK items) (s : ArchDec)
    (hs : Ready [] items s) : ∃ s', s.next = .ok (none, s') := by
  rcases hs with ⟨a, nd, rfl⟩ | ⟨a, nd, rfl⟩
  · obtain ⟨⟨hne, htail⟩, hlen⟩ := hit
    exact ⟨_, next_goodbye_end items a nd false hne htail hlen⟩
  · refine ⟨⟨⟨[], a⟩, dirOf [dot], none, 0, nd, false⟩, ?_⟩
    unfold ArchDec.next
    show archLoop (0 + 1 + 1) ⟨⟨[], a⟩, [dot], some (.goodbye _ items), 0, nd, false⟩
      ⟨none, [], [], none, none⟩ = _
    rw [archLoop_last_goodbye, archLoop_eof (hd := decNext_nil a)]

theorem untarNodes_ready (root : FileRec) (items : List GoodbyeItem) (hit : TableOK items)
    (cs : List FileRec) (hcs : ∀ f ∈ cs, LeafOK root f) :
    ∀ (fuel : Nat) (s : ArchDec) (acc : List Node), cs.length + 1 ≤ fuel → Ready cs items s →
      untarNodes fuel s acc = .ok (acc.reverse ++ cs.map leafNode) := by
  induction cs with
  | nil =>
    intro fuel s acc hf hs
    obtain ⟨k, rfl⟩ : ∃ k, fuel = k + 1 := ⟨fuel - 1, by simp at hf; omega⟩
    obtain ⟨s', h⟩ := next_end items hit s hs
    rw [untarNodes, h]
    simp
  | cons c cs ih =>
    intro fuel s acc hf hs
    obtain ⟨k, rfl⟩ : ∃ k, fuel = k + 1 := ⟨fuel - 1, by simp at hf; omega⟩
    obtain ⟨s', h, hr⟩ := next_leaf root c cs items (hcs c (by simp))
      (fun f hf => hcs f (by simp [hf])) hit s hs
    rw [untarNodes, h]
    simp only [Res.ok_bind]
    rw [ih (fun f hf => hcs f (by simp [hf])) k s' (leafNode c :: acc) (by simp at hf; omega) hr]
    simp

/-! ### the root entry -/

theorem next_flat_root (root : FileRec) (cs : List FileRec) (items : List GoodbyeItem)
    (hrx : XattrsOK root.xattrs) (hcs : ∀ f ∈ cs, LeafOK root f) (hit : TableOK items) :
    ∃ s', ArchDec.next ⟨⟨flatArchive root cs items, 0⟩, [dot], none, 0, 0, false⟩
        = .ok (some (.dir [dot] ⟨root.uid, root.gid, root.mode, root.mtime, root.xattrs⟩), s') ∧
      Ready cs items s' := by
  obtain ⟨hxa, hnd⟩ := hrx
  have hfold : xattrFold [] root.xattrs = root.xattrs := by
    simpa using xattrFold_nodup [] root.xattrs (by simpa using hnd)
  have hxl := encXattrs_length_ge root.xattrs
  obtain ⟨k, hk⟩ : ∃ k, (flatArchive root cs items).length + 2 = k + 1 + root.xattrs.length + 1 :=
    ⟨(flatArchive root cs items).length - root.xattrs.length, by
      simp only [flatArchive, List.length_append, (entryElem_size root).1]; omega⟩
  obtain ⟨a', hx⟩ := archLoop_xattrs root.xattrs hxa (k + 1)
    (childrenBytes cs ++ encElem (goodbyeElem items)) [dot] 0
    (root.mode, root.uid, root.gid, root.mtime) [] none none 0 [] 0 false
  obtain ⟨a'', hd⟩ := decNext_head root cs items hcs hit a'
  refine ⟨_, ?_, Or.inr ⟨a'', 1, rfl⟩⟩
  unfold ArchDec.next
  show archLoop ((flatArchive root cs items).length + 2) _ ⟨none, [], [], none, none⟩ = _
  rw [hk]
  simp only [flatArchive, entryElem]
  rw [archLoop_entry (hd := decNext_entry_enc ..), hx,
    archLoop_term_dir (hadm := .inl rfl) (ht := headElem_isTerm cs items) (hd := hd)]
  simp [joinPath, Pending.meta, hfold]

theorem childrenBytes_length_ge (cs : List FileRec) : cs.length ≤ (childrenBytes cs).length := by
  induction cs with
  | nil => simp
  | cons c cs ih =>
    have := leafBody_length_ge c
    simp only [childrenBytes, List.length_append, List.length_cons]
    omega

theorem untar_flatArchive (root : FileRec) (cs : List FileRec) (items : List GoodbyeItem)
    (hrx : XattrsOK root.xattrs) (hcs : ∀ f ∈ cs, LeafOK root f) (hit : TableOK items) :
    untar (flatArchive root cs items)
      = .ok (.dir [dot] ⟨root.uid, root.gid, root.mode, root.mtime, root.xattrs⟩ :: cs.map leafNode) := by
  obtain ⟨s', h, hr⟩ := next_flat_root root cs items hrx hcs hit
  have hl := childrenBytes_length_ge cs
  obtain ⟨k, hk⟩ : ∃ k, (flatArchive root cs items).length + 2 = k + 1 ∧ cs.length + 1 ≤ k :=
    ⟨(flatArchive root cs items).length + 1, rfl, by
      simp only [flatArchive, List.length_append]; omega⟩
  unfold untar
  rw [hk.1, untarNodes]
  show (ArchDec.next ⟨⟨flatArchive root cs items, 0⟩, [dot], none, 0, 0, false⟩ >>= _) = _
  rw [h]
  simp only [Res.ok_bind]
  rw [untarNodes_ready root items hit cs hcs k s' _ hk.2 hr]
  simp

/-! ### the round trip -/

/-- (5) flat-directory round trip: a root directory with any number of regular files, symlinks and
    device nodes, xattrs everywhere.  The only global bound the decoder needs is that the goodbye
    table's size field does not wrap; the offsets in the table are not read by `untar`. -/
theorem untar_tar_flat (root : FileRec) (children : List FileRec)
    (hrk : root.kind = .dir) (hrx : XattrsOK root.xattrs)
    (hch : ∀ f ∈ children, LeafOK root f)
    (hsize : 16 + (children.length + 1) * 24 < 2 ^ 64) :
    ∃ b, tarStream (root :: children) = some b ∧
      untar b = .ok (.dir [dot] ⟨root.uid, root.gid, root.mode, root.mtime, root.xattrs⟩ ::
        children.map leafNode) := by
  obtain ⟨items, hne, htail, hlen, htar⟩ := tarStream_flat root children hrk
    (fun f hf => ⟨(hch f hf).1, (hch f hf).2.1, (hch f hf).2.2.2.2.1⟩)
  exact ⟨_, htar, untar_flatArchive root children items hrx hch ⟨⟨hne, htail⟩, by rw [hlen]; exact hsize⟩⟩

end Desync
