/-
  `RemoteSSH` pool machine with HONEST servers (`hstep`): a caller's result is the verdict on its own
  request or a transport failure.  Invariant: a session nobody waits on has nothing unread; a session
  somebody waits on has nothing, the whole answer to THAT caller's request, or a cut prefix of it.
-/
import Desync.Proofs.SshPoolResults

namespace Desync.SshPool
open Desync

/-- what an honest world lets a caller see for `id`: the verdict on the store's answer for `id`, or a
    transport failure (`ReadMessage` failed / the request could not be written) -/
def Good (E : PS.Env) (id : Bytes) (r : PS.CRes) : Prop :=
  PS.verdict E id = some r ∨ (∃ e, r = .fail (.read e)) ∨ r = .fail .send

/-- the unread bytes of a session on which a request for `id` is outstanding -/
def PendOk (E : PS.Env) (id : Bytes) (x : Sess) : Prop :=
  x.rd.rest = [] ∨ (∃ r, PS.replyOf E id = .ok r ∧ x.rd.rest = writeMessage r) ∨
  (x.eof = true ∧ ∃ r k, PS.replyOf E id = .ok r ∧ k < (writeMessage r).length ∧ x.rd.rest = (writeMessage r).take k)

structure HInv (E : PS.Env) (ops : List Op) (s : State) : Prop where
  quiet : ∀ i, (∀ c, s.pc c ≠ .wait i) → (s.sess i).rd.rest = []
  pend : ∀ c i id, s.pc c = .wait i → opId ops c = some id → PendOk E id (s.sess i)
  res : ∀ c op id, ops[c]? = some op → op.id? = some id →
    (∀ i r, s.pc c = .back i r → Good E id r) ∧ (∀ o, s.pc c = .done o → ∃ r, Good E id r ∧ o = outOf op r)

theorem opId_of {ops : List Op} {c : Nat} {op : Op} {id : Bytes} (h1 : ops[c]? = some op) (h2 : op.id? = some id) :
    opId ops c = some id := by simp [opId, h1, h2]

theorem of_opId {ops : List Op} {c : Nat} {id : Bytes} (h : opId ops c = some id) :
    ∃ op, ops[c]? = some op ∧ op.id? = some id := by
  unfold opId at h
  cases hop : ops[c]? with
  | none => rw [hop] at h; cases h
  | some op => rw [hop] at h; exact ⟨op, rfl, h⟩

/-- a server's step on session `i` while caller `c0` waits on it -/
theorem HInv.env {E : PS.Env} {ops : List Op} {n : Nat} {s : State} (h : HInv E ops s) (hi : Inv ops n s)
    {i c0 : Nat} {id : Bytes} (hc0 : s.pc c0 = .wait i) (hid0 : opId ops c0 = some id) (x : Sess)
    (hx : PendOk E id x) : HInv E ops { s with sess := upd s.sess i x } := by
  refine ⟨fun j hj => ?_, fun c j id' hc hid' => ?_, h.res⟩
  · by_cases e : j = i
    · subst e; exact absurd hc0 (hj c0)
    · simp only [upd_other _ _ e]; exact h.quiet j hj
  · by_cases e : j = i
    · subst e
      have hc' : s.pc c = .wait j := hc
      have : c = c0 := hi.o.heldInj c c0 j (by simp [own, hc', Pc.sess?]) (by simp [own, hc0, Pc.sess?])
      subst this
      rw [hid0] at hid'; injection hid' with hid'; subst hid'
      simpa using hx
    · simp only [upd_other _ _ e]; exact h.pend c j id' hc hid'

/-- a server exits: what has arrived stays -/
theorem HInv.exit {E : PS.Env} {ops : List Op} {s : State} (h : HInv E ops s) (i : Nat) :
    HInv E ops { s with sess := upd s.sess i { s.sess i with eof := true } } := by
  refine ⟨fun j hj => ?_, fun c j id hc hid => ?_, h.res⟩
  · by_cases e : j = i
    · subst e; simpa using h.quiet j hj
    · simp only [upd_other _ _ e]; exact h.quiet j hj
  · by_cases e : j = i
    · subst e
      simp only [upd_same]
      rcases h.pend c j id hc hid with h1 | h1 | ⟨_, h1⟩
      · exact Or.inl h1
      · exact Or.inr (Or.inl h1)
      · exact Or.inr (Or.inr ⟨rfl, h1⟩)
    · simp only [upd_other _ _ e]; exact h.pend c j id hc hid

/-- a caller's step that neither enters nor leaves `wait` and leaves the streams alone -/
theorem HInv.frame {E : PS.Env} {ops : List Op} {s : State} (h : HInv E ops s) (c : Nat) (v : Pc) (pool ret : List Nat)
    (sess' : Nat → Sess) (hs : ∀ i, (sess' i).rd = (s.sess i).rd ∧ (sess' i).eof = (s.sess i).eof)
    (hv : ∀ i, v ≠ .wait i) (hc : ∀ i, s.pc c ≠ .wait i)
    (hres : ∀ op id, ops[c]? = some op → op.id? = some id →
      (∀ i r, v = .back i r → Good E id r) ∧ (∀ o, v = .done o → ∃ r, Good E id r ∧ o = outOf op r)) :
    HInv E ops { s with pool := pool, retired := ret, sess := sess', pc := upd s.pc c v } := by
  have hw : ∀ c' i, upd s.pc c v c' = .wait i ↔ s.pc c' = .wait i := by
    intro c' i
    by_cases e : c' = c
    · subst e; simp only [upd_same]; exact ⟨fun h' => absurd h' (hv i), fun h' => absurd h' (hc i)⟩
    · simp only [upd_other _ _ e]
  refine ⟨fun j hj => ?_, fun c' j id hc' hid => ?_, fun c' op id hop hid => ?_⟩
  · rw [(hs j).1]
    exact h.quiet j (fun c' hc' => hj c' ((hw c' j).2 hc'))
  · have := h.pend c' j id ((hw c' j).1 hc') hid
    unfold PendOk at this ⊢
    rw [(hs j).1, (hs j).2]
    exact this
  · by_cases e : c' = c
    · subst e; simp only [upd_same]; exact hres op id hop hid
    · simp only [upd_other _ _ e]; exact h.res c' op id hop hid

theorem clientReply_nil (H : Bytes → Bytes) (dec : Bytes → Option Bytes) (id : Bytes) (a : Nat) :
    PS.clientReply H dec id ⟨[], a⟩ = (.fail (.read .eof), ⟨[], a⟩) := by
  unfold PS.clientReply
  rw [PS.readMessage_nil]
  simp [PS.failSt]

theorem reqId_reqOf {id : Bytes} (hid : id.length = 32) : PS.reqId (reqOf id).body = id := by
  have hb : (reqOf id).body = le64 Gen.CaProtocolRequestHighPriority ++ id := by
    simp [reqOf, requestMessage, PS.fit32_of_length hid]
  unfold PS.reqId
  rw [List.take_of_length_le (by simp [hb, hid]), hb, List.drop_left' (by simp)]

end Desync.SshPool

namespace Desync.SshPool
open Desync

theorem upd_upd {α : Type} (f : Nat → α) (i : Nat) (a b : α) : upd (upd f i a) i b = upd f i b := by
  funext j; by_cases e : j = i <;> simp [upd, e]

/-- what `recv` makes of a pending stream: a good result, and nothing is left unread -/
theorem recv_good {E : PS.Env} (hz : PS.ZstdOk E) {id : Bytes} (hid : id.length = 32) {x : Sess} (hp : PendOk E id x)
    (hr : x.ready = true) :
    Good E id (PS.clientReply E.H E.z.dec id x.rd).1 ∧ (PS.clientReply E.H E.z.dec id x.rd).2.rest = [] := by
  obtain ⟨rd, eof, sent⟩ := x
  obtain ⟨rest, a⟩ := rd
  rcases hp with h1 | ⟨r, hr1, h1⟩ | ⟨_, r, k, hr1, hk, h1⟩
  · simp only at h1; subst h1
    rw [clientReply_nil]
    exact ⟨Or.inr (Or.inl ⟨_, rfl⟩), rfl⟩
  · simp only at h1; subst h1
    obtain ⟨v, hv, hcr⟩ := (PS.replyOf_verdict E hz id hid).2 r hr1
    have := hcr [] a
    rw [List.append_nil] at this
    simp only [this]
    exact ⟨Or.inl hv, trivial⟩
  · simp only at h1; subst h1
    have hsz := PS.replyOf_size hr1 hid hz.size
    obtain ⟨e, a', hc⟩ := clientReply_cut E.H E.z.dec id r k a hsz hk
    simp only [hc]
    exact ⟨Or.inr (Or.inl ⟨_, rfl⟩), trivial⟩

theorem step_hinv {E : PS.Env} {ops : List Op} {n : Nat} {s s' : State} {e : Ev} (hz : PS.ZstdOk E)
    (hids : ∀ c id, opId ops c = some id → id.length = 32)
    (h : HInv E ops s) (hi : Inv ops n s) (hf : Fits ops s) (hcal : e.isCaller = true)
    (hs : step E.H E.z.dec ops s e = some s') : HInv E ops s' := by
  cases e with
  | srvWrite i b => cases hcal
  | srvExit i => cases hcal
  | call c =>
    simp only [step] at hs
    split at hs
    · injection hs with hs; subst hs
      rename_i hpc hop
      refine h.frame c _ s.pool s.retired s.sess (fun _ => ⟨rfl, rfl⟩) (fun i hv => ?_) (fun i => by rw [hpc]; simp)
        (fun op id hop' hid => ?_)
      · split at hv <;> cases hv
      · rw [hop] at hop'; injection hop' with hop'; subst hop'; cases hid
    · injection hs with hs; subst hs
      rename_i op hne hpc hop
      exact h.frame c _ s.pool s.retired s.sess (fun _ => ⟨rfl, rfl⟩) (fun i hv => by cases hv) (fun i => by rw [hpc]; simp)
        (fun op id _ _ => ⟨fun i r hv => (by cases hv), fun o hv => (by cases hv)⟩)
    · cases hs
  | take c =>
    simp only [step] at hs
    split at hs
    · injection hs with hs; subst hs
      rename_i i p hpc hpool
      exact h.frame c _ p s.retired s.sess (fun _ => ⟨rfl, rfl⟩) (fun i hv => by cases hv) (fun i => by rw [hpc]; simp)
        (fun op id _ _ => ⟨fun i r hv => (by cases hv), fun o hv => (by cases hv)⟩)
    · injection hs with hs; subst hs
      rename_i k err i p hpc hpool
      exact h.frame c _ p s.retired s.sess (fun _ => ⟨rfl, rfl⟩) (fun i hv => by cases hv) (fun i => by rw [hpc]; simp)
        (fun op id _ _ => ⟨fun i r hv => (by cases hv), fun o hv => (by cases hv)⟩)
    · cases hs
  | send c =>
    simp only [step] at hs
    split at hs
    · rename_i i id hpc hid
      split at hs
      · injection hs with hs; subst hs
        refine h.frame c _ s.pool s.retired s.sess (fun _ => ⟨rfl, rfl⟩) (fun i hv => by cases hv) (fun i => by rw [hpc]; simp)
          (fun op id _ _ => ⟨fun i r hv => ?_, fun o hv => (by cases hv)⟩)
        injection hv with _ hv; subst hv
        exact Or.inr (Or.inr rfl)
      · injection hs with hs; subst hs
        have hnow : ∀ c', s.pc c' ≠ .wait i := by
          intro c' hc'
          have : c' = c := hi.o.heldInj c' c i (by simp [own, hc', Pc.sess?]) (by simp [own, hpc, Pc.sess?])
          subst this
          rw [hpc] at hc'; cases hc'
        refine ⟨fun j hj => ?_, fun c' j id' hc' hid' => ?_, fun c' op id' hop hid' => ?_⟩
        · by_cases e : j = i
          · subst e; exact absurd (by simp) (hj c)
          · simp only [upd_other _ _ e]
            refine h.quiet j (fun c' hc' => ?_)
            by_cases e' : c' = c
            · subst e'; rw [hpc] at hc'; cases hc'
            · exact hj c' (by simp only [upd_other _ _ e']; exact hc')
        · by_cases e' : c' = c
          · subst e'
            simp only [upd_same] at hc'
            injection hc' with hc'; subst hc'
            simp only [upd_same]
            exact Or.inl (h.quiet i hnow)
          · simp only [upd_other _ _ e'] at hc'
            have e : j ≠ i := by
              intro e; subst e
              exact hnow c' hc'
            simp only [upd_other _ _ e]
            exact h.pend c' j id' hc' hid'
        · by_cases e' : c' = c
          · subst e'; simp only [upd_same]
            exact ⟨fun i r hv => (by cases hv), fun o hv => (by cases hv)⟩
          · simp only [upd_other _ _ e']; exact h.res c' op id' hop hid'
    · cases hs
  | recv c =>
    simp only [step] at hs
    split at hs
    · rename_i i id hpc hid
      split at hs
      · rename_i hready
        injection hs with hs; subst hs
        have hg := recv_good hz (hids c id hid) (h.pend c i id hpc hid) hready
        have hothers : ∀ c' j, c' ≠ c → s.pc c' = .wait j → j ≠ i := by
          intro c' j hne hc' e
          subst e
          exact hne (hi.o.heldInj c' c j (by simp [own, hc', Pc.sess?]) (by simp [own, hpc, Pc.sess?]))
        refine ⟨fun j hj => ?_, fun c' j id' hc' hid' => ?_, fun c' op id' hop hid' => ?_⟩
        · by_cases e : j = i
          · subst e; simp only [upd_same]; exact hg.2
          · simp only [upd_other _ _ e]
            refine h.quiet j (fun c' hc' => ?_)
            by_cases e' : c' = c
            · subst e'; rw [hpc] at hc'; injection hc' with hc'; exact e hc'.symm
            · exact hj c' (by simp only [upd_other _ _ e']; exact hc')
        · by_cases e' : c' = c
          · subst e'; simp only [upd_same] at hc'; cases hc'
          · simp only [upd_other _ _ e'] at hc'
            have e := hothers c' j e' hc'
            simp only [upd_other _ _ e]
            exact h.pend c' j id' hc' hid'
        · by_cases e' : c' = c
          · subst e'; simp only [upd_same]
            refine ⟨fun i' r hv => ?_, fun o hv => (by cases hv)⟩
            injection hv with _ hv; subst hv
            have := opId_of hop hid'
            rw [hid] at this; injection this with this; subst this
            exact hg.1
          · simp only [upd_other _ _ e']; exact h.res c' op id' hop hid'
      · cases hs
    · cases hs
  | put c =>
    simp only [step] at hs
    split at hs
    · rename_i i r op hpc hop
      split at hs
      · injection hs with hs; subst hs
        refine h.frame c _ _ s.retired s.sess (fun _ => ⟨rfl, rfl⟩) (fun i hv => by cases hv) (fun i => by rw [hpc]; simp)
          (fun op' id hop' hid => ⟨fun i r hv => (by cases hv), fun o hv => ?_⟩)
        injection hv with hv; subst hv
        rw [hop] at hop'; injection hop' with hop'; subst hop'
        exact ⟨r, (h.res c op id hop hid).1 i r hpc, rfl⟩
      · cases hs
    · cases hs
  | bye c =>
    simp only [step] at hs
    split at hs
    · rename_i k i hpc
      injection hs with hs; subst hs
      have hfc := hf c
      rw [hpc] at hfc
      refine h.frame c _ s.pool _ _ (fun j => ?_) (fun i hv => ?_) (fun i => by rw [hpc]; simp)
        (fun op id hop hid => ?_)
      · split
        · exact ⟨rfl, rfl⟩
        · by_cases e : j = i
          · subst e; simp
          · simp [upd_other _ _ e]
      · split at hv <;> cases hv
      · have : ops[c]? = some .close := hfc
        rw [this] at hop; injection hop with hop; subst hop; cases hid
    · cases hs

end Desync.SshPool

namespace Desync.SshPool
open Desync

/-- an honest run is a run of the general machine -/
theorem hstep_reachable {E : PS.Env} {ops : List Op} {s0 s s' : State} {e : HEv}
    (h : Reachable E.H E.z.dec ops s0 s) (hs : hstep E ops s e = some s') : Reachable E.H E.z.dec ops s0 s' := by
  cases e with
  | caller e =>
    simp only [hstep] at hs
    split at hs
    · exact .step h hs
    · cases hs
  | exit i => exact .step h (by simpa [hstep] using hs)
  | reply c =>
    simp only [hstep] at hs
    split at hs
    · split at hs
      · split at hs
        · exact .step h hs
        · exact .step h hs
      · cases hs
    · cases hs
  | cut c k =>
    simp only [hstep] at hs
    split at hs
    · split at hs
      · split at hs
        · split at hs
          · cases h1 : step E.H E.z.dec ops s (.srvWrite _ ((PS.wire _).take k)) with
            | none => rw [h1] at hs; cases hs
            | some s1 =>
              rw [h1] at hs
              exact .step (.step h h1) (by simpa using hs)
          · cases hs
        · cases hs
      · cases hs
    · cases hs

theorem hreachable_reachable {E : PS.Env} {ops : List Op} {s0 s : State} (h : HReachable E ops s0 s) :
    Reachable E.H E.z.dec ops s0 s := by
  induction h with
  | init => exact .init
  | step _ hs ih => exact hstep_reachable ih hs

theorem arm_reqOf {E : PS.Env} {id : Bytes} (hid : id.length = 32) {sent : List Message} {w : Option Nat}
    (h : PS.arm E true none (reqOf id) = .next sent w) : ∃ r, sent = [r] ∧ PS.replyOf E id = .ok r := by
  obtain ⟨r, hr, ⟨_, _, h3⟩, _⟩ := PS.arm_next h
  rw [reqId_reqOf hid] at h3
  exact ⟨r, hr, h3⟩

theorem hstep_hinv {E : PS.Env} {ops : List Op} {n : Nat} {s s' : State} {e : HEv} (hz : PS.ZstdOk E)
    (hids : ∀ c id, opId ops c = some id → id.length = 32)
    (h : HInv E ops s) (hi : Inv ops n s) (hf : Fits ops s) (hs : hstep E ops s e = some s') : HInv E ops s' := by
  cases e with
  | caller e =>
    simp only [hstep] at hs
    split at hs
    · rename_i hcal; exact step_hinv hz hids h hi hf hcal hs
    · cases hs
  | exit i =>
    simp only [hstep, step] at hs
    split at hs
    · cases hs
    · injection hs with hs; subst hs; exact h.exit i
  | reply c =>
    simp only [hstep] at hs
    split at hs
    · rename_i i id hpc hid
      split at hs
      · rename_i hun
        have hrest : (s.sess i).rd.rest = [] := by
          simp only [Sess.unanswered, Bool.and_eq_true, List.isEmpty_iff] at hun; exact hun.1
        split at hs
        · rename_i sent w harm
          obtain ⟨r, hsent, hrep⟩ := arm_reqOf (hids c id hid) harm
          simp only [step] at hs
          split at hs
          · cases hs
          · injection hs with hs; subst hs
            refine h.env hi hpc hid _ (Or.inr (Or.inl ⟨r, hrep, ?_⟩))
            simp [hrest, hsent]
        · simp only [step] at hs
          split at hs
          · cases hs
          · injection hs with hs; subst hs; exact h.exit i
      · cases hs
    · cases hs
  | cut c k =>
    simp only [hstep] at hs
    split at hs
    · rename_i i id hpc hid
      split at hs
      · rename_i hun
        have hrest : (s.sess i).rd.rest = [] := by
          simp only [Sess.unanswered, Bool.and_eq_true, List.isEmpty_iff] at hun; exact hun.1
        have heof : (s.sess i).eof = false := by
          simp only [Sess.unanswered, Bool.and_eq_true, Bool.not_eq_true'] at hun; exact hun.2
        split at hs
        · rename_i sent w harm
          obtain ⟨r, hsent, hrep⟩ := arm_reqOf (hids c id hid) harm
          split at hs
          · rename_i hk
            simp only [step, heof, Bool.false_eq_true, ↓reduceIte, Option.bind_some, upd_same] at hs
            injection hs with hs; subst hs
            rw [upd_upd]
            refine h.env hi hpc hid _ (Or.inr (Or.inr ⟨rfl, r, k, hrep, ?_, ?_⟩))
            · simpa [hsent] using hk
            · simp [hrest, hsent]
          · cases hs
        · cases hs
      · cases hs
    · cases hs

structure HAll (E : PS.Env) (ops : List Op) (n : Nat) (s : State) : Prop where
  hinv : HInv E ops s
  inv : Inv ops n s
  fits : Fits ops s

theorem hreachable_all {E : PS.Env} {ops : List Op} {n : Nat} {s : State} (hz : PS.ZstdOk E)
    (hids : ∀ c id, opId ops c = some id → id.length = 32) (h : HReachable E ops (init n) s) : HAll E ops n s := by
  induction h with
  | init =>
    refine ⟨⟨fun _ _ => rfl, fun c i id hc _ => (by cases hc), fun c op id _ _ => ⟨fun i r hv => (by cases hv), fun o hv => (by cases hv)⟩⟩,
      Inv.init ops n, fun _ => trivial⟩
  | step hr hs ih =>
    have hreach := hstep_reachable (hreachable_reachable hr) hs
    exact ⟨hstep_hinv hz hids ih.hinv ih.inv ih.fits hs, reachable_inv hreach, reachable_fits hreach⟩

end Desync.SshPool
