import Desync.Model.CancelSeq

namespace Desync.CancelSeq
open Desync

/-- a run of `UnTar` that ends in success went through the whole archive: it is the uncancelled run -/
theorem untarNodesC_ok (c : Option Nat) : ∀ (fuel poll : Nat) (a : ArchDec) (acc ns : List Node),
    untarNodesC c fuel poll a acc = .done (.ok ns) → untarNodes fuel a acc = .ok ns := by
  intro fuel
  induction fuel with
  | zero => intro poll a acc ns h; simp [untarNodesC] at h
  | succ fuel ih =>
    intro poll a acc ns h
    unfold untarNodesC at h
    split at h
    · cases h
    · unfold untarNodes
      cases hn : a.next with
      | ok p =>
        obtain ⟨n, a'⟩ := p
        rw [hn] at h
        cases n with
        | none =>
          simp only at h
          simpa [bind, pure] using h
        | some n =>
          simp only at h
          have := ih _ _ _ _ h
          simpa [bind] using this
      | err e => rw [hn] at h; simp at h
      | panic s => rw [hn] at h; simp at h

/-- without cancellation the loop is the plain `UnTar` -/
theorem untarNodesC_none : ∀ (fuel poll : Nat) (a : ArchDec) (acc : List Node),
    untarNodesC none fuel poll a acc = .done (untarNodes fuel a acc) := by
  intro fuel
  induction fuel with
  | zero => intro poll a acc; simp [untarNodesC, untarNodes]
  | succ fuel ih =>
    intro poll a acc
    unfold untarNodesC untarNodes
    simp only [cancelled, Bool.false_eq_true, if_false]
    cases hn : a.next with
    | ok p =>
      obtain ⟨n, a'⟩ := p
      cases n with
      | none => simp [bind, pure]
      | some n => simp [bind, ih]
    | err e => simp [bind]
    | panic s => simp [bind]

/-- a context that is already cancelled at the first poll never yields success -/
theorem untarC_cancelled_at_start (b : Bytes) : untarC (some 0) b = .interrupted := by
  simp [untarC, untarNodesC, cancelled]

theorem untarC_ok (c : Option Nat) (b : Bytes) (ns : List Node) (h : untarC c b = .done (.ok ns)) :
    untar b = .ok ns :=
  untarNodesC_ok c _ _ _ _ _ h

/-- cancellation observed at poll `k`, with the archive holding more than `k` nodes, ends in `Interrupted` -/
theorem untarNodesC_interrupted (k : Nat) : ∀ (fuel poll : Nat) (a : ArchDec) (acc ns : List Node),
    untarNodes fuel a acc = .ok ns → poll ≤ k → k < poll + (ns.length - acc.length) + 1 →
    untarNodesC (some k) fuel poll a acc = .interrupted := by
  intro fuel
  induction fuel with
  | zero => intro poll a acc ns h; simp [untarNodes] at h
  | succ fuel ih =>
    intro poll a acc ns h hle hlt
    unfold untarNodesC
    by_cases hc : cancelled (some k) poll = true
    · simp [hc]
    · simp only [hc, Bool.false_eq_true, if_false]
      have hpk : poll < k := by
        simp [cancelled] at hc; omega
      unfold untarNodes at h
      cases hn : a.next with
      | ok p =>
        obtain ⟨n, a'⟩ := p
        rw [hn] at h
        cases n with
        | none =>
          simp [bind, pure] at h
          subst h
          simp at hlt
          omega
        | some n =>
          simp [bind] at h
          simp only
          apply ih _ _ _ _ h (by omega)
          simp only [List.length_cons]
          omega
      | err e => rw [hn] at h; simp [bind] at h
      | panic s => rw [hn] at h; simp [bind] at h

/-! ### UnTarIndex -/

theorem untarOn_eof {w : Bytes} {ns : List Node} (h : untarOn w .eof = some ns) : untar w = .ok ns := by
  unfold untarOn at h
  simp only at h
  split at h
  · rename_i ns' hu; simp at h; rw [hu, h]
  · cases h

theorem untarOn_err (w : Bytes) : untarOn w .err = none := rfl

/-- **success means the whole archive was unpacked**: with an assembler that closes the pipe with an
    error when cancelled, a nil result of `UnTarIndex` comes with exactly the nodes of the complete
    archive (the concatenation of all chunks), whenever and wherever the cancellation arrived -/
theorem unTarIndex_success_complete (chunks : List Bytes) (cancelAt : Option Nat) (f w : Bool)
    (ns : List Node) (h : unTarIndex true chunks cancelAt f w = some ns) :
    untar chunks.flatten = .ok ns ∧ f = true ∧ w = true := by
  unfold unTarIndex at h
  simp only at h
  split at h
  · rename_i ns' hu
    split at h
    · rename_i hcond
      simp at h; subst h
      simp only [Bool.and_eq_true] at hcond
      obtain ⟨⟨hf, hw⟩, hn⟩ := hcond
      refine ⟨?_, hf, hw⟩
      cases hc : cancelAt with
      | none => rw [hc] at hu; exact untarOn_eof (by simpa [assembler] using hu)
      | some k =>
        rw [hc] at hu hn
        by_cases hk : k ≤ chunks.length
        · simp [assembler, hk] at hn
        · simp only [assembler, hk, if_false] at hu
          exact untarOn_eof hu
    · cases h
  · cases h

/-- **the pre-fix assembler** (`break loop`, clean close): whenever the bytes written so far happen to be an
    archive `UnTar` accepts — the index is cut at a node boundary — `UnTarIndex` reports success with only
    the nodes of that prefix, the chunks still queued having been dropped -/
theorem legacy_assembler_drops_chunks (chunks : List Bytes) (k : Nat) (hk : k ≤ chunks.length)
    (ns : List Node) (hacc : untar (chunks.take k).flatten = .ok ns) :
    unTarIndex false chunks (some k) true true = some ns := by
  simp [unTarIndex, assembler, hk, untarOn, hacc]

/-- without cancellation and with every fetch succeeding the result is `UnTar` of the whole archive -/
theorem unTarIndex_no_cancel (cwe : Bool) (chunks : List Bytes) (ns : List Node)
    (h : untar chunks.flatten = .ok ns) : unTarIndex cwe chunks none true true = some ns := by
  simp [unTarIndex, assembler, untarOn, h]

end Desync.CancelSeq
